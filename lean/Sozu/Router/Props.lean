import Sozu.Router.Lemmas
/-
C04 — routing depends only on the configured frontends, by documented
precedence. Property theorems `C04_*` on the model of the code as it is after the fixes
b632e1a (PathRule::eq Equals arm) and 3989b45 (rank-based selection):
`_partial` = explicit hypothesis + `_counterexample` by `decide` for the excluded
point (the three open findings F28-F30); `_regression_*` = former witnesses,
and non-vacuity examples. Helper lemmas: `Sozu/Trie/Lemmas.lean`,
`Sozu/Router/Lemmas.lean`.
-/
set_option linter.unusedSimpArgs false
set_option linter.unusedVariables false
namespace Sozu.Router
open Sozu Sozu.Trie

/-! ### trie refinement -/

/-- C04 (trie): after **any** history of inserts and removes of regex-free keys,
    the trie's lookup of a request hostname is the abstract map's lookup with
    exact-over-wildcard precedence (single-label wildcard). -/
theorem C04_trie_refines_map_partial {V : Type} (re : Bytes → Bytes → Bool) (ops : List (TOp V)) (q : PKey) :
    Trie.lookup re true (ops.foldl tstep (Node.root : Node V)) (qSegs q.1 q.2) = mlookup (ops.foldl mstep []) q := by
  obtain ⟨hwf, hget⟩ := trel_run ops _ _ trel_root
  rw [lookup_eq re q.1 q.2 _ hwf, mlookup, hget q, hget (q.1, [STAR])]

/-! ### precedence and order independence (tree leaf) -/

/-- C04 (precedence, tree leaf) — unconditional since the rank-based selection:
    for every rule list, request and regex oracle, the loop returns nothing
    only if no rule matches, and otherwise the route of a rule whose documented
    rank (`Spec.rank`: EQUALS > REGEX > PREFIX, longer prefix, method-specific)
    no other rule of the leaf exceeds. -/
theorem C04_lookup_in_spec (o : Oracle) (host path method : Bytes) (l : List Rule3) :
    (selectLeaf o l path method = none ∧ ∀ c ∈ l, Spec.rank o (feOf host c) path method = none) ∨
    (∃ r ∈ l, ∃ k, selectLeaf o l path method = some r.2.2 ∧ Spec.rank o (feOf host r) path method = some k ∧
        ∀ c ∈ l, ∀ kc, Spec.rank o (feOf host c) path method = some kc → Spec.rankLt k kc = false) := by
  simp only [feOf, ← ruleRank_eq_spec, ← rankGt_eq_specLt]
  exact select_good o path method l

/-- C04 (order independence, tree leaf): two orderings `l`, `l'` of the same
    rules give the same answer for a request, provided the rules have pairwise
    distinct `(path, method)` keys (which `add_tree_rule` guarantees) and **at
    most one REGEX rule attains the maximal rank** for that request — the one
    case the documentation leaves unordered. -/
theorem C04_order_independent (o : Oracle) (path method : Bytes) (l l' : List Rule3)
    (hperm : l.Perm l')
    (hkeys : l.Pairwise (fun a b => ¬ (a.1 = b.1 ∧ a.2.1 = b.2.1)))
    (hregex : ∀ a ∈ l, ∀ b ∈ l, ∀ k, ruleRank o path method a = some k → ruleRank o path method b = some k →
        (∀ c ∈ l, ∀ kc, ruleRank o path method c = some kc → rankGt kc k = false) →
        (∃ s s', a.1 = .regex s ∧ b.1 = .regex s') → a = b) :
    selectLeaf o l path method = selectLeaf o l' path method := by
  rcases select_good o path method l with ⟨hn, hall⟩ | ⟨r, hr, k, hs, hk, hmax⟩
  · rcases select_good o path method l' with ⟨hn', _⟩ | ⟨r', hr', k', _, hk', _⟩
    · rw [hn, hn']
    · rw [hall r' (hperm.mem_iff.mpr hr')] at hk'; cases hk'
  · rcases select_good o path method l' with ⟨_, hall'⟩ | ⟨r', hr', k', hs', hk', hmax'⟩
    · rw [hall' r (hperm.mem_iff.mp hr)] at hk; cases hk
    · have hr'l : r' ∈ l := hperm.mem_iff.mpr hr'
      have e : k' = k := rank_eq_of_not_gt (hmax r' hr'l k' hk') (hmax' r (hperm.mem_iff.mp hr) k hk)
      subst e
      have : r = r' := by
        rcases same_rank_same_key o path method r r' k' hk hk' with hre | ⟨h1, h2⟩
        · exact hregex r hr r' hr'l k' hk hk' hmax hre
        · exact mem_same_key hkeys r hr r' hr'l h1 h2
      rw [hs, hs', this]

/-- the same, for the whole tree lookup of two routers whose selected leaves
    hold the same rules in different orders -/
theorem C04_order_independent_tree (o : Oracle) (t t' : Node (List Rule3)) (host path method : Bytes)
    (k k' : Bytes) (l l' : List Rule3)
    (ht : domainLookup o.seg t host true = some (k, l)) (ht' : domainLookup o.seg t' host true = some (k', l'))
    (hperm : l.Perm l')
    (hkeys : l.Pairwise (fun a b => ¬ (a.1 = b.1 ∧ a.2.1 = b.2.1)))
    (hregex : ∀ a ∈ l, ∀ b ∈ l, ∀ k, ruleRank o path method a = some k → ruleRank o path method b = some k →
        (∀ c ∈ l, ∀ kc, ruleRank o path method c = some kc → rankGt kc k = false) →
        (∃ s s', a.1 = .regex s ∧ b.1 = .regex s') → a = b) :
    lookupTree o t host path method = lookupTree o t' host path method := by
  simp only [lookupTree, ht, ht']
  exact C04_order_independent o path method l l' hperm hkeys hregex

/-! ### add / remove of a tree frontend, seen through `get` -/

/-! ### removal -/

/-- C04 (removed never routes, tree part): after `remove_tree_rule` of **any**
    frontend (PREFIX, REGEX or EQUALS path) on a regex-free trie, the leaf of
    that host holds no rule with the removed `(path, method)` key, and every
    other leaf is untouched. -/
theorem C04_removed_never_routes (o : Oracle) (t : Node (List Rule3)) (hwf : WF t)
    (host : Bytes) (ds : List Bytes) (l : Bytes) (hsplit : splitKey host = some (keySteps ds l))
    (p : PathRule) (m : MethodRule) :
    WF (removeTree o t host p m).1 ∧
    (∀ key rules, get (removeTree o t host p m).1 (keySteps ds l) = some (key, rules) →
        ∀ x ∈ rules, ¬ (x.1 = p ∧ x.2.1 = m)) ∧
    (∀ ds' l', (ds', l') ≠ (ds, l) →
        get (removeTree o t host p m).1 (keySteps ds' l') = get t (keySteps ds' l')) := by
  obtain ⟨h1, h2, h3⟩ := removeTree_spec o t hwf host ds l hsplit p m
  refine ⟨h1, ?_, h3⟩
  intro key rules hg x hx hxe
  rw [h2] at hg
  cases hq : get t (keySteps ds l) with
  | none => rw [hq] at hg; cases hg
  | some kv =>
    rw [hq] at hg
    simp only [] at hg
    split at hg
    · cases hg
    · simp only [Option.some.injEq, Prod.mk.injEq] at hg
      obtain ⟨_, rfl⟩ := hg
      simp only [keepRules, List.mem_filter, Bool.not_eq_eq_eq_not, Bool.not_true] at hx
      have := (sameKey3_iff p m x).mpr hxe
      rw [this] at hx; exact absurd hx.2 (by simp)

/-! ### irrelevant change -/

/-- C04 (irrelevant change, tree part, add): adding a tree frontend for host key
    `(ds, l)` to a regex-free trie changes no leaf but that host's, so every
    request whose exact key and wildcard key both differ from `(ds, l)` — i.e.
    whose host the pattern does not match — keeps its tree lookup. -/
theorem C04_irrelevant_change_add (o : Oracle) (t t' : Node (List Rule3)) (hwf : WF t)
    (host : Bytes) (ds : List Bytes) (l : Bytes) (hsplit : splitKey host = some (keySteps ds l))
    (p : PathRule) (m : MethodRule) (r : Route) (b : Bool) (hadd : addTree o t host p m r = some (t', b))
    (qhost : Bytes) (qds : List Bytes) (ql : Bytes) (hq : splitHost qhost = qSegs qds ql)
    (hne1 : (qds, ql) ≠ (ds, l)) (hne2 : (qds, [STAR]) ≠ (ds, l)) (path method : Bytes) :
    lookupTree o t' qhost path method = lookupTree o t qhost path method := by
  obtain ⟨hwf', _, hother⟩ := addTree_spec o t t' hwf host ds l hsplit p m r b hadd
  exact lookupTree_congr o t t' hwf hwf' qhost qds ql hq (hother qds ql hne1) (hother qds [STAR] hne2) path method

/-- C04 (irrelevant change, tree part, remove): the same for `remove_tree_rule`. -/
theorem C04_irrelevant_change_remove (o : Oracle) (t : Node (List Rule3)) (hwf : WF t)
    (host : Bytes) (ds : List Bytes) (l : Bytes) (hsplit : splitKey host = some (keySteps ds l))
    (p : PathRule) (m : MethodRule)
    (qhost : Bytes) (qds : List Bytes) (ql : Bytes) (hq : splitHost qhost = qSegs qds ql)
    (hne1 : (qds, ql) ≠ (ds, l)) (hne2 : (qds, [STAR]) ≠ (ds, l)) (path method : Bytes) :
    lookupTree o (removeTree o t host p m).1 qhost path method = lookupTree o t qhost path method := by
  obtain ⟨hwf', _, hother⟩ := removeTree_spec o t hwf host ds l hsplit p m
  exact lookupTree_congr o t _ hwf hwf' qhost qds ql hq (hother qds ql hne1) (hother qds [STAR] hne2) path method

/-! ### pre / post lists -/

/-- C04 (irrelevant change, pre/post, add): a pre/post rule that does not match
    the request does not change the list's answer when added. -/
theorem C04_irrelevant_change_prepost_add (o : Oracle) (l : List Rule4) (d : DomainRule) (p : PathRule)
    (m : MethodRule) (r : Route) (host path method : Bytes)
    (hno : rule4Matches o host path method (d, p, m, r) = false) :
    scanList o (addList l d p m r).1 host path method = scanList o l host path method := by
  simp only [addList]
  split
  · rfl
  · simp only [scanList_eq, List.find?_append]
    cases h : List.find? (rule4Matches o host path method) l <;> simp [hno]

/-- C04 (irrelevant change, pre/post, remove; also: removal keeps the order of
    the survivors): removing the rule of key `(d, p, m)` does not change the
    list's answer for a request that this rule does not match. -/
theorem C04_irrelevant_change_prepost_remove (o : Oracle) (l : List Rule4) (d : DomainRule) (p : PathRule)
    (m : MethodRule) (host path method : Bytes)
    (hno : ∀ x ∈ l, sameKey4 d p m x = true → rule4Matches o host path method x = false) :
    scanList o (removeList l d p m).1 host path method = scanList o l host path method := by
  simp only [removeList]
  split
  · simp only [scanList_eq, find?_removeFirst_nomatch _ _ l hno]
  · rfl

/-- C04 (removed never routes, pre/post): in a list with pairwise distinct keys
    (which `add_pre_rule`/`add_post_rule` guarantee), after `remove_*_rule` no
    rule with the removed key remains. -/
theorem C04_removed_never_routes_prepost (l : List Rule4) (d : DomainRule) (p : PathRule) (m : MethodRule)
    (h : PPKeys l) : ∀ x ∈ (removeList l d p m).1, sameKey4 d p m x = false := by
  simp only [removeList]
  split
  · exact removeFirst_nokey d p m l h
  · next hany =>
    intro x hx
    cases hs : sameKey4 d p m x with
    | false => rfl
    | true => exact absurd (List.any_eq_true.mpr ⟨x, hx, hs⟩) hany

/-! ### history-wide: the tree is a function of the configured set -/

/-- C04 (history-wide abstraction): after **every** history of add/remove
    operations (pre, post and regex-free tree frontends; failing operations
    included) the host trie is well formed, has no empty leaf, and the leaf of
    each host holds exactly the Spec's configured tree frontends of that host,
    in configuration order; keys of no configured host have no leaf; the
    pre/post lists have pairwise distinct keys (`Inv`) and are exactly the
    Spec's pre/post frontends in configuration order (`PInv`). -/
theorem C04_tree_is_configured_set (o : Oracle) (ops : List Op) (hg : GoodHistory ops) :
    Inv (treeHosts ops) (run o ops) (Spec.run ops) ∧ PInv (treeHosts ops) (run o ops) (Spec.run ops) :=
  both_of_good o ops hg (treeHosts ops) (treeHosts_good hg) (fun _ h => h)

/-- every reachable tree is well formed, so the single-step theorems
    (`C04_removed_never_routes`, `C04_irrelevant_change_*`) apply after any history -/
theorem C04_reachable_wf (o : Oracle) (ops : List Op) (hg : GoodHistory ops) : WF (run o ops).tree :=
  (C04_tree_is_configured_set o ops hg).1.wf

/-- C04 (order independence, history-wide): two histories (adds, removes,
    failing operations, any interleaving) that configure, for every host, the
    same tree frontends up to order give the same tree lookup for every
    request, provided at most one REGEX rule of a host attains the maximal
    rank for that request. -/
theorem C04_order_independent_history (o : Oracle) (ops₁ ops₂ : List Op) (hg : GoodHistory (ops₁ ++ ops₂))
    (hsame : ∀ H, (specLeaf (Spec.run ops₁) H).Perm (specLeaf (Spec.run ops₂) H))
    (qhost : Bytes) (qds : List Bytes) (ql : Bytes) (hq : splitHost qhost = qSegs qds ql) (path method : Bytes)
    (hregex : ∀ H, AtMostOneRegexAtMax o path method (specLeaf (Spec.run ops₁) H)) :
    lookupTree o (run o ops₁).tree qhost path method = lookupTree o (run o ops₂).tree qhost path method := by
  have hp := goodHistory_proper hg
  have hHs : treeHosts (ops₁ ++ ops₂) = treeHosts ops₁ ++ treeHosts ops₂ := by simp [treeHosts]
  have I₁ : Inv (treeHosts (ops₁ ++ ops₂)) (run o ops₁) (Spec.run ops₁) :=
    inv_run o _ hp.inj ops₁ _ _ (inv_init _) (fun op h => hp.proper op (by simp [h]))
      (fun op hop h0 h1 => by rw [hHs]; exact List.mem_append_left _ (mem_treeHosts hop h0 h1))
  have I₂ : Inv (treeHosts (ops₁ ++ ops₂)) (run o ops₂) (Spec.run ops₂) :=
    inv_run o _ hp.inj ops₂ _ _ (inv_init _) (fun op h => hp.proper op (by simp [h]))
      (fun op hop h0 h1 => by rw [hHs]; exact List.mem_append_right _ (mem_treeHosts hop h0 h1))
  have hS₁ := spec_keys ops₁ [] List.Pairwise.nil
  -- per key: the two leaves are permutations, with distinct keys and the regex condition
  have hleaf : ∀ ds l, (leafRules (run o ops₁).tree ds l).Perm (leafRules (run o ops₂).tree ds l) ∧
      (leafRules (run o ops₁).tree ds l).Pairwise (fun a b => ¬ (a.1 = b.1 ∧ a.2.1 = b.2.1)) ∧
      AtMostOneRegexAtMax o path method (leafRules (run o ops₁).tree ds l) := by
    intro ds l
    by_cases hex : ∃ H ∈ treeHosts (ops₁ ++ ops₂), splitKey H = some (keySteps ds l)
    · obtain ⟨H, hH, hsp⟩ := hex
      rw [I₁.leaf H hH ds l hsp, I₂.leaf H hH ds l hsp]
      exact ⟨hsame H, specLeaf_keys _ hS₁ H, hregex H⟩
    · have hall : ∀ H ∈ treeHosts (ops₁ ++ ops₂), splitKey H ≠ some (keySteps ds l) :=
        fun H hH e => hex ⟨H, hH, e⟩
      have e1 := (get_none_iff_leafRules I₁ ds l).mp (I₁.foreign ds l hall)
      have e2 := (get_none_iff_leafRules I₂ ds l).mp (I₂.foreign ds l hall)
      rw [e1, e2]
      exact ⟨List.Perm.refl _, List.Pairwise.nil, by intro a ha; cases ha⟩
  -- the selection on one key agrees
  have hsel : ∀ ds l,
      (match get (run o ops₁).tree (keySteps ds l) with
        | some kv => some (selectLeaf o kv.2 path method) | none => none) =
      (match get (run o ops₂).tree (keySteps ds l) with
        | some kv => some (selectLeaf o kv.2 path method) | none => none) := by
    intro ds l
    obtain ⟨hperm, hkeys, hre⟩ := hleaf ds l
    cases hg1 : get (run o ops₁).tree (keySteps ds l) with
    | none =>
      have := (get_none_iff_leafRules I₁ ds l).mp hg1
      rw [this] at hperm
      have h2 := (get_none_iff_leafRules I₂ ds l).mpr (List.Perm.nil_eq hperm).symm
      rw [h2]
    | some kv1 =>
      cases hg2 : get (run o ops₂).tree (keySteps ds l) with
      | none =>
        have := (get_none_iff_leafRules I₂ ds l).mp hg2
        rw [this] at hperm
        have h1 := (get_none_iff_leafRules I₁ ds l).mpr (List.Perm.eq_nil hperm)
        rw [h1] at hg1; cases hg1
      | some kv2 =>
        simp only [leafRules, hg1, hg2] at hperm hkeys hre
        simp only [Option.some.injEq]
        exact C04_order_independent o path method kv1.2 kv2.2 hperm hkeys hre
  simp only [lookupTree, domainLookup, hq, lookup_eq o.seg qds ql _ I₁.wf, lookup_eq o.seg qds ql _ I₂.wf]
  have a := hsel qds ql
  have b := hsel qds [STAR]
  cases hg1 : get (run o ops₁).tree (keySteps qds ql) <;> cases hg2 : get (run o ops₂).tree (keySteps qds ql) <;>
    simp only [hg1, hg2] at a <;> try (cases a; done)
  · simp only [Option.orElse]
    cases hw1 : get (run o ops₁).tree (keySteps qds [STAR]) <;> cases hw2 : get (run o ops₂).tree (keySteps qds [STAR]) <;>
      simp only [hw1, hw2] at b <;> try (cases b; done)
    · rfl
    · simpa using b
  · simpa using a

/-! ### end to end: `Router::lookup` is the Spec's route of the configured set -/

/-- C04 (end to end): for every history of add/remove operations (pre, post,
    tree frontends with plain regex-free hostnames; failing operations
    included), every regex oracle and every request with a non-degenerate
    hostname, `Router::lookup` returns one of the answers the Spec admits for
    the *set* of configured frontends: first matching pre rule in order, else
    the most specific host (exact over single-label wildcard), within it the
    rule of maximal rank (EQUALS > REGEX > PREFIX, longer prefix,
    method-specific), else the first matching post rule, else no route. -/
theorem C04_route_is_spec (o : Oracle) (ops : List Op) (hg : GoodHistory ops)
    (host : Bytes) (hh : GoodHost host) (path method : Bytes) :
    Spec.admissible (lookupRoute o (run o ops) host path method)
      (Spec.route o (Spec.run ops) host path method) = true := by
  obtain ⟨hI, hP⟩ := both_of_good o ops hg (treeHosts ops) (treeHosts_good hg) (fun _ h => h)
  exact route_admissible o _ (treeHosts_good hg) _ _ hI hP host hh path method

/-- C04 (end to end, unique answer): whenever the Spec admits exactly one
    answer (always, unless two REGEX rules of the selected host tie at the
    maximal rank), the lookup *is* that answer — it is a function of the
    configured set and the request alone. -/
theorem C04_route_is_spec_unique (o : Oracle) (ops : List Op) (hg : GoodHistory ops)
    (host : Bytes) (hh : GoodHost host) (path method : Bytes) (x : Option Route)
    (hx : Spec.route o (Spec.run ops) host path method = [x]) :
    lookupRoute o (run o ops) host path method = x := by
  have h := C04_route_is_spec o ops hg host hh path method
  rw [hx] at h
  simpa [Spec.admissible] using h

/-- C04 (order independence, Router level): two histories with the same
    pre frontends and the same post frontends in the same order, and, for every
    host, the same tree frontends up to order, route every request alike —
    remaining hypotheses: hostnames of tree frontends regex-free
    (`GoodHistory`), and at most one REGEX rule of a host at the maximal rank
    for the request (`AtMostOneRegexAtMax`). -/
theorem C04_order_independent_router (o : Oracle) (ops₁ ops₂ : List Op) (hg : GoodHistory (ops₁ ++ ops₂))
    (hpre : (Spec.run ops₁).filter (fun fe => fe.pos == 0) = (Spec.run ops₂).filter (fun fe => fe.pos == 0))
    (hpost : (Spec.run ops₁).filter (fun fe => fe.pos == 1) = (Spec.run ops₂).filter (fun fe => fe.pos == 1))
    (htree : ∀ H, (specLeaf (Spec.run ops₁) H).Perm (specLeaf (Spec.run ops₂) H))
    (host : Bytes) (hh : GoodHost host) (path method : Bytes)
    (hregex : ∀ H, AtMostOneRegexAtMax o path method (specLeaf (Spec.run ops₁) H)) :
    lookupRoute o (run o ops₁) host path method = lookupRoute o (run o ops₂) host path method := by
  have hg1 : GoodHistory ops₁ := fun op h => hg op (by simp [h])
  have hg2 : GoodHistory ops₂ := fun op h => hg op (by simp [h])
  obtain ⟨_, hP1⟩ := both_of_good o ops₁ hg1 (treeHosts ops₁) (treeHosts_good hg1) (fun _ h => h)
  obtain ⟨_, hP2⟩ := both_of_good o ops₂ hg2 (treeHosts ops₂) (treeHosts_good hg2) (fun _ h => h)
  obtain ⟨qds, ql, _, _, _, hq⟩ := host_split hh
  have ht := C04_order_independent_history o ops₁ ops₂ hg htree host qds ql hq path method hregex
  simp only [lookupRoute, ht, hP1.pre, hP2.pre, hP1.post, hP2.post, specList, hpre, hpost]

/-- C04 (irrelevant change, Router level): after any good history, an add or a
    remove of a frontend that is irrelevant for a request (`FrontIrrelevant`:
    a pre/post rule not matching the request; a tree frontend whose host
    pattern does not match the request's host) leaves that request's route
    unchanged — whether the operation succeeds or fails. -/
theorem C04_irrelevant_change (o : Oracle) (ops : List Op) (hg : GoodHistory ops) (op : Op)
    (hop : GoodFront (frontOf op)) (host : Bytes) (hh : GoodHost host) (path method : Bytes)
    (hirr : FrontIrrelevant o (frontOf op) host path method) :
    lookupRoute o (step o (run o ops) op) host path method = lookupRoute o (run o ops) host path method := by
  obtain ⟨hI, hP⟩ := both_of_good o ops hg (treeHosts ops) (treeHosts_good hg) (fun _ h => h)
  obtain ⟨qds, ql, _, _, _, hq⟩ := host_split hh
  cases op with
  | add f =>
    simp only [frontOf] at hop hirr
    simp only [step, addFront]
    cases hpath : pathOfFront f with
    | none => rfl
    | some p =>
      cases hdom : parseDomain f.host f.hostOk with
      | none => rfl
      | some d =>
        simp only []
        by_cases h0 : f.pos = 0
        · simp only [FrontIrrelevant, h0, true_or, ↓reduceIte] at hirr
          simp only [h0, ↓reduceIte, lookupRoute]
          rw [C04_irrelevant_change_prepost_add o _ d p f.method _ host path method (hirr p d hpath hdom)]
        · by_cases h1 : f.pos = 1
          · simp only [FrontIrrelevant, h1, or_true, ↓reduceIte] at hirr
            simp only [h0, h1, Nat.one_ne_zero, ↓reduceIte, lookupRoute]
            rw [C04_irrelevant_change_prepost_add o _ d p f.method _ host path method (hirr p d hpath hdom)]
          · simp only [FrontIrrelevant, h0, h1, or_self, ↓reduceIte] at hirr
            simp only [h0, h1, Nat.one_ne_zero, ↓reduceIte]
            obtain ⟨ds, l, _, _, hk, hs⟩ := good_split (hop h0 h1)
            obtain ⟨hne1, hne2⟩ := irrelevant_keys (hop h0 h1) hq hirr hk
            cases hadd : addTree o (run o ops).tree f.host p f.method (routeOfFront f) with
            | none => rfl
            | some x =>
              simp only [lookupRoute]
              rw [C04_irrelevant_change_add o _ x.1 hI.wf f.host ds l hs p f.method _ x.2 (by simpa using hadd)
                host qds ql hq hne1 hne2 path method]
  | remove f =>
    simp only [frontOf] at hop hirr
    simp only [step, removeFront]
    cases hpath : pathOfFront f with
    | none => rfl
    | some p =>
      simp only []
      by_cases h0 : f.pos = 0
      · simp only [FrontIrrelevant, h0, true_or, ↓reduceIte] at hirr
        simp only [h0, ↓reduceIte]
        cases hdom : parseDomain f.host f.hostOk with
        | none => rfl
        | some d =>
          simp only [lookupRoute]
          rw [C04_irrelevant_change_prepost_remove o _ d p f.method host path method
            (fun x _ hk => by rw [rule4Matches_key o host path method x d p f.method (routeOfFront f) hk]; exact hirr p d hpath hdom)]
      · by_cases h1 : f.pos = 1
        · simp only [FrontIrrelevant, h1, or_true, ↓reduceIte] at hirr
          simp only [h0, h1, Nat.one_ne_zero, ↓reduceIte]
          cases hdom : parseDomain f.host f.hostOk with
          | none => rfl
          | some d =>
            simp only [lookupRoute]
            rw [C04_irrelevant_change_prepost_remove o _ d p f.method host path method
              (fun x _ hk => by rw [rule4Matches_key o host path method x d p f.method (routeOfFront f) hk]; exact hirr p d hpath hdom)]
        · simp only [FrontIrrelevant, h0, h1, or_self, ↓reduceIte] at hirr
          simp only [h0, h1, Nat.one_ne_zero, ↓reduceIte, lookupRoute]
          obtain ⟨ds, l, _, _, hk, hs⟩ := good_split (hop h0 h1)
          obtain ⟨hne1, hne2⟩ := irrelevant_keys (hop h0 h1) hq hirr hk
          rw [C04_irrelevant_change_remove o _ hI.wf f.host ds l hs p f.method host qds ql hq hne1 hne2 path method]


/-! ### listener glue: HSTS refresh, `Host` / `:authority` parsing, proxy-level refusals -/

/-- C04 (a listener-default HSTS patch does not change routing): after
    `refresh_inheriting_hsts` — on any router state, for any request — the
    same rule is selected and its routing decision (cluster, redirect policy
    and scheme, template, rewrites, auth) is unchanged; only the response
    header edits differ. -/
theorem C04_hsts_refresh_preserves_route (o : Oracle) (edit : Bool) (s : Router) (host path method : Bytes) :
    (lookupRoute o (refreshHsts edit s) host path method).map decision =
      (lookupRoute o s host path method).map decision := by
  rw [lookupRoute_refresh]
  cases lookupRoute o s host path method with
  | none => rfl
  | some r => simp [decision_refreshRoute]

/-- C04 (the request's host is the authority without its port): a `Host` /
    `:authority` value `host:port` with a port in 1..65535 is routed exactly
    like `host` by `frontend_from_request`. -/
theorem C04_authority_port_irrelevant (o : Oracle) (l : Listener) (host digits : Bytes) (path method : Bytes)
    (hne : host ≠ []) (hh : ∀ x ∈ host, isHostChar x = true)
    (hd : ∀ x ∈ digits, isDigit x = true) (hdn : digits ≠ [])
    (hv : 1 ≤ digitsVal digits ∧ digitsVal digits ≤ 65535) :
    l.lookup o (host ++ 58 :: digits) path method = l.lookup o host path method ∧
    l.lookup o host path method = some (lookup o l.fronts host path method) := by
  simp [Listener.lookup, authorityHost_port host digits hne hh hd hdn hv, authorityHost_plain host hne hh]

/-- C04 (what the proxy glue refuses leaves no trace): an HSTS block on a
    plain-HTTP frontend, an invalid position, or an address without listener
    are refused before the router is touched; every other add is exactly the
    router's `add_http_front` (the plain-HTTP glue never marks HSTS as
    inherited), and tags are only recorded on success. -/
theorem C04_listener_add_is_router_add (o : Oracle) (l : Listener) (f : Front) (addr : Nat) :
    (((!l.https && f.hsts.isSome) = true ∨ f.pos > 2 ∨ addr ≠ l.addr) → (l.add o f addr).1 = l) ∧
    (¬ ((!l.https && f.hsts.isSome) = true ∨ f.pos > 2 ∨ addr ≠ l.addr) →
      ((l.add o f addr).2 = .ok →
        (l.add o f addr).1.fronts = (addFront o l.fronts (if l.https then f else { f with inherit := false })).1) ∧
      ((l.add o f addr).2 ≠ .ok → (l.add o f addr).1 = l)) := by
  constructor
  · rintro (h | h | h)
    · simp [Listener.add, h]
    · by_cases h1 : (!l.https && f.hsts.isSome) = true <;> simp [Listener.add, h1, h]
    · by_cases h1 : (!l.https && f.hsts.isSome) = true
      · simp [Listener.add, h1]
      · by_cases h2 : f.pos > 2 <;> simp [Listener.add, h1, h2, h]
  · intro hn
    have h1 : ¬ (!l.https && f.hsts.isSome) = true := fun h => hn (Or.inl h)
    have h2 : ¬ f.pos > 2 := fun h => hn (Or.inr (Or.inl h))
    have h3 : ¬ addr ≠ l.addr := fun h => hn (Or.inr (Or.inr h))
    simp only [Listener.add, h1, Bool.false_eq_true, ↓reduceIte, h2, h3]
    cases (addFront o l.fronts (if l.https = true then f else { f with inherit := false })).2 <;> simp

/-! ### concrete data for regressions, counterexamples and non-vacuity -/

def hAio : Bytes := [97, 46, 105, 111]            -- "a.io"
def hBaio : Bytes := [98, 46, 97, 46, 105, 111]   -- "b.a.io"
def hBcaio : Bytes := [98, 99, 46, 97, 46, 105, 111] -- "bc.a.io"
def hStarAio : Bytes := [42, 46, 97, 46, 105, 111] -- "*.a.io"
def hReAio : Bytes := [47, 98, 46, 42, 47, 46, 97, 46, 105, 111] -- "/b.*/.a.io"
def hVXio : Bytes := [118, 46, 47, 120, 46, 42, 47, 46, 105, 111] -- "v./x.*/.io"
def hWxyio : Bytes := [119, 46, 120, 121, 46, 105, 111] -- "w.xy.io"
def hVxyio : Bytes := [118, 46, 120, 121, 46, 105, 111] -- "v.xy.io"
def pSlash : Bytes := [47]
def pA : Bytes := [47, 97]
def pAb : Bytes := [47, 97, 98]
def pZ : Bytes := [47, 122]
def GET : Bytes := [71, 69, 84]
/-- an oracle under which every regex matches -/
def oAll : Oracle := ⟨fun _ _ => true, fun _ _ => true, fun _ _ => true⟩
/-- an oracle under which no regex matches -/
def oNone : Oracle := ⟨fun _ _ => false, fun _ _ => false, fun _ _ => false⟩
def fr (host : Bytes) (kind : Nat) (path : Bytes) (method : Option Bytes) (c : Nat) : Front :=
  { pos := 2, host, kind, path, method, cluster := some [c] }

/-! ### regressions: the witnesses of the six repaired findings now behave
    (they stay in the harness corpus and are replayed on the real `Router`) -/

/-- F1 (fixed by b632e1a): a removed EQUALS tree frontend no longer routes. -/
theorem C04_regression_equals_rule_removed :
    lookupRoute oAll (run oAll [.add (fr hAio 2 pA none 1), .remove (fr hAio 2 pA none 1)]) hAio pA GET = none ∧
    Spec.route oAll (Spec.run [.add (fr hAio 2 pA none 1), .remove (fr hAio 2 pA none 1)]) hAio pA GET = [none] := by
  decide

/-- F1b (fixed by b632e1a): a second add of the same EQUALS key is refused. -/
theorem C04_regression_equals_rule_deduplicated :
    (addFront oAll (run oAll [.add (fr hAio 2 pA none 1)]) (fr hAio 2 pA none 2)).2 = AddOut.errAdd ∧
    lookupRoute oAll (run oAll [.add (fr hAio 2 pA none 1), .add (fr hAio 2 pA none 2)]) hAio pA GET
      = some (.cluster [1]) := by
  decide

/-- F2 (fixed by 3989b45): EQUALS beats REGEX in both insertion orders, with and without a method. -/
theorem C04_regression_regex_vs_equals :
    lookupRoute oAll (run oAll [.add (fr hAio 1 pA none 1), .add (fr hAio 2 pAb none 2)]) hAio pAb GET = some (.cluster [2]) ∧
    lookupRoute oAll (run oAll [.add (fr hAio 2 pAb none 2), .add (fr hAio 1 pA none 1)]) hAio pAb GET = some (.cluster [2]) ∧
    lookupRoute oAll (run oAll [.add (fr hAio 1 pA (some GET) 1), .add (fr hAio 2 pAb (some GET) 2)]) hAio pAb GET = some (.cluster [2]) ∧
    lookupRoute oAll (run oAll [.add (fr hAio 2 pAb (some GET) 2), .add (fr hAio 1 pA (some GET) 1)]) hAio pAb GET = some (.cluster [2]) := by
  decide

/-- F3 (fixed by 3989b45): PREFIX+GET beats PREFIX+any on the same prefix in both orders. -/
theorem C04_regression_method_specificity :
    lookupRoute oAll (run oAll [.add (fr hAio 0 pA (some GET) 1), .add (fr hAio 0 pA none 2)]) hAio pAb GET = some (.cluster [1]) ∧
    lookupRoute oAll (run oAll [.add (fr hAio 0 pA none 2), .add (fr hAio 0 pA (some GET) 1)]) hAio pAb GET = some (.cluster [1]) := by
  decide

/-- F26 (fixed by 3989b45): EQUALS beats a PREFIX equal to the whole path in both orders. -/
theorem C04_regression_full_prefix_vs_equals :
    lookupRoute oAll (run oAll [.add (fr hAio 2 pAb none 1), .add (fr hAio 0 pAb none 2)]) hAio pAb GET = some (.cluster [1]) ∧
    lookupRoute oAll (run oAll [.add (fr hAio 0 pAb none 2), .add (fr hAio 2 pAb none 1)]) hAio pAb GET = some (.cluster [1]) := by
  decide

/-- F27 (fixed by 3989b45): a method-agnostic EQUALS beats a method-specific REGEX, as the Spec says. -/
theorem C04_regression_method_specific_regex_vs_equals :
    lookupRoute oAll (run oAll [.add (fr hAio 1 pA (some GET) 1), .add (fr hAio 2 pAb none 2)]) hAio pAb GET = some (.cluster [2]) ∧
    lookupRoute oAll (run oAll [.add (fr hAio 2 pAb none 2), .add (fr hAio 1 pA (some GET) 1)]) hAio pAb GET = some (.cluster [2]) ∧
    Spec.route oAll (Spec.run [.add (fr hAio 1 pA (some GET) 1), .add (fr hAio 2 pAb none 2)]) hAio pAb GET = [some (.cluster [2])] := by
  decide

/-! ### counterexamples: the three open findings (regex-segment hosts, host-first
    selection) — why the trie/router theorems are stated for regex-free tries -/

/-- F28 `regex-host-leaf-shared-with-literal-host`: a literal host added after
    a leftmost-regex host that matches its label is stored in the regex host's
    leaf (`lookup_mut` falls through to the regex entries): the frontend for
    `bc.a.io` then serves `b.a.io`. -/
theorem C04_trie_refines_map_counterexample :
    lookupRoute oAll (run oAll [.add (fr hReAio 0 pSlash none 1), .add (fr hBcaio 0 pA none 2)]) hBaio pA GET
      = some (.cluster [2]) ∧
    Spec.route oAll (Spec.run [.add (fr hReAio 0 pSlash none 1), .add (fr hBcaio 0 pA none 2)]) hBaio pA GET
      = [some (.cluster [1])] := by
  decide

/-- F29 `regex-segment-no-backtrack`: with `v./x.*/.io` configured, adding the
    unrelated `w.xy.io` leaves `v.xy.io` without a route (the literal child
    `.xy` is taken, the regex sibling is never tried). -/
theorem C04_irrelevant_change_counterexample_regex_segment :
    lookupRoute oAll (run oAll [.add (fr hVXio 0 pSlash none 1)]) hVxyio pSlash GET = some (.cluster [1]) ∧
    lookupRoute oAll (run oAll [.add (fr hVXio 0 pSlash none 1), .add (fr hWxyio 0 pSlash none 2)]) hVxyio pSlash GET = none ∧
    Spec.route oAll (Spec.run [.add (fr hVXio 0 pSlash none 1), .add (fr hWxyio 0 pSlash none 2)]) hVxyio pSlash GET
      = [some (.cluster [1])] := by
  decide

/-- F30 `nonmatching-frontend-changes-host-group`: the literal reading of "a
    frontend that does not match a request never changes its route" fails for
    host-first selection: `b.a.io` + `/z` does not match `GET b.a.io/a`, yet
    adding it takes the request away from `*.a.io` (the Spec, which selects
    the host first, agrees with the code). -/
theorem C04_irrelevant_change_counterexample :
    lookupRoute oAll (run oAll [.add (fr hStarAio 0 pSlash none 1)]) hBaio pA GET = some (.cluster [1]) ∧
    lookupRoute oAll (run oAll [.add (fr hStarAio 0 pSlash none 1), .add (fr hBaio 0 pZ none 2)]) hBaio pA GET = none ∧
    Spec.route oAll (Spec.run [.add (fr hStarAio 0 pSlash none 1), .add (fr hBaio 0 pZ none 2)]) hBaio pA GET = [none] := by
  decide

/-! ### non-vacuity -/

-- a 5-frontend state (exact + wildcard host, EQUALS + REGEX + two PREFIX, GET-specific)
def demoOps : List Op :=
  [.add (fr hStarAio 0 pSlash none 1), .add (fr hBaio 0 pA none 2), .add (fr hBaio 0 pAb (some GET) 3),
   .add (fr hBaio 2 pZ none 4), .add (fr hBaio 1 pZ none 5)]
-- the same set in another order, with a failing duplicate add and an add/remove detour
def demoOps' : List Op :=
  [.add (fr hBaio 1 pZ none 5), .add (fr hBaio 0 pAb (some GET) 3), .add (fr hBaio 2 pA none 9), .add (fr hStarAio 0 pSlash none 1),
   .add (fr hBaio 0 pAb (some GET) 7), .remove (fr hBaio 2 pA none 9), .add (fr hBaio 2 pZ none 4), .add (fr hBaio 0 pA none 2)]

/-- F1493 (fixed by 13212df): a tree frontend whose hostname parses as a regex
    domain but is not a storable trie key (`x/b/`, `a/`) is refused with
    `AddRoute` — it used to panic in `TrieNode::insert` — and leaves no trace:
    the configured frontends keep routing, the refused one never does. -/
theorem C04_regression_unstorable_regex_host_refused :
    (addFront oAll (run oAll demoOps) (fr [120, 47, 98, 47] 0 pSlash none 9)).2 = AddOut.errAdd ∧
    (addFront oAll Router.new (fr [97, 47] 0 pSlash none 9)).2 = AddOut.errAdd ∧
    lookupRoute oNone (addFront oNone (run oNone demoOps) (fr [120, 47, 98, 47] 0 pSlash none 9)).1 hBaio pAb GET
      = some (.cluster [3]) ∧
    lookupRoute oAll (addFront oAll Router.new (fr [120, 47, 98, 47] 0 pSlash none 9)).1 [120, 47, 98, 47] pSlash GET = none := by
  decide

example : lookupRoute oNone (run oNone demoOps) hBaio pAb GET = some (.cluster [3]) := by decide
example : Spec.route oNone (Spec.run demoOps) hBaio pAb GET = [some (.cluster [3])] := by decide
example : lookupRoute oNone (run oNone demoOps) hBcaio pA GET = some (.cluster [1]) := by decide
example : lookupRoute oAll (run oAll demoOps) hBaio pZ GET = some (.cluster [4]) := by decide
example : lookupRoute oAll (run oAll demoOps') hBaio pZ GET = some (.cluster [4]) := by decide

example : GoodHistory (demoOps ++ demoOps') := by decide

-- instances of the end-to-end theorems on the demo histories
example : lookupRoute oNone (run oNone demoOps) hBaio pAb GET = some (.cluster [3]) :=
  C04_route_is_spec_unique oNone demoOps (by decide) hBaio (by decide) pAb GET (some (.cluster [3])) (by decide)
example : lookupRoute oAll (run oAll demoOps) hBaio pZ GET = lookupRoute oAll (run oAll demoOps') hBaio pZ GET := by
  rw [C04_route_is_spec_unique oAll demoOps (by decide) hBaio (by decide) pZ GET (some (.cluster [4])) (by decide),
      C04_route_is_spec_unique oAll demoOps' (by decide) hBaio (by decide) pZ GET (some (.cluster [4])) (by decide)]
-- the listener theorems on concrete values: `a.io:8080` is routed like `a.io`; a refresh keeps the decision
example : authorityHost (hAio ++ 58 :: [56, 48, 56, 48]) = some hAio ∧ authorityHost (hAio ++ [58, 48]) = none
    ∧ authorityHost (hAio ++ [58]) = none ∧ authorityHost [58, 56, 48] = none := by decide
example : (∀ x ∈ hAio, isHostChar x = true) ∧ (∀ x ∈ [56, 48, 56, 48], isDigit x = true)
    ∧ digitsVal [56, 48, 56, 48] = 8080 := by decide
example : (lookupRoute oAll (refreshHsts true (run oAll demoOps)) hBaio pAb GET).map decision
    = (lookupRoute oAll (run oAll demoOps) hBaio pAb GET).map decision :=
  C04_hsts_refresh_preserves_route oAll true (run oAll demoOps) hBaio pAb GET
example : (lookup oNone (refreshHsts true (run oNone demoOps)) hBaio pAb GET).map (·.cluster) = some (some [3]) := by decide
example : (lookup oNone (refreshHsts true (run oNone demoOps)) hBaio pAb GET).map (·.nresp) = some 1
    ∧ (lookup oNone (run oNone demoOps) hBaio pAb GET).map (·.nresp) = some 0 := by decide
example : ((Listener.new false 0).add oAll { fr hAio 0 pSlash none 1 with hsts := some (true, true) } 0).2 = LOut.errHsts
    ∧ ((Listener.new false 0).add oAll (fr hAio 0 pSlash none 1) 1).2 = LOut.errNoListener
    ∧ ((Listener.new false 0).add oAll (fr hAio 0 pSlash none 1) 0).2 = LOut.ok := by decide

-- an irrelevant tree frontend (host `a.io` vs request host `b.a.io`), and the F30 shape which is *not* irrelevant
example : FrontIrrelevant oAll (fr hAio 0 pSlash none 9) hBaio pA GET := by
  have h : Spec.treeHostMatch oAll hAio hBaio = none := by decide
  simpa [FrontIrrelevant, fr] using h
example : ¬ FrontIrrelevant oAll (fr hBaio 0 pZ none 9) hBaio pA GET := by
  have h : Spec.treeHostMatch oAll hBaio hBaio ≠ none := by decide
  simpa [FrontIrrelevant, fr] using h
example : GoodHost hBaio ∧ GoodName hStarAio ∧ ¬ GoodName hReAio := by decide

-- the hypotheses of the Router-level order-independence theorem hold for the two demo histories
-- (for *every* host), and the theorem applies
example : lookupRoute oNone (run oNone demoOps) hBaio pAb GET = lookupRoute oNone (run oNone demoOps') hBaio pAb GET := by
  have demo_leaf : ∀ (ops : List Op), (∀ fe ∈ Spec.run ops, fe.host = hBaio ∨ fe.host = hStarAio) → ∀ H,
      H ≠ hBaio → H ≠ hStarAio → specLeaf (Spec.run ops) H = [] := by
    intro ops hH H h1 h2
    simp only [specLeaf, List.map_eq_nil_iff, List.filter_eq_nil_iff, Bool.and_eq_true, beq_iff_eq, not_and]
    intro fe hfe _ e
    rcases hH fe hfe with h | h <;> rw [h] at e <;> simp_all
  have htree : ∀ H, (specLeaf (Spec.run demoOps) H).Perm (specLeaf (Spec.run demoOps') H) := by
    intro H
    by_cases h1 : H = hBaio
    · subst h1; decide
    · by_cases h2 : H = hStarAio
      · subst h2; decide
      · rw [demo_leaf demoOps (by decide) H h1 h2, demo_leaf demoOps' (by decide) H h1 h2]
  have hregex : ∀ H, AtMostOneRegexAtMax oNone pAb GET (specLeaf (Spec.run demoOps) H) := by
    intro H a ha b hb k hka hkb _ hre
    by_cases h1 : H = hBaio
    · subst h1
      have hl : specLeaf (Spec.run demoOps) hBaio =
          [(.pfx pA, none, .cluster [2]), (.pfx pAb, some GET, .cluster [3]), (.equals pZ, none, .cluster [4]),
           (.regex pZ, none, .cluster [5])] := by decide
      rw [hl] at ha hb
      obtain ⟨s, s', e1, e2⟩ := hre
      simp only [List.mem_cons, List.not_mem_nil, or_false] at ha hb
      rcases ha with rfl | rfl | rfl | rfl <;> rcases hb with rfl | rfl | rfl | rfl <;> simp_all
    · by_cases h2 : H = hStarAio
      · subst h2
        have hl : specLeaf (Spec.run demoOps) hStarAio = [(.pfx pSlash, none, .cluster [1])] := by decide
        rw [hl] at ha hb
        simp only [List.mem_cons, List.not_mem_nil, or_false] at ha hb
        rw [ha, hb]
      · rw [demo_leaf demoOps (by decide) H h1 h2] at ha; cases ha
  exact C04_order_independent_router oNone demoOps demoOps' (by decide) (by decide) (by decide) htree hBaio (by decide)
    pAb GET hregex
-- an instance of the Router-level irrelevant-change theorem
example : lookupRoute oAll (step oAll (run oAll demoOps) (.add (fr hAio 0 pSlash none 9))) hBaio pA GET
    = lookupRoute oAll (run oAll demoOps) hBaio pA GET :=
  C04_irrelevant_change oAll demoOps (by decide) (.add (fr hAio 0 pSlash none 9)) (by decide) hBaio (by decide) pA GET
    (by have h : Spec.treeHostMatch oAll hAio hBaio = none := by decide
        simpa [FrontIrrelevant, fr, frontOf] using h)

-- the hypotheses of the history-wide order-independence theorem hold for the two demo histories
example : ∀ H ∈ [hBaio, hStarAio, hAio], (specLeaf (Spec.run demoOps) H).Perm (specLeaf (Spec.run demoOps') H) := by
  decide
example : lookupTree oAll (run oAll demoOps).tree hBaio pZ GET = lookupTree oAll (run oAll demoOps').tree hBaio pZ GET := by
  decide
-- `PathRule::eq` is now reflexive on all three kinds
example : (PathRule.pfx pA).eqImpl (.pfx pA) = true ∧ (PathRule.regex pA).eqImpl (.regex pA) = true ∧ (PathRule.equals pA).eqImpl (.equals pA) = true := by decide
-- the byte-level splitters produce proper keys / queries on real host names
example : splitKey hBaio = some (keySteps [[105, 111], [97]] [98]) := by decide
example : splitKey hStarAio = some (keySteps [[105, 111], [97]] [STAR]) := by decide
example : splitHost hBaio = qSegs [[105, 111], [97]] [98] := by decide
-- pre/post: removing the middle of three rules keeps the order of the survivors
example :
    let l : List Rule4 := [(.any, .pfx [], none, .cluster [1]), (.any, .pfx pA, none, .cluster [2]), (.any, .pfx pSlash, none, .cluster [3])]
    scanList oNone (removeList l .any (.pfx pA) none).1 hAio pAb GET = some (.cluster [1]) ∧
    scanList oNone (removeList (removeList l .any (.pfx pA) none).1 .any (.pfx []) none).1 hAio pAb GET = some (.cluster [3]) := by
  decide
-- trie refinement instance: exact over wildcard after insert / insert / remove
example : Trie.lookup (fun _ _ => false) true
    ([TOp.ins ([[105, 111], [97]], [STAR]) hStarAio 1, .ins ([[105, 111], [97]], [98]) hBaio 2, .rem ([[105, 111], [97]], [98])].foldl tstep (Node.root : Node Nat))
    (qSegs [[105, 111], [97]] [98]) = some (hStarAio, 1) := by decide

end Sozu.Router
