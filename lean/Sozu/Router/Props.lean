import Sozu.Router.Lemmas
/-
C04 — routing depends only on the configured frontends, by documented
precedence. Property theorems `C04_*` on the model of the code as it is after the fixes
b632e1a (PathRule::eq Equals arm) and 3989b45 (rank-based selection):
`_partial` = explicit hypothesis + `_counterexample` by `decide` for the excluded
point (the three open findings F28-F30); `_regression_*` = former witnesses,
and non-vacuity examples. Helper lemmas: `Sozu/Trie/Lemmas.lean`,
`Sozu/Router/Lemmas.lean`.
-/
set_option linter.unusedSimpArgs false
set_option linter.unusedVariables false
namespace Sozu.Router
open Sozu Sozu.Trie

/-! ### trie refinement -/

/-- C04 (trie): after **any** history of inserts and removes of regex-free keys,
    the trie's lookup of a request hostname is the abstract map's lookup with
    exact-over-wildcard precedence (single-label wildcard). -/
theorem C04_trie_refines_map_partial {V : Type} (re : Bytes → Bytes → Bool) (ops : List (TOp V)) (q : PKey) :
    Trie.lookup re true (ops.foldl tstep (Node.root : Node V)) (qSegs q.1 q.2) = mlookup (ops.foldl mstep []) q := by
  obtain ⟨hwf, hget⟩ := trel_run ops _ _ trel_root
  rw [lookup_eq re q.1 q.2 _ hwf, mlookup, hget q, hget (q.1, [STAR])]

/-! ### precedence and order independence (tree leaf) -/

/-- C04 (precedence, tree leaf) — unconditional since the rank-based selection:
    for every rule list, request and regex oracle, the loop returns nothing
    only if no rule matches, and otherwise the route of a rule whose documented
    rank (`Spec.rank`: EQUALS > REGEX > PREFIX, longer prefix, method-specific)
    no other rule of the leaf exceeds. -/
theorem C04_lookup_in_spec (o : Oracle) (host path method : Bytes) (l : List Rule3) :
    (selectLeaf o l path method = none ∧ ∀ c ∈ l, Spec.rank o (feOf host c) path method = none) ∨
    (∃ r ∈ l, ∃ k, selectLeaf o l path method = some r.2.2 ∧ Spec.rank o (feOf host r) path method = some k ∧
        ∀ c ∈ l, ∀ kc, Spec.rank o (feOf host c) path method = some kc → Spec.rankLt k kc = false) := by
  simp only [feOf, ← ruleRank_eq_spec, ← rankGt_eq_specLt]
  exact select_good o path method l

/-- C04 (order independence, tree leaf): two orderings `l`, `l'` of the same
    rules give the same answer for a request, provided the rules have pairwise
    distinct `(path, method)` keys (which `add_tree_rule` guarantees) and **at
    most one REGEX rule attains the maximal rank** for that request — the one
    case the documentation leaves unordered. -/
theorem C04_order_independent (o : Oracle) (path method : Bytes) (l l' : List Rule3)
    (hperm : l.Perm l')
    (hkeys : l.Pairwise (fun a b => ¬ (a.1 = b.1 ∧ a.2.1 = b.2.1)))
    (hregex : ∀ a ∈ l, ∀ b ∈ l, ∀ k, ruleRank o path method a = some k → ruleRank o path method b = some k →
        (∀ c ∈ l, ∀ kc, ruleRank o path method c = some kc → rankGt kc k = false) →
        (∃ s s', a.1 = .regex s ∧ b.1 = .regex s') → a = b) :
    selectLeaf o l path method = selectLeaf o l' path method := by
  rcases select_good o path method l with ⟨hn, hall⟩ | ⟨r, hr, k, hs, hk, hmax⟩
  · rcases select_good o path method l' with ⟨hn', _⟩ | ⟨r', hr', k', _, hk', _⟩
    · rw [hn, hn']
    · rw [hall r' (hperm.mem_iff.mpr hr')] at hk'; cases hk'
  · rcases select_good o path method l' with ⟨_, hall'⟩ | ⟨r', hr', k', hs', hk', hmax'⟩
    · rw [hall' r (hperm.mem_iff.mp hr)] at hk; cases hk
    · have hr'l : r' ∈ l := hperm.mem_iff.mpr hr'
      have e : k' = k := rank_eq_of_not_gt (hmax r' hr'l k' hk') (hmax' r (hperm.mem_iff.mp hr) k hk)
      subst e
      have : r = r' := by
        rcases same_rank_same_key o path method r r' k' hk hk' with hre | ⟨h1, h2⟩
        · exact hregex r hr r' hr'l k' hk hk' hmax hre
        · exact mem_same_key hkeys r hr r' hr'l h1 h2
      rw [hs, hs', this]

/-- the same, for the whole tree lookup of two routers whose selected leaves
    hold the same rules in different orders -/
theorem C04_order_independent_tree (o : Oracle) (t t' : Node (List Rule3)) (host path method : Bytes)
    (k k' : Bytes) (l l' : List Rule3)
    (ht : domainLookup o.seg t host true = some (k, l)) (ht' : domainLookup o.seg t' host true = some (k', l'))
    (hperm : l.Perm l')
    (hkeys : l.Pairwise (fun a b => ¬ (a.1 = b.1 ∧ a.2.1 = b.2.1)))
    (hregex : ∀ a ∈ l, ∀ b ∈ l, ∀ k, ruleRank o path method a = some k → ruleRank o path method b = some k →
        (∀ c ∈ l, ∀ kc, ruleRank o path method c = some kc → rankGt kc k = false) →
        (∃ s s', a.1 = .regex s ∧ b.1 = .regex s') → a = b) :
    lookupTree o t host path method = lookupTree o t' host path method := by
  simp only [lookupTree, ht, ht']
  exact C04_order_independent o path method l l' hperm hkeys hregex

/-! ### add / remove of a tree frontend, seen through `get` -/

/-! ### removal -/

/-- C04 (removed never routes, tree part): after `remove_tree_rule` of **any**
    frontend (PREFIX, REGEX or EQUALS path) on a regex-free trie, the leaf of
    that host holds no rule with the removed `(path, method)` key, and every
    other leaf is untouched. -/
theorem C04_removed_never_routes (o : Oracle) (t : Node (List Rule3)) (hwf : WF t)
    (host : Bytes) (ds : List Bytes) (l : Bytes) (hsplit : splitKey host = some (keySteps ds l))
    (p : PathRule) (m : MethodRule) :
    WF (removeTree o t host p m).1 ∧
    (∀ key rules, get (removeTree o t host p m).1 (keySteps ds l) = some (key, rules) →
        ∀ x ∈ rules, ¬ (x.1 = p ∧ x.2.1 = m)) ∧
    (∀ ds' l', (ds', l') ≠ (ds, l) →
        get (removeTree o t host p m).1 (keySteps ds' l') = get t (keySteps ds' l')) := by
  obtain ⟨h1, h2, h3⟩ := removeTree_spec o t hwf host ds l hsplit p m
  refine ⟨h1, ?_, h3⟩
  intro key rules hg x hx hxe
  rw [h2] at hg
  cases hq : get t (keySteps ds l) with
  | none => rw [hq] at hg; cases hg
  | some kv =>
    rw [hq] at hg
    simp only [] at hg
    split at hg
    · cases hg
    · simp only [Option.some.injEq, Prod.mk.injEq] at hg
      obtain ⟨_, rfl⟩ := hg
      simp only [keepRules, List.mem_filter, Bool.not_eq_eq_eq_not, Bool.not_true] at hx
      have := (sameKey3_iff p m x).mpr hxe
      rw [this] at hx; exact absurd hx.2 (by simp)

/-! ### irrelevant change -/

/-- C04 (irrelevant change, tree part, add): adding a tree frontend for host key
    `(ds, l)` to a regex-free trie changes no leaf but that host's, so every
    request whose exact key and wildcard key both differ from `(ds, l)` — i.e.
    whose host the pattern does not match — keeps its tree lookup. -/
theorem C04_irrelevant_change_add (o : Oracle) (t t' : Node (List Rule3)) (hwf : WF t)
    (host : Bytes) (ds : List Bytes) (l : Bytes) (hsplit : splitKey host = some (keySteps ds l))
    (p : PathRule) (m : MethodRule) (r : Route) (b : Bool) (hadd : addTree o t host p m r = some (t', b))
    (qhost : Bytes) (qds : List Bytes) (ql : Bytes) (hq : splitHost qhost = qSegs qds ql)
    (hne1 : (qds, ql) ≠ (ds, l)) (hne2 : (qds, [STAR]) ≠ (ds, l)) (path method : Bytes) :
    lookupTree o t' qhost path method = lookupTree o t qhost path method := by
  obtain ⟨hwf', _, hother⟩ := addTree_spec o t t' hwf host ds l hsplit p m r b hadd
  exact lookupTree_congr o t t' hwf hwf' qhost qds ql hq (hother qds ql hne1) (hother qds [STAR] hne2) path method

/-- C04 (irrelevant change, tree part, remove): the same for `remove_tree_rule`. -/
theorem C04_irrelevant_change_remove (o : Oracle) (t : Node (List Rule3)) (hwf : WF t)
    (host : Bytes) (ds : List Bytes) (l : Bytes) (hsplit : splitKey host = some (keySteps ds l))
    (p : PathRule) (m : MethodRule)
    (qhost : Bytes) (qds : List Bytes) (ql : Bytes) (hq : splitHost qhost = qSegs qds ql)
    (hne1 : (qds, ql) ≠ (ds, l)) (hne2 : (qds, [STAR]) ≠ (ds, l)) (path method : Bytes) :
    lookupTree o (removeTree o t host p m).1 qhost path method = lookupTree o t qhost path method := by
  obtain ⟨hwf', _, hother⟩ := removeTree_spec o t hwf host ds l hsplit p m
  exact lookupTree_congr o t _ hwf hwf' qhost qds ql hq (hother qds ql hne1) (hother qds [STAR] hne2) path method

/-! ### pre / post lists -/

/-- C04 (irrelevant change, pre/post, add): a pre/post rule that does not match
    the request does not change the list's answer when added. -/
theorem C04_irrelevant_change_prepost_add (o : Oracle) (l : List Rule4) (d : DomainRule) (p : PathRule)
    (m : MethodRule) (r : Route) (host path method : Bytes)
    (hno : rule4Matches o host path method (d, p, m, r) = false) :
    scanList o (addList l d p m r).1 host path method = scanList o l host path method := by
  simp only [addList]
  split
  · rfl
  · simp only [scanList_eq, List.find?_append]
    cases h : List.find? (rule4Matches o host path method) l <;> simp [hno]

/-- C04 (irrelevant change, pre/post, remove; also: removal keeps the order of
    the survivors): removing the rule of key `(d, p, m)` does not change the
    list's answer for a request that this rule does not match. -/
theorem C04_irrelevant_change_prepost_remove (o : Oracle) (l : List Rule4) (d : DomainRule) (p : PathRule)
    (m : MethodRule) (host path method : Bytes)
    (hno : ∀ x ∈ l, sameKey4 d p m x = true → rule4Matches o host path method x = false) :
    scanList o (removeList l d p m).1 host path method = scanList o l host path method := by
  simp only [removeList]
  split
  · simp only [scanList_eq, find?_removeFirst_nomatch _ _ l hno]
  · rfl

/-- C04 (removed never routes, pre/post): in a list with pairwise distinct keys
    (which `add_pre_rule`/`add_post_rule` guarantee), after `remove_*_rule` no
    rule with the removed key remains. -/
theorem C04_removed_never_routes_prepost (l : List Rule4) (d : DomainRule) (p : PathRule) (m : MethodRule)
    (h : PPKeys l) : ∀ x ∈ (removeList l d p m).1, sameKey4 d p m x = false := by
  simp only [removeList]
  split
  · exact removeFirst_nokey d p m l h
  · next hany =>
    intro x hx
    cases hs : sameKey4 d p m x with
    | false => rfl
    | true => exact absurd (List.any_eq_true.mpr ⟨x, hx, hs⟩) hany

/-! ### history-wide: the tree is a function of the configured set -/

/-- C04 (history-wide abstraction): after **every** history of add/remove
    operations (pre, post and regex-free tree frontends; failing operations
    included) the host trie is well formed, has no empty leaf, and the leaf of
    each host holds exactly the Spec's configured tree frontends of that host,
    in configuration order; keys of no configured host have no leaf; the
    pre/post lists have pairwise distinct keys. -/
theorem C04_tree_is_configured_set (o : Oracle) (ops : List Op) (hp : ProperHistory ops) :
    Inv (treeHosts ops) (run o ops) (Spec.run ops) :=
  inv_run o (treeHosts ops) hp.inj ops _ _ (inv_init _) hp.proper (fun op hop h0 h1 => mem_treeHosts hop h0 h1)

/-- every reachable tree is well formed, so the single-step theorems
    (`C04_removed_never_routes`, `C04_irrelevant_change_*`) apply after any history -/
theorem C04_reachable_wf (o : Oracle) (ops : List Op) (hp : ProperHistory ops) : WF (run o ops).tree :=
  (C04_tree_is_configured_set o ops hp).wf

/-- C04 (order independence, history-wide): two histories (adds, removes,
    failing operations, any interleaving) that configure, for every host, the
    same tree frontends up to order give the same tree lookup for every
    request, provided at most one REGEX rule of a host attains the maximal
    rank for that request. -/
theorem C04_order_independent_history (o : Oracle) (ops₁ ops₂ : List Op) (hp : ProperHistory (ops₁ ++ ops₂))
    (hsame : ∀ H, (specLeaf (Spec.run ops₁) H).Perm (specLeaf (Spec.run ops₂) H))
    (qhost : Bytes) (qds : List Bytes) (ql : Bytes) (hq : splitHost qhost = qSegs qds ql) (path method : Bytes)
    (hregex : ∀ H, AtMostOneRegexAtMax o path method (specLeaf (Spec.run ops₁) H)) :
    lookupTree o (run o ops₁).tree qhost path method = lookupTree o (run o ops₂).tree qhost path method := by
  have hHs : treeHosts (ops₁ ++ ops₂) = treeHosts ops₁ ++ treeHosts ops₂ := by simp [treeHosts]
  have I₁ : Inv (treeHosts (ops₁ ++ ops₂)) (run o ops₁) (Spec.run ops₁) :=
    inv_run o _ hp.inj ops₁ _ _ (inv_init _) (fun op h => hp.proper op (by simp [h]))
      (fun op hop h0 h1 => by rw [hHs]; exact List.mem_append_left _ (mem_treeHosts hop h0 h1))
  have I₂ : Inv (treeHosts (ops₁ ++ ops₂)) (run o ops₂) (Spec.run ops₂) :=
    inv_run o _ hp.inj ops₂ _ _ (inv_init _) (fun op h => hp.proper op (by simp [h]))
      (fun op hop h0 h1 => by rw [hHs]; exact List.mem_append_right _ (mem_treeHosts hop h0 h1))
  have hS₁ := spec_keys ops₁ [] List.Pairwise.nil
  -- per key: the two leaves are permutations, with distinct keys and the regex condition
  have hleaf : ∀ ds l, (leafRules (run o ops₁).tree ds l).Perm (leafRules (run o ops₂).tree ds l) ∧
      (leafRules (run o ops₁).tree ds l).Pairwise (fun a b => ¬ (a.1 = b.1 ∧ a.2.1 = b.2.1)) ∧
      AtMostOneRegexAtMax o path method (leafRules (run o ops₁).tree ds l) := by
    intro ds l
    by_cases hex : ∃ H ∈ treeHosts (ops₁ ++ ops₂), splitKey H = some (keySteps ds l)
    · obtain ⟨H, hH, hsp⟩ := hex
      rw [I₁.leaf H hH ds l hsp, I₂.leaf H hH ds l hsp]
      exact ⟨hsame H, specLeaf_keys _ hS₁ H, hregex H⟩
    · have hall : ∀ H ∈ treeHosts (ops₁ ++ ops₂), splitKey H ≠ some (keySteps ds l) :=
        fun H hH e => hex ⟨H, hH, e⟩
      have e1 := (get_none_iff_leafRules I₁ ds l).mp (I₁.foreign ds l hall)
      have e2 := (get_none_iff_leafRules I₂ ds l).mp (I₂.foreign ds l hall)
      rw [e1, e2]
      exact ⟨List.Perm.refl _, List.Pairwise.nil, by intro a ha; cases ha⟩
  -- the selection on one key agrees
  have hsel : ∀ ds l,
      (match get (run o ops₁).tree (keySteps ds l) with
        | some kv => some (selectLeaf o kv.2 path method) | none => none) =
      (match get (run o ops₂).tree (keySteps ds l) with
        | some kv => some (selectLeaf o kv.2 path method) | none => none) := by
    intro ds l
    obtain ⟨hperm, hkeys, hre⟩ := hleaf ds l
    cases hg1 : get (run o ops₁).tree (keySteps ds l) with
    | none =>
      have := (get_none_iff_leafRules I₁ ds l).mp hg1
      rw [this] at hperm
      have h2 := (get_none_iff_leafRules I₂ ds l).mpr (List.Perm.nil_eq hperm).symm
      rw [h2]
    | some kv1 =>
      cases hg2 : get (run o ops₂).tree (keySteps ds l) with
      | none =>
        have := (get_none_iff_leafRules I₂ ds l).mp hg2
        rw [this] at hperm
        have h1 := (get_none_iff_leafRules I₁ ds l).mpr (List.Perm.eq_nil hperm)
        rw [h1] at hg1; cases hg1
      | some kv2 =>
        simp only [leafRules, hg1, hg2] at hperm hkeys hre
        simp only [Option.some.injEq]
        exact C04_order_independent o path method kv1.2 kv2.2 hperm hkeys hre
  simp only [lookupTree, domainLookup, hq, lookup_eq o.seg qds ql _ I₁.wf, lookup_eq o.seg qds ql _ I₂.wf]
  have a := hsel qds ql
  have b := hsel qds [STAR]
  cases hg1 : get (run o ops₁).tree (keySteps qds ql) <;> cases hg2 : get (run o ops₂).tree (keySteps qds ql) <;>
    simp only [hg1, hg2] at a <;> try (cases a; done)
  · simp only [Option.orElse]
    cases hw1 : get (run o ops₁).tree (keySteps qds [STAR]) <;> cases hw2 : get (run o ops₂).tree (keySteps qds [STAR]) <;>
      simp only [hw1, hw2] at b <;> try (cases b; done)
    · rfl
    · simpa using b
  · simpa using a

/-! ### concrete data for regressions, counterexamples and non-vacuity -/

def hAio : Bytes := [97, 46, 105, 111]            -- "a.io"
def hBaio : Bytes := [98, 46, 97, 46, 105, 111]   -- "b.a.io"
def hBcaio : Bytes := [98, 99, 46, 97, 46, 105, 111] -- "bc.a.io"
def hStarAio : Bytes := [42, 46, 97, 46, 105, 111] -- "*.a.io"
def hReAio : Bytes := [47, 98, 46, 42, 47, 46, 97, 46, 105, 111] -- "/b.*/.a.io"
def hVXio : Bytes := [118, 46, 47, 120, 46, 42, 47, 46, 105, 111] -- "v./x.*/.io"
def hWxyio : Bytes := [119, 46, 120, 121, 46, 105, 111] -- "w.xy.io"
def hVxyio : Bytes := [118, 46, 120, 121, 46, 105, 111] -- "v.xy.io"
def pSlash : Bytes := [47]
def pA : Bytes := [47, 97]
def pAb : Bytes := [47, 97, 98]
def pZ : Bytes := [47, 122]
def GET : Bytes := [71, 69, 84]
/-- an oracle under which every regex matches -/
def oAll : Oracle := ⟨fun _ _ => true, fun _ _ => true, fun _ _ => true⟩
/-- an oracle under which no regex matches -/
def oNone : Oracle := ⟨fun _ _ => false, fun _ _ => false, fun _ _ => false⟩
def fr (host : Bytes) (kind : Nat) (path : Bytes) (method : Option Bytes) (c : Nat) : Front :=
  { pos := 2, host, kind, path, method, cluster := some [c] }

/-! ### regressions: the witnesses of the six repaired findings now behave
    (they stay in the harness corpus and are replayed on the real `Router`) -/

/-- F1 (fixed by b632e1a): a removed EQUALS tree frontend no longer routes. -/
theorem C04_regression_equals_rule_removed :
    lookupRoute oAll (run oAll [.add (fr hAio 2 pA none 1), .remove (fr hAio 2 pA none 1)]) hAio pA GET = none ∧
    Spec.route oAll (Spec.run [.add (fr hAio 2 pA none 1), .remove (fr hAio 2 pA none 1)]) hAio pA GET = [] := by
  decide

/-- F1b (fixed by b632e1a): a second add of the same EQUALS key is refused. -/
theorem C04_regression_equals_rule_deduplicated :
    (addFront oAll (run oAll [.add (fr hAio 2 pA none 1)]) (fr hAio 2 pA none 2)).2 = AddOut.errAdd ∧
    lookupRoute oAll (run oAll [.add (fr hAio 2 pA none 1), .add (fr hAio 2 pA none 2)]) hAio pA GET
      = some (.cluster [1]) := by
  decide

/-- F2 (fixed by 3989b45): EQUALS beats REGEX in both insertion orders, with and without a method. -/
theorem C04_regression_regex_vs_equals :
    lookupRoute oAll (run oAll [.add (fr hAio 1 pA none 1), .add (fr hAio 2 pAb none 2)]) hAio pAb GET = some (.cluster [2]) ∧
    lookupRoute oAll (run oAll [.add (fr hAio 2 pAb none 2), .add (fr hAio 1 pA none 1)]) hAio pAb GET = some (.cluster [2]) ∧
    lookupRoute oAll (run oAll [.add (fr hAio 1 pA (some GET) 1), .add (fr hAio 2 pAb (some GET) 2)]) hAio pAb GET = some (.cluster [2]) ∧
    lookupRoute oAll (run oAll [.add (fr hAio 2 pAb (some GET) 2), .add (fr hAio 1 pA (some GET) 1)]) hAio pAb GET = some (.cluster [2]) := by
  decide

/-- F3 (fixed by 3989b45): PREFIX+GET beats PREFIX+any on the same prefix in both orders. -/
theorem C04_regression_method_specificity :
    lookupRoute oAll (run oAll [.add (fr hAio 0 pA (some GET) 1), .add (fr hAio 0 pA none 2)]) hAio pAb GET = some (.cluster [1]) ∧
    lookupRoute oAll (run oAll [.add (fr hAio 0 pA none 2), .add (fr hAio 0 pA (some GET) 1)]) hAio pAb GET = some (.cluster [1]) := by
  decide

/-- F26 (fixed by 3989b45): EQUALS beats a PREFIX equal to the whole path in both orders. -/
theorem C04_regression_full_prefix_vs_equals :
    lookupRoute oAll (run oAll [.add (fr hAio 2 pAb none 1), .add (fr hAio 0 pAb none 2)]) hAio pAb GET = some (.cluster [1]) ∧
    lookupRoute oAll (run oAll [.add (fr hAio 0 pAb none 2), .add (fr hAio 2 pAb none 1)]) hAio pAb GET = some (.cluster [1]) := by
  decide

/-- F27 (fixed by 3989b45): a method-agnostic EQUALS beats a method-specific REGEX, as the Spec says. -/
theorem C04_regression_method_specific_regex_vs_equals :
    lookupRoute oAll (run oAll [.add (fr hAio 1 pA (some GET) 1), .add (fr hAio 2 pAb none 2)]) hAio pAb GET = some (.cluster [2]) ∧
    lookupRoute oAll (run oAll [.add (fr hAio 2 pAb none 2), .add (fr hAio 1 pA (some GET) 1)]) hAio pAb GET = some (.cluster [2]) ∧
    Spec.route oAll (Spec.run [.add (fr hAio 1 pA (some GET) 1), .add (fr hAio 2 pAb none 2)]) hAio pAb GET = [.cluster [2]] := by
  decide

/-! ### counterexamples: the three open findings (regex-segment hosts, host-first
    selection) — why the trie/router theorems are stated for regex-free tries -/

/-- F28 `regex-host-leaf-shared-with-literal-host`: a literal host added after
    a leftmost-regex host that matches its label is stored in the regex host's
    leaf (`lookup_mut` falls through to the regex entries): the frontend for
    `bc.a.io` then serves `b.a.io`. -/
theorem C04_trie_refines_map_counterexample :
    lookupRoute oAll (run oAll [.add (fr hReAio 0 pSlash none 1), .add (fr hBcaio 0 pA none 2)]) hBaio pA GET
      = some (.cluster [2]) ∧
    Spec.route oAll (Spec.run [.add (fr hReAio 0 pSlash none 1), .add (fr hBcaio 0 pA none 2)]) hBaio pA GET
      = [.cluster [1]] := by
  decide

/-- F29 `regex-segment-no-backtrack`: with `v./x.*/.io` configured, adding the
    unrelated `w.xy.io` leaves `v.xy.io` without a route (the literal child
    `.xy` is taken, the regex sibling is never tried). -/
theorem C04_irrelevant_change_counterexample_regex_segment :
    lookupRoute oAll (run oAll [.add (fr hVXio 0 pSlash none 1)]) hVxyio pSlash GET = some (.cluster [1]) ∧
    lookupRoute oAll (run oAll [.add (fr hVXio 0 pSlash none 1), .add (fr hWxyio 0 pSlash none 2)]) hVxyio pSlash GET = none ∧
    Spec.route oAll (Spec.run [.add (fr hVXio 0 pSlash none 1), .add (fr hWxyio 0 pSlash none 2)]) hVxyio pSlash GET
      = [.cluster [1]] := by
  decide

/-- F30 `nonmatching-frontend-changes-host-group`: the literal reading of "a
    frontend that does not match a request never changes its route" fails for
    host-first selection: `b.a.io` + `/z` does not match `GET b.a.io/a`, yet
    adding it takes the request away from `*.a.io` (the Spec, which selects
    the host first, agrees with the code). -/
theorem C04_irrelevant_change_counterexample :
    lookupRoute oAll (run oAll [.add (fr hStarAio 0 pSlash none 1)]) hBaio pA GET = some (.cluster [1]) ∧
    lookupRoute oAll (run oAll [.add (fr hStarAio 0 pSlash none 1), .add (fr hBaio 0 pZ none 2)]) hBaio pA GET = none ∧
    Spec.route oAll (Spec.run [.add (fr hStarAio 0 pSlash none 1), .add (fr hBaio 0 pZ none 2)]) hBaio pA GET = [] := by
  decide

/-! ### non-vacuity -/

-- a 5-frontend state (exact + wildcard host, EQUALS + REGEX + two PREFIX, GET-specific)
def demoOps : List Op :=
  [.add (fr hStarAio 0 pSlash none 1), .add (fr hBaio 0 pA none 2), .add (fr hBaio 0 pAb (some GET) 3),
   .add (fr hBaio 2 pZ none 4), .add (fr hBaio 1 pZ none 5)]
-- the same set in another order, with a failing duplicate add and an add/remove detour
def demoOps' : List Op :=
  [.add (fr hBaio 1 pZ none 5), .add (fr hBaio 0 pAb (some GET) 3), .add (fr hBaio 2 pA none 9), .add (fr hStarAio 0 pSlash none 1),
   .add (fr hBaio 0 pAb (some GET) 7), .remove (fr hBaio 2 pA none 9), .add (fr hBaio 2 pZ none 4), .add (fr hBaio 0 pA none 2)]

example : lookupRoute oNone (run oNone demoOps) hBaio pAb GET = some (.cluster [3]) := by decide
example : Spec.route oNone (Spec.run demoOps) hBaio pAb GET = [.cluster [3]] := by decide
example : lookupRoute oNone (run oNone demoOps) hBcaio pA GET = some (.cluster [1]) := by decide
example : lookupRoute oAll (run oAll demoOps) hBaio pZ GET = some (.cluster [4]) := by decide
example : lookupRoute oAll (run oAll demoOps') hBaio pZ GET = some (.cluster [4]) := by decide

theorem demo_proper : ProperHistory (demoOps ++ demoOps') := by
  refine ⟨?_, by decide⟩
  intro op hop _ _
  have hb : ∀ op ∈ demoOps ++ demoOps', (frontOf op).host = hBaio ∨ (frontOf op).host = hStarAio := by decide
  rcases hb op hop with e | e <;> rw [e]
  · exact ⟨⟨[[105, 111], [97]], [98], by decide⟩, by decide⟩
  · exact ⟨⟨[[105, 111], [97]], [STAR], by decide⟩, by decide⟩

-- the hypotheses of the history-wide order-independence theorem hold for the two demo histories
example : ∀ H ∈ [hBaio, hStarAio, hAio], (specLeaf (Spec.run demoOps) H).Perm (specLeaf (Spec.run demoOps') H) := by
  decide
example : lookupTree oAll (run oAll demoOps).tree hBaio pZ GET = lookupTree oAll (run oAll demoOps').tree hBaio pZ GET := by
  decide
-- `PathRule::eq` is now reflexive on all three kinds
example : (PathRule.pfx pA).eqImpl (.pfx pA) = true ∧ (PathRule.regex pA).eqImpl (.regex pA) = true ∧ (PathRule.equals pA).eqImpl (.equals pA) = true := by decide
-- the byte-level splitters produce proper keys / queries on real host names
example : splitKey hBaio = some (keySteps [[105, 111], [97]] [98]) := by decide
example : splitKey hStarAio = some (keySteps [[105, 111], [97]] [STAR]) := by decide
example : splitHost hBaio = qSegs [[105, 111], [97]] [98] := by decide
-- pre/post: removing the middle of three rules keeps the order of the survivors
example :
    let l : List Rule4 := [(.any, .pfx [], none, .cluster [1]), (.any, .pfx pA, none, .cluster [2]), (.any, .pfx pSlash, none, .cluster [3])]
    scanList oNone (removeList l .any (.pfx pA) none).1 hAio pAb GET = some (.cluster [1]) ∧
    scanList oNone (removeList (removeList l .any (.pfx pA) none).1 .any (.pfx []) none).1 hAio pAb GET = some (.cluster [3]) := by
  decide
-- trie refinement instance: exact over wildcard after insert / insert / remove
example : Trie.lookup (fun _ _ => false) true
    ([TOp.ins ([[105, 111], [97]], [STAR]) hStarAio 1, .ins ([[105, 111], [97]], [98]) hBaio 2, .rem ([[105, 111], [97]], [98])].foldl tstep (Node.root : Node Nat))
    (qSegs [[105, 111], [97]] [98]) = some (hStarAio, 1) := by decide

end Sozu.Router
