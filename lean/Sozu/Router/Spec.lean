import Sozu.Router.Model
/-
The specification C04 is checked against: the *set* of configured frontends
and the documented precedence (doc/configure.md "Path matching precedence",
properties.jsonl C04):

  pre rules in configuration order, then — among the tree frontends whose host
  pattern is the most specific one matching the request host (literal label
  over `*` over regex segment, compared from the TLD leftwards) — the
  candidates of maximal rank (EQUALS over REGEX over PREFIX; longer prefix;
  method-specific over method-agnostic), then post rules in order.

Candidates of equal maximal rank (two REGEX rules) and host patterns of equal
specificity (two regex hosts) are documented as unordered, so the spec yields a
*list of admissible answers*: one host pattern is chosen, then the best rule of
that host (or, if none matches, the post rules).
Nothing here looks at a trie or at insertion order of tree frontends.
-/
namespace Sozu.Router.Spec
open Sozu Sozu.Trie Sozu.Router

/-- a configured frontend: key `(pos, host, path, method)` and its route -/
structure Fe where
  pos : Nat
  host : Bytes
  path : PathRule
  method : MethodRule
  route : Route
deriving DecidableEq, Repr

def Fe.sameKey (a b : Fe) : Bool :=
  a.pos == b.pos && a.host == b.host && a.path == b.path && a.method == b.method

abbrev State := List Fe

/-- the frontend an `add`/`remove` names, when its path and host parse -/
def feOfFront (f : Front) : Option Fe :=
  match pathOfFront f, parseDomain f.host f.hostOk with
  | some p, some _ => some ⟨if f.pos = 0 then 0 else if f.pos = 1 then 1 else 2, f.host, p, f.method, routeOfFront f⟩
  | _, _ => none

def add (s : State) (fe : Fe) : State := if s.any (Fe.sameKey fe) then s else s ++ [fe]
def remove (s : State) (fe : Fe) : State := s.filter (fun x => !Fe.sameKey fe x)

def step (s : State) : Op → State
  | .add f => match feOfFront f with | some fe => add s fe | none => s
  | .remove f => match feOfFront f with | some fe => remove s fe | none => s

def run (ops : List Op) : State := ops.foldl step []

/-- does the host pattern (split) match the request host (split)? On success
    the specificity vector, TLD first: 2 literal label, 1 `*`, 0 regex segment. -/
def hostMatch (o : Oracle) : List Step → List Seg → Option (List Nat)
  | [], [] => some []
  | .lit seg :: ps, s :: ss =>
    if seg = (false, [STAR]) then (if ps.isEmpty && ss.isEmpty then some [1] else none)
    else if seg = s then (hostMatch o ps ss).map (2 :: ·) else none
  | .re pat _ :: ps, s :: ss =>
    if o.seg pat s.2 then (hostMatch o ps ss).map (0 :: ·) else none
  | _, _ => none

def treeHostMatch (o : Oracle) (pat host : Bytes) : Option (List Nat) :=
  match splitKey pat with
  | some steps => hostMatch o steps (splitHost host)
  | none => none

/-- lexicographic `a < b` on specificity vectors -/
def vecLt : List Nat → List Nat → Bool
  | [], [] => false
  | [], _ :: _ => true
  | _ :: _, [] => false
  | a :: as, b :: bs => a < b || (a == b && vecLt as bs)

/-- rank of a matching tree candidate: (kind, prefix length, method-specific) -/
def rank (o : Oracle) (fe : Fe) (path method : Bytes) : Option (Nat × Nat × Nat) :=
  let ms := match methodMatches fe.method method with
    | .equals => some 1
    | .all => some 0
    | .none => none
  match fe.path.matches o path, ms with
  | .equals, some k => some (2, 0, k)
  | .regex, some k => some (1, 0, k)
  | .pfx n, some k => some (0, n, k)
  | _, _ => none

def rankLt (a b : Nat × Nat × Nat) : Bool :=
  a.1 < b.1 || (a.1 == b.1 && (a.2.1 < b.2.1 || (a.2.1 == b.2.1 && a.2.2 < b.2.2)))

def prePostMatch (o : Oracle) (fe : Fe) (host path method : Bytes) : Bool :=
  match parseDomain fe.host true with
  | some d => d.matches o host && fe.path.matches o path != PathRes.none
      && methodMatches fe.method method != MethodRes.none
  | none => false

/-- tree frontends whose host pattern matches, with their specificity -/
def treeHosts (o : Oracle) (s : State) (host : Bytes) : List (Fe × List Nat) :=
  s.filterMap fun fe => if fe.pos = 2 then (treeHostMatch o fe.host host).map (fe, ·) else none

/-- tree frontends of the most specific matching host pattern(s) -/
def bestHostGroup (o : Oracle) (s : State) (host : Bytes) : List Fe :=
  let hs := treeHosts o s host
  (hs.filter fun x => !hs.any fun y => vecLt x.2 y.2).map (·.1)

/-- the distinct host patterns of a list of frontends, in order of first appearance -/
def hostsOf : List Fe → List Bytes
  | [] => []
  | fe :: t => if (hostsOf t).contains fe.host then hostsOf t else fe.host :: hostsOf t

/-- admissible answers among the tree frontends `g` of ONE host pattern:
    the candidates of maximal rank -/
def bestIn (o : Oracle) (g : List Fe) (path method : Bytes) : List Route :=
  let cands := g.filterMap fun fe => (rank o fe path method).map (fe, ·)
  (cands.filter fun x => !cands.any fun y => rankLt x.2 y.2).map (·.1.route)

def firstOf (o : Oracle) (s : State) (pos : Nat) (host path method : Bytes) : Option Route :=
  (s.find? fun fe => fe.pos == pos && prePostMatch o fe host path method).map (·.route)

/-- admissible tree answers: for each most-specific host pattern (several only
    when regex hosts tie - documented as unordered) the best candidates of that
    host; a host without a matching candidate hands the request to the post
    rules (`none` here) -/
def treeRoute (o : Oracle) (s : State) (host path method : Bytes) : List (Option Route) :=
  let g := bestHostGroup o s host
  match hostsOf g with
  | [] => [none]
  | hs => hs.flatMap fun h =>
      match bestIn o (g.filter fun fe => fe.host == h) path method with
      | [] => [none]
      | l => l.map some

/-- the admissible answers for a request (`none` = no route) -/
def route (o : Oracle) (s : State) (host path method : Bytes) : List (Option Route) :=
  match firstOf o s 0 host path method with
  | some r => [some r]
  | none =>
    (treeRoute o s host path method).map fun x =>
      match x with
      | some r => some r
      | none => firstOf o s 1 host path method

/-- the lookup answer `x` is admissible -/
def admissible (x : Option Route) (l : List (Option Route)) : Bool := l.contains x

end Sozu.Router.Spec
