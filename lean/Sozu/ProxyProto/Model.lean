import Sozu.Generated.Consts
/-
C18 — executable model of the PROXY protocol v2 code of sozu
(`lib/src/protocol/proxy_protocol/{header,parser,expect,send,relay}.rs`).

The model transcribes what the code does, branch for branch; it does not say
what the code should do. Bytes are `Nat`s (< 256 on every path that matters;
the well-formedness predicates say where that is needed). Every numeric
literal comes from `Sozu.Consts` (re-extracted from the source text on every
check run), so a changed constant re-checks the theorems.

Part 1: codec   (`HeaderV2::new/into_bytes`, `parse_v2_header` — nom *streaming*)
Part 2: Expect  (`ExpectProxyProtocol::readable` + its `ready` loop)
Part 3: Send    (`SendProxyProtocol::back_writable`)
Part 4: Relay   (`RelayProxyProtocol::readable/back_writable`)
-/
namespace Sozu.ProxyProto
open Sozu

abbrev Bytes := List Nat

/-! ## Part 1 — codec -/

/-- `PROTOCOL_SIGNATURE_V2` of parser.rs -/
def sig : Bytes := Consts.ppSignatureV2
/-- the `signature` literal of `HeaderV2::into_bytes` (header.rs) -/
def encSig : Bytes := Consts.ppEncSignature

inductive Cmd where
  | loc | proxy
  deriving DecidableEq, Repr

/-- `ProxyAddr` -/
inductive Addr where
  | v4 (sip dip : Bytes) (sport dport : Nat)
  | v6 (sip dip : Bytes) (sport dport : Nat)
  | unix (src dst : Bytes)
  | unspec
  deriving DecidableEq, Repr

/-- `HeaderV2` (all three fields are `pub` in the code) -/
structure Header where
  cmd : Cmd
  family : Nat
  addr : Addr
  deriving DecidableEq, Repr

/-- `std::net::SocketAddr` as far as `ProxyAddr::from` looks at it -/
inductive SockAddr where
  | v4 (ip : Bytes) (port : Nat)
  | v6 (ip : Bytes) (port : Nat)
  deriving DecidableEq, Repr

/-- `u16_to_array_of_u8` -/
def be16 (x : Nat) : Bytes := [x / 256 % 256, x % 256]

/-- `ProxyAddr::len` -/
def Addr.len : Addr → Nat
  | .v4 .. => Consts.ppAddrLenV4
  | .v6 .. => Consts.ppAddrLenV6
  | .unix .. => Consts.ppAddrLenUnix
  | .unspec => Consts.ppAddrLenUnspec

/-- `ProxyAddr::write_bytes_to` -/
def Addr.bytes : Addr → Bytes
  | .v4 s d sp dp => s ++ d ++ be16 sp ++ be16 dp
  | .v6 s d sp dp => s ++ d ++ be16 sp ++ be16 dp
  | .unix s d => s ++ d
  | .unspec => []

/-- `get_family` -/
def familyOf : Addr → Nat
  | .v4 .. => Consts.ppFamV4Hi ||| Consts.ppFamV4Lo
  | .v6 .. => Consts.ppFamV6Hi ||| Consts.ppFamV6Lo
  | .unix .. => Consts.ppFamUnixHi ||| Consts.ppFamUnixLo
  | .unspec => Consts.ppFamUnspec

/-- `ProxyAddr::from`: a mixed v4/v6 pair collapses to `AfUnspec` -/
def Addr.from (src dst : SockAddr) : Addr :=
  match src, dst with
  | .v4 s sp, .v4 d dp => .v4 s d sp dp
  | .v6 s sp, .v6 d dp => .v6 s d sp dp
  | _, _ => .unspec

/-- `HeaderV2::new` -/
def Header.new (cmd : Cmd) (src dst : SockAddr) : Header :=
  let a := Addr.from src dst
  { cmd := cmd, family := familyOf a, addr := a }

def cmdBit : Cmd → Nat
  | .loc => Consts.ppEncCmdLocal
  | .proxy => Consts.ppEncCmdProxy

/-- `HeaderV2::into_bytes` -/
def encode (h : Header) : Bytes :=
  encSig ++ [Consts.ppVersionBits ||| cmdBit h.cmd, h.family] ++ be16 h.addr.len ++ h.addr.bytes

/-- nom's three outcomes (`Err::Error` and `Err::Failure` are handled alike by every caller) -/
inductive PResult where
  | incomplete
  | error
  | ok (h : Header) (consumed : Nat)
  deriving DecidableEq, Repr

inductive AResult where
  | incomplete
  | error
  | ok (a : Addr)
  deriving DecidableEq, Repr

/-- the byte at offset `k` (0 when out of range; every use is guarded by a length test) -/
def byteAt (i : Bytes) (k : Nat) : Nat := i.getD k 0

def be16val (bs : Bytes) : Nat := byteAt bs 0 * 256 + byteAt bs 1

/-- `parse_addr_v2(family)(data)`: `data` is exactly the `len` declared bytes.
    The inner parsers are *streaming* too: a declared block shorter than the
    family's fixed block is `Incomplete`, not an error; a longer one leaves a
    tail (TLVs) that is ignored. -/
def parseAddr (family : Nat) (data : Bytes) : AResult :=
  let nib := family / 16 % 16
  if nib = Consts.ppParseFamUnspec then .ok .unspec
  else if nib = Consts.ppParseFamV4 then
    let n := Consts.ppParseIpLenV4
    if data.length < 2 * n + 4 then .incomplete
    else .ok (.v4 (data.take n) ((data.drop n).take n)
                  (be16val (data.drop (2 * n))) (be16val (data.drop (2 * n + 2))))
  else if nib = Consts.ppParseFamV6 then
    let n := Consts.ppParseIpLenV6
    if data.length < 2 * n + 4 then .incomplete
    else .ok (.v6 (data.take n) ((data.drop n).take n)
                  (be16val (data.drop (2 * n))) (be16val (data.drop (2 * n + 2))))
  else .error

/-- `tag(&PROTOCOL_SIGNATURE_V2)` (streaming): a mismatch inside the common
    prefix is an error even when the input is shorter than the signature. -/
def sigCompatible (i : Bytes) : Bool := i.take sig.length == sig.take i.length

/-- `parse_v2_header` -/
def parse (i : Bytes) : PResult :=
  if ¬ sigCompatible i then .error
  else if i.length < sig.length then .incomplete
  else if i.length < sig.length + 1 then .incomplete
  else
    let c := byteAt i sig.length
    if c ≠ Consts.ppParseCmdLocal ∧ c ≠ Consts.ppParseCmdProxy then .error
    else if i.length < sig.length + 2 then .incomplete
    else if i.length < sig.length + 4 then .incomplete
    else
      let len := byteAt i (sig.length + 2) * 256 + byteAt i (sig.length + 3)
      if i.length < sig.length + 4 + len then .incomplete
      else
        match parseAddr (byteAt i (sig.length + 1)) ((i.drop (sig.length + 4)).take len) with
        | .incomplete => .incomplete
        | .error => .error
        | .ok a =>
          .ok { cmd := if c = Consts.ppParseCmdLocal then .loc else .proxy,
                family := byteAt i (sig.length + 1), addr := a } (sig.length + 4 + len)

/-! well-formedness: what the Rust types guarantee (`u8`, `u16`, `[u8; N]`) -/

def bytesOk (bs : Bytes) : Prop := ∀ b ∈ bs, b < 256

def SockAddr.wf : SockAddr → Prop
  | .v4 ip p => ip.length = 4 ∧ p < 65536
  | .v6 ip p => ip.length = 16 ∧ p < 65536

def Addr.wf : Addr → Prop
  | .v4 s d sp dp => s.length = 4 ∧ d.length = 4 ∧ sp < 65536 ∧ dp < 65536
  | .v6 s d sp dp => s.length = 16 ∧ d.length = 16 ∧ sp < 65536 ∧ dp < 65536
  | .unix s d => s.length = Consts.ppUnixPathLen ∧ d.length = Consts.ppUnixPathLen
  | .unspec => True

def Addr.isUnix : Addr → Bool
  | .unix .. => true
  | _ => false

/-- the cached `family` byte agrees with the address variant (what
    `HeaderV2::new` guarantees and the parser re-derives) -/
def Header.wf (h : Header) : Prop := h.addr.wf ∧ h.family = familyOf h.addr


/-! ## shared vocabulary of the session states -/

/-- `SocketResult` -/
inductive SR where
  | cont | closed | wouldBlock | error
  deriving DecidableEq, Repr

/-- `SessionResult` plus the two ways a model run can end that the code
    expresses differently: `loopCap` (the `MAX_LOOP_ITERATIONS` branch of the
    readiness loops, which closes the session) and `spin` (a `loop {}` that
    never returns: the worker thread is wedged) -/
inductive Res where
  | cont | close | upgrade | loopCap | spin
  deriving DecidableEq, Repr

/-- what the kernel answers to one `read` loop of `tcp_socket_read` over a
    window of `window` bytes when `avail` bytes are queued and `fin` says
    whether the peer's FIN is queued behind them: the bytes taken and the
    `SocketResult` -/
def kernelRead (avail : Bytes) (fin : Bool) (window : Nat) : Bytes × SR :=
  let got := avail.take window
  (got, if got.length = window then .cont else if fin then .closed else .wouldBlock)

/-! ## Part 2 — `ExpectProxyProtocol` -/

inductive HeaderLen where
  | v4 | v6 | unix
  deriving DecidableEq, Repr

def stageLen : HeaderLen → Nat
  | .v4 => Consts.ppExpectStageV4
  | .v6 => Consts.ppExpectStageV6
  | .unix => Consts.ppExpectStageUnix

structure Expect where
  /-- `frontend_buffer[..index]` (`index = buf.length`) -/
  buf : Bytes := []
  headerLen : HeaderLen := .v4
  addresses : Option Addr := none
  /-- READABLE in `frontend_readiness.interest` / `.event` -/
  interestR : Bool := true
  eventR : Bool := false
  /-- HUP in `frontend_readiness.event` (interest always has HUP | ERROR until reset) -/
  eventHup : Bool := false
  deriving DecidableEq, Repr

def Expect.resetReadiness (s : Expect) : Expect :=
  { s with interestR := false, eventR := false, eventHup := false }

/-- `ExpectProxyProtocol::readable`, given what `socket_read` returned.
    `got` is clipped to the window the code offers (`buffer[index..total_len]`). -/
def Expect.readable (s : Expect) (got0 : Bytes) (res : SR) : Expect × Res :=
  let total := stageLen s.headerLen
  let got := got0.take (total - s.buf.length)
  let s1 : Expect :=
    if got.length > 0 then
      let s' := { s with buf := s.buf ++ got }
      if s'.buf.length = Consts.ppExpectBufLen then { s' with interestR := false } else s'
    else { s with eventR := false }
  if res = .error then (s1.resetReadiness, .close)
  else
    let s2 : Expect := if res = .wouldBlock then { s1 with eventR := false } else s1
    if res = .closed ∧ s2.buf.length = 0 then (s2, .close)
    else
      match parse s2.buf with
      | .ok h _ => ({ s2 with addresses := some h.addr }, .upgrade)
      | .incomplete =>
        match s2.headerLen with
        | .v4 =>
          (if s2.buf.length = Consts.ppExpectBumpV4 then { s2 with headerLen := .v6 } else s2, .cont)
        | .v6 =>
          (if s2.buf.length = Consts.ppExpectBumpV6 then { s2 with headerLen := .unix } else s2, .cont)
        | .unix =>
          if s2.buf.length = Consts.ppExpectOversize then (s2.resetReadiness, .close) else (s2, .cont)
      | .error => (s2.resetReadiness, .close)

/-- a session in expect mode together with the kernel side of its front socket:
    bytes queued and not yet read, and whether a FIN is queued behind them -/
structure ExpectK where
  m : Expect := {}
  kernel : Bytes := []
  fin : Bool := false
  deriving DecidableEq, Repr

/-- one `readable` against the kernel state -/
def ExpectK.read (k : ExpectK) : ExpectK × Res :=
  let window := stageLen k.m.headerLen - k.m.buf.length
  let (got, res) := kernelRead k.kernel k.fin window
  let (m', r) := k.m.readable got res
  ({ k with m := m', kernel := k.kernel.drop got.length }, r)

/-- the `while counter < MAX_LOOP_ITERATIONS` loop of `ExpectProxyProtocol::ready`
    (the TCP session's `ready_inner` does the same calls for this state) -/
def ExpectK.loop : Nat → ExpectK → ExpectK × Res
  | 0, k => (k, .loopCap)
  | fuel + 1, k =>
    if ¬ (k.m.interestR ∧ k.m.eventR) then (k, .cont)
    else
      let (k', r) := k.read
      if r ≠ .cont then (k', r) else ExpectK.loop fuel k'

/-- `ready`: a HUP event closes before anything is read -/
def ExpectK.ready (k : ExpectK) : ExpectK × Res :=
  if k.m.eventHup then (k, .close) else ExpectK.loop Consts.maxLoopIterations k

/-- an epoll wake-up: `arrive` more bytes are queued (READABLE), optionally
    with the peer's FIN (mio reports `is_read_closed`, which sozu maps to HUP) -/
def ExpectK.wake (k : ExpectK) (arrive : Bytes) (fin : Bool) : ExpectK × Res :=
  let k1 : ExpectK :=
    { k with kernel := k.kernel ++ arrive, fin := k.fin || fin,
             m := { k.m with eventR := true, eventHup := k.m.eventHup || fin } }
  k1.ready

/-- outcome of a whole expect-mode session over a schedule of arrivals -/
inductive ExpectEnd where
  /-- still waiting (all arrivals delivered, header not complete) -/
  | waiting (k : ExpectK)
  /-- closed (or loop cap) after `used` arrivals -/
  | closed (k : ExpectK) (r : Res)
  /-- upgraded: the parsed addresses; `lost` = bytes the machine had already
      read past the header (they are dropped by `into_pipe` / the HTTP
      upgrade: the next state starts from empty buffers); `unread` = bytes
      still in the kernel, which the next state will read; `later` = arrivals
      not yet delivered -/
  | upgraded (addr : Option Addr) (consumed : Nat) (lost : Bytes) (unread : Bytes) (later : List Bytes)
  deriving DecidableEq, Repr

def consumedOf (buf : Bytes) : Nat :=
  match parse buf with
  | .ok _ n => n
  | _ => 0

def ExpectK.run (k : ExpectK) : List Bytes → ExpectEnd
  | [] => .waiting k
  | c :: cs =>
    match k.wake c false with
    | (k', .cont) => ExpectK.run k' cs
    | (k', .upgrade) =>
      .upgraded k'.m.addresses (consumedOf k'.m.buf) (k'.m.buf.drop (consumedOf k'.m.buf)) k'.kernel cs
    | (k', r) => .closed k' r

/-! ## Part 3 — `SendProxyProtocol` -/

/-- result of one `socket.write` on the backend socket -/
inductive WRes where
  | ok (n : Nat) | wouldBlock | err
  deriving DecidableEq, Repr

structure Send where
  header : Bytes
  cursor : Nat := 0
  /-- WRITABLE in `backend_readiness.event` -/
  eventW : Bool := true
  deriving DecidableEq, Repr

/-- `SendProxyProtocol::back_writable` computes the header once from the front
    socket: `HeaderV2::new(Command::Proxy, peer_addr, local_addr)` -/
def Send.new (peer loc : SockAddr) : Send := { header := encode (Header.new .proxy peer loc) }

/-- the write loop of `back_writable` over the results the kernel gives to the
    successive `write` calls. Returns the state, the result and the bytes that
    reached the backend socket in this call. An exhausted schedule behaves as
    `WouldBlock` (nothing more happens until the next wake-up). -/
def Send.backWritable (s : Send) : List WRes → Send × Res × Bytes
  | [] => ({ s with eventW := false }, .cont, [])
  | .wouldBlock :: _ => ({ s with eventW := false }, .cont, [])
  | .err :: _ => (s, .close, [])
  | .ok n :: rest =>
    let m := min n (s.header.length - s.cursor)
    let out := (s.header.drop s.cursor).take m
    let s' := { s with cursor := s.cursor + m }
    if s'.cursor = s'.header.length then (s', .upgrade, out)
    else
      let (s'', r, out') := Send.backWritable s' rest
      (s'', r, out ++ out')

/-- a send-mode session over a schedule of `back_writable` invocations; stops
    at the first result that is not `Continue`. Returns the bytes written to
    the backend in total and how it ended. -/
def Send.run (s : Send) : List (List WRes) → Send × Res × Bytes
  | [] => (s, .cont, [])
  | w :: ws =>
    match s.backWritable w with
    | (s', .cont, out) =>
      let (s'', r, out') := Send.run s' ws
      (s'', r, out ++ out')
    | (s', r, out) => (s', r, out)

/-! ## Part 4 — `RelayProxyProtocol` -/

/-- `pool::Checkout`: `position`, `end = position + data.length`, `capacity` -/
structure Buf where
  data : Bytes := []
  pos : Nat := 0
  cap : Nat
  deriving DecidableEq, Repr

def Buf.space (b : Buf) : Nat := b.cap - (b.pos + b.data.length)

/-- `Checkout::fill` after the bytes were copied into `space()` -/
def Buf.fill (b : Buf) (bs : Bytes) : Buf :=
  let got := bs.take b.space
  let b1 := { b with data := b.data ++ got }
  if b1.space < b1.data.length + got.length then { b1 with pos := 0 } else b1

/-- `Checkout::consume` -/
def Buf.consume (b : Buf) (n : Nat) : Buf :=
  let cnt := min n b.data.length
  let b1 := { b with data := b.data.drop cnt, pos := b.pos + cnt }
  if b1.pos > b1.cap / Consts.poolConsumeShiftDiv then { b1 with pos := 0 } else b1

structure Relay where
  buf : Buf
  cursor : Nat := 0
  headerSize : Option Nat := none
  addresses : Option Addr := none
  fInterestR : Bool := true
  fEventR : Bool := false
  bInterestW : Bool := false
  deriving DecidableEq, Repr

/-- `RelayProxyProtocol::readable` given what `socket_read` returned -/
def Relay.readable (s : Relay) (got0 : Bytes) (res : SR) : Relay × Res :=
  let got := got0.take s.buf.space
  if got.length > 0 then
    let s1 := { s with buf := s.buf.fill got }
    if res = .error then ({ s1 with fInterestR := false, fEventR := false, bInterestW := false }, .close)
    else
      let s2 := if res = .wouldBlock then { s1 with fEventR := false } else s1
      match parse s2.buf.data with
      | .ok h n =>
        -- `self.frontend_buffer.consume(sz)`: the size of *this read*, not of the header
        ({ s2 with fInterestR := false, bInterestW := true, addresses := some h.addr,
                   headerSize := some n, buf := s2.buf.consume got.length }, .cont)
      | .incomplete => (s2, .cont)
      | .error => (s2, .close)
  else (s, .cont)

/-- the `loop { socket.write(buffer.data()) }` of `RelayProxyProtocol::back_writable`.
    `write(&[])` on a TCP socket returns `Ok(0)` without blocking, so once the
    buffer is empty and the cursor is short of `header_size` the loop never
    terminates: `spin`. -/
def Relay.writeLoop (hs : Nat) (s : Relay) : List WRes → Relay × Res × Bytes
  | [] => if s.buf.data = [] then (s, .spin, []) else (s, .cont, [])
  | w :: rest =>
    -- an empty buffer: `write(&[])` answers `Ok(0)` whatever the state of the socket
    -- (full send buffer included), the cursor cannot move, the loop never ends
    if s.buf.data = [] then (s, .spin, [])
    else
      match w with
      | .wouldBlock =>
        -- any `Err` (WouldBlock included) resets both readinesses and leaves the loop
        ({ s with fInterestR := false, fEventR := false, bInterestW := false }, .cont, [])
      | .err =>
        ({ s with fInterestR := false, fEventR := false, bInterestW := false }, .cont, [])
      | .ok n =>
        let m := min n s.buf.data.length
        let out := s.buf.data.take m
        let s' := { s with cursor := s.cursor + m, buf := s.buf.consume m }
        if s'.cursor ≥ hs then (s', .upgrade, out)
        else
          let (s'', r, out') := Relay.writeLoop hs s' rest
          (s'', r, out ++ out')

def Relay.backWritable (s : Relay) (ws : List WRes) : Relay × Res × Bytes :=
  match s.headerSize with
  | none => (s, .cont, [])
  | some hs => Relay.writeLoop hs s ws

/-- a relay-mode session: the header arrives over a schedule of reads (each
    `(bytes, SocketResult)` as `socket_read` returned them), then the backend
    becomes writable and `back_writable` runs over `ws`. Returns how the read
    phase ended, the state, the final result and what reached the backend. -/
def Relay.reads (s : Relay) : List (Bytes × SR) → Relay × Res
  | [] => (s, .cont)
  | (bs, r) :: rest =>
    if ¬ s.fInterestR then (s, .cont)
    else
      match s.readable bs r with
      | (s', .cont) => Relay.reads s' rest
      | (s', r') => (s', r')

def Relay.session (s : Relay) (rs : List (Bytes × SR)) (ws : List WRes) : Relay × Res × Bytes :=
  match s.reads rs with
  | (s', .cont) => if s'.bInterestW then s'.backWritable ws else (s', .cont, [])
  | (s', r) => (s', r, [])

end Sozu.ProxyProto
