import Sozu.ProxyProto.Model
/-
C18 — helper lemmas about the PROXY v2 codec model (no property statements here).
-/
set_option linter.unusedSimpArgs false
set_option linter.unusedVariables false
namespace Sozu.ProxyProto
open Sozu

theorem sig_length : sig.length = 12 := rfl


theorem sigCompatible_iff_of_ge (i : Bytes) (h : 12 ≤ i.length) :
    sigCompatible i = true ↔ i.take 12 = sig := by
  unfold sigCompatible
  rw [sig_length]
  have : List.take i.length sig = sig := by
    apply List.take_of_length_le; rw [sig_length]; exact h
  rw [this]; simp

theorem sigCompatible_iff (i : Bytes) : sigCompatible i = true ↔ i.take 12 = sig.take i.length := by
  unfold sigCompatible; rw [sig_length]; simp

/-- compatibility with the signature is inherited by prefixes -/
theorem sigCompatible_take (i : Bytes) (k : Nat) (h : sigCompatible i = true) :
    sigCompatible (i.take k) = true := by
  rw [sigCompatible_iff] at h ⊢
  have := congrArg (List.take k) h
  simp only [List.take_take, List.length_take] at this ⊢
  rw [Nat.min_comm 12 k, this, Nat.min_comm]

/-- an incompatibility never heals when more bytes arrive -/
theorem sigCompatible_append (i r : Bytes) (h : sigCompatible (i ++ r) = true) :
    sigCompatible i = true := by
  have := sigCompatible_take (i ++ r) i.length h
  simpa using this

theorem sigCompatible_of_short_prefix (i : Bytes) (k : Nat) (hs : i.take 12 = sig) (hk : k ≤ 12) :
    sigCompatible (i.take k) = true := by
  rw [sigCompatible_iff]
  simp only [List.take_take, List.length_take]
  have := congrArg (List.take k) hs
  simp only [List.take_take] at this
  rw [Nat.min_eq_left hk] at this
  rw [Nat.min_comm 12 k, Nat.min_eq_left hk, this]
  by_cases hl : k ≤ i.length
  · rw [Nat.min_eq_left hl]
  · have hl' : i.length ≤ k := by omega
    rw [Nat.min_eq_right hl']
    have h12 : i.length < 12 := by omega
    have e : i.take 12 = i := List.take_of_length_le (by omega)
    rw [e] at hs
    rw [hs, sig_length] at h12; omega


/-- the conditions under which the parser says `ok` -/
structure OkCond (i : Bytes) (a : Addr) : Prop where
  hsig : i.take 12 = sig
  hlen16 : 16 ≤ i.length
  hcmd : byteAt i 12 = 32 ∨ byteAt i 12 = 33
  hlen : 16 + (byteAt i 14 * 256 + byteAt i 15) ≤ i.length
  haddr : parseAddr (byteAt i 13) ((i.drop 16).take (byteAt i 14 * 256 + byteAt i 15)) = .ok a

/-- `parse` with the signature length and the command bytes as literals -/
def parse' (i : Bytes) : PResult :=
  if ¬ sigCompatible i then .error
  else if i.length < 12 then .incomplete
  else if i.length < 13 then .incomplete
  else
    if byteAt i 12 ≠ 32 ∧ byteAt i 12 ≠ 33 then .error
    else if i.length < 14 then .incomplete
    else if i.length < 16 then .incomplete
    else
      if i.length < 16 + (byteAt i 14 * 256 + byteAt i 15) then .incomplete
      else
        match parseAddr (byteAt i 13) ((i.drop 16).take (byteAt i 14 * 256 + byteAt i 15)) with
        | .incomplete => .incomplete
        | .error => .error
        | .ok a =>
          .ok { cmd := if byteAt i 12 = 32 then .loc else .proxy,
                family := byteAt i 13, addr := a } (16 + (byteAt i 14 * 256 + byteAt i 15))

theorem parse_eq_parse' (i : Bytes) : parse i = parse' i := rfl

theorem parse_ok_iff (i : Bytes) (h : Header) (n : Nat) :
    parse i = .ok h n ↔
      (OkCond i h.addr ∧ h.cmd = (if byteAt i 12 = 32 then .loc else .proxy) ∧
       h.family = byteAt i 13 ∧ n = 16 + (byteAt i 14 * 256 + byteAt i 15)) := by
  rw [parse_eq_parse']
  unfold parse'
  by_cases h12 : i.length < 12
  · have : ¬ (16 ≤ i.length) := by omega
    constructor
    · intro hp
      by_cases hs : sigCompatible i = true <;> simp [hs, h12] at hp
    · intro ⟨c, _⟩; exact absurd c.hlen16 this
  · have h12' : 12 ≤ i.length := by omega
    by_cases hs : sigCompatible i = true
    · have hs' := (sigCompatible_iff_of_ge i h12').mp hs
      simp only [hs, not_true_eq_false, h12, ↓reduceIte]
      constructor
      · intro hp
        split at hp; · cases hp
        split at hp; · cases hp
        split at hp; · cases hp
        split at hp; · cases hp
        split at hp; · cases hp
        split at hp
        · cases hp
        · cases hp
        · next a ha =>
          cases hp
          exact ⟨⟨hs', by omega, by omega, by omega, ha⟩, rfl, rfl, rfl⟩
      · intro ⟨c, hc, hf, hn⟩
        have := c.hlen16
        have := c.hcmd
        have := c.hlen
        have e1 : ¬ i.length < 13 := by omega
        have e2 : ¬ i.length < 14 := by omega
        have e3 : ¬ i.length < 16 := by omega
        have e4 : ¬ i.length < 16 + (byteAt i 14 * 256 + byteAt i 15) := by omega
        have e5 : ¬ (byteAt i 12 ≠ 32 ∧ byteAt i 12 ≠ 33) := by omega
        simp only [e1, e2, e3, e4, e5, ↓reduceIte, c.haddr]
        cases h; simp_all
    · constructor
      · intro hp; simp [hs] at hp
      · intro ⟨c, _⟩
        exact absurd ((sigCompatible_iff_of_ge i h12').mpr c.hsig) hs

theorem getD_take_lt (i : Bytes) (k m : Nat) (h : m < k) : byteAt (i.take k) m = byteAt i m := by
  unfold byteAt
  rw [List.getD_eq_getElem?_getD, List.getD_eq_getElem?_getD, List.getElem?_take_of_lt h]

theorem getD_append_lt (i r : Bytes) (m : Nat) (h : m < i.length) : byteAt (i ++ r) m = byteAt i m := by
  unfold byteAt
  rw [List.getD_eq_getElem?_getD, List.getD_eq_getElem?_getD, List.getElem?_append_left h]

theorem OkCond.sigc {i : Bytes} {a : Addr} (c : OkCond i a) : sigCompatible i = true :=
  (sigCompatible_iff_of_ge i (by have := c.hlen16; omega)).mpr c.hsig

/-- once `ok`, more bytes change nothing -/
theorem parse_ok_append (i r : Bytes) (h : Header) (n : Nat) (hp : parse i = .ok h n) :
    parse (i ++ r) = .ok h n := by
  rw [parse_ok_iff] at hp ⊢
  obtain ⟨c, hc, hf, hn⟩ := hp
  have l16 := c.hlen16
  have hl := c.hlen
  have g12 := getD_append_lt i r 12 (by omega)
  have g13 := getD_append_lt i r 13 (by omega)
  have g14 := getD_append_lt i r 14 (by omega)
  have g15 := getD_append_lt i r 15 (by omega)
  have ll : (i ++ r).length = i.length + r.length := List.length_append
  refine ⟨⟨?_, ?_, ?_, ?_, ?_⟩, ?_, ?_, ?_⟩
  · rw [List.take_append_of_le_length (by omega)]; exact c.hsig
  · omega
  · rw [g12]; exact c.hcmd
  · rw [g14, g15]; omega
  · rw [g13, g14, g15, List.drop_append_of_le_length (by omega),
      List.take_append_of_le_length (by rw [List.length_drop]; omega)]
    exact c.haddr
  · rw [g12]; exact hc
  · rw [g13]; exact hf
  · rw [g14, g15]; exact hn

theorem parse_incomplete_of (j : Bytes) (hs : sigCompatible j = true)
    (h : j.length < 13 ∨ ((byteAt j 12 = 32 ∨ byteAt j 12 = 33) ∧
          (j.length < 16 ∨ j.length < 16 + (byteAt j 14 * 256 + byteAt j 15)))) :
    parse j = .incomplete := by
  rw [parse_eq_parse']; unfold parse'
  simp only [hs, not_true_eq_false, ↓reduceIte]
  rcases h with h | ⟨hc, h⟩
  · by_cases h12 : j.length < 12
    · simp [h12]
    · simp [h12, h]
  · have e5 : ¬ (byteAt j 12 ≠ 32 ∧ byteAt j 12 ≠ 33) := by omega
    by_cases h12 : j.length < 12; · simp [h12]
    by_cases h13 : j.length < 13; · simp [h12, h13]
    by_cases h14 : j.length < 14; · simp [h12, h13, h14, e5]
    by_cases h16 : j.length < 16; · simp [h12, h13, h14, h16, e5]
    have : j.length < 16 + (byteAt j 14 * 256 + byteAt j 15) := by omega
    simp [h12, h13, h14, h16, e5, this]

/-- every strict prefix of a recognised header is `Incomplete` -/
theorem parse_ok_prefix_incomplete (i : Bytes) (h : Header) (n k : Nat)
    (hp : parse i = .ok h n) (hk : k < n) : parse (i.take k) = .incomplete := by
  rw [parse_ok_iff] at hp
  obtain ⟨c, _, _, hn⟩ := hp
  have l16 := c.hlen16
  have hl := c.hlen
  have hlen : (i.take k).length = k := by rw [List.length_take]; omega
  apply parse_incomplete_of _ (sigCompatible_take i k c.sigc)
  rw [hlen]
  by_cases h13 : k < 13
  · left; exact h13
  · right
    rw [getD_take_lt i k 12 (by omega)]
    refine ⟨c.hcmd, ?_⟩
    by_cases h16 : k < 16
    · left; exact h16
    · right
      rw [getD_take_lt i k 14 (by omega), getD_take_lt i k 15 (by omega)]; omega

/-- the three ways the parser says `error` -/
theorem parse_error_iff (i : Bytes) :
    parse i = .error ↔
      (sigCompatible i = false ∨
       (sigCompatible i = true ∧ 13 ≤ i.length ∧ byteAt i 12 ≠ 32 ∧ byteAt i 12 ≠ 33) ∨
       (sigCompatible i = true ∧ (byteAt i 12 = 32 ∨ byteAt i 12 = 33) ∧
         16 + (byteAt i 14 * 256 + byteAt i 15) ≤ i.length ∧ 16 ≤ i.length ∧
         parseAddr (byteAt i 13) ((i.drop 16).take (byteAt i 14 * 256 + byteAt i 15)) = .error)) := by
  rw [parse_eq_parse']; unfold parse'
  by_cases hs : sigCompatible i = true
  · rw [if_neg (by simp [hs])]
    by_cases h12 : i.length < 12
    · rw [if_pos h12]; simp [hs]; omega
    rw [if_neg h12]
    by_cases h13 : i.length < 13
    · rw [if_pos h13]; simp [hs]; omega
    rw [if_neg h13]
    by_cases hc : byteAt i 12 ≠ 32 ∧ byteAt i 12 ≠ 33
    · rw [if_pos hc]
      constructor
      · intro _; right; left; exact ⟨hs, by omega, hc.1, hc.2⟩
      · intro _; rfl
    rw [if_neg hc]
    have hc' : byteAt i 12 = 32 ∨ byteAt i 12 = 33 := by omega
    by_cases h14 : i.length < 14
    · rw [if_pos h14]; simp [hs]; omega
    rw [if_neg h14]
    by_cases h16 : i.length < 16
    · rw [if_pos h16]; simp [hs]; omega
    rw [if_neg h16]
    by_cases hl : i.length < 16 + (byteAt i 14 * 256 + byteAt i 15)
    · rw [if_pos hl]; simp [hs]; omega
    rw [if_neg hl]
    constructor
    · intro hp
      right; right
      refine ⟨hs, hc', by omega, by omega, ?_⟩
      cases he : parseAddr (byteAt i 13) ((i.drop 16).take (byteAt i 14 * 256 + byteAt i 15)) with
      | incomplete => rw [he] at hp; cases hp
      | error => rfl
      | ok a => rw [he] at hp; cases hp
    · rintro (h | ⟨_, _, h1, h2⟩ | ⟨_, _, _, _, he⟩)
      · rw [hs] at h; cases h
      · omega
      · rw [he]
  · have hs' : sigCompatible i = false := by simpa using hs
    rw [if_pos (by simp [hs'])]
    simp [hs']

/-- a malformed header never heals when more bytes arrive -/
theorem parse_error_append (i r : Bytes) (hp : parse i = .error) : parse (i ++ r) = .error := by
  rw [parse_error_iff] at hp ⊢
  have ll : (i ++ r).length = i.length + r.length := List.length_append
  rcases hp with h | ⟨hs, hl, h1, h2⟩ | ⟨hs, hc, hl, h16, he⟩
  · left
    cases hh : sigCompatible (i ++ r)
    · rfl
    · rw [sigCompatible_append i r hh] at h; cases h
  · cases hh : sigCompatible (i ++ r)
    · left; rfl
    · right; left
      rw [getD_append_lt i r 12 (by omega)]
      exact ⟨rfl, by omega, h1, h2⟩
  · cases hh : sigCompatible (i ++ r)
    · left; rfl
    · right; right
      rw [getD_append_lt i r 12 (by omega), getD_append_lt i r 13 (by omega),
        getD_append_lt i r 14 (by omega), getD_append_lt i r 15 (by omega),
        List.drop_append_of_le_length (by omega),
        List.take_append_of_le_length (by rw [List.length_drop]; omega)]
      exact ⟨rfl, hc, by omega, by omega, he⟩

theorem encSig_eq_sig : encSig = sig := rfl

/-- the wire layout the parser accepts -/
theorem parse_of_layout (vc fam l1 l2 : Nat) (data rest : Bytes) (a : Addr)
    (hvc : vc = 32 ∨ vc = 33) (hlen : data.length = l1 * 256 + l2)
    (ha : parseAddr fam data = .ok a) :
    parse (sig ++ [vc, fam, l1, l2] ++ data ++ rest) =
      .ok ⟨if vc = 32 then .loc else .proxy, fam, a⟩ (16 + data.length) := by
  rw [parse_ok_iff]
  have e : sig ++ [vc, fam, l1, l2] ++ data ++ rest =
      13 :: 10 :: 13 :: 10 :: 0 :: 13 :: 10 :: 81 :: 85 :: 73 :: 84 :: 10 :: vc :: fam :: l1 :: l2 :: (data ++ rest) := by
    simp [sig, Consts.ppSignatureV2]
  rw [e]
  have b12 : ∀ t : Bytes, byteAt (13 :: 10 :: 13 :: 10 :: 0 :: 13 :: 10 :: 81 :: 85 :: 73 :: 84 :: 10 :: vc :: fam :: l1 :: l2 :: t) 12 = vc := fun _ => rfl
  have b13 : ∀ t : Bytes, byteAt (13 :: 10 :: 13 :: 10 :: 0 :: 13 :: 10 :: 81 :: 85 :: 73 :: 84 :: 10 :: vc :: fam :: l1 :: l2 :: t) 13 = fam := fun _ => rfl
  have b14 : ∀ t : Bytes, byteAt (13 :: 10 :: 13 :: 10 :: 0 :: 13 :: 10 :: 81 :: 85 :: 73 :: 84 :: 10 :: vc :: fam :: l1 :: l2 :: t) 14 = l1 := fun _ => rfl
  have b15 : ∀ t : Bytes, byteAt (13 :: 10 :: 13 :: 10 :: 0 :: 13 :: 10 :: 81 :: 85 :: 73 :: 84 :: 10 :: vc :: fam :: l1 :: l2 :: t) 15 = l2 := fun _ => rfl
  refine ⟨⟨rfl, by simp, ?_, ?_, ?_⟩, ?_, ?_, ?_⟩
  · rw [b12]; exact hvc
  · rw [b14, b15]; simp; omega
  · rw [b13, b14, b15]
    simp only [List.drop_succ_cons, List.drop_zero]
    rw [← hlen, List.take_left']
    · exact ha
    · rfl
  · rw [b12]
  · rw [b13]
  · rw [b14, b15]; omega

theorem be16val_be16 (x : Nat) (t : Bytes) (h : x < 65536) : be16val (be16 x ++ t) = x := by
  simp only [be16val, be16, byteAt, List.cons_append, List.nil_append, List.getD_cons_zero,
    List.getD_cons_succ]
  omega

theorem addr_bytes_length (a : Addr) (hwf : a.wf) : a.bytes.length = a.len := by
  cases a <;> simp_all [Addr.wf, Addr.bytes, Addr.len, be16, Consts.ppAddrLenV4, Consts.ppAddrLenV6,
    Consts.ppAddrLenUnix, Consts.ppAddrLenUnspec, Consts.ppUnixPathLen]

/-- `parseAddr` with the extracted constants as literals -/
def parseAddr' (family : Nat) (data : Bytes) : AResult :=
  if family / 16 % 16 = 0 then .ok .unspec
  else if family / 16 % 16 = 1 then
    if data.length < 12 then .incomplete
    else .ok (.v4 (data.take 4) ((data.drop 4).take 4) (be16val (data.drop 8)) (be16val (data.drop 10)))
  else if family / 16 % 16 = 2 then
    if data.length < 36 then .incomplete
    else .ok (.v6 (data.take 16) ((data.drop 16).take 16) (be16val (data.drop 32)) (be16val (data.drop 34)))
  else .error

theorem parseAddr_eq (f : Nat) (d : Bytes) : parseAddr f d = parseAddr' f d := rfl

theorem parseAddr_bytes (a : Addr) (hwf : a.wf) (hnu : a.isUnix = false) :
    parseAddr (familyOf a) a.bytes = .ok a := by
  cases a with
  | unspec => rfl
  | unix s d => simp [Addr.isUnix] at hnu
  | v4 s d sp dp =>
    obtain ⟨hs, hd, hsp, hdp⟩ := hwf
    have hf : familyOf (.v4 s d sp dp) = 17 := rfl
    rw [hf, parseAddr_eq]
    change parseAddr' _ (s ++ d ++ be16 sp ++ be16 dp) = _
    unfold parseAddr'
    have l : (s ++ d ++ be16 sp ++ be16 dp).length = 12 := by simp [be16, hs, hd]
    rw [if_neg (by decide), if_pos (by decide), if_neg (by omega)]
    have t1 : (s ++ d ++ be16 sp ++ be16 dp).take 4 = s := by
      rw [List.append_assoc, List.append_assoc, List.take_left' hs]
    have t2 : ((s ++ d ++ be16 sp ++ be16 dp).drop 4).take 4 = d := by
      rw [List.append_assoc, List.append_assoc, List.drop_left' hs, List.take_left' hd]
    have t3 : (s ++ d ++ be16 sp ++ be16 dp).drop 8 = be16 sp ++ be16 dp := by
      rw [List.append_assoc]; exact List.drop_left' (by simp [hs, hd])
    have t4 : (s ++ d ++ be16 sp ++ be16 dp).drop 10 = be16 dp ++ [] := by
      rw [List.append_nil]; exact List.drop_left' (by simp [hs, hd, be16])
    rw [t1, t2, t3, t4, be16val_be16 sp _ hsp, be16val_be16 dp _ hdp]
  | v6 s d sp dp =>
    obtain ⟨hs, hd, hsp, hdp⟩ := hwf
    have hf : familyOf (.v6 s d sp dp) = 33 := rfl
    rw [hf, parseAddr_eq]
    change parseAddr' _ (s ++ d ++ be16 sp ++ be16 dp) = _
    unfold parseAddr'
    have l : (s ++ d ++ be16 sp ++ be16 dp).length = 36 := by simp [be16, hs, hd]
    rw [if_neg (by decide), if_neg (by decide), if_pos (by decide), if_neg (by omega)]
    have t1 : (s ++ d ++ be16 sp ++ be16 dp).take 16 = s := by
      rw [List.append_assoc, List.append_assoc, List.take_left' hs]
    have t2 : ((s ++ d ++ be16 sp ++ be16 dp).drop 16).take 16 = d := by
      rw [List.append_assoc, List.append_assoc, List.drop_left' hs, List.take_left' hd]
    have t3 : (s ++ d ++ be16 sp ++ be16 dp).drop 32 = be16 sp ++ be16 dp := by
      rw [List.append_assoc]; exact List.drop_left' (by simp [hs, hd])
    have t4 : (s ++ d ++ be16 sp ++ be16 dp).drop 34 = be16 dp ++ [] := by
      rw [List.append_nil]; exact List.drop_left' (by simp [hs, hd, be16])
    rw [t1, t2, t3, t4, be16val_be16 sp _ hsp, be16val_be16 dp _ hdp]

theorem encode_layout (h : Header) (rest : Bytes) :
    encode h ++ rest = sig ++ [Consts.ppVersionBits ||| cmdBit h.cmd, h.family,
      h.addr.len / 256 % 256, h.addr.len % 256] ++ h.addr.bytes ++ rest := by
  simp [encode, be16, encSig_eq_sig]

theorem addr_len_split (a : Addr) : a.len = a.len / 256 % 256 * 256 + a.len % 256 := by
  cases a <;> simp [Addr.len, Consts.ppAddrLenV4, Consts.ppAddrLenV6, Consts.ppAddrLenUnix, Consts.ppAddrLenUnspec]

theorem roundtrip_general (h : Header) (rest : Bytes) (hwf : h.wf) (hnu : h.addr.isUnix = false) :
    parse (encode h ++ rest) = .ok h (encode h).length := by
  obtain ⟨ha, hf⟩ := hwf
  rw [encode_layout]
  have hvc : (Consts.ppVersionBits ||| cmdBit h.cmd) = 32 ∨ (Consts.ppVersionBits ||| cmdBit h.cmd) = 33 := by
    cases h.cmd <;> decide
  have hl := addr_bytes_length h.addr ha
  rw [parse_of_layout _ _ _ _ _ _ h.addr hvc (by rw [hl]; exact addr_len_split _)
    (by rw [hf]; exact parseAddr_bytes h.addr ha hnu)]
  have hlen : (encode h).length = 16 + h.addr.bytes.length := by
    simp [encode, be16, encSig, Consts.ppEncSignature]; omega
  rw [hlen]
  have hc : (if (Consts.ppVersionBits ||| cmdBit h.cmd) = 32 then Cmd.loc else Cmd.proxy) = h.cmd := by
    cases h.cmd <;> decide
  rw [hc]

/-! ### Send -/

/-- what one `back_writable` call guarantees, from any reachable state -/
structure SendPost (s s' : Send) (r : Res) (out : Bytes) : Prop where
  hdr : s'.header = s.header
  mono : s.cursor ≤ s'.cursor
  le : s'.cursor ≤ s.header.length
  out_eq : s.header.take s.cursor ++ out = s.header.take s'.cursor
  up : r = .upgrade → s'.cursor = s.header.length
  notup : r ≠ .upgrade → s.cursor < s.header.length → s'.cursor < s.header.length
  res : r = .cont ∨ r = .close ∨ r = .upgrade

theorem send_backWritable_post (ws : List WRes) : ∀ (s : Send), s.cursor ≤ s.header.length →
    SendPost s (s.backWritable ws).1 (s.backWritable ws).2.1 (s.backWritable ws).2.2 := by
  induction ws with
  | nil => intro s h; simp [Send.backWritable]; exact ⟨rfl, Nat.le_refl _, h, by simp, by simp, fun _ h => h, by simp⟩
  | cons w ws ih =>
    intro s h
    cases w with
    | wouldBlock => simp [Send.backWritable]; exact ⟨rfl, Nat.le_refl _, h, by simp, by simp, fun _ h => h, by simp⟩
    | err => simp [Send.backWritable]; exact ⟨rfl, Nat.le_refl _, h, by simp, by simp, fun _ h => h, by simp⟩
    | ok n =>
      simp only [Send.backWritable]
      have hm : s.cursor + min n (s.header.length - s.cursor) ≤ s.header.length := by omega
      have houtlen : s.header.take s.cursor ++ (s.header.drop s.cursor).take (min n (s.header.length - s.cursor))
          = s.header.take (s.cursor + min n (s.header.length - s.cursor)) := by
        rw [List.take_add]
      split
      · next heq =>
        exact ⟨rfl, by simp, by simpa using hm, by simpa using houtlen, fun _ => by simpa using heq, fun h => absurd rfl h, by simp⟩
      · next hne =>
        have := ih { s with cursor := s.cursor + min n (s.header.length - s.cursor) } (by simpa using hm)
        obtain ⟨h1, h2, h3, h4, h5, h6, h7⟩ := this
        simp only at h1 h2 h3 h4 h5 h6 h7 hne ⊢
        refine ⟨h1, by omega, h3, ?_, h5, ?_, h7⟩
        · rw [← List.append_assoc, houtlen]; exact h4
        · intro hr hlt; exact h6 hr (by omega)

theorem send_run_post (wss : List (List WRes)) : ∀ (s : Send), s.cursor ≤ s.header.length →
    SendPost s (s.run wss).1 (s.run wss).2.1 (s.run wss).2.2 := by
  induction wss with
  | nil => intro s h; simp [Send.run]; exact ⟨rfl, Nat.le_refl _, h, by simp, by simp, fun _ h => h, by simp⟩
  | cons w ws ih =>
    intro s h
    have p := send_backWritable_post w s h
    simp only [Send.run]
    generalize s.backWritable w = x at p
    obtain ⟨s1, r1, o1⟩ := x
    simp only at p
    cases r1 with
    | cont =>
      simp only
      have q := ih s1 (by rw [p.hdr]; exact p.le)
      obtain ⟨h1, h2, h3, h4, h5, h6, h7⟩ := q
      rw [p.hdr] at h1 h3 h4 h5 h6
      refine ⟨h1, Nat.le_trans p.mono h2, h3, ?_, h5, ?_, h7⟩
      · rw [← List.append_assoc, p.out_eq]; exact h4
      · intro hr hlt; exact h6 hr (p.notup (by simp) hlt)
    | close => exact p
    | upgrade => exact p
    | loopCap => exact p
    | spin => exact p

theorem send_exactly_once_all (peer loc : SockAddr) (wss : List (List WRes)) :
    let hdr := encode (Header.new .proxy peer loc)
    let r := (Send.new peer loc).run wss
    r.2.2 = hdr.take r.1.cursor ∧ r.1.cursor ≤ hdr.length ∧
    (r.2.1 = .upgrade → r.2.2 = hdr) ∧
    (r.2.1 ≠ .upgrade → r.2.2.length < hdr.length) ∧
    (r.2.1 = .cont ∨ r.2.1 = .close ∨ r.2.1 = .upgrade) := by
  intro hdr r
  have p := send_run_post wss (Send.new peer loc) (Nat.zero_le _)
  have h0 : (Send.new peer loc).header = hdr := rfl
  have hc0 : (Send.new peer loc).cursor = 0 := rfl
  obtain ⟨h1, h2, h3, h4, h5, h6, h7⟩ := p
  rw [h0] at h3 h4 h5 h6
  rw [hc0] at h4 h6
  simp only [List.take_zero, List.nil_append] at h4
  have hlen : 0 < hdr.length := by
    simp [hdr, encode, encSig, Consts.ppEncSignature]
  refine ⟨h4, h3, ?_, ?_, h7⟩
  · intro hu; show r.2.2 = hdr; rw [h4, h5 hu, List.take_length]
  · intro hn
    have := h6 hn hlen
    show r.2.2.length < hdr.length
    rw [h4, List.length_take]; omega


/-! ### Expect -/

theorem stageLen_v4 : stageLen .v4 = 28 := rfl
theorem stageLen_v6 : stageLen .v6 = 52 := rfl
theorem stageLen_unix : stageLen .unix = 232 := rfl

/-- `Expect.readable` with the constants as literals (definitionally the same function) -/
def Expect.readable' (s : Expect) (got0 : Bytes) (res : SR) : Expect × Res :=
  let got := got0.take (stageLen s.headerLen - s.buf.length)
  let s1 : Expect :=
    if got.length > 0 then
      let s' := { s with buf := s.buf ++ got }
      if s'.buf.length = 232 then { s' with interestR := false } else s'
    else { s with eventR := false }
  if res = .error then (s1.resetReadiness, .close)
  else
    let s2 : Expect := if res = .wouldBlock then { s1 with eventR := false } else s1
    if res = .closed ∧ s2.buf.length = 0 then (s2, .close)
    else
      match parse s2.buf with
      | .ok h _ => ({ s2 with addresses := some h.addr }, .upgrade)
      | .incomplete =>
        match s2.headerLen with
        | .v4 => (if s2.buf.length = 28 then { s2 with headerLen := .v6 } else s2, .cont)
        | .v6 => (if s2.buf.length = 52 then { s2 with headerLen := .unix } else s2, .cont)
        | .unix => if s2.buf.length = 232 then (s2.resetReadiness, .close) else (s2, .cont)
      | .error => (s2.resetReadiness, .close)

theorem readable_eq (s : Expect) (g : Bytes) (r : SR) : s.readable g r = s.readable' g r := rfl

/-- the buffer after a `readable` is the old one plus the clipped bytes -/
theorem readable_buf (s : Expect) (g : Bytes) (r : SR) :
    (s.readable g r).1.buf = s.buf ++ g.take (stageLen s.headerLen - s.buf.length) := by
  rw [readable_eq]; unfold Expect.readable'
  simp only [Expect.resetReadiness]
  repeat' split
  all_goals simp_all

def stageFor (n : Nat) : Nat := if n ≤ 28 then 28 else if n ≤ 52 then 52 else 232

def stageOk (hl : HeaderLen) (n : Nat) : Prop :=
  match hl with
  | .v4 => n < 28
  | .v6 => 28 ≤ n ∧ n < 52
  | .unix => 52 ≤ n ∧ n < 232

structure EInv (S H : Bytes) (k : ExpectK) (later : List Bytes) : Prop where
  stream : k.m.buf ++ k.kernel ++ later.flatten = S
  short : k.m.buf.length < H.length
  stage : stageOk k.m.headerLen k.m.buf.length
  intr : k.m.interestR = true
  nohup : k.m.eventHup = false
  nofin : k.fin = false

structure EUp (S H : Bytes) (h : Header) (k : ExpectK) (later : List Bytes) : Prop where
  stream : k.m.buf ++ k.kernel ++ later.flatten = S
  addr : k.m.addresses = some h.addr
  ge : H.length ≤ k.m.buf.length
  le : k.m.buf.length ≤ stageFor H.length
  hparse : parse k.m.buf = .ok h H.length

theorem prefix_short {a b H p : Bytes} (e : a ++ b = H ++ p) (h : a.length ≤ H.length) :
    a = H.take a.length := by
  have := congrArg (List.take a.length) e
  rw [List.take_left' rfl, List.take_append_of_le_length h] at this
  exact this

theorem prefix_long {a b H p : Bytes} (e : a ++ b = H ++ p) (h : H.length ≤ a.length) :
    a = H ++ a.drop H.length := by
  have := congrArg (List.take H.length) e
  rw [List.take_left' rfl, List.take_append_of_le_length h] at this
  conv => lhs; rw [← List.take_append_drop H.length a]
  rw [this]


theorem readable_ok (s : Expect) (got : Bytes) (res : SR) (h : Header) (n : Nat)
    (hres : res = .cont ∨ res = .wouldBlock)
    (hg : got.length ≤ stageLen s.headerLen - s.buf.length)
    (hp : parse (s.buf ++ got) = .ok h n) :
    (s.readable got res).2 = .upgrade ∧ (s.readable got res).1.addresses = some h.addr ∧
    (s.readable got res).1.buf = s.buf ++ got := by
  rw [readable_eq]; unfold Expect.readable'
  rw [List.take_of_length_le hg]
  by_cases h232 : (s.buf ++ got).length = 232 <;>
    rcases hres with rfl | rfl <;> rcases got with _ | ⟨g, gs⟩ <;>
    simp_all [Expect.resetReadiness]

def bump (hl : HeaderLen) (n : Nat) : HeaderLen :=
  match hl with
  | .v4 => if n = 28 then .v6 else .v4
  | .v6 => if n = 52 then .unix else .v6
  | .unix => .unix

theorem readable_incomplete (s : Expect) (got : Bytes) (res : SR)
    (hres : res = .cont ∨ res = .wouldBlock)
    (hg : got.length ≤ stageLen s.headerLen - s.buf.length)
    (hp : parse (s.buf ++ got) = .incomplete)
    (hno : (s.buf ++ got).length ≠ 232) :
    (s.readable got res).2 = .cont ∧
    (s.readable got res).1.buf = s.buf ++ got ∧
    (s.readable got res).1.headerLen = bump s.headerLen (s.buf ++ got).length ∧
    (s.readable got res).1.interestR = s.interestR ∧
    (s.readable got res).1.eventHup = s.eventHup ∧
    (s.readable got res).1.eventR = (s.eventR && decide (got ≠ []) && decide (res = .cont)) := by
  rw [readable_eq]; unfold Expect.readable'
  rw [List.take_of_length_le hg]
  rcases hres with rfl | rfl <;> rcases got with _ | ⟨g, gs⟩ <;>
    cases hhl : s.headerLen <;>
    simp_all [Expect.resetReadiness, bump] <;>
    (split <;> simp_all)

theorem stage_bump (hl : HeaderLen) (n0 n' : Nat) (hst : stageOk hl n0) (h1 : n0 ≤ n')
    (h2 : n' ≤ stageLen hl) (h3 : n' ≠ 232) : stageOk (bump hl n') n' := by
  cases hl
  · simp only [stageOk, stageLen_v4] at hst h2
    by_cases e : n' = 28
    · simp only [bump, e, ↓reduceIte, stageOk]; omega
    · simp only [bump, e, ↓reduceIte, stageOk]; omega
  · simp only [stageOk, stageLen_v6] at hst h2
    by_cases e : n' = 52
    · simp only [bump, e, ↓reduceIte, stageOk]; omega
    · simp only [bump, e, ↓reduceIte, stageOk]; omega
  · simp only [stageOk, bump, stageLen_unix] at hst h2 ⊢
    omega

theorem read_spec (S H payload : Bytes) (h : Header) (hS : S = H ++ payload)
    (hv : parse H = .ok h H.length) (hle : H.length ≤ 232)
    (k : ExpectK) (later : List Bytes) (inv : EInv S H k later) (hev : k.m.eventR = true) :
    ((k.read).2 = .cont ∧ EInv S H (k.read).1 later ∧
      ((k.read).1.m.eventR = true → k.m.buf.length < (k.read).1.m.buf.length) ∧
      ((k.read).1.m.eventR = false → (k.read).1.kernel = [])) ∨
    ((k.read).2 = .upgrade ∧ EUp S H h (k.read).1 later) := by
  obtain ⟨hstream, hshort, hstage, hintr, hnohup, hnofin⟩ := inv
  obtain ⟨m, kernel, fin⟩ := k
  obtain ⟨buf, hl, addrs, iR, eR, eH⟩ := m
  simp only at hstream hshort hstage hintr hnohup hnofin hev
  subst hintr hnohup hnofin hev
  -- the window is positive
  have hw : 0 < stageLen hl - buf.length ∧ stageLen hl ≤ stageFor H.length ∧ stageLen hl ≤ 232 := by
    cases hl <;> simp only [stageOk] at hstage <;>
      simp only [stageLen_v4, stageLen_v6, stageLen_unix, stageFor] <;> (split <;> try split) <;> omega
  generalize hwd : stageLen hl - buf.length = w at hw
  -- what is read
  have hgot_le : (kernel.take w).length ≤ w := by rw [List.length_take]; omega
  have hbuf' : (buf ++ kernel.take w) ++ (kernel.drop w ++ later.flatten) = H ++ payload := by
    rw [← hS, ← hstream, List.append_assoc, List.append_assoc, ← List.append_assoc (kernel.take w), List.take_append_drop]
  have hres : (if (kernel.take w).length = w then SR.cont else if false = true then SR.closed else SR.wouldBlock) = .cont ∨
      (if (kernel.take w).length = w then SR.cont else if false = true then SR.closed else SR.wouldBlock) = .wouldBlock := by
    split <;> simp
  generalize hresd : (if (kernel.take w).length = w then SR.cont else if false = true then SR.closed else SR.wouldBlock) = res at hres
  have hread : ExpectK.read ⟨⟨buf, hl, addrs, true, true, false⟩, kernel, false⟩ =
      (⟨(Expect.readable ⟨buf, hl, addrs, true, true, false⟩ (kernel.take w) res).1, kernel.drop (kernel.take w).length, false⟩,
       (Expect.readable ⟨buf, hl, addrs, true, true, false⟩ (kernel.take w) res).2) := by
    simp only [ExpectK.read, kernelRead, hwd, hresd]
  rw [hread]
  have hg : (kernel.take w).length ≤ stageLen (Expect.mk buf hl addrs true true false).headerLen - (Expect.mk buf hl addrs true true false).buf.length := by
    simp only; rw [hwd]; exact hgot_le
  have hdrop : kernel.drop (kernel.take w).length = kernel.drop w := by
    rw [List.length_take]
    by_cases hh : w ≤ kernel.length
    · rw [Nat.min_eq_left hh]
    · rw [Nat.min_eq_right (by omega), List.drop_of_length_le (Nat.le_refl _), List.drop_of_length_le (by omega)]
  have hstream' : buf ++ kernel.take w ++ kernel.drop w ++ later.flatten = S := by
    rw [List.append_assoc buf, List.take_append_drop]; exact hstream
  by_cases hc : H.length ≤ (buf ++ kernel.take w).length
  · -- the header is complete: upgrade
    right
    have e := prefix_long hbuf' hc
    have hp : parse (buf ++ kernel.take w) = .ok h H.length := by
      rw [e]; exact parse_ok_append _ _ _ _ hv
    obtain ⟨r1, r2, r3⟩ := readable_ok ⟨buf, hl, addrs, true, true, false⟩ (kernel.take w) res h H.length hres hg hp
    refine ⟨r1, ?_, r2, ?_, ?_, ?_⟩
    · simp only [r3, hdrop]; exact hstream'
    · simp only [r3]; exact hc
    · simp only [r3]
      have : (buf ++ kernel.take w).length ≤ stageLen hl := by
        rw [List.length_append]; omega
      omega
    · simp only [r3]; exact hp
  · -- still short of the header: Incomplete
    left
    have hlt : (buf ++ kernel.take w).length < H.length := by omega
    have e := prefix_short hbuf' (by omega)
    have hp : parse (buf ++ kernel.take w) = .incomplete := by
      rw [e]; exact parse_ok_prefix_incomplete H h H.length _ hv hlt
    have hno : (buf ++ kernel.take w).length ≠ 232 := by omega
    obtain ⟨r1, r2, r3, r4, r5, r6⟩ := readable_incomplete ⟨buf, hl, addrs, true, true, false⟩ (kernel.take w) res hres hg hp hno
    refine ⟨r1, ⟨?_, ?_, ?_, r4, r5, rfl⟩, ?_, ?_⟩
    · simp only [r2, hdrop]; exact hstream'
    · simp only [r2]; exact hlt
    · simp only [r2, r3]
      have hlen : (buf ++ kernel.take w).length ≤ stageLen hl := by
        rw [List.length_append]; omega
      have hge : buf.length ≤ (buf ++ kernel.take w).length := by rw [List.length_append]; omega
      exact stage_bump hl buf.length _ hstage hge hlen hno
    · intro he
      simp only [r6, r2] at he ⊢
      have : kernel.take w ≠ [] := by
        intro h0; rw [h0] at he; simp at he
      have : 0 < (kernel.take w).length := List.length_pos_iff.mpr this
      rw [List.length_append]; omega
    · intro he
      simp only [r6] at he ⊢
      rw [hdrop]
      -- eventR went off: either nothing was read, or the read came back short (WouldBlock)
      by_cases hk : kernel.length ≤ w
      · exact List.drop_of_length_le hk
      · exfalso
        have hfull : (kernel.take w).length = w := by rw [List.length_take]; omega
        have : res = .cont := by rw [← hresd]; simp [hfull]
        have hne : kernel.take w ≠ [] := by
          intro h0; rw [h0] at hfull; simp at hfull; omega
        simp [this, hne] at he

theorem loop_spec (S H payload : Bytes) (h : Header) (hS : S = H ++ payload)
    (hv : parse H = .ok h H.length) (hle : H.length ≤ 232) (later : List Bytes) :
    ∀ (fuel : Nat) (k : ExpectK), EInv S H k later → (k.m.eventR = false → k.kernel = []) →
      (if k.m.eventR then 234 - k.m.buf.length else 1) ≤ fuel →
      (((ExpectK.loop fuel k).2 = .cont ∧ EInv S H (ExpectK.loop fuel k).1 later ∧
          (ExpectK.loop fuel k).1.kernel = []) ∨
       ((ExpectK.loop fuel k).2 = .upgrade ∧ EUp S H h (ExpectK.loop fuel k).1 later)) := by
  intro fuel
  induction fuel with
  | zero =>
    intro k inv hk hf
    exfalso
    have := inv.short
    split at hf <;> omega
  | succ f ih =>
    intro k inv hk hf
    unfold ExpectK.loop
    by_cases hev : k.m.eventR = true
    · have hi := inv.intr
      simp only [hi, hev, and_self, not_true_eq_false, ↓reduceIte]
      rcases read_spec S H payload h hS hv hle k later inv hev with ⟨r, inv', hgrow, hkern⟩ | ⟨r, up⟩
      · rcases hx : k.read with ⟨k', r'⟩
        rw [hx] at r inv' hgrow hkern
        simp only at r inv' hgrow hkern
        subst r
        simp only [ne_eq, not_true_eq_false, ↓reduceIte]
        apply ih k' inv' hkern
        have := inv'.short
        have := inv.short
        simp only [hev, ↓reduceIte] at hf
        by_cases he' : k'.m.eventR = true
        · have := hgrow he'
          simp only [he', ↓reduceIte]; omega
        · simp only [he']; simp; omega
      · rcases hx : k.read with ⟨k', r'⟩
        rw [hx] at r up
        simp only at r up
        subst r
        right
        simp only [ne_eq, reduceCtorEq, not_false_eq_true, ↓reduceIte]
        exact ⟨trivial, up⟩
    · have hev' : k.m.eventR = false := by simpa using hev
      simp only [hev', Bool.false_eq_true, and_false, not_false_eq_true, ↓reduceIte]
      left
      exact ⟨trivial, inv, hk hev'⟩

/-- what a complete expect-mode run over a valid header guarantees -/
structure ExpectOutcome (H payload : Bytes) (h : Header) (e : ExpectEnd) : Prop where
  shape : ∃ lost unread later, e = .upgraded (some h.addr) H.length lost unread later ∧
            lost ++ unread ++ later.flatten = payload ∧ lost.length ≤ stageFor H.length - H.length

theorem run_spec (S H payload : Bytes) (h : Header) (hS : S = H ++ payload)
    (hv : parse H = .ok h H.length) (hle : H.length ≤ 232) :
    ∀ (chunks : List Bytes) (k : ExpectK), EInv S H k chunks → k.kernel = [] →
      ExpectOutcome H payload h (k.run chunks) := by
  intro chunks
  induction chunks with
  | nil =>
    intro k inv hk
    exfalso
    have h1 := inv.stream
    have h2 := inv.short
    rw [hk] at h1
    simp only [List.flatten_nil, List.append_nil] at h1
    rw [h1, hS, List.length_append] at h2; omega
  | cons c cs ih =>
    intro k inv hk
    unfold ExpectK.run
    have hwake : k.wake c false = ExpectK.loop Consts.maxLoopIterations
        (ExpectK.mk (Expect.mk k.m.buf k.m.headerLen k.m.addresses k.m.interestR true (k.m.eventHup || false))
          (k.kernel ++ c) (k.fin || false)) := by
      unfold ExpectK.wake ExpectK.ready
      simp [inv.nohup]
    rw [hwake]
    have inv1 : EInv S H (ExpectK.mk (Expect.mk k.m.buf k.m.headerLen k.m.addresses k.m.interestR true (k.m.eventHup || false))
          (k.kernel ++ c) (k.fin || false)) cs := by
      refine ⟨?_, inv.short, inv.stage, inv.intr, ?_, ?_⟩
      · have := inv.stream
        simp only [List.flatten_cons] at this
        simp only [List.append_assoc] at this ⊢
        exact this
      · simp [inv.nohup]
      · simp [inv.nofin]
    have hfuel : (if (ExpectK.mk (Expect.mk k.m.buf k.m.headerLen k.m.addresses k.m.interestR true (k.m.eventHup || false))
          (k.kernel ++ c) (k.fin || false)).m.eventR
        then 234 - (ExpectK.mk (Expect.mk k.m.buf k.m.headerLen k.m.addresses k.m.interestR true (k.m.eventHup || false))
          (k.kernel ++ c) (k.fin || false)).m.buf.length else 1) ≤ Consts.maxLoopIterations := by
      simp only [↓reduceIte, Consts.maxLoopIterations]; omega
    rcases loop_spec S H payload h hS hv hle cs Consts.maxLoopIterations _ inv1 (by simp) hfuel with
      ⟨r, inv', hk'⟩ | ⟨r, up⟩
    · generalize ExpectK.loop Consts.maxLoopIterations _ = x at r inv' hk'
      obtain ⟨k', r'⟩ := x
      simp only at r inv' hk'
      subst r
      exact ih k' inv' hk'
    · generalize ExpectK.loop Consts.maxLoopIterations _ = x at r up
      obtain ⟨k', r'⟩ := x
      simp only at r up
      subst r
      simp only
      have hcons : consumedOf k'.m.buf = H.length := by
        unfold consumedOf; rw [up.hparse]
      rw [hcons, up.addr]
      refine ⟨k'.m.buf.drop H.length, k'.kernel, cs, rfl, ?_, ?_⟩
      · have e1 := up.stream
        have hb : k'.m.buf = H ++ k'.m.buf.drop H.length := by
          have := prefix_long (a := k'.m.buf) (b := k'.kernel ++ cs.flatten) (H := H) (p := payload)
            (by rw [← hS, ← e1]; simp) up.ge
          exact this
        rw [hS, hb] at e1
        simp only [List.append_assoc] at e1
        have := List.append_cancel_left e1
        simp only [List.append_assoc]
        rw [← this]
      · rw [List.length_drop]; have := up.le; omega

/-! safety for arbitrary streams: an upgrade always rests on a recognised prefix -/

theorem readable_upgrade (s : Expect) (got : Bytes) (res : SR)
    (hu : (s.readable got res).2 = .upgrade) :
    ∃ h n, parse (s.readable got res).1.buf = .ok h n ∧ (s.readable got res).1.addresses = some h.addr := by
  rw [readable_eq] at hu ⊢
  unfold Expect.readable' at hu ⊢
  generalize got.take (stageLen s.headerLen - s.buf.length) = g at hu ⊢
  rcases g with _ | ⟨x, xs⟩
  · cases hp : parse s.buf <;> cases res <;> cases hhl : s.headerLen <;>
      simp_all [Expect.resetReadiness] <;> (repeat (split at hu <;> simp_all))
  · by_cases h232 : (s.buf ++ x :: xs).length = 232 <;>
      cases hp : parse (s.buf ++ x :: xs) <;> cases res <;> cases hhl : s.headerLen <;>
      simp_all [Expect.resetReadiness] <;> (repeat (split at hu <;> simp_all))

theorem read_stream (k : ExpectK) :
    (k.read).1.m.buf ++ (k.read).1.kernel = k.m.buf ++ k.kernel ∧
    ((k.read).2 = .upgrade → ∃ h n, parse (k.read).1.m.buf = .ok h n ∧ (k.read).1.m.addresses = some h.addr) := by
  unfold ExpectK.read kernelRead
  simp only
  constructor
  · rw [readable_buf]
    simp only [List.take_take, Nat.min_self, List.append_assoc]
    rw [List.length_take]
    congr 1
    by_cases hh : stageLen k.m.headerLen - k.m.buf.length ≤ k.kernel.length
    · rw [Nat.min_eq_left hh, List.take_append_drop]
    · rw [Nat.min_eq_right (by omega), List.take_of_length_le (by omega), List.drop_of_length_le (Nat.le_refl _)]
      simp
  · intro hu
    exact readable_upgrade _ _ _ hu

theorem loop_stream : ∀ (fuel : Nat) (k : ExpectK),
    (ExpectK.loop fuel k).1.m.buf ++ (ExpectK.loop fuel k).1.kernel = k.m.buf ++ k.kernel ∧
    ((ExpectK.loop fuel k).2 = .upgrade → ∃ h n, parse (ExpectK.loop fuel k).1.m.buf = .ok h n ∧
        (ExpectK.loop fuel k).1.m.addresses = some h.addr) := by
  intro fuel
  induction fuel with
  | zero => intro k; simp [ExpectK.loop]
  | succ f ih =>
    intro k
    unfold ExpectK.loop
    split
    · simp
    · have hr := read_stream k
      rcases hx : k.read with ⟨k', r⟩
      rw [hx] at hr
      simp only at hr ⊢
      split
      · exact hr
      · have := ih k'
        rw [hr.1] at this
        exact this

theorem run_upgrade_sound : ∀ (chunks : List Bytes) (k : ExpectK) (a : Option Addr) (n : Nat)
    (lost unread : Bytes) (later : List Bytes),
    k.run chunks = .upgraded a n lost unread later →
    ∃ p h, parse p = .ok h n ∧ a = some h.addr ∧ lost = p.drop n ∧
      p ++ unread ++ later.flatten = k.m.buf ++ k.kernel ++ chunks.flatten := by
  intro chunks
  induction chunks with
  | nil => intro k a n lost unread later hr; simp [ExpectK.run] at hr
  | cons c cs ih =>
    intro k a n lost unread later hr
    unfold ExpectK.run at hr
    have hw : (k.wake c false).1.m.buf ++ (k.wake c false).1.kernel = k.m.buf ++ (k.kernel ++ c) ∧
        ((k.wake c false).2 = .upgrade → ∃ h n, parse (k.wake c false).1.m.buf = .ok h n ∧
          (k.wake c false).1.m.addresses = some h.addr) := by
      unfold ExpectK.wake ExpectK.ready
      simp only
      split
      · simp
      · exact loop_stream _ _
    rcases hx : k.wake c false with ⟨k', r⟩
    rw [hx] at hr hw
    simp only at hw
    cases r with
    | cont =>
      simp only at hr
      obtain ⟨p, h, h1, h2, h3, h4⟩ := ih k' a n lost unread later hr
      refine ⟨p, h, h1, h2, h3, ?_⟩
      rw [h4, hw.1]; simp
    | upgrade =>
      simp only at hr
      obtain ⟨h, m, hp, ha⟩ := hw.2 rfl
      have hc : consumedOf k'.m.buf = m := by unfold consumedOf; rw [hp]
      rw [hc] at hr
      cases hr
      refine ⟨k'.m.buf, h, hp, ha, rfl, ?_⟩
      rw [hw.1]; simp
    | close => simp at hr
    | loopCap => simp at hr
    | spin => simp at hr

/-! ### Relay -/

theorem fill_data (b : Buf) (bs : Bytes) : (b.fill bs).data = b.data ++ bs.take b.space := by
  unfold Buf.fill; simp only; split <;> rfl

theorem consume_data (b : Buf) (n : Nat) : (b.consume n).data = b.data.drop (min n b.data.length) := by
  unfold Buf.consume; simp only; split <;> rfl

/-- `ok` only looks at the bytes it consumes -/
theorem parse_ok_take (i : Bytes) (h : Header) (n : Nat) (hp : parse i = .ok h n) :
    parse (i.take n) = .ok h n := by
  rw [parse_ok_iff] at hp ⊢
  obtain ⟨c, hc, hf, hn⟩ := hp
  have l16 := c.hlen16
  have hl := c.hlen
  have n16 : 16 ≤ n := by omega
  have hnl : n ≤ i.length := by omega
  have g12 := getD_take_lt i n 12 (by omega)
  have g13 := getD_take_lt i n 13 (by omega)
  have g14 := getD_take_lt i n 14 (by omega)
  have g15 := getD_take_lt i n 15 (by omega)
  have ll : (i.take n).length = n := by rw [List.length_take]; omega
  refine ⟨⟨?_, ?_, ?_, ?_, ?_⟩, ?_, ?_, ?_⟩
  · rw [List.take_take, Nat.min_eq_left (by omega)]; exact c.hsig
  · omega
  · rw [g12]; exact c.hcmd
  · rw [g14, g15]; omega
  · rw [g13, g14, g15, List.drop_take]
    have : n - 16 = byteAt i 14 * 256 + byteAt i 15 := by omega
    rw [this, List.take_take, Nat.min_self]
    exact c.haddr
  · rw [g12]; exact hc
  · rw [g13]; exact hf
  · rw [g14, g15]; exact hn

/-- relay invariant: nothing written yet and either no header recognised so far, or
    fewer bytes left in the buffer than `header_size` -/
def RelayInv (s : Relay) : Prop :=
  s.cursor = 0 ∧
  ((s.headerSize = none ∧ ∀ h n, parse s.buf.data ≠ .ok h n) ∨
   (∃ n, s.headerSize = some n ∧ s.buf.data.length < n ∧ s.fInterestR = false))

theorem relay_readable_inv (s : Relay) (g : Bytes) (r : SR)
    (hn : s.headerSize = none) (hc : s.cursor = 0) (hno : ∀ h n, parse s.buf.data ≠ .ok h n)
    (hres : (s.readable g r).2 = .cont) : RelayInv (s.readable g r).1 := by
  unfold Relay.readable at hres ⊢
  simp only at hres ⊢
  by_cases hpos : (g.take s.buf.space).length > 0
  · simp only [hpos, ↓reduceIte] at hres ⊢
    have hd : (s.buf.fill (g.take s.buf.space)).data = s.buf.data ++ g.take s.buf.space := by
      rw [fill_data, List.take_take, Nat.min_self]
    cases r <;> simp only [reduceCtorEq, ↓reduceIte] at hres ⊢
    all_goals
      cases hp : parse (s.buf.fill (g.take s.buf.space)).data with
      | incomplete =>
        simp only [hp] at hres ⊢
        refine ⟨hc, Or.inl ⟨hn, ?_⟩⟩
        intro h n; simp only [hp]; exact fun e => by cases e
      | error => simp only [hp] at hres; cases hres
      | ok h n =>
        simp only [hp] at hres ⊢
        refine ⟨hc, Or.inr ⟨n, rfl, ?_, rfl⟩⟩
        rw [consume_data, hd, List.length_drop, List.length_append]
        rw [hd] at hp
        have hlt : s.buf.data.length < n := by
          apply Nat.lt_of_not_le
          intro hle
          have h1 := parse_ok_take _ _ _ hp
          rw [List.take_append_of_le_length hle] at h1
          have h2 := parse_ok_append _ (s.buf.data.drop n) _ _ h1
          rw [List.take_append_drop] at h2
          exact hno h n h2
        omega
  · simp only [hpos, ↓reduceIte] at hres ⊢; exact ⟨hc, Or.inl ⟨hn, hno⟩⟩

theorem relay_writeLoop_never_upgrades (hs : Nat) : ∀ (ws : List WRes) (s : Relay),
    s.cursor + s.buf.data.length < hs → (Relay.writeLoop hs s ws).2.1 ≠ .upgrade := by
  intro ws
  induction ws with
  | nil => intro s h; unfold Relay.writeLoop; split <;> simp
  | cons w ws ih =>
    intro s h
    unfold Relay.writeLoop
    split
    · simp
    · cases w with
      | wouldBlock => simp
      | err => simp
      | ok n =>
        simp only
        have hlen : (s.buf.consume (min n s.buf.data.length)).data.length =
            s.buf.data.length - min n s.buf.data.length := by
          rw [consume_data, List.length_drop]; omega
        split
        · next hge => omega
        · have := ih { s with cursor := s.cursor + min n s.buf.data.length,
                              buf := s.buf.consume (min n s.buf.data.length) }
            (by simp only [hlen]; omega)
          exact this

theorem relay_reads_inv : ∀ (rs : List (Bytes × SR)) (s : Relay), RelayInv s →
    (s.reads rs).2 = .cont → RelayInv (s.reads rs).1 := by
  intro rs
  induction rs with
  | nil => intro s h _; exact h
  | cons x rs ih =>
    intro s h hr
    obtain ⟨bs, r⟩ := x
    unfold Relay.reads at hr ⊢
    by_cases hf : s.fInterestR = true
    · simp only [hf, not_true_eq_false, ↓reduceIte] at hr ⊢
      rcases h with ⟨hc, ⟨hnone, hno⟩ | ⟨n, hn, _, hfi⟩⟩
      · have hinv := relay_readable_inv s bs r hnone hc hno
        rcases hx : s.readable bs r with ⟨s', r'⟩
        rw [hx] at hr hinv
        cases r' <;> simp only at hr ⊢ <;> try (cases hr; done)
        exact ih s' (hinv rfl) hr
      · rw [hfi] at hf; cases hf
    · have hf' : s.fInterestR = false := by simpa using hf
      simp only [hf', Bool.false_eq_true, not_false_eq_true, ↓reduceIte] at hr ⊢
      exact h

theorem relay_readable_res (s : Relay) (g : Bytes) (r : SR) :
    (s.readable g r).2 = .cont ∨ (s.readable g r).2 = .close := by
  unfold Relay.readable
  simp only
  split
  · split
    · simp
    · split <;> simp
  · simp

theorem relay_reads_res : ∀ (rs : List (Bytes × SR)) (s : Relay),
    (s.reads rs).2 = .cont ∨ (s.reads rs).2 = .close := by
  intro rs
  induction rs with
  | nil => intro s; simp [Relay.reads]
  | cons x rs ih =>
    intro s
    obtain ⟨bs, r⟩ := x
    unfold Relay.reads
    split
    · simp
    · have := relay_readable_res s bs r
      rcases hx : s.readable bs r with ⟨s', r'⟩
      rw [hx] at this
      simp only at this ⊢
      rcases this with rfl | rfl
      · exact ih s'
      · simp

/-- relay mode never reaches `Upgrade`, whatever the stream, the read boundaries,
    the buffer size and the write schedule -/
theorem relay_session_never_upgrades (cap : Nat) (rs : List (Bytes × SR)) (ws : List WRes) :
    (Relay.session { buf := { cap := cap } } rs ws).2.1 ≠ .upgrade := by
  unfold Relay.session
  have h0 : RelayInv ({ buf := { cap := cap } } : Relay) := by
    refine ⟨rfl, Or.inl ⟨rfl, ?_⟩⟩
    intro h n; simp only; intro e
    have : parse [] = .incomplete := by decide
    rw [this] at e; cases e
  have hinv := relay_reads_inv rs _ h0
  rcases hx : Relay.reads { buf := { cap := cap } } rs with ⟨s', r'⟩
  rw [hx] at hinv
  have hres := relay_reads_res rs { buf := { cap := cap } }
  rw [hx] at hres
  simp only at hres
  rcases hres with rfl | rfl
  case inr => simp
  have hi := hinv rfl
  simp only at hi ⊢
  by_cases hb : s'.bInterestW = true
  · simp only [hb, ↓reduceIte]
    unfold Relay.backWritable
    rcases hi with ⟨hc, ⟨hnone, _⟩ | ⟨n, hn, hlt, _⟩⟩
    · rw [hnone]; simp
    · rw [hn]; simp only
      exact relay_writeLoop_never_upgrades n ws s' (by omega)
  · simp [hb]

end Sozu.ProxyProto
