import Sozu.ProxyProto.Lemmas
/-
C18 — property theorems for the PROXY protocol v2 codec and the three
proxy-protocol session states (expect / send / relay). Only property
statements (`C18_*`) and their non-vacuity `example`s live here.
-/
set_option linter.unusedVariables false
namespace Sozu.ProxyProto
open Sozu

/-! ## codec -/

/-- The encoder's and the parser's signature literals are the same 12 bytes. -/
theorem C18_pp_signatures_agree : encSig = sig ∧ sig.length = 12 := ⟨rfl, rfl⟩

/-- Every header `HeaderV2::new` can build (IPv4 pair, IPv6 pair, mixed pair →
    UNSPEC; LOCAL or PROXY) survives encode → parse exactly, whatever follows
    it on the wire, and the parser consumes exactly the encoded length. -/
theorem C18_pp_roundtrip (cmd : Cmd) (src dst : SockAddr) (rest : Bytes)
    (hs : src.wf) (hd : dst.wf) :
    parse (encode (Header.new cmd src dst) ++ rest) =
      .ok (Header.new cmd src dst) (encode (Header.new cmd src dst)).length := by
  apply roundtrip_general
  · cases src <;> cases dst <;>
      simp_all [Header.new, Header.wf, Addr.from, Addr.wf, SockAddr.wf]
  · cases src <;> cases dst <;> rfl

example : parse (encode (Header.new .proxy (.v4 [127, 0, 0, 1] 40000) (.v4 [10, 4, 5, 8] 4200)) ++ [1, 2, 3]) =
    .ok (Header.new .proxy (.v4 [127, 0, 0, 1] 40000) (.v4 [10, 4, 5, 8] 4200)) 28 := by decide

/-- The same for every well-formed header value (the fields are `pub`, so any
    `family`/`addr` pair can be built by hand) whose address block is not
    AF_UNIX. -/
theorem C18_pp_roundtrip_partial (h : Header) (rest : Bytes) (hwf : h.wf)
    (hnu : h.addr.isUnix = false) :
    parse (encode h ++ rest) = .ok h (encode h).length :=
  roundtrip_general h rest hwf hnu

/-- AF_UNIX: the encoder emits the 232-byte header, the parser rejects the
    family nibble — the round trip fails for the one family excluded above. -/
theorem C18_pp_roundtrip_counterexample :
    ∃ h : Header, h.wf ∧ (encode h).length = 232 ∧ parse (encode h) = .error :=
  ⟨⟨.proxy, 49, .unix (List.replicate 108 0) (List.replicate 108 0)⟩,
    ⟨⟨by decide, by decide⟩, rfl⟩, by decide, by decide +kernel⟩

/-- Every strict prefix of an encoded header is `Incomplete` (never an error,
    never a premature `Ok`). -/
theorem C18_pp_prefix_incomplete (h : Header) (k : Nat) (hwf : h.wf) (hnu : h.addr.isUnix = false)
    (hk : k < (encode h).length) : parse ((encode h).take k) = .incomplete := by
  have := roundtrip_general h [] hwf hnu
  rw [List.append_nil] at this
  exact parse_ok_prefix_incomplete _ _ _ _ this hk

example : parse ((encode (Header.new .loc (.v4 [1, 2, 3, 4] 5) (.v6 (List.replicate 16 0) 6))).take 15) =
    .incomplete := by decide

/-- Consumption bound: an `Ok` consumes exactly 16 + the declared length, which
    is at most the input; the parser is a total function (no input panics it). -/
theorem C18_pp_parse_consumption_bound (i : Bytes) (h : Header) (n : Nat) (hp : parse i = .ok h n) :
    16 ≤ n ∧ n ≤ i.length ∧ n = 16 + (byteAt i 14 * 256 + byteAt i 15) := by
  rw [parse_ok_iff] at hp
  obtain ⟨c, _, _, hn⟩ := hp
  have := c.hlen
  omega

example : parse (encode (Header.new .loc (.v4 [1, 2, 3, 4] 5) (.v4 [6, 7, 8, 9] 10)) ++ [0, 0]) =
    .ok (Header.new .loc (.v4 [1, 2, 3, 4] 5) (.v4 [6, 7, 8, 9] 10)) 28 := by decide

/-- Verdicts are stable: once `Ok`, more bytes change nothing (same header,
    same consumed length); once `Error`, more bytes never heal it; and an `Ok`
    only depends on the bytes it consumes, every shorter prefix being
    `Incomplete`. So a byte stream has one verdict however it is fragmented. -/
theorem C18_pp_verdict_stable (i r : Bytes) :
    (∀ h n, parse i = .ok h n → parse (i ++ r) = .ok h n ∧ parse (i.take n) = .ok h n ∧
        ∀ k, k < n → parse (i.take k) = .incomplete) ∧
    (parse i = .error → parse (i ++ r) = .error) :=
  ⟨fun h n hp => ⟨parse_ok_append i r h n hp, parse_ok_take i h n hp,
      fun k hk => parse_ok_prefix_incomplete i h n k hp hk⟩,
   parse_error_append i r⟩

example : parse [13, 10, 13, 10, 0, 13, 10, 81, 85, 73, 84, 10, 0x30] = .error ∧
    parse ([13, 10, 13, 10, 0, 13, 10, 81, 85, 73, 84, 10, 0x30] ++ [1, 2, 3]) = .error := by decide

/-! ## send mode -/

/-- For every schedule of partial writes / would-blocks / errors over any number
    of `back_writable` calls: what reached the backend is always a prefix of the
    header built from the true client and listener addresses; the state says
    `Upgrade` exactly when the cursor hits the header length, and then the
    backend has received exactly the header, once (the run stops there: the
    state is consumed by `into_pipe`); in every other outcome the backend has a
    strict prefix. -/
theorem C18_send_exactly_once (peer loc : SockAddr) (wss : List (List WRes)) :
    let hdr := encode (Header.new .proxy peer loc)
    let r := (Send.new peer loc).run wss
    r.2.2 = hdr.take r.1.cursor ∧ r.1.cursor ≤ hdr.length ∧
    (r.2.1 = .upgrade → r.2.2 = hdr) ∧
    (r.2.1 ≠ .upgrade → r.2.2.length < hdr.length) ∧
    (r.2.1 = .cont ∨ r.2.1 = .close ∨ r.2.1 = .upgrade) :=
  send_exactly_once_all peer loc wss

example : ((Send.new (.v4 [127, 0, 0, 1] 40000) (.v4 [127, 0, 0, 1] 8080)).run
    [[.ok 5, .wouldBlock], [.ok 0, .ok 100]]).2 =
    (.upgrade, encode (Header.new .proxy (.v4 [127, 0, 0, 1] 40000) (.v4 [127, 0, 0, 1] 8080))) := by decide

/-! ## expect mode -/

/-- the read window that is open when a header of `n` bytes completes -/
theorem C18_expect_stage_sizes : stageLen .v4 = 28 ∧ stageLen .v6 = 52 ∧ stageLen .unix = 232 ∧
    Consts.ppExpectBufLen = 232 := ⟨rfl, rfl, rfl, rfl⟩

/-- For every valid v2 header `H` (any family the parser accepts, TLV tail
    included, up to the 232-byte buffer), every payload and **every
    fragmentation** of `H ++ payload` into arrivals: the machine waits through
    every incomplete prefix, upgrades exactly once with the header's addresses
    having consumed exactly `|H|` bytes; the bytes it had read past the header
    when it upgraded (`lost`: they are dropped with the state), the bytes still
    unread in the kernel and the later arrivals partition the payload, and
    `lost` is bounded by the gap between `|H|` and the read window in force. -/
theorem C18_expect_lost_bound (H payload : Bytes) (h : Header) (chunks : List Bytes)
    (hv : parse H = .ok h H.length) (hle : H.length ≤ 232)
    (hc : chunks.flatten = H ++ payload) :
    ∃ lost unread later,
      ({} : ExpectK).run chunks = .upgraded (some h.addr) H.length lost unread later ∧
      lost ++ unread ++ later.flatten = payload ∧
      lost.length ≤ stageFor H.length - H.length := by
  have inv0 : EInv (H ++ payload) H ({} : ExpectK) chunks := by
    refine ⟨by simpa using hc, ?_, by simp [stageOk], rfl, rfl, rfl⟩
    have : 16 ≤ H.length := (C18_pp_parse_consumption_bound H h H.length hv).1
    simp only [List.length_nil]; omega
  exact (run_spec (H ++ payload) H payload h rfl hv hle chunks {} inv0 rfl).shape

/-- Byte-exact hand-over, for every fragmentation, when the header ends exactly
    on a read-window boundary (28 = IPv4 without TLV, 52 = IPv6 without TLV,
    232): nothing is lost, the next state reads exactly the payload. -/
theorem C18_expect_any_fragmentation_partial (H payload : Bytes) (h : Header) (chunks : List Bytes)
    (hv : parse H = .ok h H.length)
    (hb : H.length = 28 ∨ H.length = 52 ∨ H.length = 232)
    (hc : chunks.flatten = H ++ payload) :
    ∃ unread later,
      ({} : ExpectK).run chunks = .upgraded (some h.addr) H.length [] unread later ∧
      unread ++ later.flatten = payload := by
  obtain ⟨lost, unread, later, h1, h2, h3⟩ :=
    C18_expect_lost_bound H payload h chunks hv (by omega) hc
  have : lost = [] := by
    rcases hb with e | e | e <;> simp [e, stageFor] at h3 <;> exact h3
  subst this
  exact ⟨unread, later, h1, by simpa using h2⟩

example : ∃ unread later, ({} : ExpectK).run
      [(encode (Header.new .proxy (.v4 [1, 2, 3, 4] 5) (.v4 [6, 7, 8, 9] 10))).take 9,
       (encode (Header.new .proxy (.v4 [1, 2, 3, 4] 5) (.v4 [6, 7, 8, 9] 10))).drop 9 ++ [71, 69, 84]] =
      .upgraded (some (.v4 [1, 2, 3, 4] [6, 7, 8, 9] 5 10)) 28 [] unread later ∧
      unread ++ later.flatten = [71, 69, 84] := by
  refine ⟨[71, 69, 84], [], ?_, rfl⟩
  decide +kernel

/-- F12: a 16-byte LOCAL/UNSPEC header followed by payload in the same segment:
    the first window is 28 bytes, so up to 12 payload bytes are read into the
    header buffer and dropped at the upgrade. -/
theorem C18_expect_any_fragmentation_counterexample :
    ({} : ExpectK).run [encode ⟨.loc, 0, .unspec⟩ ++ [71, 69, 84, 32, 47]] =
      .upgraded (some .unspec) 16 [71, 69, 84, 32, 47] [] [] := by decide +kernel

/-- An upgrade always rests on a recognised prefix of the byte stream (for any
    stream, any fragmentation): the addresses handed to the next state are those
    of a header the parser accepted on a prefix `p` of what was sent. -/
theorem C18_expect_upgrade_sound (chunks : List Bytes) (a : Option Addr) (n : Nat)
    (lost unread : Bytes) (later : List Bytes)
    (hr : ({} : ExpectK).run chunks = .upgraded a n lost unread later) :
    ∃ p h, parse p = .ok h n ∧ a = some h.addr ∧ lost = p.drop n ∧
      p ++ unread ++ later.flatten = chunks.flatten := by
  obtain ⟨p, h, h1, h2, h3, h4⟩ := run_upgrade_sound chunks {} a n lost unread later hr
  exact ⟨p, h, h1, h2, h3, by simpa using h4⟩

/-- Malformed or oversized headers: when no prefix of the stream is a valid
    header, no fragmentation makes the machine upgrade — the session can only
    wait or close, and nothing is forwarded (this state has no backend). -/
theorem C18_expect_malformed_never_upgrades (chunks : List Bytes)
    (hbad : ∀ k h n, parse (chunks.flatten.take k) ≠ .ok h n) :
    ∀ a n lost unread later, ({} : ExpectK).run chunks ≠ .upgraded a n lost unread later := by
  intro a n lost unread later hr
  obtain ⟨p, h, h1, _, _, h4⟩ := C18_expect_upgrade_sound chunks a n lost unread later hr
  have : p = chunks.flatten.take p.length := by
    rw [← h4, List.append_assoc, List.take_left' rfl]
  rw [this] at h1
  exact hbad _ _ _ h1

/-- non-vacuity + the oversize sentinel: 232 bytes of a header that declares
    more than fits are read through the three windows, then the session closes. -/
example : (match ({} : ExpectK).run
    [Consts.ppSignatureV2 ++ [33, 17, 1, 0] ++ List.replicate 100 0, List.replicate 200 0] with
    | .closed k .close => k.m.buf.length == 232 | _ => false) = true := by decide +kernel

example : (match ({} : ExpectK).run [[13, 10, 13, 10, 0, 13, 10, 81, 85, 73, 84, 10, 0x30]] with
    | .closed _ .close => true | _ => false) = true := by decide +kernel

/-! ## relay mode -/

/-- F13: relay mode never reaches `Upgrade`. For every stream, every read
    fragmentation, every buffer size and every write schedule the session is
    left waiting, closed, or **spinning**: `readable` consumes the size of the
    last read instead of leaving the header in the buffer, so fewer than
    `header_size` bytes remain and the write loop can never reach it. -/
theorem C18_relay_never_upgrades (cap : Nat) (rs : List (Bytes × SR)) (ws : List WRes) :
    (Relay.session { buf := { cap := cap } } rs ws).2.1 ≠ .upgrade :=
  relay_session_never_upgrades cap rs ws

/-- the header in one read: the buffer is emptied, nothing reaches the backend and
    the write loop spins on `write(&[]) = Ok(0)` -/
theorem C18_relay_exact_counterexample :
    (Relay.session { buf := { cap := 16384 } }
      [(encode (Header.new .proxy (.v4 [127, 0, 0, 1] 40000) (.v4 [127, 0, 0, 1] 8080)) ++ [104, 105], .wouldBlock)]
      [.ok 28]).2 = (.spin, []) := by decide +kernel

/-- the header split 10 + 18: the backend receives 10 bytes that are *not* the
    start of the header (bytes 18..28 of it), then the loop spins -/
theorem C18_relay_garbage_counterexample :
    let H := encode (Header.new .proxy (.v4 [127, 0, 0, 1] 40000) (.v4 [127, 0, 0, 1] 8080))
    (Relay.session { buf := { cap := 16384 } }
      [(H.take 10, .wouldBlock), (H.drop 10, .wouldBlock)] [.ok 28, .ok 28]).2 = (.spin, H.drop 18) := by
  decide +kernel

end Sozu.ProxyProto
