import Sozu.State.Diff
/-
C05 / C06 / C07 — property theorems about the model of `ConfigState`
(`Sozu/State/Model.lean`). Only property statements (`C05_*`, `C06_*`, `C07_*`),
the predicates they mention and non-vacuity examples live here.
-/
set_option linter.unusedSimpArgs false
set_option linter.unusedVariables false
namespace Sozu.State
open Sozu KMap

/-! ## C07 — a rejected configuration command leaves no trace -/

/-- every backend `Vec` of the state is in `Backend::cmp` order (what `add_backend`'s
    `sort()` maintains) -/
def BucketsSorted (s : St) : Prop :=
  ∀ t l, look s t = some (.backends l) → SortedB l

/-- an `Err` leaves the addressed entry as it was -/
theorem loc_err_noop (env : Env) (c : Cmd) (v : Option Val)
    (hsorted : ∀ l, v = some (.backends l) → SortedB l)
    (herr : (loc env c v).2 = false) : (loc env c v).1 = v := by
  cases c with
  | addCluster cl =>
    simp only [loc] at herr ⊢
    cases hh : cl.hc with
    | none => simp [hh] at herr
    | some hc => by_cases hv : hc.valid = true <;> simp [hh, hv] at herr ⊢
  | removeCluster id => cases v <;> simp [loc, removeEntry] at herr ⊢
  | setHC id hc =>
    simp only [loc] at herr ⊢
    by_cases hv : hc.valid = true
    · simp only [hv] at herr ⊢
      cases v with
      | none => rfl
      | some x => cases x <;> simp at herr ⊢
    · simp [hv]
  | removeHC id =>
    cases v with
    | none => rfl
    | some x => cases x <;> simp [loc] at herr ⊢
  | addHttpL l => cases v <;> simp [loc] at herr ⊢
  | addHttpsL l => cases v <;> simp [loc] at herr ⊢
  | addTcpL l => cases v <;> simp [loc] at herr ⊢
  | addUdpL l => cases v <;> simp [loc] at herr ⊢
  | removeListener ty a => cases v <;> simp [loc, removeEntry] at herr ⊢
  | activate ty a =>
    cases v with
    | none => rfl
    | some x => cases x <;> simp [loc, setActive] at herr ⊢
  | deactivate ty a =>
    cases v with
    | none => rfl
    | some x => cases x <;> simp [loc, setActive] at herr ⊢
  | addHttpF f =>
    cases v with
    | some x => rfl
    | none => cases hf : toFrontend f <;> simp [loc, addFront, hf] at herr ⊢
  | removeHttpF f => cases v <;> simp [loc, removeEntry] at herr ⊢
  | addHttpsF f =>
    cases v with
    | some x => rfl
    | none => cases hf : toFrontend f <;> simp [loc, addFront, hf] at herr ⊢
  | removeHttpsF f => cases v <;> simp [loc, removeEntry] at herr ⊢
  | addCert a cert =>
    simp only [loc] at herr ⊢
    cases hfp : env.fp cert.pem with
    | none => simp
    | some fp =>
      simp only [hfp] at herr ⊢
      cases hr : resolveNames env cert with
      | none => simp
      | some c' =>
        simp only [hr] at herr
        split at herr <;> simp at herr
  | removeCert a fp =>
    cases fp with
    | none => rfl
    | some fp =>
      cases v with
      | none => simp [loc] at herr
      | some x => cases x <;> simp [loc] at herr
  | replaceCert a old cert =>
    simp only [loc] at herr ⊢
    cases hr : resolveNames env cert with
    | none => simp
    | some c' =>
      simp only [hr] at herr ⊢
      cases old with
      | none => rfl
      | some old =>
        cases v with
        | none => rfl
        | some x =>
          cases x <;> simp only at herr ⊢
          next m =>
            cases hfp : env.fp cert.pem with
            | none => simp
            | some nfp => simp [hfp] at herr
  | addTcpF f =>
    simp only [loc, addTcpFront] at herr ⊢
    split at herr
    · next hc =>
      cases v with
      | none => simp [tfsOf] at hc
      | some x => cases x <;> simp_all [tfsOf]
    · simp at herr
  | removeTcpF f =>
    cases v with
    | none => rfl
    | some x =>
      cases x <;> simp only [loc, removeTcpFront] at herr ⊢
      next l =>
        have hl : (l.filter fun x => decide (x.addr ≠ canon f.addr)).length = l.length := by simpa using herr
        rw [filter_eq_self_of_length _ _ hl]
  | addUdpF f =>
    simp only [loc, addTcpFront] at herr ⊢
    split at herr
    · next hc =>
      cases v with
      | none => simp [tfsOf] at hc
      | some x => cases x <;> simp_all [tfsOf]
    · simp at herr
  | removeUdpF f =>
    cases v with
    | none => rfl
    | some x =>
      cases x <;> simp only [loc, removeTcpFront] at herr ⊢
      next l =>
        have hl : (l.filter fun x => decide (x.addr ≠ canon f.addr)).length = l.length := by simpa using herr
        rw [filter_eq_self_of_length _ _ hl]
  | addBackend b => simp [loc] at herr
  | removeBackend cid bid addr =>
    cases v with
    | none => rfl
    | some x =>
      cases x <;> simp only [loc] at herr ⊢
      next l =>
        have hl : (sortB (l.filter fun x => decide (x.id ≠ bid ∨ x.addr ≠ canon addr))).length = l.length := by
          simpa using herr
        rw [length_sortB] at hl
        rw [filter_eq_self_of_length _ _ hl, sortB_of_sorted l (hsorted l rfl)]
  | updHttpL p =>
    simp only [loc] at herr ⊢
    split at herr
    · next h => simp [h]
    · next h =>
      simp only [h]
      cases v with
      | none => rfl
      | some x => cases x <;> simp at herr ⊢
  | updHttpsL p =>
    simp only [loc] at herr ⊢
    split at herr
    · next h => simp [h]
    · next h =>
      simp only [h]
      cases v with
      | none => rfl
      | some x => cases x <;> simp at herr ⊢
  | updTcpL p =>
    cases v with
    | none => rfl
    | some x => cases x <;> simp [loc] at herr ⊢
  | updUdpL p =>
    cases v with
    | none => rfl
    | some x => cases x <;> simp [loc] at herr ⊢
  | other ok => simp [loc] at herr
  | empty => rfl

/-- **C07 (accepted or not, a command touches only the entry it names).** Every map entry
    other than the one the command addresses — in every map, listeners and certificates
    included — is unchanged by `dispatch`, whatever it returns. -/
theorem C07_ok_touches_only_named (env : Env) (s : St) (c : Cmd) (t : Target)
    (h : tgt c ≠ some t) : look (dispatch env s c).1 t = look s t := by
  rw [look_dispatch]; simp [h]

/-- **C07 (error is a no-op), any state with sorted backend lists.** An `Err` from `dispatch`
    leaves every entry of every map exactly as it was — no partially applied field, no orphan
    bucket. The sortedness hypothesis is needed because `remove_backend` calls `sort()` on the
    cluster's list before it reports `NoChange`: on an unsorted list the rejected command would
    have reordered it. It holds in every reachable state (next theorem). -/
theorem C07_error_is_noop_of_sorted (env : Env) (s : St) (c : Cmd)
    (hs : BucketsSorted s) (herr : (dispatch env s c).2 = false) : Same (dispatch env s c).1 s := by
  intro t
  rw [look_dispatch]
  by_cases ht : tgt c = some t
  · simp only [ht, if_true]
    rw [dispatch_result, ht] at herr
    exact loc_err_noop env c _ (fun l hl => hs t l hl) herr
  · simp [ht]

/-- **C07 (a rejected command leaves no trace), full statement.** In every state reachable from
    the empty configuration by any command sequence (valid or not), for every command: if
    `dispatch` returns `Err`, every entry of every map — clusters, backends, the four listener
    maps, frontends, certificates — is exactly as before. -/
theorem C07_error_is_noop (env : Env) (cs : List Cmd) (c : Cmd)
    (herr : (dispatch env (run env St.init cs) c).2 = false) :
    Same (dispatch env (run env St.init cs) c).1 (run env St.init cs) :=
  C07_error_is_noop_of_sorted env _ c
    (bucketsSorted_of_wf env _ (wf_run env cs St.init (wf_init env))) herr

/-- a concrete environment for the examples: PEMs 0–8 are certificates named `[pem]`,
    PEM 9 parses as PEM but is not X.509, PEMs ≥ 10 do not parse. -/
def envEx : Env :=
  { fp := fun p => if p < 10 then some p else none,
    names := fun p => if p < 9 then some [p] else none }

def httpsEx : HttpL :=
  { addr := 7, pub := none, expectProxy := false, sticky := 1, ft := 60, bt := 30, ct := 3, rt := 10,
    active := true, answers := none, alpn := [], strictSni := none, disableH11 := none,
    knobs := List.replicate 18 none, sid := none, rest := 0 }

def patchEx : HttpPatch :=
  { addr := 7, pub := none, expectProxy := none, sticky := none, ft := some 5, bt := none, ct := none,
    rt := none, answers := none, alpn := none, strictSni := none, disableH11 := none,
    knobs := List.replicate 18 none, sid := none, ign := 0 }

def certEx (pem : Nat) : Cert := { pem, names := [], rest := 0 }

theorem bucketsSorted_of_none (s : St) (h : ∀ t l, look s t ≠ some (.backends l)) : BucketsSorted s :=
  fun t l hl => absurd hl (h t l)

/-- **C07 (worker), proved part.** When the proxies' verdict on a command is the verdict of the
    worker's own `ConfigState` (both accept or both refuse), a command answered FAILURE leaves the
    worker's configuration exactly as it was, in every reachable state. -/
theorem C07_worker_rejected_is_noop_partial (env : Env) (cs : List Cmd) (c : Cmd) (proxyOk : Bool)
    (hagree : proxyOk = (dispatch env (run env St.init cs) c).2)
    (hfail : (workerNotify env (run env St.init cs) c proxyOk).2 = false) :
    Same (workerNotify env (run env St.init cs) c proxyOk).1 (run env St.init cs) := by
  simp only [workerNotify] at hfail ⊢
  exact C07_error_is_noop env cs c (by rw [← hagree]; exact hfail)

/-- **C07 (worker) counterexample (F8).** The worker dispatches on its `ConfigState` before asking the
    proxies and ignores the outcome: a frontend the proxies refuse (no such listener, uncompilable
    path rule, ...) is answered FAILURE and stays in the worker's configuration. -/
theorem C07_worker_rejected_is_noop_counterexample :
    ∃ (s : St) (c : Cmd), (workerNotify envEx s c false).2 = false ∧ ¬ Same (workerNotify envEx s c false).1 s := by
  refine ⟨St.init, .addTcpF { cluster := 1, addr := 4, tags := 0 }, rfl, ?_⟩
  intro h
  exact absurd (h (.tcpF 1)) (by decide)

/-- regression (F5, fixed by 7c0648d): `UpdateHttpsListener {front_timeout: 5, alpn_protocols:
    ["bogus"]}` is rejected and the listener is untouched; same for an invalid `sozu_id_header`. -/
example :
    let s := put St.init (.httpsL 7) (some (.hl httpsEx))
    let c := Cmd.updHttpsL { patchEx with alpn := some [5] }
    (dispatch envEx s c).2 = false ∧ look (dispatch envEx s c).1 (.httpsL 7) = look s (.httpsL 7) := by decide

example :
    let s := put St.init (.httpL 7) (some (.hl httpsEx))
    let c := Cmd.updHttpL { patchEx with sid := some [] }
    (dispatch envEx s c).2 = false ∧ look (dispatch envEx s c).1 (.httpL 7) = look s (.httpL 7) := by decide

/-- regression (F6, fixed by b8a38d3): `ReplaceCertificate` with an unparsable new certificate is
    rejected and the old certificate is still there. -/
example :
    let s := (dispatch envEx St.init (.addCert 7 (certEx 0))).1
    let c := Cmd.replaceCert 7 (some 0) (certEx 11)
    (dispatch envEx s c).2 = false ∧ look (dispatch envEx s c).1 (.certs 7) = look s (.certs 7) := by decide

/-- regression (F7, fixed by 25f3a45): `AddCertificate` with a PEM block that is not a certificate
    is rejected and no bucket is created. -/
example :
    (dispatch envEx St.init (.addCert 7 (certEx 9))).2 = false ∧
    look (dispatch envEx St.init (.addCert 7 (certEx 9))).1 (.certs 7) = none := by decide

/-- non-vacuity of `C07_error_is_noop`: a patch with a flood knob below its minimum among valid
    fields on an existing listener is rejected and is a no-op. -/
example :
    let s := put St.init (.httpsL 7) (some (.hl httpsEx))
    let c := Cmd.updHttpsL { patchEx with knobs := some 0 :: List.replicate 17 none }
    (dispatch envEx s c).2 = false ∧ look (dispatch envEx s c).1 (.httpsL 7) = look s (.httpsL 7) := by decide

/-! ## C06 — applying the computed difference reaches the target -/

/-- **C06 (`diff_map` is correct on sorted streams).** On strictly ascending key streams the
    merge-join reports exactly: `Removed` for keys only in the first, `Added` for keys only in
    the second, `Changed` for common keys with different values, nothing else. -/
theorem C06_diffmap_correct {κ ν : Type} [DecidableEq ν] (lt : κ → κ → Bool) (h : StrictTotal lt)
    (a b : List (κ × ν)) (ha : KeysSorted lt a) (hb : KeysSorted lt b) (k : κ) (r : DiffRes) :
    (k, r) ∈ diffMap lt a b ↔ DiffSpec a b k r :=
  mem_diffMapAux lt h _ a b (Nat.le_refl _) ha hb k r

example : diffMap (fun (x y : Nat) => decide (x < y)) [(1, 10), (2, 20), (4, 40)] [(2, 21), (3, 30), (4, 40)]
    = [(1, .removed), (2, .changed), (3, .added)] := by decide

/-- on streams with a repeated key (two backends sharing `backend_id`) it is not:
    the second `(c, b)` of the target is reported although the key is present on both sides. -/
theorem C06_diffmap_correct_counterexample :
    ¬ (∀ k r, (k, r) ∈ diffMap (fun (x y : Nat) => decide (x < y)) [(1, 10)] [(1, 10), (1, 11)] ↔
        DiffSpec [(1, 10)] [(1, 10), (1, 11)] k r) := by
  intro h
  have h1 := (h 1 .added).mp (by decide)
  rcases h1 with ⟨h, _⟩ | ⟨_, _, hn⟩ | ⟨h, _⟩
  · cases h
  · exact hn 10 (by simp)
  · cases h

theorem diffRemovedL_self (ty : LType) (a : St) (keys : Target → Option Nat) : diffRemovedL ty a a keys = [] := by
  simp [diffRemovedL, filter_not_contains_self]

theorem addedKeys_self (a : St) (keys : Target → Option Nat) : addedKeys a a keys = [] := by
  simp [addedKeys, filter_not_contains_self]

theorem diffCommonL_self (ty : LType) (a : St) (keys : Target → Option Nat) : diffCommonL ty a a keys = [] := by
  unfold diffCommonL
  apply flatMap_nil_of
  intro k _
  cases look a (listenerTarget ty k) <;> simp

theorem diffAddedL_self (ty : LType) (a : St) (keys : Target → Option Nat) : diffAddedL ty a a keys = [] := by
  simp [diffAddedL, addedKeys_self]

theorem diffReactivate_self (ty : LType) (a : St) (keys : Target → Option Nat) : diffReactivate ty a a keys = [] := by
  simp [diffReactivate, addedKeys_self]

theorem diffClusters_self (a : St) : diffClusters a a = [] := by
  unfold diffClusters diffMap
  rw [diffMapAux_self _ (by intro x; simp)]
  rfl

theorem diffBackends_self (a : St) : diffBackends a a = [] := by
  unfold diffBackends diffMap
  rw [diffMapAux_self _ (by intro x; simp [ltPair])]
  rfl

theorem diffFronts_self (a : St) (https : Bool) : diffFronts a a https = [] := by
  simp [diffFronts, filter_not_contains_self]

theorem diffTcpFronts_self (a : St) (udp : Bool) : diffTcpFronts a a udp = [] := by
  simp [diffTcpFronts, filter_not_contains_self]

theorem diffCerts_self (a : St) : diffCerts a a = [] := by
  simp [diffCerts, filter_not_contains_self]

/-- **C06 (difference of equal configurations is empty).** -/
theorem C06_diff_self_empty (a : St) : diff a a = [] := by
  unfold diff
  simp only [diffRemovedL_self, diffAddedL_self, diffReactivate_self, diffCommonL_self,
    diffClusters_self, diffBackends_self, diffFronts_self, diffTcpFronts_self, diffCerts_self,
    List.append_nil]

/-- **C06 counterexample (F4).** `A = {cluster 1, backend 2 @ addr 4}`, `B = A + {backend 2 @ addr 5}`:
    `diff A B` is one `AddBackend` for the address `A` already has, and replaying it does not reach `B`. -/
theorem C06_diff_reaches_target_counterexample_backend_id :
    let A := run envEx St.init [.addCluster { id := 1, hc := none, rest := 0 },
      .addBackend { cluster := 1, id := 2, addr := 4, sticky := none, weight := none, backup := none }]
    let B := run envEx A [.addBackend { cluster := 1, id := 2, addr := 5, sticky := none, weight := none, backup := none }]
    diff A B = [.addBackend { cluster := 1, id := 2, addr := 4, sticky := none, weight := none, backup := none }] ∧
    ¬ Equiv (run envEx A (diff A B)) B := by
  refine ⟨by decide, ?_⟩
  intro h
  exact absurd (h (.backends 1)) (by decide)

/-- **C06 counterexample (tcp fronts sharing an address).** A cluster holding two tcp fronts on one
    address (different tags): removing one of them through `diff` removes both. -/
theorem C06_diff_reaches_target_counterexample_front_address :
    let A := run envEx St.init [.addTcpF { cluster := 1, addr := 4, tags := 0 }, .addTcpF { cluster := 1, addr := 4, tags := 1 }]
    let B := run envEx St.init [.addTcpF { cluster := 1, addr := 4, tags := 0 }]
    ¬ Equiv (run envEx A (diff A B)) B := by
  intro A B h
  exact absurd (h (.tcpF 1)) (by decide)

/-- **C06 counterexample (same fingerprint, other content).** The same certificate with other
    `names` on the same address: `diff` is empty although the configurations differ. -/
theorem C06_diff_reaches_target_counterexample_cert_content :
    let A := run envEx St.init [.addCert 7 (certEx 0)]
    let B := run envEx St.init [.addCert 7 { certEx 0 with names := [42] }]
    diff A B = [] ∧ ¬ Equiv (run envEx A (diff A B)) B := by
  refine ⟨by decide, ?_⟩
  intro h
  exact absurd (h (.certs 7)) (by decide)

/-- **C06 (diff reaches the target), proved part.** For well-formed `A` and `B`, after replaying
    `diff A B` on `A`, every entry of the four listener maps (all fields and the activation
    flag), every cluster entry (health check included) and every http / https frontend entry is
    exactly the one of `B`. The maps left out — backends, tcp/udp fronts, certificates — are the
    ones with the counterexamples above. -/
theorem C06_diff_reaches_target_partial (env : Env) (A B : St) (hA : WF env A) (hB : WF env B) (t : Target)
    (ht : sectionOf t ≠ 6 ∧ sectionOf t ≠ 8 ∧ sectionOf t ≠ 9 ∧ sectionOf t ≠ 10) :
    look (run env A (diff A B)) t = look B t := by
  rw [look_run]
  cases t <;> simp [sectionOf] at ht
  case httpL a => exact listeners_reach env A B hA hB .http a
  case httpsL a => exact listeners_reach env A B hA hB .https a
  case tcpL a => exact listeners_reach env A B hA hB .tcp a
  case udpL a => exact listeners_reach env A B hA hB .udp a
  all_goals
    have sk : ∀ (w : Option Val) (cs : List Cmd) (n : Nat) (t : Target), n ≠ sectionOf t →
        (∀ c ∈ cs, ∃ t', tgt c = some t' ∧ sectionOf t' = n) → foldT env t w cs = w := by
      intro w cs n t hn h
      apply foldT_skip_sec
      intro c hc
      obtain ⟨t', h1, h2⟩ := h c hc
      exact ⟨t', h1, by omega⟩
    rw [foldT_diff_nonlistener env A B _ _ (by simp [sectionOf])]
    simp only [foldT_append]
  case cluster id =>
    rw [clusters_reach env A B hA hB id,
      sk _ _ 10 _ (by simp [sectionOf]) (sec_backends A B), sk _ _ 5 _ (by simp [sectionOf]) (sec_fronts A B false),
      sk _ _ 7 _ (by simp [sectionOf]) (sec_fronts A B true), sk _ _ 8 _ (by simp [sectionOf]) (sec_tcpFronts A B false),
      sk _ _ 9 _ (by simp [sectionOf]) (sec_tcpFronts A B true), sk _ _ 6 _ (by simp [sectionOf]) (sec_certs A B)]
  case httpF k =>
    rw [sk _ _ 4 _ (by simp [sectionOf]) (sec_clusters A B), sk _ _ 10 _ (by simp [sectionOf]) (sec_backends A B)]
    have := fronts_reach env A B hA hB false k
    simp only [frontT, Bool.false_eq_true, if_false] at this
    rw [this, sk _ _ 7 _ (by simp [sectionOf]) (sec_fronts A B true), sk _ _ 8 _ (by simp [sectionOf]) (sec_tcpFronts A B false),
      sk _ _ 9 _ (by simp [sectionOf]) (sec_tcpFronts A B true), sk _ _ 6 _ (by simp [sectionOf]) (sec_certs A B)]
  case httpsF k =>
    rw [sk _ _ 4 _ (by simp [sectionOf]) (sec_clusters A B), sk _ _ 10 _ (by simp [sectionOf]) (sec_backends A B),
      sk _ _ 5 _ (by simp [sectionOf]) (sec_fronts A B false)]
    have := fronts_reach env A B hA hB true k
    simp only [frontT, if_true] at this
    rw [this, sk _ _ 8 _ (by simp [sectionOf]) (sec_tcpFronts A B false),
      sk _ _ 9 _ (by simp [sectionOf]) (sec_tcpFronts A B true), sk _ _ 6 _ (by simp [sectionOf]) (sec_certs A B)]

/-- non-vacuity / the activation case of the statement: a listener whose `front_timeout` changes
    stays active through `Remove`, `Add(inactive)`, `Activate`. -/
example :
    let A : St := [(.httpsL 7, .hl httpsEx)]
    let B : St := [(.httpsL 7, .hl { httpsEx with ft := 5 })]
    diff A B = [.removeListener (some .https) 7, .addHttpsL { httpsEx with ft := 5, active := false },
                .activate (some .https) 7] ∧
    look (run envEx A (diff A B)) (.httpsL 7) = look B (.httpsL 7) := by
  decide

/-- the same for every pair of reachable configurations -/
theorem C06_diff_reaches_target_reachable_partial (env : Env) (csA csB : List Cmd) (t : Target)
    (ht : sectionOf t ≠ 6 ∧ sectionOf t ≠ 8 ∧ sectionOf t ≠ 9 ∧ sectionOf t ≠ 10) :
    look (run env (run env St.init csA) (diff (run env St.init csA) (run env St.init csB))) t =
      look (run env St.init csB) t :=
  C06_diff_reaches_target_partial env _ _ (wf_run env csA St.init (wf_init env))
    (wf_run env csB St.init (wf_init env)) t ht

section
attribute [local irreducible] diff run

/-- **C06 (every command of the difference is accepted), well-formed states.** Under the three
    hypotheses that exclude the open findings — backend ids unique per cluster in `A` and `B` (F4),
    tcp/udp front addresses unique per cluster in `A` (F62), equal fingerprints on an address carry
    equal certificates (F63) — the instance holding `A` accepts every command of `diff A B`, one
    after the other, each in the state left by the previous ones. -/
theorem C06_diff_accepted_of_wf (env : Env) (A B : St) (hA : WF env A) (hB : WF env B)
    (huA : UniqueBackendIds A) (huB : UniqueBackendIds B) (hfA : UniqueFrontAddr A) (hag : CertContentAgree A B) :
    allOk env A (diff A B) = true := by
  apply allOk_of_foldTO env _ A (diff_has_target A B)
  intro t
  obtain ⟨v', h, _⟩ := diff_entry env A B hA hB huA huB hfA hag t
  rw [h]

/-- **C06 (diff reaches the target), well-formed states, every map.** Under the same three
    hypotheses, replaying `diff A B` on `A` yields `B`: every entry of every map — listeners with
    their activation, clusters, backends (as sorted lists), http/https fronts, tcp/udp fronts (as
    multisets), certificates — up to empty buckets. -/
theorem C06_diff_reaches_target_of_unique_wf (env : Env) (A B : St) (hA : WF env A) (hB : WF env B)
    (huA : UniqueBackendIds A) (huB : UniqueBackendIds B) (hfA : UniqueFrontAddr A) (hag : CertContentAgree A B) :
    EquivP (run env A (diff A B)) B := by
  intro t
  obtain ⟨v', h, he⟩ := diff_entry env A B hA hB huA huB hfA hag t
  have h2 : look (run env A (diff A B)) t = (foldTO env t (look A t, true) (diff A B)).1 := by
    rw [look_run env (diff A B) A t]
    exact (foldTO_fst env t (diff A B) (look A t) true).symm
  rw [h2, h]
  exact he

/-- **C06 (accepted), reachable configurations.** -/
theorem C06_diff_accepted (env : Env) (csA csB : List Cmd)
    (huA : UniqueBackendIds (run env St.init csA)) (huB : UniqueBackendIds (run env St.init csB))
    (hfA : UniqueFrontAddr (run env St.init csA))
    (hag : CertContentAgree (run env St.init csA) (run env St.init csB)) :
    allOk env (run env St.init csA) (diff (run env St.init csA) (run env St.init csB)) = true :=
  C06_diff_accepted_of_wf env (run env St.init csA) (run env St.init csB)
    (wf_run env csA St.init (wf_init env)) (wf_run env csB St.init (wf_init env)) huA huB hfA hag

/-- **C06 (diff reaches the target), reachable configurations, every map.** For any two
    configurations reachable by command sequences and satisfying the three hypotheses, the
    difference from `A` to `B` replayed on `A` leaves exactly `B` (empty buckets and the order
    inside a cluster's tcp/udp front list aside). -/
theorem C06_diff_reaches_target_of_unique (env : Env) (csA csB : List Cmd)
    (huA : UniqueBackendIds (run env St.init csA)) (huB : UniqueBackendIds (run env St.init csB))
    (hfA : UniqueFrontAddr (run env St.init csA))
    (hag : CertContentAgree (run env St.init csA) (run env St.init csB)) :
    EquivP (run env (run env St.init csA) (diff (run env St.init csA) (run env St.init csB))) (run env St.init csB) :=
  C06_diff_reaches_target_of_unique_wf env (run env St.init csA) (run env St.init csB)
    (wf_run env csA St.init (wf_init env)) (wf_run env csB St.init (wf_init env)) huA huB hfA hag

end

/-- non-vacuity: two reachable configurations satisfying the three hypotheses, differing in a
    backend, a tcp front and a certificate -/
example :
    let A := run envEx St.init [.addBackend { cluster := 1, id := 2, addr := 4, sticky := none, weight := none, backup := none },
      .addTcpF { cluster := 1, addr := 4, tags := 0 }, .addCert 7 (certEx 0)]
    let B := run envEx St.init [.addBackend { cluster := 1, id := 2, addr := 5, sticky := none, weight := some 3, backup := none },
      .addTcpF { cluster := 1, addr := 5, tags := 1 }, .addCert 7 (certEx 1)]
    allOk envEx A (diff A B) = true ∧ (diff A B).length = 6 ∧
    look (run envEx A (diff A B)) (.backends 1) = look B (.backends 1) := by decide

/-! ## C05 — a configuration survives every save / replay path unchanged -/

/-- **every reachable configuration is well-formed**: `dispatch` preserves `WF` (one binding per
    key; values filed under their own key; backend lists sorted and unique on (id, address);
    tcp/udp front lists duplicate-free; certificates keyed by their fingerprint, names resolved). -/
theorem C05_reachable_wellformed (env : Env) (cs : List Cmd) : WF env (run env St.init cs) :=
  wf_run env cs St.init (wf_init env)


/-- **C05 (replay round trip), any well-formed state.** For every well-formed state — one binding per key,
    every value filed under its own key in the shape the verbs leave it, certificate names
    resolved (an invariant since `ReplaceCertificate` resolves them too) — replaying `generate_requests` on an empty state is accepted command by command
    and rebuilds the same configuration (up to empty buckets). -/
theorem C05_replay_roundtrip_of_wf (env : Env) (s : St) (hs : WF env s) :
    Equiv (run env St.init (generateRequests s)) s ∧
    allOk env St.init (generateRequests s) = true := by
  have key : ∀ t, ∃ v', foldTO env t (none, true) (generateRequests s) = (v', true) ∧
      norm v' = norm (look s t) := by
    intro t
    rw [foldTO_generate env s hs t, look_eq_find]
    cases hf : s.find? (fun e => decide (e.1 = t)) with
    | none => exact ⟨none, rfl, rfl⟩
    | some e =>
      have hmem : e ∈ s := List.mem_of_find?_eq_some hf
      have hk : e.1 = t := by simpa using List.find?_some hf
      obtain ⟨t', v⟩ := e
      simp only at hk; subst hk
      exact entry_roundtrip env t' v (hs.2 _ hmem)
  constructor
  · intro t
    obtain ⟨v', h1, h2⟩ := key t
    rw [look_run, look_init, ← foldTO_fst env t _ none true, h1]
    exact h2
  · apply allOk_of_foldTO env _ St.init (generate_has_target env s hs)
    intro t
    obtain ⟨v', h1, _⟩ := key t
    rw [look_init, h1]

/-- **C05 (replay round trip), full statement.** For every configuration reachable from the empty
    one by any command sequence (every verb, valid and invalid arguments, duplicates, removals,
    patches), replaying `generate_requests` on an empty instance is accepted command by command
    and yields the same configuration (up to empty per-cluster lists / certificate buckets). -/
theorem C05_replay_roundtrip (env : Env) (cs : List Cmd) :
    Equiv (run env St.init (generateRequests (run env St.init cs))) (run env St.init cs) ∧
    allOk env St.init (generateRequests (run env St.init cs)) = true :=
  C05_replay_roundtrip_of_wf env _ (C05_reachable_wellformed env cs)

/-- **C05 (replay does not depend on map iteration order).** Two request lists that present to
    every map entry the same commands in the same order — any interleaving of the per-entry
    request groups, i.e. any iteration order of the `BTreeMap`s / `HashMap`s — lead to the same
    configuration. -/
theorem C05_order_free (env : Env) (s0 : St) (cs cs' : List Cmd)
    (h : ∀ t, cs'.filter (fun c => tgt c = some t) = cs.filter (fun c => tgt c = some t)) :
    Same (run env s0 cs') (run env s0 cs) := by
  intro t
  rw [look_run, look_run, foldT_filter env t _ cs', foldT_filter env t _ cs, h t]

/-- non-vacuity: a well-formed state with an active https listener, a cluster with a health
    check, a certificate and a backend; swapping two of its generated requests is a reordering
    in the sense of `C05_order_free`. -/
example : WF envEx
    [(.httpsL 7, .hl httpsEx), (.cluster 1, .cluster { id := 1, hc := some { tok := 0, valid := true }, rest := 2 }),
     (.certs 7, .certs [(0, { pem := 0, names := [0], rest := 0 })]),
     (.backends 1, .backends [{ cluster := 1, id := 2, addr := 4, sticky := none, weight := none, backup := none }])] := by
  refine ⟨by decide, ?_⟩
  intro e he
  simp only [List.mem_cons, List.not_mem_nil, or_false] at he
  rcases he with rfl | rfl | rfl | rfl
  · simp [EntryOK, canon, addrMod, httpsEx]
  · simp [EntryOK]
  · simp [EntryOK, canon, addrMod, envEx, resolveNames]
  · simp [EntryOK, SortedB, canon, addrMod]

/-- regression (fixed by 53f0369): a certificate stored by `ReplaceCertificate` has its names
    resolved, so the saved state replays to the same configuration; a PEM block that is not a
    certificate is no longer accepted as a replacement. -/
example :
    let s := run envEx St.init [.addCert 7 (certEx 0), .replaceCert 7 (some 0) (certEx 1)]
    look (run envEx St.init (generateRequests s)) (.certs 7) = look s (.certs 7) ∧
    allOk envEx St.init (generateRequests s) = true ∧
    (dispatch envEx s (.replaceCert 7 (some 1) (certEx 9))).2 = false := by decide

/-- **C05 (`generate_requests` emits every stored entry exactly once).** For a well-formed state,
    the requests addressing entry `t` are, in order, exactly the request group of the entry stored
    under `t` — nothing when no entry is stored — and every generated request addresses an entry:
    no entry is dropped, none is emitted twice, nothing else is emitted. -/
theorem C05_generate_each_entry_once (env : Env) (s : St) (hs : WF env s) :
    (∀ t, (generateRequests s).filter (fun c => decide (tgt c = some t)) =
        match s.find? (fun e => e.1 = t) with
        | some e => genEntry e
        | none => []) ∧
    ∀ c ∈ generateRequests s, (tgt c).isSome = true :=
  ⟨filter_generate env s hs, generate_has_target env s hs⟩

/-- **C05 (the encodings agree, model level).** The request list depends on the configuration
    only: two well-formed states holding the same entries in another iteration order generate
    request lists that present the same requests, in the same order, to every entry; replayed on
    an empty instance they give the same configuration, accepted both times. (The four encodings
    carry this list — as protobuf, as JSON lines, in memory — or the maps themselves.) -/
theorem C05_encodings_agree (env : Env) (s s' : St) (hs : WF env s) (hs' : WF env s')
    (hp : ∀ e, e ∈ s ↔ e ∈ s') :
    (∀ t, (generateRequests s').filter (fun c => decide (tgt c = some t)) =
          (generateRequests s).filter (fun c => decide (tgt c = some t))) ∧
    Same (run env St.init (generateRequests s')) (run env St.init (generateRequests s)) := by
  have h1 : ∀ t, (generateRequests s').filter (fun c => decide (tgt c = some t)) =
      (generateRequests s).filter (fun c => decide (tgt c = some t)) := by
    intro t
    rw [filter_generate env s' hs' t, filter_generate env s hs t, find_perm s s' hs.1 hs'.1 hp t]
  exact ⟨h1, C05_order_free env St.init _ _ h1⟩

example : (generateRequests [(.httpsL 7, .hl httpsEx), (.cluster 1, .cluster { id := 1, hc := none, rest := 0 })]).filter
    (fun c => decide (tgt c = some (.httpsL 7))) = [.addHttpsL httpsEx, .activate (some .https) 7] := by decide


end Sozu.State
