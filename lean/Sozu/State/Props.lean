import Sozu.State.Lemmas
namespace Sozu.State
end Sozu.State
