import Sozu.State.Lemmas
/-
`diff A B` replayed on `A`, seen entry by entry with acceptance tracked (`foldTO`): lemmas for
`C06_diff_accepted` and `C06_diff_reaches_target_of_unique`.
-/
set_option linter.unusedSimpArgs false
set_option linter.unusedVariables false
namespace Sozu.State
open Sozu KMap

-- ---------------------------------------------------------------- general --

/-- among the elements of a duplicate-free list only `k` produces commands for `t` -/
theorem foldTO_flatMap_one {α : Type} (env : Env) (t : Target) (g : α → List Cmd) (L : List α) (k : α)
    (hnd : L.Nodup) (hk : k ∈ L) (hskip : ∀ x ∈ L, x ≠ k → ∀ c ∈ g x, tgt c ≠ some t)
    (p : Option Val × Bool) : foldTO env t p (L.flatMap g) = foldTO env t p (g k) := by
  induction L generalizing p with
  | nil => simp at hk
  | cons x L ih =>
    have hx := List.nodup_cons.mp hnd
    simp only [List.flatMap_cons, foldTO_append]
    by_cases e : x = k
    · subst e
      apply foldTO_flatMap_skip
      intro y hy c hc
      exact hskip y (by simp [hy]) (fun e => hx.1 (e ▸ hy)) c hc
    · rw [foldTO_skip env t p _ (hskip x (by simp) e)]
      have hk' : k ∈ L := by
        rcases List.mem_cons.mp hk with h | h
        · exact absurd h.symm e
        · exact h
      exact ih hx.2 hk' (fun y hy => hskip y (by simp [hy])) p

theorem nodup_filterMap_of_keys {β : Type} (s : St) (hnd : (s.map (·.1)).Nodup) (f : Target × Val → Option β)
    (hf : ∀ e e' b, f e = some b → f e' = some b → e.1 = e'.1) : (s.filterMap f).Nodup := by
  induction s with
  | nil => simp
  | cons e s ih =>
    have hz : e.1 ∉ s.map (·.1) ∧ (s.map (·.1)).Nodup := List.nodup_cons.mp hnd
    simp only [List.filterMap_cons]
    cases hfe : f e with
    | none => exact ih hz.2
    | some b =>
      refine List.nodup_cons.mpr ⟨?_, ih hz.2⟩
      intro hin
      obtain ⟨e', he', hfe'⟩ := List.mem_filterMap.mp hin
      have := hf e e' b hfe hfe'
      exact hz.1 (List.mem_map.mpr ⟨e', he', this.symm⟩)

theorem nodup_keysOf (s : St) (hnd : (s.map (·.1)).Nodup) (ty : LType) (keys : Target → Option Nat)
    (hk : KeysFor ty keys) : (keysOf s keys).Nodup := by
  apply nodup_filterMap_of_keys s hnd
  intro e e' b h1 h2
  rw [(hk e.1 b).mp h1, (hk e'.1 b).mp h2]

/-- the keys `diff_map` reports are strictly ascending (hence duplicate-free) -/
theorem diffMapAux_sorted {κ ν : Type} [DecidableEq ν] (lt : κ → κ → Bool) (h : StrictTotal lt)
    (n : Nat) (a b : List (κ × ν)) (hn : a.length + b.length ≤ n)
    (ha : KeysSorted lt a) (hb : KeysSorted lt b) : KeysSorted lt (diffMapAux lt n a b) := by
  have keyin : ∀ (n : Nat) (a b : List (κ × ν)), a.length + b.length ≤ n → KeysSorted lt a → KeysSorted lt b →
      ∀ k r, (k, r) ∈ diffMapAux lt n a b → (∃ v, (k, v) ∈ a) ∨ (∃ v, (k, v) ∈ b) := by
    intro n a b hn ha hb k r hm
    rcases (mem_diffMapAux lt h n a b hn ha hb k r).mp hm with ⟨_, h1, _⟩ | ⟨_, h1, _⟩ | ⟨_, v, v', h1, _⟩
    · exact Or.inl h1
    · exact Or.inr h1
    · exact Or.inl ⟨v, h1⟩
  fun_induction diffMapAux lt n a b
  case case1 => simp [KeysSorted]
  case case2 => simp [KeysSorted]
  case case3 n k v os ih =>
    have hb' := List.pairwise_cons.mp hb
    simp only [List.length_cons, List.length_nil] at hn
    refine List.pairwise_cons.mpr ⟨?_, ih (by simp; omega) ha hb'.2⟩
    intro x hx
    rcases keyin n [] os (by simp; omega) ha hb'.2 x.1 x.2 hx with ⟨v', h'⟩ | ⟨v', h'⟩
    · simp at h'
    · exact hb'.1 _ h'
  case case4 n k v ms ih =>
    have ha' := List.pairwise_cons.mp ha
    simp only [List.length_cons, List.length_nil] at hn
    refine List.pairwise_cons.mpr ⟨?_, ih (by simp; omega) ha'.2 hb⟩
    intro x hx
    rcases keyin n ms [] (by simp; omega) ha'.2 hb x.1 x.2 hx with ⟨v', h'⟩ | ⟨v', h'⟩
    · exact ha'.1 _ h'
    · simp at h'
  case case5 n k1 v1 ms k2 v2 os hlt ih =>
    have ha' := List.pairwise_cons.mp ha
    have hb' := List.pairwise_cons.mp hb
    simp only [List.length_cons] at hn
    refine List.pairwise_cons.mpr ⟨?_, ih (by simp; omega) ha'.2 hb⟩
    intro x hx
    rcases keyin n ms ((k2, v2) :: os) (by simp; omega) ha'.2 hb x.1 x.2 hx with ⟨v', h'⟩ | ⟨v', h'⟩
    · exact ha'.1 _ h'
    · rcases List.mem_cons.mp h' with e | h'
      · injection e with e1 e2; rw [e1]; exact hlt
      · exact h.trans _ _ _ hlt (hb'.1 _ h')
  case case6 n k1 v1 ms k2 v2 os hnlt hlt ih =>
    have ha' := List.pairwise_cons.mp ha
    have hb' := List.pairwise_cons.mp hb
    simp only [List.length_cons] at hn
    refine List.pairwise_cons.mpr ⟨?_, ih (by simp; omega) ha hb'.2⟩
    intro x hx
    rcases keyin n ((k1, v1) :: ms) os (by simp; omega) ha hb'.2 x.1 x.2 hx with ⟨v', h'⟩ | ⟨v', h'⟩
    · rcases List.mem_cons.mp h' with e | h'
      · injection e with e1 e2; rw [e1]; exact hlt
      · exact h.trans _ _ _ hlt (ha'.1 _ h')
    · exact hb'.1 _ h'
  case case7 n k1 v1 ms k2 v2 os h1 h2 hv ih =>
    have ha' := List.pairwise_cons.mp ha
    have hb' := List.pairwise_cons.mp hb
    simp only [List.length_cons] at hn
    have e : k1 = k2 := h.tri _ _ (by simpa using h1) (by simpa using h2)
    subst e
    refine List.pairwise_cons.mpr ⟨?_, ih (by omega) ha'.2 hb'.2⟩
    intro x hx
    rcases keyin n ms os (by omega) ha'.2 hb'.2 x.1 x.2 hx with ⟨v', h'⟩ | ⟨v', h'⟩
    · exact ha'.1 _ h'
    · exact hb'.1 _ h'
  case case8 n k1 v1 ms k2 v2 os h1 h2 hv ih =>
    simp only [List.length_cons] at hn
    exact ih (by omega) (List.pairwise_cons.mp ha).2 (List.pairwise_cons.mp hb).2

theorem nodup_of_keysSorted {κ ν : Type} (lt : κ → κ → Bool) (h : StrictTotal lt) (l : List (κ × ν))
    (hs : KeysSorted lt l) : l.Nodup := by
  refine List.Pairwise.imp ?_ hs
  intro a b hab e
  rw [e, h.irrefl] at hab; cases hab

-- -------------------------------------------------------------- listeners --

theorem loc_rm_some (env : Env) (ty : LType) (k : Nat) (x : Val) :
    loc env (.removeListener (some ty) k) (some x) = (none, true) := rfl

theorem loc_act_pair (env : Env) (ty : LType) (k : Nat) (v : Val) (h : Typed ty v) :
    loc env (Cmd.activate (some ty) k) (some v) = (some (setAct true v), true) := by
  simp [loc, setActive_typed _ ty v h]

theorem loc_deact_pair (env : Env) (ty : LType) (k : Nat) (v : Val) (h : Typed ty v) :
    loc env (Cmd.deactivate (some ty) k) (some v) = (some (setAct false v), true) := by
  simp [loc, setActive_typed _ ty v h]

theorem tgt_rm (ty : LType) (k : Nat) (h : canon k = k) : tgt (Cmd.removeListener (some ty) k) = some (KX ty k) := by
  show some (listenerTarget ty k) = _; rw [listenerTarget_eq, h]
theorem tgt_act (ty : LType) (k : Nat) (h : canon k = k) : tgt (Cmd.activate (some ty) k) = some (KX ty k) := by
  show some (listenerTarget ty k) = _; rw [listenerTarget_eq, h]
theorem tgt_deact (ty : LType) (k : Nat) (h : canon k = k) : tgt (Cmd.deactivate (some ty) k) = some (KX ty k) := by
  show some (listenerTarget ty k) = _; rw [listenerTarget_eq, h]

/-- removed listener: `Deactivate?`, `Remove`, both accepted -/
theorem removed_block_O (env : Env) (ty : LType) (k : Nat) (v : Val) (hty : Typed ty v) (hck : canon k = k) (b : Bool) :
    foldTO env (KX ty k) (some v, true)
      ((if b then [Cmd.deactivate (some ty) k] else []) ++ [Cmd.removeListener (some ty) k]) = (none, true) := by
  cases b
  · simp only [Bool.false_eq_true, if_false, List.nil_append, foldTO_cons, foldTO_nil, tgt_rm ty k hck, if_true,
      loc_rm_some, Bool.and_self]
  · simp only [if_true, List.cons_append, List.nil_append, foldTO_cons, foldTO_nil, tgt_deact ty k hck, tgt_rm ty k hck,
      loc_deact_pair env ty k v hty, loc_rm_some, Bool.and_self]

theorem added_block_O (env : Env) (ty : LType) (k : Nat) (v : Val) (hty : Typed ty v) (hkv : canon (rawAddr v) = k) :
    foldTO env (KX ty k) (none, true)
      (addListenerCmd ty v ++ (if listenerActive (some v) then [Cmd.activate (some ty) k] else [])) = (some v, true) := by
  obtain ⟨c, hc, htc, hl1, _⟩ := addListenerCmd_typed env ty v hty
  have hck : canon k = k := by rw [← hkv, canon_canon]
  have htc' : tgt c = some (KX ty k) := by rw [htc, listenerTarget_eq, hkv]
  rw [hc]
  by_cases ha : listenerActive (some v) = true
  · simp only [ha, if_true, List.cons_append, List.nil_append, foldTO_cons, foldTO_nil, htc', hl1, tgt_act ty k hck,
      loc_act_pair env ty k v hty, Bool.and_self, setAct_true_of_active v ha]
  · simp only [ha, Bool.false_eq_true, if_false, List.append_nil, foldTO_cons, foldTO_nil, htc', if_true, hl1, Bool.and_self]

theorem common_block_O (env : Env) (ty : LType) (k : Nat) (m th : Val) (hm : Typed ty m) (hth : Typed ty th)
    (hkth : canon (rawAddr th) = k) :
    foldTO env (KX ty k) (some m, true) (commonBlock ty k m th) = (some th, true) := by
  have hck : canon k = k := by rw [← hkth, canon_canon]
  have hdty : Typed ty (setAct false th) := typed_setAct false ty th hth
  obtain ⟨c, hc, htc, hl1, _⟩ := addListenerCmd_typed env ty (setAct false th) hdty
  have htc' : tgt c = some (KX ty k) := by rw [htc, listenerTarget_eq, rawAddr_setAct, hkth]
  unfold commonBlock
  rw [foldTO_append]
  by_cases hne : m = th
  · subst hne
    simp [foldTO_nil]
  · have first : foldTO env (KX ty k) (some m, true)
        (if m ≠ th then [Cmd.removeListener (some ty) k] ++ addListenerCmd ty (deactivated th) ++
          (if listenerActive (some th) then [Cmd.activate (some ty) k] else []) else []) = (some th, true) := by
      rw [if_pos hne, deactivated_eq, hc]
      simp only [List.cons_append, List.nil_append, foldTO_cons, tgt_rm ty k hck, if_true, loc_rm_some, htc', hl1, Bool.and_self]
      by_cases ha : listenerActive (some th) = true
      · simp only [ha, if_true, foldTO_cons, foldTO_nil, tgt_act ty k hck, loc_act_pair env ty k _ hdty, setAct_setAct,
          Bool.and_self, setAct_true_of_active th ha]
      · have ha' : listenerActive (some th) = false := by simpa using ha
        simp only [ha', Bool.false_eq_true, if_false, foldTO_nil, setAct_false_of_inactive ty th ha']
    rw [first]
    by_cases hd : (listenerActive (some m) && !listenerActive (some th)) = true
    · have ha' : listenerActive (some th) = false := by
        simp only [Bool.and_eq_true, Bool.not_eq_true'] at hd; exact hd.2
      simp only [hd, if_true, foldTO_cons, foldTO_nil, tgt_deact ty k hck, loc_deact_pair env ty k th hth, Bool.and_self,
        setAct_false_of_inactive ty th ha']
    · simp only [hd, Bool.false_eq_true, if_false, foldTO_nil]

theorem not_contains_iff (l : List Nat) (k : Nat) : (!l.contains k) = true ↔ k ∉ l := by simp

/-- removed pass of one listener map, acceptance tracked -/
theorem removedL_O (env : Env) (A B : St) (hA : WF env A) (hB : WF env B) (ty : LType)
    (keys : Target → Option Nat) (hk : KeysFor ty keys) (k : Nat) :
    foldTO env (KX ty k) (look A (KX ty k), true) (diffRemovedL ty A B keys) =
      if (look A (KX ty k)).isSome ∧ look B (KX ty k) = none then (none, true) else (look A (KX ty k), true) := by
  have hnd : ((keysOf A keys).filter (fun k => !(keysOf B keys).contains k)).Nodup :=
    List.Nodup.sublist List.filter_sublist (nodup_keysOf A hA.1 ty keys hk)
  have hskip : ∀ x ∈ (keysOf A keys).filter (fun k => !(keysOf B keys).contains k), x ≠ k →
      ∀ c ∈ (if listenerActive (look A (listenerTarget ty x)) then [Cmd.deactivate (some ty) x] else []) ++
        [Cmd.removeListener (some ty) x], tgt c ≠ some (KX ty k) := by
    intro x hx hne c hc
    have hcx := key_canon env ty keys hk A hA x (List.mem_filter.mp hx).1
    have : tgt c = some (KX ty x) := by
      simp only [List.mem_append, List.mem_cons, List.not_mem_nil, or_false] at hc
      rcases hc with hc | rfl
      · split at hc
        · simp at hc; subst hc; exact tgt_deact ty x hcx
        · simp at hc
      · exact tgt_rm ty x hcx
    rw [this]; intro h; injection h with h; exact hne (KX_inj ty _ _ h)
  unfold diffRemovedL
  by_cases hcase : (look A (KX ty k)).isSome ∧ look B (KX ty k) = none
  · rw [if_pos hcase]
    obtain ⟨v, hv⟩ := Option.isSome_iff_exists.mp hcase.1
    have hty := wf_listener env A hA ty k v hv
    have hck : canon k = k := by rw [← hty.2, canon_canon]
    have hin : k ∈ (keysOf A keys).filter (fun k => !(keysOf B keys).contains k) := by
      refine List.mem_filter.mpr ⟨(mem_keysOf A hA.1 ty keys hk k).mpr ⟨v, hv⟩, ?_⟩
      rw [not_contains_iff]
      intro hin
      obtain ⟨v', hv'⟩ := (mem_keysOf B hB.1 ty keys hk k).mp hin
      rw [hcase.2] at hv'; cases hv'
    rw [foldTO_flatMap_one env (KX ty k) _ _ k hnd hin hskip, hv]
    exact removed_block_O env ty k v hty.1 hck _
  · rw [if_neg hcase]
    apply foldTO_flatMap_skip
    intro x hx c hc
    by_cases hxk : x = k
    · exfalso; subst hxk
      apply hcase
      have h1 := (mem_keysOf A hA.1 ty keys hk x).mp (List.mem_filter.mp hx).1
      have h2 := (not_contains_iff _ _).mp (List.mem_filter.mp hx).2
      refine ⟨by obtain ⟨v, hv⟩ := h1; simp [hv], ?_⟩
      cases hb : look B (KX ty x) with
      | none => rfl
      | some v => exact absurd ((mem_keysOf B hB.1 ty keys hk x).mpr ⟨v, hb⟩) h2
    · exact hskip x hx hxk c hc

def addedBlock (ty : LType) (b : St) (k : Nat) : List Cmd :=
  match look b (listenerTarget ty k) with
  | some v => addListenerCmd ty v ++ (if listenerActive (some v) then [Cmd.activate (some ty) k] else [])
  | none => []

theorem diffAddedL_eq (ty : LType) (a b : St) (keys : Target → Option Nat) :
    diffAddedL ty a b keys = (addedKeys a b keys).flatMap (addedBlock ty b) := rfl

theorem addedL_O (env : Env) (A B : St) (hA : WF env A) (hB : WF env B) (ty : LType)
    (keys : Target → Option Nat) (hk : KeysFor ty keys) (k : Nat) (w : Option Val)
    (hw : look A (KX ty k) = none → w = none) :
    foldTO env (KX ty k) (w, true) (diffAddedL ty A B keys) =
      if look A (KX ty k) = none ∧ (look B (KX ty k)).isSome then (look B (KX ty k), true) else (w, true) := by
  have hnd : (addedKeys A B keys).Nodup :=
    List.Nodup.sublist List.filter_sublist (nodup_keysOf B hB.1 ty keys hk)
  have hskip : ∀ x ∈ addedKeys A B keys, ¬ x = k → ∀ c ∈ addedBlock ty B x, tgt c ≠ some (KX ty k) :=
    fun x hx hne c hc => addedL_skip env A B hB ty keys hk k x hx hne c hc
  rw [diffAddedL_eq]
  by_cases hcase : look A (KX ty k) = none ∧ (look B (KX ty k)).isSome
  · rw [if_pos hcase]
    obtain ⟨v, hv⟩ := Option.isSome_iff_exists.mp hcase.2
    have hty := wf_listener env B hB ty k v hv
    have hck : canon k = k := by rw [← hty.2, canon_canon]
    have hlt : listenerTarget ty k = KX ty k := by rw [listenerTarget_eq, hck]
    have hin : k ∈ addedKeys A B keys := by
      refine List.mem_filter.mpr ⟨(mem_keysOf B hB.1 ty keys hk k).mpr ⟨v, hv⟩, ?_⟩
      rw [not_contains_iff]
      intro hin
      obtain ⟨v', hv'⟩ := (mem_keysOf A hA.1 ty keys hk k).mp hin
      rw [hcase.1] at hv'; cases hv'
    rw [foldTO_flatMap_one env (KX ty k) _ _ k hnd hin (fun x hx hne => hskip x hx hne), hw hcase.1]
    simp only [addedBlock, hlt, hv]
    exact added_block_O env ty k v hty.1 hty.2
  · rw [if_neg hcase]
    apply foldTO_flatMap_skip
    intro x hx c hc
    by_cases hxk : x = k
    · exfalso; subst hxk
      apply hcase
      have hb := (mem_keysOf B hB.1 ty keys hk x).mp (List.mem_filter.mp hx).1
      have ha := (not_contains_iff _ _).mp (List.mem_filter.mp hx).2
      refine ⟨?_, by obtain ⟨v, hv⟩ := hb; simp [hv]⟩
      cases h : look A (KX ty x) with
      | none => rfl
      | some v => exact absurd ((mem_keysOf A hA.1 ty keys hk x).mpr ⟨v, h⟩) ha
    · exact hskip x hx hxk c hc

def commonG (ty : LType) (a b : St) (k : Nat) : List Cmd :=
  match look a (listenerTarget ty k), look b (listenerTarget ty k) with
  | some mine, some theirs =>
    (if mine ≠ theirs then
      [Cmd.removeListener (some ty) k] ++ addListenerCmd ty (deactivated theirs) ++
      (if listenerActive (some theirs) then [Cmd.activate (some ty) k] else [])
     else []) ++
    (if listenerActive (some mine) && !listenerActive (some theirs) then [Cmd.deactivate (some ty) k] else [])
  | _, _ => []

theorem diffCommonL_eq (ty : LType) (a b : St) (keys : Target → Option Nat) :
    diffCommonL ty a b keys = ((keysOf a keys).filter (fun k => (keysOf b keys).contains k)).flatMap (commonG ty a b) := rfl

theorem commonG_block (env : Env) (A B : St) (hA : WF env A) (hB : WF env B) (ty : LType)
    (keys : Target → Option Nat) (hk : KeysFor ty keys) (x : Nat)
    (hx : x ∈ (keysOf A keys).filter (fun k => (keysOf B keys).contains k)) :
    ∃ m th, look A (KX ty x) = some m ∧ look B (KX ty x) = some th ∧ canon x = x ∧
      commonG ty A B x = commonBlock ty x m th := by
  have hxa := (List.mem_filter.mp hx).1
  have hxb : x ∈ keysOf B keys := by simpa using (List.mem_filter.mp hx).2
  obtain ⟨m, hm⟩ := (mem_keysOf A hA.1 ty keys hk x).mp hxa
  obtain ⟨th, hth⟩ := (mem_keysOf B hB.1 ty keys hk x).mp hxb
  have hcx := key_canon env ty keys hk A hA x hxa
  refine ⟨m, th, hm, hth, hcx, ?_⟩
  unfold commonG
  rw [listenerTarget_eq, hcx, hm, hth]
  rfl

theorem commonBlock_tgt (env : Env) (ty : LType) (x : Nat) (m th : Val) (hth : Typed ty th)
    (hkth : canon (rawAddr th) = x) : ∀ c ∈ commonBlock ty x m th, tgt c = some (KX ty x) := by
  intro c hc
  have hcx : canon x = x := by rw [← hkth, canon_canon]
  obtain ⟨c0, hc0, htc, _⟩ := addListenerCmd_typed env ty (setAct false th) (typed_setAct false ty th hth)
  simp only [commonBlock, deactivated_eq, hc0, List.mem_append] at hc
  rcases hc with hc | hc
  · split at hc
    · simp only [List.mem_append, List.mem_cons, List.not_mem_nil, or_false] at hc
      rcases hc with (rfl | rfl) | hc
      · exact tgt_rm ty x hcx
      · rw [htc, listenerTarget_eq, rawAddr_setAct, hkth]
      · split at hc
        · simp at hc; subst hc; exact tgt_act ty x hcx
        · simp at hc
    · simp at hc
  · split at hc
    · simp at hc; subst hc; exact tgt_deact ty x hcx
    · simp at hc

theorem commonL_O (env : Env) (A B : St) (hA : WF env A) (hB : WF env B) (ty : LType)
    (keys : Target → Option Nat) (hk : KeysFor ty keys) (k : Nat) (w : Option Val)
    (hw : (look A (KX ty k)).isSome → (look B (KX ty k)).isSome → w = look A (KX ty k)) :
    foldTO env (KX ty k) (w, true) (diffCommonL ty A B keys) =
      if (look A (KX ty k)).isSome ∧ (look B (KX ty k)).isSome then (look B (KX ty k), true) else (w, true) := by
  have hnd : ((keysOf A keys).filter (fun k => (keysOf B keys).contains k)).Nodup :=
    List.Nodup.sublist List.filter_sublist (nodup_keysOf A hA.1 ty keys hk)
  have hskip : ∀ x ∈ (keysOf A keys).filter (fun k => (keysOf B keys).contains k), x ≠ k →
      ∀ c ∈ commonG ty A B x, tgt c ≠ some (KX ty k) := by
    intro x hx hne c hc
    obtain ⟨m, th, hm, hth, hcx, hblock⟩ := commonG_block env A B hA hB ty keys hk x hx
    rw [hblock] at hc
    have htyp := wf_listener env B hB ty x th hth
    rw [commonBlock_tgt env ty x m th htyp.1 htyp.2 c hc]
    intro h; injection h with h; exact hne (KX_inj ty _ _ h)
  rw [diffCommonL_eq]
  by_cases hcase : (look A (KX ty k)).isSome ∧ (look B (KX ty k)).isSome
  · rw [if_pos hcase]
    obtain ⟨m, hm⟩ := Option.isSome_iff_exists.mp hcase.1
    obtain ⟨th, hth⟩ := Option.isSome_iff_exists.mp hcase.2
    have htypA := wf_listener env A hA ty k m hm
    have htyp := wf_listener env B hB ty k th hth
    have hkin : k ∈ (keysOf A keys).filter (fun k => (keysOf B keys).contains k) :=
      List.mem_filter.mpr ⟨(mem_keysOf A hA.1 ty keys hk k).mpr ⟨m, hm⟩,
        by simpa using (mem_keysOf B hB.1 ty keys hk k).mpr ⟨th, hth⟩⟩
    obtain ⟨m', th', hm', hth', _, hblock⟩ := commonG_block env A B hA hB ty keys hk k hkin
    rw [hm] at hm'; rw [hth] at hth'
    injection hm' with hm'; injection hth' with hth'; subst hm'; subst hth'
    rw [foldTO_flatMap_one env (KX ty k) _ _ k hnd hkin hskip, hblock, hw hcase.1 hcase.2, hm, hth]
    exact common_block_O env ty k m th htypA.1 htyp.1 htyp.2
  · rw [if_neg hcase]
    apply foldTO_flatMap_skip
    intro x hx c hc
    by_cases hxk : x = k
    · exfalso; subst hxk
      obtain ⟨m, th, hm, hth, _, _⟩ := commonG_block env A B hA hB ty keys hk x hx
      exact hcase ⟨by simp [hm], by simp [hth]⟩
    · exact hskip x hx hxk c hc

theorem reactivate_O (env : Env) (A B : St) (hA : WF env A) (hB : WF env B) (ty : LType)
    (keys : Target → Option Nat) (hk : KeysFor ty keys) (k : Nat) (w : Option Val)
    (hw : (look B (KX ty k)).isSome → w = look B (KX ty k)) :
    foldTO env (KX ty k) (w, true) (diffReactivate ty A B keys) = (w, true) := by
  rw [diffReactivate_eq]
  have hnd : (addedKeys A B keys).Nodup :=
    List.Nodup.sublist List.filter_sublist (nodup_keysOf B hB.1 ty keys hk)
  have hblock : ∀ x ∈ addedKeys A B keys, ∃ v, look B (KX ty x) = some v ∧ Typed ty v ∧ canon (rawAddr v) = x ∧
      (reactBlock ty B x = [] ∨ (listenerActive (some v) = true ∧ reactBlock ty B x = [Cmd.activate (some ty) (rawAddr v)])) := by
    intro x hx
    have hxb := (List.mem_filter.mp hx).1
    obtain ⟨v, hv⟩ := (mem_keysOf B hB.1 ty keys hk x).mp hxb
    have hcx := key_canon env ty keys hk B hB x hxb
    have htyp := wf_listener env B hB ty x v hv
    refine ⟨v, hv, htyp.1, htyp.2, ?_⟩
    unfold reactBlock
    rw [listenerTarget_eq, hcx, hv]
    cases v with
    | tl l => by_cases ha : l.active = true
              · right; exact ⟨ha, by simp [ha, rawAddr]⟩
              · left; simp [ha]
    | ul l => by_cases ha : l.active = true
              · right; exact ⟨ha, by simp [ha, rawAddr]⟩
              · left; simp [ha]
    | _ => left; rfl
  have hskip : ∀ x ∈ addedKeys A B keys, x ≠ k → ∀ c ∈ reactBlock ty B x, tgt c ≠ some (KX ty k) := by
    intro x hx hne c hc
    obtain ⟨v', _, _, hkv', hb'⟩ := hblock x hx
    rcases hb' with hb' | ⟨_, hb'⟩
    · rw [hb'] at hc; simp at hc
    · rw [hb'] at hc; simp at hc; subst hc
      show some (listenerTarget ty (rawAddr v')) ≠ _
      rw [listenerTarget_eq, hkv']
      intro h; injection h with h; exact hne (KX_inj ty _ _ h)
  by_cases hin : k ∈ addedKeys A B keys
  · obtain ⟨v, hv, htyp, hkv, hb⟩ := hblock k hin
    rw [foldTO_flatMap_one env (KX ty k) _ _ k hnd hin hskip, hw (by simp [hv]), hv]
    rcases hb with hb | ⟨ha, hb⟩
    · rw [hb]; rfl
    · rw [hb]
      have ht : tgt (Cmd.activate (some ty) (rawAddr v)) = some (KX ty k) := by
        show some (listenerTarget ty (rawAddr v)) = _; rw [listenerTarget_eq, hkv]
      simp only [foldTO_cons, foldTO_nil, ht, if_true, loc_act_pair env ty _ v htyp, Bool.and_self,
        setAct_true_of_active v ha]
  · apply foldTO_flatMap_skip
    intro x hx c hc
    by_cases hxk : x = k
    · subst hxk; exact absurd hx hin
    · exact hskip x hx hxk c hc

theorem listener_chain_O (env : Env) (A B : St) (hA : WF env A) (hB : WF env B) (ty : LType)
    (keys : Target → Option Nat) (hk : KeysFor ty keys) (k : Nat) (X1 X2 X3 X4 X5 Re : List Cmd)
    (h1 : ∀ p, foldTO env (KX ty k) p X1 = p) (h2 : ∀ p, foldTO env (KX ty k) p X2 = p)
    (h3 : ∀ p, foldTO env (KX ty k) p X3 = p) (h4 : ∀ p, foldTO env (KX ty k) p X4 = p)
    (h5 : ∀ p, foldTO env (KX ty k) p X5 = p)
    (hRe : ∀ w, ((look B (KX ty k)).isSome → w = look B (KX ty k)) → foldTO env (KX ty k) (w, true) Re = (w, true)) :
    foldTO env (KX ty k) (look A (KX ty k), true)
      (X1 ++ diffRemovedL ty A B keys ++ X2 ++ diffAddedL ty A B keys ++ X3 ++ diffCommonL ty A B keys ++ X4 ++ Re ++ X5)
      = (look B (KX ty k), true) := by
  simp only [foldTO_append, h1, h2, h3, h4, h5]
  rw [removedL_O env A B hA hB ty keys hk k]
  cases hAv : look A (KX ty k) with
  | none =>
    simp only [Option.isSome_none, Bool.false_eq_true, false_and, if_false]
    rw [addedL_O env A B hA hB ty keys hk k none (fun _ => rfl), hAv]
    cases hBv : look B (KX ty k) with
    | none =>
      simp only [Option.isSome_none, Bool.false_eq_true, and_false, if_false]
      rw [commonL_O env A B hA hB ty keys hk k none (by rw [hAv]; simp), hAv]
      simp only [Option.isSome_none, Bool.false_eq_true, false_and, if_false]
      exact hRe none (by rw [hBv]; simp)
    | some vb =>
      simp only [Option.isSome_some, and_self, if_true]
      rw [commonL_O env A B hA hB ty keys hk k _ (by rw [hAv]; simp), hAv]
      simp only [Option.isSome_none, Bool.false_eq_true, false_and, if_false]
      exact hRe _ (by rw [hBv]; intro _; rfl)
  | some va =>
    cases hBv : look B (KX ty k) with
    | none =>
      simp only [Option.isSome_some, true_and, if_true]
      rw [addedL_O env A B hA hB ty keys hk k none (fun _ => rfl), hAv]
      simp only [reduceCtorEq, false_and, if_false]
      rw [commonL_O env A B hA hB ty keys hk k none (by rw [hBv]; simp), hBv]
      simp only [Option.isSome_none, Bool.false_eq_true, and_false, if_false]
      exact hRe none (by rw [hBv]; simp)
    | some vb =>
      simp only [reduceCtorEq, and_false, if_false]
      rw [addedL_O env A B hA hB ty keys hk k _ (by rw [hAv]; intro h; cases h), hAv]
      simp only [reduceCtorEq, false_and, if_false]
      rw [commonL_O env A B hA hB ty keys hk k _ (by rw [hAv]; intro _ _; rfl), hAv, hBv]
      simp only [Option.isSome_some, and_self, if_true]
      exact hRe _ (by rw [hBv]; intro _; rfl)

theorem foldTO_skip_sec (env : Env) (t : Target) (p : Option Val × Bool) (cs : List Cmd)
    (h : ∀ c ∈ cs, ∃ t', tgt c = some t' ∧ sectionOf t' ≠ sectionOf t) : foldTO env t p cs = p := by
  apply foldTO_skip
  intro c hc e
  obtain ⟨t', h1, h2⟩ := h c hc
  rw [h1] at e; injection e with e; subst e; exact h2 rfl

theorem other_type_skip_O (env : Env) (A B : St) (hA : WF env A) (hB : WF env B) (ty ty' : LType) (hne : ty' ≠ ty)
    (keys : Target → Option Nat) (hk : KeysFor ty' keys) (k : Nat) :
    (∀ p, foldTO env (KX ty k) p (diffRemovedL ty' A B keys) = p) ∧
    (∀ p, foldTO env (KX ty k) p (diffAddedL ty' A B keys) = p) ∧
    (∀ p, foldTO env (KX ty k) p (diffCommonL ty' A B keys) = p) ∧
    (∀ p, foldTO env (KX ty k) p (diffReactivate ty' A B keys) = p) := by
  have all := listener_cmds_tgt env A B hA hB ty' keys hk
  have mk : ∀ (part : List Cmd), (∀ c ∈ part, c ∈ diffRemovedL ty' A B keys ++ diffAddedL ty' A B keys ++
      diffCommonL ty' A B keys ++ diffReactivate ty' A B keys) → ∀ p, foldTO env (KX ty k) p part = p := by
    intro part hp p
    apply foldTO_skip
    intro c hc e
    obtain ⟨a, ha⟩ := all c (hp c hc)
    rw [ha] at e; injection e with e
    exact KX_ne ty ty' hne a k e
  refine ⟨mk _ ?_, mk _ ?_, mk _ ?_, mk _ ?_⟩ <;> intro c hc <;> simp [hc]

theorem nonlistener_skip_O (env : Env) (A B : St) (ty : LType) (k : Nat) :
    ∀ p, foldTO env (KX ty k) p (diffClusters A B ++ diffBackends A B ++ diffFronts A B false ++ diffFronts A B true ++
      diffTcpFronts A B false ++ diffTcpFronts A B true ++ diffCerts A B) = p := by
  intro p
  have hs : sectionOf (KX ty k) ≤ 3 := by cases ty <;> simp [KX, sectionOf]
  have sk : ∀ (p : Option Val × Bool) (cs : List Cmd) (n : Nat), 4 ≤ n →
      (∀ c ∈ cs, ∃ t', tgt c = some t' ∧ sectionOf t' = n) → foldTO env (KX ty k) p cs = p := by
    intro p cs n hn h
    apply foldTO_skip_sec
    intro c hc
    obtain ⟨t', h1, h2⟩ := h c hc
    exact ⟨t', h1, by omega⟩
  simp only [foldTO_append]
  rw [sk _ _ 4 (by omega) (sec_clusters A B), sk _ _ 10 (by omega) (sec_backends A B),
    sk _ _ 5 (by omega) (sec_fronts A B false), sk _ _ 7 (by omega) (sec_fronts A B true),
    sk _ _ 8 (by omega) (sec_tcpFronts A B false), sk _ _ 9 (by omega) (sec_tcpFronts A B true),
    sk _ _ 6 (by omega) (sec_certs A B)]

/-- listeners: `diff A B` replayed on `A`, seen from one listener entry: every command accepted,
    the entry ends as in `B` -/
theorem listeners_O (env : Env) (A B : St) (hA : WF env A) (hB : WF env B) (ty : LType) (k : Nat) :
    foldTO env (KX ty k) (look A (KX ty k), true) (diff A B) = (look B (KX ty k), true) := by
  have nl := nonlistener_skip_O env A B ty k
  cases ty
  case tcp =>
    obtain ⟨u1, u2, u3, u4⟩ := other_type_skip_O env A B hA hB .tcp .udp (by decide) isUdpL keysFor_udp k
    obtain ⟨p1, p2, p3, _⟩ := other_type_skip_O env A B hA hB .tcp .http (by decide) isHttpL keysFor_http k
    obtain ⟨s1, s2, s3, _⟩ := other_type_skip_O env A B hA hB .tcp .https (by decide) isHttpsL keysFor_https k
    have := listener_chain_O env A B hA hB .tcp isTcpL keysFor_tcp k [] []
      (diffRemovedL .udp A B isUdpL ++ diffAddedL .udp A B isUdpL ++ diffRemovedL .http A B isHttpL ++
        diffAddedL .http A B isHttpL ++ diffRemovedL .https A B isHttpsL ++ diffAddedL .https A B isHttpsL)
      (diffCommonL .udp A B isUdpL ++ diffCommonL .http A B isHttpL ++ diffCommonL .https A B isHttpsL ++
        (diffClusters A B ++ diffBackends A B ++ diffFronts A B false ++ diffFronts A B true ++
          diffTcpFronts A B false ++ diffTcpFronts A B true ++ diffCerts A B))
      (diffReactivate .udp A B isUdpL) (diffReactivate .tcp A B isTcpL)
      (fun w => rfl) (fun w => rfl)
      (by intro w; simp only [foldTO_append, u1, u2, p1, p2, s1, s2])
      (by intro w; simp only [foldTO_append, u3, p3, s3, nl])
      u4 (fun w hw => reactivate_O env A B hA hB .tcp isTcpL keysFor_tcp k w hw)
    unfold diff
    simpa only [List.append_assoc, List.nil_append] using this
  case udp =>
    obtain ⟨t1, t2, t3, t4⟩ := other_type_skip_O env A B hA hB .udp .tcp (by decide) isTcpL keysFor_tcp k
    obtain ⟨p1, p2, p3, _⟩ := other_type_skip_O env A B hA hB .udp .http (by decide) isHttpL keysFor_http k
    obtain ⟨s1, s2, s3, _⟩ := other_type_skip_O env A B hA hB .udp .https (by decide) isHttpsL keysFor_https k
    have := listener_chain_O env A B hA hB .udp isUdpL keysFor_udp k
      (diffRemovedL .tcp A B isTcpL ++ diffAddedL .tcp A B isTcpL) []
      (diffRemovedL .http A B isHttpL ++ diffAddedL .http A B isHttpL ++ diffRemovedL .https A B isHttpsL ++
        diffAddedL .https A B isHttpsL ++ diffCommonL .tcp A B isTcpL)
      (diffCommonL .http A B isHttpL ++ diffCommonL .https A B isHttpsL ++
        (diffClusters A B ++ diffBackends A B ++ diffFronts A B false ++ diffFronts A B true ++
          diffTcpFronts A B false ++ diffTcpFronts A B true ++ diffCerts A B) ++ diffReactivate .tcp A B isTcpL)
      [] (diffReactivate .udp A B isUdpL)
      (by intro w; simp only [foldTO_append, t1, t2]) (fun w => rfl)
      (by intro w; simp only [foldTO_append, p1, p2, s1, s2, t3])
      (by intro w; simp only [foldTO_append, p3, s3, nl, t4])
      (fun w => rfl) (fun w hw => reactivate_O env A B hA hB .udp isUdpL keysFor_udp k w hw)
    unfold diff
    simpa only [List.append_assoc, List.nil_append, List.append_nil] using this
  case http =>
    obtain ⟨t1, t2, t3, t4⟩ := other_type_skip_O env A B hA hB .http .tcp (by decide) isTcpL keysFor_tcp k
    obtain ⟨u1, u2, u3, u4⟩ := other_type_skip_O env A B hA hB .http .udp (by decide) isUdpL keysFor_udp k
    obtain ⟨s1, s2, s3, _⟩ := other_type_skip_O env A B hA hB .http .https (by decide) isHttpsL keysFor_https k
    have := listener_chain_O env A B hA hB .http isHttpL keysFor_http k
      (diffRemovedL .tcp A B isTcpL ++ diffAddedL .tcp A B isTcpL ++ diffRemovedL .udp A B isUdpL ++ diffAddedL .udp A B isUdpL) []
      (diffRemovedL .https A B isHttpsL ++ diffAddedL .https A B isHttpsL ++ diffCommonL .tcp A B isTcpL ++
        diffCommonL .udp A B isUdpL)
      (diffCommonL .https A B isHttpsL ++
        (diffClusters A B ++ diffBackends A B ++ diffFronts A B false ++ diffFronts A B true ++
          diffTcpFronts A B false ++ diffTcpFronts A B true ++ diffCerts A B) ++ diffReactivate .tcp A B isTcpL ++
        diffReactivate .udp A B isUdpL)
      [] []
      (by intro w; simp only [foldTO_append, t1, t2, u1, u2]) (fun w => rfl)
      (by intro w; simp only [foldTO_append, s1, s2, t3, u3])
      (by intro w; simp only [foldTO_append, s3, nl, t4, u4])
      (fun w => rfl) (fun w _ => rfl)
    unfold diff
    simpa only [List.append_assoc, List.nil_append, List.append_nil] using this
  case https =>
    obtain ⟨t1, t2, t3, t4⟩ := other_type_skip_O env A B hA hB .https .tcp (by decide) isTcpL keysFor_tcp k
    obtain ⟨u1, u2, u3, u4⟩ := other_type_skip_O env A B hA hB .https .udp (by decide) isUdpL keysFor_udp k
    obtain ⟨p1, p2, p3, _⟩ := other_type_skip_O env A B hA hB .https .http (by decide) isHttpL keysFor_http k
    have := listener_chain_O env A B hA hB .https isHttpsL keysFor_https k
      (diffRemovedL .tcp A B isTcpL ++ diffAddedL .tcp A B isTcpL ++ diffRemovedL .udp A B isUdpL ++ diffAddedL .udp A B isUdpL ++
        diffRemovedL .http A B isHttpL ++ diffAddedL .http A B isHttpL) []
      (diffCommonL .tcp A B isTcpL ++ diffCommonL .udp A B isUdpL ++ diffCommonL .http A B isHttpL)
      ((diffClusters A B ++ diffBackends A B ++ diffFronts A B false ++ diffFronts A B true ++
          diffTcpFronts A B false ++ diffTcpFronts A B true ++ diffCerts A B) ++ diffReactivate .tcp A B isTcpL ++
        diffReactivate .udp A B isUdpL)
      [] []
      (by intro w; simp only [foldTO_append, t1, t2, u1, u2, p1, p2]) (fun w => rfl)
      (by intro w; simp only [foldTO_append, t3, u3, p3])
      (by intro w; simp only [foldTO_append, nl, t4, u4])
      (fun w => rfl) (fun w _ => rfl)
    unfold diff
    simpa only [List.append_assoc, List.nil_append, List.append_nil] using this

/-- seen from an entry of a non-listener map, `diff` is the part computed for the non-listener maps -/
theorem foldTO_diff_nonlistener (env : Env) (a b : St) (t : Target) (p : Option Val × Bool) (h4 : 4 ≤ sectionOf t) :
    foldTO env t p (diff a b) =
      foldTO env t p (diffClusters a b ++ diffBackends a b ++ diffFronts a b false ++ diffFronts a b true ++
        diffTcpFronts a b false ++ diffTcpFronts a b true ++ diffCerts a b) := by
  have sk : ∀ (ty : LType) (keys : Target → Option Nat) (part : List Cmd) (w : Option Val × Bool),
      (part = diffRemovedL ty a b keys ∨ part = diffAddedL ty a b keys ∨ part = diffCommonL ty a b keys ∨
          part = diffReactivate ty a b keys) → foldTO env t w part = w := by
    intro ty keys part w hp
    apply foldTO_skip_sec
    intro c hc
    obtain ⟨t', h1, h2⟩ := sec_listener_part ty a b keys part hp c hc
    exact ⟨t', h1, by omega⟩
  unfold diff
  simp only [foldTO_append]
  rw [sk .tcp isTcpL _ _ (Or.inl rfl), sk .tcp isTcpL _ _ (Or.inr (Or.inl rfl)),
      sk .udp isUdpL _ _ (Or.inl rfl), sk .udp isUdpL _ _ (Or.inr (Or.inl rfl)),
      sk .http isHttpL _ _ (Or.inl rfl), sk .http isHttpL _ _ (Or.inr (Or.inl rfl)),
      sk .https isHttpsL _ _ (Or.inl rfl), sk .https isHttpsL _ _ (Or.inr (Or.inl rfl)),
      sk .tcp isTcpL _ _ (Or.inr (Or.inr (Or.inl rfl))), sk .udp isUdpL _ _ (Or.inr (Or.inr (Or.inl rfl))),
      sk .http isHttpL _ _ (Or.inr (Or.inr (Or.inl rfl))), sk .https isHttpsL _ _ (Or.inr (Or.inr (Or.inl rfl))),
      sk .tcp isTcpL _ _ (Or.inr (Or.inr (Or.inr rfl))), sk .udp isUdpL _ _ (Or.inr (Or.inr (Or.inr rfl)))]

-- ---------------------------------------------------------------- clusters --

theorem clusters_O (env : Env) (A B : St) (hA : WF env A) (hB : WF env B) (id : Nat) :
    foldTO env (.cluster id) (look A (.cluster id), true) (diffClusters A B) = (look B (.cluster id), true) := by
  have sA := clustersOf_spec A hA.1
  have sB := clustersOf_spec B hB.1
  have spec := fun k r => mem_diffMapAux (fun (x y : Nat) => decide (x < y)) strictTotal_nat _ (clustersOf A)
    (clustersOf B) (Nat.le_refl _) sA.1 sB.1 k r
  have hnd : (diffMap (fun (x y : Nat) => decide (x < y)) (clustersOf A) (clustersOf B)).Nodup :=
    nodup_of_keysSorted _ strictTotal_nat _
      (diffMapAux_sorted _ strictTotal_nat _ _ _ (Nat.le_refl _) sA.1 sB.1)
  rw [diffClusters_eq]
  have hskip : ∀ x ∈ diffMap (fun (x y : Nat) => decide (x < y)) (clustersOf A) (clustersOf B), ¬ x.1 = id →
      ∀ c ∈ clusterCmds B x, tgt c ≠ some (.cluster id) := by
    intro x hx hne c hc
    obtain ⟨k, r⟩ := x
    simp only [clusterCmds] at hc
    have hk : ∀ c', look B (.cluster k) = some (.cluster c') → c'.id = k := by
      intro c' hl
      rcases wf_cluster_look env B hB k with h | ⟨c2, h, h2, _⟩
      · rw [h] at hl; cases hl
      · rw [h] at hl; injection hl with hl; injection hl with hl; subst hl; exact h2
    cases r <;> simp only at hc
    · split at hc
      · next c' hl => simp at hc; subst hc; simp [tgt, hk c' hl]; exact hne
      · simp at hc
    · simp at hc; subst hc; simp [tgt]; exact hne
    · split at hc
      · next c' hl => simp at hc; subst hc; simp [tgt, hk c' hl]; exact hne
      · simp at hc
  -- the only result that can address this entry
  have one : ∀ (r0 : DiffRes), (id, r0) ∈ diffMap (fun (x y : Nat) => decide (x < y)) (clustersOf A) (clustersOf B) →
      (∀ r, (id, r) ∈ diffMap (fun (x y : Nat) => decide (x < y)) (clustersOf A) (clustersOf B) → r = r0) →
      ∀ p, foldTO env (.cluster id) p ((diffMap (fun (x y : Nat) => decide (x < y)) (clustersOf A) (clustersOf B)).flatMap
        (clusterCmds B)) = foldTO env (.cluster id) p (clusterCmds B (id, r0)) := by
    intro r0 hin huniq p
    apply foldTO_flatMap_one env _ _ _ _ hnd hin
    intro x hx hne
    apply hskip x hx
    intro hk
    apply hne
    obtain ⟨k, r⟩ := x; simp at hk; subst hk
    rw [huniq r hx]
  have none_hit : (∀ r, (id, r) ∉ diffMap (fun (x y : Nat) => decide (x < y)) (clustersOf A) (clustersOf B)) →
      ∀ p, foldTO env (.cluster id) p ((diffMap (fun (x y : Nat) => decide (x < y)) (clustersOf A) (clustersOf B)).flatMap
        (clusterCmds B)) = p := by
    intro hno p
    apply foldTO_flatMap_skip
    intro x hx c hc
    apply hskip x hx _ c hc
    intro hk; obtain ⟨k, r⟩ := x; simp at hk; subst hk; exact hno r hx
  rcases wf_cluster_look env A hA id with hAn | ⟨cA, hAs, _, _⟩ <;>
  rcases wf_cluster_look env B hB id with hBn | ⟨cB, hBs, hBid, hBv⟩
  · rw [none_hit, hAn, hBn]
    intro r hx
    rcases (spec id r).mp hx with ⟨_, ⟨v, hv⟩, _⟩ | ⟨_, ⟨v, hv⟩, _⟩ | ⟨_, v, v', hv, _⟩
    · rw [(sA.2 id v).mp hv] at hAn; cases hAn
    · rw [(sB.2 id v).mp hv] at hBn; cases hBn
    · rw [(sA.2 id v).mp hv] at hAn; cases hAn
  · have hadd : ∀ w, loc env (.addCluster cB) w = (some (.cluster cB), true) := by
      intro w; simp only [loc]; cases hh : cB.hc with
      | none => rfl
      | some h => simp [hBv h hh]
    rw [one .added ((spec id .added).mpr (Or.inr (Or.inl ⟨rfl, ⟨cB, (sB.2 id cB).mpr hBs⟩,
        fun v hv => by rw [(sA.2 id v).mp hv] at hAn; cases hAn⟩))) ?_, hAn, hBs]
    · simp only [clusterCmds, hBs, foldTO_cons, foldTO_nil, tgt, hBid, if_true, hadd, Bool.and_self]
    · intro r hx
      rcases (spec id r).mp hx with ⟨_, ⟨v, hv⟩, _⟩ | ⟨hr, _, _⟩ | ⟨_, v, v', hv, _⟩
      · rw [(sA.2 id v).mp hv] at hAn; cases hAn
      · exact hr
      · rw [(sA.2 id v).mp hv] at hAn; cases hAn
  · rw [one .removed ((spec id .removed).mpr (Or.inl ⟨rfl, ⟨cA, (sA.2 id cA).mpr hAs⟩,
        fun v hv => by rw [(sB.2 id v).mp hv] at hBn; cases hBn⟩)) ?_, hAs, hBn]
    · simp only [clusterCmds, foldTO_cons, foldTO_nil, tgt, if_true, loc, removeEntry, Bool.and_self]
    · intro r hx
      rcases (spec id r).mp hx with ⟨hr, _, _⟩ | ⟨_, ⟨v, hv⟩, _⟩ | ⟨_, v, v', _, hv, _⟩
      · exact hr
      · rw [(sB.2 id v).mp hv] at hBn; cases hBn
      · rw [(sB.2 id v').mp hv] at hBn; cases hBn
  · have hadd : ∀ w, loc env (.addCluster cB) w = (some (.cluster cB), true) := by
      intro w; simp only [loc]; cases hh : cB.hc with
      | none => rfl
      | some h => simp [hBv h hh]
    by_cases heq : cA = cB
    · subst heq
      rw [none_hit, hAs, hBs]
      intro r hx
      rcases (spec id r).mp hx with ⟨_, _, hn⟩ | ⟨_, _, hn⟩ | ⟨_, v, v', hv, hv', hne⟩
      · exact hn cA ((sB.2 id cA).mpr hBs)
      · exact hn cA ((sA.2 id cA).mpr hAs)
      · have e1 := (sA.2 id v).mp hv; have e2 := (sB.2 id v').mp hv'
        rw [hAs] at e1; rw [hBs] at e2
        injection e1 with e1; injection e1 with e1; injection e2 with e2; injection e2 with e2
        exact hne (e1 ▸ e2 ▸ rfl)
    · rw [one .changed ((spec id .changed).mpr (Or.inr (Or.inr ⟨rfl, cA, cB, (sA.2 id cA).mpr hAs,
          (sB.2 id cB).mpr hBs, heq⟩))) ?_, hAs, hBs]
      · simp only [clusterCmds, hBs, foldTO_cons, foldTO_nil, tgt, hBid, if_true, hadd, Bool.and_self]
      · intro r hx
        rcases (spec id r).mp hx with ⟨_, _, hn⟩ | ⟨_, _, hn⟩ | ⟨hr, _⟩
        · exact absurd ((sB.2 id cB).mpr hBs) (hn cB)
        · exact absurd ((sA.2 id cA).mpr hAs) (hn cA)
        · exact hr

-- ------------------------------------------------------------------ fronts --

theorem nodup_frontsOf (s : St) (hnd : (s.map (·.1)).Nodup) (https : Bool) : (frontsOf s https).Nodup := by
  apply nodup_filterMap_of_keys s hnd
  intro e e' b h1 h2
  obtain ⟨t, v⟩ := e; obtain ⟨t', v'⟩ := e'
  cases t <;> cases v <;> cases https <;> simp at h1 <;>
    cases t' <;> cases v' <;> simp at h2 <;> (subst h1; injection h2 with h2 _; simp [h2])

theorem fronts_O (env : Env) (A B : St) (hA : WF env A) (hB : WF env B) (https : Bool) (k : FKey) :
    foldTO env (frontT https k) (look A (frontT https k), true) (diffFronts A B https) =
      (look B (frontT https k), true) := by
  have mA := mem_frontsOf env A hA https
  have mB := mem_frontsOf env B hB https
  have keyA : ∀ p ∈ frontsOf A https, fkey (toReq p.2) = p.1 := by
    intro p hp
    rcases wf_front_look env A hA https p.1 with h | ⟨f, h, h1, _⟩
    · rw [(mA p.1 p.2).mp hp] at h; cases h
    · rw [(mA p.1 p.2).mp hp] at h; injection h with h; injection h with h; subst h; exact h1
  have keyB : ∀ p ∈ frontsOf B https, fkey (toReq p.2) = p.1 := by
    intro p hp
    rcases wf_front_look env B hB https p.1 with h | ⟨f, h, h1, _⟩
    · rw [(mB p.1 p.2).mp hp] at h; cases h
    · rw [(mB p.1 p.2).mp hp] at h; injection h with h; injection h with h; subst h; exact h1
  have tgtRm : ∀ f, tgt (rmFrontCmd https f) = some (frontT https (fkey (toReq f))) := by
    intro f; cases https <;> rfl
  have tgtAdd : ∀ f, tgt (addFrontCmd https f) = some (frontT https (fkey (toReq f))) := by
    intro f; cases https <;> rfl
  have injT : ∀ k1 k2, frontT https k1 = frontT https k2 → k1 = k2 := by
    intro k1 k2 h; cases https <;> simpa [frontT] using h
  have locRm : ∀ f w, loc env (rmFrontCmd https f) w = removeEntry w := by
    intro f w; cases https <;> rfl
  have locAdd : ∀ f w, loc env (addFrontCmd https f) w = addFront (toReq f) w := by
    intro f w; cases https <;> rfl
  have ndRm : ((frontsOf A https).filter (fun p => !(frontsOf B https).contains p)).Nodup :=
    List.Nodup.sublist List.filter_sublist (nodup_frontsOf A hA.1 https)
  have ndAdd : ((frontsOf B https).filter (fun p => !(frontsOf A https).contains p)).Nodup :=
    List.Nodup.sublist List.filter_sublist (nodup_frontsOf B hB.1 https)
  rw [diffFronts_eq, foldTO_append]
  have skipRm : ∀ x ∈ (frontsOf A https).filter (fun p => !(frontsOf B https).contains p), ¬ x.1 = k →
      ∀ c ∈ [rmFrontCmd https x.2], tgt c ≠ some (frontT https k) := by
    intro x hx hne c hc
    simp at hc; subst hc
    rw [tgtRm, keyA x (List.mem_filter.mp hx).1]
    intro h; injection h with h; exact hne (injT _ _ h)
  have skipAdd : ∀ x ∈ (frontsOf B https).filter (fun p => !(frontsOf A https).contains p), ¬ x.1 = k →
      ∀ c ∈ [addFrontCmd https x.2], tgt c ≠ some (frontT https k) := by
    intro x hx hne c hc
    simp at hc; subst hc
    rw [tgtAdd, keyB x (List.mem_filter.mp hx).1]
    intro h; injection h with h; exact hne (injT _ _ h)
  have hRemoved : foldTO env (frontT https k) (look A (frontT https k), true)
      (((frontsOf A https).filter (fun p => !(frontsOf B https).contains p)).flatMap (fun p => [rmFrontCmd https p.2])) =
      (if look A (frontT https k) = look B (frontT https k) then look A (frontT https k) else none, true) := by
    by_cases heq : look A (frontT https k) = look B (frontT https k)
    · rw [if_pos heq]
      apply foldTO_flatMap_skip
      intro x hx c hc
      by_cases hk : x.1 = k
      · exfalso
        obtain ⟨k', f'⟩ := x; simp at hk; subst hk
        have h1 := (mA k' f').mp (List.mem_filter.mp hx).1
        have h2 : (k', f') ∈ frontsOf B https := (mB k' f').mpr (by rw [← heq]; exact h1)
        have := (List.mem_filter.mp hx).2
        simp [h2] at this
      · exact skipRm x hx hk c hc
    · rw [if_neg heq]
      rcases wf_front_look env A hA https k with hAn | ⟨fA, hAs, hkA, _⟩
      · rw [hAn]
        apply foldTO_flatMap_skip
        intro x hx c hc
        by_cases hk : x.1 = k
        · exfalso
          have := (mA x.1 x.2).mp (List.mem_filter.mp hx).1
          rw [hk, hAn] at this; cases this
        · exact skipRm x hx hk c hc
      · have hin : (k, fA) ∈ (frontsOf A https).filter (fun p => !(frontsOf B https).contains p) := by
          refine List.mem_filter.mpr ⟨(mA k fA).mpr hAs, ?_⟩
          simp only [Bool.not_eq_true', List.contains_eq_mem, decide_eq_false_iff_not]
          intro hin
          exact heq (by rw [hAs, (mB k fA).mp hin])
        rw [foldTO_flatMap_one env _ _ _ (k, fA) ndRm hin ?_, hAs]
        · simp only [foldTO_cons, foldTO_nil, tgtRm, hkA, if_true, locRm, removeEntry, Bool.and_self]
        · intro x hx hne
          apply skipRm x hx
          intro hk
          apply hne
          obtain ⟨k', f'⟩ := x; simp at hk; subst hk
          have h1 := (mA k' f').mp (List.mem_filter.mp hx).1
          rw [hAs] at h1; injection h1 with h1; injection h1 with h1; subst h1; rfl
  rw [hRemoved]
  by_cases heq : look A (frontT https k) = look B (frontT https k)
  · rw [if_pos heq, heq]
    apply foldTO_flatMap_skip
    intro x hx c hc
    by_cases hk : x.1 = k
    · exfalso
      obtain ⟨k', f'⟩ := x; simp at hk; subst hk
      have h1 := (mB k' f').mp (List.mem_filter.mp hx).1
      have h2 : (k', f') ∈ frontsOf A https := (mA k' f').mpr (by rw [heq]; exact h1)
      have := (List.mem_filter.mp hx).2
      simp [h2] at this
    · exact skipAdd x hx hk c hc
  · rw [if_neg heq]
    rcases wf_front_look env B hB https k with hBn | ⟨fB, hBs, hkB, hfB⟩
    · rw [hBn]
      apply foldTO_flatMap_skip
      intro x hx c hc
      by_cases hk : x.1 = k
      · exfalso
        have := (mB x.1 x.2).mp (List.mem_filter.mp hx).1
        rw [hk, hBn] at this; cases this
      · exact skipAdd x hx hk c hc
    · have hin : (k, fB) ∈ (frontsOf B https).filter (fun p => !(frontsOf A https).contains p) := by
        refine List.mem_filter.mpr ⟨(mB k fB).mpr hBs, ?_⟩
        simp only [Bool.not_eq_true', List.contains_eq_mem, decide_eq_false_iff_not]
        intro hin
        exact heq (by rw [hBs, (mA k fB).mp hin])
      rw [foldTO_flatMap_one env _ _ _ (k, fB) ndAdd hin ?_, hBs]
      · simp only [foldTO_cons, foldTO_nil, tgtAdd, hkB, if_true, locAdd, addFront, hfB, Bool.and_self]
      · intro x hx hne
        apply skipAdd x hx
        intro hk
        apply hne
        obtain ⟨k', f'⟩ := x; simp at hk; subst hk
        have h1 := (mB k' f').mp (List.mem_filter.mp hx).1
        rw [hBs] at h1; injection h1 with h1; injection h1 with h1; subst h1; rfl

-- ---------------------------------------------------------------- backends --

/-- backend ids are unique inside every cluster (the hypothesis that excludes finding F4) -/
def UniqueBackendIds (s : St) : Prop :=
  ∀ cid l, look s (.backends cid) = some (.backends l) → l.Pairwise (fun x y => x.id ≠ y.id)

def bucketPair : Target × Val → Option (Nat × List Backend)
  | (.backends id, .backends l) => some (id, l)
  | _ => none

theorem bucketsOf_eq (s : St) : bucketsOf s = sortByKey (s.filterMap bucketPair) := by
  unfold bucketsOf
  congr 1

theorem mem_bucketPairs (s : St) (id : Nat) (l : List Backend) :
    (id, l) ∈ s.filterMap bucketPair ↔ (Target.backends id, Val.backends l) ∈ s := by
  simp only [List.mem_filterMap]
  constructor
  · rintro ⟨e, he, h⟩
    obtain ⟨t, v⟩ := e
    cases t <;> cases v <;> simp [bucketPair] at h
    obtain ⟨rfl, rfl⟩ := h; exact he
  · intro h; exact ⟨_, h, rfl⟩

theorem bucketsOf_spec (s : St) (hnd : (s.map (·.1)).Nodup) :
    KeysSorted (fun (x y : Nat) => decide (x < y)) (bucketsOf s) ∧
    ∀ id l, (id, l) ∈ bucketsOf s ↔ look s (.backends id) = some (.backends l) := by
  rw [bucketsOf_eq]
  have hn : ((s.filterMap bucketPair).map (·.1)).Nodup := by
    have h1 : (s.filterMap (fun e => (bucketPair e).map (·.1))).Nodup := by
      apply nodup_filterMap_of_keys s hnd
      intro e e' b h1 h2
      obtain ⟨t, v⟩ := e; obtain ⟨t', v'⟩ := e'
      cases t <;> cases v <;> simp [bucketPair] at h1 <;> cases t' <;> cases v' <;> simp [bucketPair] at h2
      subst h1; subst h2; rfl
    have : (s.filterMap bucketPair).map (·.1) = s.filterMap (fun e => (bucketPair e).map (·.1)) := by
      rw [List.map_filterMap]
    rw [this]; exact h1
  refine ⟨strict_of_sorted_distinct _ (sorted_sortByKey _) (distinct_sortByKey _ hn), ?_⟩
  intro id l
  rw [mem_sortByKey, mem_bucketPairs]
  exact ⟨look_of_mem s hnd _ _, mem_of_look s _ _⟩

/-- inside one cluster `Backend::cmp` orders by id first -/
theorem le_id_of_same_cluster (x y : Backend) (hc : x.cluster = y.cluster) (h : x.le y = true) : x.id ≤ y.id := by
  simp only [Backend.le, Backend.cmp, hc, bne_iff_ne, ne_eq] at h
  rcases nat_cmp_tri y.cluster y.cluster with ⟨h', _⟩ | ⟨_, e⟩ | ⟨h', _⟩
  · omega
  · rw [e] at h
    rcases nat_cmp_tri x.id y.id with ⟨h', _⟩ | ⟨h', _⟩ | ⟨h', e'⟩
    · omega
    · omega
    · rw [e'] at h; simp [Ordering.then] at h
  · omega

theorem wf_bucket (env : Env) (s : St) (hs : WF env s) (cid : Nat) (l : List Backend)
    (h : look s (.backends cid) = some (.backends l)) :
    SortedB l ∧ (∀ b ∈ l, b.cluster = cid ∧ canon b.addr = b.addr) ∧
      l.Pairwise (fun x y => x.id ≠ y.id ∨ x.addr ≠ y.addr) := by
  have := hs.2 _ (mem_of_look s _ _ h)
  simpa only [EntryOK] using this

theorem backendStream_spec (env : Env) (s : St) (hs : WF env s) (hu : UniqueBackendIds s) :
    KeysSorted ltPair (backendStream s) ∧
    ∀ c i b, ((c, i), b) ∈ backendStream s ↔
      ∃ l, look s (.backends c) = some (.backends l) ∧ b ∈ l ∧ b.id = i := by
  have bs := bucketsOf_spec s hs.1
  constructor
  · unfold backendStream KeysSorted
    rw [List.pairwise_flatMap]
    constructor
    · intro p hp
      obtain ⟨c, l⟩ := p
      have hl := (bs.2 c l).mp hp
      have wb := wf_bucket env s hs c l hl
      have hu' := hu c l hl
      rw [List.pairwise_map]
      have := List.Pairwise.and wb.1 hu'
      have hmem : ∀ x ∈ l, x.cluster = c := fun x hx => (wb.2.1 x hx).1
      refine List.Pairwise.imp_of_mem ?_ this
      intro x y hx hy hxy
      have hle := le_id_of_same_cluster x y (by rw [hmem x hx, hmem y hy]) hxy.1
      have hne := hxy.2
      simp only [ltPair, Nat.lt_irrefl, decide_false, beq_self_eq_true, Bool.true_and, Bool.false_or, decide_eq_true_eq]
      omega
    · refine List.Pairwise.imp ?_ bs.1
      intro p q hpq x hx y hy
      obtain ⟨b, _, rfl⟩ := List.mem_map.mp hx
      obtain ⟨b', _, rfl⟩ := List.mem_map.mp hy
      simp only [ltPair, Bool.or_eq_true, decide_eq_true_eq]
      left; simpa using hpq
  · intro c i b
    unfold backendStream
    simp only [List.mem_flatMap, List.mem_map]
    constructor
    · rintro ⟨p, hp, b', hb', e⟩
      obtain ⟨c', l⟩ := p
      injection e with e1 e2; injection e1 with e1 e3
      subst e1; subst e2
      exact ⟨l, (bs.2 _ l).mp hp, hb', e3⟩
    · rintro ⟨l, hl, hb, hi⟩
      exact ⟨(c, l), (bs.2 c l).mpr hl, b, hb, by rw [hi]⟩

/-- the commands `diffBackends` derives from one `diff_map` result -/
def backendCmds (a b : St) (r : (Nat × Nat) × DiffRes) : List Cmd :=
  match r.2 with
  | .added => (findBackend b r.1.1 r.1.2).toList.map Cmd.addBackend
  | .removed => (findBackend a r.1.1 r.1.2).toList.map rmBackendCmd
  | .changed => (findBackend a r.1.1 r.1.2).toList.map rmBackendCmd ++
                (findBackend b r.1.1 r.1.2).toList.map Cmd.addBackend

theorem diffBackends_eq (a b : St) :
    diffBackends a b = (diffMap ltPair (backendStream a) (backendStream b)).flatMap (backendCmds a b) := rfl

theorem find_unique_id (l : List Backend) (x : Backend) (i : Nat) (hu : l.Pairwise (fun x y => x.id ≠ y.id))
    (hx : x ∈ l) (hi : x.id = i) : l.find? (fun b => decide (b.id = i)) = some x := by
  induction l with
  | nil => simp at hx
  | cons y t ih =>
    have hy := List.pairwise_cons.mp hu
    rcases List.mem_cons.mp hx with rfl | hx
    · simp [List.find?_cons, hi]
    · have : ¬ y.id = i := by rw [← hi]; exact hy.1 x hx
      simp only [List.find?_cons, this, decide_false]
      exact ih hy.2 hx

theorem findBackend_of_mem (s : St) (c i : Nat) (l : List Backend) (x : Backend)
    (hl : look s (.backends c) = some (.backends l)) (hu : l.Pairwise (fun x y => x.id ≠ y.id))
    (hx : x ∈ l) (hi : x.id = i) : findBackend s c i = some x := by
  unfold findBackend
  rw [hl]; exact find_unique_id l x i hu hx hi

theorem mem_addBackend (env : Env) (b : Backend) (v : Option Val) (hb : canon b.addr = b.addr) (x : Backend) :
    x ∈ backendsOf (loc env (.addBackend b) v).1 ↔
      x = b ∨ (x ∈ backendsOf v ∧ (x.id ≠ b.id ∨ x.addr ≠ b.addr)) := by
  have hb' : ({ b with addr := canon b.addr } : Backend) = b := by cases b; simp_all
  simp only [loc, hb', backendsOf, mem_sortB, List.mem_append, List.mem_filter, List.mem_singleton, hb,
    decide_eq_true_eq]
  constructor
  · rintro (⟨h1, h2⟩ | h)
    · exact Or.inr ⟨h1, h2⟩
    · exact Or.inl h
  · rintro (h | ⟨h1, h2⟩)
    · exact Or.inr h
    · exact Or.inl ⟨h1, h2⟩

theorem loc_addBackend_ok (env : Env) (b : Backend) (v : Option Val) : (loc env (.addBackend b) v).2 = true := rfl

theorem loc_addBackend_shape (env : Env) (b : Backend) (v : Option Val) :
    ∃ l, (loc env (.addBackend b) v).1 = some (.backends l) := ⟨_, rfl⟩

theorem mem_removeBackend (env : Env) (cid bid addr : Nat) (l : List Backend) (x : Backend) :
    x ∈ backendsOf (loc env (.removeBackend cid bid addr) (some (.backends l))).1 ↔
      x ∈ l ∧ (x.id ≠ bid ∨ x.addr ≠ canon addr) := by
  simp only [loc, backendsOf, mem_sortB, List.mem_filter, decide_eq_true_eq]

theorem ok_removeBackend (env : Env) (cid bid addr : Nat) (l : List Backend) (y : Backend) (hy : y ∈ l)
    (h1 : y.id = bid) (h2 : y.addr = canon addr) :
    (loc env (.removeBackend cid bid addr) (some (.backends l))).2 = true := by
  simp only [loc, length_sortB, ne_eq, decide_eq_true_eq]
  intro hlen
  have := filter_eq_self_of_length _ _ hlen
  have hy' : y ∈ l.filter (fun x => decide (x.id ≠ bid ∨ x.addr ≠ canon addr)) := by rw [this]; exact hy
  have := (List.mem_filter.mp hy').2
  simp [h1, h2] at this

theorem backendsOf_look (s : St) (cid : Nat) (l : List Backend) (h : look s (.backends cid) = some (.backends l)) :
    backendsOf (look s (.backends cid)) = l := by rw [h]; rfl

/-- membership in the flattened stream, in terms of the cluster's list -/
theorem stream_mem_iff (env : Env) (s : St) (hs : WF env s) (hu : UniqueBackendIds s) (c i : Nat) (b : Backend) :
    ((c, i), b) ∈ backendStream s ↔ b ∈ backendsOf (look s (.backends c)) ∧ b.id = i := by
  rw [(backendStream_spec env s hs hu).2]
  constructor
  · rintro ⟨l, hl, hb, hi⟩; rw [backendsOf_look s c l hl]; exact ⟨hb, hi⟩
  · rintro ⟨hb, hi⟩
    cases h : look s (.backends c) with
    | none => rw [h] at hb; simp [backendsOf] at hb
    | some v =>
      have := hs.2 _ (mem_of_look s _ _ h)
      cases v <;> simp only [EntryOK] at this <;> try (exact False.elim this)
      next l => rw [h] at hb; exact ⟨l, rfl, hb, hi⟩

theorem pairwise_sym_mem {α : Type} (R : α → α → Prop) (hsym : ∀ a b, R a b → R b a) (l : List α)
    (hp : l.Pairwise R) (x y : α) (hx : x ∈ l) (hy : y ∈ l) (hne : x ≠ y) : R x y := by
  induction l with
  | nil => simp at hx
  | cons z t ih =>
    have hz := List.pairwise_cons.mp hp
    rcases List.mem_cons.mp hx with hxz | hxt <;> rcases List.mem_cons.mp hy with hyz | hyt
    · exact absurd (hxz.trans hyz.symm) hne
    · rw [hxz]; exact hz.1 y hyt
    · rw [hyz]; exact hsym _ _ (hz.1 x hxt)
    · exact ih hz.2 hxt hyt

theorem unique_in_bucket (env : Env) (s : St) (hs : WF env s) (hu : UniqueBackendIds s) (c : Nat) (x y : Backend)
    (hx : x ∈ backendsOf (look s (.backends c))) (hy : y ∈ backendsOf (look s (.backends c))) (h : x.id = y.id) : x = y := by
  cases hl : look s (.backends c) with
  | none => rw [hl] at hx; simp [backendsOf] at hx
  | some v =>
    have := hs.2 _ (mem_of_look s _ _ hl)
    cases v <;> simp only [EntryOK] at this <;> try (exact False.elim this)
    next l =>
      rw [hl] at hx hy; simp only [backendsOf] at hx hy
      have hp := hu c l hl
      by_cases e : x = y
      · exact e
      · exfalso
        exact pairwise_sym_mem (fun a b : Backend => a.id ≠ b.id) (fun a b h e => h e.symm) l hp x y hx hy e h

def BucketOK (env : Env) (cid : Nat) (v : Option Val) : Prop := ∀ x, v = some x → EntryOK env (.backends cid) x

theorem bucketOK_shape (env : Env) (cid : Nat) (v : Option Val) (h : BucketOK env cid v) :
    v = none ∨ ∃ l, v = some (.backends l) := by
  cases v with
  | none => exact Or.inl rfl
  | some x =>
    have := h x rfl
    cases x <;> simp only [EntryOK] at this <;> try (exact False.elim this)
    exact Or.inr ⟨_, rfl⟩

theorem step_rm (env : Env) (cid : Nat) (v : Option Val) (hv : BucketOK env cid v) (a : Backend)
    (ha : a ∈ backendsOf v) (hc : a.cluster = cid) (hcan : canon a.addr = a.addr) :
    ∃ v1, foldTO env (.backends cid) (v, true) [rmBackendCmd a] = (v1, true) ∧ BucketOK env cid v1 ∧
      ∀ x, x ∈ backendsOf v1 ↔ x ∈ backendsOf v ∧ (x.id ≠ a.id ∨ x.addr ≠ a.addr) := by
  rcases bucketOK_shape env cid v hv with rfl | ⟨l, rfl⟩
  · simp [backendsOf] at ha
  · have ht : tgt (rmBackendCmd a) = some (.backends cid) := by simp [rmBackendCmd, tgt, hc]
    have hok : (loc env (rmBackendCmd a) (some (.backends l))).2 = true :=
      ok_removeBackend env a.cluster a.id a.addr l a ha rfl hcan.symm
    refine ⟨(loc env (rmBackendCmd a) (some (.backends l))).1, ?_, ?_, ?_⟩
    · simp only [foldTO_cons, foldTO_nil, ht, if_true, hok, Bool.and_self]
    · intro x hx
      exact loc_wf env (rmBackendCmd a) (.backends cid) ht (some (.backends l)) hv x hx
    · intro x
      have := mem_removeBackend env a.cluster a.id a.addr l x
      rw [hcan] at this
      exact this

theorem step_add (env : Env) (cid : Nat) (v : Option Val) (hv : BucketOK env cid v) (b : Backend)
    (hc : b.cluster = cid) (hcan : canon b.addr = b.addr) :
    ∃ v1, foldTO env (.backends cid) (v, true) [Cmd.addBackend b] = (v1, true) ∧ BucketOK env cid v1 ∧
      ∀ x, x ∈ backendsOf v1 ↔ x = b ∨ (x ∈ backendsOf v ∧ (x.id ≠ b.id ∨ x.addr ≠ b.addr)) := by
  have ht : tgt (Cmd.addBackend b) = some (.backends cid) := by simp [tgt, hc]
  refine ⟨(loc env (.addBackend b) v).1, ?_, ?_, ?_⟩
  · simp only [foldTO_cons, foldTO_nil, ht, if_true, loc_addBackend_ok, Bool.and_self]
  · intro x hx
    exact loc_wf env (.addBackend b) (.backends cid) ht v hv x hx
  · intro x; exact mem_addBackend env b v hcan x

theorem backends_fold (env : Env) (A B : St) (hA : WF env A) (hB : WF env B)
    (huA : UniqueBackendIds A) (huB : UniqueBackendIds B) (cid : Nat)
    (L : List ((Nat × Nat) × DiffRes)) :
    (∀ r ∈ L, r ∈ diffMap ltPair (backendStream A) (backendStream B)) → (L.map (·.1)).Nodup →
    ∀ (v : Option Val), BucketOK env cid v →
      (∀ x : Backend, x ∈ backendsOf v ↔
        (if (cid, x.id) ∈ L.map (·.1) then x ∈ backendsOf (look A (.backends cid))
         else x ∈ backendsOf (look B (.backends cid)))) →
      ∃ v', foldTO env (.backends cid) (v, true) (L.flatMap (backendCmds A B)) = (v', true) ∧
        BucketOK env cid v' ∧ ∀ x, x ∈ backendsOf v' ↔ x ∈ backendsOf (look B (.backends cid)) := by
  have sA := backendStream_spec env A hA huA
  have sB := backendStream_spec env B hB huB
  have spec := fun k r => mem_diffMapAux ltPair strictTotal_ltPair _ (backendStream A) (backendStream B)
    (Nat.le_refl _) sA.1 sB.1 k r
  have smA := stream_mem_iff env A hA huA
  have smB := stream_mem_iff env B hB huB
  -- facts about members of a cluster's list
  have okA : ∀ c (x : Backend), x ∈ backendsOf (look A (.backends c)) → x.cluster = c ∧ canon x.addr = x.addr := by
    intro c x hx
    cases hl : look A (.backends c) with
    | none => rw [hl] at hx; simp [backendsOf] at hx
    | some v =>
      have := hA.2 _ (mem_of_look A _ _ hl)
      cases v <;> simp only [EntryOK] at this <;> try (exact False.elim this)
      rw [hl] at hx; exact this.2.1 x hx
  have okB : ∀ c (x : Backend), x ∈ backendsOf (look B (.backends c)) → x.cluster = c ∧ canon x.addr = x.addr := by
    intro c x hx
    cases hl : look B (.backends c) with
    | none => rw [hl] at hx; simp [backendsOf] at hx
    | some v =>
      have := hB.2 _ (mem_of_look B _ _ hl)
      cases v <;> simp only [EntryOK] at this <;> try (exact False.elim this)
      rw [hl] at hx; exact this.2.1 x hx
  have fbA : ∀ c i (x : Backend), x ∈ backendsOf (look A (.backends c)) → x.id = i → findBackend A c i = some x := by
    intro c i x hx hi
    cases hl : look A (.backends c) with
    | none => rw [hl] at hx; simp [backendsOf] at hx
    | some v =>
      have := hA.2 _ (mem_of_look A _ _ hl)
      cases v <;> simp only [EntryOK] at this <;> try (exact False.elim this)
      next l => rw [hl] at hx; exact findBackend_of_mem A c i l x hl (huA c l hl) hx hi
  have fbB : ∀ c i (x : Backend), x ∈ backendsOf (look B (.backends c)) → x.id = i → findBackend B c i = some x := by
    intro c i x hx hi
    cases hl : look B (.backends c) with
    | none => rw [hl] at hx; simp [backendsOf] at hx
    | some v =>
      have := hB.2 _ (mem_of_look B _ _ hl)
      cases v <;> simp only [EntryOK] at this <;> try (exact False.elim this)
      next l => rw [hl] at hx; exact findBackend_of_mem B c i l x hl (huB c l hl) hx hi
  induction L with
  | nil =>
    intro _ _ v hv hinv
    exact ⟨v, rfl, hv, fun x => by simpa using hinv x⟩
  | cons r L ih =>
    intro hsub hnd v hv hinv
    have hnd' : r.1 ∉ L.map (·.1) ∧ (L.map (·.1)).Nodup := List.nodup_cons.mp hnd
    have hsub' : ∀ r' ∈ L, r' ∈ diffMap ltPair (backendStream A) (backendStream B) :=
      fun r' h => hsub r' (by simp [h])
    obtain ⟨⟨c, i⟩, res⟩ := r
    have hr := (spec (c, i) res).mp (hsub _ (by simp))
    simp only [List.flatMap_cons, foldTO_append]
    by_cases hc : c = cid
    · subst hc
      -- the step lemma: after the block, ids ≠ i are untouched and id i holds B's backend
      suffices hstep : ∃ v1, foldTO env (.backends c) (v, true) (backendCmds A B ((c, i), res)) = (v1, true) ∧
          BucketOK env c v1 ∧
          (∀ x : Backend, x.id ≠ i → (x ∈ backendsOf v1 ↔ x ∈ backendsOf v)) ∧
          (∀ x : Backend, x.id = i → (x ∈ backendsOf v1 ↔ x ∈ backendsOf (look B (.backends c)))) by
        obtain ⟨v1, h1, hv1, hother, hsame⟩ := hstep
        rw [h1]
        apply ih hsub' hnd'.2 v1 hv1
        intro x
        by_cases hxi : x.id = i
        · have : (c, x.id) ∉ L.map (·.1) := by rw [hxi]; exact hnd'.1
          rw [if_neg this]; exact hsame x hxi
        · have hk : ((c, x.id) ∈ (((c, i), res) :: L).map (·.1)) ↔ ((c, x.id) ∈ L.map (·.1)) := by
            simp only [List.map_cons, List.mem_cons, Prod.mk.injEq, true_and, hxi, false_or]
          rw [hother x hxi, hinv x]
          by_cases hm : (c, x.id) ∈ L.map (·.1)
          · rw [if_pos (hk.mpr hm), if_pos hm]
          · rw [if_neg (fun h => hm (hk.mp h)), if_neg hm]
      -- members with id i currently are A's
      have hcur : ∀ x : Backend, x.id = i → (x ∈ backendsOf v ↔ x ∈ backendsOf (look A (.backends c))) := by
        intro x hxi
        rw [hinv x, if_pos (by simp [hxi])]
      rcases hr with ⟨hres, ⟨a, ha⟩, hnb⟩ | ⟨hres, ⟨b, hb⟩, hna⟩ | ⟨hres, a, b, ha, hb, hab⟩
      · -- Removed
        subst hres
        have haA := (smA c i a).mp ha
        have hcmds : backendCmds A B ((c, i), .removed) = [rmBackendCmd a] := by
          simp [backendCmds, fbA c i a haA.1 haA.2]
        obtain ⟨v1, h1, hv1, hm1⟩ := step_rm env c v hv a ((hcur a haA.2).mpr haA.1) (okA c a haA.1).1 (okA c a haA.1).2
        refine ⟨v1, by rw [hcmds]; exact h1, hv1, ?_, ?_⟩
        · intro x hxi; rw [hm1 x]
          exact ⟨fun h => h.1, fun h => ⟨h, Or.inl (by rw [haA.2]; exact hxi)⟩⟩
        · intro x hxi
          rw [hm1 x]
          constructor
          · rintro ⟨hx, hne⟩
            have hxA := (hcur x hxi).mp hx
            have := unique_in_bucket env A hA huA c x a hxA haA.1 (by rw [hxi, haA.2])
            subst this
            rcases hne with h | h <;> exact absurd rfl h
          · intro hxB
            exact absurd ((smB c i x).mpr ⟨hxB, hxi⟩) (hnb x)
      · -- Added
        subst hres
        have hbB := (smB c i b).mp hb
        have hcmds : backendCmds A B ((c, i), .added) = [Cmd.addBackend b] := by
          simp [backendCmds, fbB c i b hbB.1 hbB.2]
        obtain ⟨v1, h1, hv1, hm1⟩ := step_add env c v hv b (okB c b hbB.1).1 (okB c b hbB.1).2
        refine ⟨v1, by rw [hcmds]; exact h1, hv1, ?_, ?_⟩
        · intro x hxi; rw [hm1 x]
          constructor
          · rintro (h | h)
            · exact absurd (by rw [h]; exact hbB.2) hxi
            · exact h.1
          · intro h; exact Or.inr ⟨h, Or.inl (by rw [hbB.2]; exact hxi)⟩
        · intro x hxi
          rw [hm1 x]
          constructor
          · rintro (h | ⟨hx, _⟩)
            · rw [h]; exact hbB.1
            · exact absurd ((smA c i x).mpr ⟨(hcur x hxi).mp hx, hxi⟩) (hna x)
          · intro hxB
            exact Or.inl (unique_in_bucket env B hB huB c x b hxB hbB.1 (by rw [hxi, hbB.2]))
      · -- Changed
        subst hres
        have haA := (smA c i a).mp ha
        have hbB := (smB c i b).mp hb
        have hcmds : backendCmds A B ((c, i), .changed) = [rmBackendCmd a] ++ [Cmd.addBackend b] := by
          simp [backendCmds, fbA c i a haA.1 haA.2, fbB c i b hbB.1 hbB.2]
        obtain ⟨v1, h1, hv1, hm1⟩ := step_rm env c v hv a ((hcur a haA.2).mpr haA.1) (okA c a haA.1).1 (okA c a haA.1).2
        obtain ⟨v2, h2, hv2, hm2⟩ := step_add env c v1 hv1 b (okB c b hbB.1).1 (okB c b hbB.1).2
        refine ⟨v2, by rw [hcmds, foldTO_append, h1]; exact h2, hv2, ?_, ?_⟩
        · intro x hxi; rw [hm2 x, hm1 x]
          constructor
          · rintro (h | h)
            · exact absurd (by rw [h]; exact hbB.2) hxi
            · exact h.1.1
          · intro h
            exact Or.inr ⟨⟨h, Or.inl (by rw [haA.2]; exact hxi)⟩, Or.inl (by rw [hbB.2]; exact hxi)⟩
        · intro x hxi
          rw [hm2 x, hm1 x]
          constructor
          · rintro (h | ⟨⟨hx, hne⟩, _⟩)
            · rw [h]; exact hbB.1
            · exfalso
              have hxA := (hcur x hxi).mp hx
              have := unique_in_bucket env A hA huA c x a hxA haA.1 (by rw [hxi, haA.2])
              subst this
              rcases hne with h | h <;> exact absurd rfl h
          · intro hxB
            exact Or.inl (unique_in_bucket env B hB huB c x b hxB hbB.1 (by rw [hxi, hbB.2]))
    · -- another cluster: the block does not address this entry
      have hskip : ∀ cmd ∈ backendCmds A B ((c, i), res), tgt cmd ≠ some (.backends cid) := by
        intro cmd hcmd
        have fA : ∀ x, findBackend A c i = some x → x.cluster = c := by
          intro x hx
          have := List.mem_of_find?_eq_some hx
          exact (okA c x this).1
        have fB : ∀ x, findBackend B c i = some x → x.cluster = c := by
          intro x hx
          have := List.mem_of_find?_eq_some hx
          exact (okB c x this).1
        simp only [backendCmds] at hcmd
        cases res <;> simp only [List.mem_append, List.mem_map, Option.mem_toList] at hcmd
        · obtain ⟨x, hx, rfl⟩ := hcmd; simp [tgt, fB x hx, hc]
        · obtain ⟨x, hx, rfl⟩ := hcmd; simp [tgt, rmBackendCmd, fA x hx, hc]
        · rcases hcmd with ⟨x, hx, rfl⟩ | ⟨x, hx, rfl⟩
          · simp [tgt, rmBackendCmd, fA x hx, hc]
          · simp [tgt, fB x hx, hc]
      rw [foldTO_skip env _ _ _ hskip]
      apply ih hsub' hnd'.2 v hv
      intro x
      rw [hinv x]
      have hk : ((cid, x.id) ∈ (((c, i), res) :: L).map (·.1)) ↔ ((cid, x.id) ∈ L.map (·.1)) := by
        have : ¬ (cid = c) := fun e => hc e.symm
        simp only [List.map_cons, List.mem_cons, Prod.mk.injEq, this, false_and, false_or]
      by_cases hm : (cid, x.id) ∈ L.map (·.1)
      · rw [if_pos (hk.mpr hm), if_pos hm]
      · rw [if_neg (fun h => hm (hk.mp h)), if_neg hm]

theorem then_eq_eq (o1 o2 : Ordering) : o1.then o2 = .eq ↔ o1 = .eq ∧ o2 = .eq := by
  cases o1 <;> cases o2 <;> simp [Ordering.then]

theorem nat_cmp_eq (a b : Nat) (h : compare a b = .eq) : a = b := by
  rcases nat_cmp_tri a b with ⟨_, e⟩ | ⟨e, _⟩ | ⟨_, e⟩
  · rw [e] at h; cases h
  · exact e
  · rw [e] at h; cases h

theorem int_cmp_eq (a b : Int) (h : compare a b = .eq) : a = b := by
  rcases int_cmp_tri a b with ⟨_, e⟩ | ⟨e, _⟩ | ⟨_, e⟩
  · rw [e] at h; cases h
  · exact e
  · rw [e] at h; cases h

theorem cmpOpt_eq {α : Type} (c : α → α → Ordering) (hc : ∀ a b, c a b = .eq → a = b) (a b : Option α)
    (h : cmpOpt c a b = .eq) : a = b := by
  cases a <;> cases b <;> simp [cmpOpt] at h ⊢
  exact hc _ _ h

theorem cmpBool_eq (a b : Bool) (h : cmpBool a b = .eq) : a = b := by
  cases a <;> cases b <;> simp [cmpBool] at h ⊢

theorem Backend.eq_of_cmp_eq (a b : Backend) (h : a.cmp b = .eq) : a = b := by
  unfold Backend.cmp at h
  simp only [then_eq_eq] at h
  obtain ⟨h1, h2, h3, h4, h5, h6⟩ := h
  have e1 := nat_cmp_eq _ _ h1
  have e2 := nat_cmp_eq _ _ h2
  have e3 := cmpOpt_eq _ (fun x y => nat_cmp_eq x y) _ _ h3
  have e4 := cmpOpt_eq _ (fun x y => int_cmp_eq x y) _ _ h4
  have e5 := cmpOpt_eq _ cmpBool_eq _ _ h5
  have e6 := nat_cmp_eq _ _ h6
  cases a; cases b; simp_all

theorem Backend.le_antisymm (a b : Backend) (h1 : a.le b = true) (h2 : b.le a = true) : a = b := by
  apply Backend.eq_of_cmp_eq
  simp only [Backend.le, bne_iff_ne, ne_eq] at h1 h2
  rw [lin_backend.swap a b] at h2
  cases h : a.cmp b with
  | eq => rfl
  | lt => rw [h] at h2; exact absurd rfl h2
  | gt => exact absurd h h1

theorem nodup_of_distinct (l : List Backend) (h : l.Pairwise (fun x y => x.id ≠ y.id ∨ x.addr ≠ y.addr)) : l.Nodup := by
  refine List.Pairwise.imp ?_ h
  intro a b hab e
  subst e
  rcases hab with h | h <;> exact h rfl

/-- two well-formed backend lists with the same members are equal -/
theorem bucket_ext (l l' : List Backend) (hs : SortedB l) (hs' : SortedB l')
    (hd : l.Pairwise (fun x y => x.id ≠ y.id ∨ x.addr ≠ y.addr))
    (hd' : l'.Pairwise (fun x y => x.id ≠ y.id ∨ x.addr ≠ y.addr))
    (hm : ∀ x, x ∈ l ↔ x ∈ l') : l = l' := by
  have hp : l.Perm l' := (List.perm_ext_iff_of_nodup (nodup_of_distinct l hd) (nodup_of_distinct l' hd')).mpr hm
  have h1 : l.Pairwise (fun a b : Backend => a.le b = true) := hs
  have h2 : l'.Pairwise (fun a b : Backend => a.le b = true) := hs'
  exact List.Perm.eq_of_pairwise (le := fun a b : Backend => a.le b = true)
    (fun a b _ _ h1 h2 => Backend.le_antisymm a b h1 h2) h1 h2 hp

theorem nodup_keys_of_sorted {κ ν : Type} (lt : κ → κ → Bool) (h : StrictTotal lt) (l : List (κ × ν))
    (hs : KeysSorted lt l) : (l.map (·.1)).Nodup := by
  have : (l.map (·.1)).Pairwise (fun a b => lt a b = true) := by
    rw [List.pairwise_map]; exact hs
  refine List.Pairwise.imp ?_ this
  intro a b hab e
  rw [e, h.irrefl] at hab; cases hab

/-- backends: under unique ids, `diffBackends A B` replayed on `A`'s list is accepted and yields `B`'s list -/
theorem backends_O (env : Env) (A B : St) (hA : WF env A) (hB : WF env B)
    (huA : UniqueBackendIds A) (huB : UniqueBackendIds B) (cid : Nat) :
    ∃ v', foldTO env (.backends cid) (look A (.backends cid), true) (diffBackends A B) = (v', true) ∧
      norm v' = norm (look B (.backends cid)) := by
  have sA := backendStream_spec env A hA huA
  have sB := backendStream_spec env B hB huB
  have spec := fun k r => mem_diffMapAux ltPair strictTotal_ltPair _ (backendStream A) (backendStream B)
    (Nat.le_refl _) sA.1 sB.1 k r
  have smA := stream_mem_iff env A hA huA
  have smB := stream_mem_iff env B hB huB
  have hDs := diffMapAux_sorted ltPair strictTotal_ltPair _ (backendStream A) (backendStream B) (Nat.le_refl _) sA.1 sB.1
  have hnd := nodup_keys_of_sorted ltPair strictTotal_ltPair _ hDs
  have hvA : BucketOK env cid (look A (.backends cid)) := fun x hx => hA.2 _ (mem_of_look A _ _ hx)
  have hvB : BucketOK env cid (look B (.backends cid)) := fun x hx => hB.2 _ (mem_of_look B _ _ hx)
  -- keys without a result carry the same backend on both sides
  have hinit : ∀ x : Backend, x ∈ backendsOf (look A (.backends cid)) ↔
      (if (cid, x.id) ∈ (diffMap ltPair (backendStream A) (backendStream B)).map (·.1)
       then x ∈ backendsOf (look A (.backends cid)) else x ∈ backendsOf (look B (.backends cid))) := by
    intro x
    by_cases hk : (cid, x.id) ∈ (diffMap ltPair (backendStream A) (backendStream B)).map (·.1)
    · rw [if_pos hk]
    · rw [if_neg hk]
      have hno : ∀ r, ((cid, x.id), r) ∉ diffMap ltPair (backendStream A) (backendStream B) :=
        fun r hr => hk (List.mem_map.mpr ⟨_, hr, rfl⟩)
      constructor
      · intro hxA
        have hsx := (smA cid x.id x).mpr ⟨hxA, rfl⟩
        have hex : ∃ y, ((cid, x.id), y) ∈ backendStream B := by
          apply Classical.byContradiction
          intro hne
          exact hno .removed ((spec _ _).mpr (Or.inl ⟨rfl, ⟨x, hsx⟩, fun y hy => hne ⟨y, hy⟩⟩))
        obtain ⟨y, hy⟩ := hex
        by_cases e : x = y
        · rw [e]; exact ((smB cid x.id y).mp hy).1
        · exact absurd ((spec _ _).mpr (Or.inr (Or.inr ⟨rfl, x, y, hsx, hy, e⟩))) (hno .changed)
      · intro hxB
        have hsx := (smB cid x.id x).mpr ⟨hxB, rfl⟩
        have hex : ∃ y, ((cid, x.id), y) ∈ backendStream A := by
          apply Classical.byContradiction
          intro hne
          exact hno .added ((spec _ _).mpr (Or.inr (Or.inl ⟨rfl, ⟨x, hsx⟩, fun y hy => hne ⟨y, hy⟩⟩)))
        obtain ⟨y, hy⟩ := hex
        by_cases e : y = x
        · rw [← e]; exact ((smA cid x.id y).mp hy).1
        · exact absurd ((spec _ _).mpr (Or.inr (Or.inr ⟨rfl, y, x, hy, hsx, e⟩))) (hno .changed)
  rw [diffBackends_eq]
  obtain ⟨v', h1, hv', hm⟩ := backends_fold env A B hA hB huA huB cid _ (fun r h => h) hnd _ hvA hinit
  refine ⟨v', h1, ?_⟩
  -- same members, both well-formed: equal up to an empty list
  have hlists : backendsOf v' = backendsOf (look B (.backends cid)) := by
    rcases bucketOK_shape env cid v' hv' with e1 | ⟨l1, e1⟩ <;>
    rcases bucketOK_shape env cid _ hvB with e2 | ⟨l2, e2⟩
    · rw [e1, e2]
    · rw [e1, e2]; simp only [backendsOf]
      have := hm; rw [e1, e2] at this; simp only [backendsOf] at this
      cases l2 with
      | nil => rfl
      | cons y t => exact absurd ((this y).mpr (by simp)) (by simp)
    · rw [e1, e2]; simp only [backendsOf]
      have := hm; rw [e1, e2] at this; simp only [backendsOf] at this
      cases l1 with
      | nil => rfl
      | cons y t => exact absurd ((this y).mp (by simp)) (by simp)
    · rw [e1, e2]; simp only [backendsOf]
      have w1 := hv' _ e1; have w2 := hvB _ e2
      simp only [EntryOK] at w1 w2
      have := hm; rw [e1, e2] at this; simp only [backendsOf] at this
      exact bucket_ext l1 l2 w1.1 w2.1 w1.2.2 w2.2.2 this
  rcases bucketOK_shape env cid v' hv' with e1 | ⟨l1, e1⟩ <;>
  rcases bucketOK_shape env cid _ hvB with e2 | ⟨l2, e2⟩ <;>
  rw [e1, e2] at hlists ⊢ <;> simp only [backendsOf] at hlists
  · subst hlists; rfl
  · subst hlists; rfl
  · subst hlists; rfl

-- ----------------------------------------------------------- tcp/udp fronts --

/-- inside a cluster no two tcp (udp) fronts share an address (the hypothesis that excludes the
    finding `diff-front-address-shared`) -/
def UniqueFrontAddr (s : St) : Prop :=
  ∀ t l, look s t = some (.tfs l) → l.Pairwise (fun x y => x.addr ≠ y.addr)

def frontBT (udp : Bool) (cid : Nat) : Target := if udp then .udpF cid else .tcpF cid

theorem eraseDups_of_nodup {α : Type} [BEq α] [LawfulBEq α] (l : List α) (h : l.Nodup) : l.eraseDups = l := by
  induction l with
  | nil => rfl
  | cons a t ih =>
    have ha := List.nodup_cons.mp h
    rw [List.eraseDups_cons]
    have : t.filter (fun b => !(b == a)) = t := by
      apply List.filter_eq_self.mpr
      intro b hb
      simp only [Bool.not_eq_true', beq_eq_false_iff_ne, ne_eq]
      intro e; subst e; exact ha.1 hb
    rw [this, ih ha.2]

theorem wf_tfs (env : Env) (s : St) (hs : WF env s) (udp : Bool) (cid : Nat) (l : List TcpFront)
    (h : look s (frontBT udp cid) = some (.tfs l)) :
    (∀ f ∈ l, f.cluster = cid ∧ canon f.addr = f.addr) ∧ l.Nodup := by
  have := hs.2 _ (mem_of_look s _ _ h)
  cases udp <;> simpa only [frontBT, EntryOK, if_true, if_false, Bool.false_eq_true] using this

theorem tfs_shape (env : Env) (s : St) (hs : WF env s) (udp : Bool) (cid : Nat) :
    look s (frontBT udp cid) = none ∨ ∃ l, look s (frontBT udp cid) = some (.tfs l) := by
  cases h : look s (frontBT udp cid) with
  | none => exact Or.inl rfl
  | some v =>
    have := hs.2 _ (mem_of_look s _ _ h)
    cases udp <;> cases v <;> simp only [frontBT, EntryOK, if_true, if_false, Bool.false_eq_true] at this <;>
      first | exact False.elim this | exact Or.inr ⟨_, rfl⟩

def tfEntry (udp : Bool) : Target × Val → List (Nat × TcpFront)
  | (.tcpF cid, .tfs l) => if udp then [] else l.map fun f => (cid, f)
  | (.udpF cid, .tfs l) => if udp then l.map fun f => (cid, f) else []
  | _ => []

theorem tcpFrontsOf_eq (s : St) (udp : Bool) : tcpFrontsOf s udp = s.flatMap (tfEntry udp) := rfl

theorem tfEntry_spec (udp : Bool) (t : Target) (v : Val) (x : Nat × TcpFront) :
    x ∈ tfEntry udp (t, v) ↔ ∃ l, t = frontBT udp x.1 ∧ v = .tfs l ∧ x.2 ∈ l := by
  obtain ⟨c, f⟩ := x
  cases t <;> cases v <;> cases udp <;> simp [tfEntry, frontBT]
  all_goals exact And.comm

theorem mem_tcpFrontsOf (env : Env) (s : St) (hs : WF env s) (udp : Bool) (c : Nat) (f : TcpFront) :
    (c, f) ∈ tcpFrontsOf s udp ↔ f ∈ tfsOf (look s (frontBT udp c)) := by
  rw [tcpFrontsOf_eq]
  simp only [List.mem_flatMap]
  constructor
  · rintro ⟨e, he, h⟩
    obtain ⟨t, v⟩ := e
    obtain ⟨l, ht, hv, hf⟩ := (tfEntry_spec udp t v (c, f)).mp h
    subst ht; subst hv
    rw [look_of_mem s hs.1 _ _ he]; exact hf
  · intro h
    rcases tfs_shape env s hs udp c with hn | ⟨l, hl⟩
    · rw [hn] at h; simp [tfsOf] at h
    · rw [hl] at h; simp only [tfsOf] at h
      exact ⟨_, mem_of_look s _ _ hl, (tfEntry_spec udp _ _ (c, f)).mpr ⟨l, rfl, rfl, h⟩⟩

theorem nodup_tcpFrontsOf (env : Env) (s : St) (hs : WF env s) (udp : Bool) : (tcpFrontsOf s udp).Nodup := by
  rw [tcpFrontsOf_eq]
  unfold List.Nodup
  rw [List.pairwise_flatMap]
  constructor
  · intro e he
    obtain ⟨t, v⟩ := e
    -- inside one entry: the list itself is duplicate-free
    have : ∀ x ∈ tfEntry udp (t, v), ∀ y ∈ tfEntry udp (t, v), True := fun _ _ _ _ => trivial
    cases t <;> cases v <;> simp only [tfEntry] <;> try exact List.Pairwise.nil
    all_goals
      have hok := hs.2 _ he
      simp only [EntryOK] at hok
      split
      · first | exact List.Pairwise.nil | (rw [List.pairwise_map]; exact List.Pairwise.imp (fun h e => h (by injection e)) hok.2)
      · first | exact List.Pairwise.nil | (rw [List.pairwise_map]; exact List.Pairwise.imp (fun h e => h (by injection e)) hok.2)
  · have hk : s.Pairwise (fun a b => a.1 ≠ b.1) := by
      have := hs.1
      unfold List.Nodup at this
      rw [List.pairwise_map] at this
      exact this
    refine List.Pairwise.imp ?_ hk
    intro e e' hne x hx y hy exy
    obtain ⟨t, v⟩ := e; obtain ⟨t', v'⟩ := e'
    subst exy
    obtain ⟨l, ht, _, _⟩ := (tfEntry_spec udp t v x).mp hx
    obtain ⟨l', ht', _, _⟩ := (tfEntry_spec udp t' v' x).mp hy
    exact hne (by simp [ht, ht'])

def tfRm (udp : Bool) (f : TcpFront) : Cmd := if udp then .removeUdpF f else .removeTcpF f
def tfAdd (udp : Bool) (f : TcpFront) : Cmd := if udp then .addUdpF f else .addTcpF f

theorem tgt_tfRm (udp : Bool) (f : TcpFront) : tgt (tfRm udp f) = some (frontBT udp f.cluster) := by cases udp <;> rfl
theorem tgt_tfAdd (udp : Bool) (f : TcpFront) : tgt (tfAdd udp f) = some (frontBT udp f.cluster) := by cases udp <;> rfl
theorem loc_tfRm (env : Env) (udp : Bool) (f : TcpFront) (v : Option Val) : loc env (tfRm udp f) v = removeTcpFront f v := by
  cases udp <;> rfl
theorem loc_tfAdd (env : Env) (udp : Bool) (f : TcpFront) (v : Option Val) : loc env (tfAdd udp f) v = addTcpFront f v := by
  cases udp <;> rfl
theorem frontBT_inj (udp : Bool) (a b : Nat) (h : frontBT udp a = frontBT udp b) : a = b := by
  cases udp <;> simpa [frontBT] using h

theorem diffTcpFronts_eq (a b : St) (udp : Bool) :
    diffTcpFronts a b udp =
      (((tcpFrontsOf a udp).eraseDups).filter (fun p => !((tcpFrontsOf b udp).eraseDups).contains p)).flatMap
        (fun p => [tfRm udp p.2]) ++
      (((tcpFrontsOf b udp).eraseDups).filter (fun p => !((tcpFrontsOf a udp).eraseDups).contains p)).flatMap
        (fun p => [tfAdd udp p.2]) := by
  have hm : ∀ {α : Type} (f : α → Cmd) (l : List α), l.flatMap (fun p => [f p]) = l.map f := by
    intro α f l; induction l with
    | nil => rfl
    | cons x t ih => simp [List.flatMap_cons, ih]
  cases udp <;> simp [diffTcpFronts, tfRm, tfAdd, hm]

theorem tf_removed_fold (env : Env) (udp : Bool) (cid : Nat) (L : List (Nat × TcpFront)) :
    L.Nodup → (∀ p ∈ L, p.2.cluster = p.1 ∧ canon p.2.addr = p.2.addr) →
    ∀ (cur : List TcpFront), cur.Nodup → cur.Pairwise (fun x y => x.addr ≠ y.addr) →
      (∀ p ∈ L, p.1 = cid → p.2 ∈ cur) →
      ∀ v, (v = none ∧ cur = []) ∨ v = some (.tfs cur) →
      ∃ v', foldTO env (frontBT udp cid) (v, true) (L.flatMap (fun p => [tfRm udp p.2])) = (v', true) ∧
        tfsOf v' = cur.filter (fun f => !L.contains (cid, f)) ∧ (v' = none ∨ ∃ l, v' = some (.tfs l)) := by
  induction L with
  | nil =>
    intro _ _ cur _ _ _ v hv
    refine ⟨v, rfl, ?_, ?_⟩
    · have : cur.filter (fun f => !([] : List (Nat × TcpFront)).contains (cid, f)) = cur :=
        List.filter_eq_self.mpr (by simp)
      rw [this]
      rcases hv with ⟨rfl, rfl⟩ | rfl <;> rfl
    · rcases hv with ⟨rfl, _⟩ | rfl
      · exact Or.inl rfl
      · exact Or.inr ⟨_, rfl⟩
  | cons p L ih =>
    intro hnd hok cur hcn hcu hin v hv
    obtain ⟨c, f⟩ := p
    have hnd' := List.nodup_cons.mp hnd
    have hokp := hok (c, f) (by simp)
    simp only at hokp
    simp only [List.flatMap_cons, foldTO_append]
    by_cases hc : c = cid
    · subst hc
      have hf : f ∈ cur := hin (c, f) (by simp) rfl
      have hv' : v = some (.tfs cur) := by
        rcases hv with ⟨_, e⟩ | e
        · rw [e] at hf; simp at hf
        · exact e
      subst hv'
      -- removing by address removes exactly `f`
      have hfilt : cur.filter (fun x => decide (x.addr ≠ canon f.addr)) = cur.filter (fun x => decide (x ≠ f)) := by
        apply List.filter_congr
        intro x hx
        rw [hokp.2]
        by_cases e : x = f
        · subst e; simp
        · have := pairwise_sym_mem (fun a b : TcpFront => a.addr ≠ b.addr) (fun a b h e => h e.symm) cur hcu x f hx hf e
          simp [e, this]
      have hlen : (cur.filter (fun x => decide (x ≠ f))).length ≠ cur.length := by
        intro hl
        have := filter_eq_self_of_length _ _ hl
        have hf' : f ∈ cur.filter (fun x => decide (x ≠ f)) := by rw [this]; exact hf
        simpa using (List.mem_filter.mp hf').2
      have ht : tgt (tfRm udp f) = some (frontBT udp c) := by rw [tgt_tfRm, hokp.1]
      have hstep : foldTO env (frontBT udp c) (some (.tfs cur), true) [tfRm udp f] =
          (some (.tfs (cur.filter (fun x => decide (x ≠ f)))), true) := by
        simp only [foldTO_cons, foldTO_nil, ht, if_true, loc_tfRm, removeTcpFront, hfilt, Bool.true_and]
        have : decide ((cur.filter (fun x => decide (x ≠ f))).length ≠ cur.length) = true := by simpa using hlen
        rw [this]
      rw [hstep]
      obtain ⟨v', h1, h2, h3⟩ := ih hnd'.2 (fun q hq => hok q (by simp [hq])) (cur.filter (fun x => decide (x ≠ f)))
        (List.Nodup.sublist List.filter_sublist hcn) (List.Pairwise.sublist List.filter_sublist hcu)
        (by
          intro q hq hqc
          refine List.mem_filter.mpr ⟨hin q (by simp [hq]) hqc, ?_⟩
          simp only [ne_eq, decide_eq_true_eq]
          intro e
          apply hnd'.1
          obtain ⟨qc, qf⟩ := q
          simp only at hqc e; subst hqc; subst e; exact hq)
        _ (Or.inr rfl)
      refine ⟨v', h1, ?_, h3⟩
      rw [h2, List.filter_filter]
      apply List.filter_congr
      intro x _
      simp only [List.contains_eq_mem, List.mem_cons, Prod.mk.injEq, true_and, ne_eq]
      by_cases e : x = f <;> simp [e]
    · have hskip : ∀ cmd ∈ [tfRm udp f], tgt cmd ≠ some (frontBT udp cid) := by
        intro cmd hcmd; simp at hcmd; subst hcmd
        rw [tgt_tfRm, hokp.1]
        intro h; injection h with h; exact hc (frontBT_inj udp _ _ h)
      rw [foldTO_skip env _ _ _ hskip]
      obtain ⟨v', h1, h2, h3⟩ := ih hnd'.2 (fun q hq => hok q (by simp [hq])) cur hcn hcu
        (fun q hq => hin q (by simp [hq])) v hv
      refine ⟨v', h1, ?_, h3⟩
      rw [h2]
      apply List.filter_congr
      intro x _
      have : ¬ (cid = c) := fun e => hc e.symm
      simp [this]

theorem tf_added_fold (env : Env) (udp : Bool) (cid : Nat) (L : List (Nat × TcpFront)) :
    L.Nodup → (∀ p ∈ L, p.2.cluster = p.1 ∧ canon p.2.addr = p.2.addr) →
    ∀ (v : Option Val), (v = none ∨ ∃ l, v = some (.tfs l)) → (∀ p ∈ L, p.1 = cid → p.2 ∉ tfsOf v) →
      ∃ v', foldTO env (frontBT udp cid) (v, true) (L.flatMap (fun p => [tfAdd udp p.2])) = (v', true) ∧
        tfsOf v' = tfsOf v ++ (L.filter (fun p => decide (p.1 = cid))).map (·.2) ∧ (v' = none ∨ ∃ l, v' = some (.tfs l)) := by
  induction L with
  | nil => intro _ _ v hv _; exact ⟨v, rfl, by simp, hv⟩
  | cons p L ih =>
    intro hnd hok v hv hnot
    obtain ⟨c, f⟩ := p
    have hnd' := List.nodup_cons.mp hnd
    have hokp := hok (c, f) (by simp)
    simp only at hokp
    simp only [List.flatMap_cons, foldTO_append]
    by_cases hc : c = cid
    · subst hc
      have hf : f ∉ tfsOf v := hnot (c, f) (by simp) rfl
      have hfr : ({ f with addr := canon f.addr } : TcpFront) = f := by
        have := hokp.2; cases f; simp_all
      have ht : tgt (tfAdd udp f) = some (frontBT udp c) := by rw [tgt_tfAdd, hokp.1]
      have hstep : foldTO env (frontBT udp c) (v, true) [tfAdd udp f] = (some (.tfs (tfsOf v ++ [f])), true) := by
        simp only [foldTO_cons, foldTO_nil, ht, if_true, loc_tfAdd]
        unfold addTcpFront
        rw [hfr]
        simp [hf]
      rw [hstep]
      obtain ⟨v', h1, h2, h3⟩ := ih hnd'.2 (fun q hq => hok q (by simp [hq])) (some (.tfs (tfsOf v ++ [f])))
        (Or.inr ⟨_, rfl⟩)
        (by
          intro q hq hqc
          simp only [tfsOf, List.mem_append, List.mem_singleton, not_or]
          refine ⟨hnot q (by simp [hq]) hqc, ?_⟩
          intro e
          apply hnd'.1
          obtain ⟨qc, qf⟩ := q
          simp only at hqc e; subst hqc; subst e; exact hq)
      refine ⟨v', h1, ?_, h3⟩
      rw [h2]; simp [tfsOf, List.filter_cons]
    · have hskip : ∀ cmd ∈ [tfAdd udp f], tgt cmd ≠ some (frontBT udp cid) := by
        intro cmd hcmd; simp at hcmd; subst hcmd
        rw [tgt_tfAdd, hokp.1]
        intro h; injection h with h; exact hc (frontBT_inj udp _ _ h)
      rw [foldTO_skip env _ _ _ hskip]
      obtain ⟨v', h1, h2, h3⟩ := ih hnd'.2 (fun q hq => hok q (by simp [hq])) v hv
        (fun q hq => hnot q (by simp [hq]))
      refine ⟨v', h1, ?_, h3⟩
      rw [h2]; simp [List.filter_cons, hc]

theorem not_contains_iff' {α : Type} [BEq α] [LawfulBEq α] (l : List α) (p : α) : (!l.contains p) = true ↔ p ∉ l := by
  simp

theorem tfsOf_mem_ok (env : Env) (s : St) (hs : WF env s) (udp : Bool) (c : Nat) (f : TcpFront)
    (h : f ∈ tfsOf (look s (frontBT udp c))) : f.cluster = c ∧ canon f.addr = f.addr := by
  rcases tfs_shape env s hs udp c with hn | ⟨l, hl⟩
  · rw [hn] at h; simp [tfsOf] at h
  · rw [hl] at h; exact (wf_tfs env s hs udp c l hl).1 f h

theorem tfsOf_nodup (env : Env) (s : St) (hs : WF env s) (udp : Bool) (c : Nat) :
    (tfsOf (look s (frontBT udp c))).Nodup := by
  rcases tfs_shape env s hs udp c with hn | ⟨l, hl⟩
  · rw [hn]; simp [tfsOf]
  · rw [hl]; exact (wf_tfs env s hs udp c l hl).2

/-- tcp / udp fronts of one cluster: under unique addresses in `A`, the commands of `diff` are
    accepted and leave a permutation of `B`'s list -/
theorem tfs_O (env : Env) (A B : St) (hA : WF env A) (hB : WF env B) (huA : UniqueFrontAddr A)
    (udp : Bool) (cid : Nat) :
    ∃ v', foldTO env (frontBT udp cid) (look A (frontBT udp cid), true) (diffTcpFronts A B udp) = (v', true) ∧
      (tfsOf v').Perm (tfsOf (look B (frontBT udp cid))) ∧ (v' = none ∨ ∃ l, v' = some (.tfs l)) := by
  have eA := eraseDups_of_nodup _ (nodup_tcpFrontsOf env A hA udp)
  have eB := eraseDups_of_nodup _ (nodup_tcpFrontsOf env B hB udp)
  have mA := mem_tcpFrontsOf env A hA udp
  have mB := mem_tcpFrontsOf env B hB udp
  rw [diffTcpFronts_eq, eA, eB, foldTO_append]
  -- removed phase
  have hcurA : (look A (frontBT udp cid) = none ∧ tfsOf (look A (frontBT udp cid)) = []) ∨
      look A (frontBT udp cid) = some (.tfs (tfsOf (look A (frontBT udp cid)))) := by
    rcases tfs_shape env A hA udp cid with hn | ⟨l, hl⟩
    · left; rw [hn]; exact ⟨rfl, rfl⟩
    · right; rw [hl]; rfl
  have huA' : (tfsOf (look A (frontBT udp cid))).Pairwise (fun x y => x.addr ≠ y.addr) := by
    rcases tfs_shape env A hA udp cid with hn | ⟨l, hl⟩
    · rw [hn]; simp [tfsOf]
    · rw [hl]; exact huA _ l hl
  obtain ⟨v1, h1, hm1, hs1⟩ := tf_removed_fold env udp cid
    ((tcpFrontsOf A udp).filter (fun p => !(tcpFrontsOf B udp).contains p))
    (List.Nodup.sublist List.filter_sublist (nodup_tcpFrontsOf env A hA udp))
    (fun p hp => tfsOf_mem_ok env A hA udp p.1 p.2 ((mA p.1 p.2).mp (List.mem_filter.mp hp).1))
    (tfsOf (look A (frontBT udp cid))) (tfsOf_nodup env A hA udp cid) huA'
    (fun p hp hc => by rw [← hc]; exact (mA p.1 p.2).mp (List.mem_filter.mp hp).1)
    (look A (frontBT udp cid)) hcurA
  rw [h1]
  -- what is left after the removals: the fronts also in B
  have memLr : ∀ x : TcpFront, (cid, x) ∈ (tcpFrontsOf A udp).filter (fun p => !(tcpFrontsOf B udp).contains p) ↔
      x ∈ tfsOf (look A (frontBT udp cid)) ∧ x ∉ tfsOf (look B (frontBT udp cid)) := by
    intro x
    rw [List.mem_filter, not_contains_iff', mA, mB]
  have memLa : ∀ x : TcpFront, (cid, x) ∈ (tcpFrontsOf B udp).filter (fun p => !(tcpFrontsOf A udp).contains p) ↔
      x ∈ tfsOf (look B (frontBT udp cid)) ∧ x ∉ tfsOf (look A (frontBT udp cid)) := by
    intro x
    rw [List.mem_filter, not_contains_iff', mA, mB]
  have hleft : ∀ x, x ∈ tfsOf v1 ↔ x ∈ tfsOf (look A (frontBT udp cid)) ∧ x ∈ tfsOf (look B (frontBT udp cid)) := by
    intro x
    rw [hm1, List.mem_filter, not_contains_iff', memLr]
    constructor
    · rintro ⟨hx, hc⟩
      refine ⟨hx, ?_⟩
      apply Classical.byContradiction
      intro hnb; exact hc ⟨hx, hnb⟩
    · rintro ⟨hx, hxb⟩
      exact ⟨hx, fun h => h.2 hxb⟩
  -- added phase
  obtain ⟨v2, h2, hm2, hs2⟩ := tf_added_fold env udp cid
    ((tcpFrontsOf B udp).filter (fun p => !(tcpFrontsOf A udp).contains p))
    (List.Nodup.sublist List.filter_sublist (nodup_tcpFrontsOf env B hB udp))
    (fun p hp => tfsOf_mem_ok env B hB udp p.1 p.2 ((mB p.1 p.2).mp (List.mem_filter.mp hp).1))
    v1 hs1
    (by
      intro p hp hc hin
      have hA' := ((hleft p.2).mp hin).1
      have := (List.mem_filter.mp hp).2
      simp only [Bool.not_eq_true', List.contains_eq_mem, decide_eq_false_iff_not] at this
      apply this
      obtain ⟨pc, pf⟩ := p
      simp only at hc hA'; subst hc
      exact (mA pc pf).mpr hA')
  refine ⟨v2, h2, ?_, hs2⟩
  -- membership of the added part
  have hadded : ∀ x, x ∈ ((((tcpFrontsOf B udp).filter (fun p => !(tcpFrontsOf A udp).contains p)).filter
      (fun p => decide (p.1 = cid))).map (·.2)) ↔
      x ∈ tfsOf (look B (frontBT udp cid)) ∧ x ∉ tfsOf (look A (frontBT udp cid)) := by
    intro x
    rw [← memLa]
    simp only [List.mem_map, List.mem_filter, decide_eq_true_eq]
    constructor
    · rintro ⟨p, ⟨hp, hc⟩, rfl⟩
      obtain ⟨pc, pf⟩ := p
      simp only at hc; subst hc
      exact hp
    · intro hp
      exact ⟨(cid, x), ⟨hp, rfl⟩, rfl⟩
  apply (List.perm_ext_iff_of_nodup ?_ (tfsOf_nodup env B hB udp cid)).mpr
  · intro x
    rw [hm2, List.mem_append, hleft, hadded]
    constructor
    · rintro (h | h)
      · exact h.2
      · exact h.1
    · intro hb
      by_cases ha : x ∈ tfsOf (look A (frontBT udp cid))
      · exact Or.inl ⟨ha, hb⟩
      · exact Or.inr ⟨hb, ha⟩
  · rw [hm2]
    refine List.nodup_append.mpr ⟨?_, ?_, ?_⟩
    · rw [hm1]; exact List.Nodup.sublist List.filter_sublist (tfsOf_nodup env A hA udp cid)
    · -- second components of pairs with the same first component
      have hnd2 : (((tcpFrontsOf B udp).filter (fun p => !(tcpFrontsOf A udp).contains p)).filter
          (fun p => decide (p.1 = cid))).Nodup :=
        List.Nodup.sublist List.filter_sublist
          (List.Nodup.sublist List.filter_sublist (nodup_tcpFrontsOf env B hB udp))
      unfold List.Nodup at hnd2 ⊢
      rw [List.pairwise_map]
      refine List.Pairwise.imp_of_mem ?_ hnd2
      intro p q hp hq hne e
      apply hne
      have c1 : p.1 = cid := by simpa using (List.mem_filter.mp hp).2
      have c2 : q.1 = cid := by simpa using (List.mem_filter.mp hq).2
      obtain ⟨pc, pf⟩ := p; obtain ⟨qc, qf⟩ := q
      simp only at c1 c2 e; subst c1; subst c2; subst e; rfl
    · intro x hx y hy e
      subst e
      exact ((hadded x).mp hy).2 ((hleft x).mp hx).1

-- ------------------------------------------------------------ certificates --

/-- a fingerprint present on both sides of an address carries the same certificate (the hypothesis
    that excludes the finding `diff-cert-same-fingerprint-other-content`) -/
def CertContentAgree (A B : St) : Prop :=
  ∀ a mA mB fp c c', look A (.certs a) = some (.certs mA) → look B (.certs a) = some (.certs mB) →
    (fp, c) ∈ mA → (fp, c') ∈ mB → c = c'

def certEntry : Target × Val → List (Nat × Nat)
  | (.certs a, .certs m) => m.map fun p => (a, p.1)
  | _ => []

theorem certKeysOf_eq (s : St) : certKeysOf s = s.flatMap certEntry := rfl

theorem wf_certs (env : Env) (s : St) (hs : WF env s) (a : Nat) (m : List (Nat × Cert))
    (h : look s (.certs a) = some (.certs m)) :
    canon a = a ∧ m.Pairwise (fun x y => x.1 < y.1) ∧
      ∀ p ∈ m, env.fp p.2.pem = some p.1 ∧ resolveNames env p.2 = some p.2 := by
  have := hs.2 _ (mem_of_look s _ _ h)
  simpa only [EntryOK] using this

theorem certs_shape (env : Env) (s : St) (hs : WF env s) (a : Nat) :
    look s (.certs a) = none ∨ ∃ m, look s (.certs a) = some (.certs m) := by
  cases h : look s (.certs a) with
  | none => exact Or.inl rfl
  | some v =>
    have := hs.2 _ (mem_of_look s _ _ h)
    cases v <;> simp only [EntryOK] at this <;> first | exact False.elim this | exact Or.inr ⟨_, rfl⟩

theorem mem_certKeysOf (env : Env) (s : St) (hs : WF env s) (a fp : Nat) :
    (a, fp) ∈ certKeysOf s ↔ ∃ c, (fp, c) ∈ certsOf (look s (.certs a)) := by
  rw [certKeysOf_eq]
  simp only [List.mem_flatMap]
  constructor
  · rintro ⟨e, he, h⟩
    obtain ⟨t, v⟩ := e
    cases t <;> cases v <;> simp [certEntry] at h
    obtain ⟨hex, rfl⟩ := h
    rw [look_of_mem s hs.1 _ _ he]
    exact hex
  · rintro ⟨c, hc⟩
    rcases certs_shape env s hs a with hn | ⟨m, hm⟩
    · rw [hn] at hc; simp [certsOf] at hc
    · rw [hm] at hc; simp only [certsOf] at hc
      exact ⟨_, mem_of_look s _ _ hm, by simp [certEntry]; exact ⟨c, hc⟩⟩

theorem certKeysOf_canon (env : Env) (s : St) (hs : WF env s) (p : Nat × Nat) (h : p ∈ certKeysOf s) : canon p.1 = p.1 := by
  obtain ⟨a, fp⟩ := p
  obtain ⟨c, hc⟩ := (mem_certKeysOf env s hs a fp).mp h
  rcases certs_shape env s hs a with hn | ⟨m, hm⟩
  · rw [hn] at hc; simp [certsOf] at hc
  · exact (wf_certs env s hs a m hm).1

theorem nodup_certKeysOf (env : Env) (s : St) (hs : WF env s) : (certKeysOf s).Nodup := by
  rw [certKeysOf_eq]
  unfold List.Nodup
  rw [List.pairwise_flatMap]
  constructor
  · intro e he
    obtain ⟨t, v⟩ := e
    cases t <;> cases v <;> simp only [certEntry] <;> try exact List.Pairwise.nil
    have hok := hs.2 _ he
    simp only [EntryOK] at hok
    rw [List.pairwise_map]
    refine List.Pairwise.imp ?_ hok.2.1
    intro x y hxy e
    injection e with _ e2
    omega
  · have hk : s.Pairwise (fun a b => a.1 ≠ b.1) := by
      have := hs.1
      unfold List.Nodup at this
      rw [List.pairwise_map] at this
      exact this
    refine List.Pairwise.imp ?_ hk
    intro e e' hne x hx y hy exy
    obtain ⟨t, v⟩ := e; obtain ⟨t', v'⟩ := e'
    subst exy
    cases t <;> cases v <;> simp [certEntry] at hx
    cases t' <;> cases v' <;> simp [certEntry] at hy
    obtain ⟨c1, _, e1⟩ := hx
    obtain ⟨c2, _, e2⟩ := hy
    apply hne
    rw [← e1] at e2
    injection e2 with e2 _
    simp [e2]

theorem certs_removed_fold (env : Env) (a : Nat) (ha : canon a = a) (L : List (Nat × Nat)) :
    (∀ p ∈ L, canon p.1 = p.1) →
    ∀ v, (v = none ∨ ∃ m, v = some (.certs m)) →
    ∃ v', foldTO env (.certs a) (v, true) (L.map (fun p => Cmd.removeCert p.1 (some p.2))) = (v', true) ∧
      certsOf v' = (certsOf v).filter (fun q => !L.contains (a, q.1)) ∧
      (v' = none ∨ ∃ m, v' = some (.certs m)) := by
  induction L with
  | nil =>
    intro _ v hv
    refine ⟨v, rfl, ?_, hv⟩
    exact (List.filter_eq_self.mpr (by simp)).symm
  | cons p L ih =>
    intro hcan v hv
    obtain ⟨pa, fp⟩ := p
    have hpc : canon pa = pa := hcan (pa, fp) (by simp)
    simp only [List.map_cons, foldTO_cons]
    have ht : tgt (Cmd.removeCert pa (some fp)) = some (.certs pa) := by simp [tgt, hpc]
    by_cases hc : pa = a
    · subst hc
      simp only [ht, if_true]
      rcases hv with rfl | ⟨m, rfl⟩
      · obtain ⟨v', h1, h2, h3⟩ := ih (fun q hq => hcan q (by simp [hq])) none (Or.inl rfl)
        refine ⟨v', by simpa [loc] using h1, ?_, h3⟩
        rw [h2]; simp [certsOf]
      · obtain ⟨v', h1, h2, h3⟩ := ih (fun q hq => hcan q (by simp [hq])) (some (.certs (certErase m fp))) (Or.inr ⟨_, rfl⟩)
        refine ⟨v', by simpa [loc] using h1, ?_, h3⟩
        rw [h2]
        simp only [certsOf, certErase, List.filter_filter]
        apply List.filter_congr
        intro x _
        simp only [List.contains_eq_mem, List.mem_cons, Prod.mk.injEq, true_and, ne_eq]
        by_cases e : x.1 = fp <;> simp [e]
    · have hne : ¬ (some (Target.certs pa) = some (Target.certs a)) := by
        intro h; injection h with h; injection h with h; exact hc h
      simp only [ht, hne, if_false]
      obtain ⟨v', h1, h2, h3⟩ := ih (fun q hq => hcan q (by simp [hq])) v hv
      refine ⟨v', h1, ?_, h3⟩
      rw [h2]
      apply List.filter_congr
      intro x _
      have : ¬ (a = pa) := fun e => hc e.symm
      simp [this]

theorem certInsertSorted_mem_self (fp : Nat) (c : Cert) (m : List (Nat × Cert)) : (fp, c) ∈ certInsertSorted fp c m := by
  induction m with
  | nil => simp [certInsertSorted]
  | cons x t ih =>
    obtain ⟨k, v⟩ := x
    simp only [certInsertSorted]
    split
    · simp
    · split
      · simp
      · simp [ih]

theorem certInsertSorted_mem_old (fp : Nat) (c : Cert) (m : List (Nat × Cert)) (q : Nat × Cert)
    (hq : q ∈ m) (hne : q.1 ≠ fp) : q ∈ certInsertSorted fp c m := by
  induction m with
  | nil => simp at hq
  | cons x t ih =>
    obtain ⟨k, v⟩ := x
    simp only [certInsertSorted]
    split
    · simp [hq]
    · split
      · next _ heq =>
        rcases List.mem_cons.mp hq with e | h
        · rw [e] at hne; exact absurd heq.symm hne
        · simp [h]
      · rcases List.mem_cons.mp hq with e | h
        · simp [e]
        · simp [ih h]

theorem certGet_none_iff (m : List (Nat × Cert)) (fp : Nat) : certGet m fp = none ↔ ∀ c, (fp, c) ∉ m := by
  unfold certGet
  constructor
  · intro h c hc
    cases hf : m.find? (fun p => decide (p.1 = fp)) with
    | none => exact (List.find?_eq_none.mp hf) (fp, c) hc (by simp)
    | some p => rw [hf] at h; cases h
  · intro h
    have : m.find? (fun p => decide (p.1 = fp)) = none := by
      apply List.find?_eq_none.mpr
      intro p hp e
      simp at e
      exact h p.2 (by rw [← e]; exact hp)
    rw [this]

theorem certGet_some_mem (m : List (Nat × Cert)) (fp : Nat) (c : Cert) (h : certGet m fp = some c) : (fp, c) ∈ m := by
  unfold certGet at h
  cases hf : m.find? (fun p => decide (p.1 = fp)) with
  | none => rw [hf] at h; cases h
  | some p =>
    rw [hf] at h; injection h with h
    have hm := List.mem_of_find?_eq_some hf
    have hk : p.1 = fp := by simpa using List.find?_some hf
    obtain ⟨k, v⟩ := p
    simp only at hk h; subst hk; subst h; exact hm

theorem certGet_of_mem_sorted (m : List (Nat × Cert)) (hs : m.Pairwise (fun x y => x.1 < y.1)) (fp : Nat) (c : Cert)
    (h : (fp, c) ∈ m) : certGet m fp = some c := by
  cases hg : certGet m fp with
  | none => exact absurd h ((certGet_none_iff m fp).mp hg c)
  | some c' =>
    have h' := certGet_some_mem m fp c' hg
    by_cases e : c' = c
    · rw [e]
    · exfalso
      have hne : ((fp, c') : Nat × Cert) ≠ (fp, c) := by intro h; injection h with _ h; exact e h
      have := pairwise_sym_mem (fun a b : Nat × Cert => a.1 ≠ b.1) (fun a b h e => h e.symm) m
        (List.Pairwise.imp (fun {a b} (h : a.1 < b.1) => by omega) hs) _ _ h' h hne
      exact this rfl

def certAddBlock (b : St) (p : Nat × Nat) : List Cmd :=
  match certGet (certsOf (look b (.certs p.1))) p.2 with
  | some c => [Cmd.addCert p.1 c]
  | none => []

theorem diffCerts_eq (a b : St) :
    diffCerts a b =
      ((certKeysOf a).filter (fun p => !(certKeysOf b).contains p)).map (fun p => Cmd.removeCert p.1 (some p.2)) ++
      ((certKeysOf b).filter (fun p => !(certKeysOf a).contains p)).flatMap (certAddBlock b) := rfl

theorem certs_added_fold (env : Env) (B : St) (a : Nat) (ha : canon a = a) (L : List (Nat × Nat)) :
    L.Nodup → (∀ p ∈ L, canon p.1 = p.1) →
    (∀ p ∈ L, p.1 = a → ∃ c, certGet (certsOf (look B (.certs a))) p.2 = some c ∧ env.fp c.pem = some p.2 ∧
      resolveNames env c = some c) →
    ∀ v, (v = none ∨ ∃ m, v = some (.certs m)) → (certsOf v).Pairwise (fun x y => x.1 < y.1) →
      (∀ p ∈ L, p.1 = a → ∀ c, (p.2, c) ∉ certsOf v) →
      ∃ v', foldTO env (.certs a) (v, true) (L.flatMap (certAddBlock B)) = (v', true) ∧
        (v' = none ∨ ∃ m, v' = some (.certs m)) ∧ (certsOf v').Pairwise (fun x y => x.1 < y.1) ∧
        ∀ q, q ∈ certsOf v' ↔ q ∈ certsOf v ∨ ((a, q.1) ∈ L ∧ certGet (certsOf (look B (.certs a))) q.1 = some q.2) := by
  induction L with
  | nil => intro _ _ _ v hv hs _; exact ⟨v, rfl, hv, hs, fun q => by simp⟩
  | cons p L ih =>
    intro hnd hcan hblk v hv hs hnot
    obtain ⟨pa, fp⟩ := p
    have hnd' := List.nodup_cons.mp hnd
    have hpc : canon pa = pa := hcan (pa, fp) (by simp)
    simp only [List.flatMap_cons, foldTO_append]
    by_cases hc : pa = a
    · subst hc
      obtain ⟨c, hget, hfp, hres⟩ := hblk (pa, fp) (by simp) rfl
      have hnone : certGet (certsOf v) fp = none := (certGet_none_iff _ _).mpr (hnot (pa, fp) (by simp) rfl)
      have hstep : foldTO env (.certs pa) (v, true) (certAddBlock B (pa, fp)) =
          (some (.certs (certSet (certsOf v) fp c)), true) := by
        simp only [certAddBlock, hget, foldTO_cons, foldTO_nil, tgt, hpc, if_true, loc, hfp, hres, hnone,
          Option.isSome_none, Bool.false_eq_true, if_false, Bool.and_self]
      rw [hstep]
      have hmem : ∀ q, q ∈ certSet (certsOf v) fp c ↔ q = (fp, c) ∨ q ∈ certsOf v := by
        intro q
        constructor
        · exact mem_certInsertSorted fp c _ q
        · rintro (e | h)
          · rw [e]; exact certInsertSorted_mem_self fp c _
          · refine certInsertSorted_mem_old fp c _ q h ?_
            intro e
            exact hnot (pa, fp) (by simp) rfl q.2 (by rw [← e]; exact h)
      obtain ⟨v', h1, h2, h3, h4⟩ := ih hnd'.2 (fun q hq => hcan q (by simp [hq]))
        (fun q hq => hblk q (by simp [hq])) (some (.certs (certSet (certsOf v) fp c))) (Or.inr ⟨_, rfl⟩)
        (sorted_certInsertSorted fp c _ hs)
        (by
          intro q hq hqa c' hin
          have hin' : (q.2, c') ∈ certSet (certsOf v) fp c := hin
          rcases (hmem _).mp hin' with e | h
          · injection e with e1 _
            apply hnd'.1
            obtain ⟨qa, qf⟩ := q
            simp only at hqa e1; subst hqa; subst e1; exact hq
          · exact hnot q (by simp [hq]) hqa c' h)
      refine ⟨v', h1, h2, h3, ?_⟩
      intro q
      have hc1 : certsOf (some (.certs (certSet (certsOf v) fp c))) = certSet (certsOf v) fp c := rfl
      rw [h4 q, hc1, hmem q]
      constructor
      · rintro ((e | h) | ⟨h, hg⟩)
        · exact Or.inr ⟨by rw [e]; exact List.mem_cons_self, by rw [e]; exact hget⟩
        · exact Or.inl h
        · exact Or.inr ⟨List.mem_cons_of_mem _ h, hg⟩
      · rintro (h | ⟨hin, hg⟩)
        · exact Or.inl (Or.inr h)
        · rcases List.mem_cons.mp hin with e | h
          · injection e with _ e2
            refine Or.inl (Or.inl ?_)
            obtain ⟨q1, q2⟩ := q
            simp only at e2 hg; subst e2
            rw [hget] at hg; injection hg with hg; rw [hg]
          · exact Or.inr ⟨h, hg⟩
    · have hskip : ∀ cmd ∈ certAddBlock B (pa, fp), tgt cmd ≠ some (.certs a) := by
        intro cmd hcmd
        simp only [certAddBlock] at hcmd
        split at hcmd
        · simp at hcmd; subst hcmd
          simp only [tgt, hpc]
          intro h; injection h with h; injection h with h; exact hc h
        · simp at hcmd
      rw [foldTO_skip env _ _ _ hskip]
      obtain ⟨v', h1, h2, h3, h4⟩ := ih hnd'.2 (fun q hq => hcan q (by simp [hq]))
        (fun q hq => hblk q (by simp [hq])) v hv hs (fun q hq => hnot q (by simp [hq]))
      refine ⟨v', h1, h2, h3, ?_⟩
      intro q
      rw [h4 q]
      have : ¬ (a = pa) := fun e => hc e.symm
      simp [this]

theorem certs_ext (m m' : List (Nat × Cert)) (hs : m.Pairwise (fun x y => x.1 < y.1))
    (hs' : m'.Pairwise (fun x y => x.1 < y.1)) (hm : ∀ q, q ∈ m ↔ q ∈ m') : m = m' := by
  have nd : ∀ l : List (Nat × Cert), l.Pairwise (fun x y => x.1 < y.1) → l.Nodup := by
    intro l h
    refine List.Pairwise.imp ?_ h
    intro x y hxy e; subst e; omega
  have hp : m.Perm m' := (List.perm_ext_iff_of_nodup (nd m hs) (nd m' hs')).mpr hm
  exact List.Perm.eq_of_pairwise (le := fun x y : Nat × Cert => x.1 < y.1)
    (fun a b _ _ h1 h2 => by omega) hs hs' hp

theorem norm_certs_eq (v v' : Option Val) (h1 : v = none ∨ ∃ m, v = some (.certs m))
    (h2 : v' = none ∨ ∃ m, v' = some (.certs m)) (h : certsOf v = certsOf v') : norm v = norm v' := by
  rcases h1 with rfl | ⟨m, rfl⟩ <;> rcases h2 with rfl | ⟨m', rfl⟩ <;> simp only [certsOf] at h
  · rfl
  · subst h; rfl
  · subst h; rfl
  · subst h; rfl

/-- certificates of one address: under `CertContentAgree`, the commands of `diff` are accepted and
    leave `B`'s bucket (up to an empty bucket) -/
theorem certs_O (env : Env) (A B : St) (hA : WF env A) (hB : WF env B) (hag : CertContentAgree A B) (a : Nat) :
    ∃ v', foldTO env (.certs a) (look A (.certs a), true) (diffCerts A B) = (v', true) ∧
      norm v' = norm (look B (.certs a)) := by
  have kA := mem_certKeysOf env A hA
  have kB := mem_certKeysOf env B hB
  rw [diffCerts_eq, foldTO_append]
  by_cases ha : canon a = a
  · obtain ⟨v1, h1, hm1, hs1⟩ := certs_removed_fold env a ha
      ((certKeysOf A).filter (fun p => !(certKeysOf B).contains p))
      (fun p hp => certKeysOf_canon env A hA p (List.mem_filter.mp hp).1)
      (look A (.certs a)) (certs_shape env A hA a)
    rw [h1]
    have sortedA : (certsOf (look A (.certs a))).Pairwise (fun x y => x.1 < y.1) := by
      rcases certs_shape env A hA a with hn | ⟨m, hm⟩
      · rw [hn]; simp [certsOf]
      · rw [hm]; exact (wf_certs env A hA a m hm).2.1
    have sortedB : (certsOf (look B (.certs a))).Pairwise (fun x y => x.1 < y.1) := by
      rcases certs_shape env B hB a with hn | ⟨m, hm⟩
      · rw [hn]; simp [certsOf]
      · rw [hm]; exact (wf_certs env B hB a m hm).2.1
    have okB : ∀ q ∈ certsOf (look B (.certs a)), env.fp q.2.pem = some q.1 ∧ resolveNames env q.2 = some q.2 := by
      intro q hq
      rcases certs_shape env B hB a with hn | ⟨m, hm⟩
      · rw [hn] at hq; simp [certsOf] at hq
      · rw [hm] at hq; exact (wf_certs env B hB a m hm).2.2 q hq
    have agree : ∀ fp c c', (fp, c) ∈ certsOf (look A (.certs a)) → (fp, c') ∈ certsOf (look B (.certs a)) → c = c' := by
      intro fp c c' h1 h2
      rcases certs_shape env A hA a with hn | ⟨m, hm⟩
      · rw [hn] at h1; simp [certsOf] at h1
      · rcases certs_shape env B hB a with hn' | ⟨m', hm'⟩
        · rw [hn'] at h2; simp [certsOf] at h2
        · rw [hm] at h1; rw [hm'] at h2
          exact hag a m m' fp c c' hm hm' h1 h2
    have hleft : ∀ q, q ∈ certsOf v1 ↔ q ∈ certsOf (look A (.certs a)) ∧ ∃ c, (q.1, c) ∈ certsOf (look B (.certs a)) := by
      intro q
      rw [hm1, List.mem_filter, not_contains_iff', List.mem_filter, not_contains_iff', kA, kB]
      constructor
      · rintro ⟨hq, hc⟩
        refine ⟨hq, ?_⟩
        apply Classical.byContradiction
        intro hne; exact hc ⟨⟨q.2, hq⟩, hne⟩
      · rintro ⟨hq, hc⟩
        exact ⟨hq, fun h => h.2 hc⟩
    obtain ⟨v2, h2, hs2, hsorted2, hm2⟩ := certs_added_fold env B a ha
      ((certKeysOf B).filter (fun p => !(certKeysOf A).contains p))
      (List.Nodup.sublist List.filter_sublist (nodup_certKeysOf env B hB))
      (fun p hp => certKeysOf_canon env B hB p (List.mem_filter.mp hp).1)
      (by
        intro p hp hpa
        obtain ⟨pa, fp⟩ := p
        simp only at hpa; subst hpa
        obtain ⟨c, hc⟩ := (kB pa fp).mp (List.mem_filter.mp hp).1
        exact ⟨c, certGet_of_mem_sorted _ sortedB fp c hc, (okB _ hc).1, (okB _ hc).2⟩)
      v1 hs1
      (by rw [hm1]; exact List.Pairwise.sublist List.filter_sublist sortedA)
      (by
        intro p hp hpa c hin
        obtain ⟨pa, fp⟩ := p
        simp only at hpa; subst hpa
        have := (not_contains_iff' _ _).mp (List.mem_filter.mp hp).2
        exact this ((kA pa fp).mpr ⟨c, ((hleft _).mp hin).1⟩))
    refine ⟨v2, h2, norm_certs_eq _ _ hs2 (certs_shape env B hB a) ?_⟩
    apply certs_ext _ _ hsorted2 sortedB
    intro q
    rw [hm2 q, hleft q, List.mem_filter, not_contains_iff', kA, kB]
    constructor
    · rintro (⟨hq, c, hc⟩ | ⟨_, hg⟩)
      · have := agree q.1 q.2 c hq hc
        rw [← this] at hc; exact hc
      · exact certGet_some_mem _ _ _ hg
    · intro hq
      by_cases hex : ∃ c', (q.1, c') ∈ certsOf (look A (.certs a))
      · obtain ⟨c', hc'⟩ := hex
        have := agree q.1 c' q.2 hc' hq
        rw [this] at hc'
        exact Or.inl ⟨hc', q.2, hq⟩
      · exact Or.inr ⟨⟨⟨q.2, hq⟩, hex⟩, certGet_of_mem_sorted _ sortedB q.1 q.2 hq⟩
  · -- not a socket address key: nothing addresses it, nothing is stored under it
    have hAn : look A (.certs a) = none := by
      rcases certs_shape env A hA a with hn | ⟨m, hm⟩
      · exact hn
      · exact absurd (wf_certs env A hA a m hm).1 ha
    have hBn : look B (.certs a) = none := by
      rcases certs_shape env B hB a with hn | ⟨m, hm⟩
      · exact hn
      · exact absurd (wf_certs env B hB a m hm).1 ha
    refine ⟨none, ?_, by rw [hBn]⟩
    rw [hAn, foldTO_skip, foldTO_skip]
    · intro c hc
      simp only [List.mem_map] at hc
      obtain ⟨p, hp, rfl⟩ := hc
      have hpc := certKeysOf_canon env A hA p (List.mem_filter.mp hp).1
      simp only [tgt, hpc]
      intro h; injection h with h; injection h with h; subst h; exact ha hpc
    · intro c hc
      simp only [List.mem_flatMap] at hc
      obtain ⟨p, hp, hc⟩ := hc
      have hpc := certKeysOf_canon env B hB p (List.mem_filter.mp hp).1
      simp only [certAddBlock] at hc
      split at hc
      · simp at hc; subst hc
        simp only [tgt, hpc]
        intro h; injection h with h; injection h with h; subst h; exact ha hpc
      · simp at hc

-- ---------------------------------------------------------------- assembly --

/-- equality of two (normalised) entries, with the per-cluster lists of tcp/udp fronts compared
    as multisets -/
def entryEq : Option Val → Option Val → Prop
  | some (.tfs l), some (.tfs l') => l.Perm l'
  | a, b => a = b

theorem entryEq_refl (v : Option Val) : entryEq v v := by
  cases v with
  | none => rfl
  | some x => cases x <;> first | rfl | exact List.Perm.refl _

/-- same configuration up to empty buckets and the order inside a per-cluster list of tcp/udp fronts -/
def EquivP (s s' : St) : Prop := ∀ t, entryEq (norm (look s t)) (norm (look s' t))

theorem entryEq_of_eq (v w : Option Val) (h : v = w) : entryEq v w := by rw [h]; exact entryEq_refl w

theorem entryEq_tfs (v w : Option Val) (hv : v = none ∨ ∃ l, v = some (.tfs l)) (hw : w = none ∨ ∃ l, w = some (.tfs l))
    (hp : (tfsOf v).Perm (tfsOf w)) : entryEq (norm v) (norm w) := by
  rcases hv with rfl | ⟨l, rfl⟩ <;> rcases hw with rfl | ⟨l', rfl⟩ <;> simp only [tfsOf] at hp
  · exact entryEq_refl _
  · have : l' = [] := List.Perm.eq_nil (List.Perm.symm hp) |> fun h => h
    subst this; exact entryEq_refl _
  · have : l = [] := List.Perm.eq_nil hp
    subst this; exact entryEq_refl _
  · cases l with
    | nil => have : l' = [] := List.Perm.eq_nil (List.Perm.symm hp); subst this; exact entryEq_refl _
    | cons x t =>
      cases l' with
      | nil => exact absurd (List.Perm.eq_nil hp) (by simp)
      | cons y t' => exact hp

/-- every command `diff` emits addresses some entry -/
theorem diff_has_target (a b : St) : ∀ c ∈ diff a b, (tgt c).isSome = true := by
  intro c hc
  have lp : ∀ (ty : LType) (keys : Target → Option Nat) (part : List Cmd),
      (part = diffRemovedL ty a b keys ∨ part = diffAddedL ty a b keys ∨ part = diffCommonL ty a b keys ∨
        part = diffReactivate ty a b keys) → c ∈ part → (tgt c).isSome = true := by
    intro ty keys part hp hcp
    obtain ⟨t', h1, _⟩ := sec_listener_part ty a b keys part hp c hcp
    rw [h1]; rfl
  have np : ∀ (part : List Cmd) (n : Nat), (∀ c ∈ part, ∃ t, tgt c = some t ∧ sectionOf t = n) → c ∈ part →
      (tgt c).isSome = true := by
    intro part n h hcp
    obtain ⟨t', h1, _⟩ := h c hcp
    rw [h1]; rfl
  unfold diff at hc
  simp only [List.mem_append] at hc
  rcases hc with (((((((((((((((((((h | h) | h) | h) | h) | h) | h) | h) | h) | h) | h) | h) | h) | h) | h) | h) | h) | h) | h) | h) | h
  · exact lp .tcp isTcpL _ (Or.inl rfl) h
  · exact lp .tcp isTcpL _ (Or.inr (Or.inl rfl)) h
  · exact lp .udp isUdpL _ (Or.inl rfl) h
  · exact lp .udp isUdpL _ (Or.inr (Or.inl rfl)) h
  · exact lp .http isHttpL _ (Or.inl rfl) h
  · exact lp .http isHttpL _ (Or.inr (Or.inl rfl)) h
  · exact lp .https isHttpsL _ (Or.inl rfl) h
  · exact lp .https isHttpsL _ (Or.inr (Or.inl rfl)) h
  · exact lp .tcp isTcpL _ (Or.inr (Or.inr (Or.inl rfl))) h
  · exact lp .udp isUdpL _ (Or.inr (Or.inr (Or.inl rfl))) h
  · exact lp .http isHttpL _ (Or.inr (Or.inr (Or.inl rfl))) h
  · exact lp .https isHttpsL _ (Or.inr (Or.inr (Or.inl rfl))) h
  · exact np _ 4 (sec_clusters a b) h
  · exact np _ 10 (sec_backends a b) h
  · exact np _ 5 (sec_fronts a b false) h
  · exact np _ 7 (sec_fronts a b true) h
  · exact np _ 8 (sec_tcpFronts a b false) h
  · exact np _ 9 (sec_tcpFronts a b true) h
  · exact np _ 6 (sec_certs a b) h
  · exact lp .tcp isTcpL _ (Or.inr (Or.inr (Or.inr rfl))) h
  · exact lp .udp isUdpL _ (Or.inr (Or.inr (Or.inr rfl))) h

/-- `diff A B` replayed on `A`, seen from any entry: accepted, and the entry ends as in `B` -/
theorem diff_entry (env : Env) (A B : St) (hA : WF env A) (hB : WF env B)
    (huA : UniqueBackendIds A) (huB : UniqueBackendIds B) (hfA : UniqueFrontAddr A) (hag : CertContentAgree A B)
    (t : Target) :
    ∃ v', foldTO env t (look A t, true) (diff A B) = (v', true) ∧ entryEq (norm v') (norm (look B t)) := by
  have sk : ∀ (t : Target) (p : Option Val × Bool) (cs : List Cmd) (n : Nat), n ≠ sectionOf t →
      (∀ c ∈ cs, ∃ t', tgt c = some t' ∧ sectionOf t' = n) → foldTO env t p cs = p := by
    intro t p cs n hn h
    apply foldTO_skip_sec
    intro c hc
    obtain ⟨t', h1, h2⟩ := h c hc
    exact ⟨t', h1, by omega⟩
  cases t
  case httpL a => exact ⟨_, listeners_O env A B hA hB .http a, entryEq_refl _⟩
  case httpsL a => exact ⟨_, listeners_O env A B hA hB .https a, entryEq_refl _⟩
  case tcpL a => exact ⟨_, listeners_O env A B hA hB .tcp a, entryEq_refl _⟩
  case udpL a => exact ⟨_, listeners_O env A B hA hB .udp a, entryEq_refl _⟩
  case cluster id =>
    refine ⟨look B (.cluster id), ?_, entryEq_refl _⟩
    rw [foldTO_diff_nonlistener env A B _ _ (by simp [sectionOf])]
    simp only [foldTO_append]
    rw [clusters_O env A B hA hB id,
      sk _ _ _ 10 (by simp [sectionOf]) (sec_backends A B), sk _ _ _ 5 (by simp [sectionOf]) (sec_fronts A B false),
      sk _ _ _ 7 (by simp [sectionOf]) (sec_fronts A B true), sk _ _ _ 8 (by simp [sectionOf]) (sec_tcpFronts A B false),
      sk _ _ _ 9 (by simp [sectionOf]) (sec_tcpFronts A B true), sk _ _ _ 6 (by simp [sectionOf]) (sec_certs A B)]
  case backends cid =>
    obtain ⟨v', h1, h2⟩ := backends_O env A B hA hB huA huB cid
    refine ⟨v', ?_, entryEq_of_eq _ _ h2⟩
    rw [foldTO_diff_nonlistener env A B _ _ (by simp [sectionOf])]
    simp only [foldTO_append]
    rw [sk _ _ _ 4 (by simp [sectionOf]) (sec_clusters A B), h1,
      sk _ _ _ 5 (by simp [sectionOf]) (sec_fronts A B false),
      sk _ _ _ 7 (by simp [sectionOf]) (sec_fronts A B true), sk _ _ _ 8 (by simp [sectionOf]) (sec_tcpFronts A B false),
      sk _ _ _ 9 (by simp [sectionOf]) (sec_tcpFronts A B true), sk _ _ _ 6 (by simp [sectionOf]) (sec_certs A B)]
  case httpF k =>
    refine ⟨look B (.httpF k), ?_, entryEq_refl _⟩
    rw [foldTO_diff_nonlistener env A B _ _ (by simp [sectionOf])]
    simp only [foldTO_append]
    have := fronts_O env A B hA hB false k
    simp only [frontT, Bool.false_eq_true, if_false] at this
    rw [sk _ _ _ 4 (by simp [sectionOf]) (sec_clusters A B), sk _ _ _ 10 (by simp [sectionOf]) (sec_backends A B), this,
      sk _ _ _ 7 (by simp [sectionOf]) (sec_fronts A B true), sk _ _ _ 8 (by simp [sectionOf]) (sec_tcpFronts A B false),
      sk _ _ _ 9 (by simp [sectionOf]) (sec_tcpFronts A B true), sk _ _ _ 6 (by simp [sectionOf]) (sec_certs A B)]
  case httpsF k =>
    refine ⟨look B (.httpsF k), ?_, entryEq_refl _⟩
    rw [foldTO_diff_nonlistener env A B _ _ (by simp [sectionOf])]
    simp only [foldTO_append]
    have := fronts_O env A B hA hB true k
    simp only [frontT, if_true] at this
    rw [sk _ _ _ 4 (by simp [sectionOf]) (sec_clusters A B), sk _ _ _ 10 (by simp [sectionOf]) (sec_backends A B),
      sk _ _ _ 5 (by simp [sectionOf]) (sec_fronts A B false), this,
      sk _ _ _ 8 (by simp [sectionOf]) (sec_tcpFronts A B false),
      sk _ _ _ 9 (by simp [sectionOf]) (sec_tcpFronts A B true), sk _ _ _ 6 (by simp [sectionOf]) (sec_certs A B)]
  case tcpF cid =>
    obtain ⟨v', h1, hp, hs⟩ := tfs_O env A B hA hB hfA false cid
    simp only [frontBT, Bool.false_eq_true, if_false] at h1 hp
    have hsB := tfs_shape env B hB false cid
    simp only [frontBT, Bool.false_eq_true, if_false] at hsB
    refine ⟨v', ?_, entryEq_tfs _ _ hs hsB hp⟩
    rw [foldTO_diff_nonlistener env A B _ _ (by simp [sectionOf])]
    simp only [foldTO_append]
    rw [sk _ _ _ 4 (by simp [sectionOf]) (sec_clusters A B), sk _ _ _ 10 (by simp [sectionOf]) (sec_backends A B),
      sk _ _ _ 5 (by simp [sectionOf]) (sec_fronts A B false), sk _ _ _ 7 (by simp [sectionOf]) (sec_fronts A B true), h1,
      sk _ _ _ 9 (by simp [sectionOf]) (sec_tcpFronts A B true), sk _ _ _ 6 (by simp [sectionOf]) (sec_certs A B)]
  case udpF cid =>
    obtain ⟨v', h1, hp, hs⟩ := tfs_O env A B hA hB hfA true cid
    simp only [frontBT, if_true] at h1 hp
    have hsB := tfs_shape env B hB true cid
    simp only [frontBT, if_true] at hsB
    refine ⟨v', ?_, entryEq_tfs _ _ hs hsB hp⟩
    rw [foldTO_diff_nonlistener env A B _ _ (by simp [sectionOf])]
    simp only [foldTO_append]
    rw [sk _ _ _ 4 (by simp [sectionOf]) (sec_clusters A B), sk _ _ _ 10 (by simp [sectionOf]) (sec_backends A B),
      sk _ _ _ 5 (by simp [sectionOf]) (sec_fronts A B false), sk _ _ _ 7 (by simp [sectionOf]) (sec_fronts A B true),
      sk _ _ _ 8 (by simp [sectionOf]) (sec_tcpFronts A B false), h1, sk _ _ _ 6 (by simp [sectionOf]) (sec_certs A B)]
  case certs a =>
    obtain ⟨v', h1, h2⟩ := certs_O env A B hA hB hag a
    refine ⟨v', ?_, entryEq_of_eq _ _ h2⟩
    rw [foldTO_diff_nonlistener env A B _ _ (by simp [sectionOf])]
    simp only [foldTO_append]
    rw [sk _ _ _ 4 (by simp [sectionOf]) (sec_clusters A B), sk _ _ _ 10 (by simp [sectionOf]) (sec_backends A B),
      sk _ _ _ 5 (by simp [sectionOf]) (sec_fronts A B false), sk _ _ _ 7 (by simp [sectionOf]) (sec_fronts A B true),
      sk _ _ _ 8 (by simp [sectionOf]) (sec_tcpFronts A B false), sk _ _ _ 9 (by simp [sectionOf]) (sec_tcpFronts A B true), h1]

-- ------------------------------------------------ C05: requests per entry --

theorem filter_genEntry (env : Env) (t : Target) (e : Target × Val) (h : EntryOK env e.1 e.2) :
    (genEntry e).filter (fun c => decide (tgt c = some t)) = if e.1 = t then genEntry e else [] := by
  by_cases he : e.1 = t
  · rw [if_pos he]
    apply List.filter_eq_self.mpr
    intro c hc
    have := genEntry_tgt env e.1 e.2 h c hc
    simp [this, he]
  · rw [if_neg he]
    apply List.filter_eq_nil_iff.mpr
    intro c hc
    have := genEntry_tgt env e.1 e.2 h c hc
    simp only [this, decide_eq_true_eq]
    intro h'; injection h' with h'; exact he h'

theorem filter_entries (env : Env) (t : Target) (L : List (Target × Val)) :
    (L.map (·.1)).Nodup → (∀ e ∈ L, EntryOK env e.1 e.2) →
    (L.flatMap genEntry).filter (fun c => decide (tgt c = some t)) =
      match L.find? (fun e => e.1 = t) with
      | some e => genEntry e
      | none => [] := by
  induction L with
  | nil => intro _ _; rfl
  | cons e L ih =>
    intro hnd hok
    have hnd' : e.1 ∉ L.map (·.1) ∧ (L.map (·.1)).Nodup := List.nodup_cons.mp hnd
    have hokL : ∀ e' ∈ L, EntryOK env e'.1 e'.2 := fun e' he' => hok e' (by simp [he'])
    simp only [List.flatMap_cons, List.filter_append, filter_genEntry env t e (hok e (by simp))]
    by_cases he : e.1 = t
    · have hnone : L.find? (fun e => decide (e.1 = t)) = none := by
        apply List.find?_eq_none.mpr
        intro x hx hxt
        simp at hxt
        apply hnd'.1
        rw [he, ← hxt]
        exact List.mem_map.mpr ⟨x, hx, rfl⟩
      rw [ih hnd'.2 hokL, hnone]
      simp [List.find?_cons, he]
    · rw [ih hnd'.2 hokL]
      simp [List.find?_cons, he]

theorem filter_generate (env : Env) (s : St) (hs : WF env s) (t : Target) :
    (generateRequests s).filter (fun c => decide (tgt c = some t)) =
      match s.find? (fun e => e.1 = t) with
      | some e => genEntry e
      | none => [] := by
  have hsec : ∀ i, ((sectionEntries s i).flatMap genEntry).filter (fun c => decide (tgt c = some t)) =
      if i = sectionOf t then
        (match s.find? (fun e => e.1 = t) with
         | some e => genEntry e
         | none => [])
      else [] := by
    intro i
    have hsub : (sectionEntries s i).Sublist s := List.filter_sublist
    rw [filter_entries env t _ (List.Nodup.sublist (List.Sublist.map _ hsub) hs.1)
      (fun e he => hs.2 e (hsub.subset he)), find_section]
    by_cases hi : i = sectionOf t <;> simp [hi]
  have hr : List.range 11 = [0, 1, 2, 3, 4, 5, 6, 7, 8, 9, 10] := by decide
  unfold generateRequests
  rw [hr]
  simp only [List.flatMap_cons, List.flatMap_nil, List.append_nil, List.filter_append, hsec]
  cases t <;> simp [sectionOf]

/-- two lists holding the same bindings (one per key) answer every lookup the same way -/
theorem find_perm (s s' : St) (hnd : (s.map (·.1)).Nodup) (hnd' : (s'.map (·.1)).Nodup)
    (hp : ∀ e, e ∈ s ↔ e ∈ s') (t : Target) :
    s.find? (fun e => e.1 = t) = s'.find? (fun e => e.1 = t) := by
  have key : ∀ (a b : St), (a.map (·.1)).Nodup → (b.map (·.1)).Nodup → (∀ e, e ∈ a ↔ e ∈ b) →
      ∀ e, a.find? (fun e => e.1 = t) = some e → b.find? (fun e => e.1 = t) = some e := by
    intro a b ha hb hab e he
    have hm := List.mem_of_find?_eq_some he
    have hk : e.1 = t := by simpa using List.find?_some he
    have hmb := (hab e).mp hm
    cases hf : b.find? (fun e => decide (e.1 = t)) with
    | none => exact absurd hk (by simpa using (List.find?_eq_none.mp hf) e hmb)
    | some e' =>
      have hm' := List.mem_of_find?_eq_some hf
      have hk' : e'.1 = t := by simpa using List.find?_some hf
      obtain ⟨t1, v1⟩ := e; obtain ⟨t2, v2⟩ := e'
      simp only at hk hk'; subst hk; subst hk'
      have l1 := look_of_mem b hb _ _ hmb
      have l2 := look_of_mem b hb _ _ hm'
      rw [l1] at l2; injection l2 with l2; rw [l2]
  cases h : s.find? (fun e => decide (e.1 = t)) with
  | none =>
    cases h' : s'.find? (fun e => decide (e.1 = t)) with
    | none => rfl
    | some e' => rw [key s' s hnd' hnd (fun e => (hp e).symm) e' h'] at h; cases h
  | some e => exact (key s s' hnd hnd' hp e h).symm

end Sozu.State
