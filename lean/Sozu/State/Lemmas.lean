import Sozu.State.Model
/-
Helper lemmas for the State model: entry get/put laws, the locality of
`dispatch` (a verb reads and writes one entry), folds of commands seen from
one entry, sorted-bucket facts.
-/
set_option linter.unusedSimpArgs false
set_option linter.unusedVariables false
namespace Sozu.State
open Sozu KMap

-- ------------------------------------------------------------ look / put --

@[simp] theorem look_init (t : Target) : look St.init t = none := rfl

@[simp] theorem look_put_same (s : St) (t : Target) (v : Option Val) : look (put s t v) t = v := by
  cases v <;> simp [look, put]

theorem look_put_ne (s : St) {t t' : Target} (v : Option Val) (h : t' ≠ t) :
    look (put s t v) t' = look s t' := by
  cases v <;> simp [look, put, get?_set_ne _ _ h, get?_erase_ne _ h]

theorem look_put (s : St) (t t' : Target) (v : Option Val) :
    look (put s t v) t' = if t' = t then v else look s t' := by
  by_cases h : t' = t
  · subst h; simp
  · simp [h, look_put_ne s v h]

/-- the entry-wise view of `dispatch` -/
theorem look_dispatch (env : Env) (s : St) (c : Cmd) (t : Target) :
    look (dispatch env s c).1 t =
      if tgt c = some t then (loc env c (look s t)).1 else look s t := by
  unfold dispatch
  cases h : tgt c with
  | none => simp
  | some t0 =>
    simp only [look_put]
    by_cases e : t = t0
    · subst e; simp
    · have : ¬ (some t0 = some t) := by intro h; injection h with h; exact e h.symm
      simp [e, this]

theorem dispatch_result (env : Env) (s : St) (c : Cmd) :
    (dispatch env s c).2 = match tgt c with
      | none => pre c
      | some t => (loc env c (look s t)).2 := by
  unfold dispatch
  cases tgt c <;> rfl

/-- what a command list does to entry `t`, seen from `t` alone -/
def foldT (env : Env) (t : Target) (v : Option Val) (cs : List Cmd) : Option Val :=
  cs.foldl (fun v c => if tgt c = some t then (loc env c v).1 else v) v

theorem look_run (env : Env) (cs : List Cmd) (s : St) (t : Target) :
    look (run env s cs) t = foldT env t (look s t) cs := by
  induction cs generalizing s with
  | nil => rfl
  | cons c cs ih =>
    simp only [run, List.foldl_cons, foldT] at ih ⊢
    rw [ih, look_dispatch]

theorem foldT_append (env : Env) (t : Target) (v : Option Val) (a b : List Cmd) :
    foldT env t v (a ++ b) = foldT env t (foldT env t v a) b := by
  simp [foldT, List.foldl_append]

theorem foldT_skip (env : Env) (t : Target) (v : Option Val) (cs : List Cmd)
    (h : ∀ c ∈ cs, tgt c ≠ some t) : foldT env t v cs = v := by
  induction cs generalizing v with
  | nil => rfl
  | cons c cs ih =>
    have hc : tgt c ≠ some t := h c (by simp)
    simp only [foldT, List.foldl_cons, hc, if_false]
    exact ih v (fun c' hc' => h c' (by simp [hc']))

theorem foldT_flatMap_skip {α : Type} (env : Env) (t : Target) (v : Option Val) (l : List α)
    (f : α → List Cmd) (h : ∀ a ∈ l, ∀ c ∈ f a, tgt c ≠ some t) :
    foldT env t v (l.flatMap f) = v := by
  apply foldT_skip
  intro c hc
  rcases List.mem_flatMap.mp hc with ⟨a, ha, hca⟩
  exact h a ha c hca

/-- all results `Ok`, seen entry by entry -/
theorem allOk_append (env : Env) (s : St) (a b : List Cmd) :
    allOk env s (a ++ b) = (allOk env s a && allOk env (run env s a) b) := by
  induction a generalizing s with
  | nil => simp [allOk, run]
  | cons c cs ih =>
    simp only [List.cons_append, allOk, run, List.foldl_cons] at ih ⊢
    rw [ih, Bool.and_assoc]

-- --------------------------------------------------------- sorted buckets --

/-- a backend `Vec` in `Backend::cmp` order -/
def SortedB (l : List Backend) : Prop := l.Pairwise (fun a b => a.le b = true)

theorem sortB_of_sorted (l : List Backend) (h : SortedB l) : sortB l = l := by
  induction l with
  | nil => rfl
  | cons a t ih =>
    have ht : SortedB t := (List.pairwise_cons.mp h).2
    simp only [sortB, List.foldr_cons] at ih ⊢
    rw [ih ht]
    cases t with
    | nil => rfl
    | cons b t' =>
      have hab : a.le b = true := (List.pairwise_cons.mp h).1 b (by simp)
      simp [insertB, hab]

theorem length_insertB (x : Backend) (l : List Backend) : (insertB x l).length = l.length + 1 := by
  induction l with
  | nil => rfl
  | cons y ys ih => simp only [insertB]; split <;> simp [ih]

theorem length_sortB (l : List Backend) : (sortB l).length = l.length := by
  induction l with
  | nil => rfl
  | cons a t ih => simp only [sortB, List.foldr_cons] at ih ⊢; rw [length_insertB, ih]; rfl

theorem filter_eq_self_of_length {α : Type} (p : α → Bool) (l : List α)
    (h : (l.filter p).length = l.length) : l.filter p = l := by
  induction l with
  | nil => rfl
  | cons a t ih =>
    by_cases hp : p a = true
    · simp only [List.filter_cons, hp, if_true, List.length_cons] at h ⊢
      rw [ih (by omega)]
    · have hle := List.length_filter_le p t
      simp only [List.filter_cons, hp, List.length_cons] at h
      simp at h
      omega

-- ---------------------------------------------------------------- diffMap --

/-- a strict total order given as a boolean `lt` -/
structure StrictTotal {κ : Type} (lt : κ → κ → Bool) : Prop where
  irrefl : ∀ a, lt a a = false
  trans : ∀ a b c, lt a b = true → lt b c = true → lt a c = true
  tri : ∀ a b, lt a b = false → lt b a = false → a = b

/-- strictly ascending keys (what iterating a `BTreeMap` yields) -/
def KeysSorted {κ ν : Type} (lt : κ → κ → Bool) (l : List (κ × ν)) : Prop :=
  l.Pairwise (fun x y => lt x.1 y.1 = true)

/-- what `diff_map` is supposed to report for key `k` -/
def DiffSpec {κ ν : Type} (a b : List (κ × ν)) (k : κ) (r : DiffRes) : Prop :=
  (r = .removed ∧ (∃ v, (k, v) ∈ a) ∧ ∀ v, (k, v) ∉ b) ∨
  (r = .added ∧ (∃ v, (k, v) ∈ b) ∧ ∀ v, (k, v) ∉ a) ∨
  (r = .changed ∧ ∃ v v', (k, v) ∈ a ∧ (k, v') ∈ b ∧ v ≠ v')

theorem mem_diffMapAux {κ ν : Type} [DecidableEq ν] (lt : κ → κ → Bool) (h : StrictTotal lt)
    (n : Nat) (a b : List (κ × ν)) (hn : a.length + b.length ≤ n)
    (ha : KeysSorted lt a) (hb : KeysSorted lt b) (k : κ) (r : DiffRes) :
    (k, r) ∈ diffMapAux lt n a b ↔ DiffSpec a b k r := by
  have nomem : ∀ (l : List (κ × ν)) (k1 : κ), (∀ a' ∈ l, lt k1 a'.1 = true) → ∀ v, (k1, v) ∉ l := by
    intro l k1 hl v hm
    have := hl _ hm
    simp [h.irrefl] at this
  have nomem2 : ∀ (l : List (κ × ν)) (k1 k2 : κ), lt k1 k2 = true →
      (∀ a' ∈ l, lt k2 a'.1 = true) → ∀ v, (k1, v) ∉ l := by
    intro l k1 k2 h12 hl v hm
    have h1 := hl _ hm
    have := h.trans _ _ _ h12 h1
    simp [h.irrefl] at this
  fun_induction diffMapAux lt n a b <;>
    simp only [KeysSorted, List.pairwise_cons, DiffSpec, List.length_cons, List.length_nil] at *
  all_goals try (grind [StrictTotal])
  next n k1 v1 ms k2 v2 os h1 h2 hv ih =>
    have e : k1 = k2 := h.tri _ _ (by simpa using h1) (by simpa using h2)
    subst e
    have n1 := nomem ms k1 ha.1
    have n2 := nomem os k1 hb.1
    have ihh := ih (by omega) ha.2 hb.2
    rw [List.mem_cons]
    constructor
    · rintro (e | hrec0)
      · injection e with ek er; subst ek; subst er
        exact Or.inr (Or.inr ⟨rfl, v1, v2, by simp, by simp, hv⟩)
      · have hrec := ihh.mp hrec0
        grind
    · intro hs
      by_cases e : k = k1
      · subst e
        left
        rcases hs with ⟨_, ⟨v, hv1⟩, hn⟩ | ⟨_, ⟨v, hv1⟩, hn⟩ | ⟨hr, _⟩
        · exact absurd (by simp) (hn v2)
        · exact absurd (by simp) (hn v1)
        · rw [hr]
      · right; apply ihh.mpr; grind

theorem diffMapAux_self {κ ν : Type} [DecidableEq ν] (lt : κ → κ → Bool)
    (hirr : ∀ a, lt a a = false) (n : Nat) (a : List (κ × ν)) : diffMapAux lt n a a = [] := by
  induction n generalizing a with
  | zero => rfl
  | succ n ih =>
    cases a with
    | nil => rfl
    | cons x t => obtain ⟨k, v⟩ := x; simp [diffMapAux, hirr, ih]

theorem strictTotal_nat : StrictTotal (fun (x y : Nat) => decide (x < y)) :=
  ⟨by intro a; simp, by intro a b c; simp; omega, by intro a b; simp; omega⟩

theorem strictTotal_ltPair : StrictTotal ltPair := by
  refine ⟨?_, ?_, ?_⟩
  · intro a; simp [ltPair]
  · intro a b c; simp only [ltPair, Bool.or_eq_true, Bool.and_eq_true, decide_eq_true_eq, beq_iff_eq]; omega
  · intro a b
    obtain ⟨a1, a2⟩ := a; obtain ⟨b1, b2⟩ := b
    simp only [ltPair, Bool.or_eq_false_iff, Bool.and_eq_false_iff, decide_eq_false_iff_not, beq_eq_false_iff_ne,
      ne_eq, Prod.mk.injEq]
    omega

theorem filter_not_contains_self {α : Type} [DecidableEq α] (l : List α) :
    l.filter (fun k => !l.contains k) = [] := by
  apply List.filter_eq_nil_iff.mpr
  intro a ha
  simp [ha]

theorem flatMap_nil_of {α β : Type} (l : List α) (f : α → List β) (h : ∀ a ∈ l, f a = []) :
    l.flatMap f = [] := by
  induction l with
  | nil => rfl
  | cons a t ih => simp [List.flatMap_cons, h a (by simp), ih (fun x hx => h x (by simp [hx]))]


-- ------------------------------------------- replay seen entry by entry --

/-- what a command list does to entry `t`, seen from `t` alone: the entry's value and whether
    every command addressed to `t` returned `Ok` -/
def foldTO (env : Env) (t : Target) (p : Option Val × Bool) (cs : List Cmd) : Option Val × Bool :=
  cs.foldl (fun p c => if tgt c = some t then ((loc env c p.1).1, p.2 && (loc env c p.1).2) else p) p

theorem foldTO_cons (env : Env) (t : Target) (p : Option Val × Bool) (c : Cmd) (cs : List Cmd) :
    foldTO env t p (c :: cs) =
      foldTO env t (if tgt c = some t then ((loc env c p.1).1, p.2 && (loc env c p.1).2) else p) cs := rfl

theorem foldTO_nil (env : Env) (t : Target) (p : Option Val × Bool) : foldTO env t p [] = p := rfl

theorem foldTO_append (env : Env) (t : Target) (p : Option Val × Bool) (a b : List Cmd) :
    foldTO env t p (a ++ b) = foldTO env t (foldTO env t p a) b := by
  simp [foldTO, List.foldl_append]

theorem foldTO_skip (env : Env) (t : Target) (p : Option Val × Bool) (cs : List Cmd)
    (h : ∀ c ∈ cs, tgt c ≠ some t) : foldTO env t p cs = p := by
  induction cs generalizing p with
  | nil => rfl
  | cons c cs ih =>
    have hc : tgt c ≠ some t := h c (by simp)
    simp only [foldTO_cons, hc, if_false]
    exact ih p (fun c' hc' => h c' (by simp [hc']))

theorem foldTO_flatMap_skip {α : Type} (env : Env) (t : Target) (p : Option Val × Bool) (l : List α)
    (f : α → List Cmd) (h : ∀ a ∈ l, ∀ c ∈ f a, tgt c ≠ some t) :
    foldTO env t p (l.flatMap f) = p := by
  apply foldTO_skip
  intro c hc
  rcases List.mem_flatMap.mp hc with ⟨a, ha, hca⟩
  exact h a ha c hca

theorem foldTO_fst (env : Env) (t : Target) (cs : List Cmd) (v : Option Val) (b : Bool) :
    (foldTO env t (v, b) cs).1 = foldT env t v cs := by
  induction cs generalizing v b with
  | nil => rfl
  | cons c cs ih =>
    simp only [foldTO_cons, foldT, List.foldl_cons] at ih ⊢
    by_cases h : tgt c = some t <;> simp [h, ih]

theorem foldTO_false (env : Env) (t : Target) (cs : List Cmd) (v : Option Val) :
    (foldTO env t (v, false) cs).2 = false := by
  induction cs generalizing v with
  | nil => rfl
  | cons c cs ih =>
    simp only [foldTO_cons]
    by_cases h : tgt c = some t <;> simp [h, ih]

theorem allOk_of_foldTO (env : Env) (cs : List Cmd) :
    ∀ (s : St), (∀ c ∈ cs, (tgt c).isSome = true) →
      (∀ t, (foldTO env t (look s t, true) cs).2 = true) → allOk env s cs = true := by
  induction cs with
  | nil => intro s _ _; rfl
  | cons c cs ih =>
    intro s htg hok
    have hc := htg c (by simp)
    obtain ⟨t0, ht0⟩ := Option.isSome_iff_exists.mp hc
    have h0 := hok t0
    simp only [foldTO_cons, ht0, if_true, Bool.true_and] at h0
    have hloc : (loc env c (look s t0)).2 = true := by
      cases hb : (loc env c (look s t0)).2 with
      | true => rfl
      | false => rw [hb, foldTO_false] at h0; exact absurd h0 (by simp)
    simp only [allOk, Bool.and_eq_true]
    refine ⟨by rw [dispatch_result, ht0]; exact hloc, ?_⟩
    apply ih _ (fun c' hc' => htg c' (by simp [hc']))
    intro t
    rw [look_dispatch, ht0]
    by_cases e : t = t0
    · subst e; simp only [if_true]; rw [hloc] at h0; exact h0
    · have hne : ¬ (some t0 = some t) := by intro h; injection h with h; exact e h.symm
      have := hok t
      simp only [foldTO_cons, ht0, hne, if_false] at this
      simpa [hne] using this

/-- well-formedness of one entry: the value sits under its own key, in the shape the verbs
    of the code leave it -/
def EntryOK (env : Env) : Target → Val → Prop
  | .cluster id, .cluster c => c.id = id ∧ (∀ h, c.hc = some h → h.valid = true)
  | .backends cid, .backends l =>
      SortedB l ∧ (∀ b ∈ l, b.cluster = cid ∧ canon b.addr = b.addr) ∧
      l.Pairwise (fun x y => x.id ≠ y.id ∨ x.addr ≠ y.addr)
  | .httpL a, .hl l => canon l.addr = a
  | .httpsL a, .hl l => canon l.addr = a
  | .tcpL a, .tl l => canon l.addr = a
  | .udpL a, .ul l => canon l.addr = a
  | .httpF k, .front f => fkey (toReq f) = k ∧ toFrontend (toReq f) = some f
  | .httpsF k, .front f => fkey (toReq f) = k ∧ toFrontend (toReq f) = some f
  | .tcpF cid, .tfs l => (∀ f ∈ l, f.cluster = cid ∧ canon f.addr = f.addr) ∧ l.Nodup
  | .udpF cid, .tfs l => (∀ f ∈ l, f.cluster = cid ∧ canon f.addr = f.addr) ∧ l.Nodup
  | .certs a, .certs m =>
      canon a = a ∧ m.Pairwise (fun x y => x.1 < y.1) ∧
      ∀ p ∈ m, env.fp p.2.pem = some p.1 ∧ resolveNames env p.2 = some p.2
  | _, _ => False

theorem genEntry_tgt (env : Env) (t : Target) (v : Val) (h : EntryOK env t v) :
    ∀ c ∈ genEntry (t, v), tgt c = some t := by
  cases t <;> cases v <;> simp only [EntryOK] at h <;>
    simp only [genEntry, genListener, certCmds, List.mem_cons, List.mem_map, List.not_mem_nil] <;>
    intro c hc
  all_goals first
    | (rcases hc with rfl | hc
       · simp [tgt, h]
       · split at hc
         · simp at hc; subst hc; simp [tgt, listenerTarget, h]
         · simp at hc)
    | (simp at hc; subst hc; simp [tgt, h])
    | (obtain ⟨x, hx, rfl⟩ := hc; simp [tgt, h, (h.2.1 x hx).1])
    | (obtain ⟨x, hx, rfl⟩ := hc; simp [tgt, h, (h.1 x hx).1])
    | (obtain ⟨x, hx, rfl⟩ := hc; simp [tgt, h.1])
    | skip


theorem certInsertSorted_append (fp : Nat) (c : Cert) (m : List (Nat × Cert)) (h : ∀ p ∈ m, p.1 < fp) :
    certInsertSorted fp c m = m ++ [(fp, c)] := by
  induction m with
  | nil => rfl
  | cons x t ih =>
    obtain ⟨k, v⟩ := x
    have hk : k < fp := h (k, v) (by simp)
    have h1 : ¬ fp < k := by omega
    have h2 : ¬ fp = k := by omega
    simp [certInsertSorted, h1, h2, ih (fun p hp => h p (by simp [hp]))]

theorem certGet_none_of_lt (m : List (Nat × Cert)) (fp : Nat) (h : ∀ p ∈ m, p.1 < fp) : certGet m fp = none := by
  have : m.find? (fun p => decide (p.1 = fp)) = none := by
    apply List.find?_eq_none.mpr
    intro p hp; have := h p hp; simp; omega
  simp [certGet, this]

theorem foldTO_certs (env : Env) (a : Nat) (ha : canon a = a) (suf : List (Nat × Cert)) :
    ∀ (pre : List (Nat × Cert)) (v : Option Val), certsOf v = pre → suf ≠ [] →
      (pre ++ suf).Pairwise (fun x y => x.1 < y.1) →
      (∀ p ∈ suf, env.fp p.2.pem = some p.1 ∧ resolveNames env p.2 = some p.2) →
      foldTO env (.certs a) (v, true) (certCmds a suf) = (some (.certs (pre ++ suf)), true) := by
  induction suf with
  | nil => intro pre v _ hne; exact absurd rfl hne
  | cons p rest ih =>
    intro pre v hv _ hs hok
    have hp := hok p (by simp)
    have hlt : ∀ q ∈ pre, q.1 < p.1 := by
      intro q hq
      have := List.pairwise_append.mp hs
      exact this.2.2 q hq p (by simp)
    have step : loc env (.addCert a p.2) v = (some (.certs (pre ++ [p])), true) := by
      simp only [loc, hp.1, hp.2, hv, certGet_none_of_lt pre p.1 hlt, certSet,
        certInsertSorted_append p.1 p.2 pre hlt]
      simp
    simp only [certCmds, List.map_cons, foldTO_cons, tgt, ha, if_true, step, Bool.and_true]
    cases rest with
    | nil => simp [foldTO_nil]
    | cons q rest' =>
      have := ih (pre ++ [p]) (some (.certs (pre ++ [p]))) rfl (by simp)
        (by simpa [List.append_assoc] using hs) (fun x hx => hok x (by simp [hx]))
      simpa [certCmds, List.append_assoc] using this

theorem addTcpFront_fold (suf : List TcpFront) :
    ∀ (pre : List TcpFront) (v : Option Val), tfsOf v = pre → suf ≠ [] → (pre ++ suf).Nodup →
      (∀ f ∈ suf, canon f.addr = f.addr) →
      suf.foldl (fun (p : Option Val × Bool) f => ((addTcpFront f p.1).1, p.2 && (addTcpFront f p.1).2)) (v, true)
        = (some (.tfs (pre ++ suf)), true) := by
  induction suf with
  | nil => intro pre v _ hne; exact absurd rfl hne
  | cons f rest ih =>
    intro pre v hv _ hnd hc
    have hf : ({ f with addr := canon f.addr } : TcpFront) = f := by
      have := hc f (by simp); cases f; simp_all
    have hnot : f ∉ pre := by
      have := List.nodup_append.mp hnd
      intro hin; exact this.2.2 f hin f (by simp) rfl
    have step : addTcpFront f v = (some (.tfs (pre ++ [f])), true) := by
      simp [addTcpFront, hv, hf, hnot]
    simp only [List.foldl_cons, step, Bool.and_true]
    cases rest with
    | nil => simp
    | cons g rest' =>
      have := ih (pre ++ [f]) (some (.tfs (pre ++ [f]))) rfl (by simp)
        (by simpa [List.append_assoc] using hnd) (fun x hx => hc x (by simp [hx]))
      simpa [List.append_assoc] using this

theorem foldTO_tcpF (env : Env) (cid : Nat) (l : List TcpFront) (p : Option Val × Bool)
    (h : ∀ f ∈ l, f.cluster = cid) :
    foldTO env (.tcpF cid) p (l.map Cmd.addTcpF) =
      l.foldl (fun (p : Option Val × Bool) f => ((addTcpFront f p.1).1, p.2 && (addTcpFront f p.1).2)) p := by
  induction l generalizing p with
  | nil => rfl
  | cons f t ih =>
    have := h f (by simp)
    simp only [List.map_cons, foldTO_cons, tgt, this, if_true, List.foldl_cons, loc]
    exact ih _ (fun x hx => h x (by simp [hx]))

theorem foldTO_udpF (env : Env) (cid : Nat) (l : List TcpFront) (p : Option Val × Bool)
    (h : ∀ f ∈ l, f.cluster = cid) :
    foldTO env (.udpF cid) p (l.map Cmd.addUdpF) =
      l.foldl (fun (p : Option Val × Bool) f => ((addTcpFront f p.1).1, p.2 && (addTcpFront f p.1).2)) p := by
  induction l generalizing p with
  | nil => rfl
  | cons f t ih =>
    have := h f (by simp)
    simp only [List.map_cons, foldTO_cons, tgt, this, if_true, List.foldl_cons, loc]
    exact ih _ (fun x hx => h x (by simp [hx]))

theorem foldTO_backends (env : Env) (cid : Nat) (suf : List Backend) :
    ∀ (pre : List Backend) (v : Option Val), backendsOf v = pre → suf ≠ [] → SortedB (pre ++ suf) →
      (pre ++ suf).Pairwise (fun x y => x.id ≠ y.id ∨ x.addr ≠ y.addr) →
      (∀ b ∈ suf, b.cluster = cid ∧ canon b.addr = b.addr) →
      foldTO env (.backends cid) (v, true) (suf.map Cmd.addBackend) = (some (.backends (pre ++ suf)), true) := by
  induction suf with
  | nil => intro pre v _ hne; exact absurd rfl hne
  | cons b rest ih =>
    intro pre v hv _ hs hd hc
    have hb := hc b (by simp)
    have hb' : ({ b with addr := canon b.addr } : Backend) = b := by cases b; simp_all
    have hkeep : pre.filter (fun x => decide (x.id ≠ b.id ∨ x.addr ≠ b.addr)) = pre := by
      apply List.filter_eq_self.mpr
      intro x hx
      have := (List.pairwise_append.mp hd).2.2 x hx b (by simp)
      simpa using this
    have hsorted : SortedB (pre ++ [b]) := by
      refine List.Pairwise.sublist ?_ hs
      exact List.Sublist.append_left (by simp) pre
    have step : loc env (.addBackend b) v = (some (.backends (pre ++ [b])), true) := by
      simp only [loc, hb', hv]
      rw [hb.2, hkeep, sortB_of_sorted _ hsorted]
    simp only [List.map_cons, foldTO_cons, tgt, hb.1, if_true, step, Bool.and_true]
    cases rest with
    | nil => simp [foldTO_nil]
    | cons g rest' =>
      have := ih (pre ++ [b]) (some (.backends (pre ++ [b]))) rfl (by simp)
        (by simpa [List.append_assoc] using hs) (by simpa [List.append_assoc] using hd)
        (fun x hx => hc x (by simp [hx]))
      simpa [List.append_assoc] using this

theorem hl_active_eta (l : HttpL) (h : l.active = true) : ({ l with active := true } : HttpL) = l := by
  cases l; simp_all
theorem tl_active_eta (l : TcpL) (h : l.active = true) : ({ l with active := true } : TcpL) = l := by
  cases l; simp_all
theorem ul_active_eta (l : UdpL) (h : l.active = true) : ({ l with active := true } : UdpL) = l := by
  cases l; simp_all

/-- replaying the requests generated for one well-formed entry, on an absent entry, is accepted
    command by command and rebuilds the entry (up to an empty bucket) -/
theorem entry_roundtrip (env : Env) (t : Target) (v : Val) (h : EntryOK env t v) :
    ∃ v', foldTO env t (none, true) (genEntry (t, v)) = (v', true) ∧ norm v' = norm (some v) := by
  cases t <;> cases v <;> simp only [EntryOK] at h <;> try (exact False.elim h)
  case cluster.cluster id c =>
    refine ⟨some (.cluster c), ?_, rfl⟩
    simp only [genEntry, foldTO_cons, foldTO_nil, tgt, h.1, if_true, loc]
    cases hh : c.hc with
    | none => rfl
    | some hc => simp [h.2 hc hh]
  case backends.backends cid l =>
    cases l with
    | nil => exact ⟨none, rfl, rfl⟩
    | cons b t =>
      have := foldTO_backends env cid (b :: t) [] none rfl (by simp) (by simpa using h.1)
        (by simpa using h.2.2) h.2.1
      exact ⟨_, by simpa [genEntry] using this, rfl⟩
  case httpL.hl a l =>
    refine ⟨some (.hl l), ?_, rfl⟩
    simp only [genEntry, genListener, foldTO_cons, tgt, h, if_true, loc]
    by_cases ha : l.active = true
    · simp [ha, foldTO_cons, foldTO_nil, tgt, listenerTarget, h, loc, setActive, hl_active_eta l ha]
    · simp [ha, foldTO_nil]
  case httpsL.hl a l =>
    refine ⟨some (.hl l), ?_, rfl⟩
    simp only [genEntry, genListener, foldTO_cons, tgt, h, if_true, loc]
    by_cases ha : l.active = true
    · simp [ha, foldTO_cons, foldTO_nil, tgt, listenerTarget, h, loc, setActive, hl_active_eta l ha]
    · simp [ha, foldTO_nil]
  case tcpL.tl a l =>
    refine ⟨some (.tl l), ?_, rfl⟩
    simp only [genEntry, genListener, foldTO_cons, tgt, h, if_true, loc]
    by_cases ha : l.active = true
    · simp [ha, foldTO_cons, foldTO_nil, tgt, listenerTarget, h, loc, setActive, tl_active_eta l ha]
    · simp [ha, foldTO_nil]
  case udpL.ul a l =>
    refine ⟨some (.ul l), ?_, rfl⟩
    simp only [genEntry, genListener, foldTO_cons, tgt, h, if_true, loc]
    by_cases ha : l.active = true
    · simp [ha, foldTO_cons, foldTO_nil, tgt, listenerTarget, h, loc, setActive, ul_active_eta l ha]
    · simp [ha, foldTO_nil]
  case httpF.front k f =>
    exact ⟨some (.front f), by simp [genEntry, foldTO_cons, foldTO_nil, tgt, h.1, loc, addFront, h.2], rfl⟩
  case httpsF.front k f =>
    exact ⟨some (.front f), by simp [genEntry, foldTO_cons, foldTO_nil, tgt, h.1, loc, addFront, h.2], rfl⟩
  case tcpF.tfs cid l =>
    cases l with
    | nil => exact ⟨none, rfl, rfl⟩
    | cons f t =>
      refine ⟨some (.tfs (f :: t)), ?_, rfl⟩
      simp only [genEntry]
      rw [foldTO_tcpF env cid _ _ (fun x hx => (h.1 x hx).1),
        addTcpFront_fold (f :: t) [] none rfl (by simp) (by simpa using h.2) (fun x hx => (h.1 x hx).2)]
      rfl
  case udpF.tfs cid l =>
    cases l with
    | nil => exact ⟨none, rfl, rfl⟩
    | cons f t =>
      refine ⟨some (.tfs (f :: t)), ?_, rfl⟩
      simp only [genEntry]
      rw [foldTO_udpF env cid _ _ (fun x hx => (h.1 x hx).1),
        addTcpFront_fold (f :: t) [] none rfl (by simp) (by simpa using h.2) (fun x hx => (h.1 x hx).2)]
      rfl
  case certs.certs a m =>
    cases m with
    | nil => exact ⟨none, rfl, rfl⟩
    | cons p t =>
      refine ⟨some (.certs (p :: t)), ?_, rfl⟩
      simp only [genEntry]
      rw [foldTO_certs env a h.1 (p :: t) [] none rfl (by simp) (by simpa using h.2.1) h.2.2]
      rfl

/-- well-formed state: one binding per key, every entry well-formed -/
def WF (env : Env) (s : St) : Prop := (s.map (·.1)).Nodup ∧ ∀ e ∈ s, EntryOK env e.1 e.2

theorem foldTO_entries (env : Env) (t : Target) (L : List (Target × Val)) :
    ∀ (p0 : Option Val × Bool), (L.map (·.1)).Nodup → (∀ e ∈ L, EntryOK env e.1 e.2) →
      foldTO env t p0 (L.flatMap genEntry) =
        match L.find? (fun e => e.1 = t) with
        | some e => foldTO env t p0 (genEntry e)
        | none => p0 := by
  induction L with
  | nil => intro p0 _ _; rfl
  | cons e L ih =>
    intro p0 hnd hok
    have hnd' : e.1 ∉ L.map (·.1) ∧ (L.map (·.1)).Nodup := List.nodup_cons.mp hnd
    have hokL : ∀ e' ∈ L, EntryOK env e'.1 e'.2 := fun e' he' => hok e' (by simp [he'])
    simp only [List.flatMap_cons, foldTO_append]
    by_cases he : e.1 = t
    · have hskip : foldTO env t (foldTO env t p0 (genEntry e)) (L.flatMap genEntry) = foldTO env t p0 (genEntry e) := by
        apply foldTO_flatMap_skip
        intro e' he' c hc
        have := genEntry_tgt env e'.1 e'.2 (hokL e' he') c hc
        rw [this]
        intro h; injection h with h
        apply hnd'.1
        rw [he, ← h]
        exact List.mem_map.mpr ⟨e', he', rfl⟩
      simp [List.find?_cons, he, hskip]
    · have hskip : foldTO env t p0 (genEntry e) = p0 := by
        apply foldTO_skip
        intro c hc
        have := genEntry_tgt env e.1 e.2 (hok e (by simp)) c hc
        rw [this]; intro h; injection h with h; exact he h
      simp only [hskip, List.find?_cons, he, decide_false]
      exact ih p0 hnd'.2 hokL

theorem find_section (s : St) (t : Target) (i : Nat) :
    (sectionEntries s i).find? (fun e => e.1 = t) =
      if i = sectionOf t then s.find? (fun e => e.1 = t) else none := by
  unfold sectionEntries
  induction s with
  | nil => simp
  | cons e s ih =>
    by_cases hi : sectionOf e.1 = i
    · by_cases he : e.1 = t
      · subst he; subst hi; simp [List.filter_cons]
      · subst hi; simp only [List.filter_cons, decide_true, if_true, List.find?_cons, he, decide_false]; exact ih
    · by_cases he : e.1 = t
      · subst he
        have : ¬ i = sectionOf e.1 := fun h => hi h.symm
        simp only [List.filter_cons, hi, decide_false, List.find?_cons, decide_true, this, if_false]
        simpa [this] using ih
      · simp only [List.filter_cons, hi, decide_false, List.find?_cons, he]; exact ih

theorem foldTO_section (env : Env) (s : St) (hs : WF env s) (t : Target) (i : Nat) (p0 : Option Val × Bool) :
    foldTO env t p0 ((sectionEntries s i).flatMap genEntry) =
      if i = sectionOf t then
        (match s.find? (fun e => e.1 = t) with
         | some e => foldTO env t p0 (genEntry e)
         | none => p0)
      else p0 := by
  have hsub : (sectionEntries s i).Sublist s := List.filter_sublist
  rw [foldTO_entries env t _ p0 (List.Nodup.sublist (List.Sublist.map _ hsub) hs.1)
    (fun e he => hs.2 e (hsub.subset he)), find_section]
  by_cases hi : i = sectionOf t <;> simp [hi]

theorem foldTO_generate (env : Env) (s : St) (hs : WF env s) (t : Target) :
    foldTO env t (none, true) (generateRequests s) =
      match s.find? (fun e => e.1 = t) with
      | some e => foldTO env t (none, true) (genEntry e)
      | none => (none, true) := by
  have hr : List.range 11 = [0, 1, 2, 3, 4, 5, 6, 7, 8, 9, 10] := by decide
  unfold generateRequests
  rw [hr]
  simp only [List.flatMap_cons, List.flatMap_nil, List.append_nil, foldTO_append, foldTO_section env s hs]
  cases t <;> simp [sectionOf] <;> split <;> rfl

theorem look_eq_find (s : St) (t : Target) :
    look s t = (s.find? (fun e => e.1 = t)).map (·.2) := by
  simp only [look, KMap.get?]
  cases s.find? (fun p => decide (p.1 = t)) <;> rfl

theorem generate_has_target (env : Env) (s : St) (hs : WF env s) :
    ∀ c ∈ generateRequests s, (tgt c).isSome = true := by
  intro c hc
  unfold generateRequests at hc
  rcases List.mem_flatMap.mp hc with ⟨i, _, hc⟩
  rcases List.mem_flatMap.mp hc with ⟨e, he, hc⟩
  have hes : e ∈ s := (List.mem_filter.mp he).1
  rw [genEntry_tgt env e.1 e.2 (hs.2 e hes) c hc]
  rfl

theorem foldT_filter (env : Env) (t : Target) (v : Option Val) (cs : List Cmd) :
    foldT env t v cs = foldT env t v (cs.filter (fun c => tgt c = some t)) := by
  induction cs generalizing v with
  | nil => rfl
  | cons c cs ih =>
    by_cases h : tgt c = some t
    · simp only [foldT, List.foldl_cons, h, if_true, List.filter_cons, decide_true] at ih ⊢
      exact ih _
    · simp only [foldT, List.foldl_cons, h, if_false, List.filter_cons, decide_false] at ih ⊢
      exact ih _

end Sozu.State
