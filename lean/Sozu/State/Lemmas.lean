import Sozu.State.Model
/-
Helper lemmas for the State model: entry get/put laws, the locality of
`dispatch` (a verb reads and writes one entry), folds of commands seen from
one entry, sorted-bucket facts.
-/
set_option linter.unusedSimpArgs false
set_option linter.unusedVariables false
namespace Sozu.State
open Sozu KMap

-- ------------------------------------------------------------ look / put --

@[simp] theorem look_init (t : Target) : look St.init t = none := rfl

@[simp] theorem look_put_same (s : St) (t : Target) (v : Option Val) : look (put s t v) t = v := by
  cases v <;> simp [look, put]

theorem look_put_ne (s : St) {t t' : Target} (v : Option Val) (h : t' ≠ t) :
    look (put s t v) t' = look s t' := by
  cases v <;> simp [look, put, get?_set_ne _ _ h, get?_erase_ne _ h]

theorem look_put (s : St) (t t' : Target) (v : Option Val) :
    look (put s t v) t' = if t' = t then v else look s t' := by
  by_cases h : t' = t
  · subst h; simp
  · simp [h, look_put_ne s v h]

/-- the entry-wise view of `dispatch` -/
theorem look_dispatch (env : Env) (s : St) (c : Cmd) (t : Target) :
    look (dispatch env s c).1 t =
      if tgt c = some t then (loc env c (look s t)).1 else look s t := by
  unfold dispatch
  cases h : tgt c with
  | none => simp
  | some t0 =>
    simp only [look_put]
    by_cases e : t = t0
    · subst e; simp
    · have : ¬ (some t0 = some t) := by intro h; injection h with h; exact e h.symm
      simp [e, this]

theorem dispatch_result (env : Env) (s : St) (c : Cmd) :
    (dispatch env s c).2 = match tgt c with
      | none => pre c
      | some t => (loc env c (look s t)).2 := by
  unfold dispatch
  cases tgt c <;> rfl

/-- what a command list does to entry `t`, seen from `t` alone -/
def foldT (env : Env) (t : Target) (v : Option Val) (cs : List Cmd) : Option Val :=
  cs.foldl (fun v c => if tgt c = some t then (loc env c v).1 else v) v

theorem look_run (env : Env) (cs : List Cmd) (s : St) (t : Target) :
    look (run env s cs) t = foldT env t (look s t) cs := by
  induction cs generalizing s with
  | nil => rfl
  | cons c cs ih =>
    simp only [run, List.foldl_cons, foldT] at ih ⊢
    rw [ih, look_dispatch]

theorem foldT_append (env : Env) (t : Target) (v : Option Val) (a b : List Cmd) :
    foldT env t v (a ++ b) = foldT env t (foldT env t v a) b := by
  simp [foldT, List.foldl_append]

theorem foldT_skip (env : Env) (t : Target) (v : Option Val) (cs : List Cmd)
    (h : ∀ c ∈ cs, tgt c ≠ some t) : foldT env t v cs = v := by
  induction cs generalizing v with
  | nil => rfl
  | cons c cs ih =>
    have hc : tgt c ≠ some t := h c (by simp)
    simp only [foldT, List.foldl_cons, hc, if_false]
    exact ih v (fun c' hc' => h c' (by simp [hc']))

theorem foldT_flatMap_skip {α : Type} (env : Env) (t : Target) (v : Option Val) (l : List α)
    (f : α → List Cmd) (h : ∀ a ∈ l, ∀ c ∈ f a, tgt c ≠ some t) :
    foldT env t v (l.flatMap f) = v := by
  apply foldT_skip
  intro c hc
  rcases List.mem_flatMap.mp hc with ⟨a, ha, hca⟩
  exact h a ha c hca

/-- all results `Ok`, seen entry by entry -/
theorem allOk_append (env : Env) (s : St) (a b : List Cmd) :
    allOk env s (a ++ b) = (allOk env s a && allOk env (run env s a) b) := by
  induction a generalizing s with
  | nil => simp [allOk, run]
  | cons c cs ih =>
    simp only [List.cons_append, allOk, run, List.foldl_cons] at ih ⊢
    rw [ih, Bool.and_assoc]

-- --------------------------------------------------------- sorted buckets --

/-- a backend `Vec` in `Backend::cmp` order -/
def SortedB (l : List Backend) : Prop := l.Pairwise (fun a b => a.le b = true)

theorem sortB_of_sorted (l : List Backend) (h : SortedB l) : sortB l = l := by
  induction l with
  | nil => rfl
  | cons a t ih =>
    have ht : SortedB t := (List.pairwise_cons.mp h).2
    simp only [sortB, List.foldr_cons] at ih ⊢
    rw [ih ht]
    cases t with
    | nil => rfl
    | cons b t' =>
      have hab : a.le b = true := (List.pairwise_cons.mp h).1 b (by simp)
      simp [insertB, hab]

theorem length_insertB (x : Backend) (l : List Backend) : (insertB x l).length = l.length + 1 := by
  induction l with
  | nil => rfl
  | cons y ys ih => simp only [insertB]; split <;> simp [ih]

theorem length_sortB (l : List Backend) : (sortB l).length = l.length := by
  induction l with
  | nil => rfl
  | cons a t ih => simp only [sortB, List.foldr_cons] at ih ⊢; rw [length_insertB, ih]; rfl

theorem filter_eq_self_of_length {α : Type} (p : α → Bool) (l : List α)
    (h : (l.filter p).length = l.length) : l.filter p = l := by
  induction l with
  | nil => rfl
  | cons a t ih =>
    by_cases hp : p a = true
    · simp only [List.filter_cons, hp, if_true, List.length_cons] at h ⊢
      rw [ih (by omega)]
    · have hle := List.length_filter_le p t
      simp only [List.filter_cons, hp, List.length_cons] at h
      simp at h
      omega

end Sozu.State
