import Sozu.State.Model
/-
Helper lemmas for the State model: entry get/put laws, the locality of
`dispatch` (a verb reads and writes one entry), folds of commands seen from
one entry, sorted-bucket facts.
-/
set_option linter.unusedSimpArgs false
set_option linter.unusedVariables false
namespace Sozu.State
open Sozu KMap

-- ------------------------------------------------------------ look / put --

@[simp] theorem look_init (t : Target) : look St.init t = none := rfl

@[simp] theorem look_put_same (s : St) (t : Target) (v : Option Val) : look (put s t v) t = v := by
  cases v <;> simp [look, put]

theorem look_put_ne (s : St) {t t' : Target} (v : Option Val) (h : t' ≠ t) :
    look (put s t v) t' = look s t' := by
  cases v <;> simp [look, put, get?_set_ne _ _ h, get?_erase_ne _ h]

theorem look_put (s : St) (t t' : Target) (v : Option Val) :
    look (put s t v) t' = if t' = t then v else look s t' := by
  by_cases h : t' = t
  · subst h; simp
  · simp [h, look_put_ne s v h]

/-- the entry-wise view of `dispatch` -/
theorem look_dispatch (env : Env) (s : St) (c : Cmd) (t : Target) :
    look (dispatch env s c).1 t =
      if tgt c = some t then (loc env c (look s t)).1 else look s t := by
  unfold dispatch
  cases h : tgt c with
  | none => simp
  | some t0 =>
    simp only [look_put]
    by_cases e : t = t0
    · subst e; simp
    · have : ¬ (some t0 = some t) := by intro h; injection h with h; exact e h.symm
      simp [e, this]

theorem dispatch_result (env : Env) (s : St) (c : Cmd) :
    (dispatch env s c).2 = match tgt c with
      | none => pre c
      | some t => (loc env c (look s t)).2 := by
  unfold dispatch
  cases tgt c <;> rfl

/-- what a command list does to entry `t`, seen from `t` alone -/
def foldT (env : Env) (t : Target) (v : Option Val) (cs : List Cmd) : Option Val :=
  cs.foldl (fun v c => if tgt c = some t then (loc env c v).1 else v) v

theorem look_run (env : Env) (cs : List Cmd) (s : St) (t : Target) :
    look (run env s cs) t = foldT env t (look s t) cs := by
  induction cs generalizing s with
  | nil => rfl
  | cons c cs ih =>
    simp only [run, List.foldl_cons, foldT] at ih ⊢
    rw [ih, look_dispatch]

theorem foldT_append (env : Env) (t : Target) (v : Option Val) (a b : List Cmd) :
    foldT env t v (a ++ b) = foldT env t (foldT env t v a) b := by
  simp [foldT, List.foldl_append]

theorem foldT_skip (env : Env) (t : Target) (v : Option Val) (cs : List Cmd)
    (h : ∀ c ∈ cs, tgt c ≠ some t) : foldT env t v cs = v := by
  induction cs generalizing v with
  | nil => rfl
  | cons c cs ih =>
    have hc : tgt c ≠ some t := h c (by simp)
    simp only [foldT, List.foldl_cons, hc, if_false]
    exact ih v (fun c' hc' => h c' (by simp [hc']))

theorem foldT_flatMap_skip {α : Type} (env : Env) (t : Target) (v : Option Val) (l : List α)
    (f : α → List Cmd) (h : ∀ a ∈ l, ∀ c ∈ f a, tgt c ≠ some t) :
    foldT env t v (l.flatMap f) = v := by
  apply foldT_skip
  intro c hc
  rcases List.mem_flatMap.mp hc with ⟨a, ha, hca⟩
  exact h a ha c hca

/-- all results `Ok`, seen entry by entry -/
theorem allOk_append (env : Env) (s : St) (a b : List Cmd) :
    allOk env s (a ++ b) = (allOk env s a && allOk env (run env s a) b) := by
  induction a generalizing s with
  | nil => simp [allOk, run]
  | cons c cs ih =>
    simp only [List.cons_append, allOk, run, List.foldl_cons] at ih ⊢
    rw [ih, Bool.and_assoc]

-- --------------------------------------------------------- sorted buckets --

/-- a backend `Vec` in `Backend::cmp` order -/
def SortedB (l : List Backend) : Prop := l.Pairwise (fun a b => a.le b = true)

theorem sortB_of_sorted (l : List Backend) (h : SortedB l) : sortB l = l := by
  induction l with
  | nil => rfl
  | cons a t ih =>
    have ht : SortedB t := (List.pairwise_cons.mp h).2
    simp only [sortB, List.foldr_cons] at ih ⊢
    rw [ih ht]
    cases t with
    | nil => rfl
    | cons b t' =>
      have hab : a.le b = true := (List.pairwise_cons.mp h).1 b (by simp)
      simp [insertB, hab]

theorem length_insertB (x : Backend) (l : List Backend) : (insertB x l).length = l.length + 1 := by
  induction l with
  | nil => rfl
  | cons y ys ih => simp only [insertB]; split <;> simp [ih]

theorem length_sortB (l : List Backend) : (sortB l).length = l.length := by
  induction l with
  | nil => rfl
  | cons a t ih => simp only [sortB, List.foldr_cons] at ih ⊢; rw [length_insertB, ih]; rfl

theorem filter_eq_self_of_length {α : Type} (p : α → Bool) (l : List α)
    (h : (l.filter p).length = l.length) : l.filter p = l := by
  induction l with
  | nil => rfl
  | cons a t ih =>
    by_cases hp : p a = true
    · simp only [List.filter_cons, hp, if_true, List.length_cons] at h ⊢
      rw [ih (by omega)]
    · have hle := List.length_filter_le p t
      simp only [List.filter_cons, hp, List.length_cons] at h
      simp at h
      omega

-- ---------------------------------------------------------------- diffMap --

/-- a strict total order given as a boolean `lt` -/
structure StrictTotal {κ : Type} (lt : κ → κ → Bool) : Prop where
  irrefl : ∀ a, lt a a = false
  trans : ∀ a b c, lt a b = true → lt b c = true → lt a c = true
  tri : ∀ a b, lt a b = false → lt b a = false → a = b

/-- strictly ascending keys (what iterating a `BTreeMap` yields) -/
def KeysSorted {κ ν : Type} (lt : κ → κ → Bool) (l : List (κ × ν)) : Prop :=
  l.Pairwise (fun x y => lt x.1 y.1 = true)

/-- what `diff_map` is supposed to report for key `k` -/
def DiffSpec {κ ν : Type} (a b : List (κ × ν)) (k : κ) (r : DiffRes) : Prop :=
  (r = .removed ∧ (∃ v, (k, v) ∈ a) ∧ ∀ v, (k, v) ∉ b) ∨
  (r = .added ∧ (∃ v, (k, v) ∈ b) ∧ ∀ v, (k, v) ∉ a) ∨
  (r = .changed ∧ ∃ v v', (k, v) ∈ a ∧ (k, v') ∈ b ∧ v ≠ v')

theorem mem_diffMapAux {κ ν : Type} [DecidableEq ν] (lt : κ → κ → Bool) (h : StrictTotal lt)
    (n : Nat) (a b : List (κ × ν)) (hn : a.length + b.length ≤ n)
    (ha : KeysSorted lt a) (hb : KeysSorted lt b) (k : κ) (r : DiffRes) :
    (k, r) ∈ diffMapAux lt n a b ↔ DiffSpec a b k r := by
  have nomem : ∀ (l : List (κ × ν)) (k1 : κ), (∀ a' ∈ l, lt k1 a'.1 = true) → ∀ v, (k1, v) ∉ l := by
    intro l k1 hl v hm
    have := hl _ hm
    simp [h.irrefl] at this
  have nomem2 : ∀ (l : List (κ × ν)) (k1 k2 : κ), lt k1 k2 = true →
      (∀ a' ∈ l, lt k2 a'.1 = true) → ∀ v, (k1, v) ∉ l := by
    intro l k1 k2 h12 hl v hm
    have h1 := hl _ hm
    have := h.trans _ _ _ h12 h1
    simp [h.irrefl] at this
  fun_induction diffMapAux lt n a b <;>
    simp only [KeysSorted, List.pairwise_cons, DiffSpec, List.length_cons, List.length_nil] at *
  all_goals try (grind [StrictTotal])
  next n k1 v1 ms k2 v2 os h1 h2 hv ih =>
    have e : k1 = k2 := h.tri _ _ (by simpa using h1) (by simpa using h2)
    subst e
    have n1 := nomem ms k1 ha.1
    have n2 := nomem os k1 hb.1
    have ihh := ih (by omega) ha.2 hb.2
    rw [List.mem_cons]
    constructor
    · rintro (e | hrec0)
      · injection e with ek er; subst ek; subst er
        exact Or.inr (Or.inr ⟨rfl, v1, v2, by simp, by simp, hv⟩)
      · have hrec := ihh.mp hrec0
        grind
    · intro hs
      by_cases e : k = k1
      · subst e
        left
        rcases hs with ⟨_, ⟨v, hv1⟩, hn⟩ | ⟨_, ⟨v, hv1⟩, hn⟩ | ⟨hr, _⟩
        · exact absurd (by simp) (hn v2)
        · exact absurd (by simp) (hn v1)
        · rw [hr]
      · right; apply ihh.mpr; grind

theorem diffMapAux_self {κ ν : Type} [DecidableEq ν] (lt : κ → κ → Bool)
    (hirr : ∀ a, lt a a = false) (n : Nat) (a : List (κ × ν)) : diffMapAux lt n a a = [] := by
  induction n generalizing a with
  | zero => rfl
  | succ n ih =>
    cases a with
    | nil => rfl
    | cons x t => obtain ⟨k, v⟩ := x; simp [diffMapAux, hirr, ih]

theorem strictTotal_nat : StrictTotal (fun (x y : Nat) => decide (x < y)) :=
  ⟨by intro a; simp, by intro a b c; simp; omega, by intro a b; simp; omega⟩

theorem strictTotal_ltPair : StrictTotal ltPair := by
  refine ⟨?_, ?_, ?_⟩
  · intro a; simp [ltPair]
  · intro a b c; simp only [ltPair, Bool.or_eq_true, Bool.and_eq_true, decide_eq_true_eq, beq_iff_eq]; omega
  · intro a b
    obtain ⟨a1, a2⟩ := a; obtain ⟨b1, b2⟩ := b
    simp only [ltPair, Bool.or_eq_false_iff, Bool.and_eq_false_iff, decide_eq_false_iff_not, beq_eq_false_iff_ne,
      ne_eq, Prod.mk.injEq]
    omega

theorem filter_not_contains_self {α : Type} [DecidableEq α] (l : List α) :
    l.filter (fun k => !l.contains k) = [] := by
  apply List.filter_eq_nil_iff.mpr
  intro a ha
  simp [ha]

theorem flatMap_nil_of {α β : Type} (l : List α) (f : α → List β) (h : ∀ a ∈ l, f a = []) :
    l.flatMap f = [] := by
  induction l with
  | nil => rfl
  | cons a t ih => simp [List.flatMap_cons, h a (by simp), ih (fun x hx => h x (by simp [hx]))]


-- ------------------------------------------- replay seen entry by entry --

/-- what a command list does to entry `t`, seen from `t` alone: the entry's value and whether
    every command addressed to `t` returned `Ok` -/
def foldTO (env : Env) (t : Target) (p : Option Val × Bool) (cs : List Cmd) : Option Val × Bool :=
  cs.foldl (fun p c => if tgt c = some t then ((loc env c p.1).1, p.2 && (loc env c p.1).2) else p) p

theorem foldTO_cons (env : Env) (t : Target) (p : Option Val × Bool) (c : Cmd) (cs : List Cmd) :
    foldTO env t p (c :: cs) =
      foldTO env t (if tgt c = some t then ((loc env c p.1).1, p.2 && (loc env c p.1).2) else p) cs := rfl

theorem foldTO_nil (env : Env) (t : Target) (p : Option Val × Bool) : foldTO env t p [] = p := rfl

theorem foldTO_append (env : Env) (t : Target) (p : Option Val × Bool) (a b : List Cmd) :
    foldTO env t p (a ++ b) = foldTO env t (foldTO env t p a) b := by
  simp [foldTO, List.foldl_append]

theorem foldTO_skip (env : Env) (t : Target) (p : Option Val × Bool) (cs : List Cmd)
    (h : ∀ c ∈ cs, tgt c ≠ some t) : foldTO env t p cs = p := by
  induction cs generalizing p with
  | nil => rfl
  | cons c cs ih =>
    have hc : tgt c ≠ some t := h c (by simp)
    simp only [foldTO_cons, hc, if_false]
    exact ih p (fun c' hc' => h c' (by simp [hc']))

theorem foldTO_flatMap_skip {α : Type} (env : Env) (t : Target) (p : Option Val × Bool) (l : List α)
    (f : α → List Cmd) (h : ∀ a ∈ l, ∀ c ∈ f a, tgt c ≠ some t) :
    foldTO env t p (l.flatMap f) = p := by
  apply foldTO_skip
  intro c hc
  rcases List.mem_flatMap.mp hc with ⟨a, ha, hca⟩
  exact h a ha c hca

theorem foldTO_fst (env : Env) (t : Target) (cs : List Cmd) (v : Option Val) (b : Bool) :
    (foldTO env t (v, b) cs).1 = foldT env t v cs := by
  induction cs generalizing v b with
  | nil => rfl
  | cons c cs ih =>
    simp only [foldTO_cons, foldT, List.foldl_cons] at ih ⊢
    by_cases h : tgt c = some t <;> simp [h, ih]

theorem foldTO_false (env : Env) (t : Target) (cs : List Cmd) (v : Option Val) :
    (foldTO env t (v, false) cs).2 = false := by
  induction cs generalizing v with
  | nil => rfl
  | cons c cs ih =>
    simp only [foldTO_cons]
    by_cases h : tgt c = some t <;> simp [h, ih]

theorem allOk_of_foldTO (env : Env) (cs : List Cmd) :
    ∀ (s : St), (∀ c ∈ cs, (tgt c).isSome = true) →
      (∀ t, (foldTO env t (look s t, true) cs).2 = true) → allOk env s cs = true := by
  induction cs with
  | nil => intro s _ _; rfl
  | cons c cs ih =>
    intro s htg hok
    have hc := htg c (by simp)
    obtain ⟨t0, ht0⟩ := Option.isSome_iff_exists.mp hc
    have h0 := hok t0
    simp only [foldTO_cons, ht0, if_true, Bool.true_and] at h0
    have hloc : (loc env c (look s t0)).2 = true := by
      cases hb : (loc env c (look s t0)).2 with
      | true => rfl
      | false => rw [hb, foldTO_false] at h0; exact absurd h0 (by simp)
    simp only [allOk, Bool.and_eq_true]
    refine ⟨by rw [dispatch_result, ht0]; exact hloc, ?_⟩
    apply ih _ (fun c' hc' => htg c' (by simp [hc']))
    intro t
    rw [look_dispatch, ht0]
    by_cases e : t = t0
    · subst e; simp only [if_true]; rw [hloc] at h0; exact h0
    · have hne : ¬ (some t0 = some t) := by intro h; injection h with h; exact e h.symm
      have := hok t
      simp only [foldTO_cons, ht0, hne, if_false] at this
      simpa [hne] using this

/-- well-formedness of one entry: the value sits under its own key, in the shape the verbs
    of the code leave it -/
def EntryOK (env : Env) : Target → Val → Prop
  | .cluster id, .cluster c => c.id = id ∧ (∀ h, c.hc = some h → h.valid = true)
  | .backends cid, .backends l =>
      SortedB l ∧ (∀ b ∈ l, b.cluster = cid ∧ canon b.addr = b.addr) ∧
      l.Pairwise (fun x y => x.id ≠ y.id ∨ x.addr ≠ y.addr)
  | .httpL a, .hl l => canon l.addr = a
  | .httpsL a, .hl l => canon l.addr = a
  | .tcpL a, .tl l => canon l.addr = a
  | .udpL a, .ul l => canon l.addr = a
  | .httpF k, .front f => fkey (toReq f) = k ∧ toFrontend (toReq f) = some f
  | .httpsF k, .front f => fkey (toReq f) = k ∧ toFrontend (toReq f) = some f
  | .tcpF cid, .tfs l => (∀ f ∈ l, f.cluster = cid ∧ canon f.addr = f.addr) ∧ l.Nodup
  | .udpF cid, .tfs l => (∀ f ∈ l, f.cluster = cid ∧ canon f.addr = f.addr) ∧ l.Nodup
  | .certs a, .certs m =>
      canon a = a ∧ m.Pairwise (fun x y => x.1 < y.1) ∧
      ∀ p ∈ m, env.fp p.2.pem = some p.1 ∧ resolveNames env p.2 = some p.2
  | _, _ => False

theorem genEntry_tgt (env : Env) (t : Target) (v : Val) (h : EntryOK env t v) :
    ∀ c ∈ genEntry (t, v), tgt c = some t := by
  cases t <;> cases v <;> simp only [EntryOK] at h <;>
    simp only [genEntry, genListener, certCmds, List.mem_cons, List.mem_map, List.not_mem_nil] <;>
    intro c hc
  all_goals first
    | (rcases hc with rfl | hc
       · simp [tgt, h]
       · split at hc
         · simp at hc; subst hc; simp [tgt, listenerTarget, h]
         · simp at hc)
    | (simp at hc; subst hc; simp [tgt, h])
    | (obtain ⟨x, hx, rfl⟩ := hc; simp [tgt, h, (h.2.1 x hx).1])
    | (obtain ⟨x, hx, rfl⟩ := hc; simp [tgt, h, (h.1 x hx).1])
    | (obtain ⟨x, hx, rfl⟩ := hc; simp [tgt, h.1])
    | skip


theorem certInsertSorted_append (fp : Nat) (c : Cert) (m : List (Nat × Cert)) (h : ∀ p ∈ m, p.1 < fp) :
    certInsertSorted fp c m = m ++ [(fp, c)] := by
  induction m with
  | nil => rfl
  | cons x t ih =>
    obtain ⟨k, v⟩ := x
    have hk : k < fp := h (k, v) (by simp)
    have h1 : ¬ fp < k := by omega
    have h2 : ¬ fp = k := by omega
    simp [certInsertSorted, h1, h2, ih (fun p hp => h p (by simp [hp]))]

theorem certGet_none_of_lt (m : List (Nat × Cert)) (fp : Nat) (h : ∀ p ∈ m, p.1 < fp) : certGet m fp = none := by
  have : m.find? (fun p => decide (p.1 = fp)) = none := by
    apply List.find?_eq_none.mpr
    intro p hp; have := h p hp; simp; omega
  simp [certGet, this]

theorem foldTO_certs (env : Env) (a : Nat) (ha : canon a = a) (suf : List (Nat × Cert)) :
    ∀ (pre : List (Nat × Cert)) (v : Option Val), certsOf v = pre → suf ≠ [] →
      (pre ++ suf).Pairwise (fun x y => x.1 < y.1) →
      (∀ p ∈ suf, env.fp p.2.pem = some p.1 ∧ resolveNames env p.2 = some p.2) →
      foldTO env (.certs a) (v, true) (certCmds a suf) = (some (.certs (pre ++ suf)), true) := by
  induction suf with
  | nil => intro pre v _ hne; exact absurd rfl hne
  | cons p rest ih =>
    intro pre v hv _ hs hok
    have hp := hok p (by simp)
    have hlt : ∀ q ∈ pre, q.1 < p.1 := by
      intro q hq
      have := List.pairwise_append.mp hs
      exact this.2.2 q hq p (by simp)
    have step : loc env (.addCert a p.2) v = (some (.certs (pre ++ [p])), true) := by
      simp only [loc, hp.1, hp.2, hv, certGet_none_of_lt pre p.1 hlt, certSet,
        certInsertSorted_append p.1 p.2 pre hlt]
      simp
    simp only [certCmds, List.map_cons, foldTO_cons, tgt, ha, if_true, step, Bool.and_true]
    cases rest with
    | nil => simp [foldTO_nil]
    | cons q rest' =>
      have := ih (pre ++ [p]) (some (.certs (pre ++ [p]))) rfl (by simp)
        (by simpa [List.append_assoc] using hs) (fun x hx => hok x (by simp [hx]))
      simpa [certCmds, List.append_assoc] using this

theorem addTcpFront_fold (suf : List TcpFront) :
    ∀ (pre : List TcpFront) (v : Option Val), tfsOf v = pre → suf ≠ [] → (pre ++ suf).Nodup →
      (∀ f ∈ suf, canon f.addr = f.addr) →
      suf.foldl (fun (p : Option Val × Bool) f => ((addTcpFront f p.1).1, p.2 && (addTcpFront f p.1).2)) (v, true)
        = (some (.tfs (pre ++ suf)), true) := by
  induction suf with
  | nil => intro pre v _ hne; exact absurd rfl hne
  | cons f rest ih =>
    intro pre v hv _ hnd hc
    have hf : ({ f with addr := canon f.addr } : TcpFront) = f := by
      have := hc f (by simp); cases f; simp_all
    have hnot : f ∉ pre := by
      have := List.nodup_append.mp hnd
      intro hin; exact this.2.2 f hin f (by simp) rfl
    have step : addTcpFront f v = (some (.tfs (pre ++ [f])), true) := by
      simp [addTcpFront, hv, hf, hnot]
    simp only [List.foldl_cons, step, Bool.and_true]
    cases rest with
    | nil => simp
    | cons g rest' =>
      have := ih (pre ++ [f]) (some (.tfs (pre ++ [f]))) rfl (by simp)
        (by simpa [List.append_assoc] using hnd) (fun x hx => hc x (by simp [hx]))
      simpa [List.append_assoc] using this

theorem foldTO_tcpF (env : Env) (cid : Nat) (l : List TcpFront) (p : Option Val × Bool)
    (h : ∀ f ∈ l, f.cluster = cid) :
    foldTO env (.tcpF cid) p (l.map Cmd.addTcpF) =
      l.foldl (fun (p : Option Val × Bool) f => ((addTcpFront f p.1).1, p.2 && (addTcpFront f p.1).2)) p := by
  induction l generalizing p with
  | nil => rfl
  | cons f t ih =>
    have := h f (by simp)
    simp only [List.map_cons, foldTO_cons, tgt, this, if_true, List.foldl_cons, loc]
    exact ih _ (fun x hx => h x (by simp [hx]))

theorem foldTO_udpF (env : Env) (cid : Nat) (l : List TcpFront) (p : Option Val × Bool)
    (h : ∀ f ∈ l, f.cluster = cid) :
    foldTO env (.udpF cid) p (l.map Cmd.addUdpF) =
      l.foldl (fun (p : Option Val × Bool) f => ((addTcpFront f p.1).1, p.2 && (addTcpFront f p.1).2)) p := by
  induction l generalizing p with
  | nil => rfl
  | cons f t ih =>
    have := h f (by simp)
    simp only [List.map_cons, foldTO_cons, tgt, this, if_true, List.foldl_cons, loc]
    exact ih _ (fun x hx => h x (by simp [hx]))

theorem foldTO_backends (env : Env) (cid : Nat) (suf : List Backend) :
    ∀ (pre : List Backend) (v : Option Val), backendsOf v = pre → suf ≠ [] → SortedB (pre ++ suf) →
      (pre ++ suf).Pairwise (fun x y => x.id ≠ y.id ∨ x.addr ≠ y.addr) →
      (∀ b ∈ suf, b.cluster = cid ∧ canon b.addr = b.addr) →
      foldTO env (.backends cid) (v, true) (suf.map Cmd.addBackend) = (some (.backends (pre ++ suf)), true) := by
  induction suf with
  | nil => intro pre v _ hne; exact absurd rfl hne
  | cons b rest ih =>
    intro pre v hv _ hs hd hc
    have hb := hc b (by simp)
    have hb' : ({ b with addr := canon b.addr } : Backend) = b := by cases b; simp_all
    have hkeep : pre.filter (fun x => decide (x.id ≠ b.id ∨ x.addr ≠ b.addr)) = pre := by
      apply List.filter_eq_self.mpr
      intro x hx
      have := (List.pairwise_append.mp hd).2.2 x hx b (by simp)
      simpa using this
    have hsorted : SortedB (pre ++ [b]) := by
      refine List.Pairwise.sublist ?_ hs
      exact List.Sublist.append_left (by simp) pre
    have step : loc env (.addBackend b) v = (some (.backends (pre ++ [b])), true) := by
      simp only [loc, hb', hv]
      rw [hb.2, hkeep, sortB_of_sorted _ hsorted]
    simp only [List.map_cons, foldTO_cons, tgt, hb.1, if_true, step, Bool.and_true]
    cases rest with
    | nil => simp [foldTO_nil]
    | cons g rest' =>
      have := ih (pre ++ [b]) (some (.backends (pre ++ [b]))) rfl (by simp)
        (by simpa [List.append_assoc] using hs) (by simpa [List.append_assoc] using hd)
        (fun x hx => hc x (by simp [hx]))
      simpa [List.append_assoc] using this

theorem hl_active_eta (l : HttpL) (h : l.active = true) : ({ l with active := true } : HttpL) = l := by
  cases l; simp_all
theorem tl_active_eta (l : TcpL) (h : l.active = true) : ({ l with active := true } : TcpL) = l := by
  cases l; simp_all
theorem ul_active_eta (l : UdpL) (h : l.active = true) : ({ l with active := true } : UdpL) = l := by
  cases l; simp_all

/-- replaying the requests generated for one well-formed entry, on an absent entry, is accepted
    command by command and rebuilds the entry (up to an empty bucket) -/
theorem entry_roundtrip (env : Env) (t : Target) (v : Val) (h : EntryOK env t v) :
    ∃ v', foldTO env t (none, true) (genEntry (t, v)) = (v', true) ∧ norm v' = norm (some v) := by
  cases t <;> cases v <;> simp only [EntryOK] at h <;> try (exact False.elim h)
  case cluster.cluster id c =>
    refine ⟨some (.cluster c), ?_, rfl⟩
    simp only [genEntry, foldTO_cons, foldTO_nil, tgt, h.1, if_true, loc]
    cases hh : c.hc with
    | none => rfl
    | some hc => simp [h.2 hc hh]
  case backends.backends cid l =>
    cases l with
    | nil => exact ⟨none, rfl, rfl⟩
    | cons b t =>
      have := foldTO_backends env cid (b :: t) [] none rfl (by simp) (by simpa using h.1)
        (by simpa using h.2.2) h.2.1
      exact ⟨_, by simpa [genEntry] using this, rfl⟩
  case httpL.hl a l =>
    refine ⟨some (.hl l), ?_, rfl⟩
    simp only [genEntry, genListener, foldTO_cons, tgt, h, if_true, loc]
    by_cases ha : l.active = true
    · simp [ha, foldTO_cons, foldTO_nil, tgt, listenerTarget, h, loc, setActive, hl_active_eta l ha]
    · simp [ha, foldTO_nil]
  case httpsL.hl a l =>
    refine ⟨some (.hl l), ?_, rfl⟩
    simp only [genEntry, genListener, foldTO_cons, tgt, h, if_true, loc]
    by_cases ha : l.active = true
    · simp [ha, foldTO_cons, foldTO_nil, tgt, listenerTarget, h, loc, setActive, hl_active_eta l ha]
    · simp [ha, foldTO_nil]
  case tcpL.tl a l =>
    refine ⟨some (.tl l), ?_, rfl⟩
    simp only [genEntry, genListener, foldTO_cons, tgt, h, if_true, loc]
    by_cases ha : l.active = true
    · simp [ha, foldTO_cons, foldTO_nil, tgt, listenerTarget, h, loc, setActive, tl_active_eta l ha]
    · simp [ha, foldTO_nil]
  case udpL.ul a l =>
    refine ⟨some (.ul l), ?_, rfl⟩
    simp only [genEntry, genListener, foldTO_cons, tgt, h, if_true, loc]
    by_cases ha : l.active = true
    · simp [ha, foldTO_cons, foldTO_nil, tgt, listenerTarget, h, loc, setActive, ul_active_eta l ha]
    · simp [ha, foldTO_nil]
  case httpF.front k f =>
    exact ⟨some (.front f), by simp [genEntry, foldTO_cons, foldTO_nil, tgt, h.1, loc, addFront, h.2], rfl⟩
  case httpsF.front k f =>
    exact ⟨some (.front f), by simp [genEntry, foldTO_cons, foldTO_nil, tgt, h.1, loc, addFront, h.2], rfl⟩
  case tcpF.tfs cid l =>
    cases l with
    | nil => exact ⟨none, rfl, rfl⟩
    | cons f t =>
      refine ⟨some (.tfs (f :: t)), ?_, rfl⟩
      simp only [genEntry]
      rw [foldTO_tcpF env cid _ _ (fun x hx => (h.1 x hx).1),
        addTcpFront_fold (f :: t) [] none rfl (by simp) (by simpa using h.2) (fun x hx => (h.1 x hx).2)]
      rfl
  case udpF.tfs cid l =>
    cases l with
    | nil => exact ⟨none, rfl, rfl⟩
    | cons f t =>
      refine ⟨some (.tfs (f :: t)), ?_, rfl⟩
      simp only [genEntry]
      rw [foldTO_udpF env cid _ _ (fun x hx => (h.1 x hx).1),
        addTcpFront_fold (f :: t) [] none rfl (by simp) (by simpa using h.2) (fun x hx => (h.1 x hx).2)]
      rfl
  case certs.certs a m =>
    cases m with
    | nil => exact ⟨none, rfl, rfl⟩
    | cons p t =>
      refine ⟨some (.certs (p :: t)), ?_, rfl⟩
      simp only [genEntry]
      rw [foldTO_certs env a h.1 (p :: t) [] none rfl (by simp) (by simpa using h.2.1) h.2.2]
      rfl

/-- well-formed state: one binding per key, every entry well-formed -/
def WF (env : Env) (s : St) : Prop := (s.map (·.1)).Nodup ∧ ∀ e ∈ s, EntryOK env e.1 e.2

theorem foldTO_entries (env : Env) (t : Target) (L : List (Target × Val)) :
    ∀ (p0 : Option Val × Bool), (L.map (·.1)).Nodup → (∀ e ∈ L, EntryOK env e.1 e.2) →
      foldTO env t p0 (L.flatMap genEntry) =
        match L.find? (fun e => e.1 = t) with
        | some e => foldTO env t p0 (genEntry e)
        | none => p0 := by
  induction L with
  | nil => intro p0 _ _; rfl
  | cons e L ih =>
    intro p0 hnd hok
    have hnd' : e.1 ∉ L.map (·.1) ∧ (L.map (·.1)).Nodup := List.nodup_cons.mp hnd
    have hokL : ∀ e' ∈ L, EntryOK env e'.1 e'.2 := fun e' he' => hok e' (by simp [he'])
    simp only [List.flatMap_cons, foldTO_append]
    by_cases he : e.1 = t
    · have hskip : foldTO env t (foldTO env t p0 (genEntry e)) (L.flatMap genEntry) = foldTO env t p0 (genEntry e) := by
        apply foldTO_flatMap_skip
        intro e' he' c hc
        have := genEntry_tgt env e'.1 e'.2 (hokL e' he') c hc
        rw [this]
        intro h; injection h with h
        apply hnd'.1
        rw [he, ← h]
        exact List.mem_map.mpr ⟨e', he', rfl⟩
      simp [List.find?_cons, he, hskip]
    · have hskip : foldTO env t p0 (genEntry e) = p0 := by
        apply foldTO_skip
        intro c hc
        have := genEntry_tgt env e.1 e.2 (hok e (by simp)) c hc
        rw [this]; intro h; injection h with h; exact he h
      simp only [hskip, List.find?_cons, he, decide_false]
      exact ih p0 hnd'.2 hokL

theorem find_section (s : St) (t : Target) (i : Nat) :
    (sectionEntries s i).find? (fun e => e.1 = t) =
      if i = sectionOf t then s.find? (fun e => e.1 = t) else none := by
  unfold sectionEntries
  induction s with
  | nil => simp
  | cons e s ih =>
    by_cases hi : sectionOf e.1 = i
    · by_cases he : e.1 = t
      · subst he; subst hi; simp [List.filter_cons]
      · subst hi; simp only [List.filter_cons, decide_true, if_true, List.find?_cons, he, decide_false]; exact ih
    · by_cases he : e.1 = t
      · subst he
        have : ¬ i = sectionOf e.1 := fun h => hi h.symm
        simp only [List.filter_cons, hi, decide_false, List.find?_cons, decide_true, this, if_false]
        simpa [this] using ih
      · simp only [List.filter_cons, hi, decide_false, List.find?_cons, he]; exact ih

theorem foldTO_section (env : Env) (s : St) (hs : WF env s) (t : Target) (i : Nat) (p0 : Option Val × Bool) :
    foldTO env t p0 ((sectionEntries s i).flatMap genEntry) =
      if i = sectionOf t then
        (match s.find? (fun e => e.1 = t) with
         | some e => foldTO env t p0 (genEntry e)
         | none => p0)
      else p0 := by
  have hsub : (sectionEntries s i).Sublist s := List.filter_sublist
  rw [foldTO_entries env t _ p0 (List.Nodup.sublist (List.Sublist.map _ hsub) hs.1)
    (fun e he => hs.2 e (hsub.subset he)), find_section]
  by_cases hi : i = sectionOf t <;> simp [hi]

theorem foldTO_generate (env : Env) (s : St) (hs : WF env s) (t : Target) :
    foldTO env t (none, true) (generateRequests s) =
      match s.find? (fun e => e.1 = t) with
      | some e => foldTO env t (none, true) (genEntry e)
      | none => (none, true) := by
  have hr : List.range 11 = [0, 1, 2, 3, 4, 5, 6, 7, 8, 9, 10] := by decide
  unfold generateRequests
  rw [hr]
  simp only [List.flatMap_cons, List.flatMap_nil, List.append_nil, foldTO_append, foldTO_section env s hs]
  cases t <;> simp [sectionOf] <;> split <;> rfl

theorem look_eq_find (s : St) (t : Target) :
    look s t = (s.find? (fun e => e.1 = t)).map (·.2) := by
  simp only [look, KMap.get?]
  cases s.find? (fun p => decide (p.1 = t)) <;> rfl

theorem generate_has_target (env : Env) (s : St) (hs : WF env s) :
    ∀ c ∈ generateRequests s, (tgt c).isSome = true := by
  intro c hc
  unfold generateRequests at hc
  rcases List.mem_flatMap.mp hc with ⟨i, _, hc⟩
  rcases List.mem_flatMap.mp hc with ⟨e, he, hc⟩
  have hes : e ∈ s := (List.mem_filter.mp he).1
  rw [genEntry_tgt env e.1 e.2 (hs.2 e hes) c hc]
  rfl

theorem foldT_filter (env : Env) (t : Target) (v : Option Val) (cs : List Cmd) :
    foldT env t v cs = foldT env t v (cs.filter (fun c => tgt c = some t)) := by
  induction cs generalizing v with
  | nil => rfl
  | cons c cs ih =>
    by_cases h : tgt c = some t
    · simp only [foldT, List.foldl_cons, h, if_true, List.filter_cons, decide_true] at ih ⊢
      exact ih _
    · simp only [foldT, List.foldl_cons, h, if_false, List.filter_cons, decide_false] at ih ⊢
      exact ih _


-- ------------------------------------------------- diff seen entry by entry --

theorem mem_insertByKey {ν : Type} (x y : Nat × ν) (l : List (Nat × ν)) :
    y ∈ insertByKey x l ↔ y = x ∨ y ∈ l := by
  induction l with
  | nil => simp [insertByKey]
  | cons z t ih =>
    simp only [insertByKey]
    split
    · simp
    · simp only [List.mem_cons, ih]; constructor <;> (intro h; rcases h with h | h | h <;> simp [h])

theorem mem_sortByKey {ν : Type} (y : Nat × ν) (l : List (Nat × ν)) : y ∈ sortByKey l ↔ y ∈ l := by
  induction l with
  | nil => simp [sortByKey]
  | cons z t ih => simp only [sortByKey, List.foldr_cons] at ih ⊢; rw [mem_insertByKey, ih]; simp

theorem sorted_insertByKey {ν : Type} (x : Nat × ν) (l : List (Nat × ν))
    (h : l.Pairwise (fun a b => a.1 ≤ b.1)) : (insertByKey x l).Pairwise (fun a b => a.1 ≤ b.1) := by
  induction l with
  | nil => simp [insertByKey]
  | cons z t ih =>
    simp only [insertByKey]
    have hz := List.pairwise_cons.mp h
    split
    · next hle =>
      refine List.pairwise_cons.mpr ⟨?_, h⟩
      intro a ha
      rcases List.mem_cons.mp ha with rfl | ha
      · exact hle
      · exact Nat.le_trans hle (hz.1 a ha)
    · next hle =>
      refine List.pairwise_cons.mpr ⟨?_, ih hz.2⟩
      intro a ha
      rcases (mem_insertByKey x a t).mp ha with rfl | ha
      · omega
      · exact hz.1 a ha

theorem sorted_sortByKey {ν : Type} (l : List (Nat × ν)) : (sortByKey l).Pairwise (fun a b => a.1 ≤ b.1) := by
  induction l with
  | nil => simp [sortByKey]
  | cons z t ih => simp only [sortByKey, List.foldr_cons] at ih ⊢; exact sorted_insertByKey z _ ih

/-- ascending + pairwise distinct keys = strictly ascending -/
theorem strict_of_sorted_distinct {ν : Type} (l : List (Nat × ν))
    (h1 : l.Pairwise (fun a b => a.1 ≤ b.1)) (h2 : l.Pairwise (fun a b => a.1 ≠ b.1)) :
    KeysSorted (fun (x y : Nat) => decide (x < y)) l := by
  unfold KeysSorted
  have := List.Pairwise.and h1 h2
  refine List.Pairwise.imp ?_ this
  intro a b hab; simp; omega

/-- the pairwise-distinctness of keys is a property of the multiset of keys -/
theorem distinct_sortByKey {ν : Type} (l : List (Nat × ν)) (h : (l.map (·.1)).Nodup) :
    (sortByKey l).Pairwise (fun a b => a.1 ≠ b.1) := by
  induction l with
  | nil => simp [sortByKey]
  | cons z t ih =>
    have hz : z.1 ∉ t.map (·.1) ∧ (t.map (·.1)).Nodup := List.nodup_cons.mp h
    simp only [sortByKey, List.foldr_cons] at ih ⊢
    have iht := ih hz.2
    have hnot : ∀ a ∈ List.foldr insertByKey [] t, a.1 ≠ z.1 := by
      intro a ha
      have : a ∈ t := (mem_sortByKey a t).mp ha
      intro e; exact hz.1 (List.mem_map.mpr ⟨a, this, e⟩)
    generalize List.foldr insertByKey [] t = s at iht hnot
    induction s with
    | nil => simp [insertByKey]
    | cons w s ihs =>
      simp only [insertByKey]
      have hw := List.pairwise_cons.mp iht
      split
      · refine List.pairwise_cons.mpr ⟨?_, iht⟩
        intro a ha; exact fun e => hnot a ha e.symm
      · refine List.pairwise_cons.mpr ⟨?_, ihs hw.2 (fun a ha => hnot a (by simp [ha]))⟩
        intro a ha
        rcases (mem_insertByKey z a s).mp ha with rfl | ha
        · exact hnot w (by simp)
        · exact hw.1 a ha

-- ------------------------------------------------------ targets of diff --

/-- the map a target belongs to is `sectionOf`; the sections of `diff` other than the one
    computed for a map never address that map -/
theorem sec_removedL (ty : LType) (a b : St) (keys : Target → Option Nat) :
    ∀ c ∈ diffRemovedL ty a b keys, ∃ k, tgt c = some (listenerTarget ty k) := by
  intro c hc
  simp only [diffRemovedL, List.mem_flatMap] at hc
  obtain ⟨k, _, hc⟩ := hc
  simp only [List.mem_append, List.mem_cons, List.not_mem_nil, or_false] at hc
  rcases hc with hc | rfl
  · split at hc
    · simp at hc; subst hc; exact ⟨k, rfl⟩
    · simp at hc
  · exact ⟨k, rfl⟩

theorem sec_of_listenerTarget (ty : LType) (k : Nat) :
    sectionOf (listenerTarget ty k) = match ty with | .http => 0 | .https => 1 | .tcp => 2 | .udp => 3 := by
  cases ty <;> rfl

theorem addListenerCmd_sec (ty : LType) (v : Val) : ∀ c ∈ addListenerCmd ty v, ∃ t, tgt c = some t ∧ sectionOf t ≤ 3 := by
  intro c hc
  cases v <;> simp [addListenerCmd] at hc
  · subst hc; cases ty <;> exact ⟨_, rfl, by simp [sectionOf]⟩
  · subst hc; exact ⟨_, rfl, by simp [sectionOf]⟩
  · subst hc; exact ⟨_, rfl, by simp [sectionOf]⟩

theorem listener_cmds_sec (ty : LType) (a b : St) (keys : Target → Option Nat) :
    ∀ c ∈ diffRemovedL ty a b keys ++ diffAddedL ty a b keys ++ diffCommonL ty a b keys ++ diffReactivate ty a b keys,
      ∃ t, tgt c = some t ∧ sectionOf t ≤ 3 := by
  intro c hc
  have hl : ∀ k, sectionOf (listenerTarget ty k) ≤ 3 := by intro k; cases ty <;> simp [listenerTarget, sectionOf]
  simp only [List.mem_append] at hc
  rcases hc with ((hc | hc) | hc) | hc
  · obtain ⟨k, hk⟩ := sec_removedL ty a b keys c hc
    exact ⟨_, hk, hl k⟩
  · simp only [diffAddedL, List.mem_flatMap] at hc
    obtain ⟨k, _, hc⟩ := hc
    split at hc
    · simp only [List.mem_append] at hc
      rcases hc with hc | hc
      · exact addListenerCmd_sec ty _ c hc
      · split at hc
        · simp at hc; subst hc; exact ⟨_, rfl, hl k⟩
        · simp at hc
    · simp at hc
  · simp only [diffCommonL, List.mem_flatMap] at hc
    obtain ⟨k, _, hc⟩ := hc
    split at hc
    · simp only [List.mem_append] at hc
      rcases hc with hc | hc
      · split at hc
        · simp only [List.mem_append, List.mem_cons, List.not_mem_nil, or_false] at hc
          rcases hc with (rfl | hc) | hc
          · exact ⟨_, rfl, hl k⟩
          · exact addListenerCmd_sec ty _ c hc
          · split at hc
            · simp at hc; subst hc; exact ⟨_, rfl, hl k⟩
            · simp at hc
        · simp at hc
      · split at hc
        · simp at hc; subst hc; exact ⟨_, rfl, hl k⟩
        · simp at hc
    · simp at hc
  · simp only [diffReactivate, List.mem_flatMap] at hc
    obtain ⟨k, _, hc⟩ := hc
    split at hc
    · split at hc
      · simp at hc; subst hc; exact ⟨_, rfl, hl _⟩
      · simp at hc
    · split at hc
      · simp at hc; subst hc; exact ⟨_, rfl, hl _⟩
      · simp at hc
    · simp at hc

theorem foldT_skip_sec (env : Env) (t : Target) (v : Option Val) (cs : List Cmd)
    (h : ∀ c ∈ cs, ∃ t', tgt c = some t' ∧ sectionOf t' ≠ sectionOf t) : foldT env t v cs = v := by
  apply foldT_skip
  intro c hc e
  obtain ⟨t', h1, h2⟩ := h c hc
  rw [h1] at e; injection e with e; subst e; exact h2 rfl

theorem sec_clusters (a b : St) : ∀ c ∈ diffClusters a b, ∃ t, tgt c = some t ∧ sectionOf t = 4 := by
  intro c hc
  simp only [diffClusters, List.mem_flatMap] at hc
  obtain ⟨r, _, hc⟩ := hc
  split at hc
  · split at hc
    · simp at hc; subst hc; exact ⟨_, rfl, rfl⟩
    · simp at hc
  · split at hc
    · simp at hc; subst hc; exact ⟨_, rfl, rfl⟩
    · simp at hc
  · simp at hc; subst hc; exact ⟨_, rfl, rfl⟩

theorem sec_backends (a b : St) : ∀ c ∈ diffBackends a b, ∃ t, tgt c = some t ∧ sectionOf t = 10 := by
  intro c hc
  simp only [diffBackends, List.mem_flatMap] at hc
  obtain ⟨r, _, hc⟩ := hc
  split at hc <;> simp only [List.mem_append, List.mem_map, Option.mem_toList] at hc
  · obtain ⟨x, _, rfl⟩ := hc; exact ⟨_, rfl, rfl⟩
  · obtain ⟨x, _, rfl⟩ := hc; exact ⟨_, rfl, rfl⟩
  · rcases hc with ⟨x, _, rfl⟩ | ⟨x, _, rfl⟩ <;> exact ⟨_, rfl, rfl⟩

theorem sec_fronts (a b : St) (https : Bool) :
    ∀ c ∈ diffFronts a b https, ∃ t, tgt c = some t ∧ sectionOf t = (if https then 7 else 5) := by
  intro c hc
  simp only [diffFronts, List.mem_append, List.mem_map] at hc
  rcases hc with ⟨p, _, rfl⟩ | ⟨p, _, rfl⟩ <;> cases https <;> exact ⟨_, rfl, rfl⟩

theorem sec_tcpFronts (a b : St) (udp : Bool) :
    ∀ c ∈ diffTcpFronts a b udp, ∃ t, tgt c = some t ∧ sectionOf t = (if udp then 9 else 8) := by
  intro c hc
  simp only [diffTcpFronts, List.mem_append, List.mem_map] at hc
  rcases hc with ⟨p, _, rfl⟩ | ⟨p, _, rfl⟩ <;> cases udp <;> exact ⟨_, rfl, rfl⟩

theorem sec_certs (a b : St) : ∀ c ∈ diffCerts a b, ∃ t, tgt c = some t ∧ sectionOf t = 6 := by
  intro c hc
  simp only [diffCerts, List.mem_append, List.mem_map, List.mem_flatMap] at hc
  rcases hc with ⟨p, _, rfl⟩ | ⟨p, _, hc⟩
  · exact ⟨_, rfl, rfl⟩
  · split at hc
    · simp at hc; subst hc; exact ⟨_, rfl, rfl⟩
    · simp at hc

theorem sec_listener_part (ty : LType) (a b : St) (keys : Target → Option Nat) (part : List Cmd)
    (hp : part = diffRemovedL ty a b keys ∨ part = diffAddedL ty a b keys ∨ part = diffCommonL ty a b keys ∨
          part = diffReactivate ty a b keys) :
    ∀ c ∈ part, ∃ t, tgt c = some t ∧ sectionOf t ≤ 3 := by
  intro c hc
  apply listener_cmds_sec ty a b keys c
  simp only [List.mem_append]
  rcases hp with rfl | rfl | rfl | rfl <;> simp [hc]

/-- seen from an entry of a map with section ≥ 4, `diff` is the section computed for that map -/
theorem foldT_diff_nonlistener (env : Env) (a b : St) (t : Target) (v : Option Val) (h4 : 4 ≤ sectionOf t) :
    foldT env t v (diff a b) =
      foldT env t v (diffClusters a b ++ diffBackends a b ++ diffFronts a b false ++ diffFronts a b true ++
        diffTcpFronts a b false ++ diffTcpFronts a b true ++ diffCerts a b) := by
  have sk : ∀ (ty : LType) (keys : Target → Option Nat) (part : List Cmd) (w : Option Val),
      (part = diffRemovedL ty a b keys ∨ part = diffAddedL ty a b keys ∨ part = diffCommonL ty a b keys ∨
          part = diffReactivate ty a b keys) → foldT env t w part = w := by
    intro ty keys part w hp
    apply foldT_skip_sec
    intro c hc
    obtain ⟨t', h1, h2⟩ := sec_listener_part ty a b keys part hp c hc
    exact ⟨t', h1, by omega⟩
  unfold diff
  simp only [foldT_append]
  rw [sk .tcp isTcpL _ _ (Or.inl rfl), sk .tcp isTcpL _ _ (Or.inr (Or.inl rfl)),
      sk .udp isUdpL _ _ (Or.inl rfl), sk .udp isUdpL _ _ (Or.inr (Or.inl rfl)),
      sk .http isHttpL _ _ (Or.inl rfl), sk .http isHttpL _ _ (Or.inr (Or.inl rfl)),
      sk .https isHttpsL _ _ (Or.inl rfl), sk .https isHttpsL _ _ (Or.inr (Or.inl rfl)),
      sk .tcp isTcpL _ _ (Or.inr (Or.inr (Or.inl rfl))), sk .udp isUdpL _ _ (Or.inr (Or.inr (Or.inl rfl))),
      sk .http isHttpL _ _ (Or.inr (Or.inr (Or.inl rfl))), sk .https isHttpsL _ _ (Or.inr (Or.inr (Or.inl rfl))),
      sk .tcp isTcpL _ _ (Or.inr (Or.inr (Or.inr rfl))), sk .udp isUdpL _ _ (Or.inr (Or.inr (Or.inr rfl)))]

theorem mem_of_look (s : St) (t : Target) (v : Val) (h : look s t = some v) : (t, v) ∈ s := by
  rw [look_eq_find] at h
  cases hf : s.find? (fun e => decide (e.1 = t)) with
  | none => simp [hf] at h
  | some e =>
    have hm := List.mem_of_find?_eq_some hf
    have hk : e.1 = t := by simpa using List.find?_some hf
    simp [hf] at h
    obtain ⟨t', v'⟩ := e
    simp at hk h; subst hk; subst h; exact hm

theorem look_of_mem (s : St) (hnd : (s.map (·.1)).Nodup) (t : Target) (v : Val) (h : (t, v) ∈ s) :
    look s t = some v := by
  induction s with
  | nil => simp at h
  | cons e s ih =>
    have hz : e.1 ∉ s.map (·.1) ∧ (s.map (·.1)).Nodup := List.nodup_cons.mp hnd
    rw [look_eq_find]
    rcases List.mem_cons.mp h with rfl | h
    · simp [List.find?_cons]
    · have hne : e.1 ≠ t := by
        intro e'; apply hz.1; rw [e']; exact List.mem_map.mpr ⟨(t, v), h, rfl⟩
      simp only [List.find?_cons, hne, decide_false]
      rw [← look_eq_find]; exact ih hz.2 h

def clusterPair : Target × Val → Option (Nat × Cluster)
  | (.cluster id, .cluster c) => some (id, c)
  | _ => none

theorem clustersOf_eq (s : St) : clustersOf s = sortByKey (s.filterMap clusterPair) := by
  unfold clustersOf
  congr 1

theorem mem_clusterPairs (s : St) (id : Nat) (c : Cluster) :
    (id, c) ∈ s.filterMap clusterPair ↔ (Target.cluster id, Val.cluster c) ∈ s := by
  simp only [List.mem_filterMap]
  constructor
  · rintro ⟨e, he, h⟩
    obtain ⟨t, v⟩ := e
    cases t <;> cases v <;> simp [clusterPair] at h
    obtain ⟨rfl, rfl⟩ := h; exact he
  · intro h; exact ⟨_, h, rfl⟩

theorem nodup_clusterPairs (s : St) (hnd : (s.map (·.1)).Nodup) : ((s.filterMap clusterPair).map (·.1)).Nodup := by
  induction s with
  | nil => simp
  | cons e s ih =>
    have hz : e.1 ∉ s.map (·.1) ∧ (s.map (·.1)).Nodup := List.nodup_cons.mp hnd
    simp only [List.filterMap_cons]
    cases hp : clusterPair e with
    | none => exact ih hz.2
    | some p =>
      simp only [List.map_cons]
      refine List.nodup_cons.mpr ⟨?_, ih hz.2⟩
      intro hin
      obtain ⟨q, hq, hqe⟩ := List.mem_map.mp hin
      obtain ⟨t, v⟩ := e
      cases t <;> cases v <;> simp [clusterPair] at hp
      subst hp
      obtain ⟨qid, qc⟩ := q
      simp at hqe; subst hqe
      have := (mem_clusterPairs s _ qc).mp hq
      exact hz.1 (List.mem_map.mpr ⟨_, this, rfl⟩)

theorem clustersOf_spec (s : St) (hnd : (s.map (·.1)).Nodup) :
    KeysSorted (fun (x y : Nat) => decide (x < y)) (clustersOf s) ∧
    ∀ id c, (id, c) ∈ clustersOf s ↔ look s (.cluster id) = some (.cluster c) := by
  rw [clustersOf_eq]
  refine ⟨strict_of_sorted_distinct _ (sorted_sortByKey _) (distinct_sortByKey _ (nodup_clusterPairs s hnd)), ?_⟩
  intro id c
  rw [mem_sortByKey, mem_clusterPairs]
  exact ⟨look_of_mem s hnd _ _, mem_of_look s _ _⟩

/-- a command applied repeatedly: all the elements of `L` that produce a command for `t` produce
    the same command `c0`, whose effect on the value is idempotent -/
theorem foldT_flatMap_const {α : Type} (env : Env) (t : Target) (w : Option Val) (c0 : Cmd)
    (ht : tgt c0 = some t) (h2 : (loc env c0 w).1 = w) (g : α → List Cmd) (P : α → Prop) (L : List α)
    (hskip : ∀ x ∈ L, ¬ P x → ∀ c ∈ g x, tgt c ≠ some t) (hhit : ∀ x ∈ L, P x → g x = [c0]) :
    foldT env t w (L.flatMap g) = w ∧
    ∀ v0, (loc env c0 v0).1 = w → (∃ x ∈ L, P x) → foldT env t v0 (L.flatMap g) = w := by
  induction L with
  | nil => exact ⟨rfl, fun v0 _ h => by simp at h⟩
  | cons x L ih =>
    have ihL := ih (fun y hy => hskip y (by simp [hy])) (fun y hy => hhit y (by simp [hy]))
    by_cases hp : P x
    · have hg := hhit x (by simp) hp
      refine ⟨?_, ?_⟩
      · simp only [List.flatMap_cons, foldT_append, hg]
        simp only [foldT, List.foldl_cons, List.foldl_nil, ht, if_true, h2]
        exact ihL.1
      · intro v0 h1 _
        simp only [List.flatMap_cons, foldT_append, hg]
        simp only [foldT, List.foldl_cons, List.foldl_nil, ht, if_true, h1]
        exact ihL.1
    · have hs := hskip x (by simp) hp
      refine ⟨?_, ?_⟩
      · simp only [List.flatMap_cons, foldT_append, foldT_skip env t _ _ hs]; exact ihL.1
      · intro v0 h1 hex
        simp only [List.flatMap_cons, foldT_append, foldT_skip env t _ _ hs]
        apply ihL.2 v0 h1
        obtain ⟨y, hy, hpy⟩ := hex
        rcases List.mem_cons.mp hy with rfl | hy
        · exact absurd hpy hp
        · exact ⟨y, hy, hpy⟩

/-- the commands `diffClusters` derives from one `diff_map` result -/
def clusterCmds (b : St) (r : Nat × DiffRes) : List Cmd :=
  match r.2 with
  | .added | .changed =>
    match look b (.cluster r.1) with
    | some (.cluster c) => [Cmd.addCluster c]
    | _ => []
  | .removed => [Cmd.removeCluster r.1]

theorem diffClusters_eq (a b : St) :
    diffClusters a b = (diffMap (fun x y => decide (x < y)) (clustersOf a) (clustersOf b)).flatMap (clusterCmds b) := rfl

theorem wf_cluster_look (env : Env) (s : St) (hs : WF env s) (id : Nat) :
    look s (.cluster id) = none ∨
    ∃ c, look s (.cluster id) = some (.cluster c) ∧ c.id = id ∧ (∀ h, c.hc = some h → h.valid = true) := by
  cases h : look s (.cluster id) with
  | none => exact Or.inl rfl
  | some v =>
    have := hs.2 _ (mem_of_look s _ _ h)
    cases v <;> simp only [EntryOK] at this <;> try (exact False.elim this)
    exact Or.inr ⟨_, rfl, this⟩

theorem clusters_reach (env : Env) (A B : St) (hA : WF env A) (hB : WF env B) (id : Nat) :
    foldT env (.cluster id) (look A (.cluster id)) (diffClusters A B) = look B (.cluster id) := by
  have sA := clustersOf_spec A hA.1
  have sB := clustersOf_spec B hB.1
  have spec := fun k r => mem_diffMapAux (fun (x y : Nat) => decide (x < y)) strictTotal_nat _ (clustersOf A)
    (clustersOf B) (Nat.le_refl _) sA.1 sB.1 k r
  rw [diffClusters_eq]
  -- elements with another key produce commands for another entry
  have hskip : ∀ x ∈ diffMap (fun (x y : Nat) => decide (x < y)) (clustersOf A) (clustersOf B), ¬ x.1 = id →
      ∀ c ∈ clusterCmds B x, tgt c ≠ some (.cluster id) := by
    intro x hx hne c hc
    obtain ⟨k, r⟩ := x
    simp only [clusterCmds] at hc
    have hk : ∀ c', look B (.cluster k) = some (.cluster c') → c'.id = k := by
      intro c' hl
      rcases wf_cluster_look env B hB k with h | ⟨c2, h, h2, _⟩
      · rw [h] at hl; cases hl
      · rw [h] at hl; injection hl with hl; injection hl with hl; subst hl; exact h2
    cases r <;> simp only at hc
    · split at hc
      · next c' hl => simp at hc; subst hc; simp [tgt, hk c' hl]; exact hne
      · simp at hc
    · simp at hc; subst hc; simp [tgt]; exact hne
    · split at hc
      · next c' hl => simp at hc; subst hc; simp [tgt, hk c' hl]; exact hne
      · simp at hc
  rcases wf_cluster_look env A hA id with hAn | ⟨cA, hAs, _, _⟩ <;>
  rcases wf_cluster_look env B hB id with hBn | ⟨cB, hBs, hBid, hBv⟩
  · -- absent on both sides: no result for this key
    rw [hAn, hBn]
    apply foldT_flatMap_skip
    intro x hx c hc
    by_cases hk : x.1 = id
    · exfalso
      obtain ⟨k, r⟩ := x; simp at hk; subst hk
      have := (spec k r).mp hx
      rcases this with ⟨_, ⟨v, hv⟩, _⟩ | ⟨_, ⟨v, hv⟩, _⟩ | ⟨_, v, v', hv, _⟩
      · rw [(sA.2 k v).mp hv] at hAn; cases hAn
      · rw [(sB.2 k v).mp hv] at hBn; cases hBn
      · rw [(sA.2 k v).mp hv] at hAn; cases hAn
    · exact hskip x hx hk c hc
  · -- only in the target: Added
    rw [hAn, hBs]
    have hadd : loc env (.addCluster cB) none = (some (.cluster cB), true) := by
      simp only [loc]; cases hh : cB.hc with
      | none => rfl
      | some h => simp [hBv h hh]
    have hadd2 : (loc env (.addCluster cB) (some (.cluster cB))).1 = some (.cluster cB) := by
      simp only [loc]; cases hh : cB.hc with
      | none => rfl
      | some h => simp [hBv h hh]
    refine (foldT_flatMap_const env (.cluster id) (some (.cluster cB)) (.addCluster cB) (by simp [tgt, hBid]) hadd2
      (clusterCmds B) (fun x => x.1 = id) _ hskip ?_).2 none (by rw [hadd]) ?_
    · intro x hx hk
      obtain ⟨k, r⟩ := x; simp at hk; subst hk
      have := (spec k r).mp hx
      rcases this with ⟨_, ⟨v, hv⟩, _⟩ | ⟨hr, _, _⟩ | ⟨_, v, v', hv, _⟩
      · rw [(sA.2 k v).mp hv] at hAn; cases hAn
      · subst hr; simp [clusterCmds, hBs]
      · rw [(sA.2 k v).mp hv] at hAn; cases hAn
    · refine ⟨(id, .added), (spec id .added).mpr (Or.inr (Or.inl ⟨rfl, ⟨cB, (sB.2 id cB).mpr hBs⟩, ?_⟩)), rfl⟩
      intro v hv; rw [(sA.2 id v).mp hv] at hAn; cases hAn
  · -- only in the source: Removed
    rw [hAs, hBn]
    refine (foldT_flatMap_const env (.cluster id) none (.removeCluster id) (by simp [tgt]) (by simp [loc, removeEntry])
      (clusterCmds B) (fun x => x.1 = id) _ hskip ?_).2 _ (by simp [loc, removeEntry]) ?_
    · intro x hx hk
      obtain ⟨k, r⟩ := x; simp at hk; subst hk
      have := (spec k r).mp hx
      rcases this with ⟨hr, _, _⟩ | ⟨_, ⟨v, hv⟩, _⟩ | ⟨_, v, v', _, hv, _⟩
      · subst hr; simp [clusterCmds]
      · rw [(sB.2 k v).mp hv] at hBn; cases hBn
      · rw [(sB.2 k v').mp hv] at hBn; cases hBn
    · refine ⟨(id, .removed), (spec id .removed).mpr (Or.inl ⟨rfl, ⟨cA, (sA.2 id cA).mpr hAs⟩, ?_⟩), rfl⟩
      intro v hv; rw [(sB.2 id v).mp hv] at hBn; cases hBn
  · -- on both sides
    rw [hAs, hBs]
    have hadd2 : ∀ w, (loc env (.addCluster cB) w).1 = some (.cluster cB) := by
      intro w; simp only [loc]; cases hh : cB.hc with
      | none => rfl
      | some h => simp [hBv h hh]
    by_cases heq : cA = cB
    · subst heq
      apply foldT_flatMap_skip
      intro x hx c hc
      by_cases hk : x.1 = id
      · exfalso
        obtain ⟨k, r⟩ := x; simp at hk; subst hk
        have := (spec k r).mp hx
        rcases this with ⟨_, _, hn⟩ | ⟨_, _, hn⟩ | ⟨_, v, v', hv, hv', hne⟩
        · exact hn cA ((sB.2 k cA).mpr hBs)
        · exact hn cA ((sA.2 k cA).mpr hAs)
        · have e1 := (sA.2 k v).mp hv; have e2 := (sB.2 k v').mp hv'
          rw [hAs] at e1; rw [hBs] at e2
          injection e1 with e1; injection e1 with e1; injection e2 with e2; injection e2 with e2
          exact hne (e1 ▸ e2 ▸ rfl)
      · exact hskip x hx hk c hc
    · refine (foldT_flatMap_const env (.cluster id) (some (.cluster cB)) (.addCluster cB) (by simp [tgt, hBid]) (hadd2 _)
        (clusterCmds B) (fun x => x.1 = id) _ hskip ?_).2 _ (hadd2 _) ?_
      · intro x hx hk
        obtain ⟨k, r⟩ := x; simp at hk; subst hk
        have := (spec k r).mp hx
        rcases this with ⟨_, _, hn⟩ | ⟨_, _, hn⟩ | ⟨hr, _⟩
        · exact absurd ((sB.2 k cB).mpr hBs) (hn cB)
        · exact absurd ((sA.2 k cA).mpr hAs) (hn cA)
        · subst hr; simp [clusterCmds, hBs]
      · exact ⟨(id, .changed), (spec id .changed).mpr (Or.inr (Or.inr ⟨rfl, cA, cB, (sA.2 id cA).mpr hAs,
          (sB.2 id cB).mpr hBs, heq⟩)), rfl⟩

def frontT (https : Bool) (k : FKey) : Target := if https then .httpsF k else .httpF k
def rmFrontCmd (https : Bool) (f : HttpFront) : Cmd := if https then .removeHttpsF (toReq f) else .removeHttpF (toReq f)
def addFrontCmd (https : Bool) (f : HttpFront) : Cmd := if https then .addHttpsF (toReq f) else .addHttpF (toReq f)

theorem diffFronts_eq (a b : St) (https : Bool) :
    diffFronts a b https =
      ((frontsOf a https).filter (fun p => !(frontsOf b https).contains p)).flatMap (fun p => [rmFrontCmd https p.2]) ++
      ((frontsOf b https).filter (fun p => !(frontsOf a https).contains p)).flatMap (fun p => [addFrontCmd https p.2]) := by
  have hm : ∀ {α : Type} (f : α → Cmd) (l : List α), l.flatMap (fun p => [f p]) = l.map f := by
    intro α f l; induction l with
    | nil => rfl
    | cons x t ih => simp [List.flatMap_cons, ih]
  cases https <;> simp [diffFronts, rmFrontCmd, addFrontCmd, hm]

theorem mem_frontsOf (env : Env) (s : St) (hs : WF env s) (https : Bool) (k : FKey) (f : HttpFront) :
    (k, f) ∈ frontsOf s https ↔ look s (frontT https k) = some (.front f) := by
  simp only [frontsOf, List.mem_filterMap]
  constructor
  · rintro ⟨e, he, h⟩
    obtain ⟨t, v⟩ := e
    cases t <;> cases v <;> cases https <;> simp at h
    all_goals (obtain ⟨rfl, rfl⟩ := h; exact look_of_mem s hs.1 _ _ he)
  · intro h
    have := mem_of_look s _ _ h
    cases https
    · exact ⟨_, this, by simp [frontT]⟩
    · exact ⟨_, this, by simp [frontT]⟩

theorem wf_front_look (env : Env) (s : St) (hs : WF env s) (https : Bool) (k : FKey) :
    look s (frontT https k) = none ∨
    ∃ f, look s (frontT https k) = some (.front f) ∧ fkey (toReq f) = k ∧ toFrontend (toReq f) = some f := by
  cases h : look s (frontT https k) with
  | none => exact Or.inl rfl
  | some v =>
    have := hs.2 _ (mem_of_look s _ _ h)
    cases https <;> cases v <;> simp only [frontT, EntryOK, if_true, if_false, Bool.false_eq_true] at this <;>
      try (exact False.elim this)
    all_goals exact Or.inr ⟨_, rfl, this⟩

theorem fronts_reach (env : Env) (A B : St) (hA : WF env A) (hB : WF env B) (https : Bool) (k : FKey) :
    foldT env (frontT https k) (look A (frontT https k)) (diffFronts A B https) = look B (frontT https k) := by
  have mA := mem_frontsOf env A hA https
  have mB := mem_frontsOf env B hB https
  have keyA : ∀ p ∈ frontsOf A https, fkey (toReq p.2) = p.1 := by
    intro p hp
    rcases wf_front_look env A hA https p.1 with h | ⟨f, h, h1, _⟩
    · rw [(mA p.1 p.2).mp hp] at h; cases h
    · rw [(mA p.1 p.2).mp hp] at h; injection h with h; injection h with h; subst h; exact h1
  have keyB : ∀ p ∈ frontsOf B https, fkey (toReq p.2) = p.1 := by
    intro p hp
    rcases wf_front_look env B hB https p.1 with h | ⟨f, h, h1, _⟩
    · rw [(mB p.1 p.2).mp hp] at h; cases h
    · rw [(mB p.1 p.2).mp hp] at h; injection h with h; injection h with h; subst h; exact h1
  have tgtRm : ∀ f, tgt (rmFrontCmd https f) = some (frontT https (fkey (toReq f))) := by
    intro f; cases https <;> rfl
  have tgtAdd : ∀ f, tgt (addFrontCmd https f) = some (frontT https (fkey (toReq f))) := by
    intro f; cases https <;> rfl
  have injT : ∀ k1 k2, frontT https k1 = frontT https k2 → k1 = k2 := by
    intro k1 k2 h; cases https <;> simpa [frontT] using h
  have locRm : ∀ f w, loc env (rmFrontCmd https f) w = removeEntry w := by
    intro f w; cases https <;> rfl
  have locAdd : ∀ f w, loc env (addFrontCmd https f) w = addFront (toReq f) w := by
    intro f w; cases https <;> rfl
  rw [diffFronts_eq, foldT_append]
  have skipRm : ∀ x ∈ (frontsOf A https).filter (fun p => !(frontsOf B https).contains p), ¬ x.1 = k →
      ∀ c ∈ [rmFrontCmd https x.2], tgt c ≠ some (frontT https k) := by
    intro x hx hne c hc
    simp at hc; subst hc
    rw [tgtRm, keyA x (List.mem_filter.mp hx).1]
    intro h; injection h with h; exact hne (injT _ _ h)
  have skipAdd : ∀ x ∈ (frontsOf B https).filter (fun p => !(frontsOf A https).contains p), ¬ x.1 = k →
      ∀ c ∈ [addFrontCmd https x.2], tgt c ≠ some (frontT https k) := by
    intro x hx hne c hc
    simp at hc; subst hc
    rw [tgtAdd, keyB x (List.mem_filter.mp hx).1]
    intro h; injection h with h; exact hne (injT _ _ h)
  -- the removed part maps `look A` to: none if the entry must go or change, itself otherwise
  have hRemoved : foldT env (frontT https k) (look A (frontT https k))
      (((frontsOf A https).filter (fun p => !(frontsOf B https).contains p)).flatMap (fun p => [rmFrontCmd https p.2])) =
      if look A (frontT https k) = look B (frontT https k) then look A (frontT https k) else none := by
    rcases wf_front_look env A hA https k with hAn | ⟨fA, hAs, hkA, _⟩
    · rw [hAn]
      have : foldT env (frontT https k) none
          (((frontsOf A https).filter (fun p => !(frontsOf B https).contains p)).flatMap (fun p => [rmFrontCmd https p.2])) = none := by
        apply foldT_flatMap_skip
        intro x hx c hc
        by_cases hk : x.1 = k
        · exfalso
          have := (mA x.1 x.2).mp (List.mem_filter.mp hx).1
          rw [hk, hAn] at this; cases this
        · exact skipRm x hx hk c hc
      rw [this]; split <;> rfl
    · by_cases heq : look A (frontT https k) = look B (frontT https k)
      · rw [if_pos heq]
        apply foldT_flatMap_skip
        intro x hx c hc
        by_cases hk : x.1 = k
        · exfalso
          obtain ⟨k', f'⟩ := x; simp at hk; subst hk
          have h1 := (mA k' f').mp (List.mem_filter.mp hx).1
          have h2 : (k', f') ∈ frontsOf B https := (mB k' f').mpr (by rw [← heq]; exact h1)
          have := (List.mem_filter.mp hx).2
          simp [h2] at this
        · exact skipRm x hx hk c hc
      · rw [if_neg heq, hAs]
        refine (foldT_flatMap_const env (frontT https k) none (rmFrontCmd https fA) (by rw [tgtRm, hkA])
          (by rw [locRm]; rfl) _ (fun x => x.1 = k) _ skipRm ?_).2 _ (by rw [locRm]; rfl) ?_
        · intro x hx hk
          obtain ⟨k', f'⟩ := x; simp at hk; subst hk
          have h1 := (mA k' f').mp (List.mem_filter.mp hx).1
          rw [hAs] at h1; injection h1 with h1; injection h1 with h1; subst h1; rfl
        · refine ⟨(k, fA), List.mem_filter.mpr ⟨(mA k fA).mpr hAs, ?_⟩, rfl⟩
          simp only [Bool.not_eq_true', List.contains_eq_mem, decide_eq_false_iff_not]
          intro hin
          exact heq (by rw [hAs, (mB k fA).mp hin])
  rw [hRemoved]
  -- the added part
  rcases wf_front_look env B hB https k with hBn | ⟨fB, hBs, hkB, hfB⟩
  · have : ∀ w, foldT env (frontT https k) w
        (((frontsOf B https).filter (fun p => !(frontsOf A https).contains p)).flatMap (fun p => [addFrontCmd https p.2])) = w := by
      intro w
      apply foldT_flatMap_skip
      intro x hx c hc
      by_cases hk : x.1 = k
      · exfalso
        have := (mB x.1 x.2).mp (List.mem_filter.mp hx).1
        rw [hk, hBn] at this; cases this
      · exact skipAdd x hx hk c hc
    rw [this, hBn]
    split
    · next h => exact h
    · rfl
  · by_cases heq : look A (frontT https k) = look B (frontT https k)
    · rw [if_pos heq, heq]
      apply foldT_flatMap_skip
      intro x hx c hc
      by_cases hk : x.1 = k
      · exfalso
        obtain ⟨k', f'⟩ := x; simp at hk; subst hk
        have h1 := (mB k' f').mp (List.mem_filter.mp hx).1
        have h2 : (k', f') ∈ frontsOf A https := (mA k' f').mpr (by rw [heq]; exact h1)
        have := (List.mem_filter.mp hx).2
        simp [h2] at this
      · exact skipAdd x hx hk c hc
    · rw [if_neg heq, hBs]
      refine (foldT_flatMap_const env (frontT https k) (some (.front fB)) (addFrontCmd https fB) (by rw [tgtAdd, hkB])
        (by rw [locAdd]; rfl) _ (fun x => x.1 = k) _ skipAdd ?_).2 _ (by rw [locAdd]; simp [addFront, hfB]) ?_
      · intro x hx hk
        obtain ⟨k', f'⟩ := x; simp at hk; subst hk
        have h1 := (mB k' f').mp (List.mem_filter.mp hx).1
        rw [hBs] at h1; injection h1 with h1; injection h1 with h1; subst h1; rfl
      · refine ⟨(k, fB), List.mem_filter.mpr ⟨(mB k fB).mpr hBs, ?_⟩, rfl⟩
        simp only [Bool.not_eq_true', List.contains_eq_mem, decide_eq_false_iff_not]
        intro hin
        exact heq (by rw [hBs, (mA k fB).mp hin])


-- ------------------------------------------------------ diff: listeners --

/-- block version of `foldT_flatMap_const` -/
theorem foldT_flatMap_block {α : Type} (env : Env) (t : Target) (w : Option Val) (cs0 : List Cmd)
    (h2 : foldT env t w cs0 = w) (g : α → List Cmd) (P : α → Prop) (L : List α)
    (hskip : ∀ x ∈ L, ¬ P x → ∀ c ∈ g x, tgt c ≠ some t) (hhit : ∀ x ∈ L, P x → g x = cs0) :
    foldT env t w (L.flatMap g) = w ∧
    ∀ v0, foldT env t v0 cs0 = w → (∃ x ∈ L, P x) → foldT env t v0 (L.flatMap g) = w := by
  induction L with
  | nil => exact ⟨rfl, fun v0 _ h => by simp at h⟩
  | cons x L ih =>
    have ihL := ih (fun y hy => hskip y (by simp [hy])) (fun y hy => hhit y (by simp [hy]))
    by_cases hp : P x
    · have hg := hhit x (by simp) hp
      refine ⟨?_, ?_⟩
      · simp only [List.flatMap_cons, foldT_append, hg, h2]; exact ihL.1
      · intro v0 h1 _
        simp only [List.flatMap_cons, foldT_append, hg, h1]; exact ihL.1
    · have hs := hskip x (by simp) hp
      refine ⟨?_, ?_⟩
      · simp only [List.flatMap_cons, foldT_append, foldT_skip env t _ _ hs]; exact ihL.1
      · intro v0 h1 hex
        simp only [List.flatMap_cons, foldT_append, foldT_skip env t _ _ hs]
        apply ihL.2 v0 h1
        obtain ⟨y, hy, hpy⟩ := hex
        rcases List.mem_cons.mp hy with rfl | hy
        · exact absurd hpy hp
        · exact ⟨y, hy, hpy⟩

/-- the value has the shape of a listener of type `ty` -/
def Typed : LType → Val → Prop
  | .http, .hl _ => True
  | .https, .hl _ => True
  | .tcp, .tl _ => True
  | .udp, .ul _ => True
  | _, _ => False

def rawAddr : Val → Nat
  | .hl l => l.addr
  | .tl l => l.addr
  | .ul l => l.addr
  | _ => 0

def setAct (b : Bool) : Val → Val
  | .hl l => .hl { l with active := b }
  | .tl l => .tl { l with active := b }
  | .ul l => .ul { l with active := b }
  | v => v

theorem setAct_self (v : Val) : setAct (listenerActive (some v)) v = v := by
  cases v <;> simp [setAct, listenerActive] <;> rename_i l <;> cases l <;> rfl

theorem setAct_setAct (b c : Bool) (v : Val) : setAct b (setAct c v) = setAct b v := by
  cases v <;> rfl

theorem deactivated_eq (v : Val) : deactivated v = setAct false v := by cases v <;> rfl

theorem listenerActive_setAct (b : Bool) (ty : LType) (v : Val) (h : Typed ty v) :
    listenerActive (some (setAct b v)) = b := by
  cases ty <;> cases v <;> simp [Typed] at h <;> rfl

theorem setActive_typed (b : Bool) (ty : LType) (v : Val) (h : Typed ty v) :
    setActive b (some v) = (some (setAct b v), true) := by
  cases ty <;> cases v <;> simp [Typed] at h <;> rfl

theorem typed_setAct (b : Bool) (ty : LType) (v : Val) (h : Typed ty v) : Typed ty (setAct b v) := by
  cases ty <;> cases v <;> simp [Typed] at h ⊢ <;> trivial

theorem rawAddr_setAct (b : Bool) (v : Val) : rawAddr (setAct b v) = rawAddr v := by cases v <;> rfl

/-- the `Add…Listener` request for a typed value: addresses the listener's own key, fills an
    absent entry with the value as given -/
theorem addListenerCmd_typed (env : Env) (ty : LType) (v : Val) (h : Typed ty v) :
    ∃ c, addListenerCmd ty v = [c] ∧ tgt c = some (listenerTarget ty (rawAddr v)) ∧
      loc env c none = (some v, true) ∧ ∀ x, (loc env c (some x)).1 = some x := by
  cases ty <;> cases v <;> simp [Typed] at h <;>
    exact ⟨_, rfl, by simp [tgt, listenerTarget, rawAddr, canon, addrMod], rfl, fun x => rfl⟩

theorem listenerTarget_canon (ty : LType) (a : Nat) : listenerTarget ty (canon a) = listenerTarget ty a := by
  cases ty <;> simp [listenerTarget, canon, addrMod]

theorem listenerTarget_inj (ty : LType) (a b : Nat) (h : listenerTarget ty a = listenerTarget ty b) : canon a = canon b := by
  cases ty <;> simpa [listenerTarget] using h

/-- the (canonical) key `k` of listener map `ty` -/
def KX : LType → Nat → Target
  | .http, k => .httpL k
  | .https, k => .httpsL k
  | .tcp, k => .tcpL k
  | .udp, k => .udpL k

theorem listenerTarget_eq (ty : LType) (a : Nat) : listenerTarget ty a = KX ty (canon a) := by cases ty <;> rfl

theorem KX_inj (ty : LType) (a b : Nat) (h : KX ty a = KX ty b) : a = b := by
  cases ty <;> simpa [KX] using h

theorem canon_canon (a : Nat) : canon (canon a) = canon a := by simp [canon, addrMod]

/-- `keys` selects the keys of listener map `ty` -/
def KeysFor (ty : LType) (keys : Target → Option Nat) : Prop := ∀ t' k', keys t' = some k' ↔ t' = KX ty k'

theorem keysFor_tcp : KeysFor .tcp isTcpL := by intro t' k'; cases t' <;> simp [isTcpL, KX]
theorem keysFor_udp : KeysFor .udp isUdpL := by intro t' k'; cases t' <;> simp [isUdpL, KX]
theorem keysFor_http : KeysFor .http isHttpL := by intro t' k'; cases t' <;> simp [isHttpL, KX]
theorem keysFor_https : KeysFor .https isHttpsL := by intro t' k'; cases t' <;> simp [isHttpsL, KX]

theorem mem_keysOf (s : St) (hnd : (s.map (·.1)).Nodup) (ty : LType) (keys : Target → Option Nat)
    (hk : KeysFor ty keys) (k : Nat) : k ∈ keysOf s keys ↔ ∃ v, look s (KX ty k) = some v := by
  simp only [keysOf, List.mem_filterMap]
  constructor
  · rintro ⟨e, he, h⟩
    have := (hk e.1 k).mp h
    obtain ⟨t', v⟩ := e; simp at this; subst this
    exact ⟨v, look_of_mem s hnd _ _ he⟩
  · rintro ⟨v, hv⟩
    exact ⟨_, mem_of_look s _ _ hv, (hk _ k).mpr rfl⟩

/-- what `WF` says about a listener entry -/
theorem wf_listener (env : Env) (s : St) (hs : WF env s) (ty : LType) (k : Nat) (v : Val)
    (h : look s (KX ty k) = some v) : Typed ty v ∧ canon (rawAddr v) = k := by
  have := hs.2 _ (mem_of_look s _ _ h)
  cases ty <;> cases v <;> simp only [KX, EntryOK] at this <;> try (exact False.elim this)
  all_goals exact ⟨trivial, this⟩

theorem loc_rm (env : Env) (ty : LType) (k : Nat) (w : Option Val) :
    (loc env (.removeListener (some ty) k) w).1 = none := by
  cases w <;> rfl

theorem loc_act (env : Env) (b : Bool) (ty : LType) (k : Nat) (v : Val) (h : Typed ty v) :
    (loc env (if b then Cmd.activate (some ty) k else Cmd.deactivate (some ty) k) (some v)).1 = some (setAct b v) := by
  cases b <;> simp [loc, setActive_typed _ ty v h]

/-- commands produced for another key do not address `KX ty k` -/
theorem other_key_skip (ty : LType) (k x : Nat) (hne : ¬ x = k) :
    ∀ a', canon a' = x → listenerTarget ty a' ≠ KX ty k := by
  intro a' ha h
  rw [listenerTarget_eq, ha] at h
  exact hne (KX_inj ty _ _ h)

theorem key_canon (env : Env) (ty : LType) (keys : Target → Option Nat) (hk : KeysFor ty keys)
    (s : St) (hs : WF env s) (x : Nat) (hx : x ∈ keysOf s keys) : canon x = x := by
  obtain ⟨v, hv⟩ := (mem_keysOf s hs.1 ty keys hk x).mp hx
  have := (wf_listener env s hs ty x v hv).2
  rw [← this, canon_canon]

theorem removedL_fold (env : Env) (A B : St) (hA : WF env A) (hB : WF env B) (ty : LType)
    (keys : Target → Option Nat) (hk : KeysFor ty keys) (k : Nat) :
    foldT env (KX ty k) (look A (KX ty k)) (diffRemovedL ty A B keys) =
      if (look A (KX ty k)).isSome ∧ look B (KX ty k) = none then none else look A (KX ty k) := by
  have hskip : ∀ x ∈ (keysOf A keys).filter (fun k => !(keysOf B keys).contains k), ¬ x = k →
      ∀ c ∈ (if listenerActive (look A (listenerTarget ty x)) then [Cmd.deactivate (some ty) x] else []) ++
        [Cmd.removeListener (some ty) x], tgt c ≠ some (KX ty k) := by
    intro x hx hne c hc
    have hxa := (List.mem_filter.mp hx).1
    have hcx := key_canon env ty keys hk A hA x hxa
    have : tgt c = some (listenerTarget ty x) := by
      simp only [List.mem_append, List.mem_cons, List.not_mem_nil, or_false] at hc
      rcases hc with hc | rfl
      · split at hc
        · simp at hc; subst hc; rfl
        · simp at hc
      · rfl
    rw [this]; intro h; injection h with h
    exact other_key_skip ty k x hne x hcx h
  unfold diffRemovedL
  by_cases hcase : (look A (KX ty k)).isSome ∧ look B (KX ty k) = none
  · rw [if_pos hcase]
    obtain ⟨v, hv⟩ := Option.isSome_iff_exists.mp hcase.1
    have hty := wf_listener env A hA ty k v hv
    have hck : canon k = k := by rw [← hty.2, canon_canon]
    have hlt : listenerTarget ty k = KX ty k := by rw [listenerTarget_eq, hck]
    have hblock : ∀ w, foldT env (KX ty k) w
        ((if listenerActive (look A (listenerTarget ty k)) then [Cmd.deactivate (some ty) k] else []) ++
          [Cmd.removeListener (some ty) k]) = none := by
      intro w
      rw [foldT_append]
      simp only [foldT, List.foldl_cons, List.foldl_nil, tgt, Option.map, hlt, if_true]
      exact loc_rm env ty k _
    refine (foldT_flatMap_block env (KX ty k) none _ (hblock none) _ (fun x => x = k) _ hskip ?_).2 _ (hblock _) ?_
    · intro x _ hx; subst hx; rfl
    · refine ⟨k, List.mem_filter.mpr ⟨(mem_keysOf A hA.1 ty keys hk k).mpr ⟨v, hv⟩, ?_⟩, rfl⟩
      simp only [Bool.not_eq_true', List.contains_eq_mem, decide_eq_false_iff_not]
      intro hin
      obtain ⟨v', hv'⟩ := (mem_keysOf B hB.1 ty keys hk k).mp hin
      rw [hcase.2] at hv'; cases hv'
  · rw [if_neg hcase]
    apply foldT_flatMap_skip
    intro x hx c hc
    by_cases hxk : x = k
    · exfalso; subst hxk
      apply hcase
      have h1 := (mem_keysOf A hA.1 ty keys hk x).mp (List.mem_filter.mp hx).1
      have h2 := (List.mem_filter.mp hx).2
      simp only [Bool.not_eq_true', List.contains_eq_mem, decide_eq_false_iff_not] at h2
      refine ⟨by obtain ⟨v, hv⟩ := h1; simp [hv], ?_⟩
      cases hb : look B (KX ty x) with
      | none => rfl
      | some v => exact absurd ((mem_keysOf B hB.1 ty keys hk x).mpr ⟨v, hb⟩) h2
    · exact hskip x hx hxk c hc

/-- the block `diff` emits for an added listener -/
theorem added_block (env : Env) (ty : LType) (k : Nat) (v : Val) (hty : Typed ty v) (hkv : canon (rawAddr v) = k)
    (w : Option Val) (hw : w = none ∨ w = some v) :
    foldT env (KX ty k) w (addListenerCmd ty v ++ (if listenerActive (some v) then [Cmd.activate (some ty) k] else [])) = some v := by
  obtain ⟨c, hc, htc, hl1, hl2⟩ := addListenerCmd_typed env ty v hty
  have hck : canon k = k := by rw [← hkv, canon_canon]
  have htc' : tgt c = some (KX ty k) := by rw [htc, listenerTarget_eq, hkv]
  have h1 : (loc env c w).1 = some v := by
    rcases hw with rfl | rfl
    · rw [hl1]
    · exact hl2 v
  rw [hc, foldT_append]
  simp only [foldT, List.foldl_cons, List.foldl_nil, htc', if_true, h1]
  by_cases ha : listenerActive (some v) = true
  · have hact := loc_act env true ty k v hty
    simp only [if_true] at hact
    simp only [ha, if_true, List.foldl_cons, List.foldl_nil, tgt, Option.map, listenerTarget_eq, hck, hact]
    rw [← ha, setAct_self]
  · simp [ha]

theorem addedL_skip (env : Env) (A B : St) (hB : WF env B) (ty : LType) (keys : Target → Option Nat)
    (hk : KeysFor ty keys) (k : Nat) :
    ∀ x ∈ addedKeys A B keys, ¬ x = k →
      ∀ c ∈ (match look B (listenerTarget ty x) with
              | some v => addListenerCmd ty v ++ (if listenerActive (some v) then [Cmd.activate (some ty) x] else [])
              | none => []), tgt c ≠ some (KX ty k) := by
  intro x hx hne c hc
  have hxb := (List.mem_filter.mp hx).1
  have hcx := key_canon env ty keys hk B hB x hxb
  have hlt : listenerTarget ty x = KX ty x := by rw [listenerTarget_eq, hcx]
  obtain ⟨v, hv⟩ := (mem_keysOf B hB.1 ty keys hk x).mp hxb
  have hty := wf_listener env B hB ty x v hv
  rw [hlt, hv] at hc
  simp only [List.mem_append] at hc
  obtain ⟨c0, hc0, htc, _⟩ := addListenerCmd_typed env ty v hty.1
  have : tgt c = some (KX ty x) := by
    rcases hc with hc | hc
    · rw [hc0] at hc; simp at hc; subst hc; rw [htc, listenerTarget_eq, hty.2]
    · split at hc
      · simp at hc; subst hc; simp [tgt, hlt]
      · simp at hc
  rw [this]; intro h; injection h with h; exact hne (KX_inj ty _ _ h)

theorem addedL_fold (env : Env) (A B : St) (hA : WF env A) (hB : WF env B) (ty : LType)
    (keys : Target → Option Nat) (hk : KeysFor ty keys) (k : Nat) (w : Option Val)
    (hw : look A (KX ty k) = none → w = none) :
    foldT env (KX ty k) w (diffAddedL ty A B keys) =
      if look A (KX ty k) = none ∧ (look B (KX ty k)).isSome then look B (KX ty k) else w := by
  unfold diffAddedL
  by_cases hcase : look A (KX ty k) = none ∧ (look B (KX ty k)).isSome
  · rw [if_pos hcase]
    obtain ⟨v, hv⟩ := Option.isSome_iff_exists.mp hcase.2
    have hty := wf_listener env B hB ty k v hv
    have hck : canon k = k := by rw [← hty.2, canon_canon]
    have hlt : listenerTarget ty k = KX ty k := by rw [listenerTarget_eq, hck]
    rw [hw hcase.1, hv]
    refine (foldT_flatMap_block env (KX ty k) (some v) _ (added_block env ty k v hty.1 hty.2 _ (Or.inr rfl)) _
      (fun x => x = k) _ (addedL_skip env A B hB ty keys hk k) ?_).2 _ (added_block env ty k v hty.1 hty.2 _ (Or.inl rfl)) ?_
    · intro x _ hx; subst hx; simp only [hlt, hv]
    · refine ⟨k, List.mem_filter.mpr ⟨(mem_keysOf B hB.1 ty keys hk k).mpr ⟨v, hv⟩, ?_⟩, rfl⟩
      simp only [Bool.not_eq_true', List.contains_eq_mem, decide_eq_false_iff_not]
      intro hin
      obtain ⟨v', hv'⟩ := (mem_keysOf A hA.1 ty keys hk k).mp hin
      rw [hcase.1] at hv'; cases hv'
  · rw [if_neg hcase]
    apply foldT_flatMap_skip
    intro x hx c hc
    by_cases hxk : x = k
    · exfalso; subst hxk
      apply hcase
      have hb := (mem_keysOf B hB.1 ty keys hk x).mp (List.mem_filter.mp hx).1
      have ha := (List.mem_filter.mp hx).2
      simp only [Bool.not_eq_true', List.contains_eq_mem, decide_eq_false_iff_not] at ha
      refine ⟨?_, by obtain ⟨v, hv⟩ := hb; simp [hv]⟩
      cases h : look A (KX ty x) with
      | none => rfl
      | some v => exact absurd ((mem_keysOf A hA.1 ty keys hk x).mpr ⟨v, h⟩) ha
    · exact addedL_skip env A B hB ty keys hk k x hx hxk c hc

theorem setAct_false_of_inactive (ty : LType) (v : Val) (h : listenerActive (some v) = false) : setAct false v = v := by
  have := setAct_self v; rw [h] at this; exact this

theorem setAct_true_of_active (v : Val) (h : listenerActive (some v) = true) : setAct true v = v := by
  have := setAct_self v; rw [h] at this; exact this

def commonBlock (ty : LType) (k : Nat) (mine theirs : Val) : List Cmd :=
  (if mine ≠ theirs then
    [Cmd.removeListener (some ty) k] ++ addListenerCmd ty (deactivated theirs) ++
    (if listenerActive (some theirs) then [Cmd.activate (some ty) k] else [])
   else []) ++
  (if listenerActive (some mine) && !listenerActive (some theirs) then [Cmd.deactivate (some ty) k] else [])

theorem foldT_cons' (env : Env) (t : Target) (v : Option Val) (c : Cmd) (cs : List Cmd) :
    foldT env t v (c :: cs) = foldT env t (if tgt c = some t then (loc env c v).1 else v) cs := rfl

theorem foldT_nil' (env : Env) (t : Target) (v : Option Val) : foldT env t v [] = v := rfl

theorem common_block (env : Env) (ty : LType) (k : Nat) (m th : Val) (hth : Typed ty th)
    (hkth : canon (rawAddr th) = k) (x : Val) (hx : x = m ∨ x = th) :
    foldT env (KX ty k) (some x) (commonBlock ty k m th) = some th := by
  have hck : canon k = k := by rw [← hkth, canon_canon]
  have hlt : listenerTarget ty k = KX ty k := by rw [listenerTarget_eq, hck]
  have hdty : Typed ty (setAct false th) := typed_setAct false ty th hth
  obtain ⟨c, hc, htc, hl1, _⟩ := addListenerCmd_typed env ty (setAct false th) hdty
  have htc' : tgt c = some (KX ty k) := by rw [htc, listenerTarget_eq, rawAddr_setAct, hkth]
  have tRm : tgt (Cmd.removeListener (some ty) k) = some (KX ty k) := by show some (listenerTarget ty k) = _; rw [hlt]
  have tAct : tgt (Cmd.activate (some ty) k) = some (KX ty k) := by show some (listenerTarget ty k) = _; rw [hlt]
  have tDe : tgt (Cmd.deactivate (some ty) k) = some (KX ty k) := by show some (listenerTarget ty k) = _; rw [hlt]
  have hAct : ∀ v, Typed ty v → (loc env (Cmd.activate (some ty) k) (some v)).1 = some (setAct true v) := by
    intro v hv; have := loc_act env true ty k v hv; simpa using this
  have hDe : ∀ v, Typed ty v → (loc env (Cmd.deactivate (some ty) k) (some v)).1 = some (setAct false v) := by
    intro v hv; have := loc_act env false ty k v hv; simpa using this
  unfold commonBlock
  rw [foldT_append]
  by_cases hne : m = th
  · subst hne
    have hxm : x = m := by rcases hx with h | h <;> exact h
    subst hxm
    simp [foldT]
  · have first : foldT env (KX ty k) (some x)
        (if m ≠ th then [Cmd.removeListener (some ty) k] ++ addListenerCmd ty (deactivated th) ++
          (if listenerActive (some th) then [Cmd.activate (some ty) k] else []) else []) = some th := by
      rw [if_pos hne, deactivated_eq, hc]
      simp only [List.cons_append, List.nil_append, foldT_cons', tRm, if_true, loc_rm, htc', hl1]
      by_cases ha : listenerActive (some th) = true
      · simp only [ha, if_true, foldT_cons', foldT_nil', tAct, hAct _ hdty, setAct_setAct]
        rw [setAct_true_of_active th ha]
      · have ha' : listenerActive (some th) = false := by simpa using ha
        simp only [ha', Bool.false_eq_true, if_false, foldT_nil']
        rw [setAct_false_of_inactive ty th ha']
    rw [first]
    by_cases hd : (listenerActive (some m) && !listenerActive (some th)) = true
    · have ha' : listenerActive (some th) = false := by
        simp only [Bool.and_eq_true, Bool.not_eq_true'] at hd; exact hd.2
      simp only [hd, if_true, foldT_cons', foldT_nil', tDe, hDe _ hth]
      rw [setAct_false_of_inactive ty th ha']
    · simp only [hd, Bool.false_eq_true, if_false, foldT_nil']

theorem commonL_fold (env : Env) (A B : St) (hA : WF env A) (hB : WF env B) (ty : LType)
    (keys : Target → Option Nat) (hk : KeysFor ty keys) (k : Nat) (w : Option Val)
    (hw : (look A (KX ty k)).isSome → (look B (KX ty k)).isSome → w = look A (KX ty k)) :
    foldT env (KX ty k) w (diffCommonL ty A B keys) =
      if (look A (KX ty k)).isSome ∧ (look B (KX ty k)).isSome then look B (KX ty k) else w := by
  -- the commands emitted for a common key `x`
  have hg : ∀ x ∈ (keysOf A keys).filter (fun k => (keysOf B keys).contains k),
      ∃ m th, look A (KX ty x) = some m ∧ look B (KX ty x) = some th ∧ canon x = x ∧
        (match look A (listenerTarget ty x), look B (listenerTarget ty x) with
          | some mine, some theirs =>
            (if mine ≠ theirs then
              [Cmd.removeListener (some ty) x] ++ addListenerCmd ty (deactivated theirs) ++
              (if listenerActive (some theirs) then [Cmd.activate (some ty) x] else [])
             else []) ++
            (if listenerActive (some mine) && !listenerActive (some theirs) then [Cmd.deactivate (some ty) x] else [])
          | _, _ => []) = commonBlock ty x m th := by
    intro x hx
    have hxa := (List.mem_filter.mp hx).1
    have hxb : x ∈ keysOf B keys := by simpa using (List.mem_filter.mp hx).2
    obtain ⟨m, hm⟩ := (mem_keysOf A hA.1 ty keys hk x).mp hxa
    obtain ⟨th, hth⟩ := (mem_keysOf B hB.1 ty keys hk x).mp hxb
    have hcx := key_canon env ty keys hk A hA x hxa
    refine ⟨m, th, hm, hth, hcx, ?_⟩
    rw [listenerTarget_eq, hcx, hm, hth]
    rfl
  have hskip : ∀ x ∈ (keysOf A keys).filter (fun k => (keysOf B keys).contains k), ¬ x = k →
      ∀ c ∈ (match look A (listenerTarget ty x), look B (listenerTarget ty x) with
          | some mine, some theirs =>
            (if mine ≠ theirs then
              [Cmd.removeListener (some ty) x] ++ addListenerCmd ty (deactivated theirs) ++
              (if listenerActive (some theirs) then [Cmd.activate (some ty) x] else [])
             else []) ++
            (if listenerActive (some mine) && !listenerActive (some theirs) then [Cmd.deactivate (some ty) x] else [])
          | _, _ => []), tgt c ≠ some (KX ty k) := by
    intro x hx hne c hc
    obtain ⟨m, th, hm, hth, hcx, hblock⟩ := hg x hx
    rw [hblock] at hc
    have hlt : listenerTarget ty x = KX ty x := by rw [listenerTarget_eq, hcx]
    have htyp := wf_listener env B hB ty x th hth
    obtain ⟨c0, hc0, htc, _⟩ := addListenerCmd_typed env ty (setAct false th) (typed_setAct false ty th htyp.1)
    have : tgt c = some (KX ty x) := by
      simp only [commonBlock, deactivated_eq, hc0, List.mem_append] at hc
      rcases hc with hc | hc
      · split at hc
        · simp only [List.mem_append, List.mem_cons, List.not_mem_nil, or_false] at hc
          rcases hc with (rfl | rfl) | hc
          · show some (listenerTarget ty x) = _; rw [hlt]
          · rw [htc, listenerTarget_eq, rawAddr_setAct, htyp.2]
          · split at hc
            · simp at hc; subst hc; show some (listenerTarget ty x) = _; rw [hlt]
            · simp at hc
        · simp at hc
      · split at hc
        · simp at hc; subst hc; show some (listenerTarget ty x) = _; rw [hlt]
        · simp at hc
    rw [this]; intro h; injection h with h; exact hne (KX_inj ty _ _ h)
  unfold diffCommonL
  by_cases hcase : (look A (KX ty k)).isSome ∧ (look B (KX ty k)).isSome
  · rw [if_pos hcase]
    obtain ⟨m, hm⟩ := Option.isSome_iff_exists.mp hcase.1
    obtain ⟨th, hth⟩ := Option.isSome_iff_exists.mp hcase.2
    have htyp := wf_listener env B hB ty k th hth
    have hkin : k ∈ (keysOf A keys).filter (fun k => (keysOf B keys).contains k) :=
      List.mem_filter.mpr ⟨(mem_keysOf A hA.1 ty keys hk k).mpr ⟨m, hm⟩,
        by simpa using (mem_keysOf B hB.1 ty keys hk k).mpr ⟨th, hth⟩⟩
    rw [hw hcase.1 hcase.2, hm, hth]
    refine (foldT_flatMap_block env (KX ty k) (some th) (commonBlock ty k m th)
      (common_block env ty k m th htyp.1 htyp.2 th (Or.inr rfl)) _ (fun x => x = k) _ hskip ?_).2 _
      (common_block env ty k m th htyp.1 htyp.2 m (Or.inl rfl)) ⟨k, hkin, rfl⟩
    intro x hx hxk; subst hxk
    obtain ⟨m', th', hm', hth', _, hblock⟩ := hg x hx
    rw [hblock]
    rw [hm] at hm'; rw [hth] at hth'
    injection hm' with hm'; injection hth' with hth'; subst hm'; subst hth'; rfl
  · rw [if_neg hcase]
    apply foldT_flatMap_skip
    intro x hx c hc
    by_cases hxk : x = k
    · exfalso; subst hxk
      obtain ⟨m, th, hm, hth, _, _⟩ := hg x hx
      exact hcase ⟨by simp [hm], by simp [hth]⟩
    · exact hskip x hx hxk c hc

def reactBlock (ty : LType) (b : St) (k : Nat) : List Cmd :=
  match look b (listenerTarget ty k) with
  | some (.tl l) => if l.active then [Cmd.activate (some ty) l.addr] else []
  | some (.ul l) => if l.active then [Cmd.activate (some ty) l.addr] else []
  | _ => []

theorem diffReactivate_eq (ty : LType) (a b : St) (keys : Target → Option Nat) :
    diffReactivate ty a b keys = (addedKeys a b keys).flatMap (reactBlock ty b) := rfl

theorem reactivate_fold (env : Env) (A B : St) (hA : WF env A) (hB : WF env B) (ty : LType)
    (keys : Target → Option Nat) (hk : KeysFor ty keys) (k : Nat) (w : Option Val)
    (hw : (look B (KX ty k)).isSome → w = look B (KX ty k)) :
    foldT env (KX ty k) w (diffReactivate ty A B keys) = w := by
  rw [diffReactivate_eq]
  -- every block is either empty or one Activate of an active listener on its own key
  have hblock : ∀ x ∈ addedKeys A B keys, ∃ v, look B (KX ty x) = some v ∧ canon x = x ∧ Typed ty v ∧ canon (rawAddr v) = x ∧
      ((reactBlock ty B x) = [] ∨
       (listenerActive (some v) = true ∧
        (reactBlock ty B x) = [Cmd.activate (some ty) (rawAddr v)])) := by
    intro x hx
    have hxb := (List.mem_filter.mp hx).1
    obtain ⟨v, hv⟩ := (mem_keysOf B hB.1 ty keys hk x).mp hxb
    have hcx := key_canon env ty keys hk B hB x hxb
    have htyp := wf_listener env B hB ty x v hv
    refine ⟨v, hv, hcx, htyp.1, htyp.2, ?_⟩
    unfold reactBlock
    rw [listenerTarget_eq, hcx, hv]
    cases v with
    | tl l => by_cases ha : l.active = true
              · right; exact ⟨ha, by simp [ha, rawAddr]⟩
              · left; simp [ha]
    | ul l => by_cases ha : l.active = true
              · right; exact ⟨ha, by simp [ha, rawAddr]⟩
              · left; simp [ha]
    | _ => left; rfl
  by_cases hin : k ∈ addedKeys A B keys
  · obtain ⟨v, hv, hck, htyp, hkv, hb⟩ := hblock k hin
    have hwv : w = some v := by rw [hw (by simp [hv]), hv]
    have hskip : ∀ x ∈ addedKeys A B keys, ¬ x = k → ∀ c ∈ (reactBlock ty B x), tgt c ≠ some (KX ty k) := by
      intro x hx hne c hc
      obtain ⟨v', _, _, _, hkv', hb'⟩ := hblock x hx
      rcases hb' with hb' | ⟨_, hb'⟩
      · rw [hb'] at hc; simp at hc
      · rw [hb'] at hc; simp at hc; subst hc
        show some (listenerTarget ty (rawAddr v')) ≠ _
        rw [listenerTarget_eq, hkv']
        intro h; injection h with h; exact hne (KX_inj ty _ _ h)
    rcases hb with hb | ⟨ha, hb⟩
    · apply foldT_flatMap_skip
      intro x hx c hc
      by_cases hxk : x = k
      · subst hxk; rw [hb] at hc; simp at hc
      · exact hskip x hx hxk c hc
    · have hstep : foldT env (KX ty k) (some v) [Cmd.activate (some ty) (rawAddr v)] = some v := by
        have ht : tgt (Cmd.activate (some ty) (rawAddr v)) = some (KX ty k) := by
          show some (listenerTarget ty (rawAddr v)) = _; rw [listenerTarget_eq, hkv]
        have := loc_act env true ty (rawAddr v) v htyp
        simp only [if_true] at this
        simp only [foldT_cons', foldT_nil', ht, if_true, this, setAct_true_of_active v ha]
      rw [hwv]
      exact (foldT_flatMap_block env (KX ty k) (some v) _ hstep _ (fun x => x = k) _ hskip
        (by intro x _ hx; subst hx; exact hb)).1
  · apply foldT_flatMap_skip
    intro x hx c hc
    by_cases hxk : x = k
    · subst hxk; exact absurd hx hin
    · obtain ⟨v', _, _, _, hkv', hb'⟩ := hblock x hx
      rcases hb' with hb' | ⟨_, hb'⟩
      · rw [hb'] at hc; simp at hc
      · rw [hb'] at hc; simp at hc; subst hc
        show some (listenerTarget ty (rawAddr v')) ≠ _
        rw [listenerTarget_eq, hkv']
        intro h; injection h with h; exact hxk (KX_inj ty _ _ h)

/-- every command of the four listener sections of type `ty'` addresses a listener of type `ty'` -/
theorem listener_cmds_tgt (env : Env) (A B : St) (hA : WF env A) (hB : WF env B) (ty' : LType)
    (keys : Target → Option Nat) (hk : KeysFor ty' keys) :
    ∀ c ∈ diffRemovedL ty' A B keys ++ diffAddedL ty' A B keys ++ diffCommonL ty' A B keys ++ diffReactivate ty' A B keys,
      ∃ a, tgt c = some (KX ty' a) := by
  intro c hc
  apply Classical.byContradiction
  intro hno
  -- if `c` addresses no `ty'` listener then folding from any entry `KX ty' a` … use the fold lemmas' skip parts instead:
  -- direct membership analysis
  simp only [List.mem_append] at hc
  rcases hc with ((hc | hc) | hc) | hc
  · obtain ⟨a, ha⟩ := sec_removedL ty' A B keys c hc
    exact hno ⟨canon a, by rw [ha, listenerTarget_eq]⟩
  · simp only [diffAddedL, List.mem_flatMap] at hc
    obtain ⟨x, hx, hc⟩ := hc
    have hxb := (List.mem_filter.mp hx).1
    have hcx := key_canon env ty' keys hk B hB x hxb
    obtain ⟨v, hv⟩ := (mem_keysOf B hB.1 ty' keys hk x).mp hxb
    have hty := wf_listener env B hB ty' x v hv
    rw [listenerTarget_eq, hcx, hv] at hc
    simp only [List.mem_append] at hc
    obtain ⟨c0, hc0, htc, _⟩ := addListenerCmd_typed env ty' v hty.1
    rcases hc with hc | hc
    · rw [hc0] at hc; simp at hc; subst hc; exact hno ⟨_, by rw [htc, listenerTarget_eq]⟩
    · split at hc
      · simp at hc; subst hc; exact hno ⟨canon x, by show some (listenerTarget ty' x) = _; rw [listenerTarget_eq]⟩
      · simp at hc
  · simp only [diffCommonL, List.mem_flatMap] at hc
    obtain ⟨x, hx, hc⟩ := hc
    have hxa := (List.mem_filter.mp hx).1
    have hxb : x ∈ keysOf B keys := by simpa using (List.mem_filter.mp hx).2
    obtain ⟨m, hm⟩ := (mem_keysOf A hA.1 ty' keys hk x).mp hxa
    obtain ⟨th, hth⟩ := (mem_keysOf B hB.1 ty' keys hk x).mp hxb
    have hcx := key_canon env ty' keys hk A hA x hxa
    have htyp := wf_listener env B hB ty' x th hth
    rw [listenerTarget_eq, hcx, hm, hth] at hc
    obtain ⟨c0, hc0, htc, _⟩ := addListenerCmd_typed env ty' (setAct false th) (typed_setAct false ty' th htyp.1)
    simp only [deactivated_eq, hc0, List.mem_append] at hc
    have hx' : ∃ a, tgt (Cmd.removeListener (some ty') x) = some (KX ty' a) := ⟨canon x, by show some (listenerTarget ty' x) = _; rw [listenerTarget_eq]⟩
    rcases hc with hc | hc
    · split at hc
      · simp only [List.mem_append, List.mem_cons, List.not_mem_nil, or_false] at hc
        rcases hc with (rfl | rfl) | hc
        · exact hno hx'
        · exact hno ⟨_, by rw [htc, listenerTarget_eq]⟩
        · split at hc
          · simp at hc; subst hc; exact hno ⟨canon x, by show some (listenerTarget ty' x) = _; rw [listenerTarget_eq]⟩
          · simp at hc
      · simp at hc
    · split at hc
      · simp at hc; subst hc; exact hno ⟨canon x, by show some (listenerTarget ty' x) = _; rw [listenerTarget_eq]⟩
      · simp at hc
  · rw [diffReactivate_eq] at hc
    simp only [List.mem_flatMap] at hc
    obtain ⟨x, _, hc⟩ := hc
    unfold reactBlock at hc
    split at hc
    · split at hc
      · simp at hc; subst hc; exact hno ⟨_, by show some (listenerTarget ty' _) = _; rw [listenerTarget_eq]⟩
      · simp at hc
    · split at hc
      · simp at hc; subst hc; exact hno ⟨_, by show some (listenerTarget ty' _) = _; rw [listenerTarget_eq]⟩
      · simp at hc
    · simp at hc

theorem KX_sec (ty : LType) (a : Nat) : sectionOf (KX ty a) = match ty with | .http => 0 | .https => 1 | .tcp => 2 | .udp => 3 := by
  cases ty <;> rfl

/-- the chain of the four passes of one listener map, with sections that do not address the
    entry in between -/
theorem listener_chain (env : Env) (A B : St) (hA : WF env A) (hB : WF env B) (ty : LType)
    (keys : Target → Option Nat) (hk : KeysFor ty keys) (k : Nat) (X1 X2 X3 X4 X5 Re : List Cmd)
    (h1 : ∀ w, foldT env (KX ty k) w X1 = w) (h2 : ∀ w, foldT env (KX ty k) w X2 = w)
    (h3 : ∀ w, foldT env (KX ty k) w X3 = w) (h4 : ∀ w, foldT env (KX ty k) w X4 = w)
    (h5 : ∀ w, foldT env (KX ty k) w X5 = w)
    (hRe : ∀ w, ((look B (KX ty k)).isSome → w = look B (KX ty k)) → foldT env (KX ty k) w Re = w) :
    foldT env (KX ty k) (look A (KX ty k))
      (X1 ++ diffRemovedL ty A B keys ++ X2 ++ diffAddedL ty A B keys ++ X3 ++ diffCommonL ty A B keys ++ X4 ++ Re ++ X5)
      = look B (KX ty k) := by
  simp only [foldT_append, h1, h2, h3, h4, h5]
  rw [removedL_fold env A B hA hB ty keys hk k]
  cases hAv : look A (KX ty k) with
  | none =>
    simp only [Option.isSome_none, Bool.false_eq_true, false_and, if_false]
    rw [addedL_fold env A B hA hB ty keys hk k none (fun _ => rfl), hAv]
    cases hBv : look B (KX ty k) with
    | none =>
      simp only [Option.isSome_none, Bool.false_eq_true, and_false, if_false]
      rw [commonL_fold env A B hA hB ty keys hk k none (by rw [hAv]; simp), hAv]
      simp only [Option.isSome_none, Bool.false_eq_true, false_and, if_false]
      exact hRe none (by rw [hBv]; simp)
    | some vb =>
      simp only [Option.isSome_some, and_self, if_true]
      rw [commonL_fold env A B hA hB ty keys hk k _ (by rw [hAv]; simp), hAv]
      simp only [Option.isSome_none, Bool.false_eq_true, false_and, if_false]
      exact hRe _ (by rw [hBv]; intro _; rfl)
  | some va =>
    cases hBv : look B (KX ty k) with
    | none =>
      simp only [Option.isSome_some, true_and, if_true]
      rw [addedL_fold env A B hA hB ty keys hk k none (fun _ => rfl), hAv]
      simp only [reduceCtorEq, false_and, if_false]
      rw [commonL_fold env A B hA hB ty keys hk k none (by rw [hBv]; simp), hBv]
      simp only [Option.isSome_none, Bool.false_eq_true, and_false, if_false]
      exact hRe none (by rw [hBv]; simp)
    | some vb =>
      simp only [reduceCtorEq, and_false, if_false]
      rw [addedL_fold env A B hA hB ty keys hk k _ (by rw [hAv]; intro h; cases h), hAv]
      simp only [reduceCtorEq, false_and, if_false]
      rw [commonL_fold env A B hA hB ty keys hk k _ (by rw [hAv]; intro _ _; rfl), hAv, hBv]
      simp only [Option.isSome_some, and_self, if_true]
      exact hRe _ (by rw [hBv]; intro _; rfl)

theorem KX_ne (ty ty' : LType) (h : ty' ≠ ty) (a k : Nat) : KX ty' a ≠ KX ty k := by
  cases ty <;> cases ty' <;> simp [KX] at h ⊢

/-- sections of another listener map do not address `KX ty k` -/
theorem other_type_skip (env : Env) (A B : St) (hA : WF env A) (hB : WF env B) (ty ty' : LType) (hne : ty' ≠ ty)
    (keys : Target → Option Nat) (hk : KeysFor ty' keys) (k : Nat) :
    (∀ w, foldT env (KX ty k) w (diffRemovedL ty' A B keys) = w) ∧
    (∀ w, foldT env (KX ty k) w (diffAddedL ty' A B keys) = w) ∧
    (∀ w, foldT env (KX ty k) w (diffCommonL ty' A B keys) = w) ∧
    (∀ w, foldT env (KX ty k) w (diffReactivate ty' A B keys) = w) := by
  have all := listener_cmds_tgt env A B hA hB ty' keys hk
  have mk : ∀ (part : List Cmd), (∀ c ∈ part, c ∈ diffRemovedL ty' A B keys ++ diffAddedL ty' A B keys ++
      diffCommonL ty' A B keys ++ diffReactivate ty' A B keys) → ∀ w, foldT env (KX ty k) w part = w := by
    intro part hp w
    apply foldT_skip
    intro c hc e
    obtain ⟨a, ha⟩ := all c (hp c hc)
    rw [ha] at e; injection e with e
    exact KX_ne ty ty' hne a k e
  refine ⟨mk _ ?_, mk _ ?_, mk _ ?_, mk _ ?_⟩ <;> intro c hc <;> simp [hc]

/-- sections computed for the non-listener maps do not address a listener entry -/
theorem nonlistener_skip (env : Env) (A B : St) (ty : LType) (k : Nat) :
    ∀ w, foldT env (KX ty k) w (diffClusters A B ++ diffBackends A B ++ diffFronts A B false ++ diffFronts A B true ++
      diffTcpFronts A B false ++ diffTcpFronts A B true ++ diffCerts A B) = w := by
  intro w
  have hs : sectionOf (KX ty k) ≤ 3 := by cases ty <;> simp [KX, sectionOf]
  have sk : ∀ (w : Option Val) (cs : List Cmd) (n : Nat), 4 ≤ n →
      (∀ c ∈ cs, ∃ t', tgt c = some t' ∧ sectionOf t' = n) → foldT env (KX ty k) w cs = w := by
    intro w cs n hn h
    apply foldT_skip_sec
    intro c hc
    obtain ⟨t', h1, h2⟩ := h c hc
    exact ⟨t', h1, by omega⟩
  simp only [foldT_append]
  rw [sk _ _ 4 (by omega) (sec_clusters A B), sk _ _ 10 (by omega) (sec_backends A B),
    sk _ _ 5 (by omega) (sec_fronts A B false), sk _ _ 7 (by omega) (sec_fronts A B true),
    sk _ _ 8 (by omega) (sec_tcpFronts A B false), sk _ _ 9 (by omega) (sec_tcpFronts A B true),
    sk _ _ 6 (by omega) (sec_certs A B)]

/-- **listeners**: after replaying `diff A B` on `A`, every listener entry (fields and
    activation) is the one of `B` -/
theorem listeners_reach (env : Env) (A B : St) (hA : WF env A) (hB : WF env B) (ty : LType) (k : Nat) :
    foldT env (KX ty k) (look A (KX ty k)) (diff A B) = look B (KX ty k) := by
  have nl := nonlistener_skip env A B ty k
  cases ty
  case tcp =>
    obtain ⟨u1, u2, u3, u4⟩ := other_type_skip env A B hA hB .tcp .udp (by decide) isUdpL keysFor_udp k
    obtain ⟨p1, p2, p3, _⟩ := other_type_skip env A B hA hB .tcp .http (by decide) isHttpL keysFor_http k
    obtain ⟨s1, s2, s3, _⟩ := other_type_skip env A B hA hB .tcp .https (by decide) isHttpsL keysFor_https k
    have := listener_chain env A B hA hB .tcp isTcpL keysFor_tcp k [] []
      (diffRemovedL .udp A B isUdpL ++ diffAddedL .udp A B isUdpL ++ diffRemovedL .http A B isHttpL ++
        diffAddedL .http A B isHttpL ++ diffRemovedL .https A B isHttpsL ++ diffAddedL .https A B isHttpsL)
      (diffCommonL .udp A B isUdpL ++ diffCommonL .http A B isHttpL ++ diffCommonL .https A B isHttpsL ++
        (diffClusters A B ++ diffBackends A B ++ diffFronts A B false ++ diffFronts A B true ++
          diffTcpFronts A B false ++ diffTcpFronts A B true ++ diffCerts A B))
      (diffReactivate .udp A B isUdpL) (diffReactivate .tcp A B isTcpL)
      (fun w => rfl) (fun w => rfl)
      (by intro w; simp only [foldT_append, u1, u2, p1, p2, s1, s2])
      (by intro w; simp only [foldT_append, u3, p3, s3, nl])
      u4 (fun w hw => reactivate_fold env A B hA hB .tcp isTcpL keysFor_tcp k w hw)
    have e : diff A B = _ := rfl
    rw [e]; unfold diff
    simpa only [List.append_assoc, List.nil_append] using this
  case udp =>
    obtain ⟨t1, t2, t3, t4⟩ := other_type_skip env A B hA hB .udp .tcp (by decide) isTcpL keysFor_tcp k
    obtain ⟨p1, p2, p3, _⟩ := other_type_skip env A B hA hB .udp .http (by decide) isHttpL keysFor_http k
    obtain ⟨s1, s2, s3, _⟩ := other_type_skip env A B hA hB .udp .https (by decide) isHttpsL keysFor_https k
    have := listener_chain env A B hA hB .udp isUdpL keysFor_udp k
      (diffRemovedL .tcp A B isTcpL ++ diffAddedL .tcp A B isTcpL) []
      (diffRemovedL .http A B isHttpL ++ diffAddedL .http A B isHttpL ++ diffRemovedL .https A B isHttpsL ++
        diffAddedL .https A B isHttpsL ++ diffCommonL .tcp A B isTcpL)
      (diffCommonL .http A B isHttpL ++ diffCommonL .https A B isHttpsL ++
        (diffClusters A B ++ diffBackends A B ++ diffFronts A B false ++ diffFronts A B true ++
          diffTcpFronts A B false ++ diffTcpFronts A B true ++ diffCerts A B) ++ diffReactivate .tcp A B isTcpL)
      [] (diffReactivate .udp A B isUdpL)
      (by intro w; simp only [foldT_append, t1, t2]) (fun w => rfl)
      (by intro w; simp only [foldT_append, p1, p2, s1, s2, t3])
      (by intro w; simp only [foldT_append, p3, s3, nl, t4])
      (fun w => rfl) (fun w hw => reactivate_fold env A B hA hB .udp isUdpL keysFor_udp k w hw)
    unfold diff
    simpa only [List.append_assoc, List.nil_append, List.append_nil] using this
  case http =>
    obtain ⟨t1, t2, t3, t4⟩ := other_type_skip env A B hA hB .http .tcp (by decide) isTcpL keysFor_tcp k
    obtain ⟨u1, u2, u3, u4⟩ := other_type_skip env A B hA hB .http .udp (by decide) isUdpL keysFor_udp k
    obtain ⟨s1, s2, s3, _⟩ := other_type_skip env A B hA hB .http .https (by decide) isHttpsL keysFor_https k
    have := listener_chain env A B hA hB .http isHttpL keysFor_http k
      (diffRemovedL .tcp A B isTcpL ++ diffAddedL .tcp A B isTcpL ++ diffRemovedL .udp A B isUdpL ++ diffAddedL .udp A B isUdpL) []
      (diffRemovedL .https A B isHttpsL ++ diffAddedL .https A B isHttpsL ++ diffCommonL .tcp A B isTcpL ++
        diffCommonL .udp A B isUdpL)
      (diffCommonL .https A B isHttpsL ++
        (diffClusters A B ++ diffBackends A B ++ diffFronts A B false ++ diffFronts A B true ++
          diffTcpFronts A B false ++ diffTcpFronts A B true ++ diffCerts A B) ++ diffReactivate .tcp A B isTcpL ++
        diffReactivate .udp A B isUdpL)
      [] []
      (by intro w; simp only [foldT_append, t1, t2, u1, u2]) (fun w => rfl)
      (by intro w; simp only [foldT_append, s1, s2, t3, u3])
      (by intro w; simp only [foldT_append, s3, nl, t4, u4])
      (fun w => rfl) (fun w _ => rfl)
    unfold diff
    simpa only [List.append_assoc, List.nil_append, List.append_nil] using this
  case https =>
    obtain ⟨t1, t2, t3, t4⟩ := other_type_skip env A B hA hB .https .tcp (by decide) isTcpL keysFor_tcp k
    obtain ⟨u1, u2, u3, u4⟩ := other_type_skip env A B hA hB .https .udp (by decide) isUdpL keysFor_udp k
    obtain ⟨p1, p2, p3, _⟩ := other_type_skip env A B hA hB .https .http (by decide) isHttpL keysFor_http k
    have := listener_chain env A B hA hB .https isHttpsL keysFor_https k
      (diffRemovedL .tcp A B isTcpL ++ diffAddedL .tcp A B isTcpL ++ diffRemovedL .udp A B isUdpL ++ diffAddedL .udp A B isUdpL ++
        diffRemovedL .http A B isHttpL ++ diffAddedL .http A B isHttpL) []
      (diffCommonL .tcp A B isTcpL ++ diffCommonL .udp A B isUdpL ++ diffCommonL .http A B isHttpL)
      ((diffClusters A B ++ diffBackends A B ++ diffFronts A B false ++ diffFronts A B true ++
          diffTcpFronts A B false ++ diffTcpFronts A B true ++ diffCerts A B) ++ diffReactivate .tcp A B isTcpL ++
        diffReactivate .udp A B isUdpL)
      [] []
      (by intro w; simp only [foldT_append, t1, t2, u1, u2, p1, p2]) (fun w => rfl)
      (by intro w; simp only [foldT_append, t3, u3, p3])
      (by intro w; simp only [foldT_append, nl, t4, u4])
      (fun w => rfl) (fun w _ => rfl)
    unfold diff
    simpa only [List.append_assoc, List.nil_append, List.append_nil] using this


-- ------------------------------------- dispatch preserves well-formedness --

/-- a comparator that behaves like a linear preorder -/
structure Lin {α : Type} (c : α → α → Ordering) : Prop where
  swap : ∀ a b, c b a = (c a b).swap
  eq_trans : ∀ a b d, c a b = .eq → c b d = c a d
  lt_trans : ∀ a b d, c a b = .lt → c b d = .lt → c a d = .lt

theorem Lin.eq_right {α : Type} {c : α → α → Ordering} (h : Lin c) (a b d : α) (hbd : c b d = .eq) :
    c a d = c a b := by
  have h1 : c d b = .eq := by rw [h.swap, hbd]; rfl
  have h2 := h.eq_trans d b a h1
  rw [h.swap d a, h.swap b a, h2]

theorem Lin.on {α β : Type} {c : β → β → Ordering} (h : Lin c) (f : α → β) : Lin (fun a b => c (f a) (f b)) :=
  ⟨fun a b => h.swap _ _, fun a b d => h.eq_trans _ _ _, fun a b d => h.lt_trans _ _ _⟩

theorem Lin.then {α : Type} {c1 c2 : α → α → Ordering} (h1 : Lin c1) (h2 : Lin c2) :
    Lin (fun a b => (c1 a b).then (c2 a b)) := by
  refine ⟨?_, ?_, ?_⟩
  · intro a b
    simp only [h1.swap a b, h2.swap a b]
    cases c1 a b <;> cases c2 a b <;> rfl
  · intro a b d hab
    have e1 : c1 a b = .eq := by
      cases h : c1 a b <;> simp [h, Ordering.then] at hab ⊢
    have e2 : c2 a b = .eq := by
      simp [e1, Ordering.then] at hab; exact hab
    simp only [h1.eq_trans a b d e1, h2.eq_trans a b d e2]
  · intro a b d hab hbd
    cases h : c1 a b with
    | gt => simp [h, Ordering.then] at hab
    | lt =>
      cases h' : c1 b d with
      | gt => simp [h', Ordering.then] at hbd
      | lt => simp [h1.lt_trans a b d h h', Ordering.then]
      | eq => simp [h1.eq_right a b d h', h, Ordering.then]
    | eq =>
      have hab2 : c2 a b = .lt := by simpa [h, Ordering.then] using hab
      cases h' : c1 b d with
      | gt => simp [h', Ordering.then] at hbd
      | lt => simp [← h1.eq_trans a b d h, h', Ordering.then]
      | eq =>
        have hbd2 : c2 b d = .lt := by simpa [h', Ordering.then] using hbd
        have : c1 a d = .eq := by rw [← h1.eq_trans a b d h, h']
        simp [this, Ordering.then, h2.lt_trans a b d hab2 hbd2]

theorem nat_cmp_tri (a b : Nat) :
    (a < b ∧ compare a b = .lt) ∨ (a = b ∧ compare a b = .eq) ∨ (b < a ∧ compare a b = .gt) := by
  rcases Nat.lt_trichotomy a b with h | h | h
  · left; exact ⟨h, by simp [compare, compareOfLessAndEq, h]⟩
  · right; left; exact ⟨h, by simp [compare, compareOfLessAndEq, h]⟩
  · right; right
    have h1 : ¬ a < b := by omega
    have h2 : ¬ a = b := by omega
    exact ⟨h, by simp [compare, compareOfLessAndEq, h1, h2]⟩

theorem int_cmp_tri (a b : Int) :
    (a < b ∧ compare a b = .lt) ∨ (a = b ∧ compare a b = .eq) ∨ (b < a ∧ compare a b = .gt) := by
  rcases Int.lt_trichotomy a b with h | h | h
  · left; exact ⟨h, by simp [compare, compareOfLessAndEq, h]⟩
  · right; left; exact ⟨h, by simp [compare, compareOfLessAndEq, h]⟩
  · right; right
    have h1 : ¬ a < b := by omega
    have h2 : ¬ a = b := by omega
    exact ⟨h, by simp [compare, compareOfLessAndEq, h1, h2]⟩

theorem lin_nat : Lin (fun (a b : Nat) => compare a b) := by
  refine ⟨?_, ?_, ?_⟩
  · intro a b
    rcases nat_cmp_tri a b with ⟨h, e⟩ | ⟨h, e⟩ | ⟨h, e⟩ <;> rcases nat_cmp_tri b a with ⟨h', e'⟩ | ⟨h', e'⟩ | ⟨h', e'⟩ <;>
      simp only [e, e', Ordering.swap] <;> omega
  · intro a b d h
    rcases nat_cmp_tri a b with ⟨h', e⟩ | ⟨h', e⟩ | ⟨h', e⟩ <;> simp only [e] at h <;> try cases h
    rw [h']
  · intro a b d h1 h2
    rcases nat_cmp_tri a b with ⟨h', e⟩ | ⟨h', e⟩ | ⟨h', e⟩ <;> simp only [e] at h1 <;> try cases h1
    rcases nat_cmp_tri b d with ⟨h'', e'⟩ | ⟨h'', e'⟩ | ⟨h'', e'⟩ <;> simp only [e'] at h2 <;> try cases h2
    rcases nat_cmp_tri a d with ⟨h3, e3⟩ | ⟨h3, e3⟩ | ⟨h3, e3⟩ <;> simp only [e3] <;> omega

theorem lin_int : Lin (fun (a b : Int) => compare a b) := by
  refine ⟨?_, ?_, ?_⟩
  · intro a b
    rcases int_cmp_tri a b with ⟨h, e⟩ | ⟨h, e⟩ | ⟨h, e⟩ <;> rcases int_cmp_tri b a with ⟨h', e'⟩ | ⟨h', e'⟩ | ⟨h', e'⟩ <;>
      simp only [e, e', Ordering.swap] <;> omega
  · intro a b d h
    rcases int_cmp_tri a b with ⟨h', e⟩ | ⟨h', e⟩ | ⟨h', e⟩ <;> simp only [e] at h <;> try cases h
    rw [h']
  · intro a b d h1 h2
    rcases int_cmp_tri a b with ⟨h', e⟩ | ⟨h', e⟩ | ⟨h', e⟩ <;> simp only [e] at h1 <;> try cases h1
    rcases int_cmp_tri b d with ⟨h'', e'⟩ | ⟨h'', e'⟩ | ⟨h'', e'⟩ <;> simp only [e'] at h2 <;> try cases h2
    rcases int_cmp_tri a d with ⟨h3, e3⟩ | ⟨h3, e3⟩ | ⟨h3, e3⟩ <;> simp only [e3] <;> omega

theorem lin_bool : Lin cmpBool := by
  refine ⟨?_, ?_, ?_⟩ <;> intro a b <;> cases a <;> cases b <;> simp [cmpBool, Ordering.swap] <;>
    intro d <;> cases d <;> simp [cmpBool]

theorem lin_opt {α : Type} {c : α → α → Ordering} (h : Lin c) : Lin (cmpOpt c) := by
  refine ⟨?_, ?_, ?_⟩
  · intro a b; cases a <;> cases b <;> simp only [cmpOpt, Ordering.swap] <;> exact h.swap _ _
  · intro a b d hab; cases a <;> cases b <;> cases d <;> simp only [cmpOpt] at hab ⊢ <;> first | exact absurd hab (by decide) | rfl | exact h.eq_trans _ _ _ hab
  · intro a b d hab hbd; cases a <;> cases b <;> cases d <;> simp only [cmpOpt] at hab hbd ⊢ <;> first | exact absurd hab (by decide) | exact absurd hbd (by decide) | rfl | exact h.lt_trans _ _ _ hab hbd

theorem lin_backend : Lin Backend.cmp := by
  unfold Backend.cmp
  exact (lin_nat.on _).then ((lin_nat.on _).then (((lin_opt lin_nat).on _).then (((lin_opt lin_int).on _).then
    (((lin_opt lin_bool).on _).then (lin_nat.on _)))))

theorem Backend.le_total (a b : Backend) (h : a.le b = false) : b.le a = true := by
  simp only [Backend.le, bne_iff_ne, ne_eq, Bool.not_eq_true, bne_eq_false_iff_eq] at h ⊢
  rw [lin_backend.swap a b, h]; decide

theorem Backend.le_trans (a b d : Backend) (h1 : a.le b = true) (h2 : b.le d = true) : a.le d = true := by
  simp only [Backend.le, bne_iff_ne, ne_eq] at *
  cases hab : Backend.cmp a b with
  | gt => exact absurd hab h1
  | eq => rw [← lin_backend.eq_trans a b d hab]; exact h2
  | lt =>
    cases hbd : Backend.cmp b d with
    | gt => exact absurd hbd h2
    | eq => rw [lin_backend.eq_right a b d hbd, hab]; decide
    | lt => rw [lin_backend.lt_trans a b d hab hbd]; decide

theorem mem_insertB (x y : Backend) (l : List Backend) : y ∈ insertB x l ↔ y = x ∨ y ∈ l := by
  induction l with
  | nil => simp [insertB]
  | cons z t ih =>
    simp only [insertB]
    split
    · simp
    · simp only [List.mem_cons, ih]; constructor <;> (intro h; rcases h with h | h | h <;> simp [h])

theorem sorted_insertB (x : Backend) (l : List Backend) (h : SortedB l) : SortedB (insertB x l) := by
  induction l with
  | nil => simp [insertB, SortedB]
  | cons z t ih =>
    simp only [insertB]
    have hz := List.pairwise_cons.mp h
    split
    · next hle =>
      refine List.pairwise_cons.mpr ⟨?_, h⟩
      intro a ha
      rcases List.mem_cons.mp ha with rfl | ha
      · exact hle
      · exact Backend.le_trans _ _ _ hle (hz.1 a ha)
    · next hle =>
      refine List.pairwise_cons.mpr ⟨?_, ih hz.2⟩
      intro a ha
      rcases (mem_insertB x a t).mp ha with rfl | ha
      · exact Backend.le_total _ _ (by simpa using hle)
      · exact hz.1 a ha

theorem sorted_sortB (l : List Backend) : SortedB (sortB l) := by
  induction l with
  | nil => simp [sortB, SortedB]
  | cons z t ih => simp only [sortB, List.foldr_cons] at ih ⊢; exact sorted_insertB z _ ih

theorem mem_sortB (y : Backend) (l : List Backend) : y ∈ sortB l ↔ y ∈ l := by
  induction l with
  | nil => simp [sortB]
  | cons z t ih => simp only [sortB, List.foldr_cons] at ih ⊢; rw [mem_insertB, ih]; simp

theorem perm_insertB (x : Backend) (l : List Backend) : (insertB x l).Perm (x :: l) := by
  induction l with
  | nil => simp [insertB]
  | cons z t ih =>
    simp only [insertB]
    split
    · exact List.Perm.refl _
    · exact (List.Perm.cons z ih).trans (List.Perm.swap x z t)

theorem perm_sortB (l : List Backend) : (sortB l).Perm l := by
  induction l with
  | nil => simp [sortB]
  | cons z t ih =>
    simp only [sortB, List.foldr_cons] at ih ⊢
    exact (perm_insertB z _).trans (List.Perm.cons z ih)

theorem distinct_sortB (l : List Backend) (h : l.Pairwise (fun x y => x.id ≠ y.id ∨ x.addr ≠ y.addr)) :
    (sortB l).Pairwise (fun x y => x.id ≠ y.id ∨ x.addr ≠ y.addr) := by
  refine ((perm_sortB l).pairwise_iff ?_).mpr h
  intro x y hxy
  rcases hxy with h | h
  · exact Or.inl (fun e => h e.symm)
  · exact Or.inr (fun e => h e.symm)

theorem mem_certInsertSorted (fp : Nat) (c : Cert) (m : List (Nat × Cert)) (p : Nat × Cert)
    (h : p ∈ certInsertSorted fp c m) : p = (fp, c) ∨ p ∈ m := by
  induction m with
  | nil => simp [certInsertSorted] at h; exact Or.inl h
  | cons x t ih =>
    obtain ⟨k, v⟩ := x
    simp only [certInsertSorted] at h
    split at h
    · rcases List.mem_cons.mp h with h | h
      · exact Or.inl h
      · exact Or.inr h
    · split at h
      · rcases List.mem_cons.mp h with h | h
        · exact Or.inl h
        · exact Or.inr (by simp [h])
      · rcases List.mem_cons.mp h with h | h
        · exact Or.inr (by simp [h])
        · rcases ih h with h | h
          · exact Or.inl h
          · exact Or.inr (by simp [h])

theorem sorted_certInsertSorted (fp : Nat) (c : Cert) (m : List (Nat × Cert))
    (h : m.Pairwise (fun x y => x.1 < y.1)) : (certInsertSorted fp c m).Pairwise (fun x y => x.1 < y.1) := by
  induction m with
  | nil => simp [certInsertSorted]
  | cons x t ih =>
    obtain ⟨k, v⟩ := x
    have hz := List.pairwise_cons.mp h
    simp only [certInsertSorted]
    split
    · next hlt =>
      refine List.pairwise_cons.mpr ⟨?_, h⟩
      intro a ha
      rcases List.mem_cons.mp ha with rfl | ha
      · exact hlt
      · have := hz.1 a ha; simp at this ⊢; omega
    · split
      · next hge heq =>
        refine List.pairwise_cons.mpr ⟨?_, hz.2⟩
        intro a ha; have := hz.1 a ha; simp at this ⊢; omega
      · next hge hne =>
        refine List.pairwise_cons.mpr ⟨?_, ih hz.2⟩
        intro a ha
        rcases mem_certInsertSorted fp c t a ha with rfl | ha
        · simp; omega
        · exact hz.1 a ha

theorem resolveNames_pem (env : Env) (c c' : Cert) (h : resolveNames env c = some c') : c'.pem = c.pem := by
  unfold resolveNames at h
  split at h
  · split at h
    · injection h with h; subst h; rfl
    · cases h
  · injection h with h; subst h; rfl

theorem resolveNames_idem (env : Env) (c c' : Cert) (h : resolveNames env c = some c') :
    resolveNames env c' = some c' := by
  unfold resolveNames at h
  split at h
  · next hemp =>
    split at h
    · next ns hn =>
      injection h with h; subst h
      unfold resolveNames
      simp only [hn]
      split <;> rfl
    · cases h
  · next hne => injection h with h; subst h; simp [resolveNames, hne]

theorem applyHttpPatch_addr (p : HttpPatch) (l : HttpL) : (applyHttpPatch p l).addr = l.addr := rfl
theorem applyHttpsPatch_addr (p : HttpPatch) (l : HttpL) : (applyHttpsPatch p l).addr = l.addr := rfl

theorem canon_idem (a : Nat) : canon (canon a) = canon a := by simp [canon, addrMod]

theorem toFrontend_ok (f : ReqFront) (fr : HttpFront) (h : toFrontend f = some fr) :
    fkey (toReq fr) = fkey f ∧ toFrontend (toReq fr) = some fr := by
  unfold toFrontend at h
  split at h
  · next hp =>
    injection h with h; subst h
    simp [toReq, fkey, toFrontend, canon_idem, hp]
  · cases h

/-- every verb leaves the entry it addresses well-formed -/
theorem loc_wf (env : Env) (c : Cmd) (t : Target) (ht : tgt c = some t) (v : Option Val)
    (hv : ∀ x, v = some x → EntryOK env t x) (v' : Val) (h : (loc env c v).1 = some v') :
    EntryOK env t v' := by
  have keep : (loc env c v).1 = v → EntryOK env t v' := fun e => hv v' (by rw [← e]; exact h)
  cases c with
  | addCluster cl =>
    simp only [tgt] at ht; injection ht with ht; subst ht
    simp only [loc] at h
    cases hh : cl.hc with
    | none => simp only [hh] at h; injection h with h; subst h; simp [EntryOK, hh]
    | some hc =>
      simp only [hh] at h
      by_cases hval : hc.valid = true
      · simp only [hval, if_true] at h; injection h with h; subst h
        refine ⟨rfl, ?_⟩; intro h' e; rw [hh] at e; injection e with e; subst e; exact hval
      · simp only [hval] at h; exact hv _ (by simpa using h)
  | removeCluster id => cases v <;> simp [loc, removeEntry] at h
  | setHC id hc =>
    simp only [tgt] at ht; injection ht with ht; subst ht
    simp only [loc] at h
    by_cases hval : hc.valid = true
    · simp only [hval] at h
      cases v with
      | none => simp at h
      | some x =>
        have hx := hv x rfl
        cases x <;> simp only [EntryOK] at hx <;> try (exact False.elim hx)
        simp at h; subst h
        refine ⟨hx.1, ?_⟩; intro h' e; simp at e; subst e; exact hval
    · simp [hval] at h; exact hv _ h
  | removeHC id =>
    simp only [tgt] at ht; injection ht with ht; subst ht
    cases v with
    | none => simp [loc] at h
    | some x =>
      have hx := hv x rfl
      cases x <;> simp only [EntryOK] at hx <;> try (exact False.elim hx)
      simp [loc] at h; subst h
      exact ⟨hx.1, by intro h' e; simp at e⟩
  | addHttpL l =>
    simp only [tgt] at ht; injection ht with ht; subst ht
    cases v with
    | none => simp [loc] at h; subst h; simp [EntryOK]
    | some x => simp [loc] at h; subst h; exact hv _ rfl
  | addHttpsL l =>
    simp only [tgt] at ht; injection ht with ht; subst ht
    cases v with
    | none => simp [loc] at h; subst h; simp [EntryOK]
    | some x => simp [loc] at h; subst h; exact hv _ rfl
  | addTcpL l =>
    simp only [tgt] at ht; injection ht with ht; subst ht
    cases v with
    | none => simp [loc] at h; subst h; simp [EntryOK]
    | some x => simp [loc] at h; subst h; exact hv _ rfl
  | addUdpL l =>
    simp only [tgt] at ht; injection ht with ht; subst ht
    cases v with
    | none => simp [loc] at h; subst h; simp [EntryOK]
    | some x => simp [loc] at h; subst h; exact hv _ rfl
  | removeListener ty a => cases v <;> simp [loc, removeEntry] at h
  | activate ty a =>
    cases v with
    | none => simp [loc, setActive] at h
    | some x =>
      have hx := hv x rfl
      cases x <;> simp [loc, setActive] at h <;> subst h <;> cases t <;> simp only [EntryOK] at hx ⊢ <;> exact hx
  | deactivate ty a =>
    cases v with
    | none => simp [loc, setActive] at h
    | some x =>
      have hx := hv x rfl
      cases x <;> simp [loc, setActive] at h <;> subst h <;> cases t <;> simp only [EntryOK] at hx ⊢ <;> exact hx
  | addHttpF f =>
    simp only [tgt] at ht; injection ht with ht; subst ht
    cases v with
    | some x => simp [loc, addFront] at h; subst h; exact hv _ rfl
    | none =>
      cases hf : toFrontend f with
      | none => simp [loc, addFront, hf] at h
      | some fr => simp [loc, addFront, hf] at h; subst h; exact toFrontend_ok f fr hf
  | removeHttpF f => cases v <;> simp [loc, removeEntry] at h
  | addHttpsF f =>
    simp only [tgt] at ht; injection ht with ht; subst ht
    cases v with
    | some x => simp [loc, addFront] at h; subst h; exact hv _ rfl
    | none =>
      cases hf : toFrontend f with
      | none => simp [loc, addFront, hf] at h
      | some fr => simp [loc, addFront, hf] at h; subst h; exact toFrontend_ok f fr hf
  | removeHttpsF f => cases v <;> simp [loc, removeEntry] at h
  | addCert a cert =>
    simp only [tgt] at ht; injection ht with ht; subst ht
    simp only [loc] at h
    cases hfp : env.fp cert.pem with
    | none => simp only [hfp] at h; exact hv _ h
    | some fp =>
      simp only [hfp] at h
      cases hr : resolveNames env cert with
      | none => simp only [hr] at h; exact hv _ h
      | some cert' =>
        simp only [hr] at h
        -- the bucket before
        have hm : (canon (canon a) = canon a) ∧ (certsOf v).Pairwise (fun x y => x.1 < y.1) ∧
            ∀ p ∈ certsOf v, env.fp p.2.pem = some p.1 ∧ resolveNames env p.2 = some p.2 := by
          cases v with
          | none => exact ⟨canon_idem a, by simp [certsOf], by simp [certsOf]⟩
          | some x =>
            have hx := hv x rfl
            cases x <;> simp only [EntryOK] at hx <;> try (exact False.elim hx)
            exact hx
        split at h
        · injection h with h; subst h; exact hm
        · injection h with h; subst h
          refine ⟨hm.1, sorted_certInsertSorted _ _ _ hm.2.1, ?_⟩
          intro p hp
          rcases mem_certInsertSorted _ _ _ p hp with rfl | hp
          · exact ⟨by rw [resolveNames_pem env cert cert' hr]; exact hfp, resolveNames_idem env cert cert' hr⟩
          · exact hm.2.2 p hp
  | removeCert a fp =>
    simp only [tgt] at ht; injection ht with ht; subst ht
    cases fp with
    | none => exact hv _ h
    | some fp =>
      cases v with
      | none => simp [loc] at h
      | some x =>
        have hx := hv x rfl
        cases x <;> simp only [loc] at h <;> try (exact hv _ h)
        simp only [EntryOK] at hx
        injection h with h; subst h
        refine ⟨hx.1, List.Pairwise.sublist List.filter_sublist hx.2.1, ?_⟩
        intro p hp; exact hx.2.2 p (List.mem_filter.mp hp).1
  | replaceCert a old cert =>
    simp only [tgt] at ht; injection ht with ht; subst ht
    simp only [loc] at h
    cases hr : resolveNames env cert with
    | none => simp only [hr] at h; exact hv _ h
    | some cert' =>
      simp only [hr] at h
      cases old with
      | none => exact hv _ h
      | some old =>
        cases v with
        | none => simp at h
        | some x =>
          have hx := hv x rfl
          cases x <;> simp only at h <;> try (exact hv _ h)
          simp only [EntryOK] at hx
          cases hfp : env.fp cert.pem with
          | none => simp only [hfp] at h; exact hv _ h
          | some nfp =>
            simp only [hfp] at h; injection h with h; subst h
            have hs : (certErase _ old).Pairwise (fun x y => x.1 < y.1) :=
              List.Pairwise.sublist List.filter_sublist hx.2.1
            refine ⟨hx.1, sorted_certInsertSorted _ _ _ hs, ?_⟩
            intro p hp
            rcases mem_certInsertSorted _ _ _ p hp with rfl | hp
            · exact ⟨by rw [resolveNames_pem env cert cert' hr]; exact hfp, resolveNames_idem env cert cert' hr⟩
            · exact hx.2.2 p (List.mem_filter.mp hp).1
  | addTcpF f =>
    simp only [tgt] at ht; injection ht with ht; subst ht
    have hl : (∀ g ∈ tfsOf v, g.cluster = f.cluster ∧ canon g.addr = g.addr) ∧ (tfsOf v).Nodup := by
      cases v with
      | none => simp [tfsOf]
      | some x =>
        have hx := hv x rfl
        cases x <;> simp only [EntryOK] at hx <;> try (exact False.elim hx)
        exact hx
    simp only [loc, addTcpFront] at h
    split at h
    · injection h with h; subst h; exact hl
    · next hnc =>
      injection h with h; subst h
      refine ⟨?_, ?_⟩
      · intro g hg
        rcases List.mem_append.mp hg with hg | hg
        · exact hl.1 g hg
        · simp at hg; subst hg; exact ⟨rfl, canon_idem _⟩
      · refine List.nodup_append.mpr ⟨hl.2, by simp, ?_⟩
        intro x hx y hy e
        simp at hy; subst hy; subst e
        exact hnc (by simpa using hx)
  | removeTcpF f =>
    simp only [tgt] at ht; injection ht with ht; subst ht
    cases v with
    | none => simp [loc, removeTcpFront] at h
    | some x =>
      have hx := hv x rfl
      cases x <;> simp only [loc, removeTcpFront] at h <;> try (exact hv _ h)
      simp only [EntryOK] at hx
      injection h with h; subst h
      exact ⟨fun g hg => hx.1 g (List.mem_filter.mp hg).1, List.Nodup.sublist List.filter_sublist hx.2⟩
  | addUdpF f =>
    simp only [tgt] at ht; injection ht with ht; subst ht
    have hl : (∀ g ∈ tfsOf v, g.cluster = f.cluster ∧ canon g.addr = g.addr) ∧ (tfsOf v).Nodup := by
      cases v with
      | none => simp [tfsOf]
      | some x =>
        have hx := hv x rfl
        cases x <;> simp only [EntryOK] at hx <;> try (exact False.elim hx)
        exact hx
    simp only [loc, addTcpFront] at h
    split at h
    · injection h with h; subst h; exact hl
    · next hnc =>
      injection h with h; subst h
      refine ⟨?_, ?_⟩
      · intro g hg
        rcases List.mem_append.mp hg with hg | hg
        · exact hl.1 g hg
        · simp at hg; subst hg; exact ⟨rfl, canon_idem _⟩
      · refine List.nodup_append.mpr ⟨hl.2, by simp, ?_⟩
        intro x hx y hy e
        simp at hy; subst hy; subst e
        exact hnc (by simpa using hx)
  | removeUdpF f =>
    simp only [tgt] at ht; injection ht with ht; subst ht
    cases v with
    | none => simp [loc, removeTcpFront] at h
    | some x =>
      have hx := hv x rfl
      cases x <;> simp only [loc, removeTcpFront] at h <;> try (exact hv _ h)
      simp only [EntryOK] at hx
      injection h with h; subst h
      exact ⟨fun g hg => hx.1 g (List.mem_filter.mp hg).1, List.Nodup.sublist List.filter_sublist hx.2⟩
  | addBackend b =>
    simp only [tgt] at ht; injection ht with ht; subst ht
    have hl : SortedB (backendsOf v) ∧ (∀ g ∈ backendsOf v, g.cluster = b.cluster ∧ canon g.addr = g.addr) ∧
        (backendsOf v).Pairwise (fun x y => x.id ≠ y.id ∨ x.addr ≠ y.addr) := by
      cases v with
      | none => simp [backendsOf, SortedB]
      | some x =>
        have hx := hv x rfl
        cases x <;> simp only [EntryOK] at hx <;> try (exact False.elim hx)
        exact hx
    simp only [loc] at h; injection h with h; subst h
    refine ⟨sorted_sortB _, ?_, distinct_sortB _ ?_⟩
    · intro g hg
      rcases List.mem_append.mp ((mem_sortB g _).mp hg) with hg | hg
      · exact hl.2.1 g (List.mem_filter.mp hg).1
      · simp at hg; subst hg; exact ⟨rfl, canon_idem _⟩
    · refine List.pairwise_append.mpr ⟨List.Pairwise.sublist List.filter_sublist hl.2.2, by simp, ?_⟩
      intro x hx y hy
      simp at hy; subst hy
      have := (List.mem_filter.mp hx).2
      simpa using this
  | removeBackend cid bid addr =>
    simp only [tgt] at ht; injection ht with ht; subst ht
    cases v with
    | none => simp [loc] at h
    | some x =>
      have hx := hv x rfl
      cases x <;> simp only [loc] at h <;> try (exact hv _ h)
      simp only [EntryOK] at hx
      injection h with h; subst h
      refine ⟨sorted_sortB _, ?_, distinct_sortB _ (List.Pairwise.sublist List.filter_sublist hx.2.2)⟩
      intro g hg
      exact hx.2.1 g (List.mem_filter.mp ((mem_sortB g _).mp hg)).1
  | updHttpL p =>
    simp only [tgt] at ht; injection ht with ht; subst ht
    simp only [loc] at h
    split at h
    · exact hv _ h
    · cases v with
      | none => simp at h
      | some x =>
        have hx := hv x rfl
        cases x <;> simp only at h <;> try (exact hv _ h)
        injection h with h; subst h
        simp only [EntryOK, applyHttpPatch_addr] at hx ⊢; exact hx
  | updHttpsL p =>
    simp only [tgt] at ht; injection ht with ht; subst ht
    simp only [loc] at h
    split at h
    · exact hv _ h
    · cases v with
      | none => simp at h
      | some x =>
        have hx := hv x rfl
        cases x <;> simp only at h <;> try (exact hv _ h)
        injection h with h; subst h
        simp only [EntryOK, applyHttpsPatch_addr] at hx ⊢; exact hx
  | updTcpL p =>
    simp only [tgt] at ht; injection ht with ht; subst ht
    cases v with
    | none => simp [loc] at h
    | some x =>
      have hx := hv x rfl
      cases x <;> simp only [loc] at h <;> try (exact hv _ h)
      injection h with h; subst h
      simp only [EntryOK, applyTcpPatch] at hx ⊢; exact hx
  | updUdpL p =>
    simp only [tgt] at ht; injection ht with ht; subst ht
    cases v with
    | none => simp [loc] at h
    | some x =>
      have hx := hv x rfl
      cases x <;> simp only [loc] at h <;> try (exact hv _ h)
      injection h with h; subst h
      simp only [EntryOK, applyUdpPatch] at hx ⊢; exact hx
  | other ok => simp [tgt] at ht
  | empty => simp [tgt] at ht

theorem keys_erase_sub (s : St) (t : Target) : ((KMap.erase s t).map (·.1)).Sublist (s.map (·.1)) :=
  List.Sublist.map _ List.filter_sublist

theorem mem_erase (s : St) (t : Target) (e : Target × Val) (h : e ∈ KMap.erase s t) : e ∈ s ∧ e.1 ≠ t := by
  have := List.mem_filter.mp h
  exact ⟨this.1, by simpa using this.2⟩

theorem wf_put (env : Env) (s : St) (hs : WF env s) (t : Target) (v : Option Val)
    (hv : ∀ x, v = some x → EntryOK env t x) : WF env (put s t v) := by
  cases v with
  | none =>
    refine ⟨List.Nodup.sublist (keys_erase_sub s t) hs.1, ?_⟩
    intro e he; exact hs.2 e (mem_erase s t e he).1
  | some x =>
    refine ⟨?_, ?_⟩
    · simp only [put, KMap.set, List.map_cons]
      refine List.nodup_cons.mpr ⟨?_, List.Nodup.sublist (keys_erase_sub s t) hs.1⟩
      intro hin
      obtain ⟨e, he, hk⟩ := List.mem_map.mp hin
      exact (mem_erase s t e he).2 hk
    · intro e he
      simp only [put, KMap.set, List.mem_cons] at he
      rcases he with rfl | he
      · exact hv x rfl
      · exact hs.2 e (mem_erase s t e he).1

/-- **`dispatch` preserves well-formedness** -/
theorem wf_dispatch (env : Env) (s : St) (c : Cmd) (hs : WF env s) : WF env (dispatch env s c).1 := by
  unfold dispatch
  cases ht : tgt c with
  | none => exact hs
  | some t =>
    simp only
    apply wf_put env s hs t
    intro x hx
    exact loc_wf env c t ht (look s t) (fun y hy => hs.2 _ (mem_of_look s t y hy)) x hx

theorem wf_init (env : Env) : WF env St.init := ⟨by simp [St.init], by intro e he; simp [St.init] at he⟩

theorem wf_run (env : Env) (cs : List Cmd) (s : St) (hs : WF env s) : WF env (run env s cs) := by
  induction cs generalizing s with
  | nil => exact hs
  | cons c cs ih => exact ih _ (wf_dispatch env s c hs)

theorem bucketsSorted_of_wf (env : Env) (s : St) (hs : WF env s) :
    ∀ t l, look s t = some (.backends l) → SortedB l := by
  intro t l h
  have := hs.2 _ (mem_of_look s t _ h)
  cases t <;> simp only [EntryOK] at this <;> try (exact False.elim this)
  exact this.1

end Sozu.State
