import Sozu.Common.KMap
import Sozu.Generated.Consts
/-
Model of `sozu_command_lib::state::ConfigState` (command/src/state.rs):
`dispatch` for the 28 mutating verbs, `generate_requests`, `diff`, `diff_map`,
the listener patches, certificate add / remove / replace.

Representation. The eleven maps of `ConfigState` are one association list
keyed by `Target` = (which map, key of that map) with sum-typed values `Val`;
`request_counts` is not modelled (every property ignores it). The keys are the
code's keys: cluster id; cluster id for the per-cluster `Vec`s (backends, tcp
and udp fronts — the value is the whole `Vec`, in the code's order); socket
address for the listener maps and for the certificate buckets (value = the
inner fingerprint map); the route-key of `RequestHttpFrontend::to_string` for
http/https fronts, modelled on the tuple it prints (`FKey`).

Every mutating verb of the code reads and writes exactly one entry of one
map, so `dispatch` is written in *local form*: `tgt c` is the entry the verb
addresses, `loc env c v` transcribes — branch for branch, in source order —
what the verb does to that entry (`none` = absent) and whether it returns
`Ok`. Validation that the code runs before the lookup is the first branch of
`loc` (since the `fix:` commits 7c0648d, b8a38d3, 25f3a45, 53f0369 every verb validates before
its first write). Writing back `put s t (loc ..)` is the `BTreeMap`/`HashMap` update.

Tokens. Strings are `Nat` tokens (the harness maps them to fixed-width strings
so `Nat` order = string order). A socket address in a request is a raw `Nat`;
`canon raw = raw % addrMod` is the `SocketAddr` it converts to (the harness
realises raw ≥ addrMod as the same ip with a port that wraps modulo 65536).
External functions are the parameter `Env`: PEM parsing + SHA-256
(`fp : pem ↦ fingerprint?`) and X.509 name extraction (`names`).
Hash-map iteration order never shows: `generate_requests`/`diff` take the
model's list order; the theorems quantify over reorderings.
-/
namespace Sozu.State

/-- number of distinct socket addresses of the harness table; raw addresses
    `n` and `n + addrMod` are the same `SocketAddr` (port narrowed to u16). -/
def addrMod : Nat := 16
/-- `SocketAddr::from(SocketAddress)` -/
def canon (raw : Nat) : Nat := raw % addrMod

/-- health-check config: opaque token + verdict of `validate_health_check_config` -/
structure HC where
  tok : Nat
  valid : Bool
deriving DecidableEq, Repr

structure Cluster where
  id : Nat
  hc : Option HC
  rest : Nat
deriving DecidableEq, Repr

/-- `response::Backend` (address already a `SocketAddr`) -/
structure Backend where
  cluster : Nat
  id : Nat
  addr : Nat
  sticky : Option Nat
  weight : Option Int
  backup : Option Bool
deriving DecidableEq, Repr

/-- `HttpListenerConfig` / `HttpsListenerConfig`: the fields dispatch, the
    patches and diff read or write; everything else is `rest`.
    `alpn`, `strictSni`, `disableH11` exist on the https variant only. -/
structure HttpL where
  addr : Nat                 -- raw `SocketAddress`, stored as given
  pub : Option Nat
  expectProxy : Bool
  sticky : Nat
  ft : Nat
  bt : Nat
  ct : Nat
  rt : Nat
  active : Bool
  answers : Option (List (Option Nat))   -- `http_answers`, 12 slots
  alpn : List Nat            -- 0 = "h2", 1 = "http/1.1", other = unknown value
  strictSni : Option Bool
  disableH11 : Option Bool
  knobs : List (Option Nat)  -- the 18 `h2_*` knobs in the order the patch writes them
  sid : Option (List Nat)    -- `sozu_id_header` bytes
  rest : Nat
deriving DecidableEq, Repr

structure TcpL where
  addr : Nat
  pub : Option Nat
  expectProxy : Bool
  ft : Nat
  bt : Nat
  ct : Nat
  active : Bool
deriving DecidableEq, Repr

structure UdpL where
  addr : Nat
  pub : Option Nat
  ft : Nat
  bt : Nat
  maxRx : Nat
  maxFlows : Nat
  active : Bool
deriving DecidableEq, Repr

/-- `RequestHttpFrontend` -/
structure ReqFront where
  cluster : Option Nat
  addr : Nat          -- raw
  host : Nat
  kind : Nat          -- 0 PREFIX, 1 REGEX, 2 EQUALS, other = unknown enum value
  path : Nat
  method : Option Nat
  pos : Nat           -- 0 PRE, 1 POST, 2 TREE, other = unknown enum value
  tags : Nat          -- token of the tag map; 0 = empty map
  rest : Nat
deriving DecidableEq, Repr

/-- `response::HttpFrontend` -/
structure HttpFront where
  cluster : Option Nat
  addr : Nat          -- canonical
  host : Nat
  kind : Nat
  path : Nat
  method : Option Nat
  pos : Nat
  tags : Option Nat
  rest : Nat
deriving DecidableEq, Repr

/-- `TcpFrontend` / `UdpFrontend` -/
structure TcpFront where
  cluster : Nat
  addr : Nat
  tags : Nat
deriving DecidableEq, Repr

/-- `CertificateAndKey` -/
structure Cert where
  pem : Nat
  names : List Nat
  rest : Nat
deriving DecidableEq, Repr

/-- the route key `RequestHttpFrontend::to_string` -/
inductive FKey where
  | ok (addr host kind path : Nat) (method : Option Nat)
  | wrong (kind : Nat) (method : Option Nat)
deriving DecidableEq, Repr

inductive Target where
  | cluster (id : Nat)
  | backends (cid : Nat)
  | httpL (a : Nat)
  | httpsL (a : Nat)
  | tcpL (a : Nat)
  | udpL (a : Nat)
  | httpF (k : FKey)
  | httpsF (k : FKey)
  | tcpF (cid : Nat)
  | udpF (cid : Nat)
  | certs (a : Nat)
deriving DecidableEq, Repr

inductive Val where
  | cluster (c : Cluster)
  | backends (l : List Backend)
  | hl (l : HttpL)
  | tl (l : TcpL)
  | ul (l : UdpL)
  | front (f : HttpFront)
  | tfs (l : List TcpFront)
  | certs (m : List (Nat × Cert))      -- fingerprint ↦ certificate, sorted by fingerprint
deriving DecidableEq, Repr

abbrev St := KMap Target Val

def St.init : St := []

def look (s : St) (t : Target) : Option Val := KMap.get? s t

def put (s : St) (t : Target) : Option Val → St
  | none => KMap.erase s t
  | some v => KMap.set s t v

/-- external functions -/
structure Env where
  fp : Nat → Option Nat                 -- `parse_pem` + SHA-256
  names : Nat → Option (List Nat)       -- `parse_x509` + `get_cn_and_san_attributes` (needs `fp` ≠ none)

-- ---------------------------------------------------------------- patches --

structure HttpPatch where
  addr : Nat
  pub : Option Nat
  expectProxy : Option Bool
  sticky : Option Nat
  ft : Option Nat
  bt : Option Nat
  ct : Option Nat
  rt : Option Nat
  answers : Option (List (Option Nat))
  alpn : Option (List Nat)      -- https only
  strictSni : Option Bool       -- https only
  disableH11 : Option Bool      -- https only
  knobs : List (Option Nat)
  sid : Option (List Nat)
  ign : Nat                     -- patch fields the code never reads (`answers`, `*_x_real_ip`)
deriving DecidableEq, Repr

structure TcpPatch where
  addr : Nat
  pub : Option Nat
  expectProxy : Option Bool
  ft : Option Nat
  bt : Option Nat
  ct : Option Nat
deriving DecidableEq, Repr

structure UdpPatch where
  addr : Nat
  pub : Option Nat
  ft : Option Nat
  bt : Option Nat
  maxRx : Option Nat
  maxFlows : Option Nat
deriving DecidableEq, Repr

inductive LType where
  | http | https | tcp | udp
deriving DecidableEq, Repr

inductive Cmd where
  | addCluster (c : Cluster)
  | removeCluster (id : Nat)
  | setHC (id : Nat) (hc : HC)
  | removeHC (id : Nat)
  | addHttpL (l : HttpL)
  | addHttpsL (l : HttpL)
  | addTcpL (l : TcpL)
  | addUdpL (l : UdpL)
  | removeListener (ty : Option LType) (addr : Nat)
  | activate (ty : Option LType) (addr : Nat)
  | deactivate (ty : Option LType) (addr : Nat)
  | addHttpF (f : ReqFront)
  | removeHttpF (f : ReqFront)
  | addHttpsF (f : ReqFront)
  | removeHttpsF (f : ReqFront)
  | addCert (addr : Nat) (c : Cert)
  | removeCert (addr : Nat) (fp : Option Nat)            -- `none`: fingerprint is not hex
  | replaceCert (addr : Nat) (old : Option Nat) (c : Cert)
  | addTcpF (f : TcpFront)                               -- `addr` raw
  | removeTcpF (f : TcpFront)
  | addUdpF (f : TcpFront)
  | removeUdpF (f : TcpFront)
  | addBackend (b : Backend)                             -- `addr` raw
  | removeBackend (cid bid addr : Nat)
  | updHttpL (p : HttpPatch)
  | updHttpsL (p : HttpPatch)
  | updTcpL (p : TcpPatch)
  | updUdpL (p : UdpPatch)
  | other (ok : Bool)     -- request types that are not configuration: `Ok` (Status, …) or `UndispatchableRequest`
  | empty                 -- `request_type: None`
deriving DecidableEq, Repr

-- ------------------------------------------------------------- key, order --

def fkey (f : ReqFront) : FKey :=
  if f.kind ≤ 2 then .ok (canon f.addr) f.host f.kind f.path f.method
  else .wrong f.kind f.method

/-- `RequestHttpFrontend::to_frontend` -/
def toFrontend (f : ReqFront) : Option HttpFront :=
  if f.pos ≤ 2 then
    some { cluster := f.cluster, addr := canon f.addr, host := f.host, kind := f.kind, path := f.path,
           method := f.method, pos := f.pos, tags := some f.tags, rest := f.rest }
  else none

/-- `From<HttpFrontend> for RequestHttpFrontend` -/
def toReq (f : HttpFront) : ReqFront :=
  { cluster := f.cluster, addr := f.addr, host := f.host, kind := f.kind, path := f.path,
    method := f.method, pos := f.pos, tags := f.tags.getD 0, rest := f.rest }

def cmpOpt {α : Type} (c : α → α → Ordering) : Option α → Option α → Ordering
  | none, none => .eq
  | none, some _ => .lt
  | some _, none => .gt
  | some a, some b => c a b

def cmpBool : Bool → Bool → Ordering
  | false, true => .lt
  | true, false => .gt
  | _, _ => .eq

/-- `impl Ord for Backend` -/
def Backend.cmp (a b : Backend) : Ordering :=
  (compare a.cluster b.cluster).then <|
  (compare a.id b.id).then <|
  (cmpOpt (fun x y => compare x y) a.sticky b.sticky).then <|
  (cmpOpt (fun (x y : Int) => compare x y) a.weight b.weight).then <|
  (cmpOpt cmpBool a.backup b.backup).then (compare a.addr b.addr)

def Backend.le (a b : Backend) : Bool := a.cmp b != .gt

def insertB (x : Backend) : List Backend → List Backend
  | [] => [x]
  | y :: ys => if x.le y then x :: y :: ys else y :: insertB x ys

/-- `Vec::sort` (stable; equal elements are identical here) -/
def sortB (l : List Backend) : List Backend := l.foldr insertB []

-- inner certificate map, kept sorted by fingerprint
def certGet (m : List (Nat × Cert)) (fp : Nat) : Option Cert :=
  match m.find? (fun p => p.1 = fp) with
  | some p => some p.2
  | none => none

def certErase (m : List (Nat × Cert)) (fp : Nat) : List (Nat × Cert) := m.filter (fun p => p.1 ≠ fp)

def certInsertSorted (fp : Nat) (c : Cert) : List (Nat × Cert) → List (Nat × Cert)
  | [] => [(fp, c)]
  | (k, v) :: t => if fp < k then (fp, c) :: (k, v) :: t
                   else if fp = k then (fp, c) :: t
                   else (k, v) :: certInsertSorted fp c t

/-- `HashMap::insert` (overwrites) -/
def certSet (m : List (Nat × Cert)) (fp : Nat) (c : Cert) : List (Nat × Cert) := certInsertSorted fp c m

-- ------------------------------------------------------------ validation --

/-- minimum accepted value of knob `i` (`validate_h2_flood_knobs_http(s)`): knobs
    6 (initial_connection_window), 15 (stream_idle_timeout), 16 (graceful_shutdown_deadline)
    are free, 8 (stream_shrink_ratio) needs ≥ `shrinkMin`, every other knob is rejected when it is
    `Consts.stateKnobZeroRejected` (= 0). The two literals are re-extracted from the source. -/
def knobMin (shrinkMin : Nat) (i : Nat) : Nat :=
  if i = 6 ∨ i = 15 ∨ i = 16 then 0 else if i = 8 then shrinkMin else Consts.stateKnobZeroRejected + 1

def knobsValidFrom (shrinkMin : Nat) : Nat → List (Option Nat) → Bool
  | _, [] => true
  | i, none :: t => knobsValidFrom shrinkMin (i + 1) t
  | i, some v :: t => decide (knobMin shrinkMin i ≤ v) && knobsValidFrom shrinkMin (i + 1) t

def knobsValid (shrinkMin : Nat) (ks : List (Option Nat)) : Bool := knobsValidFrom shrinkMin 0 ks

/-- `validate_alpn_protocols` -/
def alpnValid (vs : List Nat) : Bool := vs.all (fun v => decide (v ≤ 1))

/-- RFC 9110 tchar, as listed in `validate_sozu_id_header` -/
def isTchar (b : Nat) : Bool :=
  (48 ≤ b && b ≤ 57) || (65 ≤ b && b ≤ 90) || (97 ≤ b && b ≤ 122) ||
  b == 33 || b == 35 || b == 36 || b == 37 || b == 38 || b == 39 || b == 42 || b == 43 ||
  b == 45 || b == 46 || b == 94 || b == 95 || b == 96 || b == 124 || b == 126

/-- `validate_sozu_id_header` -/
def sidValid (h : List Nat) : Bool := !h.isEmpty && h.all isTchar

-- --------------------------------------------------------------- patches --

def orOld {α : Type} (new : Option α) (old : α) : α := new.getD old

/-- `if let Some(v) = patch.x { listener.x = Some(v) }` -/
def orOldOpt {α : Type} (new old : Option α) : Option α :=
  match new with
  | some v => some v
  | none => old

def mergeKnobs : List (Option Nat) → List (Option Nat) → List (Option Nat)
  | [], olds => olds
  | _, [] => []
  | n :: ns, o :: os => orOldOpt n o :: mergeKnobs ns os

/-- `merge_custom_http_answers`: slot 11 (`answer_429`) is not in the macro list. -/
def mergeSlotsFrom : Nat → List (Option Nat) → List (Option Nat) → List (Option Nat)
  | _, [], olds => olds
  | _, _, [] => []
  | i, n :: ns, o :: os => (if i = 11 then o else orOldOpt n o) :: mergeSlotsFrom (i + 1) ns os

def emptyAnswers : List (Option Nat) := List.replicate 12 none

def mergeAnswers (target : Option (List (Option Nat))) (patch : Option (List (Option Nat))) :
    Option (List (Option Nat)) :=
  match patch with
  | none => target
  | some p => some (mergeSlotsFrom 0 p (target.getD emptyAnswers))

/-- fields 1–8 of both http patches (shared knobs + `http_answers`) -/
def patchShared (p : HttpPatch) (l : HttpL) : HttpL :=
  { l with pub := orOldOpt p.pub l.pub,
           expectProxy := orOld p.expectProxy l.expectProxy,
           sticky := orOld p.sticky l.sticky,
           ft := orOld p.ft l.ft, bt := orOld p.bt l.bt, ct := orOld p.ct l.ct, rt := orOld p.rt l.rt,
           answers := mergeAnswers l.answers p.answers }

/-- `sozu_id_header` of a patch is absent or valid (`validate_sozu_id_header`) -/
def patchSidValid (p : HttpPatch) : Bool :=
  match p.sid with
  | none => true
  | some h => sidValid h

/-- `alpn_protocols` of a patch is absent or valid (`validate_alpn_protocols`) -/
def patchAlpnValid (p : HttpPatch) : Bool :=
  match p.alpn with
  | none => true
  | some vs => alpnValid vs

/-- the tail of both patches: h2 knobs, then `sozu_id_header` (already validated) -/
def patchTail (p : HttpPatch) (l : HttpL) : HttpL :=
  { l with knobs := mergeKnobs p.knobs l.knobs, sid := orOldOpt p.sid l.sid }

/-- body of `update_http_listener` after validation and lookup -/
def applyHttpPatch (p : HttpPatch) (l : HttpL) : HttpL :=
  patchTail p (patchShared p l)

/-- body of `update_https_listener` after validation and lookup -/
def applyHttpsPatch (p : HttpPatch) (l : HttpL) : HttpL :=
  let l := patchShared p l
  patchTail p { l with alpn := orOld p.alpn l.alpn, strictSni := orOldOpt p.strictSni l.strictSni,
                       disableH11 := orOldOpt p.disableH11 l.disableH11 }

def applyTcpPatch (p : TcpPatch) (l : TcpL) : TcpL :=
  { l with pub := orOldOpt p.pub l.pub, expectProxy := orOld p.expectProxy l.expectProxy,
           ft := orOld p.ft l.ft, bt := orOld p.bt l.bt, ct := orOld p.ct l.ct }

def applyUdpPatch (p : UdpPatch) (l : UdpL) : UdpL :=
  { l with pub := orOldOpt p.pub l.pub, ft := orOld p.ft l.ft, bt := orOld p.bt l.bt,
           maxRx := orOld p.maxRx l.maxRx, maxFlows := orOld p.maxFlows l.maxFlows }

-- -------------------------------------------------------------- dispatch --

def listenerTarget (ty : LType) (addr : Nat) : Target :=
  match ty with
  | .http => .httpL (canon addr)
  | .https => .httpsL (canon addr)
  | .tcp => .tcpL (canon addr)
  | .udp => .udpL (canon addr)

/-- the map entry a verb addresses (`none`: the verb fails or succeeds before touching any map) -/
def tgt : Cmd → Option Target
  | .addCluster c => some (.cluster c.id)
  | .removeCluster id => some (.cluster id)
  | .setHC id _ => some (.cluster id)
  | .removeHC id => some (.cluster id)
  | .addHttpL l => some (.httpL (canon l.addr))
  | .addHttpsL l => some (.httpsL (canon l.addr))
  | .addTcpL l => some (.tcpL (canon l.addr))
  | .addUdpL l => some (.udpL (canon l.addr))
  | .removeListener ty a => ty.map (listenerTarget · a)
  | .activate ty a => ty.map (listenerTarget · a)
  | .deactivate ty a => ty.map (listenerTarget · a)
  | .addHttpF f => some (.httpF (fkey f))
  | .removeHttpF f => some (.httpF (fkey f))
  | .addHttpsF f => some (.httpsF (fkey f))
  | .removeHttpsF f => some (.httpsF (fkey f))
  | .addCert a _ => some (.certs (canon a))
  | .removeCert a _ => some (.certs (canon a))
  | .replaceCert a _ _ => some (.certs (canon a))
  | .addTcpF f => some (.tcpF f.cluster)
  | .removeTcpF f => some (.tcpF f.cluster)
  | .addUdpF f => some (.udpF f.cluster)
  | .removeUdpF f => some (.udpF f.cluster)
  | .addBackend b => some (.backends b.cluster)
  | .removeBackend cid _ _ => some (.backends cid)
  | .updHttpL p => some (.httpL (canon p.addr))
  | .updHttpsL p => some (.httpsL (canon p.addr))
  | .updTcpL p => some (.tcpL (canon p.addr))
  | .updUdpL p => some (.udpL (canon p.addr))
  | .other _ => none
  | .empty => none

/-- result of a verb that addresses no entry -/
def pre : Cmd → Bool
  | .other ok => ok
  | _ => false          -- `EmptyRequest`, `WrongFieldValue`

def setActive (b : Bool) : Option Val → Option Val × Bool
  | some (.hl l) => (some (.hl { l with active := b }), true)
  | some (.tl l) => (some (.tl { l with active := b }), true)
  | some (.ul l) => (some (.ul { l with active := b }), true)
  | v => (v, false)

/-- `entry(..).or_default()` on a per-cluster `Vec` of fronts -/
def tfsOf : Option Val → List TcpFront
  | some (.tfs l) => l
  | _ => []

def backendsOf : Option Val → List Backend
  | some (.backends l) => l
  | _ => []

def certsOf : Option Val → List (Nat × Cert)
  | some (.certs m) => m
  | _ => []

def addFront (f : ReqFront) (v : Option Val) : Option Val × Bool :=
  match v with
  | some _ => (v, false)                       -- Exists
  | none =>
    match toFrontend f with
    | none => (none, false)                    -- FrontendConversion
    | some fr => (some (.front fr), true)

def removeEntry (v : Option Val) : Option Val × Bool :=
  match v with
  | some _ => (none, true)
  | none => (none, false)

def addTcpFront (f : TcpFront) (v : Option Val) : Option Val × Bool :=
  let l := tfsOf v
  let fr : TcpFront := { f with addr := canon f.addr }
  if l.contains fr then (some (.tfs l), false) else (some (.tfs (l ++ [fr])), true)

def removeTcpFront (f : TcpFront) (v : Option Val) : Option Val × Bool :=
  match v with
  | some (.tfs l) =>
    let l' := l.filter (fun x => x.addr ≠ canon f.addr)
    (some (.tfs l'), l'.length ≠ l.length)
  | _ => (v, false)

/-- `apply_overriding_names` -/
def resolveNames (env : Env) (c : Cert) : Option Cert :=
  if c.names.isEmpty then
    match env.names c.pem with
    | some ns => some { c with names := ns }
    | none => none
  else some c

/-- what a verb does to the entry it addresses; `true` = `Ok(())` -/
def loc (env : Env) (c : Cmd) (v : Option Val) : Option Val × Bool :=
  match c with
  | .addCluster cl =>
    match cl.hc with
    | some hc => if hc.valid then (some (.cluster cl), true) else (v, false)
    | none => (some (.cluster cl), true)
  | .removeCluster _ => removeEntry v
  | .setHC _ hc =>
    if !hc.valid then (v, false) else
    match v with
    | some (.cluster cl) => (some (.cluster { cl with hc := some hc }), true)
    | _ => (v, false)
  | .removeHC _ =>
    match v with
    | some (.cluster cl) => (some (.cluster { cl with hc := none }), true)
    | _ => (v, false)
  | .addHttpL l => match v with | none => (some (.hl l), true) | some _ => (v, false)
  | .addHttpsL l => match v with | none => (some (.hl l), true) | some _ => (v, false)
  | .addTcpL l => match v with | none => (some (.tl l), true) | some _ => (v, false)
  | .addUdpL l => match v with | none => (some (.ul l), true) | some _ => (v, false)
  | .removeListener _ _ => removeEntry v
  | .activate _ _ => setActive true v
  | .deactivate _ _ => setActive false v
  | .addHttpF f => addFront f v
  | .removeHttpF _ => removeEntry v
  | .addHttpsF f => addFront f v
  | .removeHttpsF _ => removeEntry v
  | .addCert _ cert =>
    match env.fp cert.pem with
    | none => (v, false)
    | some fp =>
      match resolveNames env cert with                      -- before the bucket is created
      | none => (v, false)
      | some cert' =>
        let m := certsOf v                                 -- `entry(address).or_default()`
        if (certGet m fp).isSome then (some (.certs m), true)
        else (some (.certs (certSet m fp cert')), true)
  | .removeCert _ fp =>
    match fp with
    | none => (v, false)
    | some fp =>
      match v with
      | some (.certs m) => (some (.certs (certErase m fp)), true)
      | _ => (v, true)
  | .replaceCert _ old cert =>
    match resolveNames env cert with                        -- names resolved first
    | none => (v, false)
    | some cert' =>
      match old with
      | none => (v, false)
      | some old =>
        match v with
        | some (.certs m) =>
          match env.fp cert.pem with                        -- fingerprint before the removal
          | none => (v, false)
          | some nfp => (some (.certs (certSet (certErase m old) nfp cert')), true)
        | _ => (v, false)
  | .addTcpF f => addTcpFront f v
  | .removeTcpF f => removeTcpFront f v
  | .addUdpF f => addTcpFront f v
  | .removeUdpF f => removeTcpFront f v
  | .addBackend b =>
    let b' : Backend := { b with addr := canon b.addr }
    let l := backendsOf v
    (some (.backends (sortB (l.filter (fun x => x.id ≠ b'.id ∨ x.addr ≠ b'.addr) ++ [b']))), true)
  | .removeBackend _ bid addr =>
    match v with
    | some (.backends l) =>
      let l' := sortB (l.filter (fun x => x.id ≠ bid ∨ x.addr ≠ canon addr))
      (some (.backends l'), l'.length ≠ l.length)
    | _ => (v, false)
  | .updHttpL p =>
    if !knobsValid Consts.stateShrinkRatioMinHttp p.knobs || !patchSidValid p then (v, false) else
    match v with
    | some (.hl l) => (some (.hl (applyHttpPatch p l)), true)
    | _ => (v, false)
  | .updHttpsL p =>
    if !knobsValid Consts.stateShrinkRatioMinHttps p.knobs || !patchAlpnValid p || !patchSidValid p then (v, false) else
    match v with
    | some (.hl l) => (some (.hl (applyHttpsPatch p l)), true)
    | _ => (v, false)
  | .updTcpL p =>
    match v with
    | some (.tl l) => (some (.tl (applyTcpPatch p l)), true)
    | _ => (v, false)
  | .updUdpL p =>
    match v with
    | some (.ul l) => (some (.ul (applyUdpPatch p l)), true)
    | _ => (v, false)
  | .other _ => (v, true)
  | .empty => (v, false)

/-- `ConfigState::dispatch` (without `request_counts`) -/
def dispatch (env : Env) (s : St) (c : Cmd) : St × Bool :=
  match tgt c with
  | none => (s, pre c)
  | some t => let r := loc env c (look s t); (put s t r.1, r.2)

/-- `Server::notify_proxys` (lib/src/server.rs) for a configuration verb, seen from the worker's own
    `ConfigState`: the command is dispatched on it first and the outcome ignored; what is answered
    is the verdict of the proxies (`proxyOk`, a parameter: the proxies are not modelled). -/
def workerNotify (env : Env) (s : St) (c : Cmd) (proxyOk : Bool) : St × Bool :=
  ((dispatch env s c).1, proxyOk)

def run (env : Env) (s : St) (cs : List Cmd) : St := cs.foldl (fun s c => (dispatch env s c).1) s

/-- all results of replaying `cs` are `Ok` -/
def allOk (env : Env) : St → List Cmd → Bool
  | _, [] => true
  | s, c :: cs => (dispatch env s c).2 && allOk env (dispatch env s c).1 cs

-- ----------------------------------------------------- generate_requests --

def genListener (ty : LType) (add : Cmd) (raw : Nat) (active : Bool) : List Cmd :=
  add :: (if active then [Cmd.activate (some ty) raw] else [])

def certCmds (a : Nat) (m : List (Nat × Cert)) : List Cmd := m.map (fun p => Cmd.addCert a p.2)

/-- the requests `generate_requests` emits for one map entry -/
def genEntry : Target × Val → List Cmd
  | (.httpL _, .hl l) => genListener .http (.addHttpL l) l.addr l.active
  | (.httpsL _, .hl l) => genListener .https (.addHttpsL l) l.addr l.active
  | (.tcpL _, .tl l) => genListener .tcp (.addTcpL l) l.addr l.active
  | (.udpL _, .ul l) => genListener .udp (.addUdpL l) l.addr l.active
  | (.cluster _, .cluster c) => [.addCluster c]
  | (.httpF _, .front f) => [.addHttpF (toReq f)]
  | (.certs a, .certs m) => certCmds a m
  | (.httpsF _, .front f) => [.addHttpsF (toReq f)]
  | (.tcpF _, .tfs l) => l.map Cmd.addTcpF
  | (.udpF _, .tfs l) => l.map Cmd.addUdpF
  | (.backends _, .backends l) => l.map Cmd.addBackend
  | _ => []

/-- section number of a map in the emission order of `generate_requests` -/
def sectionOf : Target → Nat
  | .httpL _ => 0 | .httpsL _ => 1 | .tcpL _ => 2 | .udpL _ => 3 | .cluster _ => 4
  | .httpF _ => 5 | .certs _ => 6 | .httpsF _ => 7 | .tcpF _ => 8 | .udpF _ => 9 | .backends _ => 10

def sectionEntries (s : St) (i : Nat) : List (Target × Val) := s.filter (fun e => sectionOf e.1 = i)

/-- `generate_requests`: sections in source order; inside a section the map's iteration order
    (here: the list order, immaterial by `C05_order_free`). -/
def generateRequests (s : St) : List Cmd :=
  (List.range 11).flatMap (fun i => (sectionEntries s i).flatMap genEntry)

-- ------------------------------------------------------------------ diff --

inductive DiffRes where
  | added | removed | changed
deriving DecidableEq, Repr

/-- the `DiffMap` merge-join iterator, on arbitrary key streams; `fuel` bounds the number of
    `next()` rounds (each round consumes at least one element) -/
def diffMapAux {κ ν : Type} [DecidableEq ν] (lt : κ → κ → Bool) :
    Nat → List (κ × ν) → List (κ × ν) → List (κ × DiffRes)
  | 0, _, _ => []
  | _ + 1, [], [] => []
  | n + 1, [], (k, _) :: os => (k, .added) :: diffMapAux lt n [] os
  | n + 1, (k, _) :: ms, [] => (k, .removed) :: diffMapAux lt n ms []
  | n + 1, (k1, v1) :: ms, (k2, v2) :: os =>
    if lt k1 k2 then (k1, .removed) :: diffMapAux lt n ms ((k2, v2) :: os)
    else if lt k2 k1 then (k2, .added) :: diffMapAux lt n ((k1, v1) :: ms) os
    else if v1 ≠ v2 then (k1, .changed) :: diffMapAux lt n ms os
    else diffMapAux lt n ms os

def diffMap {κ ν : Type} [DecidableEq ν] (lt : κ → κ → Bool) (m o : List (κ × ν)) :
    List (κ × DiffRes) := diffMapAux lt (m.length + o.length) m o

def insertByKey {ν : Type} (x : Nat × ν) : List (Nat × ν) → List (Nat × ν)
  | [] => [x]
  | y :: ys => if x.1 ≤ y.1 then x :: y :: ys else y :: insertByKey x ys

/-- `BTreeMap` iteration: ascending keys -/
def sortByKey {ν : Type} (l : List (Nat × ν)) : List (Nat × ν) := l.foldr insertByKey []

def clustersOf (s : St) : List (Nat × Cluster) :=
  sortByKey (s.filterMap fun e => match e with | (.cluster id, .cluster c) => some (id, c) | _ => none)

def bucketsOf (s : St) : List (Nat × List Backend) :=
  sortByKey (s.filterMap fun e => match e with | (.backends id, .backends l) => some (id, l) | _ => none)

def ltPair (a b : Nat × Nat) : Bool := a.1 < b.1 || (a.1 == b.1 && a.2 < b.2)

/-- the flattened `((cluster_id, backend_id), backend)` stream -/
def backendStream (s : St) : List ((Nat × Nat) × Backend) :=
  (bucketsOf s).flatMap fun p => p.2.map fun b => ((p.1, b.id), b)

def findBackend (s : St) (cid bid : Nat) : Option Backend :=
  (backendsOf (look s (.backends cid))).find? (fun b => b.id = bid)

def keysOf (s : St) (p : Target → Option Nat) : List Nat := s.filterMap fun e => p e.1

def isHttpL : Target → Option Nat | .httpL a => some a | _ => none
def isHttpsL : Target → Option Nat | .httpsL a => some a | _ => none
def isTcpL : Target → Option Nat | .tcpL a => some a | _ => none
def isUdpL : Target → Option Nat | .udpL a => some a | _ => none

def listenerActive : Option Val → Bool
  | some (.hl l) => l.active
  | some (.tl l) => l.active
  | some (.ul l) => l.active
  | _ => false

def deactivated : Val → Val
  | .hl l => .hl { l with active := false }
  | .tl l => .tl { l with active := false }
  | .ul l => .ul { l with active := false }
  | v => v

def addListenerCmd (ty : LType) : Val → List Cmd
  | .hl l => [match ty with | .https => Cmd.addHttpsL l | _ => Cmd.addHttpL l]
  | .tl l => [Cmd.addTcpL l]
  | .ul l => [Cmd.addUdpL l]
  | _ => []

/-- removed listeners of one map: `Deactivate?`, `Remove` -/
def diffRemovedL (ty : LType) (a b : St) (keys : Target → Option Nat) : List Cmd :=
  ((keysOf a keys).filter (fun k => !(keysOf b keys).contains k)).flatMap fun k =>
    (if listenerActive (look a (listenerTarget ty k)) then [Cmd.deactivate (some ty) k] else []) ++
    [Cmd.removeListener (some ty) k]

def addedKeys (a b : St) (keys : Target → Option Nat) : List Nat :=
  (keysOf b keys).filter (fun k => !(keysOf a keys).contains k)

/-- added listeners of one map: `Add`, `Activate?` -/
def diffAddedL (ty : LType) (a b : St) (keys : Target → Option Nat) : List Cmd :=
  (addedKeys a b keys).flatMap fun k =>
    match look b (listenerTarget ty k) with
    | some v => addListenerCmd ty v ++
        (if listenerActive (some v) then [Cmd.activate (some ty) k] else [])
    | none => []

/-- listeners present on both sides -/
def diffCommonL (ty : LType) (a b : St) (keys : Target → Option Nat) : List Cmd :=
  ((keysOf a keys).filter (fun k => (keysOf b keys).contains k)).flatMap fun k =>
    match look a (listenerTarget ty k), look b (listenerTarget ty k) with
    | some mine, some theirs =>
      (if mine ≠ theirs then
        [Cmd.removeListener (some ty) k] ++ addListenerCmd ty (deactivated theirs) ++
        (if listenerActive (some theirs) then [Cmd.activate (some ty) k] else [])
       else []) ++
      (if listenerActive (some mine) && !listenerActive (some theirs) then [Cmd.deactivate (some ty) k] else [])
    | _, _ => []

/-- second `ActivateListener` pass (tcp and udp only) -/
def diffReactivate (ty : LType) (a b : St) (keys : Target → Option Nat) : List Cmd :=
  (addedKeys a b keys).flatMap fun k =>
    match look b (listenerTarget ty k) with
    | some (.tl l) => if l.active then [Cmd.activate (some ty) l.addr] else []
    | some (.ul l) => if l.active then [Cmd.activate (some ty) l.addr] else []
    | _ => []

def diffClusters (a b : St) : List Cmd :=
  (diffMap (fun x y => decide (x < y)) (clustersOf a) (clustersOf b)).flatMap fun r =>
    match r.2 with
    | .added | .changed =>
      match look b (.cluster r.1) with
      | some (.cluster c) => [Cmd.addCluster c]
      | _ => []
    | .removed => [Cmd.removeCluster r.1]

def rmBackendCmd (b : Backend) : Cmd := .removeBackend b.cluster b.id b.addr

def diffBackends (a b : St) : List Cmd :=
  (diffMap ltPair (backendStream a) (backendStream b)).flatMap fun r =>
    match r.2 with
    | .added => (findBackend b r.1.1 r.1.2).toList.map Cmd.addBackend
    | .removed => (findBackend a r.1.1 r.1.2).toList.map rmBackendCmd
    | .changed => (findBackend a r.1.1 r.1.2).toList.map rmBackendCmd ++
                  (findBackend b r.1.1 r.1.2).toList.map Cmd.addBackend

def frontsOf (s : St) (https : Bool) : List (FKey × HttpFront) :=
  s.filterMap fun e => match e with
    | (.httpF k, .front f) => if https then none else some (k, f)
    | (.httpsF k, .front f) => if https then some (k, f) else none
    | _ => none

/-- `HashSet<(route, front)>` differences: removed first, then added -/
def diffFronts (a b : St) (https : Bool) : List Cmd :=
  let mine := frontsOf a https
  let theirs := frontsOf b https
  ((mine.filter (fun p => !theirs.contains p)).map fun p =>
      if https then Cmd.removeHttpsF (toReq p.2) else Cmd.removeHttpF (toReq p.2)) ++
  ((theirs.filter (fun p => !mine.contains p)).map fun p =>
      if https then Cmd.addHttpsF (toReq p.2) else Cmd.addHttpF (toReq p.2))

def tcpFrontsOf (s : St) (udp : Bool) : List (Nat × TcpFront) :=
  s.flatMap fun e => match e with
    | (.tcpF cid, .tfs l) => if udp then [] else l.map fun f => (cid, f)
    | (.udpF cid, .tfs l) => if udp then l.map fun f => (cid, f) else []
    | _ => []

def diffTcpFronts (a b : St) (udp : Bool) : List Cmd :=
  let mine := (tcpFrontsOf a udp).eraseDups
  let theirs := (tcpFrontsOf b udp).eraseDups
  ((mine.filter (fun p => !theirs.contains p)).map fun p =>
      if udp then Cmd.removeUdpF p.2 else Cmd.removeTcpF p.2) ++
  ((theirs.filter (fun p => !mine.contains p)).map fun p =>
      if udp then Cmd.addUdpF p.2 else Cmd.addTcpF p.2)

def certKeysOf (s : St) : List (Nat × Nat) :=
  s.flatMap fun e => match e with
    | (.certs a, .certs m) => m.map fun p => (a, p.1)
    | _ => []

def diffCerts (a b : St) : List Cmd :=
  let mine := certKeysOf a
  let theirs := certKeysOf b
  ((mine.filter (fun p => !theirs.contains p)).map fun p => Cmd.removeCert p.1 (some p.2)) ++
  ((theirs.filter (fun p => !mine.contains p)).flatMap fun p =>
      match certGet (certsOf (look b (.certs p.1))) p.2 with
      | some c => [Cmd.addCert p.1 c]
      | none => [])

/-- `ConfigState::diff`, sections in source order -/
def diff (a b : St) : List Cmd :=
  diffRemovedL .tcp a b isTcpL ++ diffAddedL .tcp a b isTcpL ++
  diffRemovedL .udp a b isUdpL ++ diffAddedL .udp a b isUdpL ++
  diffRemovedL .http a b isHttpL ++ diffAddedL .http a b isHttpL ++
  diffRemovedL .https a b isHttpsL ++ diffAddedL .https a b isHttpsL ++
  diffCommonL .tcp a b isTcpL ++ diffCommonL .udp a b isUdpL ++
  diffCommonL .http a b isHttpL ++ diffCommonL .https a b isHttpsL ++
  diffClusters a b ++ diffBackends a b ++
  diffFronts a b false ++ diffFronts a b true ++
  diffTcpFronts a b false ++ diffTcpFronts a b true ++
  diffCerts a b ++
  diffReactivate .tcp a b isTcpL ++ diffReactivate .udp a b isUdpL

-- ----------------------------------------------------------- equivalence --

/-- an empty per-cluster `Vec` / empty certificate bucket is the same as no entry -/
def norm : Option Val → Option Val
  | some (.backends []) => none
  | some (.tfs []) => none
  | some (.certs []) => none
  | v => v

/-- same configuration, entry by entry (every map, listeners and certificates included) -/
def Same (s s' : St) : Prop := ∀ t, look s t = look s' t

/-- same configuration up to empty buckets -/
def Equiv (s s' : St) : Prop := ∀ t, norm (look s t) = norm (look s' t)

/-- executable `Equiv` on the targets occurring in either state (used by the driver) -/
def equivB (s s' : St) : Bool :=
  (s.map (·.1) ++ s'.map (·.1)).all fun t => norm (look s t) = norm (look s' t)

end Sozu.State
