/-
Line-protocol helpers shared by every driver. Import-free (core only) so the
drivers link as `lean_exe`.
-/
namespace Sozu.Proto

/-- Split a protocol line into whitespace-separated words. -/
def words (line : String) : List String :=
  (line.trimAscii.toString.splitOn " ").filter (· ≠ "")

/-- Hex digit value. -/
def hexVal (c : Char) : Option Nat :=
  if '0' ≤ c ∧ c ≤ '9' then some (c.toNat - '0'.toNat)
  else if 'a' ≤ c ∧ c ≤ 'f' then some (c.toNat - 'a'.toNat + 10)
  else if 'A' ≤ c ∧ c ≤ 'F' then some (c.toNat - 'A'.toNat + 10)
  else none

/-- Decode a hex string ("-" is the empty byte string) into bytes (as `Nat < 256`). -/
def hexToBytes (s : String) : Option (List Nat) :=
  if s = "-" then some [] else
  let rec go : List Char → List Nat → Option (List Nat)
    | [], acc => some acc.reverse
    | [_], _ => none
    | a :: b :: rest, acc =>
      match hexVal a, hexVal b with
      | some x, some y => go rest ((x * 16 + y) :: acc)
      | _, _ => none
  go s.toList []

def hexDigit (n : Nat) : Char :=
  if n < 10 then Char.ofNat ('0'.toNat + n) else Char.ofNat ('a'.toNat + (n - 10))

/-- Encode bytes as lowercase hex ("-" for empty). -/
def bytesToHex (bs : List Nat) : String :=
  if bs.isEmpty then "-" else
  String.ofList (bs.flatMap fun b => [hexDigit (b / 16 % 16), hexDigit (b % 16)])

def boolStr (b : Bool) : String := if b then "1" else "0"

/-- Generic stdin loop: `step` consumes one line and yields the new state and
    the output lines to print. -/
partial def loop {σ : Type} (h : IO.FS.Stream) (out : IO.FS.Stream)
    (step : σ → String → σ × List String) (s : σ) : IO Unit := do
  let line ← h.getLine
  if line.isEmpty then
    out.flush
    return ()
  if line.startsWith "#" then
    -- case separators are echoed unchanged
    out.putStrLn line.trimAscii.toString
    loop h out step s
  else
    let (s', outs) := step s line
    for o in outs do
      out.putStrLn o
    loop h out step s'

def runDriver {σ : Type} (step : σ → String → σ × List String) (init : σ) : IO Unit := do
  let stdin ← IO.getStdin
  let stdout ← IO.getStdout
  loop stdin stdout step init

end Sozu.Proto
