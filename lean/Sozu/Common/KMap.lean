/-
A tiny total association map over `Nat`-valued counters / arbitrary values,
used by several models in place of Rust's `HashMap`. `set` removes every older
binding of the key, so `get_set` holds unconditionally (no well-formedness
side condition) and iteration order is never observable through `get`.
-/
namespace Sozu

abbrev KMap (κ : Type) (ν : Type) := List (κ × ν)

namespace KMap
variable {κ ν : Type} [DecidableEq κ]

def get? (m : KMap κ ν) (k : κ) : Option ν :=
  match m.find? (fun p => p.1 = k) with
  | some p => some p.2
  | none => none

def erase (m : KMap κ ν) (k : κ) : KMap κ ν := m.filter (fun p => p.1 ≠ k)

def set (m : KMap κ ν) (k : κ) (v : ν) : KMap κ ν := (k, v) :: erase m k

def contains (m : KMap κ ν) (k : κ) : Bool := (get? m k).isSome

def keys (m : KMap κ ν) : List κ := m.map (·.1)

theorem find?_erase_self (m : KMap κ ν) (k : κ) :
    (erase m k).find? (fun p => p.1 = k) = none := by
  unfold erase
  induction m with
  | nil => simp
  | cons a t ih => grind

theorem find?_erase_ne (m : KMap κ ν) {k k' : κ} (h : k' ≠ k) :
    (erase m k).find? (fun p => p.1 = k') = m.find? (fun p => p.1 = k') := by
  unfold erase
  induction m with
  | nil => simp
  | cons a t ih => grind

@[simp] theorem get?_erase_self (m : KMap κ ν) (k : κ) : get? (erase m k) k = none := by
  simp [get?, find?_erase_self]

theorem get?_erase_ne (m : KMap κ ν) {k k' : κ} (h : k' ≠ k) :
    get? (erase m k) k' = get? m k' := by
  simp [get?, find?_erase_ne m h]

@[simp] theorem get?_set_self (m : KMap κ ν) (k : κ) (v : ν) : get? (set m k v) k = some v := by
  simp [get?, set]

theorem get?_set_ne (m : KMap κ ν) {k k' : κ} (v : ν) (h : k' ≠ k) :
    get? (set m k v) k' = get? m k' := by
  have h2 : ¬ k = k' := fun e => h e.symm
  simp only [get?, set, List.find?_cons, h2, decide_false]
  rw [find?_erase_ne m h]

theorem get?_set (m : KMap κ ν) (k k' : κ) (v : ν) :
    get? (set m k v) k' = if k' = k then some v else get? m k' := by
  by_cases h : k' = k
  · subst h; simp
  · simp [h, get?_set_ne m v h]

theorem get?_erase (m : KMap κ ν) (k k' : κ) :
    get? (erase m k) k' = if k' = k then none else get? m k' := by
  by_cases h : k' = k
  · subst h; simp
  · simp [h, get?_erase_ne m h]

@[simp] theorem get?_nil (k : κ) : get? ([] : KMap κ ν) k = none := rfl

end KMap
end Sozu
