import Sozu.Tls.Model
import Sozu.Trie.Lemmas
/-
Helper lemmas of the Tls area.

Part 1 ties byte strings to the abstract trie keys of `Sozu.Trie.Lemmas`:
a name is `joinRev ds l` (labels `ds` right-to-left, left-most label `l`), and
for names without `/` whose left-most label is not empty `splitKey` yields
`keySteps ds l`, `splitHost` yields `qSegs ds l`.

Part 2 is the resolver: per-name effect of the `add` / `remove` loops on the
three structures and the invariant `Agree`.
-/
set_option linter.unusedSimpArgs false
set_option linter.unusedVariables false
namespace Sozu.Tls
open Sozu Sozu.Trie

-- part 1 (byte strings vs abstract trie keys) lives in `Sozu.Trie.Lemmas`; the names are re-exported
export Sozu.Trie (joinRev joinRev_cons_left joinRev_eq_append joinRev_snoc exists_joinRev joinRev_nil_head leftmost_ne_nil find?_getD_append findLast_snoc rev_induction findLast_none findLast_join getLast?_ne_of_not_mem splitKeyAux_join joinRev_length splitKey_join lstep labelsRev_eq foldl_lstep_nodot labelsRev_join segsOfLabels_snoc splitHost_join GoodName GoodHost wildOf keyOf keyOf_join keyOf_inj T_ne good_split dropWhile_nodot wildOf_join host_split)

/-- the trie entry stored under the name `n` -/
def T (t : Node Fp) (n : Bytes) : Option (Bytes × Fp) := get t (keySteps (keyOf n).1 (keyOf n).2)


-- ---- the trie under good names

theorem trie_remove_spec {t : Node Fp} (h : WF t) {n : Bytes} (hn : GoodName n) :
    WF (Trie.remove t n).2 ∧ T (Trie.remove t n).2 n = none ∧
      ∀ m, m ≠ n → T (Trie.remove t n).2 m = T t m := by
  obtain ⟨ds, l, _, _, hk, hs⟩ := good_split hn
  have sp := removeRec_spec ds l t h
  simp only [Trie.remove, hs]
  refine ⟨sp.wf, ?_, ?_⟩
  · simp only [T, hk]; exact sp.self
  · intro m hm
    have := T_ne hm
    rw [hk] at this
    exact sp.other _ _ this

theorem trie_insert_spec {t : Node Fp} (h : WF t) {n : Bytes} (hn : GoodName n) (v : Fp)
    (hnone : T t n = none) :
    (trieInsert t n v).2 = false ∧ WF (trieInsert t n v).1 ∧ T (trieInsert t n v).1 n = some (n, v) ∧
      ∀ m, m ≠ n → T (trieInsert t n v).1 m = T t m := by
  obtain ⟨ds, l, _, _, hk, hs⟩ := good_split hn
  have sp := insertRec_spec n v ds l t h
  have hne : n ≠ [] := hn.1
  have hnd : n ≠ [DOT] := by
    intro e; apply hn.2.1; rw [e]; rfl
  have hg : get t (keySteps ds l) = none := by simpa [T, hk] using hnone
  have hcode : (insertRec t (keySteps ds l) n v).1 = InsertResult.ok := by rw [sp.code, hg]; rfl
  have hins : Trie.insert t n v = insertRec t (keySteps ds l) n v := by
    simp [Trie.insert, hne, hnd, hs]
  have hti : trieInsert t n v = ((insertRec t (keySteps ds l) n v).2, false) := by
    simp [trieInsert, hins, hne, hnd, hcode]
  rw [hti]
  refine ⟨rfl, sp.wf, ?_, ?_⟩
  · simp only [T, hk]; rw [sp.self, hg]; rfl
  · intro m hm
    have := T_ne hm
    rw [hk] at this
    exact sp.other _ _ this

theorem trie_lookup_spec (re : Bytes → Bytes → Bool) {t : Node Fp} (h : WF t) {N : Bytes}
    (hN : GoodHost N) :
    Trie.domainLookup re t N true = (T t N).orElse (fun _ => T t (wildOf N)) := by
  obtain ⟨ds, l, _, hk, hw, hs⟩ := host_split hN
  simp only [Trie.domainLookup, hs, lookup_eq re ds l t h, T, hk, hw]

-- ---- sorting

def Sorted (l : List (Fp × Int)) : Prop := l.Pairwise (fun a b => a.2 ≤ b.2)

theorem mem_insertByExp (x y : Fp × Int) (l : List (Fp × Int)) :
    y ∈ insertByExp x l ↔ y = x ∨ y ∈ l := by
  induction l with
  | nil => simp [insertByExp]
  | cons z zs ih =>
    simp only [insertByExp]
    split
    · simp only [List.mem_cons, ih]; constructor <;> (intro h; rcases h with h | h | h <;> simp [h])
    · simp

theorem sorted_insertByExp (x : Fp × Int) (l : List (Fp × Int)) (h : Sorted l) :
    Sorted (insertByExp x l) := by
  induction l with
  | nil => simp [insertByExp, Sorted]
  | cons z zs ih =>
    have hz : ∀ b ∈ zs, z.2 ≤ b.2 := (List.pairwise_cons.mp h).1
    have hs : Sorted zs := (List.pairwise_cons.mp h).2
    simp only [insertByExp]
    split
    · next hle =>
      refine List.pairwise_cons.mpr ⟨?_, ih hs⟩
      intro b hb
      rcases (mem_insertByExp x b zs).mp hb with rfl | hb
      · exact hle
      · exact hz b hb
    · next hgt =>
      refine List.pairwise_cons.mpr ⟨?_, h⟩
      intro b hb
      have hxz : x.2 ≤ z.2 := by omega
      rcases List.mem_cons.mp hb with rfl | hb
      · exact hxz
      · exact Int.le_trans hxz (hz b hb)

theorem foldl_insert_spec (l acc : List (Fp × Int)) (h : Sorted acc) :
    Sorted (l.foldl (fun acc x => insertByExp x acc) acc) ∧
      ∀ y, y ∈ l.foldl (fun acc x => insertByExp x acc) acc ↔ y ∈ acc ∨ y ∈ l := by
  induction l generalizing acc with
  | nil => simp [h]
  | cons x l ih =>
    have := ih (insertByExp x acc) (sorted_insertByExp x acc h)
    refine ⟨this.1, ?_⟩
    intro y
    simp only [List.foldl_cons, this.2, mem_insertByExp, List.mem_cons]
    constructor
    · rintro ((h | h) | h)
      · exact Or.inr (Or.inl h)
      · exact Or.inl h
      · exact Or.inr (Or.inr h)
    · rintro (h | h | h)
      · exact Or.inl (Or.inr h)
      · exact Or.inl (Or.inl h)
      · exact Or.inr h

theorem sorted_sortByExp (l : List (Fp × Int)) : Sorted (sortByExp l) :=
  (foldl_insert_spec l [] (by simp [Sorted])).1

theorem mem_sortByExp (l : List (Fp × Int)) (y : Fp × Int) : y ∈ sortByExp l ↔ y ∈ l := by
  unfold sortByExp
  simpa using (foldl_insert_spec l [] (by simp [Sorted])).2 y

theorem sorted_last {l : List (Fp × Int)} (h : Sorted l) {x : Fp × Int} (hx : l.getLast? = some x) :
    x ∈ l ∧ ∀ y ∈ l, y.2 ≤ x.2 := by
  have hm : x ∈ l := List.mem_of_getLast? hx
  refine ⟨hm, ?_⟩
  obtain ⟨ys, hd⟩ := List.getLast?_eq_some_iff.mp hx
  have hd : ys ++ [x] = l := hd.symm
  rw [← hd] at h
  have hp := List.pairwise_append.mp h
  intro y hy
  rw [← hd] at hy
  rcases List.mem_append.mp hy with hy | hy
  · exact hp.2.2 y hy x (by simp)
  · simp at hy; subst hy; exact Int.le_refl _

-- ---- per-name steps of the resolver

/-- what the trie holds for a name whose index list is `l` -/
def lastKV (n : Bytes) (l : List (Fp × Int)) : Option (Bytes × Fp) := l.getLast?.map (fun p => (n, p.1))

/-- agreement of the trie with the per-name index -/
structure A (s : State) : Prop where
  wf : WF s.domains
  trie : ∀ n, T s.domains n = lastKV n (idxGet s n)
  sorted : ∀ n, Sorted (idxGet s n)
  alive : s.dead = false

theorem idxGet_set (s : State) (name : Bytes) (l : List (Fp × Int)) (t : Node Fp) (d : Bool) (n : Bytes) :
    idxGet { s with idx := KMap.set s.idx name l, domains := t, dead := d } n =
      if n = name then l else idxGet s n := by
  simp only [idxGet, KMap.get?_set]
  split <;> rfl

theorem idxGet_erase (s : State) (name : Bytes) (t : Node Fp) (d : Bool) (n : Bytes) :
    idxGet { s with idx := KMap.erase s.idx name, domains := t, dead := d } n =
      if n = name then [] else idxGet s n := by
  simp only [idxGet, KMap.get?_erase]
  split <;> rfl

theorem addName_spec (fp : Fp) (e : Int) (s : State) (name : Bytes) (hA : A s) (hg : GoodName name) :
    A (addName fp e s name) ∧ (addName fp e s name).certs = s.certs ∧
      ∀ n x, x ∈ idxGet (addName fp e s name) n ↔ x ∈ idxGet s n ∨ (n = name ∧ x = (fp, e)) := by
  have hmem : ∀ x, x ∈ sortByExp (idxGet s name ++ [(fp, e)]) ↔ x ∈ idxGet s name ∨ x = (fp, e) := by
    intro x; simp [mem_sortByExp]
  have hsort := sorted_sortByExp (idxGet s name ++ [(fp, e)])
  cases hl : (sortByExp (idxGet s name ++ [(fp, e)])).getLast? with
  | none =>
    have : sortByExp (idxGet s name ++ [(fp, e)]) = [] := List.getLast?_eq_none_iff.mp hl
    have h2 := (hmem (fp, e)).mpr (Or.inr rfl)
    rw [this] at h2; simp at h2
  | some last =>
    have rm := trie_remove_spec hA.wf hg
    have ins := trie_insert_spec rm.1 hg last.1 rm.2.1
    have hform : addName fp e s name =
        { s with idx := KMap.set s.idx name (sortByExp (idxGet s name ++ [(fp, e)])),
                 domains := (trieInsert (Trie.remove s.domains name).2 name last.1).1,
                 dead := s.dead || (trieInsert (Trie.remove s.domains name).2 name last.1).2 } := by
      simp only [addName, hl]
    rw [hform]
    refine ⟨⟨ins.2.1, ?_, ?_, ?_⟩, rfl, ?_⟩
    · intro n
      rw [idxGet_set]
      by_cases hn : n = name
      · subst hn; simp only [if_true, lastKV, hl, Option.map_some]; exact ins.2.2.1
      · simp only [hn, if_false]
        rw [ins.2.2.2 n hn, rm.2.2 n hn]; exact hA.trie n
    · intro n
      rw [idxGet_set]
      by_cases hn : n = name
      · subst hn; simpa using hsort
      · simp only [hn, if_false]; exact hA.sorted n
    · simp [hA.alive, ins.1]
    · intro n x
      rw [idxGet_set]
      by_cases hn : n = name
      · subst hn; simp [hmem]
      · simp [hn]

theorem addNames_spec (fp : Fp) (e : Int) (names : List Bytes) :
    ∀ (s : State), A s → (∀ n ∈ names, GoodName n) →
      A (names.foldl (addName fp e) s) ∧ (names.foldl (addName fp e) s).certs = s.certs ∧
      ∀ n x, x ∈ idxGet (names.foldl (addName fp e) s) n ↔
        x ∈ idxGet s n ∨ (n ∈ names ∧ x = (fp, e)) := by
  induction names with
  | nil => intro s hA _; simp [hA]
  | cons a names ih =>
    intro s hA hg
    have h1 := addName_spec fp e s a hA (hg a (by simp))
    have h2 := ih (addName fp e s a) h1.1 (fun n hn => hg n (List.mem_cons_of_mem _ hn))
    refine ⟨h2.1, by rw [List.foldl_cons, h2.2.1, h1.2.1], ?_⟩
    intro n x
    rw [List.foldl_cons, h2.2.2, h1.2.2]
    simp only [List.mem_cons]
    constructor
    · rintro ((h | ⟨h, hx⟩) | ⟨h, hx⟩)
      · exact Or.inl h
      · exact Or.inr ⟨Or.inl h, hx⟩
      · exact Or.inr ⟨Or.inr h, hx⟩
    · rintro (h | ⟨h | h, hx⟩)
      · exact Or.inl (Or.inl h)
      · exact Or.inl (Or.inr ⟨h, hx⟩)
      · exact Or.inr ⟨h, hx⟩

theorem sorted_filter {l : List (Fp × Int)} (h : Sorted l) (p : Fp × Int → Bool) : Sorted (l.filter p) :=
  List.Pairwise.sublist List.filter_sublist h

theorem removeName_spec (fp : Fp) (s : State) (name : Bytes) (hA : A s) (hg : GoodName name) :
    A (removeName fp s name) ∧ (removeName fp s name).certs = s.certs ∧
      ∀ n x, x ∈ idxGet (removeName fp s name) n ↔ x ∈ idxGet s n ∧ ¬ (n = name ∧ x.1 = fp) := by
  have rm := trie_remove_spec hA.wf hg
  cases hi : KMap.get? s.idx name with
  | none =>
    have hempty : idxGet s name = [] := by simp [idxGet, hi]
    have hform : removeName fp s name = { s with domains := (Trie.remove s.domains name).2 } := by
      simp only [removeName, hi]
    rw [hform]
    refine ⟨⟨rm.1, ?_, hA.sorted, hA.alive⟩, rfl, ?_⟩
    · intro n
      by_cases hn : n = name
      · subst hn
        show T (Trie.remove s.domains n).2 n = lastKV n (idxGet s n)
        rw [rm.2.1, hempty]; rfl
      · show T (Trie.remove s.domains name).2 n = lastKV n (idxGet s n)
        rw [rm.2.2 n hn]; exact hA.trie n
    · intro n x
      show x ∈ idxGet s n ↔ _
      constructor
      · intro hx
        refine ⟨hx, ?_⟩
        rintro ⟨rfl, _⟩
        rw [hempty] at hx; simp at hx
      · exact fun h => h.1
  | some l =>
    have hl : idxGet s name = l := by simp [idxGet, hi]
    cases hlast : (l.filter (fun t => t.1 ≠ fp)).getLast? with
    | none =>
      have hnil : l.filter (fun t => t.1 ≠ fp) = [] := List.getLast?_eq_none_iff.mp hlast
      have hform : removeName fp s name =
          { s with idx := KMap.erase s.idx name, domains := (Trie.remove s.domains name).2,
                   dead := s.dead || false } := by
        simp only [removeName, hi, hnil, List.getLast?_nil, List.isEmpty_nil, if_true]
      rw [hform]
      refine ⟨⟨rm.1, ?_, ?_, by simp [hA.alive]⟩, rfl, ?_⟩
      · intro n
        rw [idxGet_erase]
        by_cases hn : n = name
        · subst hn; simp only [if_true]; rw [rm.2.1]; rfl
        · simp only [hn, if_false]; rw [rm.2.2 n hn]; exact hA.trie n
      · intro n
        rw [idxGet_erase]
        by_cases hn : n = name
        · simp [hn, Sorted]
        · simp only [hn, if_false]; exact hA.sorted n
      · intro n x
        rw [idxGet_erase]
        by_cases hn : n = name
        · subst hn
          simp only [if_true, List.not_mem_nil, true_and, false_iff, not_and, Classical.not_not, hl]
          intro hx
          have := List.filter_eq_nil_iff.mp hnil x hx
          simpa using this
        · simp [hn]
    | some last =>
      have hne : l.filter (fun t => t.1 ≠ fp) ≠ [] := by
        intro e; rw [e] at hlast; simp at hlast
      have ins := trie_insert_spec rm.1 hg last.1 rm.2.1
      have hemp : (l.filter (fun t => t.1 ≠ fp)).isEmpty = false := by
        cases h : l.filter (fun t => t.1 ≠ fp) with
        | nil => exact absurd h hne
        | cons _ _ => rfl
      have hform : removeName fp s name =
          { s with idx := KMap.set s.idx name (l.filter (fun t => t.1 ≠ fp)),
                   domains := (trieInsert (Trie.remove s.domains name).2 name last.1).1,
                   dead := s.dead || (trieInsert (Trie.remove s.domains name).2 name last.1).2 } := by
        simp only [removeName, hi, hlast, hemp, Bool.false_eq_true, if_false]
      rw [hform]
      refine ⟨⟨ins.2.1, ?_, ?_, by simp [hA.alive, ins.1]⟩, rfl, ?_⟩
      · intro n
        rw [idxGet_set]
        by_cases hn : n = name
        · subst hn; simp only [if_true, lastKV, hlast, Option.map_some]; exact ins.2.2.1
        · simp only [hn, if_false]; rw [ins.2.2.2 n hn, rm.2.2 n hn]; exact hA.trie n
      · intro n
        rw [idxGet_set]
        by_cases hn : n = name
        · subst hn; simp only [if_true]; rw [← hl]; exact sorted_filter (hA.sorted n) _
        · simp only [hn, if_false]; exact hA.sorted n
      · intro n x
        rw [idxGet_set]
        by_cases hn : n = name
        · subst hn; simp [hl, List.mem_filter]
        · simp [hn]

theorem removeNames_spec (fp : Fp) (names : List Bytes) :
    ∀ (s : State), A s → (∀ n ∈ names, GoodName n) →
      A (names.foldl (removeName fp) s) ∧ (names.foldl (removeName fp) s).certs = s.certs ∧
      ∀ n x, x ∈ idxGet (names.foldl (removeName fp) s) n ↔
        x ∈ idxGet s n ∧ ¬ (n ∈ names ∧ x.1 = fp) := by
  induction names with
  | nil => intro s hA _; simp [hA]
  | cons a names ih =>
    intro s hA hg
    have h1 := removeName_spec fp s a hA (hg a (by simp))
    have h2 := ih (removeName fp s a) h1.1 (fun n hn => hg n (List.mem_cons_of_mem _ hn))
    refine ⟨h2.1, by rw [List.foldl_cons, h2.2.1, h1.2.1], ?_⟩
    intro n x
    rw [List.foldl_cons, h2.2.2, h1.2.2]
    simp only [List.mem_cons]
    constructor
    · rintro ⟨⟨h, h1⟩, h2⟩
      refine ⟨h, ?_⟩
      rintro ⟨h3 | h3, hx⟩
      · exact h1 ⟨h3, hx⟩
      · exact h2 ⟨h3, hx⟩
    · rintro ⟨h, h1⟩
      exact ⟨⟨h, fun ⟨h3, hx⟩ => h1 ⟨Or.inl h3, hx⟩⟩, fun ⟨h3, hx⟩ => h1 ⟨Or.inr h3, hx⟩⟩


-- ---- the invariant over add / remove / replace

/-- `c` is in the certificate store (under its own fingerprint) -/
def Stored (s : State) (c : Cert) : Prop := KMap.get? s.certs c.fp = some c

/-- The three structures of the resolver agree: the trie maps every name to the
    fingerprint of the last entry of its index list (`a.trie`); every index list
    is sorted by expiration (`a.sorted`) and lists exactly the stored
    certificates carrying the name, with their expirations (`idx`; in particular
    no dangling fingerprint); the store is keyed by fingerprint. -/
structure Agree (s : State) : Prop where
  a : A s
  keyed : ∀ fp c, KMap.get? s.certs fp = some c → c.fp = fp
  good : ∀ fp c, KMap.get? s.certs fp = some c → ∀ n ∈ c.names, GoodName n
  idx : ∀ n fp e, (fp, e) ∈ idxGet s n ↔ ∃ c, KMap.get? s.certs fp = some c ∧ n ∈ c.names ∧ c.exp = e

theorem A_congr {s s2 : State} (h : A s) (h1 : s2.domains = s.domains) (h2 : s2.idx = s.idx)
    (h3 : s2.dead = s.dead) : A s2 := by
  have hi : ∀ n, idxGet s2 n = idxGet s n := fun n => by simp [idxGet, h2]
  exact ⟨h1 ▸ h.wf, fun n => by rw [h1, hi]; exact h.trie n, fun n => by rw [hi]; exact h.sorted n,
    h3 ▸ h.alive⟩

theorem agree_init : Agree init := by
  refine ⟨⟨wf_root, ?_, ?_, rfl⟩, ?_, ?_, ?_⟩
  · intro n
    have : get (Node.root : Node Fp) (keySteps (keyOf n).1 (keyOf n).2) = none :=
      get_of_isEmpty _ (by rfl) _ _
    simp [T, this, lastKV, idxGet, init]
  · intro n; simp [idxGet, init, Sorted]
  · intro fp c h; simp [init] at h
  · intro fp c h; simp [init] at h
  · intro n fp e; simp [idxGet, init]

theorem agree_add {s : State} (h : Agree s) (c : Cert) (hg : ∀ n ∈ c.names, GoodName n) :
    Agree (add s c) := by
  unfold add
  by_cases hc : KMap.contains s.certs c.fp = true
  · simp only [hc, if_true]; exact h
  · simp only [hc, Bool.false_eq_true, if_false]
    have hnone : KMap.get? s.certs c.fp = none := by
      simpa [KMap.contains] using hc
    have sp := addNames_spec c.fp c.exp c.names s h.a hg
    have hi : ∀ n, idxGet { (c.names.foldl (addName c.fp c.exp) s) with
        certs := KMap.set (c.names.foldl (addName c.fp c.exp) s).certs c.fp c } n =
        idxGet (c.names.foldl (addName c.fp c.exp) s) n := fun n => rfl
    refine ⟨A_congr sp.1 rfl rfl rfl, ?_, ?_, ?_⟩
    · intro fp c' hget
      simp only [sp.2.1, KMap.get?_set] at hget
      split at hget
      · next e => cases hget; exact e.symm
      · exact h.keyed fp c' hget
    · intro fp c' hget
      simp only [sp.2.1, KMap.get?_set] at hget
      split at hget
      · cases hget; exact hg
      · exact h.good fp c' hget
    · intro n fp e
      rw [hi, sp.2.2, h.idx]
      simp only [sp.2.1, KMap.get?_set]
      constructor
      · rintro (⟨c', h1, h2, h3⟩ | ⟨hn, hx⟩)
        · have hne : fp ≠ c.fp := by
            intro e'; rw [e', hnone] at h1; cases h1
          exact ⟨c', by simp [hne, h1], h2, h3⟩
        · cases hx
          exact ⟨c, by simp, hn, rfl⟩
      · rintro ⟨c', h1, h2, h3⟩
        split at h1
        · next e' => cases h1; exact Or.inr ⟨h2, by rw [e', ← h3]⟩
        · exact Or.inl ⟨c', h1, h2, h3⟩

theorem agree_remove {s : State} (h : Agree s) (fp : Fp) : Agree (remove s fp) := by
  unfold remove
  cases hget : KMap.get? s.certs fp with
  | none => exact h
  | some c =>
    simp only []
    have hk : c.fp = fp := h.keyed fp c hget
    have sp := removeNames_spec fp c.names s h.a (h.good fp c hget)
    have hi : ∀ n, idxGet { (c.names.foldl (removeName fp) s) with
        certs := KMap.erase (c.names.foldl (removeName fp) s).certs fp } n =
        idxGet (c.names.foldl (removeName fp) s) n := fun n => rfl
    refine ⟨A_congr sp.1 rfl rfl rfl, ?_, ?_, ?_⟩
    · intro fp' c' hg'
      simp only [sp.2.1, KMap.get?_erase] at hg'
      split at hg'
      · cases hg'
      · exact h.keyed fp' c' hg'
    · intro fp' c' hg'
      simp only [sp.2.1, KMap.get?_erase] at hg'
      split at hg'
      · cases hg'
      · exact h.good fp' c' hg'
    · intro n fp' e
      rw [hi, sp.2.2, h.idx]
      simp only [sp.2.1, KMap.get?_erase]
      constructor
      · rintro ⟨⟨c', h1, h2, h3⟩, hnot⟩
        have hne : fp' ≠ fp := by
          intro e'
          apply hnot
          subst e'
          rw [hget] at h1; cases h1
          exact ⟨h2, rfl⟩
        exact ⟨c', by simp [hne, h1], h2, h3⟩
      · rintro ⟨c', h1, h2, h3⟩
        split at h1
        · cases h1
        · next hne => exact ⟨⟨c', h1, h2, h3⟩, fun hh => hne hh.2⟩

theorem agree_replace {s : State} (h : Agree s) (old : Option Fp) (c : Cert)
    (hg : ∀ n ∈ c.names, GoodName n) : Agree (replace s old c) := by
  unfold replace
  split
  · exact h
  · cases old with
    | none => exact agree_add h c hg
    | some o => exact agree_remove (agree_add h c hg) o

theorem validCertName_iff (n : Bytes) : validCertName n = true ↔ GoodName n := by
  unfold validCertName GoodName
  cases n with
  | nil => simp
  | cons x xs => simp [List.isEmpty]

/-- what `try_from` lets through carries good names only, under the same fingerprint -/
theorem prepare_good {c c' : Cert} (h : prepare c = some c') :
    c'.fp = c.fp ∧ c'.exp = c.exp ∧ c'.names = c.names.map normCertName ∧ ∀ n ∈ c'.names, GoodName n := by
  unfold prepare at h
  simp only [] at h
  split at h
  · next hall =>
    cases h
    refine ⟨rfl, rfl, rfl, ?_⟩
    intro n hn
    exact (validCertName_iff n).mp (List.all_eq_true.mp hall n hn)
  · cases h

/-- the state after one op, when nothing panics -/
def apply (s : State) : Op → State
  | .add c => match prepare c with | some c' => add s c' | none => s
  | .addInvalid => s
  | .remove fp => remove s fp
  | .removeInvalid => s
  | .replace old c => match prepare c with | some c' => replace s old c' | none => s
  | .replaceInvalid _ => s

theorem agree_apply {s : State} (h : Agree s) (op : Op) : Agree (apply s op) := by
  cases op with
  | add c =>
    simp only [apply]
    cases hp : prepare c with
    | none => exact h
    | some c' => exact agree_add h c' (prepare_good hp).2.2.2
  | addInvalid => exact h
  | remove fp => exact agree_remove h fp
  | removeInvalid => exact h
  | replace old c =>
    simp only [apply]
    cases hp : prepare c with
    | none => exact h
    | some c' => exact agree_replace h old c' (prepare_good hp).2.2.2
  | replaceInvalid o => exact h

theorem step_eq_apply {s : State} (h : Agree s) (op : Op) : (step s op).1 = apply s op := by
  have hal := (agree_apply h op).a.alive
  cases op with
  | add c =>
    cases hp : prepare c <;> simp [step, h.a.alive, apply, hp] at hal ⊢ <;> simp [hal]
  | replace old c =>
    cases hp : prepare c <;> simp [step, h.a.alive, apply, hp] at hal ⊢ <;> simp [hal]
  | addInvalid => simp [step, h.a.alive, apply]
  | removeInvalid => simp [step, h.a.alive, apply]
  | remove fp => simp [step, h.a.alive, apply] at hal ⊢; simp [hal]
  | replaceInvalid o => simp [step, h.a.alive, apply]

theorem agree_step {s : State} (h : Agree s) (op : Op) : Agree (step s op).1 := by
  rw [step_eq_apply h op]; exact agree_apply h op

theorem agree_run (ops : List Op) : ∀ (s : State), Agree s → Agree (run s ops) := by
  induction ops with
  | nil => intro s h; exact h
  | cons op ops ih =>
    intro s h
    simp only [run, List.foldl_cons]
    exact ih _ (agree_step h op)

theorem run_append (s : State) (a b : List Op) : run s (a ++ b) = run (run s a) b := by
  simp [run, List.foldl_append]

-- ---- what a lookup returns in an agreeing state

theorem lookup_agree (re : Bytes → Bytes → Bool) {s : State} (h : Agree s) {N : Bytes} (hN : GoodHost N) :
    domainLookup re s N true =
      (lastKV N (idxGet s N)).orElse (fun _ => lastKV (wildOf N) (idxGet s (wildOf N))) := by
  unfold domainLookup
  rw [trie_lookup_spec re h.a.wf hN, h.a.trie, h.a.trie]

/-- the last entry of a name's index list is a stored certificate carrying the
    name, and no stored certificate carrying the name expires later -/
theorem last_is_longest {s : State} (h : Agree s) {n : Bytes} {p : Fp × Int}
    (hp : (idxGet s n).getLast? = some p) :
    ∃ c, Stored s c ∧ c.fp = p.1 ∧ n ∈ c.names ∧ c.exp = p.2 ∧
      ∀ c', Stored s c' → n ∈ c'.names → c'.exp ≤ c.exp := by
  have hl := sorted_last (h.a.sorted n) hp
  obtain ⟨c, h1, h2, h3⟩ := (h.idx n p.1 p.2).mp hl.1
  have hk := h.keyed p.1 c h1
  refine ⟨c, by rw [Stored, hk]; exact h1, hk, h2, h3, ?_⟩
  intro c' hs hn
  have : (c'.fp, c'.exp) ∈ idxGet s n := (h.idx n c'.fp c'.exp).mpr ⟨c', hs, hn, rfl⟩
  rw [h3]
  exact hl.2 _ this

theorem idx_nil_iff {s : State} (h : Agree s) (n : Bytes) :
    (idxGet s n).getLast? = none ↔ ∀ c, Stored s c → n ∉ c.names := by
  rw [List.getLast?_eq_none_iff]
  constructor
  · intro he c hs hn
    have : (c.fp, c.exp) ∈ idxGet s n := (h.idx n c.fp c.exp).mpr ⟨c, hs, hn, rfl⟩
    rw [he] at this; simp at this
  · intro hall
    cases hl : idxGet s n with
    | nil => rfl
    | cons x xs =>
      exfalso
      have hx : (x.1, x.2) ∈ idxGet s n := by rw [hl]; simp
      obtain ⟨c, h1, h2, _⟩ := (h.idx n x.1 x.2).mp hx
      have hk := h.keyed x.1 c h1
      exact hall c (by rw [Stored, hk]; exact h1) h2


-- ---- the store alone (no invariant needed)

theorem certs_addName (fp : Fp) (e : Int) (s : State) (n : Bytes) : (addName fp e s n).certs = s.certs := by
  cases h : (sortByExp (idxGet s n ++ [(fp, e)])).getLast? <;> simp [addName, h]

theorem certs_addNames (fp : Fp) (e : Int) (names : List Bytes) :
    ∀ s : State, (names.foldl (addName fp e) s).certs = s.certs := by
  induction names with
  | nil => intro s; rfl
  | cons a t ih => intro s; rw [List.foldl_cons, ih, certs_addName]

theorem certs_removeName (fp : Fp) (s : State) (n : Bytes) : (removeName fp s n).certs = s.certs := by
  cases h : KMap.get? s.idx n <;> simp [removeName, h]

theorem certs_removeNames (fp : Fp) (names : List Bytes) :
    ∀ s : State, (names.foldl (removeName fp) s).certs = s.certs := by
  induction names with
  | nil => intro s; rfl
  | cons a t ih => intro s; rw [List.foldl_cons, ih, certs_removeName]

theorem get_certs_add (s : State) (c : Cert) (fp : Fp) (h : fp ≠ c.fp) :
    KMap.get? (add s c).certs fp = KMap.get? s.certs fp := by
  unfold add
  split
  · rfl
  · simp only [certs_addNames]
    exact KMap.get?_set_ne _ _ h

theorem get_certs_add_keep (s : State) (c : Cert) (fp : Fp) (c' : Cert)
    (h : KMap.get? s.certs fp = some c') : KMap.get? (add s c).certs fp = some c' := by
  by_cases hf : fp = c.fp
  · have : KMap.contains s.certs c.fp = true := by simp [KMap.contains, ← hf, h]
    simp [add, this, h]
  · rw [get_certs_add s c fp hf]; exact h

theorem get_certs_remove (s : State) (o fp : Fp) :
    KMap.get? (remove s o).certs fp = if fp = o then none else KMap.get? s.certs fp := by
  unfold remove
  cases hg : KMap.get? s.certs o with
  | none =>
    simp only []
    split
    · next e => rw [e, hg]
    · rfl
  | some c =>
    simp only [certs_removeNames]
    exact KMap.get?_erase _ _ _

/-- `op` loads a certificate with fingerprint `fp` -/
def AddsFp (fp : Fp) : Op → Prop
  | .add c => c.fp = fp
  | .replace _ c => c.fp = fp
  | _ => False

instance (fp : Fp) (op : Op) : Decidable (AddsFp fp op) := by
  cases op <;> unfold AddsFp <;> exact inferInstance

theorem get_certs_apply_none (s : State) (op : Op) (fp : Fp) (h : KMap.get? s.certs fp = none)
    (hop : ¬ AddsFp fp op) : KMap.get? (apply s op).certs fp = none := by
  cases op with
  | add c =>
    simp only [apply]
    cases hp : prepare c with
    | none => exact h
    | some c' =>
      have : fp ≠ c'.fp := fun e => hop (by rw [AddsFp, ← (prepare_good hp).1]; exact e.symm)
      simp only []; rw [get_certs_add s c' fp this]; exact h
  | addInvalid => exact h
  | remove o => simp only [apply, get_certs_remove]; split <;> simp [h]
  | removeInvalid => exact h
  | replaceInvalid o => exact h
  | replace old c =>
    simp only [apply]
    cases hp : prepare c with
    | none => exact h
    | some c' =>
      have hne : fp ≠ c'.fp := fun e => hop (by rw [AddsFp, ← (prepare_good hp).1]; exact e.symm)
      simp only [replace]
      split
      · exact h
      · cases old with
        | none => simp only []; rw [get_certs_add s c' fp hne]; exact h
        | some o =>
          simp only [get_certs_remove]
          split
          · rfl
          · rw [get_certs_add s c' fp hne]; exact h

theorem not_stored_run (fp : Fp) (ops : List Op) :
    ∀ s : State, Agree s → KMap.get? s.certs fp = none →
      (∀ op ∈ ops, ¬ AddsFp fp op) → KMap.get? (run s ops).certs fp = none := by
  induction ops with
  | nil => intro s _ h _; exact h
  | cons op ops ih =>
    intro s ha h hn
    simp only [run, List.foldl_cons]
    refine ih _ (agree_step ha op) ?_ (fun o ho => hn o (List.mem_cons_of_mem _ ho))
    rw [step_eq_apply ha op]
    exact get_certs_apply_none s op fp h (hn op (by simp))

-- ---- the states inside one add / remove (name by name)

theorem mem_scanl {α β : Type} (f : β → α → β) (l : List α) :
    ∀ (a x : β), x ∈ l.scanl f a → ∃ k, x = (l.take k).foldl f a := by
  induction l with
  | nil => intro a x h; simp at h; exact ⟨0, by simp [h]⟩
  | cons b l ih =>
    intro a x h
    simp only [List.scanl_cons, List.mem_cons] at h
    rcases h with rfl | h
    · exact ⟨0, rfl⟩
    · obtain ⟨k, hk⟩ := ih (f a b) x h
      exact ⟨k + 1, by simpa using hk⟩

/-- the trie finds some fingerprint for the server name -/
def TrieCovered (re : Bytes → Bytes → Bool) (s : State) (N : Bytes) : Prop :=
  (domainLookup re s N true).isSome = true

instance (re : Bytes → Bytes → Bool) (s : State) (N : Bytes) : Decidable (TrieCovered re s N) := by
  unfold TrieCovered; exact inferInstance

theorem lookup_A (re : Bytes → Bytes → Bool) {s : State} (h : A s) {N : Bytes} (hN : GoodHost N) :
    domainLookup re s N true =
      (lastKV N (idxGet s N)).orElse (fun _ => lastKV (wildOf N) (idxGet s (wildOf N))) := by
  unfold domainLookup
  rw [trie_lookup_spec re h.wf hN, h.trie, h.trie]

theorem trieCovered_iff (re : Bytes → Bytes → Bool) {s : State} (h : A s) {N : Bytes} (hN : GoodHost N) :
    TrieCovered re s N ↔ idxGet s N ≠ [] ∨ idxGet s (wildOf N) ≠ [] := by
  unfold TrieCovered
  rw [lookup_A re h hN]
  cases h1 : idxGet s N with
  | nil =>
    cases h2 : idxGet s (wildOf N) with
    | nil => simp [lastKV]
    | cons y ys =>
      have : (y :: ys).getLast? ≠ none := by simp
      cases h3 : (y :: ys).getLast? with
      | none => exact absurd h3 this
      | some z => simp [lastKV, h3]
  | cons y ys =>
    have : (y :: ys).getLast? ≠ none := by simp
    cases h3 : (y :: ys).getLast? with
    | none => exact absurd h3 this
    | some z => simp [lastKV, h3]

theorem trieCovered_mono (re : Bytes → Bytes → Bool) {s s' : State} (h : A s) (h' : A s') {N : Bytes}
    (hN : GoodHost N) (hsub : ∀ n x, x ∈ idxGet s n → x ∈ idxGet s' n) :
    TrieCovered re s N → TrieCovered re s' N := by
  rw [trieCovered_iff re h hN, trieCovered_iff re h' hN]
  have key : ∀ n, idxGet s n ≠ [] → idxGet s' n ≠ [] := by
    intro n hne he
    cases hl : idxGet s n with
    | nil => exact hne hl
    | cons y ys =>
      have := hsub n y (by rw [hl]; simp)
      rw [he] at this; simp at this
  rintro (h1 | h1)
  · exact Or.inl (key _ h1)
  · exact Or.inr (key _ h1)

theorem take_good {names : List Bytes} (hg : ∀ n ∈ names, GoodName n) (k : Nat) :
    ∀ n ∈ names.take k, GoodName n := fun n hn => hg n (List.mem_of_mem_take hn)

/-- every state inside `add_certificate` still covers what was covered before -/
theorem addTrace_covered (re : Bytes → Bytes → Bool) {s : State} (h : Agree s) (c : Cert)
    (hg : ∀ n ∈ c.names, GoodName n) {N : Bytes} (hN : GoodHost N) (hc : TrieCovered re s N) :
    ∀ s' ∈ addTrace s c, TrieCovered re s' N := by
  intro s' hs'
  unfold addTrace at hs'
  split at hs'
  · simp at hs'; subst hs'; exact hc
  · rcases List.mem_append.mp hs' with hm | hm
    · obtain ⟨k, rfl⟩ := mem_scanl _ _ _ _ hm
      have sp := addNames_spec c.fp c.exp (c.names.take k) s h.a (take_good hg k)
      exact trieCovered_mono re h.a sp.1 hN (fun n x hx => (sp.2.2 n x).mpr (Or.inl hx)) hc
    · simp at hm; subst hm
      have ha := agree_add h c hg
      have sp := addNames_spec c.fp c.exp c.names s h.a hg
      refine trieCovered_mono re h.a ha.a hN ?_ hc
      intro n x hx
      by_cases hcon : KMap.contains s.certs c.fp = true
      · simpa [add, hcon] using hx
      · have : idxGet (add s c) n = idxGet (c.names.foldl (addName c.fp c.exp) s) n := by
          simp [add, hcon, idxGet]
        rw [this]; exact (sp.2.2 n x).mpr (Or.inl hx)

/-- every state inside `remove_certificate` covers what is still covered at its end -/
theorem removeTrace_covered (re : Bytes → Bytes → Bool) {s : State} (h : Agree s) (o : Fp)
    {N : Bytes} (hN : GoodHost N) (hc : TrieCovered re (remove s o) N) :
    ∀ s' ∈ removeTrace s o, TrieCovered re s' N := by
  intro s' hs'
  unfold removeTrace at hs'
  cases hget : KMap.get? s.certs o with
  | none =>
    simp only [hget] at hs'
    simp at hs'; subst hs'
    simpa [remove, hget] using hc
  | some c =>
    simp only [hget] at hs'
    have hgood := h.good o c hget
    have spf := removeNames_spec o c.names s h.a hgood
    have hfin : ∀ n, idxGet (remove s o) n = idxGet (c.names.foldl (removeName o) s) n := by
      intro n; simp [remove, hget, idxGet]
    rcases List.mem_append.mp hs' with hm | hm
    · obtain ⟨k, rfl⟩ := mem_scanl _ _ _ _ hm
      have sp := removeNames_spec o (c.names.take k) s h.a (take_good hgood k)
      refine trieCovered_mono re (agree_remove h o).a sp.1 hN ?_ hc
      intro n x hx
      rw [hfin] at hx
      have := (spf.2.2 n x).mp hx
      exact (sp.2.2 n x).mpr ⟨this.1, fun hh => this.2 ⟨List.mem_of_mem_take hh.1, hh.2⟩⟩
    · simp at hm; subst hm; exact hc

-- ---- the strict-SNI predicates

theorem takeDrop_first (a b : Bytes) (c : Nat) (h : c ∉ a) :
    (a ++ c :: b).takeWhile (· ≠ c) = a ∧ (a ++ c :: b).dropWhile (· ≠ c) = c :: b := by
  induction a with
  | nil => simp
  | cons x a ih =>
    have hx : x ≠ c := by intro e; apply h; simp [e]
    have := ih (by intro hh; apply h; simp [hh])
    simp [List.takeWhile_cons, List.dropWhile_cons, hx]
    simpa using this

theorem splitOnce_append (a b : Bytes) (c : Nat) (h : c ∉ a) : splitOnce (a ++ c :: b) c = some (a, b) := by
  unfold splitOnce
  rw [(takeDrop_first a b c h).1, (takeDrop_first a b c h).2]

theorem splitOnce_none (s : Bytes) (c : Nat) (h : c ∉ s) : splitOnce s c = none := by
  unfold splitOnce
  have : s.dropWhile (· ≠ c) = [] := by
    induction s with
    | nil => rfl
    | cons x s ih =>
      have hx : x ≠ c := by intro e; apply h; simp [e]
      have := ih (by intro hh; apply h; simp [hh])
      simp [List.dropWhile_cons, hx]
      simpa using this
  rw [this]

theorem exists_first (s : Bytes) (c : Nat) : c ∉ s ∨ ∃ a b, s = a ++ c :: b ∧ c ∉ a := by
  induction s with
  | nil => left; simp
  | cons x s ih =>
    by_cases hx : x = c
    · right; exact ⟨[], s, by simp [hx], by simp⟩
    · rcases ih with h | ⟨a, b, rfl, ha⟩
      · left; intro hh; rcases List.mem_cons.mp hh with e | e
        · exact hx e.symm
        · exact h e
      · right; refine ⟨x :: a, b, by simp, ?_⟩
        intro hh; rcases List.mem_cons.mp hh with e | e
        · exact hx e.symm
        · exact ha e

theorem first_unique {a b a' b' : Bytes} {c : Nat} (h : a ++ c :: b = a' ++ c :: b') (ha : c ∉ a)
    (ha' : c ∉ a') : a = a' ∧ b = b' := by
  have h1 := splitOnce_append a b c ha
  rw [h, splitOnce_append a' b' c ha'] at h1
  cases h1; exact ⟨rfl, rfl⟩

theorem stripStarDot_some (e suf : Bytes) : stripStarDot e = some suf ↔ e = STAR :: DOT :: suf := by
  unfold stripStarDot
  split
  · next a b rest =>
    constructor
    · intro h
      split at h
      · next hab => cases h; rw [hab.1, hab.2]
      · cases h
    · intro h
      cases h
      simp
  · next hne =>
    constructor
    · intro h; cases h
    · intro h; exact absurd h (by intro e'; exact hne _ _ _ e')

/-- RFC 6125 6.4.3 as the strict-SNI property states it: `e` is a name of the
    served certificate, `h` the request host. Either `e` has no `*` and equals
    `h` up to ASCII case, or `e` is `*.` + a `*`-free suffix and `h` is exactly
    one non-empty dot-free label followed by `.` and that suffix (so the apex
    and deeper sub-domains are not covered, and `*` anywhere else covers nothing). -/
def SniCovers (e h : Bytes) : Prop :=
  (STAR ∉ e ∧ lower h = lower e) ∨
  (∃ suf lm rest, e = STAR :: DOT :: suf ∧ STAR ∉ suf ∧ h = lm ++ DOT :: rest ∧ lm ≠ [] ∧
      DOT ∉ lm ∧ lower rest = lower suf)

theorem contains_iff (l : Bytes) (b : Nat) : l.contains b = true ↔ b ∈ l := by simp

theorem entryMatches_iff (h e : Bytes) : entryMatches h e = true ↔ SniCovers e h := by
  unfold entryMatches SniCovers
  cases hs : stripStarDot e with
  | some suf =>
    have he : e = STAR :: DOT :: suf := (stripStarDot_some e suf).mp hs
    simp only []
    by_cases hstar : suf.contains STAR = true
    · simp only [hstar, if_true]
      constructor
      · intro hf; cases hf
      · rintro (⟨h1, _⟩ | ⟨suf', lm, rest, h1, h2, _⟩)
        · exact absurd (by rw [he]; simp) h1
        · rw [he] at h1; cases h1
          exact absurd ((contains_iff _ _).mp hstar) h2
    · have hns : STAR ∉ suf := fun hh => hstar ((contains_iff _ _).mpr hh)
      simp only [hstar, Bool.false_eq_true, if_false]
      rcases exists_first h DOT with hnd | ⟨lm, rest, rfl, hlm⟩
      · rw [splitOnce_none h DOT hnd]
        constructor
        · intro hf; cases hf
        · rintro (⟨h1, _⟩ | ⟨suf', lm, rest, _, _, h3, _⟩)
          · exact absurd (by rw [he]; simp) h1
          · exact absurd (by rw [h3]; simp) hnd
      · rw [splitOnce_append lm rest DOT hlm]
        simp only [Bool.and_eq_true, Bool.not_eq_true', List.isEmpty_eq_false_iff, eqIgnoreCase,
          decide_eq_true_eq]
        constructor
        · rintro ⟨h1, h2⟩
          exact Or.inr ⟨suf, lm, rest, he, hns, rfl, h1, hlm, h2⟩
        · rintro (⟨h1, _⟩ | ⟨suf', lm', rest', h1, _, h3, h4, h5, h6⟩)
          · exact absurd (by rw [he]; simp) h1
          · rw [he] at h1; cases h1
            obtain ⟨rfl, rfl⟩ := first_unique h3 hlm h5
            exact ⟨h4, h6⟩
  | none =>
    simp only []
    by_cases hstar : e.contains STAR = true
    · simp only [hstar, if_true]
      constructor
      · intro hf; cases hf
      · rintro (⟨h1, _⟩ | ⟨suf', lm, rest, h1, _⟩)
        · exact absurd ((contains_iff _ _).mp hstar) h1
        · rw [(stripStarDot_some e suf').mpr h1] at hs; cases hs
    · have hns : STAR ∉ e := fun hh => hstar ((contains_iff _ _).mpr hh)
      simp only [hstar, Bool.false_eq_true, if_false, eqIgnoreCase, decide_eq_true_eq]
      constructor
      · intro h1; exact Or.inl ⟨hns, h1⟩
      · rintro (⟨_, h1⟩ | ⟨suf', lm, rest, h1, _⟩)
        · exact h1
        · rw [(stripStarDot_some e suf').mpr h1] at hs; cases hs

theorem zip_all_iff (h sni : Bytes) (hl : h.length = sni.length) :
    (h.zip sni).all (fun p => asciiLower p.1 = p.2) = true ↔ lower h = sni := by
  induction h generalizing sni with
  | nil => cases sni with
    | nil => simp [lower]
    | cons _ _ => simp at hl
  | cons x h ih =>
    cases sni with
    | nil => simp at hl
    | cons y ys =>
      simp only [List.length_cons, Nat.add_right_cancel_iff] at hl
      simp only [List.zip_cons_cons, List.all_cons, Bool.and_eq_true, decide_eq_true_eq, ih ys hl,
        lower, List.map_cons, List.cons.injEq]

theorem matchesSni_iff (a sni : Bytes) : matchesSni a sni = true ↔ lower (stripPort a) = sni := by
  unfold matchesSni
  simp only []
  by_cases hl : (stripPort a).length = sni.length
  · simp only [hl, ne_eq, not_true_eq_false, if_false]
    exact zip_all_iff _ _ hl
  · simp only [hl, ne_eq, not_false_eq_true, if_true, Bool.false_eq_true, false_iff]
    intro he; apply hl; rw [← he]; simp [lower]


theorem asciiLower_eq_dot (b : Nat) : asciiLower b = DOT ↔ b = DOT := by
  unfold asciiLower DOT
  split <;> omega

theorem count_dot_lower (x : Bytes) : (lower x).count DOT = x.count DOT := by
  induction x with
  | nil => rfl
  | cons b x ih =>
    simp only [lower, List.map_cons, List.count_cons] at ih ⊢
    rw [ih]
    by_cases hb : b = DOT
    · simp [hb, (asciiLower_eq_dot DOT).mpr rfl]
    · have : asciiLower b ≠ DOT := fun e => hb ((asciiLower_eq_dot b).mp e)
      simp [hb, this]

theorem lower_length (x : Bytes) : (lower x).length = x.length := by simp [lower]


-- =============================================================== part 3 ==
-- proofs of the property theorems (`p_x` is restated as `C17_x` in Props.lean)

/-- a certificate name covers the server name `N` -/
def Covers (name N : Bytes) : Prop := name = N ∨ name = wildOf N

/-- the certificate covers the server name `N` -/
def CertCovers (c : Cert) (N : Bytes) : Prop := ∃ name ∈ c.names, Covers name N

-- ------------------------------------------------------------ invariant --

/-- After every history of add / remove / replace (re-adds, refused names,
    idempotent replace, absent or unparsable old fingerprint, failing PEM) the
    trie, the per-name index and the store agree (`Agree`). -/
theorem p_agree_invariant (ops : List Op) : Agree (run init ops) :=
  agree_run ops init agree_init

/-- no history makes the resolver panic -/
theorem p_no_panic (ops : List Op) : (run init ops).dead = false :=
  (p_agree_invariant ops).a.alive

/-- a certificate whose names `try_from` refuses leaves the resolver unchanged
    (add and replace alike; the old certificate of the replace stays) -/
theorem p_rejected_add_unchanged (ops : List Op) (c : Cert) (old : Option Fp)
    (h : prepare c = none) :
    step (run init ops) (.add c) = (run init ops, .err) ∧
    step (run init ops) (.replace old c) = (run init ops, .err) := by
  have hd := p_no_panic ops
  simp [step, hd, h]

-- ------------------------------------------------------------- resolve --

/-- state-level form of `p_resolve_sound` -/
theorem resolve_sound_of_agree (re : Bytes → Bytes → Bool) {s : State} (h : Agree s) {N : Bytes}
    (hN : GoodHost N) {fp : Fp} (hr : resolve re s (some N) = .cert fp) :
    ∃ c, Stored s c ∧ c.fp = fp ∧
      ((N ∈ c.names ∧ ∀ c', Stored s c' → N ∈ c'.names → c'.exp ≤ c.exp) ∨
       ((∀ c', Stored s c' → N ∉ c'.names) ∧ wildOf N ∈ c.names ∧
          ∀ c', Stored s c' → wildOf N ∈ c'.names → c'.exp ≤ c.exp)) := by
  simp only [resolve, lookup_agree re h hN] at hr
  cases h1 : (idxGet s N).getLast? with
  | some p =>
    obtain ⟨c, hs, hfp, hn, _, hmax⟩ := last_is_longest h h1
    simp only [lastKV, h1, Option.map_some, Option.orElse_some] at hr
    split at hr
    · cases hr; exact ⟨c, hs, hfp, Or.inl ⟨hn, hmax⟩⟩
    · cases hr
  | none =>
    have hno := (idx_nil_iff h N).mp h1
    simp only [lastKV, h1, Option.map_none, Option.orElse_none] at hr
    cases h2 : (idxGet s (wildOf N)).getLast? with
    | some p =>
      obtain ⟨c, hs, hfp, hn, _, hmax⟩ := last_is_longest h h2
      simp only [h2, Option.map_some] at hr
      split at hr
      · cases hr; exact ⟨c, hs, hfp, Or.inr ⟨hno, hn, hmax⟩⟩
      · cases hr
    | none => simp [h2] at hr

/-- **Soundness of the served certificate.** For every history and every server
    name `N`: if `resolve` hands rustls the certificate with fingerprint `fp`
    then a certificate `c` with that fingerprint is currently stored and
    * either `N` itself is one of its names, and no stored certificate naming
      `N` expires later (exact name, longest-lived among equals),
    * or no stored certificate names `N` exactly, the wildcard `wildOf N` is one
      of its names, and no stored certificate carrying that wildcard expires
      later (wildcard only when there is no exact name). -/
theorem p_resolve_sound (re : Bytes → Bytes → Bool) (ops : List Op)
    (N : Bytes) (hN : GoodHost N) (fp : Fp) (hr : resolve re (run init ops) (some N) = .cert fp) :
    ∃ c, Stored (run init ops) c ∧ c.fp = fp ∧ CertCovers c N ∧
      ((N ∈ c.names ∧ ∀ c', Stored (run init ops) c' → N ∈ c'.names → c'.exp ≤ c.exp) ∨
       ((∀ c', Stored (run init ops) c' → N ∉ c'.names) ∧ wildOf N ∈ c.names ∧
          ∀ c', Stored (run init ops) c' → wildOf N ∈ c'.names → c'.exp ≤ c.exp)) := by
  obtain ⟨c, hs, hfp, hd⟩ := resolve_sound_of_agree re (p_agree_invariant ops) hN hr
  refine ⟨c, hs, hfp, ?_, hd⟩
  rcases hd with ⟨hn, _⟩ | ⟨_, hn, _⟩
  · exact ⟨N, hn, Or.inl rfl⟩
  · exact ⟨wildOf N, hn, Or.inr rfl⟩

/-- `resolve` never answers `None` for a server name: the trie never names a
    fingerprint that is not stored (no dangling fingerprint). -/
theorem p_resolve_never_dangling (re : Bytes → Bytes → Bool) (ops : List Op)
    (N : Bytes) (hN : GoodHost N) :
    resolve re (run init ops) (some N) ≠ .nothing := by
  have h := p_agree_invariant ops
  intro hr
  simp only [resolve, lookup_agree re h hN] at hr
  cases h1 : (idxGet (run init ops) N).getLast? with
  | some p =>
    obtain ⟨c, hs, hfp, _⟩ := last_is_longest h h1
    simp only [lastKV, h1, Option.map_some, Option.orElse_some] at hr
    have : KMap.contains (run init ops).certs p.1 = true := by
      rw [← hfp]; simp [KMap.contains, show KMap.get? (run init ops).certs c.fp = some c from hs]
    simp [this] at hr
  | none =>
    simp only [lastKV, h1, Option.map_none, Option.orElse_none] at hr
    cases h2 : (idxGet (run init ops) (wildOf N)).getLast? with
    | some p =>
      obtain ⟨c, hs, hfp, _⟩ := last_is_longest h h2
      simp only [h2, Option.map_some] at hr
      have : KMap.contains (run init ops).certs p.1 = true := by
        rw [← hfp]; simp [KMap.contains, show KMap.get? (run init ops).certs c.fp = some c from hs]
      simp [this] at hr
    | none => simp [h2] at hr

/-- **Default certificate only when nothing covers.** `resolve` falls back to
    `DEFAULT_CERTIFICATE` exactly when no stored certificate covers `N`. -/
theorem p_default_only_if_uncovered (re : Bytes → Bytes → Bool) (ops : List Op)
    (N : Bytes) (hN : GoodHost N) :
    resolve re (run init ops) (some N) = .default ↔
      ¬ ∃ c, Stored (run init ops) c ∧ CertCovers c N := by
  have h := p_agree_invariant ops
  constructor
  · intro hr
    simp only [resolve, lookup_agree re h hN] at hr
    rintro ⟨c, hs, name, hn, hc⟩
    cases h1 : (idxGet (run init ops) N).getLast? with
    | some p =>
      simp only [lastKV, h1, Option.map_some, Option.orElse_some] at hr
      split at hr <;> cases hr
    | none =>
      simp only [lastKV, h1, Option.map_none, Option.orElse_none] at hr
      cases h2 : (idxGet (run init ops) (wildOf N)).getLast? with
      | some p =>
        simp only [h2, Option.map_some] at hr
        split at hr <;> cases hr
      | none =>
        rcases hc with rfl | rfl
        · exact (idx_nil_iff h _).mp h1 c hs hn
        · exact (idx_nil_iff h _).mp h2 c hs hn
  · intro hno
    cases hr : resolve re (run init ops) (some N) with
    | default => rfl
    | nothing => exact absurd hr (p_resolve_never_dangling re ops N hN)
    | cert fp =>
      obtain ⟨c, hs, _, hc, _⟩ := p_resolve_sound re ops N hN fp hr
      exact absurd ⟨c, hs, hc⟩ hno

-- -------------------------------------------------------------- removal --

/-- `resolve` only ever answers with a fingerprint that is in the store -/
theorem resolve_cert_stored (re : Bytes → Bytes → Bool) (s : State) (N : Bytes) (fp : Fp)
    (hnone : KMap.get? s.certs fp = none) : resolve re s (some N) ≠ .cert fp := by
  intro hr
  simp only [resolve] at hr
  split at hr
  · next kv _ =>
    split at hr
    · next hc =>
      cases hr
      simp [KMap.contains, hnone] at hc
    · cases hr
  · cases hr

/-- **A removed certificate is never served again**: after `remove fp`, and for
    as long as no later op loads that fingerprint again, no server name at all
    (no restriction on `N`) is answered with it. -/
theorem p_removed_never_served (re : Bytes → Bytes → Bool) (ops1 ops2 : List Op) (fp : Fp)
    (hn : ∀ op ∈ ops2, ¬ AddsFp fp op) (N : Bytes) :
    resolve re (run init (ops1 ++ [Op.remove fp] ++ ops2)) (some N) ≠ .cert fp := by
  have ha1 := p_agree_invariant ops1
  have hrm : run init (ops1 ++ [Op.remove fp]) = remove (run init ops1) fp := by
    rw [run_append]
    simp only [run, List.foldl_cons, List.foldl_nil]
    exact step_eq_apply ha1 (.remove fp)
  have ha2 : Agree (remove (run init ops1) fp) := agree_remove ha1 fp
  have hnone : KMap.get? (run init (ops1 ++ [Op.remove fp] ++ ops2)).certs fp = none := by
    rw [run_append, hrm]
    exact not_stored_run fp ops2 _ ha2 (by rw [get_certs_remove]; simp) hn
  exact resolve_cert_stored re _ N fp hnone

-- ------------------------------------------------------------- replace --

/-- a handshake for `N` would be answered with a stored certificate -/
def Covered (re : Bytes → Bytes → Bool) (s : State) (N : Bytes) : Prop :=
  ∃ fp, resolve re s (some N) = .cert fp

theorem covered_iff_stored (re : Bytes → Bytes → Bool) {s : State} (h : Agree s) {N : Bytes}
    (hN : GoodHost N) : Covered re s N ↔ TrieCovered re s N := by
  unfold Covered TrieCovered resolve
  constructor
  · rintro ⟨fp, hr⟩
    cases hl : domainLookup re s N true with
    | none => simp [hl] at hr
    | some kv => rfl
  · intro hc
    cases hl : domainLookup re s N true with
    | none => simp [hl] at hc
    | some kv =>
      have hl' := hl
      rw [lookup_agree re h hN] at hl'
      have hst : KMap.contains s.certs kv.2 = true := by
        cases h1 : (idxGet s N).getLast? with
        | some p =>
          obtain ⟨c, hs, hfp, _⟩ := last_is_longest h h1
          simp only [lastKV, h1, Option.map_some, Option.orElse_some, Option.some.injEq] at hl'
          rw [← hl', ← hfp]; simp [KMap.contains, show KMap.get? s.certs c.fp = some c from hs]
        | none =>
          simp only [lastKV, h1, Option.map_none, Option.orElse_none] at hl'
          cases h2 : (idxGet s (wildOf N)).getLast? with
          | some p =>
            obtain ⟨c, hs, hfp, _⟩ := last_is_longest h h2
            simp only [h2, Option.map_some, Option.some.injEq] at hl'
            rw [← hl', ← hfp]; simp [KMap.contains, show KMap.get? s.certs c.fp = some c from hs]
          | none => simp [h2] at hl'
      exact ⟨kv.2, by simp [hl, hst]⟩

/-- **Replacing never opens a gap (between the two steps).** `replace` is
    `add new` then `remove old`; in the state between the two a server name that
    was answered with a stored certificate before still is (so a name covered
    before and after is covered throughout). -/
theorem p_replace_no_gap (re : Bytes → Bytes → Bool) (ops : List Op)
    (c0 c : Cert) (hp : prepare c0 = some c) (N : Bytes) (hN : GoodHost N)
    (hbefore : Covered re (run init ops) N) : Covered re (add (run init ops) c) N := by
  have hc := (prepare_good hp).2.2.2
  have h := p_agree_invariant ops
  have h' := agree_add h c hc
  rw [covered_iff_stored re h' hN]
  rw [covered_iff_stored re h hN] at hbefore
  exact addTrace_covered re h c hc hN hbefore _ (by
    unfold addTrace
    split
    · next hcon => simp [add, hcon]
    · simp)

/-- **Replacing never opens a gap (name by name).** In *every* state the
    resolver goes through inside one `replace_certificate` — after each name of
    the `add_certificate` loop, after the store insert, after each name of the
    `remove_certificate` loop — the trie still finds a fingerprint for every
    server name it found one for before the replace and finds one for after it. -/
theorem p_replace_no_gap_stepwise (re : Bytes → Bytes → Bool) (ops : List Op)
    (old : Option Fp) (c0 c : Cert) (hp : prepare c0 = some c)
    (N : Bytes) (hN : GoodHost N)
    (hbefore : TrieCovered re (run init ops) N)
    (hafter : TrieCovered re (replace (run init ops) old c) N) :
    ∀ s' ∈ replaceTrace (run init ops) old c, TrieCovered re s' N := by
  have hc := (prepare_good hp).2.2.2
  have h := p_agree_invariant ops
  intro s' hs'
  unfold replaceTrace at hs'
  unfold replace at hafter
  split at hs'
  · simp at hs'; subst hs'; exact hbefore
  · next hne =>
    simp only [hne, if_false] at hafter
    cases old with
    | none => exact addTrace_covered re h c hc hN hbefore s' hs'
    | some o =>
      simp only [] at hs' hafter
      rcases List.mem_append.mp hs' with hm | hm
      · exact addTrace_covered re h c hc hN hbefore s' hm
      · exact removeTrace_covered re (agree_add h c hc) o hN hafter s' hm

-- ---------------------------------------------------------- strict SNI --

/-- **The certificate-name predicate is exactly RFC 6125 coverage.**
    `authority_matched_cert_name` accepts iff the request host (port stripped,
    one trailing dot stripped) is non-empty and some name of the snapshot covers
    it: equal up to ASCII case when the name has no `*`, or the name is `*.` + a
    `*`-free suffix and the host is exactly one non-empty label + `.` + that
    suffix (no apex match, no deeper label, no embedded wildcard). -/
theorem p_strict_sni_iff (authority : Bytes) (names : List Bytes) :
    (matchedCertName authority names).isSome = true ↔
      hostOf authority ≠ [] ∧ ∃ e ∈ names, SniCovers e (hostOf authority) := by
  unfold matchedCertName
  simp only []
  by_cases he : hostOf authority = []
  · simp [he]
  · have : (hostOf authority).isEmpty = false := by
      cases h : hostOf authority with
      | nil => exact absurd h he
      | cons _ _ => rfl
    simp only [this, Bool.false_eq_true, if_false, List.find?_isSome, ne_eq, he, not_false_eq_true,
      true_and]
    constructor
    · rintro ⟨e, hm, hx⟩; exact ⟨e, hm, (entryMatches_iff _ _).mp hx⟩
    · rintro ⟨e, hm, hx⟩; exact ⟨e, hm, (entryMatches_iff _ _).mpr hx⟩

/-- a wildcard name never covers its own apex -/
theorem p_strict_sni_no_apex (suf h : Bytes) (hh : lower h = lower suf) :
    ¬ SniCovers (STAR :: DOT :: suf) h := by
  rintro (⟨h1, _⟩ | ⟨suf', lm, rest, h1, _, h3, _, _, h6⟩)
  · exact h1 (by simp)
  · cases h1
    have l1 := congrArg List.length hh
    have l2 := congrArg List.length h6
    simp only [lower_length] at l1 l2
    rw [h3] at l1
    simp at l1
    omega

/-- a wildcard name covers exactly one extra label: the host has one more dot
    than the suffix (no match across dots, no deeper sub-domain) -/
theorem p_strict_sni_one_label (suf h : Bytes) (hc : SniCovers (STAR :: DOT :: suf) h) :
    h.count DOT = suf.count DOT + 1 := by
  rcases hc with ⟨h1, _⟩ | ⟨suf', lm, rest, h1, _, h3, _, h5, h6⟩
  · exact absurd (by simp) h1
  · cases h1
    have hc := congrArg (List.count DOT) h6
    rw [count_dot_lower, count_dot_lower] at hc
    rw [h3, List.count_append, List.count_cons, List.count_eq_zero_of_not_mem h5, hc]
    simp

/-- the name returned is one of the snapshot and covers the host -/
theorem p_strict_sni_matched (authority : Bytes) (names : List Bytes) (e : Bytes)
    (h : matchedCertName authority names = some e) : e ∈ names ∧ SniCovers e (hostOf authority) := by
  unfold matchedCertName at h
  simp only [] at h
  split at h
  · cases h
  · exact ⟨List.mem_of_find?_eq_some h, (entryMatches_iff _ _).mp (List.find?_some h)⟩

/-- the legacy predicate: the host (port stripped) equals the SNI up to ASCII
    case of the authority -/
theorem p_strict_sni_exact (authority sni : Bytes) :
    matchesSni authority sni = true ↔ lower (stripPort authority) = sni :=
  matchesSni_iff authority sni

/-- **Strict SNI binding on a connection that was served a loaded certificate.**
    For every history: when the handshake for SNI `N` found a loaded certificate
    (the snapshot is `some`), a request is let through to routing only if its
    authority is covered (RFC 6125, `SniCovers`) by a name of *the certificate
    that `resolve` served for `N`*, normalised as `upgrade_handshake` does.
    `_partial`: the hypothesis `snapshot … = some ns` excludes the connections
    that were served the default certificate, see the counterexample below. -/
theorem p_strict_sni_partial (re : Bytes → Bytes → Bool) (ops : List Op)
    (N : Bytes) (hN : GoodHost N) (ns : List Bytes)
    (hsnap : snapshot re (run init ops) (some N) = some ns) (authority : Bytes)
    (hallow : routeAllowed true (some N) (some ns) authority = true) :
    ∃ c, Stored (run init ops) c ∧ resolve re (run init ops) (some N) = .cert c.fp ∧ CertCovers c N ∧
      ∃ name ∈ c.names, SniCovers (normName name) (hostOf authority) := by
  have h := p_agree_invariant ops
  simp only [snapshot, namesForSni] at hsnap
  cases hl : domainLookup re (run init ops) N true with
  | none => simp [hl] at hsnap
  | some kv =>
    simp only [hl] at hsnap
    cases hg : KMap.get? (run init ops).certs kv.2 with
    | none => simp [hg] at hsnap
    | some c =>
      simp only [hg, Option.map_some] at hsnap
      split at hsnap
      · cases hsnap
      · cases hsnap
        have hk : c.fp = kv.2 := h.keyed kv.2 c hg
        have hres : resolve re (run init ops) (some N) = .cert c.fp := by
          simp [resolve, hl, KMap.contains, hg, hk]
        obtain ⟨c2, hs2, hfp2, hcov, _⟩ := p_resolve_sound re ops N hN c.fp hres
        have hc2 : c2 = c := by
          have : KMap.get? (run init ops).certs c2.fp = some c2 := hs2
          rw [hfp2, hk, hg] at this; cases this; rfl
        subst hc2
        refine ⟨c2, hs2, hres, hcov, ?_⟩
        simp only [routeAllowed, Bool.not_true, Bool.false_eq_true, if_false] at hallow
        obtain ⟨_, e, he, hcv⟩ := (p_strict_sni_iff authority _).mp hallow
        obtain ⟨name, hname, rfl⟩ := List.mem_map.mp he
        exact ⟨name, hname, hcv⟩

/-- on a connection that was served the default certificate (no loaded
    certificate covers the SNI) the gate falls back to "authority = SNI" -/
theorem p_strict_sni_default_path (sni authority : Bytes) :
    routeAllowed true (some sni) none authority = true ↔ lower (stripPort authority) = sni := by
  simp [routeAllowed, matchesSni_iff]

/-- **Counterexample to the full statement**: with an empty resolver a handshake
    for `nocert.test` is served the default certificate (which does not cover
    it), and the request with authority `nocert.test` is let through to routing. -/
theorem p_strict_sni_counterexample :
    let N : Bytes := [110,111,99,101,114,116,46,116,101,115,116]
    resolve (fun _ _ => false) init (some N) = .default ∧
      snapshot (fun _ _ => false) init (some N) = none ∧
      routeAllowed true (some N) (snapshot (fun _ _ => false) init (some N)) N = true := by
  decide



-- =============================================================== part 4 ==
-- the selection as an argmax, the strict-SNI gate composed with resolve, and
-- what the lookup returns in every internal state of a replace

/-- how specifically certificate `c` names the server name `N`: 2 by the exact
    name, 1 by the wildcard `wildOf N`, 0 not at all -/
def spec (c : Cert) (N : Bytes) : Nat :=
  if N ∈ c.names then 2 else if wildOf N ∈ c.names then 1 else 0

/-- the selection order for the server name `N`: more specific first, then longer-lived -/
def RankLe (N : Bytes) (c' c : Cert) : Prop :=
  spec c' N < spec c N ∨ (spec c' N = spec c N ∧ c'.exp ≤ c.exp)

instance (N : Bytes) (c' c : Cert) : Decidable (RankLe N c' c) := by unfold RankLe; exact inferInstance

/-- the specification of `resolve` over the set of loaded certificates -/
def ResolveSpec (s : State) (N : Bytes) : Served → Prop
  | .cert fp => ∃ c, Stored s c ∧ c.fp = fp ∧ 0 < spec c N ∧ ∀ c', Stored s c' → RankLe N c' c
  | .default => ∀ c, Stored s c → spec c N = 0
  | .nothing => False

theorem spec_pos_iff (c : Cert) (N : Bytes) : 0 < spec c N ↔ CertCovers c N := by
  unfold spec CertCovers Covers
  constructor
  · intro h
    split at h
    · next h1 => exact ⟨N, h1, Or.inl rfl⟩
    · split at h
      · next h2 => exact ⟨wildOf N, h2, Or.inr rfl⟩
      · omega
  · rintro ⟨name, hn, rfl | rfl⟩
    · simp [hn]
    · split
      · omega
      · simp [hn]

theorem spec_le_two (c : Cert) (N : Bytes) : spec c N ≤ 2 := by
  unfold spec; split <;> (try split) <;> omega

theorem resolveSpec_of_agree (re : Bytes → Bytes → Bool) {s : State} (h : Agree s) {N : Bytes}
    (hN : GoodHost N)
    (hnd : resolve re s (some N) ≠ .nothing)
    (hdef : resolve re s (some N) = .default ↔ ¬ ∃ c, Stored s c ∧ CertCovers c N) :
    ResolveSpec s N (resolve re s (some N)) := by
  cases hr : resolve re s (some N) with
  | nothing => exact absurd hr hnd
  | default =>
    intro c hs
    have := hdef.mp hr
    cases hsp : spec c N with
    | zero => rfl
    | succ k => exact absurd ⟨c, hs, (spec_pos_iff c N).mp (by omega)⟩ this
  | cert fp =>
    obtain ⟨c, hs, hfp, hd⟩ := resolve_sound_of_agree re h hN hr
    refine ⟨c, hs, hfp, ?_, ?_⟩
    · rcases hd with ⟨hn, _⟩ | ⟨_, hn, _⟩
      · exact (spec_pos_iff c N).mpr ⟨N, hn, Or.inl rfl⟩
      · exact (spec_pos_iff c N).mpr ⟨wildOf N, hn, Or.inr rfl⟩
    · intro c' hs'
      unfold RankLe
      rcases hd with ⟨hn, hmax⟩ | ⟨hno, hn, hmax⟩
      · have hc : spec c N = 2 := by simp [spec, hn]
        by_cases hn' : N ∈ c'.names
        · have hc' : spec c' N = 2 := by simp [spec, hn']
          right; exact ⟨by rw [hc', hc], hmax c' hs' hn'⟩
        · left
          rw [hc]; unfold spec; simp only [hn', if_false]; split <;> omega
      · have hnc : N ∉ c.names := hno c hs
        have hc : spec c N = 1 := by simp [spec, hnc, hn]
        have hn' : N ∉ c'.names := hno c' hs'
        by_cases hw : wildOf N ∈ c'.names
        · have hc' : spec c' N = 1 := by simp [spec, hn', hw]
          right; exact ⟨by rw [hc', hc], hmax c' hs' hw⟩
        · left; rw [hc]; simp [spec, hn', hw]

theorem p_resolve_spec (re : Bytes → Bytes → Bool) (ops : List Op) (N : Bytes) (hN : GoodHost N) :
    ResolveSpec (run init ops) N (resolve re (run init ops) (some N)) :=
  resolveSpec_of_agree re (p_agree_invariant ops) hN (p_resolve_never_dangling re ops N hN)
    (p_default_only_if_uncovered re ops N hN)

/-- the specification determines the answer up to ties: it never allows both a
    certificate and the default, and two allowed certificates have the same
    specificity and the same expiration -/
theorem p_resolve_spec_unique (s : State) (N : Bytes) (fp1 fp2 : Fp) :
    (ResolveSpec s N (.cert fp1) → ¬ ResolveSpec s N .default) ∧
    (ResolveSpec s N (.cert fp1) → ResolveSpec s N (.cert fp2) →
      ∃ c1 c2, Stored s c1 ∧ Stored s c2 ∧ c1.fp = fp1 ∧ c2.fp = fp2 ∧
        spec c1 N = spec c2 N ∧ c1.exp = c2.exp) := by
  constructor
  · rintro ⟨c, hs, _, hpos, _⟩ hd
    have := hd c hs
    omega
  · rintro ⟨c1, hs1, hf1, _, hm1⟩ ⟨c2, hs2, hf2, _, hm2⟩
    have a := hm1 c2 hs2
    have b := hm2 c1 hs1
    unfold RankLe at a b
    refine ⟨c1, c2, hs1, hs2, hf1, hf2, ?_, ?_⟩ <;> omega

/-- the strict-SNI gate composed with `resolve`, for every history: a request
    let through to routing on a connection with SNI `N` either carries an
    authority covered (RFC 6125) by a name of exactly the certificate `resolve`
    served for `N`, or no loaded certificate covers `N`, the default certificate
    was served, and the authority equals the SNI (the F79 path). -/
theorem p_strict_sni (re : Bytes → Bytes → Bool) (ops : List Op) (N : Bytes) (hN : GoodHost N)
    (authority : Bytes)
    (hallow : routeAllowed true (some N) (snapshot re (run init ops) (some N)) authority = true) :
    (∃ c, Stored (run init ops) c ∧ resolve re (run init ops) (some N) = .cert c.fp ∧ CertCovers c N ∧
        ∃ name ∈ c.names, SniCovers (normName name) (hostOf authority)) ∨
    (resolve re (run init ops) (some N) = .default ∧
        (¬ ∃ c, Stored (run init ops) c ∧ CertCovers c N) ∧ lower (stripPort authority) = N) := by
  have h := p_agree_invariant ops
  cases hsnap : snapshot re (run init ops) (some N) with
  | some ns =>
    rw [hsnap] at hallow
    exact Or.inl (p_strict_sni_partial re ops N hN ns hsnap authority hallow)
  | none =>
    rw [hsnap] at hallow
    right
    have hdef : resolve re (run init ops) (some N) = .default := by
      cases hr : resolve re (run init ops) (some N) with
      | default => rfl
      | nothing => exact absurd hr (p_resolve_never_dangling re ops N hN)
      | cert fp =>
        exfalso
        obtain ⟨c, hs, hfp, ⟨name, hname, _⟩, _⟩ := p_resolve_sound re ops N hN fp hr
        simp only [resolve] at hr
        cases hl : domainLookup re (run init ops) N true with
        | none => simp [hl] at hr
        | some kv =>
          simp only [hl] at hr
          split at hr
          · cases hr
            have hg : KMap.get? (run init ops).certs kv.2 = some c := by rw [← hfp]; exact hs
            have hne : c.names.isEmpty = false := by
              cases hcn : c.names with
              | nil => rw [hcn] at hname; simp at hname
              | cons _ _ => rfl
            simp [snapshot, namesForSni, hl, hg, hne] at hsnap
          · cases hr
    exact ⟨hdef, (p_default_only_if_uncovered re ops N hN).mp hdef,
      (p_strict_sni_default_path N authority).mp hallow⟩

/-- every fingerprint the per-name index mentions is the one being added or is stored -/
def IdxOk (s : State) (fp : Fp) : Prop :=
  ∀ n x, x ∈ idxGet s n → x.1 = fp ∨ KMap.contains s.certs x.1 = true

theorem idxOk_of_agree {s : State} (h : Agree s) (fp : Fp) : IdxOk s fp := by
  intro n x hx
  obtain ⟨c, h1, _, _⟩ := (h.idx n x.1 x.2).mp hx
  right; simp [KMap.contains, h1]

theorem idxOk_sub {s s' : State} {fp : Fp} (h : IdxOk s fp) (hc : s'.certs = s.certs)
    (hsub : ∀ n x, x ∈ idxGet s' n → x ∈ idxGet s n ∨ x.1 = fp) : IdxOk s' fp := by
  intro n x hx
  rcases hsub n x hx with h1 | h1
  · rw [hc]; exact h n x h1
  · exact Or.inl h1

/-- every internal state of a replace keeps the trie/index agreement, and its
    index only mentions the new fingerprint or stored ones -/
theorem replaceTrace_states {s : State} (h : Agree s) (old : Option Fp) (c : Cert)
    (hg : ∀ n ∈ c.names, GoodName n) :
    ∀ s' ∈ replaceTrace s old c, A s' ∧ IdxOk s' c.fp := by
  have hadd : ∀ s' ∈ addTrace s c, A s' ∧ IdxOk s' c.fp := by
    intro s' hs'
    unfold addTrace at hs'
    split at hs'
    · simp at hs'; subst hs'; exact ⟨h.a, idxOk_of_agree h _⟩
    · rcases List.mem_append.mp hs' with hm | hm
      · obtain ⟨k, rfl⟩ := mem_scanl _ _ _ _ hm
        have sp := addNames_spec c.fp c.exp (c.names.take k) s h.a (take_good hg k)
        refine ⟨sp.1, idxOk_sub (idxOk_of_agree h c.fp) sp.2.1 ?_⟩
        intro n x hx
        rcases (sp.2.2 n x).mp hx with h1 | ⟨_, h1⟩
        · exact Or.inl h1
        · exact Or.inr (by rw [h1])
      · simp at hm; subst hm
        have ha := agree_add h c hg
        exact ⟨ha.a, idxOk_of_agree ha _⟩
  have hrem : ∀ (s1 : State), Agree s1 → ∀ o, ∀ s' ∈ removeTrace s1 o, A s' ∧ IdxOk s' c.fp := by
    intro s1 h1 o s' hs'
    unfold removeTrace at hs'
    cases hget : KMap.get? s1.certs o with
    | none =>
      simp only [hget] at hs'; simp at hs'; subst hs'
      exact ⟨h1.a, idxOk_of_agree h1 _⟩
    | some co =>
      simp only [hget] at hs'
      rcases List.mem_append.mp hs' with hm | hm
      · obtain ⟨k, rfl⟩ := mem_scanl _ _ _ _ hm
        have sp := removeNames_spec o (co.names.take k) s1 h1.a (take_good (h1.good o co hget) k)
        refine ⟨sp.1, idxOk_sub (idxOk_of_agree h1 c.fp) sp.2.1 ?_⟩
        intro n x hx
        exact Or.inl ((sp.2.2 n x).mp hx).1
      · simp at hm; subst hm
        have hr := agree_remove h1 o
        exact ⟨hr.a, idxOk_of_agree hr _⟩
  intro s' hs'
  unfold replaceTrace at hs'
  split at hs'
  · simp at hs'; subst hs'; exact ⟨h.a, idxOk_of_agree h _⟩
  · cases old with
    | none => exact hadd s' hs'
    | some o =>
      simp only [] at hs'
      rcases List.mem_append.mp hs' with hm | hm
      · exact hadd s' hm
      · exact hrem (add s c) (agree_add h c hg) o s' hm

/-- what a successful lookup returns in a state with the trie/index agreement -/
theorem lookup_sound_A (re : Bytes → Bytes → Bool) {s : State} (h : A s) {fp : Fp} (hi : IdxOk s fp)
    {N : Bytes} (hN : GoodHost N) (hc : TrieCovered re s N) :
    ∃ kv, domainLookup re s N true = some kv ∧ Covers kv.1 N ∧
      (kv.2 = fp ∨ KMap.contains s.certs kv.2 = true) := by
  unfold TrieCovered at hc
  rw [lookup_A re h hN] at hc ⊢
  cases h1 : (idxGet s N).getLast? with
  | some p =>
    refine ⟨(N, p.1), by simp [lastKV, h1], Or.inl rfl, hi N p (List.mem_of_getLast? h1)⟩
  | none =>
    cases h2 : (idxGet s (wildOf N)).getLast? with
    | some p =>
      refine ⟨(wildOf N, p.1), by simp [lastKV, h1, h2], Or.inr rfl,
        hi (wildOf N) p (List.mem_of_getLast? h2)⟩
    | none => simp [lastKV, h1, h2] at hc

/-- **every** internal state of a replace (name by name): the lookup for a server
    name covered before and after the replace finds, under a key that covers the
    name (`N` itself or `wildOf N`), the fingerprint of the certificate being
    added or of a certificate that is in the store at that moment. -/
theorem p_replace_no_gap_sound (re : Bytes → Bytes → Bool) (ops : List Op)
    (old : Option Fp) (c0 c : Cert) (hp : prepare c0 = some c)
    (N : Bytes) (hN : GoodHost N)
    (hbefore : TrieCovered re (run init ops) N)
    (hafter : TrieCovered re (replace (run init ops) old c) N) :
    ∀ s' ∈ replaceTrace (run init ops) old c,
      ∃ kv, domainLookup re s' N true = some kv ∧ Covers kv.1 N ∧
        (kv.2 = c.fp ∨ KMap.contains s'.certs kv.2 = true) := by
  intro s' hs'
  have hst := replaceTrace_states (p_agree_invariant ops) old c (prepare_good hp).2.2.2 s' hs'
  exact lookup_sound_A re hst.1 hst.2 hN
    (p_replace_no_gap_stepwise re ops old c0 c hp N hN hbefore hafter s' hs')


-- =============================================================== part 5 ==
-- C07 on the resolver: a command answered with an error leaves no trace, a
-- command touches only the certificates it names (any state, no invariant needed)

theorem step_fst (s : State) (op : Op) :
    (step s op).1 = if s.dead then s else apply s op := by
  unfold step
  by_cases hd : s.dead = true
  · simp [hd]
  · simp only [hd, Bool.false_eq_true, if_false]
    cases op with
    | add c =>
      cases hp : prepare c with
      | none => simp only [apply, hp]; split <;> rfl
      | some c' => simp only [apply, hp]; split <;> rfl
    | replace old c =>
      cases hp : prepare c with
      | none => simp only [apply, hp]; split <;> rfl
      | some c' => simp only [apply, hp]; split <;> rfl
    | addInvalid => simp only [apply]; split <;> rfl
    | removeInvalid => simp only [apply]; split <;> rfl
    | replaceInvalid o => simp only [apply]; split <;> rfl
    | remove fp => simp only [apply]; split <;> rfl

theorem p_resolver_error_is_noop (s : State) (op : Op) (h : (step s op).2 = Out.err) :
    (step s op).1 = s := by
  by_cases hd : s.dead = true
  · simp [step, hd] at h
  · rw [step_fst]
    simp only [hd, Bool.false_eq_true, if_false]
    unfold step at h
    simp only [hd, Bool.false_eq_true, if_false] at h
    cases op with
    | add c =>
      cases hp : prepare c with
      | none => simp only [apply, hp]
      | some c' => simp only [hp] at h; split at h <;> cases h
    | replace old c =>
      cases hp : prepare c with
      | none => simp only [apply, hp]
      | some c' => simp only [hp] at h; split at h <;> cases h
    | addInvalid => rfl
    | removeInvalid => rfl
    | replaceInvalid o => rfl
    | remove fp => simp only [] at h; split at h <;> cases h

/-- the error branches are exactly: unparsable PEM / key (add, replace), names
    `try_from` refuses (add, replace), a fingerprint text that is not hex (remove) -/
theorem p_resolver_error_iff (s : State) (op : Op) (hd : s.dead = false) :
    (step s op).2 = Out.err ↔
      (match op with
        | .add c => prepare c = none
        | .replace _ c => prepare c = none
        | .addInvalid => True
        | .removeInvalid => True
        | .replaceInvalid _ => True
        | .remove _ => False) := by
  unfold step
  simp only [hd, Bool.false_eq_true, if_false]
  cases op with
  | add c =>
    cases hp : prepare c with
    | none => simp [hp, hd]
    | some c' => simp only [hp]; split <;> simp
  | replace old c =>
    cases hp : prepare c with
    | none => simp [hp, hd]
    | some c' => simp only [hp]; split <;> simp
  | addInvalid => simp [hd]
  | removeInvalid => simp [hd]
  | replaceInvalid o => simp [hd]
  | remove fp => simp only []; split <;> simp

/-- `op` names the certificate with fingerprint `fp` -/
def Touches (fp : Fp) : Op → Prop
  | .add c => c.fp = fp
  | .remove f => f = fp
  | .replace old c => c.fp = fp ∨ old = some fp
  | _ => False

theorem p_resolver_touches_only_named (s : State) (op : Op) (fp : Fp) (h : ¬ Touches fp op) :
    KMap.get? (step s op).1.certs fp = KMap.get? s.certs fp := by
  rw [step_fst]
  split
  · rfl
  · cases op with
    | add c =>
      simp only [apply]
      cases hp : prepare c with
      | none => rfl
      | some c' =>
        have : fp ≠ c'.fp := fun e => h (by rw [Touches, ← (prepare_good hp).1]; exact e.symm)
        exact get_certs_add s c' fp this
    | addInvalid => rfl
    | removeInvalid => rfl
    | replaceInvalid o => rfl
    | remove o =>
      have : fp ≠ o := fun e => h e.symm
      simp [apply, get_certs_remove, this]
    | replace old c =>
      simp only [apply]
      cases hp : prepare c with
      | none => rfl
      | some c' =>
        have hne : fp ≠ c'.fp := fun e => h (Or.inl (by rw [← (prepare_good hp).1]; exact e.symm))
        simp only [replace]
        split
        · rfl
        · cases old with
          | none => exact get_certs_add s c' fp hne
          | some o =>
            have ho : fp ≠ o := fun e => h (Or.inr (by rw [e]))
            simp only [get_certs_remove, ho, if_false]
            exact get_certs_add s c' fp hne


-- =============================================================== part 6 ==
-- the chain presented, a ClientHello without SNI, the streams of one connection

/-- the certificate ids among the blocks, in order -/
def linkId : Link → Option Nat
  | .cert i => some i
  | .bad => none

def linkIds (links : List Link) : List Nat := links.filterMap linkId

theorem p_chain_refused_iff (leaf : Nat) (links : List Link) :
    assembleChain leaf links = none ↔ Link.bad ∈ links := by
  unfold assembleChain
  split
  · next h =>
    simp only [true_iff]
    obtain ⟨l, hl, he⟩ := List.any_eq_true.mp h
    have : l = Link.bad := by simpa using he
    rw [← this]; exact hl
  · next h =>
    simp only [reduceCtorEq, false_iff]
    intro hb
    apply h
    exact List.any_eq_true.mpr ⟨Link.bad, hb, by simp⟩

theorem filterMap_chain (leaf : Nat) (links : List Link) :
    links.filterMap (keepLink leaf) = (linkIds links).filter (· ≠ leaf) := by
  unfold linkIds
  induction links with
  | nil => rfl
  | cons l t ih =>
    cases l with
    | bad => simpa [List.filterMap_cons, keepLink, linkId] using ih
    | cert i =>
      by_cases hi : i = leaf
      · simp [List.filterMap_cons, keepLink, linkId, hi, ih]
      · simp [List.filterMap_cons, keepLink, linkId, hi, ih]

theorem p_chain_shape (leaf : Nat) (links : List Link) (c : List Nat)
    (h : assembleChain leaf links = some c) :
    c = leaf :: (linkIds links).filter (· ≠ leaf) ∧ c.head? = some leaf ∧ leaf ∉ c.tail ∧
      (∀ x, x ∈ c ↔ x = leaf ∨ x ∈ linkIds links) := by
  unfold assembleChain at h
  split at h
  · cases h
  · cases h
    rw [filterMap_chain]
    refine ⟨rfl, rfl, ?_, ?_⟩
    · simp [List.mem_filter]
    · intro x
      simp only [List.mem_cons, List.mem_filter, ne_eq, decide_not, Bool.not_eq_eq_eq_not,
        Bool.not_true, decide_eq_false_iff_not]
      constructor
      · rintro (h1 | ⟨h1, _⟩)
        · exact Or.inl h1
        · exact Or.inr h1
      · rintro (h1 | h1)
        · exact Or.inl h1
        · by_cases hx : x = leaf
          · exact Or.inl hx
          · exact Or.inr ⟨h1, hx⟩

theorem p_no_sni_no_certificate (re : Bytes → Bytes → Bool) (s : State) :
    resolve re s none = .nothing := rfl

theorem p_strict_sni_streams (re : Bytes → Bytes → Bool) (ops : List Op) (N : Bytes) (hN : GoodHost N)
    (authorities : List Bytes) :
    ∀ a ∈ authorities,
      routeAllowed true (some N) (snapshot re (run init ops) (some N)) a = true →
      (∃ c, Stored (run init ops) c ∧ resolve re (run init ops) (some N) = .cert c.fp ∧ CertCovers c N ∧
          ∃ name ∈ c.names, SniCovers (normName name) (hostOf a)) ∨
      (resolve re (run init ops) (some N) = .default ∧
          (¬ ∃ c, Stored (run init ops) c ∧ CertCovers c N) ∧ lower (stripPort a) = N) :=
  fun a _ h => p_strict_sni re ops N hN a h


theorem p_gate_scope (sni : Option Bytes) (names : Option (List Bytes)) (a : Bytes) :
    routeAllowed false sni names a = true ∧ routeAllowed true none names a = true := by
  constructor
  · cases sni <;> simp [routeAllowed]
  · simp [routeAllowed]

end Sozu.Tls
