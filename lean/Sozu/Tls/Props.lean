import Sozu.Tls.Lemmas
/-
C17 — TLS always serves a loaded certificate that covers the requested name.

Only the property theorems `C17_*` and their non-vacuity examples live here.

Scope of the quantifiers:
* histories: *all* op sequences. The names of an added certificate go through
  `prepare` (= `CertifiedKeyWrapper::try_from`): lower-cased, one trailing dot
  stripped, and the certificate is refused (state unchanged,
  `C17_rejected_add_unchanged`) when a name is then empty, starts with `.` or
  contains `/` — exactly the names the trie cannot hold as literal keys
  (`validCertName_iff`), so no hypothesis on the names is left.
* server names `N`: non-empty, not starting with `.` (`GoodHost`). rustls only
  hands validated DNS names to `resolve`.
`covers`: a certificate name covers `N` when it is byte-equal to `N` or equal
to `wildOf N` (`*` in place of the left-most label of `N`) — single-label
wildcard, no apex match, no embedded wildcard; the stored names are lower case
and in relative form, like the SNI rustls hands over.
-/
set_option linter.unusedSimpArgs false
set_option linter.unusedVariables false
namespace Sozu.Tls
open Sozu Sozu.Trie

/-- a certificate name covers the server name `N` -/
def Covers (name N : Bytes) : Prop := name = N ∨ name = wildOf N

/-- the certificate covers the server name `N` -/
def CertCovers (c : Cert) (N : Bytes) : Prop := ∃ name ∈ c.names, Covers name N

-- ------------------------------------------------------------ invariant --

/-- After every history of add / remove / replace (re-adds, refused names,
    idempotent replace, absent or unparsable old fingerprint, failing PEM) the
    trie, the per-name index and the store agree (`Agree`). -/
theorem C17_agree_invariant (ops : List Op) : Agree (run init ops) :=
  agree_run ops init agree_init

/-- no history makes the resolver panic -/
theorem C17_no_panic (ops : List Op) : (run init ops).dead = false :=
  (C17_agree_invariant ops).a.alive

/-- a certificate whose names `try_from` refuses leaves the resolver unchanged
    (add and replace alike; the old certificate of the replace stays) -/
theorem C17_rejected_add_unchanged (ops : List Op) (c : Cert) (old : Option Fp)
    (h : prepare c = none) :
    step (run init ops) (.add c) = (run init ops, .err) ∧
    step (run init ops) (.replace old c) = (run init ops, .err) := by
  have hd := C17_no_panic ops
  simp [step, hd, h]

-- ------------------------------------------------------------- resolve --

/-- state-level form of `C17_resolve_sound` -/
theorem resolve_sound_of_agree (re : Bytes → Bytes → Bool) {s : State} (h : Agree s) {N : Bytes}
    (hN : GoodHost N) {fp : Fp} (hr : resolve re s (some N) = .cert fp) :
    ∃ c, Stored s c ∧ c.fp = fp ∧
      ((N ∈ c.names ∧ ∀ c', Stored s c' → N ∈ c'.names → c'.exp ≤ c.exp) ∨
       ((∀ c', Stored s c' → N ∉ c'.names) ∧ wildOf N ∈ c.names ∧
          ∀ c', Stored s c' → wildOf N ∈ c'.names → c'.exp ≤ c.exp)) := by
  simp only [resolve, lookup_agree re h hN] at hr
  cases h1 : (idxGet s N).getLast? with
  | some p =>
    obtain ⟨c, hs, hfp, hn, _, hmax⟩ := last_is_longest h h1
    simp only [lastKV, h1, Option.map_some, Option.orElse_some] at hr
    split at hr
    · cases hr; exact ⟨c, hs, hfp, Or.inl ⟨hn, hmax⟩⟩
    · cases hr
  | none =>
    have hno := (idx_nil_iff h N).mp h1
    simp only [lastKV, h1, Option.map_none, Option.orElse_none] at hr
    cases h2 : (idxGet s (wildOf N)).getLast? with
    | some p =>
      obtain ⟨c, hs, hfp, hn, _, hmax⟩ := last_is_longest h h2
      simp only [h2, Option.map_some] at hr
      split at hr
      · cases hr; exact ⟨c, hs, hfp, Or.inr ⟨hno, hn, hmax⟩⟩
      · cases hr
    | none => simp [h2] at hr

/-- **Soundness of the served certificate.** For every history and every server
    name `N`: if `resolve` hands rustls the certificate with fingerprint `fp`
    then a certificate `c` with that fingerprint is currently stored and
    * either `N` itself is one of its names, and no stored certificate naming
      `N` expires later (exact name, longest-lived among equals),
    * or no stored certificate names `N` exactly, the wildcard `wildOf N` is one
      of its names, and no stored certificate carrying that wildcard expires
      later (wildcard only when there is no exact name). -/
theorem C17_resolve_sound (re : Bytes → Bytes → Bool) (ops : List Op)
    (N : Bytes) (hN : GoodHost N) (fp : Fp) (hr : resolve re (run init ops) (some N) = .cert fp) :
    ∃ c, Stored (run init ops) c ∧ c.fp = fp ∧ CertCovers c N ∧
      ((N ∈ c.names ∧ ∀ c', Stored (run init ops) c' → N ∈ c'.names → c'.exp ≤ c.exp) ∨
       ((∀ c', Stored (run init ops) c' → N ∉ c'.names) ∧ wildOf N ∈ c.names ∧
          ∀ c', Stored (run init ops) c' → wildOf N ∈ c'.names → c'.exp ≤ c.exp)) := by
  obtain ⟨c, hs, hfp, hd⟩ := resolve_sound_of_agree re (C17_agree_invariant ops) hN hr
  refine ⟨c, hs, hfp, ?_, hd⟩
  rcases hd with ⟨hn, _⟩ | ⟨_, hn, _⟩
  · exact ⟨N, hn, Or.inl rfl⟩
  · exact ⟨wildOf N, hn, Or.inr rfl⟩

/-- `resolve` never answers `None` for a server name: the trie never names a
    fingerprint that is not stored (no dangling fingerprint). -/
theorem C17_resolve_never_dangling (re : Bytes → Bytes → Bool) (ops : List Op)
    (N : Bytes) (hN : GoodHost N) :
    resolve re (run init ops) (some N) ≠ .nothing := by
  have h := C17_agree_invariant ops
  intro hr
  simp only [resolve, lookup_agree re h hN] at hr
  cases h1 : (idxGet (run init ops) N).getLast? with
  | some p =>
    obtain ⟨c, hs, hfp, _⟩ := last_is_longest h h1
    simp only [lastKV, h1, Option.map_some, Option.orElse_some] at hr
    have : KMap.contains (run init ops).certs p.1 = true := by
      rw [← hfp]; simp [KMap.contains, show KMap.get? (run init ops).certs c.fp = some c from hs]
    simp [this] at hr
  | none =>
    simp only [lastKV, h1, Option.map_none, Option.orElse_none] at hr
    cases h2 : (idxGet (run init ops) (wildOf N)).getLast? with
    | some p =>
      obtain ⟨c, hs, hfp, _⟩ := last_is_longest h h2
      simp only [h2, Option.map_some] at hr
      have : KMap.contains (run init ops).certs p.1 = true := by
        rw [← hfp]; simp [KMap.contains, show KMap.get? (run init ops).certs c.fp = some c from hs]
      simp [this] at hr
    | none => simp [h2] at hr

/-- **Default certificate only when nothing covers.** `resolve` falls back to
    `DEFAULT_CERTIFICATE` exactly when no stored certificate covers `N`. -/
theorem C17_default_only_if_uncovered (re : Bytes → Bytes → Bool) (ops : List Op)
    (N : Bytes) (hN : GoodHost N) :
    resolve re (run init ops) (some N) = .default ↔
      ¬ ∃ c, Stored (run init ops) c ∧ CertCovers c N := by
  have h := C17_agree_invariant ops
  constructor
  · intro hr
    simp only [resolve, lookup_agree re h hN] at hr
    rintro ⟨c, hs, name, hn, hc⟩
    cases h1 : (idxGet (run init ops) N).getLast? with
    | some p =>
      simp only [lastKV, h1, Option.map_some, Option.orElse_some] at hr
      split at hr <;> cases hr
    | none =>
      simp only [lastKV, h1, Option.map_none, Option.orElse_none] at hr
      cases h2 : (idxGet (run init ops) (wildOf N)).getLast? with
      | some p =>
        simp only [h2, Option.map_some] at hr
        split at hr <;> cases hr
      | none =>
        rcases hc with rfl | rfl
        · exact (idx_nil_iff h _).mp h1 c hs hn
        · exact (idx_nil_iff h _).mp h2 c hs hn
  · intro hno
    cases hr : resolve re (run init ops) (some N) with
    | default => rfl
    | nothing => exact absurd hr (C17_resolve_never_dangling re ops N hN)
    | cert fp =>
      obtain ⟨c, hs, _, hc, _⟩ := C17_resolve_sound re ops N hN fp hr
      exact absurd ⟨c, hs, hc⟩ hno

-- -------------------------------------------------------------- removal --

/-- `resolve` only ever answers with a fingerprint that is in the store -/
theorem resolve_cert_stored (re : Bytes → Bytes → Bool) (s : State) (N : Bytes) (fp : Fp)
    (hnone : KMap.get? s.certs fp = none) : resolve re s (some N) ≠ .cert fp := by
  intro hr
  simp only [resolve] at hr
  split at hr
  · next kv _ =>
    split at hr
    · next hc =>
      cases hr
      simp [KMap.contains, hnone] at hc
    · cases hr
  · cases hr

/-- **A removed certificate is never served again**: after `remove fp`, and for
    as long as no later op loads that fingerprint again, no server name at all
    (no restriction on `N`) is answered with it. -/
theorem C17_removed_never_served (re : Bytes → Bytes → Bool) (ops1 ops2 : List Op) (fp : Fp)
    (hn : ∀ op ∈ ops2, ¬ AddsFp fp op) (N : Bytes) :
    resolve re (run init (ops1 ++ [Op.remove fp] ++ ops2)) (some N) ≠ .cert fp := by
  have ha1 := C17_agree_invariant ops1
  have hrm : run init (ops1 ++ [Op.remove fp]) = remove (run init ops1) fp := by
    rw [run_append]
    simp only [run, List.foldl_cons, List.foldl_nil]
    exact step_eq_apply ha1 (.remove fp)
  have ha2 : Agree (remove (run init ops1) fp) := agree_remove ha1 fp
  have hnone : KMap.get? (run init (ops1 ++ [Op.remove fp] ++ ops2)).certs fp = none := by
    rw [run_append, hrm]
    exact not_stored_run fp ops2 _ ha2 (by rw [get_certs_remove]; simp) hn
  exact resolve_cert_stored re _ N fp hnone

-- ------------------------------------------------------------- replace --

/-- a handshake for `N` would be answered with a stored certificate -/
def Covered (re : Bytes → Bytes → Bool) (s : State) (N : Bytes) : Prop :=
  ∃ fp, resolve re s (some N) = .cert fp

theorem covered_iff_stored (re : Bytes → Bytes → Bool) {s : State} (h : Agree s) {N : Bytes}
    (hN : GoodHost N) : Covered re s N ↔ TrieCovered re s N := by
  unfold Covered TrieCovered resolve
  constructor
  · rintro ⟨fp, hr⟩
    cases hl : domainLookup re s N true with
    | none => simp [hl] at hr
    | some kv => rfl
  · intro hc
    cases hl : domainLookup re s N true with
    | none => simp [hl] at hc
    | some kv =>
      have hl' := hl
      rw [lookup_agree re h hN] at hl'
      have hst : KMap.contains s.certs kv.2 = true := by
        cases h1 : (idxGet s N).getLast? with
        | some p =>
          obtain ⟨c, hs, hfp, _⟩ := last_is_longest h h1
          simp only [lastKV, h1, Option.map_some, Option.orElse_some, Option.some.injEq] at hl'
          rw [← hl', ← hfp]; simp [KMap.contains, show KMap.get? s.certs c.fp = some c from hs]
        | none =>
          simp only [lastKV, h1, Option.map_none, Option.orElse_none] at hl'
          cases h2 : (idxGet s (wildOf N)).getLast? with
          | some p =>
            obtain ⟨c, hs, hfp, _⟩ := last_is_longest h h2
            simp only [h2, Option.map_some, Option.some.injEq] at hl'
            rw [← hl', ← hfp]; simp [KMap.contains, show KMap.get? s.certs c.fp = some c from hs]
          | none => simp [h2] at hl'
      exact ⟨kv.2, by simp [hl, hst]⟩

/-- **Replacing never opens a gap (between the two steps).** `replace` is
    `add new` then `remove old`; in the state between the two a server name that
    was answered with a stored certificate before still is (so a name covered
    before and after is covered throughout). -/
theorem C17_replace_no_gap (re : Bytes → Bytes → Bool) (ops : List Op)
    (c0 c : Cert) (hp : prepare c0 = some c) (N : Bytes) (hN : GoodHost N)
    (hbefore : Covered re (run init ops) N) : Covered re (add (run init ops) c) N := by
  have hc := (prepare_good hp).2.2.2
  have h := C17_agree_invariant ops
  have h' := agree_add h c hc
  rw [covered_iff_stored re h' hN]
  rw [covered_iff_stored re h hN] at hbefore
  exact addTrace_covered re h c hc hN hbefore _ (by
    unfold addTrace
    split
    · next hcon => simp [add, hcon]
    · simp)

/-- **Replacing never opens a gap (name by name).** In *every* state the
    resolver goes through inside one `replace_certificate` — after each name of
    the `add_certificate` loop, after the store insert, after each name of the
    `remove_certificate` loop — the trie still finds a fingerprint for every
    server name it found one for before the replace and finds one for after it. -/
theorem C17_replace_no_gap_stepwise (re : Bytes → Bytes → Bool) (ops : List Op)
    (old : Option Fp) (c0 c : Cert) (hp : prepare c0 = some c)
    (N : Bytes) (hN : GoodHost N)
    (hbefore : TrieCovered re (run init ops) N)
    (hafter : TrieCovered re (replace (run init ops) old c) N) :
    ∀ s' ∈ replaceTrace (run init ops) old c, TrieCovered re s' N := by
  have hc := (prepare_good hp).2.2.2
  have h := C17_agree_invariant ops
  intro s' hs'
  unfold replaceTrace at hs'
  unfold replace at hafter
  split at hs'
  · simp at hs'; subst hs'; exact hbefore
  · next hne =>
    simp only [hne, if_false] at hafter
    cases old with
    | none => exact addTrace_covered re h c hc hN hbefore s' hs'
    | some o =>
      simp only [] at hs' hafter
      rcases List.mem_append.mp hs' with hm | hm
      · exact addTrace_covered re h c hc hN hbefore s' hm
      · exact removeTrace_covered re (agree_add h c hc) o hN hafter s' hm

-- ---------------------------------------------------------- strict SNI --

/-- **The certificate-name predicate is exactly RFC 6125 coverage.**
    `authority_matched_cert_name` accepts iff the request host (port stripped,
    one trailing dot stripped) is non-empty and some name of the snapshot covers
    it: equal up to ASCII case when the name has no `*`, or the name is `*.` + a
    `*`-free suffix and the host is exactly one non-empty label + `.` + that
    suffix (no apex match, no deeper label, no embedded wildcard). -/
theorem C17_strict_sni_iff (authority : Bytes) (names : List Bytes) :
    (matchedCertName authority names).isSome = true ↔
      hostOf authority ≠ [] ∧ ∃ e ∈ names, SniCovers e (hostOf authority) := by
  unfold matchedCertName
  simp only []
  by_cases he : hostOf authority = []
  · simp [he]
  · have : (hostOf authority).isEmpty = false := by
      cases h : hostOf authority with
      | nil => exact absurd h he
      | cons _ _ => rfl
    simp only [this, Bool.false_eq_true, if_false, List.find?_isSome, ne_eq, he, not_false_eq_true,
      true_and]
    constructor
    · rintro ⟨e, hm, hx⟩; exact ⟨e, hm, (entryMatches_iff _ _).mp hx⟩
    · rintro ⟨e, hm, hx⟩; exact ⟨e, hm, (entryMatches_iff _ _).mpr hx⟩

/-- a wildcard name never covers its own apex -/
theorem C17_strict_sni_no_apex (suf h : Bytes) (hh : lower h = lower suf) :
    ¬ SniCovers (STAR :: DOT :: suf) h := by
  rintro (⟨h1, _⟩ | ⟨suf', lm, rest, h1, _, h3, _, _, h6⟩)
  · exact h1 (by simp)
  · cases h1
    have l1 := congrArg List.length hh
    have l2 := congrArg List.length h6
    simp only [lower_length] at l1 l2
    rw [h3] at l1
    simp at l1
    omega

/-- a wildcard name covers exactly one extra label: the host has one more dot
    than the suffix (no match across dots, no deeper sub-domain) -/
theorem C17_strict_sni_one_label (suf h : Bytes) (hc : SniCovers (STAR :: DOT :: suf) h) :
    h.count DOT = suf.count DOT + 1 := by
  rcases hc with ⟨h1, _⟩ | ⟨suf', lm, rest, h1, _, h3, _, h5, h6⟩
  · exact absurd (by simp) h1
  · cases h1
    have hc := congrArg (List.count DOT) h6
    rw [count_dot_lower, count_dot_lower] at hc
    rw [h3, List.count_append, List.count_cons, List.count_eq_zero_of_not_mem h5, hc]
    simp

/-- the name returned is one of the snapshot and covers the host -/
theorem C17_strict_sni_matched (authority : Bytes) (names : List Bytes) (e : Bytes)
    (h : matchedCertName authority names = some e) : e ∈ names ∧ SniCovers e (hostOf authority) := by
  unfold matchedCertName at h
  simp only [] at h
  split at h
  · cases h
  · exact ⟨List.mem_of_find?_eq_some h, (entryMatches_iff _ _).mp (List.find?_some h)⟩

/-- the legacy predicate: the host (port stripped) equals the SNI up to ASCII
    case of the authority -/
theorem C17_strict_sni_exact (authority sni : Bytes) :
    matchesSni authority sni = true ↔ lower (stripPort authority) = sni :=
  matchesSni_iff authority sni

/-- **Strict SNI binding on a connection that was served a loaded certificate.**
    For every history: when the handshake for SNI `N` found a loaded certificate
    (the snapshot is `some`), a request is let through to routing only if its
    authority is covered (RFC 6125, `SniCovers`) by a name of *the certificate
    that `resolve` served for `N`*, normalised as `upgrade_handshake` does.
    `_partial`: the hypothesis `snapshot … = some ns` excludes the connections
    that were served the default certificate, see the counterexample below. -/
theorem C17_strict_sni_partial (re : Bytes → Bytes → Bool) (ops : List Op)
    (N : Bytes) (hN : GoodHost N) (ns : List Bytes)
    (hsnap : snapshot re (run init ops) (some N) = some ns) (authority : Bytes)
    (hallow : routeAllowed true (some N) (some ns) authority = true) :
    ∃ c, Stored (run init ops) c ∧ resolve re (run init ops) (some N) = .cert c.fp ∧ CertCovers c N ∧
      ∃ name ∈ c.names, SniCovers (normName name) (hostOf authority) := by
  have h := C17_agree_invariant ops
  simp only [snapshot, namesForSni] at hsnap
  cases hl : domainLookup re (run init ops) N true with
  | none => simp [hl] at hsnap
  | some kv =>
    simp only [hl] at hsnap
    cases hg : KMap.get? (run init ops).certs kv.2 with
    | none => simp [hg] at hsnap
    | some c =>
      simp only [hg, Option.map_some] at hsnap
      split at hsnap
      · cases hsnap
      · cases hsnap
        have hk : c.fp = kv.2 := h.keyed kv.2 c hg
        have hres : resolve re (run init ops) (some N) = .cert c.fp := by
          simp [resolve, hl, KMap.contains, hg, hk]
        obtain ⟨c2, hs2, hfp2, hcov, _⟩ := C17_resolve_sound re ops N hN c.fp hres
        have hc2 : c2 = c := by
          have : KMap.get? (run init ops).certs c2.fp = some c2 := hs2
          rw [hfp2, hk, hg] at this; cases this; rfl
        subst hc2
        refine ⟨c2, hs2, hres, hcov, ?_⟩
        simp only [routeAllowed, Bool.not_true, Bool.false_eq_true, if_false] at hallow
        obtain ⟨_, e, he, hcv⟩ := (C17_strict_sni_iff authority _).mp hallow
        obtain ⟨name, hname, rfl⟩ := List.mem_map.mp he
        exact ⟨name, hname, hcv⟩

/-- on a connection that was served the default certificate (no loaded
    certificate covers the SNI) the gate falls back to "authority = SNI" -/
theorem C17_strict_sni_default_path (sni authority : Bytes) :
    routeAllowed true (some sni) none authority = true ↔ lower (stripPort authority) = sni := by
  simp [routeAllowed, matchesSni_iff]

/-- **Counterexample to the full statement**: with an empty resolver a handshake
    for `nocert.test` is served the default certificate (which does not cover
    it), and the request with authority `nocert.test` is let through to routing. -/
theorem C17_strict_sni_counterexample :
    let N : Bytes := [110,111,99,101,114,116,46,116,101,115,116]
    resolve (fun _ _ => false) init (some N) = .default ∧
      snapshot (fun _ _ => false) init (some N) = none ∧
      routeAllowed true (some N) (snapshot (fun _ _ => false) init (some N)) N = true := by
  decide

-- ------------------------------------------------- regression examples --

-- formerly `C17_bad_name_panics` (finding certificate-name-panics-worker, fixed in /repo 8d9b64c):
-- a leading dot or a `/` segment used to panic `TrieNode::insert`; such a certificate is now
-- refused and the resolver is untouched; `""` is refused too.
example :
    (step init (.add ⟨1, [[46,101,120,97,109,112,108,101,46,111,114,103]], 10⟩)).2 = .err ∧
    (step init (.add ⟨1, [[114,101,47]], 10⟩)).2 = .err ∧
    (step init (.add ⟨1, [[]], 10⟩)).2 = .err ∧
    (run init [.add ⟨1, [[46,101,120,97,109,112,108,101,46,111,114,103]], 10⟩,
               .add ⟨1, [[114,101,47]], 10⟩]).dead = false := by
  decide

-- formerly `C17_variant_name_counterexample` (finding variant-name-not-served, fixed in /repo
-- 2039ba1): "WWW.example.org" and "www.example.org." are stored as "www.example.org" and served.
example :
    let www : Bytes := [119,119,119,46,101,120,97,109,112,108,101,46,111,114,103]
    resolve (fun _ _ => false)
      (run init [.add ⟨1, [[87,87,87,46,101,120,97,109,112,108,101,46,111,114,103]], 10⟩])
      (some www) = .cert 1 ∧
    resolve (fun _ _ => false) (run init [.add ⟨2, [www ++ [46]], 10⟩]) (some www) = .cert 2 := by
  decide

-- --------------------------------------------------------- non-vacuity --

section Examples

def nWww : Bytes := [119,119,119,46,101,120,97,109,112,108,101,46,111,114,103]
def nApex : Bytes := [101,120,97,109,112,108,101,46,111,114,103]
def nWild : Bytes := [42,46,101,120,97,109,112,108,101,46,111,114,103]
def nTest : Bytes := [116,101,115,116,46,101,120,97,109,112,108,101,46,111,114,103]
def nDeep : Bytes := [97,46,98,46,101,120,97,109,112,108,101,46,111,114,103]

def cWild : Cert := ⟨1, [nWild], 100⟩
def cWww : Cert := ⟨2, [nWww, nApex], 200⟩
def cWww2 : Cert := ⟨3, [nWww], 300⟩
def cWildNew : Cert := ⟨4, [nWild], 50⟩

def noRe : Bytes → Bytes → Bool := fun _ _ => false

def hist : List Op := [.add cWild, .add cWww, .add cWww2, .remove 3, .replace (some 1) cWildNew]

example : prepare cWild = some cWild ∧ prepare cWww = some cWww := by decide

example : wildOf nTest = nWild := by decide
example : GoodHost nTest ∧ GoodName nWild := by decide

-- the hypotheses of C17_resolve_sound are met by a history with overlapping exact / wildcard names,
-- a longer-lived duplicate, a removal and a replace; every branch of the conclusion occurs:
example : resolve noRe (run init hist) (some nWww) = .cert 2 := by decide            -- exact beats wildcard
example : resolve noRe (run init hist) (some nTest) = .cert 4 := by decide           -- wildcard, replaced
example : resolve noRe (run init hist) (some nApex) = .cert 2 := by decide           -- apex only by its exact name
example : resolve noRe (run init hist) (some nDeep) = .default := by decide          -- one label only
example : resolve noRe (run init [.add cWild, .add cWww, .add cWww2]) (some nWww) = .cert 3 := by decide  -- longest-lived
example : resolve noRe (run init [.add cWild]) (some nApex) = .default := by decide  -- no apex match
-- C17_removed_never_served: 3 was served, is removed, is not served
example : resolve noRe (run init [.add cWild, .add cWww, .add cWww2, .remove 3]) (some nWww) = .cert 2 := by decide
-- C17_replace_no_gap: the trace of the replace has 6 states, all cover test.example.org
example : (replaceTrace (run init [.add cWild, .add cWww]) (some 1) cWildNew).length = 6 := by decide
example : ∀ s' ∈ replaceTrace (run init [.add cWild, .add cWww]) (some 1) cWildNew,
    TrieCovered noRe s' nTest := by decide
example : Covered noRe (run init [.add cWild, .add cWww]) nTest := ⟨1, by decide⟩
example : Covered noRe (add (run init [.add cWild, .add cWww]) cWildNew) nTest := ⟨1, by decide⟩
-- C17_strict_sni: accepted and rejected authorities on a wildcard connection
example : routeAllowed true (some nTest) (snapshot noRe (run init hist) (some nTest))
    [84,101,115,116,46,69,120,97,109,112,108,101,46,79,82,71,58,52,52,51] = true := by decide   -- "Test.Example.ORG:443"
example : routeAllowed true (some nTest) (snapshot noRe (run init hist) (some nTest)) nApex = false := by decide
example : routeAllowed true (some nTest) (snapshot noRe (run init hist) (some nTest)) nDeep = false := by decide
example : matchedCertName [102,111,111,46,101,120,97,109,112,108,101,46,111,114,103]
    [[102,42,46,101,120,97,109,112,108,101,46,111,114,103]] = none := by decide                   -- "f*.example.org"

end Examples

end Sozu.Tls
