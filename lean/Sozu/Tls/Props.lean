import Sozu.Tls.Lemmas
/-
C17 — TLS always serves a loaded certificate that covers the requested name.

Only the property statements `C17_*` and their non-vacuity examples live here;
every proof is in `Lemmas.lean` (part 3 and 4, lemma `p_x` for theorem `C17_x`),
and so are the notions the statements use: `Agree`, `Stored`, `GoodHost`,
`wildOf`, `Covers`, `CertCovers`, `spec`, `RankLe`, `ResolveSpec`, `Covered`,
`TrieCovered`, `SniCovers`, `AddsFp`, `prepare`.

Scope of the quantifiers:
* histories: *all* op sequences. The names of an added certificate go through
  `prepare` (= `CertifiedKeyWrapper::try_from`): lower-cased, one trailing dot
  stripped, and the certificate is refused (state unchanged,
  `C17_rejected_add_unchanged`) when a name is then empty, starts with `.` or
  contains `/` — exactly the names the trie cannot hold as literal keys
  (`validCertName_iff`), so no hypothesis on the names is left.
* server names `N`: non-empty, not starting with `.` (`GoodHost`). rustls only
  hands validated DNS names to `resolve`.
`covers`: a certificate name covers `N` when it is byte-equal to `N` or equal
to `wildOf N` (`*` in place of the left-most label of `N`) — single-label
wildcard, no apex match, no embedded wildcard; the stored names are lower case
and in relative form, like the SNI rustls hands over.
-/
set_option linter.unusedSimpArgs false
set_option linter.unusedVariables false
namespace Sozu.Tls
open Sozu Sozu.Trie

-- ------------------------------------------------------------ invariant --

/-- After every history of add / remove / replace (re-adds, refused names,
    idempotent replace, absent or unparsable old fingerprint, failing PEM) the
    trie, the per-name index and the store agree (`Agree`). -/
theorem C17_agree_invariant (ops : List Op) : Agree (run init ops) := p_agree_invariant ops

/-- no history makes the resolver panic -/
theorem C17_no_panic (ops : List Op) : (run init ops).dead = false := p_no_panic ops

/-- a certificate whose names `try_from` refuses leaves the resolver unchanged
    (add and replace alike; the old certificate of the replace stays) -/
theorem C17_rejected_add_unchanged (ops : List Op) (c : Cert) (old : Option Fp)
    (h : prepare c = none) :
    step (run init ops) (.add c) = (run init ops, .err) ∧
    step (run init ops) (.replace old c) = (run init ops, .err) :=
  p_rejected_add_unchanged ops c old h

-- ------------------------------------------------------------- resolve --

/-- **The selection is the argmax of a stated order over the loaded set.** For
    every history and server name `N`, `resolve` answers
    * a certificate `fp`: then a stored certificate `c` with that fingerprint
      covers `N` (`0 < spec c N`) and is maximal among *all* stored certificates
      for the order `RankLe N` (more specific name first — exact 2, wildcard 1,
      none 0 — then later expiration);
    * the default certificate: then no stored certificate covers `N`;
    * never `None`.
    The three cases are exclusive and exhaustive, so this determines the answer
    up to ties (`C17_resolve_spec_unique`). -/
theorem C17_resolve_spec (re : Bytes → Bytes → Bool) (ops : List Op) (N : Bytes) (hN : GoodHost N) :
    ResolveSpec (run init ops) N (resolve re (run init ops) (some N)) :=
  p_resolve_spec re ops N hN

/-- the specification never allows both a certificate and the default, and two
    certificates it allows have the same specificity and the same expiration -/
theorem C17_resolve_spec_unique (s : State) (N : Bytes) (fp1 fp2 : Fp) :
    (ResolveSpec s N (.cert fp1) → ¬ ResolveSpec s N .default) ∧
    (ResolveSpec s N (.cert fp1) → ResolveSpec s N (.cert fp2) →
      ∃ c1 c2, Stored s c1 ∧ Stored s c2 ∧ c1.fp = fp1 ∧ c2.fp = fp2 ∧
        spec c1 N = spec c2 N ∧ c1.exp = c2.exp) :=
  p_resolve_spec_unique s N fp1 fp2

/-- **Soundness of the served certificate** (the same, spelled out): stored,
    covers `N`, exact name before wildcard, longest-lived among equals. -/
theorem C17_resolve_sound (re : Bytes → Bytes → Bool) (ops : List Op)
    (N : Bytes) (hN : GoodHost N) (fp : Fp) (hr : resolve re (run init ops) (some N) = .cert fp) :
    ∃ c, Stored (run init ops) c ∧ c.fp = fp ∧ CertCovers c N ∧
      ((N ∈ c.names ∧ ∀ c', Stored (run init ops) c' → N ∈ c'.names → c'.exp ≤ c.exp) ∨
       ((∀ c', Stored (run init ops) c' → N ∉ c'.names) ∧ wildOf N ∈ c.names ∧
          ∀ c', Stored (run init ops) c' → wildOf N ∈ c'.names → c'.exp ≤ c.exp)) :=
  p_resolve_sound re ops N hN fp hr

/-- `resolve` never answers `None` for a server name (no dangling fingerprint) -/
theorem C17_resolve_never_dangling (re : Bytes → Bytes → Bool) (ops : List Op)
    (N : Bytes) (hN : GoodHost N) : resolve re (run init ops) (some N) ≠ .nothing :=
  p_resolve_never_dangling re ops N hN

/-- **Default certificate only when nothing covers.** -/
theorem C17_default_only_if_uncovered (re : Bytes → Bytes → Bool) (ops : List Op)
    (N : Bytes) (hN : GoodHost N) :
    resolve re (run init ops) (some N) = .default ↔
      ¬ ∃ c, Stored (run init ops) c ∧ CertCovers c N :=
  p_default_only_if_uncovered re ops N hN

-- -------------------------------------------------------------- removal --

/-- **A removed certificate is never served again**: after `remove fp`, and for
    as long as no later op loads that fingerprint again, no server name at all
    (no restriction on `N`) is answered with it. -/
theorem C17_removed_never_served (re : Bytes → Bytes → Bool) (ops1 ops2 : List Op) (fp : Fp)
    (hn : ∀ op ∈ ops2, ¬ AddsFp fp op) (N : Bytes) :
    resolve re (run init (ops1 ++ [Op.remove fp] ++ ops2)) (some N) ≠ .cert fp :=
  p_removed_never_served re ops1 ops2 fp hn N

-- ------------------------------------------------------------- replace --

/-- **Replacing never opens a gap (between the two steps).** In the state
    between `add new` and `remove old` a server name that was answered with a
    stored certificate before still is. -/
theorem C17_replace_no_gap (re : Bytes → Bytes → Bool) (ops : List Op)
    (c0 c : Cert) (hp : prepare c0 = some c) (N : Bytes) (hN : GoodHost N)
    (hbefore : Covered re (run init ops) N) : Covered re (add (run init ops) c) N :=
  p_replace_no_gap re ops c0 c hp N hN hbefore

/-- **Replacing never opens a gap (name by name).** In *every* state the resolver
    goes through inside one `replace_certificate` the trie still finds a
    fingerprint for every server name covered before and after the replace. -/
theorem C17_replace_no_gap_stepwise (re : Bytes → Bytes → Bool) (ops : List Op)
    (old : Option Fp) (c0 c : Cert) (hp : prepare c0 = some c)
    (N : Bytes) (hN : GoodHost N)
    (hbefore : TrieCovered re (run init ops) N)
    (hafter : TrieCovered re (replace (run init ops) old c) N) :
    ∀ s' ∈ replaceTrace (run init ops) old c, TrieCovered re s' N :=
  p_replace_no_gap_stepwise re ops old c0 c hp N hN hbefore hafter

/-- **… and what it finds is right, in every internal state**: under a key that
    covers the name (`N` or `wildOf N`), the fingerprint of the certificate being
    added or of a certificate that is in the store at that very moment (never a
    removed or unknown one). -/
theorem C17_replace_no_gap_sound (re : Bytes → Bytes → Bool) (ops : List Op)
    (old : Option Fp) (c0 c : Cert) (hp : prepare c0 = some c)
    (N : Bytes) (hN : GoodHost N)
    (hbefore : TrieCovered re (run init ops) N)
    (hafter : TrieCovered re (replace (run init ops) old c) N) :
    ∀ s' ∈ replaceTrace (run init ops) old c,
      ∃ kv, domainLookup re s' N true = some kv ∧ Covers kv.1 N ∧
        (kv.2 = c.fp ∨ KMap.contains s'.certs kv.2 = true) :=
  p_replace_no_gap_sound re ops old c0 c hp N hN hbefore hafter

-- ---------------------------------------------------------- strict SNI --

/-- **The certificate-name predicate is exactly RFC 6125 coverage** (`SniCovers`):
    single non-empty left-most label, no apex, no embedded `*`, port and one
    trailing dot stripped, ASCII case folded. -/
theorem C17_strict_sni_iff (authority : Bytes) (names : List Bytes) :
    (matchedCertName authority names).isSome = true ↔
      hostOf authority ≠ [] ∧ ∃ e ∈ names, SniCovers e (hostOf authority) :=
  p_strict_sni_iff authority names

/-- a wildcard name never covers its own apex -/
theorem C17_strict_sni_no_apex (suf h : Bytes) (hh : lower h = lower suf) :
    ¬ SniCovers (STAR :: DOT :: suf) h := p_strict_sni_no_apex suf h hh

/-- a wildcard name covers exactly one extra label -/
theorem C17_strict_sni_one_label (suf h : Bytes) (hc : SniCovers (STAR :: DOT :: suf) h) :
    h.count DOT = suf.count DOT + 1 := p_strict_sni_one_label suf h hc

/-- the name returned is one of the snapshot and covers the host -/
theorem C17_strict_sni_matched (authority : Bytes) (names : List Bytes) (e : Bytes)
    (h : matchedCertName authority names = some e) : e ∈ names ∧ SniCovers e (hostOf authority) :=
  p_strict_sni_matched authority names e h

/-- the legacy predicate: host (port stripped) = SNI up to ASCII case of the authority -/
theorem C17_strict_sni_exact (authority sni : Bytes) :
    matchesSni authority sni = true ↔ lower (stripPort authority) = sni :=
  p_strict_sni_exact authority sni

/-- **The strict-SNI gate composed with `resolve`, for every history, without
    any hypothesis on what was served.** A request let through to routing on a
    connection with SNI `N` either carries an authority covered (RFC 6125) by a
    name of exactly the certificate `resolve` served for `N`, or — the only
    other case — no loaded certificate covers `N`, the default certificate was
    served and the authority equals the SNI (known finding F79, see
    `C17_strict_sni_counterexample`). -/
theorem C17_strict_sni (re : Bytes → Bytes → Bool) (ops : List Op) (N : Bytes) (hN : GoodHost N)
    (authority : Bytes)
    (hallow : routeAllowed true (some N) (snapshot re (run init ops) (some N)) authority = true) :
    (∃ c, Stored (run init ops) c ∧ resolve re (run init ops) (some N) = .cert c.fp ∧ CertCovers c N ∧
        ∃ name ∈ c.names, SniCovers (normName name) (hostOf authority)) ∨
    (resolve re (run init ops) (some N) = .default ∧
        (¬ ∃ c, Stored (run init ops) c ∧ CertCovers c N) ∧ lower (stripPort authority) = N) :=
  p_strict_sni re ops N hN authority hallow

/-- the property as stated ("routed ⇒ covered by the served certificate"), under
    the hypothesis that a loaded certificate was served (`_partial`: excludes the
    default-certificate connections of the counterexample below) -/
theorem C17_strict_sni_partial (re : Bytes → Bytes → Bool) (ops : List Op)
    (N : Bytes) (hN : GoodHost N) (ns : List Bytes)
    (hsnap : snapshot re (run init ops) (some N) = some ns) (authority : Bytes)
    (hallow : routeAllowed true (some N) (some ns) authority = true) :
    ∃ c, Stored (run init ops) c ∧ resolve re (run init ops) (some N) = .cert c.fp ∧ CertCovers c N ∧
      ∃ name ∈ c.names, SniCovers (normName name) (hostOf authority) :=
  p_strict_sni_partial re ops N hN ns hsnap authority hallow

/-- on a default-certificate connection the gate is "authority = SNI" -/
theorem C17_strict_sni_default_path (sni authority : Bytes) :
    routeAllowed true (some sni) none authority = true ↔ lower (stripPort authority) = sni :=
  p_strict_sni_default_path sni authority

/-- **Counterexample to "routed ⇒ covered by the served certificate"** (F79): with
    an empty resolver a handshake for `nocert.test` is served the default
    certificate and the request with authority `nocert.test` is let through. -/
theorem C17_strict_sni_counterexample :
    let N : Bytes := [110,111,99,101,114,116,46,116,101,115,116]
    resolve (fun _ _ => false) init (some N) = .default ∧
      snapshot (fun _ _ => false) init (some N) = none ∧
      routeAllowed true (some N) (snapshot (fun _ _ => false) init (some N)) N = true :=
  p_strict_sni_counterexample

-- -------------------------------- chain, missing SNI, coalesced streams --

/-- **The certificate presented is the loaded leaf, followed by its chain.** The
    chain rustls presents for a certificate added with `certificate_chain`
    entries is the leaf first, then the certificates of the entries in order,
    the leaf itself never repeated (`fullchain.pem`), nothing else. -/
theorem C17_chain_shape (leaf : Nat) (links : List Link) (c : List Nat)
    (h : assembleChain leaf links = some c) :
    c = leaf :: (linkIds links).filter (· ≠ leaf) ∧ c.head? = some leaf ∧ leaf ∉ c.tail ∧
      (∀ x, x ∈ c ↔ x = leaf ∨ x ∈ linkIds links) := p_chain_shape leaf links c h

/-- the certificate is refused exactly when a chain block does not parse -/
theorem C17_chain_refused_iff (leaf : Nat) (links : List Link) :
    assembleChain leaf links = none ↔ Link.bad ∈ links := p_chain_refused_iff leaf links

/-- a ClientHello without server name is never answered with a certificate (not
    even the default one): `resolve` returns `None`, the handshake fails -/
theorem C17_no_sni_no_certificate (re : Bytes → Bytes → Bool) (s : State) :
    resolve re s none = .nothing := p_no_sni_no_certificate re s

/-- **Connection coalescing**: the SAN snapshot is taken once per connection, so
    `C17_strict_sni` holds for every stream of an HTTP/2 connection with SNI `N`,
    whatever other authorities the connection carries. -/
theorem C17_strict_sni_streams (re : Bytes → Bytes → Bool) (ops : List Op) (N : Bytes) (hN : GoodHost N)
    (authorities : List Bytes) :
    ∀ a ∈ authorities,
      routeAllowed true (some N) (snapshot re (run init ops) (some N)) a = true →
      (∃ c, Stored (run init ops) c ∧ resolve re (run init ops) (some N) = .cert c.fp ∧ CertCovers c N ∧
          ∃ name ∈ c.names, SniCovers (normName name) (hostOf a)) ∨
      (resolve re (run init ops) (some N) = .default ∧
          (¬ ∃ c, Stored (run init ops) c ∧ CertCovers c N) ∧ lower (stripPort a) = N) :=
  p_strict_sni_streams re ops N hN authorities

/-- the gate is a per-listener policy: with `strict_sni_binding = false`, and on
    connections without SNI (plaintext listeners), nothing is refused -/
theorem C17_gate_scope (sni : Option Bytes) (names : Option (List Bytes)) (a : Bytes) :
    routeAllowed false sni names a = true ∧ routeAllowed true none names a = true :=
  p_gate_scope sni names a

example : assembleChain 1 [.cert 1, .cert 2, .cert 1, .cert 3] = some [1, 2, 3] ∧
    assembleChain 4 [.cert 5, .bad] = none ∧ assembleChain 5 [] = some [5] := by decide

-- ------------------------------------------- C07 on the certificate store --

/-- **C07 (worker certificate store): a command answered with an error leaves no
    trace.** For *every* resolver state (reachable or not, no invariant needed)
    and every add / remove / replace command: if the answer is an error the state
    is exactly the state before. Covers all error branches that exist
    (`C07_resolver_error_iff`): unparsable PEM / key, names refused by `try_from`
    (add and replace alike — before anything is touched, so the old certificate of
    a replace stays), a fingerprint text that is not hex. `replace` with a
    well-formed but absent old fingerprint is answered Ok by the code and by the
    model (the new certificate is added, nothing is removed). -/
theorem C07_resolver_error_is_noop (s : State) (op : Op) (h : (step s op).2 = Out.err) :
    (step s op).1 = s := p_resolver_error_is_noop s op h

/-- the error branches of the resolver commands, exactly -/
theorem C07_resolver_error_iff (s : State) (op : Op) (hd : s.dead = false) :
    (step s op).2 = Out.err ↔
      (match op with
        | .add c => prepare c = none
        | .replace _ c => prepare c = none
        | .addInvalid => True
        | .removeInvalid => True
        | .replaceInvalid _ => True
        | .remove _ => False) := p_resolver_error_iff s op hd

/-- **… and whatever the answer, a command touches only the certificates it
    names**: the store entry of every other fingerprint is unchanged. -/
theorem C07_resolver_touches_only_named (s : State) (op : Op) (fp : Fp) (h : ¬ Touches fp op) :
    KMap.get? (step s op).1.certs fp = KMap.get? s.certs fp :=
  p_resolver_touches_only_named s op fp h

-- non-vacuity: a replace that fails late in the command (refused name after a valid one, old
-- certificate loaded and serving) is answered with an error; an absent old fingerprint is not an error
example :
    let www : Bytes := [119,119,119,46,101,120,97,109,112,108,101,46,111,114,103]
    let s := run init [.add ⟨1, [www], 10⟩]
    (step s (.replace (some 1) ⟨2, [www, [46,120]], 20⟩)).2 = .err ∧
    (step s (.replace (some 7) ⟨2, [www], 20⟩)).2 = .fp 2 ∧
    (step s .removeInvalid).2 = .err ∧ (step s (.remove 9)).2 = .ok := by decide
example : ¬ Touches 1 (.replace (some 7) ⟨2, [], 20⟩) ∧ Touches 7 (.replace (some 7) ⟨2, [], 20⟩) := by
  simp [Touches]

-- ------------------------------------------------- regression examples --

-- formerly `C17_bad_name_panics` (finding certificate-name-panics-worker, fixed in /repo 8d9b64c):
-- a leading dot or a `/` segment used to panic `TrieNode::insert`; such a certificate is now
-- refused and the resolver is untouched; `""` is refused too.
example :
    (step init (.add ⟨1, [[46,101,120,97,109,112,108,101,46,111,114,103]], 10⟩)).2 = .err ∧
    (step init (.add ⟨1, [[114,101,47]], 10⟩)).2 = .err ∧
    (step init (.add ⟨1, [[]], 10⟩)).2 = .err ∧
    (run init [.add ⟨1, [[46,101,120,97,109,112,108,101,46,111,114,103]], 10⟩,
               .add ⟨1, [[114,101,47]], 10⟩]).dead = false := by
  decide

-- formerly `C17_variant_name_counterexample` (finding variant-name-not-served, fixed in /repo
-- 2039ba1): "WWW.example.org" and "www.example.org." are stored as "www.example.org" and served.
example :
    let www : Bytes := [119,119,119,46,101,120,97,109,112,108,101,46,111,114,103]
    resolve (fun _ _ => false)
      (run init [.add ⟨1, [[87,87,87,46,101,120,97,109,112,108,101,46,111,114,103]], 10⟩])
      (some www) = .cert 1 ∧
    resolve (fun _ _ => false) (run init [.add ⟨2, [www ++ [46]], 10⟩]) (some www) = .cert 2 := by
  decide

-- --------------------------------------------------------- non-vacuity --

section Examples

def nWww : Bytes := [119,119,119,46,101,120,97,109,112,108,101,46,111,114,103]
def nApex : Bytes := [101,120,97,109,112,108,101,46,111,114,103]
def nWild : Bytes := [42,46,101,120,97,109,112,108,101,46,111,114,103]
def nTest : Bytes := [116,101,115,116,46,101,120,97,109,112,108,101,46,111,114,103]
def nDeep : Bytes := [97,46,98,46,101,120,97,109,112,108,101,46,111,114,103]

def cWild : Cert := ⟨1, [nWild], 100⟩
def cWww : Cert := ⟨2, [nWww, nApex], 200⟩
def cWww2 : Cert := ⟨3, [nWww], 300⟩
def cWildNew : Cert := ⟨4, [nWild], 50⟩

def noRe : Bytes → Bytes → Bool := fun _ _ => false

def hist : List Op := [.add cWild, .add cWww, .add cWww2, .remove 3, .replace (some 1) cWildNew]

example : prepare cWild = some cWild ∧ prepare cWww = some cWww := by decide

example : wildOf nTest = nWild := by decide
example : GoodHost nTest ∧ GoodName nWild := by decide

-- the hypotheses of C17_resolve_sound are met by a history with overlapping exact / wildcard names,
-- a longer-lived duplicate, a removal and a replace; every branch of the conclusion occurs:
example : resolve noRe (run init hist) (some nWww) = .cert 2 := by decide            -- exact beats wildcard
example : resolve noRe (run init hist) (some nTest) = .cert 4 := by decide           -- wildcard, replaced
example : resolve noRe (run init hist) (some nApex) = .cert 2 := by decide           -- apex only by its exact name
example : resolve noRe (run init hist) (some nDeep) = .default := by decide          -- one label only
example : resolve noRe (run init [.add cWild, .add cWww, .add cWww2]) (some nWww) = .cert 3 := by decide  -- longest-lived
example : resolve noRe (run init [.add cWild]) (some nApex) = .default := by decide  -- no apex match
-- C17_removed_never_served: 3 was served, is removed, is not served
example : resolve noRe (run init [.add cWild, .add cWww, .add cWww2, .remove 3]) (some nWww) = .cert 2 := by decide
-- C17_replace_no_gap: the trace of the replace has 6 states, all cover test.example.org
example : (replaceTrace (run init [.add cWild, .add cWww]) (some 1) cWildNew).length = 6 := by decide
example : ∀ s' ∈ replaceTrace (run init [.add cWild, .add cWww]) (some 1) cWildNew,
    TrieCovered noRe s' nTest := by decide
example : Covered noRe (run init [.add cWild, .add cWww]) nTest := ⟨1, by decide⟩
example : Covered noRe (add (run init [.add cWild, .add cWww]) cWildNew) nTest := ⟨1, by decide⟩
-- C17_strict_sni: accepted and rejected authorities on a wildcard connection
example : routeAllowed true (some nTest) (snapshot noRe (run init hist) (some nTest))
    [84,101,115,116,46,69,120,97,109,112,108,101,46,79,82,71,58,52,52,51] = true := by decide   -- "Test.Example.ORG:443"
example : routeAllowed true (some nTest) (snapshot noRe (run init hist) (some nTest)) nApex = false := by decide
example : routeAllowed true (some nTest) (snapshot noRe (run init hist) (some nTest)) nDeep = false := by decide
example : matchedCertName [102,111,111,46,101,120,97,109,112,108,101,46,111,114,103]
    [[102,42,46,101,120,97,109,112,108,101,46,111,114,103]] = none := by decide                   -- "f*.example.org"


-- C17_resolve_spec: both kinds of maximum occur (exact over wildcard; longest-lived among equals),
-- C17_rejected_add_unchanged / C17_no_panic: a refused certificate,
-- C17_replace_no_gap_sound: the six internal states of a replace,
-- C17_strict_sni: both disjuncts occur.
example : spec cWww nWww = 2 ∧ spec cWild nWww = 1 ∧ spec cWild nApex = 0 := by decide
example : RankLe nWww cWild cWww ∧ RankLe nWww cWww cWww2 ∧ ¬ RankLe nWww cWww2 cWww := by decide
example : prepare ⟨9, [[46,101,120,97,109,112,108,101,46,111,114,103]], 1⟩ = none := by decide
example : ∀ s' ∈ replaceTrace (run init [.add cWild, .add cWww]) (some 1) cWildNew,
    ∃ kv, domainLookup noRe s' nTest true = some kv ∧ kv.1 = nWild ∧
      (kv.2 = 4 ∨ KMap.contains s'.certs kv.2 = true) := by decide
example : routeAllowed true (some nTest) (snapshot noRe (run init hist) (some nTest)) nWww = true ∧
    resolve noRe (run init hist) (some nTest) = .cert 4 := by decide
example : routeAllowed true (some nDeep) (snapshot noRe (run init hist) (some nDeep)) nDeep = true ∧
    resolve noRe (run init hist) (some nDeep) = .default := by decide
example : AddsFp 3 (.add cWww2) ∧ ¬ AddsFp 3 (.remove 3) := by decide
example : SniCovers nWild nTest := Or.inr ⟨nApex, [116,101,115,116], nApex, rfl, by decide, rfl, by decide, by decide, rfl⟩
example : matchesSni [84,101,115,116,46,69,120,97,109,112,108,101,46,79,82,71,58,52,52,51] nTest = true := by decide

end Examples

end Sozu.Tls
