import Sozu.Trie.Model
/-
Model of the TLS certificate resolver `sozu_lib::tls::CertificateResolver`
(lib/src/tls.rs) and of the strict SNI binding predicates
`authority_matches_sni` / `authority_matched_cert_name`
(lib/src/protocol/mux/router.rs), transcribed branch for branch.

* a fingerprint is an opaque id (`Nat`) standing for the *decoded bytes* (the
  hex text a command carries (`old_fingerprint`, `RemoveCertificate.fingerprint`)
  is decoded by `hex::decode`, which accepts either case, so case variants of
  the text are the same id); in the code it is the SHA-256 of the leaf DER,
  a function of the certificate bytes only -- overriding `names` / `expired_at`
  does not change it);
* a certificate is `(fingerprint, names, expiration)` -- the rustls
  `CertifiedKey` payload plays no part in the selection;
* `domains` is the shared pattern-trie model (`Sozu.Trie.Model`), the `regex`
  crate is the parameter `re` of the lookups;
* `CertifiedKeyWrapper::try_from` lower-cases the names, strips one trailing
  dot and refuses names the trie cannot hold (`prepare`);
* a panic of the code (`assert_ne!(insert_result, Failed)` in
  `TrieNode::insert`, `assert_ne!(partial_key, b"")` in `insert_recursive`) sets
  `dead` (unreachable since the validation, see `C17_no_panic`).

Import-free apart from the trie model so the driver links as an executable.
-/
namespace Sozu.Tls
open Sozu Sozu.Trie

abbrev Fp := Nat

structure Cert where
  fp : Fp
  /-- `CertifiedKeyWrapper::names` (overriding names or CN/SAN) in `Vec` order -/
  names : List Bytes
  /-- `expired_at` override or the x509 `not_after` -/
  exp : Int
deriving DecidableEq, Repr

/-- `CertificateResolver` -/
structure State where
  domains : Node Fp
  certs : KMap Fp Cert
  idx : KMap Bytes (List (Fp × Int))
  /-- the real code panicked (the worker thread is gone) -/
  dead : Bool

def init : State := { domains := Node.root, certs := [], idx := [], dead := false }

-- ------------------------------------- names of a parsed certificate --

def asciiLower (b : Nat) : Nat := if 65 ≤ b ∧ b ≤ 90 then b + 32 else b
def lower (s : Bytes) : Bytes := s.map asciiLower

/-- `CertifiedKeyWrapper::try_from`: `make_ascii_lowercase`, then one trailing
    dot is popped when the name is longer than one byte -/
def normCertName (n : Bytes) : Bytes :=
  let l := lower n
  if l.length > 1 ∧ l.getLast? = some DOT then l.dropLast else l

/-- `try_from` refuses (`InvalidName`) a name that is empty, starts with `.`
    or contains `/` (checked on the normalised names) -/
def validCertName (n : Bytes) : Bool := !(n.isEmpty || n.head? == some DOT || n.contains SLASH)

/-- the certificate as `try_from` builds it from the (overriding or CN/SAN)
    names of the request; `none` = `Err(InvalidName)` -/
def prepare (c : Cert) : Option Cert :=
  let ns := c.names.map normCertName
  if ns.all validCertName then some { c with names := ns } else none

-- ------------------------------------------------------------- sorting --

/-- insert `x` behind every entry that does not expire later -/
def insertByExp (x : Fp × Int) : List (Fp × Int) → List (Fp × Int)
  | [] => [x]
  | y :: ys => if y.2 ≤ x.2 then y :: insertByExp x ys else x :: y :: ys

/-- `sort_by_key(|t| t.1)`: stable, ascending expiration -/
def sortByExp (l : List (Fp × Int)) : List (Fp × Int) :=
  l.foldl (fun acc x => insertByExp x acc) []

/-- `name_fingerprint_idx.get(name)` (a missing entry behaves as the empty list) -/
def idxGet (s : State) (n : Bytes) : List (Fp × Int) := (KMap.get? s.idx n).getD []

/-- `TrieNode::insert` as seen by the resolver: `""` and `"."` return `Failed`
    without a panic, every other `Failed` is the `assert_ne!` panic. -/
def trieInsert (t : Node Fp) (name : Bytes) (v : Fp) : Node Fp × Bool :=
  let r := Trie.insert t name v
  if name = [] || name = [DOT] then (r.2, false)
  else if r.1 = InsertResult.failed then (r.2, true)
  else (r.2, false)

-- --------------------------------------------------- the chain presented --

/-- One block of the `certificate_chain` entries of an `AddCertificate`, after
    `split_certificate_chain`: a certificate (by id), or a block that carries the
    PEM markers but does not parse (`ParsePem` error). Text without an
    `END CERTIFICATE` marker yields no block at all. -/
inductive Link
  | cert (id : Nat)
  | bad
deriving DecidableEq, Repr

/-- `CertifiedKeyWrapper::try_from`, chain assembly: the leaf at index 0, then the
    blocks of the chain entries in order, dropping every block that is the leaf
    itself (the `fullchain.pem` shape); `none` = a block does not parse, the whole
    certificate is refused. This is what rustls presents for the certificate. -/
def keepLink (leaf : Nat) : Link → Option Nat
  | .cert i => if i = leaf then none else some i
  | .bad => none

def assembleChain (leaf : Nat) (links : List Link) : Option (List Nat) :=
  if links.any (· == Link.bad) then none
  else some (leaf :: links.filterMap (keepLink leaf))

-- ----------------------------------------------------------------- add --

/-- one iteration of the `for new_name in &cert_to_add.names` loop of
    `add_certificate` -/
def addName (fp : Fp) (e : Int) (s : State) (name : Bytes) : State :=
  let l := sortByExp (idxGet s name ++ [(fp, e)])
  let idx' := KMap.set s.idx name l
  match l.getLast? with
  | none => { s with idx := idx' }
  | some last =>
    let t1 := (Trie.remove s.domains name).2
    let r := trieInsert t1 name last.1
    { s with idx := idx', domains := r.1, dead := s.dead || r.2 }

/-- `add_certificate` once `try_from` has built `c` (see `prepare`). -/
def add (s : State) (c : Cert) : State :=
  if KMap.contains s.certs c.fp then s
  else
    let s' := c.names.foldl (addName c.fp c.exp) s
    { s' with certs := KMap.set s'.certs c.fp c }

-- -------------------------------------------------------------- remove --

/-- one iteration of the `for name in certificate_to_remove.names` loop of
    `remove_certificate` -/
def removeName (fp : Fp) (s : State) (name : Bytes) : State :=
  let t1 := (Trie.remove s.domains name).2
  match KMap.get? s.idx name with
  | none => { s with domains := t1 }
  | some l =>
    let l' := l.filter (fun t => t.1 ≠ fp)
    let r := match l'.getLast? with
      | some last => trieInsert t1 name last.1
      | none => (t1, false)
    let idx' := if l'.isEmpty then KMap.erase s.idx name else KMap.set s.idx name l'
    { s with domains := r.1, idx := idx', dead := s.dead || r.2 }

/-- `remove_certificate` -/
def remove (s : State) (fp : Fp) : State :=
  match KMap.get? s.certs fp with
  | none => s
  | some c =>
    let s' := c.names.foldl (removeName fp) s
    { s' with certs := KMap.erase s'.certs fp }

-- ------------------------------------------------------------- replace --

/-- `replace_certificate`; `old = none` is an `old_fingerprint` string that does
    not parse as hex (the new certificate is added, nothing is removed). -/
def replace (s : State) (old : Option Fp) (c : Cert) : State :=
  if old = some c.fp then s
  else
    let s1 := add s c
    match old with
    | some o => remove s1 o
    | none => s1

-- ------------------------------------------------------------- queries --

section
variable (re : Bytes → Bytes → Bool)

/-- `CertificateResolver::domain_lookup` -/
def domainLookup (s : State) (host : Bytes) (acceptWc : Bool) : Option (Bytes × Fp) :=
  Trie.domainLookup re s.domains host acceptWc

/-- `CertificateResolver::names_for_sni` -/
def namesForSni (s : State) (host : Bytes) : Option (List Bytes) :=
  match domainLookup re s host true with
  | none => none
  | some kv => (KMap.get? s.certs kv.2).map (·.names)

/-- what `ResolvesServerCert::resolve` hands to rustls -/
inductive Served
  /-- the stored certificate with this fingerprint -/
  | cert (fp : Fp)
  /-- `DEFAULT_CERTIFICATE` -/
  | default
  /-- `None`: no SNI, or the trie names a fingerprint that is not stored -/
  | nothing
deriving DecidableEq, Repr

/-- `MutexCertificateResolver::resolve` (lock poisoning not modelled) -/
def resolve (s : State) (sni : Option Bytes) : Served :=
  match sni with
  | none => .nothing
  | some name =>
    match domainLookup re s name true with
    | some kv => if KMap.contains s.certs kv.2 then .cert kv.2 else .nothing
    | none => .default

end

-- ------------------------------------------------------------ the ops --

inductive Op
  /-- `c.names` are the names of the request (overriding names, or the CN/SAN of
      the certificate), before `try_from` normalises and validates them -/
  | add (c : Cert)
  /-- an `AddCertificate` whose PEM / key does not parse -/
  | addInvalid
  | remove (fp : Fp)
  /-- a `RemoveCertificate` whose fingerprint is not hex (`HttpsProxy::remove_certificate`
      answers `WrongCertificateFingerprint` before reaching the resolver) -/
  | removeInvalid
  | replace (old : Option Fp) (c : Cert)
  /-- a `ReplaceCertificate` whose new PEM / key does not parse -/
  | replaceInvalid (old : Option Fp)
deriving Repr

inductive Out
  | fp (fp : Fp)
  | ok
  | err
  | dead
deriving DecidableEq, Repr

def step (s : State) (op : Op) : State × Out :=
  if s.dead then (s, .dead)
  else
    let r : State × Out := match op with
      | .add c =>
        match prepare c with
        | some c' => (add s c', .fp c'.fp)
        | none => (s, .err)
      | .addInvalid => (s, .err)
      | .remove fp => (remove s fp, .ok)
      | .removeInvalid => (s, .err)
      | .replace old c =>
        match prepare c with
        | some c' => (replace s old c', .fp c'.fp)
        | none => (s, .err)
      | .replaceInvalid _ => (s, .err)
    if r.1.dead then (r.1, .dead) else r

def run (s : State) (ops : List Op) : State := ops.foldl (fun s op => (step s op).1) s

/-- every state the resolver goes through inside one `replace_certificate`,
    name by name: the states of the `add_certificate` loop, the state after the
    store insert, the states of the `remove_certificate` loop, the final state. -/
def addTrace (s : State) (c : Cert) : List State :=
  if KMap.contains s.certs c.fp then [s]
  else
    let ss := c.names.scanl (addName c.fp c.exp) s
    ss ++ [add s c]

def removeTrace (s : State) (fp : Fp) : List State :=
  match KMap.get? s.certs fp with
  | none => [s]
  | some c => c.names.scanl (removeName fp) s ++ [remove s fp]

def replaceTrace (s : State) (old : Option Fp) (c : Cert) : List State :=
  if old = some c.fp then [s]
  else
    match old with
    | some o => addTrace s c ++ removeTrace (add s c) o
    | none => addTrace s c

-- ------------------------------------------- strict SNI binding (router) --

def COLON : Nat := 58

def isDigit (b : Nat) : Bool := decide (48 ≤ b ∧ b ≤ 57)

/-- `str::split_once(c)` -/
def splitOnce (s : Bytes) (c : Nat) : Option (Bytes × Bytes) :=
  match s.dropWhile (· ≠ c) with
  | [] => none
  | _ :: b => some (s.takeWhile (· ≠ c), b)

/-- `str::rsplit_once(c)` -/
def rsplitOnce (s : Bytes) (c : Nat) : Option (Bytes × Bytes) :=
  match s.reverse.dropWhile (· ≠ c) with
  | [] => none
  | _ :: a => some (a.reverse, (s.reverse.takeWhile (· ≠ c)).reverse)

/-- `strip_authority_port` -/
def stripPort (a : Bytes) : Bytes :=
  match rsplitOnce a COLON with
  | some (h, port) => if !port.isEmpty && port.all isDigit then h else a
  | none => a

/-- `authority_matches_sni` -/
def matchesSni (authority sni : Bytes) : Bool :=
  let host := stripPort authority
  if host.length ≠ sni.length then false
  else (host.zip sni).all (fun p => asciiLower p.1 = p.2)

/-- `str::eq_ignore_ascii_case` -/
def eqIgnoreCase (x y : Bytes) : Bool := decide (lower x = lower y)

/-- `str::strip_prefix("*.")` -/
def stripStarDot : Bytes → Option Bytes
  | a :: b :: rest => if a = STAR ∧ b = DOT then some rest else none
  | _ => none

/-- the authority's host as `authority_matched_cert_name` compares it: port
    stripped, one trailing dot stripped -/
def hostOf (authority : Bytes) : Bytes :=
  let h := stripPort authority
  if h.getLast? = some DOT then h.dropLast else h

/-- the body of the `for entry in names` loop: `true` = `return Some(entry)` -/
def entryMatches (host entry : Bytes) : Bool :=
  match stripStarDot entry with
  | some suffix =>
    if suffix.contains STAR then false
    else
      match splitOnce host DOT with
      | none => false
      | some (leftmost, rest) => !leftmost.isEmpty && eqIgnoreCase rest suffix
  | none =>
    if entry.contains STAR then false else eqIgnoreCase host entry

/-- `authority_matched_cert_name` -/
def matchedCertName (authority : Bytes) (names : List Bytes) : Option Bytes :=
  let host := hostOf authority
  if host.isEmpty then none else names.find? (entryMatches host)

/-- the normalisation `https.rs::upgrade_handshake` applies to the SNI and to
    every name of the snapshot: ASCII lower case, one trailing dot removed -/
def normName (n : Bytes) : Bytes :=
  let l := lower n
  if l.getLast? = some DOT then l.dropLast else l

/-- `Context.tls_cert_names` as computed at the end of the handshake (the code
    also sorts and dedups the snapshot; only membership matters to the
    predicate, see `C17_strict_sni_iff`) -/
def snapshot (re : Bytes → Bytes → Bool) (s : State) (sni : Option Bytes) : Option (List Bytes) :=
  match sni with
  | none => none
  | some n =>
    match namesForSni re s n with
    | none => none
    | some names => if names.isEmpty then none else some (names.map normName)

/-- the SNI/authority gate of `Router::route_from_request`: `true` = the
    request goes on to frontend lookup, `false` = `SniAuthorityMismatch` (421) -/
def routeAllowed (strict : Bool) (sni : Option Bytes) (certNames : Option (List Bytes))
    (authority : Bytes) : Bool :=
  match sni with
  | none => true
  | some n =>
    if !strict then true
    else
      match certNames with
      | some ns => (matchedCertName authority ns).isSome
      | none => matchesSni authority n

end Sozu.Tls
