import Sozu.Answers.Lemmas
/-
C02 — "every received request gets exactly one well-formed answer".
Only the property theorems (`C02_*`) and their non-vacuity examples live here.
-/
set_option linter.unusedSimpArgs false
set_option linter.unusedVariables false
namespace Sozu.Answers
open Sozu

/-! ### the decision table -/

/-- `end_stream_decision`: the five outcomes partition the input space exactly
    as coded, over (main phase, terminated, keep_alive_backend, front consumed). -/
theorem C02_end_stream_decision_table (m t k c : Bool) :
    (endStreamDecision m t k c = .forwardTerminated ↔ (m = true ∧ t = true)) ∧
    (endStreamDecision m t k c = .closeDelimited ↔ (m = true ∧ t = false ∧ k = false)) ∧
    (endStreamDecision m t k c = .forwardUnterminated ↔ (m = true ∧ t = false ∧ k = true)) ∧
    (endStreamDecision m t k c = .sendDefault Consts.ansBackendClosedEarly ↔ (m = false ∧ c = true)) ∧
    (endStreamDecision m t k c = .reconnect ↔ (m = false ∧ c = false)) ∧
    (∀ n, endStreamDecision m t k c = .sendDefault n → n = 502) := by
  cases m <;> cases t <;> cases k <;> cases c <;> simp [endStreamDecision, Consts.ansBackendClosedEarly]

example : endStreamDecision true false false true = .closeDelimited := by decide
example : endStreamDecision false false true true = .sendDefault 502 := by decide
example : endStreamDecision false true false false = .reconnect := by decide

/-! ### cause → status -/

/-- each cause maps to the status the property names (literals re-extracted
    from the source on every run) -/
theorem C02_status_matches_cause :
    statusOf .noCluster = 404 ∧ statusOf .unauthorized = 401 ∧ statusOf .sniMismatch = 421 ∧
    statusOf .perIpLimit = 429 ∧ statusOf .noBackend = 503 ∧ statusOf .retriesExhausted = 503 ∧
    statusOf .maxBuffers = 503 ∧ statusOf .maxSessionsMemory = 503 ∧ statusOf .backendOther = 503 ∧
    statusOf .retrieveOther = 503 ∧ statusOf .tcpNotFound = 503 ∧ statusOf .linkTimeout = 503 ∧
    statusOf .backendClosedEarly = 502 ∧ statusOf .backendTimeout = 504 ∧
    statusOf .frontTimeoutLinked = 504 ∧ statusOf .clientTimeout = 408 ∧
    statusOf .hostParse = 400 ∧ statusOf .frontParse = 400 ∧
    statusOf (.redirect none) = 301 ∧ (∀ n, statusOf (.redirect (some n)) = n) := by
  refine ⟨by decide, by decide, by decide, by decide, by decide, by decide, by decide, by decide,
    by decide, by decide, by decide, by decide, by decide, by decide, by decide, by decide,
    by decide, by decide, by decide, fun n => rfl⟩

/-- every proxy-generated answer of every run carries the status of one cause of the table -/
theorem C02_default_status_from_table (cfg : Cfg) (es : List Ev) (n : Nat) (a : Bool)
    (h : (run cfg Stream.init es).outcome = some (.default n a)) : ∃ c, n = statusOf c := by
  have key : ∀ (es : List Ev) (s : Stream),
      (∀ n a, s.outcome = some (.default n a) → ∃ c, n = statusOf c) →
      ∀ n a, (run cfg s es).outcome = some (.default n a) → ∃ c, n = statusOf c := by
    intro es
    induction es with
    | nil => intro s hs; exact hs
    | cons e es ih =>
      intro s hs
      apply ih
      intro n a
      cases e with
      | reqParsed ok =>
        simp only [step]; split
        · split
          · exact hs n a
          · intro h; simp at h; exact ⟨_, h.1.symm⟩
        · exact hs n a
      | connect r =>
        simp only [step]; split
        · split
          · intro h; simp at h; exact ⟨_, h.1.symm⟩
          · cases r with
            | err c => intro h; simp [setDefault] at h; exact ⟨_, h.1.symm⟩
            | linked tok => exact hs n a
        · exact hs n a
      | reqForwarded => simp only [step]; split <;> exact hs n a
      | backHead bs cc nb => simp only [step]; split <;> exact hs n a
      | backData => simp only [step]; split <;> exact hs n a
      | backBodyEnd => simp only [step]; split <;> exact hs n a
      | backParseError =>
        simp only [step]; split
        · unfold serverEndStream; split
          · intro h; simp at h
          · split <;> (intro h; simp at h)
          · intro h; simp at h
          · intro h; simp at h; exact ⟨_, h.1.symm⟩
          · exact hs n a
        · exact hs n a
      | backEof =>
        simp only [step]; split
        · unfold terminateCloseDelimited; split <;> exact hs n a
        · exact hs n a
      | backHup =>
        simp only [step]; split
        · unfold serverEndStream; split
          · intro h; simp at h
          · split <;> (intro h; simp at h)
          · intro h; simp at h
          · intro h; simp at h; exact ⟨_, h.1.symm⟩
          · exact hs n a
        · exact hs n a
      | frontFlush =>
        simp only [step]; split
        · split
          · intro h; simp at h
          · exact hs n a
        · exact hs n a
      | timeoutFront may =>
        simp only [step]; split
        · split
          · exact hs n a
          · intro h; simp at h; exact ⟨_, h.1.symm⟩
        · intro h; simp at h; exact ⟨_, h.1.symm⟩
        · split
          · intro h; simp at h; exact ⟨_, h.1.symm⟩
          · split
            · split
              · intro h; simp at h
              · exact hs n a
            · split
              · exact hs n a
              · intro h; simp at h
        · exact hs n a
      | timeoutBack =>
        simp only [step]; split
        · split
          · exact hs n a
          · split
            · intro h; simp at h; exact ⟨_, h.1.symm⟩
            · intro h; simp at h
        · exact hs n a
  exact key es Stream.init (by simp [Stream.init]) n a h

example : (run {} Stream.init [.reqParsed true, .connect (.err .noCluster)]).outcome
    = some (.default 404 false) := by decide

/-! ### exactly one outcome -/

/-- For every event sequence `es` after which a request has been received
    (the stream is not an H2 slot that is still Idle):
    (a) *never two*: once the stream has an outcome no further event changes it;
    (b) an outcome exists exactly when the stream has left the live states;
    (c) *at least one*: after the client has taken what was pending and the
        frontend timer has fired, the request has its outcome. -/
theorem C02_exactly_one_outcome (cfg : Cfg) (es es' : List Ev)
    (hrecv : cfg.frontH2 = true → (run cfg Stream.init es).st ≠ .idle) :
    (∀ o, (run cfg Stream.init es).outcome = some o →
        (run cfg Stream.init (es ++ es')).outcome = some o) ∧
    ((run cfg Stream.init es).outcome.isSome ↔ (run cfg Stream.init es).st = .unlinked) ∧
    (run cfg Stream.init (es ++ [.frontFlush, .timeoutFront true])).outcome.isSome := by
  have hw : WF (run cfg Stream.init es) := wf_run cfg es _ wf_init
  refine ⟨?_, hw, ?_⟩
  · intro o ho
    have hu : (run cfg Stream.init es).st = .unlinked := hw.1 (by simp [ho])
    rw [run_append, (run_unlinked cfg es' _ hu).2, ho]
  · rw [run_append]
    generalize run cfg Stream.init es = s at hw hrecv
    by_cases hu : s.st = .unlinked
    · rw [(run_unlinked cfg _ s hu).2]; exact hw.2 hu
    · show (step cfg (step cfg s .frontFlush) (.timeoutFront true)).outcome.isSome = true
      rcases flush_cases cfg s with ⟨h1, h2, _⟩ | ⟨h1, h2, _⟩
      · rw [(step_unlinked cfg _ _ h1).2]; exact h2
      · apply front_timer_terminal
        · rw [h1]; exact hu
        · intro hc; rw [h1]; exact hrecv hc
        · exact h2

example : (run {} Stream.init ([.reqParsed true, .connect (.linked 1), .reqForwarded]
    ++ [.frontFlush, .timeoutFront true])).outcome = some (.default 504 false) := by decide

/-! ### bounded by the timers -/

/-- Every live state has an armed timer; the expiry of the frontend timer gives the
    request its outcome unless a complete (or broken) response is being delivered to
    a client that does not read; the expiry of the backend timer does so whenever
    the response is not complete yet. -/
theorem C02_bounded_by_timeouts (cfg : Cfg) (s : Stream) (hlive : s.st ≠ .unlinked)
    (hrecv : cfg.frontH2 = true → s.st ≠ .idle) :
    armed s ≠ [] ∧
    (delivering s = false →
        .timeoutFront true ∈ armed s ∧ (step cfg s (.timeoutFront true)).outcome.isSome) ∧
    (s.isLinked = true → s.phase = .initial ∨ s.phase = .body →
        .timeoutBack ∈ armed s ∧ (step cfg s .timeoutBack).outcome.isSome) ∧
    (delivering s = true → (run cfg s [.frontFlush, .timeoutFront true]).outcome.isSome) := by
  refine ⟨?_, ?_, ?_, ?_⟩
  · cases hst : s.st <;> simp_all [armed]
  · intro hd
    refine ⟨?_, front_timer_terminal cfg s hlive hrecv hd⟩
    cases hst : s.st <;> simp_all [armed]
  · intro hl hph
    obtain ⟨tok, ht⟩ := (isLinked_iff s).1 hl
    refine ⟨by simp [armed, ht], ?_⟩
    cases hb : s.backConsumed <;> rcases hph with h | h <;> simp [step, hl, h, hb]
  · intro _
    show (step cfg (step cfg s .frontFlush) (.timeoutFront true)).outcome.isSome = true
    rcases flush_cases cfg s with ⟨h1, h2, _⟩ | ⟨h1, h2, _⟩
    · rw [(step_unlinked cfg _ _ h1).2]; exact h2
    · apply front_timer_terminal
      · rw [h1]; exact hlive
      · intro hc; rw [h1]; exact hrecv hc
      · exact h2

example : armed (run {} Stream.init [.reqParsed true, .connect (.linked 1)])
    = [.timeoutFront true, .timeoutBack] := by decide

/-! ### isolation -/

/-- What concerns one stream leaves every other stream of the session untouched;
    what happens to one backend connection touches only the streams linked to it;
    no event adds or removes a stream. -/
theorem C02_isolation (cfg : Cfg) (m : Mux) :
    (∀ (i : Nat) (e : Ev) (j : Nat), j ≠ i → (Mux.step cfg m (.at i e)).streams[j]? = m.streams[j]?) ∧
    (∀ (tok j : Nat) (s : Stream), m.streams[j]? = some s → s.isLinkedTo tok = false →
        (Mux.step cfg m (.backendHup tok)).streams[j]? = some s ∧
        (Mux.step cfg m (.backendEof tok)).streams[j]? = some s ∧
        (Mux.step cfg m (.backendTimeout tok)).streams[j]? = some s) ∧
    (∀ ev, (Mux.step cfg m ev).streams.length = m.streams.length) := by
  refine ⟨?_, ?_, ?_⟩
  · intro i e j hji
    simp only [Mux.step, List.getElem?_modify]
    have : ¬ i = j := fun h => hji h.symm
    simp [this]
  · intro tok j s hj hl
    simp [Mux.step, List.getElem?_map, hj, hl]
  · intro ev
    cases ev <;> simp [Mux.step]

example :
    let m : Mux := { streams := [run {} Stream.init [.reqParsed true, .connect (.linked 1)],
                                 run {} Stream.init [.reqParsed true, .connect (.linked 2)]] }
    ((Mux.step {} m (.backendHup 1)).streams.map (·.st)) = [.link, .linked 2] := by decide

/-! ### never a truncated body presented as complete -/

/-- FULL STATEMENT WANTED: a response is completed by the end of the backend
    connection only when it has neither Content-Length nor chunked coding.
    PROVED PART: this holds for every run in which every response that announces
    `Connection: close` is close-delimited (`TameEv`); then a run that ends with
    "relayed, ended by EOF" has close-delimited framing — in particular a chunked
    response cut short is never completed (it is demoted to the error phase). -/
theorem C02_no_truncated_as_complete_partial (cfg : Cfg) (es : List Ev)
    (htame : ∀ e ∈ es, TameEv e) (bs : BodySize)
    (h : (run cfg Stream.init es).outcome = some (.relayed true bs)) :
    bs = .empty :=
  (kinv_run cfg es Stream.init htame kinv_init).k4 bs h

/-- The excluded point really fails in the model (as it does in the code, finding
    class `eof-completes-short-length-body-then-408`): `Content-Length` + `Connection: close`, the backend closes mid-body,
    `terminate_close_delimited` marks the short body Terminated and
    `end_stream_decision` forwards it as a complete response. -/
theorem C02_no_truncated_as_complete_counterexample :
    (run {} Stream.init [.reqParsed true, .connect (.linked 1), .reqForwarded,
        .backHead .length true false, .backEof, .backHup]).outcome
      = some (.relayed true .length) ∧
    ¬ TameEv (.backHead .length true false) := by
  constructor
  · decide
  · simp [TameEv]

example : (∀ e ∈ [Ev.reqParsed true, .connect (.linked 1), .reqForwarded,
    .backHead .empty true false, .backEof, .backHup], TameEv e) ∧
    (run {} Stream.init [.reqParsed true, .connect (.linked 1), .reqForwarded,
      .backHead .empty true false, .backEof, .backHup]).outcome = some (.relayed true .empty) := by
  constructor
  · intro e he; simp at he; rcases he with rfl | rfl | rfl | rfl | rfl | rfl <;> simp [TameEv]
  · decide

/-- a chunked response cut short is an abort / a 502, never complete -/
example : (run {} Stream.init [.reqParsed true, .connect (.linked 1), .reqForwarded,
    .backHead .chunked true false, .backEof, .backHup]).outcome = some (.default 502 false) := by
  decide

/-! ### the outcome is one of: relayed response, proxy answer, abort after start -/

/-- FULL STATEMENT WANTED: every outcome is a relayed response, a proxy-generated
    answer given before anything else went out, or an abort after the response started.
    PROVED PART (one step, any event): this holds for the outcome produced from any live
    state in which everything received from the backend has already been written to the
    client and the response buffer is not in the error phase (`Settled`), provided the
    backend's bytes do not stop parsing in the middle of a body. -/
theorem C02_outcome_shape_partial (cfg : Cfg) (s : Stream) (e : Ev) (h : Settled s)
    (hpe : e = .backParseError → s.phase = .initial) (o : Outcome)
    (ho : (step cfg s e).outcome = some o) : Shape o :=
  settled_shape cfg s e h hpe o ho

/-- Excluded point 1 fails in the model (and in the code, finding `unflushed-response-dropped-silent-close`): a partial
    keep-alive response is still unwritten when the backend connection dies —
    `forcefully_terminate_answer` drops it and the client is given nothing at all. -/
theorem C02_outcome_shape_counterexample_silent_abort :
    (run {} Stream.init [.reqParsed true, .connect (.linked 1), .reqForwarded,
        .backHead .length false false, .backHup]).outcome = some (.abort false) ∧
    ¬ Shape (.abort false) := by
  constructor
  · decide
  · simp [Shape]

/-- Excluded point 2 fails in the model (and in the code, finding `default-answer-written-into-started-response`): the head of a
    chunked `Connection: close` response was written, the backend closes mid-body, the
    buffer goes to the error phase and `end_stream_decision` answers 502 into the
    response that had already started. -/
theorem C02_outcome_shape_counterexample_default_after_start :
    (run {} Stream.init [.reqParsed true, .connect (.linked 1), .reqForwarded,
        .backHead .chunked true false, .frontFlush, .backEof, .backHup]).outcome
      = some (.default 502 true) ∧
    ¬ Shape (.default 502 true) := by
  constructor
  · decide
  · simp [Shape]

example : Settled (run {} Stream.init [.reqParsed true, .connect (.linked 1), .reqForwarded,
    .backHead .length false false, .frontFlush]) := by
  constructor <;> decide

example : (step {} (run {} Stream.init [.reqParsed true, .connect (.linked 1), .reqForwarded,
    .backHead .length false false, .frontFlush]) .backHup).outcome = some (.abort true) := by decide

/-! ### a failed exchange never leaves its backend connection in the pool -/

/-- FULL STATEMENT WANTED: a backend connection is parked for reuse only by an exchange
    that ended with the backend's own, complete response.
    PROVED PART: true of every event except the expiry of the backend timer. -/
theorem C02_failed_exchange_never_pooled_partial (cfg : Cfg) (s : Stream) (e : Ev)
    (hlive : s.outcome = none) (hne : e ≠ .timeoutBack)
    (hp : pooledAfter cfg s e = true) :
    ∃ bs, (step cfg s e).outcome = some (.relayed s.byEof bs) ∧ s.kaBackend = true ∧
      s.phase = .terminated := by
  rcases s with ⟨st, att, fc, ph, bs, be, ka, kf, bc, pe, sr, oc⟩
  simp only at hlive; subst hlive
  cases e with
  | frontFlush =>
    cases st <;> cases ph <;> cases pe <;> cases ka <;>
      simp_all [pooledAfter, parksBackend, step, Stream.isLinked]
  | timeoutBack => exact absurd rfl hne
  | _ => simp [pooledAfter] at hp

/-- The excluded point fails in the model, as in the code (finding class
    `timed-out-backend-connection-parked-and-reused`): the backend timer fires before the
    response started, `set_default_answer(504)` puts a *terminated* template into
    `stream.back`, then the backend connection's `end_stream` sees
    `keep_alive_backend && back.is_terminated()` and parks a socket on which the backend
    still owes (and may later send) the answer to the request that just got the 504. -/
theorem C02_failed_exchange_never_pooled_counterexample :
    let s := run {} Stream.init [.reqParsed true, .connect (.linked 1), .reqForwarded]
    pooledAfter {} s .timeoutBack = true ∧ (step {} s .timeoutBack).outcome = some (.default 504 false) := by
  decide

/-- a parse error, a forced termination, a 502: never parked -/
example : pooledAfter {} (run {} Stream.init [.reqParsed true, .connect (.linked 1), .reqForwarded])
    .backParseError = false := by decide

example : pooledAfter {} (run {} Stream.init [.reqParsed true, .connect (.linked 1), .reqForwarded,
    .backHead .length false false, .backBodyEnd]) .frontFlush = true := by decide

end Sozu.Answers
