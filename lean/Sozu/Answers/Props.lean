import Sozu.Answers.Lemmas
import Sozu.Answers.Routing
/-
C02 — "every received request gets exactly one well-formed answer".
Only the property theorems (`C02_*`) and their non-vacuity examples live here;
the proofs are in `Lemmas.lean`.
-/
set_option linter.unusedSimpArgs false
set_option linter.unusedVariables false
namespace Sozu.Answers
open Sozu

/-! ### the decision table -/

/-- `end_stream_decision`: the five outcomes partition the input space exactly
    as coded, over (main phase, terminated, keep_alive_backend, front consumed). -/
theorem C02_end_stream_decision_table (m t k c : Bool) :
    (endStreamDecision m t k c = .forwardTerminated ↔ (m = true ∧ t = true)) ∧
    (endStreamDecision m t k c = .closeDelimited ↔ (m = true ∧ t = false ∧ k = false)) ∧
    (endStreamDecision m t k c = .forwardUnterminated ↔ (m = true ∧ t = false ∧ k = true)) ∧
    (endStreamDecision m t k c = .sendDefault Consts.ansBackendClosedEarly ↔ (m = false ∧ c = true)) ∧
    (endStreamDecision m t k c = .reconnect ↔ (m = false ∧ c = false)) ∧
    (∀ n, endStreamDecision m t k c = .sendDefault n → n = 502) := by
  cases m <;> cases t <;> cases k <;> cases c <;> simp [endStreamDecision, Consts.ansBackendClosedEarly]

example : endStreamDecision true false false true = .closeDelimited := by decide
example : endStreamDecision false false true true = .sendDefault 502 := by decide
example : endStreamDecision false true false false = .reconnect := by decide

/-! ### cause → status -/

/-- each cause maps to the status the property names (literals re-extracted
    from the source on every run) -/
theorem C02_status_matches_cause :
    statusOf .noCluster = 404 ∧ statusOf .unauthorized = 401 ∧ statusOf .sniMismatch = 421 ∧
    statusOf .perIpLimit = 429 ∧ statusOf .noBackend = 503 ∧ statusOf .retriesExhausted = 503 ∧
    statusOf .maxBuffers = 503 ∧ statusOf .maxSessionsMemory = 503 ∧ statusOf .backendOther = 503 ∧
    statusOf .retrieveOther = 503 ∧ statusOf .tcpNotFound = 503 ∧ statusOf .linkTimeout = 503 ∧
    statusOf .backendClosedEarly = 502 ∧ statusOf .backendTimeout = 504 ∧
    statusOf .frontTimeoutLinked = 504 ∧ statusOf .clientTimeout = 408 ∧
    statusOf .hostParse = 400 ∧ statusOf .frontParse = 400 ∧
    statusOf (.redirect none) = 301 ∧ (∀ n, statusOf (.redirect (some n)) = n) := by
  refine ⟨by decide, by decide, by decide, by decide, by decide, by decide, by decide, by decide,
    by decide, by decide, by decide, by decide, by decide, by decide, by decide, by decide,
    by decide, by decide, by decide, fun n => rfl⟩

/-- every proxy-generated answer of every history carries the status of one cause of the table -/
theorem C02_default_status_from_table (cfg : Cfg) (es : List Ev) (n : Nat) (a : Bool)
    (h : (run cfg Stream.init es).outcome = some (.default n a)) : ∃ c, n = statusOf c :=
  default_status_from_table cfg es n a h

example : (run {} Stream.init [.reqParsed true, .connect (.err .noCluster)]).outcome
    = some (.default 404 false) := by decide

/-! ### precedence of the routing outcomes -/

/-- The routing outcome in front of a backend connection, exactly as coded: a certificate
    mismatch is answered 421 before anything else; then a malformed authority (400), no
    matching frontend (404); a frontend redirect policy (301/302/308) wins over denial,
    credentials and limits; denial (policy or no cluster) and missing/wrong credentials
    give 401 before the legacy cluster redirect (301) and before the per-IP limit, so a
    request that is redirected or denied never counts against — nor is refused by — the
    limit (429 only for a request that would otherwise be forwarded). -/
theorem C02_routing_precedence (r : RouteIn) :
    (r.sniMismatch = true → routeDecision r = some .sniMismatch) ∧
    (r.sniMismatch = false → r.hostMalformed = true → routeDecision r = some .hostParse) ∧
    (r.sniMismatch = false → r.hostMalformed = false → r.frontFound = false →
        routeDecision r = some .noCluster) ∧
    (∀ n, r.sniMismatch = false → r.hostMalformed = false → r.frontFound = true →
        r.redirect = some n → routeDecision r = some (.redirect (some n))) ∧
    (routeDecision r = some .perIpLimit ↔
        (r.sniMismatch = false ∧ r.hostMalformed = false ∧ r.frontFound = true ∧ r.redirect = none ∧
         r.unauthorizedPolicy = false ∧ r.hasCluster = true ∧ (r.requiredAuth = true → r.authOk = true) ∧
         r.legacyHttpsRedirect = false ∧ r.atIpLimit = true)) ∧
    (routeDecision r = none ↔
        (r.sniMismatch = false ∧ r.hostMalformed = false ∧ r.frontFound = true ∧ r.redirect = none ∧
         r.unauthorizedPolicy = false ∧ r.hasCluster = true ∧ (r.requiredAuth = true → r.authOk = true) ∧
         r.legacyHttpsRedirect = false ∧ r.atIpLimit = false)) ∧
    (∀ c, routeDecision r = some c → statusOf c ∈ [421, 400, 404, 401, 429, 301] ∨
        ∃ n, r.redirect = some n ∧ statusOf c = n) :=
  routing_precedence r

example : routeDecision { requiredAuth := true, authOk := false, atIpLimit := true } = some .unauthorized := by
  decide
example : routeDecision { redirect := some 308, requiredAuth := true, hasCluster := false } =
    some (.redirect (some 308)) := by decide
example : routeDecision { requiredAuth := true, authOk := true, atIpLimit := true } = some .perIpLimit := by
  decide
example : routeDecision {} = none := by decide

/-! ### exactly one outcome — whole sessions, arbitrary histories -/

/-- A session with `n` stream slots (H1: one, H2: several) and any number of backend
    connections, after ANY history `h` of session events (events of single streams, dead
    backends, EOF or timer of a backend connection hitting every stream linked to it,
    frontend timer, frontend writes). For every stream `i` that holds a received request
    (not an H2 slot that is still Idle):
    (a) *at most one*: once it has an outcome, no continuation `h'` of the history changes it;
    (b) it has an outcome exactly when it has left the live states;
    (c) *exactly one once its timers have fired*: after the client has taken what was
        pending and the frontend timer has fired, twice (`settleEvents`), it has its outcome. -/
theorem C02_exactly_one_outcome (cfg : Cfg) (n : Nat) (h h' : List MEv) (i : Nat) (s : Stream)
    (hs : (Mux.run cfg (Mux.init n) h).streams[i]? = some s)
    (hrecv : cfg.frontH2 = true → s.st ≠ .idle) :
    (∀ o, s.outcome = some o →
        ∃ s', (Mux.run cfg (Mux.init n) (h ++ h')).streams[i]? = some s' ∧ s'.outcome = some o) ∧
    (s.outcome.isSome ↔ s.st = .unlinked) ∧
    (∃ s', (Mux.run cfg (Mux.init n) (h ++ settleEvents)).streams[i]? = some s' ∧
        s'.outcome.isSome = true) :=
  mux_exactly_one_outcome cfg n h h' i s hs hrecv

/-- the same for one stream and its own events (kept: the black-box driver works at this level) -/
theorem C02_exactly_one_outcome_stream (cfg : Cfg) (es es' : List Ev)
    (hrecv : cfg.frontH2 = true → (run cfg Stream.init es).st ≠ .idle) :
    (∀ o, (run cfg Stream.init es).outcome = some o →
        (run cfg Stream.init (es ++ es')).outcome = some o) ∧
    ((run cfg Stream.init es).outcome.isSome ↔ (run cfg Stream.init es).st = .unlinked) ∧
    (run cfg Stream.init (es ++ [.frontFlush, .timeoutFront true])).outcome.isSome :=
  exactly_one_outcome_stream cfg es es' hrecv

/-- two H2 streams on two backend connections: one backend dies, the other stalls -/
example :
    let h : List MEv := [.at 0 (.reqParsed true), .at 1 (.reqParsed true),
      .at 0 (.connect (.linked 1)), .at 1 (.connect (.linked 2)),
      .at 0 .reqForwarded, .at 1 .reqForwarded, .backendHup 1]
    ((Mux.run { frontH2 := true } (Mux.init 2) h).streams.map (·.outcome)
        = [some (.default 502 false), none]) ∧
    ((Mux.run { frontH2 := true } (Mux.init 2) (h ++ settleEvents)).streams.map (·.outcome)
        = [some (.default 502 false), some (.default 504 false)]) := by decide

example : (run {} Stream.init ([.reqParsed true, .connect (.linked 1), .reqForwarded]
    ++ [.frontFlush, .timeoutFront true])).outcome = some (.default 504 false) := by decide

/-! ### bounded by the timers -/

/-- Every live state has an armed timer; the expiry of the frontend timer gives the
    request its outcome unless a complete (or broken) response is being delivered to
    a client that does not read (then the client's read + the timer do); the expiry of
    the backend timer does so whenever the response is not complete yet. -/
theorem C02_bounded_by_timeouts (cfg : Cfg) (s : Stream) (hlive : s.st ≠ .unlinked)
    (hrecv : cfg.frontH2 = true → s.st ≠ .idle) :
    armed s ≠ [] ∧
    (delivering s = false →
        .timeoutFront true ∈ armed s ∧ (step cfg s (.timeoutFront true)).outcome.isSome) ∧
    (s.isLinked = true → s.phase = .initial ∨ s.phase = .body →
        .timeoutBack ∈ armed s ∧ (step cfg s .timeoutBack).outcome.isSome) ∧
    (delivering s = true → (run cfg s [.frontFlush, .timeoutFront true]).outcome.isSome) :=
  bounded_by_timeouts cfg s hlive hrecv

example : armed (run {} Stream.init [.reqParsed true, .connect (.linked 1)])
    = [.timeoutFront true, .timeoutBack] := by decide

/-! ### isolation -/

/-- What concerns one stream leaves every other stream of the session untouched;
    what happens to one backend connection touches only the streams linked to it;
    no event adds or removes a stream. -/
theorem C02_isolation (cfg : Cfg) (m : Mux) :
    (∀ (i : Nat) (e : Ev) (j : Nat), j ≠ i → (Mux.step cfg m (.at i e)).streams[j]? = m.streams[j]?) ∧
    (∀ (tok j : Nat) (s : Stream), m.streams[j]? = some s → s.isLinkedTo tok = false →
        (Mux.step cfg m (.backendHup tok)).streams[j]? = some s ∧
        (Mux.step cfg m (.backendEof tok)).streams[j]? = some s ∧
        (Mux.step cfg m (.backendTimeout tok)).streams[j]? = some s) ∧
    (∀ ev, (Mux.step cfg m ev).streams.length = m.streams.length) :=
  mux_isolation cfg m

example :
    let m : Mux := { streams := [run {} Stream.init [.reqParsed true, .connect (.linked 1)],
                                 run {} Stream.init [.reqParsed true, .connect (.linked 2)]] }
    ((Mux.step {} m (.backendHup 1)).streams.map (·.st)) = [.link, .linked 2] := by decide

/-! ### never a truncated body presented as complete -/

/-- FULL STATEMENT WANTED: in every history, a response is completed by the end of the
    backend connection only when it has neither Content-Length nor chunked coding.
    PROVED (all histories) under the predicate that excludes exactly the open finding
    `eof-completes-short-length-body-then-408`: every response head that announces
    `Connection: close` is close-delimited (`TameEv`). A chunked response cut short is
    then never completed (it is demoted to the error phase), nor is a short
    Content-Length one. -/
theorem C02_no_truncated_as_complete_partial (cfg : Cfg) (es : List Ev)
    (htame : ∀ e ∈ es, TameEv e) (bs : BodySize)
    (h : (run cfg Stream.init es).outcome = some (.relayed true bs)) :
    bs = .empty :=
  (kinv_run cfg es Stream.init htame kinv_init).k4 bs h

/-- The excluded point fails in the model as in the code (finding
    `eof-completes-short-length-body-then-408`): `Content-Length` + `Connection: close`,
    the backend closes mid-body, `terminate_close_delimited` marks the short body
    Terminated and `end_stream_decision` forwards it as a complete response. -/
theorem C02_no_truncated_as_complete_counterexample :
    (run {} Stream.init [.reqParsed true, .connect (.linked 1), .reqForwarded,
        .backHead .length true false, .backEof, .backHup]).outcome
      = some (.relayed true .length) ∧
    ¬ TameEv (.backHead .length true false) := by
  constructor
  · decide
  · simp [TameEv]

example : (∀ e ∈ [Ev.reqParsed true, .connect (.linked 1), .reqForwarded,
    .backHead .empty true false, .backEof, .backHup], TameEv e) ∧
    (run {} Stream.init [.reqParsed true, .connect (.linked 1), .reqForwarded,
      .backHead .empty true false, .backEof, .backHup]).outcome = some (.relayed true .empty) := by
  constructor
  · intro e he; simp at he; rcases he with rfl | rfl | rfl | rfl | rfl | rfl <;> simp [TameEv]
  · decide

/-- a chunked response cut short is an abort / a 502, never complete -/
example : (run {} Stream.init [.reqParsed true, .connect (.linked 1), .reqForwarded,
    .backHead .chunked true false, .backEof, .backHup]).outcome = some (.default 502 false) := by
  decide

/-! ### the outcome is one of: relayed response, proxy answer, abort after start -/

/-- FULL STATEMENT WANTED: in every history the outcome is a relayed response, a
    proxy-generated answer given before anything else went out, or an abort after the
    response started (`Shape`).
    PROVED (all histories) under the per-step predicate `Calm` that excludes exactly the
    open findings `unflushed-response-dropped-silent-close` (what is buffered for the
    client of a linked stream is written before anything else happens to it) and
    `default-answer-written-into-started-response` (no chunked `Connection: close`
    response; the backend's bytes stop parsing only before a head was accepted; a
    backend answers only a request it was sent). -/
theorem C02_outcome_shape_partial (cfg : Cfg) (es : List Ev) (hc : Calm cfg Stream.init es)
    (o : Outcome) (ho : (run cfg Stream.init es).outcome = some o) : Shape o :=
  (ainv_run cfg es Stream.init wf_init hc ainv_init).2.2.2 o ho

/-- one step, from ANY state (reachable or not) in which everything received was already
    written to the client: whatever happens next, the outcome has the allowed shape -/
theorem C02_outcome_shape_step (cfg : Cfg) (s : Stream) (e : Ev) (h : Settled s)
    (hpe : e = .backParseError → s.phase = .initial) (o : Outcome)
    (ho : (step cfg s e).outcome = some o) : Shape o :=
  settled_shape cfg s e h hpe o ho

/-- Excluded point 1 fails in the model and in the code (finding
    `unflushed-response-dropped-silent-close`): a partial keep-alive response is still
    unwritten when the backend connection dies — `forcefully_terminate_answer` drops it
    and the client is given nothing at all. The history violates `Calm` at its last step. -/
theorem C02_outcome_shape_counterexample_silent_abort :
    (run {} Stream.init [.reqParsed true, .connect (.linked 1), .reqForwarded,
        .backHead .length false false, .backHup]).outcome = some (.abort false) ∧
    ¬ Shape (.abort false) ∧
    ¬ Calm {} Stream.init [.reqParsed true, .connect (.linked 1), .reqForwarded,
        .backHead .length false false, .backHup] := by
  refine ⟨by decide, by simp [Shape], by decide⟩

/-- Excluded point 2 fails in the model and in the code (finding
    `default-answer-written-into-started-response`): the head of a chunked
    `Connection: close` response was written, the backend closes mid-body, the buffer goes
    to the error phase and `end_stream_decision` answers 502 into the response that had
    already started. The history violates `Calm` at the response head. -/
theorem C02_outcome_shape_counterexample_default_after_start :
    (run {} Stream.init [.reqParsed true, .connect (.linked 1), .reqForwarded,
        .backHead .chunked true false, .frontFlush, .backEof, .backHup]).outcome
      = some (.default 502 true) ∧
    ¬ Shape (.default 502 true) ∧
    ¬ Calm {} Stream.init [.reqParsed true, .connect (.linked 1), .reqForwarded,
        .backHead .chunked true false, .frontFlush, .backEof, .backHup] := by
  refine ⟨by decide, by simp [Shape], by decide⟩

/-- a calm history with a fault: head written to the client, then the backend dies -/
example : Calm {} Stream.init [.reqParsed true, .connect (.linked 1), .reqForwarded,
    .backHead .length false false, .frontFlush, .backHup] ∧
    (run {} Stream.init [.reqParsed true, .connect (.linked 1), .reqForwarded,
      .backHead .length false false, .frontFlush, .backHup]).outcome = some (.abort true) := by
  refine ⟨by decide, by decide⟩

example : Settled (run {} Stream.init [.reqParsed true, .connect (.linked 1), .reqForwarded,
    .backHead .length false false, .frontFlush]) := by
  constructor <;> decide

/-! ### a failed exchange never leaves its backend connection in the pool -/

/-- FULL STATEMENT WANTED: in every history, an HTTP/1 backend connection is parked for
    reuse only by an exchange that ended with the backend's own response, complete by its
    own framing, on a keep-alive backend.
    PROVED for every history and every next event except the expiry of the backend
    timer (the predicate that excludes exactly the open finding
    `timed-out-backend-connection-parked-and-reused`); H1 and H2 frontends alike. -/
theorem C02_failed_exchange_never_pooled_partial (cfg : Cfg) (es : List Ev) (e : Ev)
    (hne : e ≠ .timeoutBack)
    (hp : pooledAfter cfg (run cfg Stream.init es) e = true) :
    ∃ bs, (run cfg Stream.init (es ++ [e])).outcome = some (.relayed false bs) ∧
      (run cfg Stream.init es).kaBackend = true ∧
      (run cfg Stream.init es).phase = .terminated :=
  failed_exchange_never_pooled cfg es e hne hp

/-- The excluded point fails in the model, as in the code: the backend timer fires before
    the response started, `set_default_answer(504)` puts a *terminated* template into
    `stream.back`, then the backend connection's `end_stream` sees
    `keep_alive_backend && back.is_terminated()` and parks a socket on which the backend
    still owes (and may later send) the answer to the request that just got the 504. -/
theorem C02_failed_exchange_never_pooled_counterexample :
    let s := run {} Stream.init [.reqParsed true, .connect (.linked 1), .reqForwarded]
    pooledAfter {} s .timeoutBack = true ∧ (step {} s .timeoutBack).outcome = some (.default 504 false) := by
  decide

/-- a parse error, a forced termination, a 502: never parked; a complete response: parked -/
example : pooledAfter {} (run {} Stream.init [.reqParsed true, .connect (.linked 1), .reqForwarded])
    .backParseError = false := by decide

example : pooledAfter { frontH2 := true } (run { frontH2 := true } Stream.init
    [.reqParsed true, .connect (.linked 1), .reqForwarded,
     .backHead .length false false, .backBodyEnd]) .frontFlush = true := by decide

end Sozu.Answers
