import Sozu.Answers.Model
/-!
Routing precedence (C02): proof of the statement in `Props.lean`.
-/
set_option linter.unusedSimpArgs false
namespace Sozu.Answers
open Sozu

theorem routing_precedence (r : RouteIn) :
    (r.sniMismatch = true → routeDecision r = some .sniMismatch) ∧
    (r.sniMismatch = false → r.hostMalformed = true → routeDecision r = some .hostParse) ∧
    (r.sniMismatch = false → r.hostMalformed = false → r.frontFound = false →
        routeDecision r = some .noCluster) ∧
    (∀ n, r.sniMismatch = false → r.hostMalformed = false → r.frontFound = true →
        r.redirect = some n → routeDecision r = some (.redirect (some n))) ∧
    (routeDecision r = some .perIpLimit ↔
        (r.sniMismatch = false ∧ r.hostMalformed = false ∧ r.frontFound = true ∧ r.redirect = none ∧
         r.unauthorizedPolicy = false ∧ r.hasCluster = true ∧ (r.requiredAuth = true → r.authOk = true) ∧
         r.legacyHttpsRedirect = false ∧ r.atIpLimit = true)) ∧
    (routeDecision r = none ↔
        (r.sniMismatch = false ∧ r.hostMalformed = false ∧ r.frontFound = true ∧ r.redirect = none ∧
         r.unauthorizedPolicy = false ∧ r.hasCluster = true ∧ (r.requiredAuth = true → r.authOk = true) ∧
         r.legacyHttpsRedirect = false ∧ r.atIpLimit = false)) ∧
    (∀ c, routeDecision r = some c → statusOf c ∈ [421, 400, 404, 401, 429, 301] ∨
        ∃ n, r.redirect = some n ∧ statusOf c = n) := by
  rcases r with ⟨sni, hm, ff, rd, up, hc, ra, ao, lr, lim⟩
  refine ⟨?_, ?_, ?_, ?_, ?_, ?_, ?_⟩
  · intro h; simp at h; subst h; simp [routeDecision]
  · intro h1 h2; simp at h1 h2; subst h1 h2; simp [routeDecision]
  · intro h1 h2 h3; simp at h1 h2 h3; subst h1 h2 h3; simp [routeDecision]
  · intro n h1 h2 h3 h4; simp at h1 h2 h3 h4; subst h1 h2 h3 h4; simp [routeDecision]
  · cases sni <;> (try simp [routeDecision]) <;> cases hm <;> (try simp [routeDecision]) <;>
      cases ff <;> (try simp [routeDecision]) <;> cases rd <;> (try simp [routeDecision]) <;>
      cases up <;> (try simp [routeDecision]) <;> cases hc <;> (try simp [routeDecision]) <;>
      cases ra <;> cases ao <;> (try simp [routeDecision]) <;>
      cases lr <;> (try simp [routeDecision]) <;> cases lim <;> simp [routeDecision]
  · cases sni <;> (try simp [routeDecision]) <;> cases hm <;> (try simp [routeDecision]) <;>
      cases ff <;> (try simp [routeDecision]) <;> cases rd <;> (try simp [routeDecision]) <;>
      cases up <;> (try simp [routeDecision]) <;> cases hc <;> (try simp [routeDecision]) <;>
      cases ra <;> cases ao <;> (try simp [routeDecision]) <;>
      cases lr <;> (try simp [routeDecision]) <;> cases lim <;> simp [routeDecision]
  · intro c hcz
    cases rd with
    | some n =>
      cases sni <;> cases hm <;> cases ff <;> simp [routeDecision] at hcz <;> subst hcz <;>
        simp [statusOf, Consts.ansSniMismatch, Consts.ansHostParse, Consts.ansNoCluster]
    | none =>
      cases sni <;> cases hm <;> cases ff <;> cases up <;> cases hc <;> cases ra <;> cases ao <;>
        cases lr <;> cases lim <;> simp [routeDecision] at hcz <;> subst hcz <;>
        simp [statusOf, Consts.ansSniMismatch, Consts.ansHostParse, Consts.ansNoCluster,
          Consts.ansUnauthorized, Consts.ansPerIpLimit, Consts.ansRedirectDefault]

end Sozu.Answers
