import Sozu.Generated.Consts
/-!
Answers (C02): the life of one request inside the mux, transcribed from

* `lib/src/protocol/mux/mod.rs`   — `Mux::ready` (the `BackendConnectionError`
  → default-answer match after `Router::connect`) and `Mux::timeout`
  (front / back timer arms, per stream state);
* `lib/src/protocol/mux/shared.rs` — `end_stream_decision` (5 outcomes);
* `lib/src/protocol/mux/h1.rs`     — `readable` (EOF of an H1 backend:
  `terminate_close_delimited`), `writable` (response completely written),
  `end_stream` (server position: what each decision does);
  `h2.rs::end_stream` for the `CloseDelimited` arm of an H2 frontend;
* `lib/src/protocol/mux/answers.rs` — `set_default_answer`,
  `forcefully_terminate_answer`;
* `lib/src/protocol/mux/router.rs` — `Router::connect` (retry budget).

The status literals come from `Sozu.Consts` (re-extracted from the source on
every run).  The model follows what the code does, including what it does
wrong; the property theorems are in `Props.lean`.

External things are events: what the kawa parser makes of the backend's bytes
(`backHead`, `backBodyEnd`, `backParseError`), what the kernel reports
(`backEof` = `socket_read` returned `Closed`, which is also what ECONNRESET is
mapped to; `backHup` = HUP/ERROR readiness → `Connection::close` →
`Endpoint::end_stream`), what `Router::connect` answers, when the client reads
(`frontFlush`) and when the two timers fire.
-/
namespace Sozu.Answers
open Sozu

/-- `kawa::ParsingPhase` of `stream.back`, up to what the mux looks at:
    `initial` = StatusLine/Headers/Cookies, `body` = Body/Chunks/Trailers. -/
inductive Phase | initial | body | terminated | error
  deriving DecidableEq, Repr, Inhabited

/-- `kawa::BodySize` of the response: `empty` = neither Content-Length nor
    chunked (delimited by the end of the connection). -/
inductive BodySize | empty | length | chunked
  deriving DecidableEq, Repr, Inhabited

/-- `StreamState` (`Recycle` only exists for H2 slots without a request). -/
inductive SState | idle | link | linked (tok : Nat) | unlinked
  deriving DecidableEq, Repr, Inhabited

/-- why sozu answers by itself -/
inductive Cause
  | hostParse | noCluster | unauthorized | sniMismatch | redirect (stash : Option Nat) | perIpLimit
  | noBackend | retriesExhausted | maxSessionsMemory | maxBuffers | backendOther | retrieveOther
  | tcpNotFound
  | frontParse          -- the request could not be parsed
  | backendClosedEarly  -- `end_stream_decision` = SendDefault
  | clientTimeout       -- front timer, H1 stream still Idle
  | linkTimeout         -- front timer, stream in Link
  | frontTimeoutLinked  -- front timer, Linked, nothing of the response written yet
  | backendTimeout      -- back timer, Linked, nothing of the response written yet
  deriving DecidableEq, Repr, Inhabited

/-- the cause → status table (a total function; literals from the source) -/
def statusOf : Cause → Nat
  | .hostParse => Consts.ansHostParse
  | .noCluster => Consts.ansNoCluster
  | .unauthorized => Consts.ansUnauthorized
  | .sniMismatch => Consts.ansSniMismatch
  | .redirect stash => stash.getD Consts.ansRedirectDefault
  | .perIpLimit => Consts.ansPerIpLimit
  | .noBackend => Consts.ansNoBackend
  | .retriesExhausted => Consts.ansRetriesExhausted
  | .maxSessionsMemory => Consts.ansRetriesExhausted
  | .maxBuffers => Consts.ansRetriesExhausted
  | .backendOther => Consts.ansBackendOther
  | .retrieveOther => Consts.ansRetrieveOther
  | .tcpNotFound => Consts.ansTcpNotFound
  | .frontParse => Consts.ansFrontParse
  | .backendClosedEarly => Consts.ansBackendClosedEarly
  | .clientTimeout => Consts.ansClientTimeout
  | .linkTimeout => Consts.ansLinkTimeout
  | .frontTimeoutLinked => Consts.ansFrontTimeoutLinked
  | .backendTimeout => Consts.ansBackendTimeout

/-- terminal outcome of a request.
    `relayed byEof bs`: the backend's response, complete — by its own framing,
    or (`byEof`) because the backend closed and sozu took that for the end of a
    body whose framing was `bs`;
    `default status afterStart`: a proxy-generated answer (`afterStart`: bytes of
    the backend's response had already been written to the client);
    `abort afterStart`: forced termination / session close. -/
inductive Outcome
  | relayed (byEof : Bool) (bs : BodySize)
  | default (status : Nat) (afterStart : Bool)
  | abort (afterStart : Bool)
  deriving DecidableEq, Repr, Inhabited

/-- `shared.rs::EndStreamAction` -/
inductive EndAction
  | forwardTerminated | closeDelimited | forwardUnterminated | sendDefault (status : Nat) | reconnect
  deriving DecidableEq, Repr, Inhabited

/-- `shared.rs::end_stream_decision`, as a function of
    (`back.is_main_phase()`, `back.is_terminated()`, `context.keep_alive_backend`,
    `front.consumed`) -/
def endStreamDecision (mainPhase terminated kaBackend frontConsumed : Bool) : EndAction :=
  if mainPhase then
    if terminated then .forwardTerminated
    else if !kaBackend then .closeDelimited
    else .forwardUnterminated
  else if frontConsumed then .sendDefault Consts.ansBackendClosedEarly
  else .reconnect

def Phase.isMain : Phase → Bool
  | .body | .terminated => true
  | _ => false

structure Stream where
  st : SState := .idle
  /-- `stream.attempts` -/
  attempts : Nat := 0
  /-- `stream.front.consumed`: request bytes were written to a backend -/
  frontConsumed : Bool := false
  /-- phase and framing of `stream.back` -/
  phase : Phase := .initial
  bodySize : BodySize := .empty
  /-- the response was terminated by `terminate_close_delimited` / CloseDelimited -/
  byEof : Bool := false
  kaBackend : Bool := true
  kaFrontend : Bool := true
  /-- `stream.back.consumed` (reset by `set_default_answer`'s `kawa.clear()`) -/
  backConsumed : Bool := false
  /-- `!stream.back.is_completed()`: blocks not yet written to the client -/
  pending : Bool := false
  /-- ghost: some byte of an answer to this request reached the client -/
  started : Bool := false
  outcome : Option Outcome := none
  deriving DecidableEq, Repr, Inhabited

def Stream.decision (s : Stream) : EndAction :=
  endStreamDecision s.phase.isMain (s.phase == .terminated) s.kaBackend s.frontConsumed

def Stream.isLinked (s : Stream) : Bool :=
  match s.st with
  | .linked _ => true
  | _ => false

def Stream.isLinkedTo (s : Stream) (tok : Nat) : Bool := s.st == .linked tok

/-- `answers.rs::set_default_answer`: the response buffer is cleared and replaced
    by the template (all bundled templates carry `Connection: close`). -/
def setDefault (s : Stream) (c : Cause) : Stream :=
  { s with st := .unlinked, phase := .terminated, bodySize := .empty, kaFrontend := false,
           backConsumed := false, pending := true,
           outcome := some (.default (statusOf c) s.started) }

/-- `answers.rs::forcefully_terminate_answer`: unwritten blocks are dropped -/
def forceTerminate (s : Stream) : Stream :=
  { s with st := .unlinked, phase := .error, pending := false, outcome := some (.abort s.started) }

/-- `h1.rs::terminate_close_delimited` (H1 backend, EOF in the body phase of a
    response that is not keep-alive) -/
def terminateCloseDelimited (s : Stream) : Stream :=
  if s.bodySize = .chunked then { s with phase := .error }
  else { s with phase := .terminated, byEof := true, pending := true }

/-- `end_stream` of the frontend connection (server position) on a Linked
    stream. `frontH2`: the frontend is an H2 connection. -/
def serverEndStream (frontH2 : Bool) (s : Stream) : Stream :=
  match s.decision with
  | .forwardTerminated => { s with st := .unlinked, outcome := some (.relayed s.byEof s.bodySize) }
  | .closeDelimited =>
    if frontH2 then
      { s with st := .unlinked, phase := .terminated, byEof := true, pending := true,
               outcome := some (.relayed true s.bodySize) }
    else
      -- H1 frontend: what is buffered is written, the message is never finished and the
      -- connection is closed when the front timer fires (for a body delimited by the end
      -- of the connection the client takes that close for the end of the body)
      { s with st := .unlinked, started := s.started || s.pending,
               outcome := some (.abort (s.started || s.pending)) }
  | .forwardUnterminated => forceTerminate s
  | .sendDefault _ => setDefault s .backendClosedEarly
  | .reconnect => { s with st := .link }

inductive ConnectResult | linked (tok : Nat) | err (c : Cause)
  deriving DecidableEq, Repr, Inhabited

inductive Ev
  /-- H1/H2 frontend: the request head is complete (`ok`) or unparsable / malformed -/
  | reqParsed (ok : Bool)
  /-- `Router::connect` for a stream popped from `pending_links` -/
  | connect (r : ConnectResult)
  /-- request bytes were written to the backend -/
  | reqForwarded
  /-- the backend's response head was parsed: framing, `Connection: close`,
      and whether the message ends there (HEAD, 204, 304, `Content-Length: 0`) -/
  | backHead (bs : BodySize) (connClose : Bool) (noBody : Bool)
  /-- more body bytes were parsed (the message is not complete yet) -/
  | backData
  /-- the body is complete by its own framing -/
  | backBodyEnd
  /-- the backend's bytes do not parse -/
  | backParseError
  /-- `socket_read` on the backend returned `Closed` (FIN, or ECONNRESET) -/
  | backEof
  /-- the backend connection is dead (HUP/ERROR, or connect refused) -/
  | backHup
  /-- the frontend socket took what was pending -/
  | frontFlush
  /-- `Mux::timeout(frontend token)`; `sessionMayClose`: no other stream of the
      session keeps it open in this pass -/
  | timeoutFront (sessionMayClose : Bool)
  /-- `Mux::timeout(token of the backend this stream is linked to)` -/
  | timeoutBack
  deriving DecidableEq, Repr, Inhabited

/-- parameters of a session: frontend protocol -/
structure Cfg where
  frontH2 : Bool := false
  deriving DecidableEq, Repr, Inhabited

def step (cfg : Cfg) (s : Stream) (e : Ev) : Stream :=
  match e with
  | .reqParsed ok =>
    if s.st = .idle then
      if ok then { s with st := .link } else setDefault s .frontParse
    else s
  | .connect r =>
    if s.st = .link then
      if s.attempts ≥ Consts.ansConnRetries then setDefault s .retriesExhausted
      else
        match r with
        | .err c => setDefault { s with attempts := s.attempts + 1 } c
        | .linked tok => { s with attempts := s.attempts + 1, st := .linked tok }
    else s
  | .reqForwarded => if s.isLinked then { s with frontConsumed := true } else s
  | .backHead bs connClose noBody =>
    if s.isLinked ∧ s.phase = .initial then
      { s with phase := if noBody then .terminated else .body, bodySize := bs,
               kaBackend := s.kaBackend && !connClose, pending := true }
    else s
  | .backData => if s.isLinked ∧ s.phase = .body then { s with pending := true } else s
  | .backBodyEnd =>
    if s.isLinked ∧ s.phase = .body then { s with phase := .terminated, pending := true } else s
  | .backParseError =>
    if s.isLinked ∧ (s.phase = .initial ∨ s.phase = .body) then
      serverEndStream cfg.frontH2 { s with phase := .error }
    else s
  | .backEof =>
    if s.isLinked ∧ s.phase = .body ∧ s.kaBackend = false then terminateCloseDelimited s else s
  | .backHup => if s.isLinked then serverEndStream cfg.frontH2 s else s
  | .frontFlush =>
    if s.pending then
      let s' := { s with pending := false, backConsumed := true, started := true }
      -- `writable`: terminated && completed on a stream still Linked = "H1::Complete"
      if s'.isLinked ∧ s'.phase = .terminated then
        { s' with st := .unlinked, outcome := some (.relayed s'.byEof s'.bodySize) }
      else s'
    else s
  | .timeoutFront sessionMayClose =>
    match s.st with
    | .idle => if cfg.frontH2 then s else setDefault s .clientTimeout
    | .link => setDefault s .linkTimeout
    | .linked _ =>
      if !s.backConsumed then setDefault s .frontTimeoutLinked
      else if !s.pending then
        -- "Response fully proxied, stream can be closed": the session closes
        if sessionMayClose then { s with st := .unlinked, outcome := some (.abort s.started) } else s
      else if s.phase = .terminated ∨ s.phase = .error then s
      else forceTerminate s
    | .unlinked => s
  | .timeoutBack =>
    if s.isLinked then
      if s.phase = .terminated ∨ s.phase = .error then s
      else if !s.backConsumed then setDefault s .backendTimeout
      else forceTerminate s
    else s

def run (cfg : Cfg) (s : Stream) (es : List Ev) : Stream := es.foldl (step cfg) s

def Stream.init : Stream := {}

/-- the timers that are armed in a state (`TimeoutContainer`s of the frontend
    and of the backend connection the stream is linked to) -/
def armed (s : Stream) : List Ev :=
  match s.st with
  | .idle | .link => [.timeoutFront true]
  | .linked _ => [.timeoutFront true, .timeoutBack]
  | .unlinked => []

/-- the one situation no timer ends: a response that is complete (or broken) in
    sozu's buffer and partly written — only the client reading ends it -/
def delivering (s : Stream) : Bool :=
  s.isLinked && s.backConsumed && s.pending && (s.phase == .terminated || s.phase == .error)



/-! ### the routing decision in front of a backend connection -/

/-- what `Router::connect` / `route_from_request` look at, in the order they look at it -/
structure RouteIn where
  /-- HTTPS with strict SNI binding: the authority is not covered by the served certificate -/
  sniMismatch : Bool := false
  /-- the authority does not parse as host[:port] -/
  hostMalformed : Bool := false
  /-- a frontend matches (host, path, method) -/
  frontFound : Bool := true
  /-- frontend policy Permanent / Found / PermanentRedirect: the stashed 301 / 302 / 308 -/
  redirect : Option Nat := none
  /-- frontend policy Unauthorized -/
  unauthorizedPolicy : Bool := false
  hasCluster : Bool := true
  /-- frontend `required_auth` and the result of `check_basic` -/
  requiredAuth : Bool := false
  authOk : Bool := false
  /-- `cluster.https_redirect` on a plain HTTP listener -/
  legacyHttpsRedirect : Bool := false
  /-- `cluster_ip_at_limit` for (cluster, source IP, this frontend connection) -/
  atIpLimit : Bool := false
  deriving DecidableEq, Repr, Inhabited

/-- the cause of the proxy answer, or `none`: go on to pick a backend
    (`router.rs::route_from_request` then `Router::connect`, in source order) -/
def routeDecision (r : RouteIn) : Option Cause :=
  if r.sniMismatch then some .sniMismatch
  else if r.hostMalformed then some .hostParse
  else if !r.frontFound then some .noCluster
  else match r.redirect with
    | some n => some (.redirect (some n))
    | none =>
      if r.unauthorizedPolicy || !r.hasCluster then some .unauthorized
      else if r.requiredAuth && !r.authOk then some .unauthorized
      else if r.legacyHttpsRedirect then some (.redirect none)
      else if r.atIpLimit then some .perIpLimit
      else none

/-! ### pooling of the HTTP/1 backend connection -/

/-- `h1.rs::end_stream`, client position, `BackendStatus::Connected` arm, evaluated on the
    stream as it is when the backend connection's `end_stream` runs: the connection is parked
    as `KeepAlive` (and `Router::connect` hands it to the next request of the session for the
    same cluster) iff `keep_alive_backend && stream.back.is_terminated()`. -/
def parksBackend (s : Stream) : Bool := s.kaBackend && s.phase == .terminated

/-- Does event `e` end the exchange of a Linked stream with the backend connection parked
    for reuse? The backend connection's `end_stream` runs
    * from `writable` once the response is completely written (`H1::Complete`);
    * from `Mux::timeout(backend)` *after* `set_default_answer` / `forcefully_terminate_answer`
      replaced `stream.back`;
    * from `readable` on a parse error, *before* the frontend's `end_stream` (error phase: closed);
    EOF / HUP: the connection is dead anyway. -/
def pooledAfter (cfg : Cfg) (s : Stream) (e : Ev) : Bool :=
  s.isLinked && (step cfg s e).st == .unlinked &&
  match e with
  | .frontFlush => parksBackend (step cfg s e)
  | .timeoutBack => parksBackend (step cfg s e)
  | _ => false

/-! ### several streams on one frontend (H2), several backends -/

structure Mux where
  streams : List Stream
  deriving Repr

inductive MEv
  /-- something that concerns stream `i` only -/
  | at (i : Nat) (e : Ev)
  /-- backend connection `tok`: dead / EOF / its timer fired -/
  | backendHup (tok : Nat)
  | backendEof (tok : Nat)
  | backendTimeout (tok : Nat)
  /-- the frontend timer fired -/
  | frontTimeout
  /-- the frontend socket took everything that was pending, on every stream -/
  | frontFlushAll
  deriving Repr

/-- a stream that keeps the session open when the front timer fires (`should_close = false`
    or `should_write`) -/
def keepsOpen (cfg : Cfg) (s : Stream) : Bool :=
  -- the pass writes an answer / terminates the stream (it then leaves its live state) ...
  (step cfg s (.timeoutFront false)).st != s.st
  -- ... or something is still on its way to the client
  || delivering s || (s.st == .unlinked && s.pending)

def Mux.step (cfg : Cfg) (m : Mux) : MEv → Mux
  | .at i e => { streams := m.streams.modify i (fun s => Answers.step cfg s e) }
  | .backendHup tok =>
    { streams := m.streams.map fun s => if s.isLinkedTo tok then Answers.step cfg s .backHup else s }
  | .backendEof tok =>
    { streams := m.streams.map fun s => if s.isLinkedTo tok then Answers.step cfg s .backEof else s }
  | .backendTimeout tok =>
    { streams := m.streams.map fun s => if s.isLinkedTo tok then Answers.step cfg s .timeoutBack else s }
  | .frontTimeout =>
    let may := !(m.streams.any (keepsOpen cfg))
    { streams := m.streams.map fun s => Answers.step cfg s (.timeoutFront may) }
  | .frontFlushAll => { streams := m.streams.map fun s => Answers.step cfg s .frontFlush }

def Mux.run (cfg : Cfg) (m : Mux) (evs : List MEv) : Mux := evs.foldl (Mux.step cfg) m

/-- a session with `n` fresh stream slots -/
def Mux.init (n : Nat) : Mux := { streams := List.replicate n Stream.init }

/-! ### what an HTTP/1 client sees (used by the black-box correspondence) -/

/-- Token of the client-side observation of one request on an H1 frontend once
    every timer has fired, given the terminal outcome.
    `ucFull`: the backend had sent its whole body (close-delimited framing);
    `shortBy408`: the 408 page sozu appends is at least as long as the missing
    part of a length-delimited body. -/
def wireToken (o : Outcome) (ucFull shortBy408 : Bool) (flushedBs : BodySize) : String :=
  match o with
  | .default n false => s!"default:{n}/closed"
  | .default _ true =>
    -- the proxy answer lands inside the message that had started
    match flushedBs with
    | .length => if shortBy408 then "corrupt/closed" else "abort-corrupt/closed"
    | .chunked => "abort/closed"
    | .empty => "corrupt/closed"
  | .relayed false _ => "relayed/open"
  | .relayed true .length => if shortBy408 then "corrupt/closed" else "abort-corrupt/closed"
  | .relayed true .chunked => "abort/closed"
  | .relayed true .empty => "corrupt/closed"
  | .abort false => "none/closed"
  | .abort true =>
    match flushedBs with
    | .empty => if ucFull then "relayed/closed" else "relayed-prefix/closed"
    | _ => "abort/closed"

end Sozu.Answers
