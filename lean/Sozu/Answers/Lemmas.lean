import Sozu.Answers.Model
/-!
Helper lemmas for the Answers (C02) theorems: the invariants of the
per-request machine and their preservation by every event.
-/
set_option linter.unusedSimpArgs false
set_option linter.unusedVariables false
namespace Sozu.Answers
open Sozu

/-- an outcome exists exactly when the stream has left the live states -/
def WF (s : Stream) : Prop := s.outcome.isSome ↔ s.st = .unlinked

theorem wf_init : WF Stream.init := by simp [WF, Stream.init]

@[simp] theorem setDefault_st (s : Stream) (c : Cause) : (setDefault s c).st = .unlinked := rfl
@[simp] theorem setDefault_outcome (s : Stream) (c : Cause) :
    (setDefault s c).outcome = some (.default (statusOf c) s.started) := rfl
@[simp] theorem forceTerminate_st (s : Stream) : (forceTerminate s).st = .unlinked := rfl
@[simp] theorem forceTerminate_outcome (s : Stream) :
    (forceTerminate s).outcome = some (.abort s.started) := rfl

theorem isLinked_iff (s : Stream) : s.isLinked = true ↔ ∃ tok, s.st = .linked tok := by
  unfold Stream.isLinked; cases s.st <;> simp

theorem not_linked_of_unlinked {s : Stream} (h : s.st = .unlinked) : s.isLinked = false := by
  unfold Stream.isLinked; rw [h]

theorem wf_serverEndStream (h2 : Bool) (s : Stream) (hl : s.isLinked = true) (hw : WF s) :
    WF (serverEndStream h2 s) := by
  obtain ⟨tok, ht⟩ := (isLinked_iff s).1 hl
  have hn : s.outcome = none := by
    cases ho : s.outcome with
    | none => rfl
    | some o => have := hw.1 (by simp [ho]); simp [ht] at this
  unfold serverEndStream
  split <;> (try split) <;> simp [WF, setDefault, forceTerminate, hn]

theorem wf_step (cfg : Cfg) (s : Stream) (e : Ev) (hw : WF s) : WF (step cfg s e) := by
  have hnone : s.st ≠ .unlinked → s.outcome = none := by
    intro h
    cases ho : s.outcome with
    | none => rfl
    | some o => exact absurd (hw.1 (by simp [ho])) h
  cases e with
  | reqParsed ok =>
    simp only [step]
    split
    · next h => split <;> simp [WF, hnone (by simp [h]), setDefault]
    · exact hw
  | connect r =>
    simp only [step]
    split
    · next h =>
      split
      · simp [WF]
      · cases r <;> simp [WF, hnone (by simp [h]), setDefault]
    · exact hw
  | reqForwarded =>
    simp only [step]; split
    · exact ⟨fun h => hw.1 h, fun h => hw.2 h⟩
    · exact hw
  | backHead bs cc nb =>
    simp only [step]; split
    · exact ⟨fun h => hw.1 h, fun h => hw.2 h⟩
    · exact hw
  | backData =>
    simp only [step]; split
    · exact ⟨fun h => hw.1 h, fun h => hw.2 h⟩
    · exact hw
  | backBodyEnd =>
    simp only [step]; split
    · exact ⟨fun h => hw.1 h, fun h => hw.2 h⟩
    · exact hw
  | backParseError =>
    simp only [step]; split
    · next h =>
      apply wf_serverEndStream
      · exact h.1
      · exact ⟨fun h' => hw.1 h', fun h' => hw.2 h'⟩
    · exact hw
  | backEof =>
    simp only [step]; split
    · unfold terminateCloseDelimited; split <;> exact ⟨fun h => hw.1 h, fun h => hw.2 h⟩
    · exact hw
  | backHup =>
    simp only [step]; split
    · next h => exact wf_serverEndStream _ _ h hw
    · exact hw
  | frontFlush =>
    simp only [step]; split
    · split
      · simp [WF]
      · exact ⟨fun h => hw.1 h, fun h => hw.2 h⟩
    · exact hw
  | timeoutFront may =>
    simp only [step]
    split
    · next h => split <;> first | exact hw | simp [WF]
    · simp [WF]
    · next tok h =>
      split
      · simp [WF]
      · split
        · split
          · simp [WF]
          · exact hw
        · split
          · exact hw
          · simp [WF]
    · exact hw
  | timeoutBack =>
    simp only [step]; split
    · split
      · exact hw
      · split <;> simp [WF]
    · exact hw

theorem wf_run (cfg : Cfg) (es : List Ev) (s : Stream) (hw : WF s) : WF (run cfg s es) := by
  induction es generalizing s with
  | nil => exact hw
  | cons e es ih => exact ih _ (wf_step cfg s e hw)

/-- a stream that has its outcome keeps it (and stays Unlinked) whatever happens -/
theorem step_unlinked (cfg : Cfg) (s : Stream) (e : Ev) (h : s.st = .unlinked) :
    (step cfg s e).st = .unlinked ∧ (step cfg s e).outcome = s.outcome := by
  have hl := not_linked_of_unlinked h
  cases e <;> simp [step, h, hl]
  · split <;> simp [h, hl, Stream.isLinked]

theorem run_unlinked (cfg : Cfg) (es : List Ev) (s : Stream) (h : s.st = .unlinked) :
    (run cfg s es).st = .unlinked ∧ (run cfg s es).outcome = s.outcome := by
  induction es generalizing s with
  | nil => exact ⟨h, rfl⟩
  | cons e es ih =>
    have := step_unlinked cfg s e h
    have h2 := ih (step cfg s e) this.1
    exact ⟨h2.1, h2.2.trans this.2⟩


/-- the frontend timer ends every live request, unless a complete (or broken)
    response is half-way to a client that does not read -/
theorem front_timer_terminal (cfg : Cfg) (s : Stream) (hlive : s.st ≠ .unlinked)
    (hrecv : cfg.frontH2 = true → s.st ≠ .idle) (hd : delivering s = false) :
    (step cfg s (.timeoutFront true)).outcome.isSome = true := by
  cases hst : s.st with
  | unlinked => exact absurd hst hlive
  | idle =>
    have hf : cfg.frontH2 = false := by
      cases hc : cfg.frontH2 with
      | false => rfl
      | true => exact absurd hst (hrecv hc)
    simp [step, hst, hf]
  | link => simp [step, hst]
  | linked tok =>
    cases hb : s.backConsumed <;> cases hp : s.pending <;> cases hph : s.phase <;>
      simp_all [step, delivering, Stream.isLinked]

/-- after the client took what was pending, either the request is over or nothing is
    being delivered any more -/
theorem flush_cases (cfg : Cfg) (s : Stream) :
    ((step cfg s .frontFlush).st = .unlinked ∧ (step cfg s .frontFlush).outcome.isSome = true ∧
        s.st ≠ .unlinked) ∨
    ((step cfg s .frontFlush).st = s.st ∧ delivering (step cfg s .frontFlush) = false ∧
        (step cfg s .frontFlush).outcome = s.outcome) := by
  cases hp : s.pending with
  | false => right; simp [step, hp, delivering]
  | true =>
    cases hst : s.st <;> cases hph : s.phase <;>
      simp [step, hp, hst, hph, delivering, Stream.isLinked]

theorem run_append (cfg : Cfg) (s : Stream) (a b : List Ev) :
    run cfg s (a ++ b) = run cfg (run cfg s a) b := by
  simp [run, List.foldl_append]

/-! ### "the end of the connection completes a message" only for close-delimited bodies -/

/-- responses that announce `Connection: close` have neither Content-Length nor
    chunked coding (the hypothesis of the partial theorem; the code does not check it) -/
def TameEv : Ev → Prop
  | .backHead bs true _ => bs = .empty
  | _ => True

structure KInv (s : Stream) : Prop where
  k1 : s.phase = .initial → s.kaBackend = true ∧ s.byEof = false
  k2 : s.kaBackend = false → s.bodySize = .empty
  k3 : s.byEof = true → s.kaBackend = false
  k4 : ∀ bs, s.outcome = some (.relayed true bs) → bs = .empty

theorem kinv_init : KInv Stream.init := by
  constructor <;> simp [Stream.init]

theorem decision_closeDelimited {s : Stream} (h : s.decision = .closeDelimited) :
    s.kaBackend = false := by
  revert h
  unfold Stream.decision endStreamDecision
  cases s.phase.isMain <;> cases (s.phase == .terminated) <;> cases s.kaBackend <;>
    cases s.frontConsumed <;> simp

theorem decision_main {s : Stream}
    (h : s.decision = .closeDelimited ∨ s.decision = .forwardTerminated ∨ s.decision = .forwardUnterminated) :
    s.phase ≠ .initial := by
  revert h
  unfold Stream.decision endStreamDecision
  cases s.phase <;> cases s.kaBackend <;> cases s.frontConsumed <;> simp [Phase.isMain]

theorem kinv_serverEndStream (h2 : Bool) (s : Stream) (h : KInv s) : KInv (serverEndStream h2 s) := by
  obtain ⟨k1, k2, k3, k4⟩ := h
  unfold serverEndStream
  cases hd : s.decision with
  | forwardTerminated =>
    refine ⟨k1, k2, k3, ?_⟩
    intro bs hb
    simp at hb
    have := k2 (k3 hb.1)
    rw [← hb.2]; exact this
  | closeDelimited =>
    have hk := decision_closeDelimited hd
    have hm := decision_main (Or.inl hd)
    cases h2 with
    | true =>
      refine ⟨by simp, k2, fun _ => hk, ?_⟩
      intro bs hb
      simp at hb
      rw [← hb]; exact k2 hk
    | false =>
      refine ⟨k1, k2, k3, ?_⟩
      intro bs hb; simp at hb
  | forwardUnterminated =>
    have hm := decision_main (Or.inr (Or.inr hd))
    refine ⟨by simp [forceTerminate], k2, k3, ?_⟩
    intro bs hb; simp [forceTerminate] at hb
  | sendDefault n =>
    refine ⟨by simp [setDefault], by simp [setDefault], by simpa [setDefault] using k3, ?_⟩
    intro bs hb; simp [setDefault] at hb
  | reconnect => exact ⟨k1, k2, k3, k4⟩

theorem kinv_setDefault (s : Stream) (c : Cause) (h : KInv s) : KInv (setDefault s c) := by
  obtain ⟨k1, k2, k3, k4⟩ := h
  refine ⟨by simp [setDefault], by simp [setDefault], by simpa [setDefault] using k3, ?_⟩
  intro bs hb; simp [setDefault] at hb

theorem kinv_forceTerminate (s : Stream) (h : KInv s) : KInv (forceTerminate s) := by
  obtain ⟨k1, k2, k3, k4⟩ := h
  refine ⟨by simp [forceTerminate], k2, k3, ?_⟩
  intro bs hb; simp [forceTerminate] at hb

theorem kinv_step (cfg : Cfg) (s : Stream) (e : Ev) (ht : TameEv e) (h : KInv s) :
    KInv (step cfg s e) := by
  have ⟨k1, k2, k3, k4⟩ := h
  cases e with
  | reqParsed ok =>
    simp only [step]; split
    · split
      · exact ⟨k1, k2, k3, k4⟩
      · exact kinv_setDefault _ _ h
    · exact h
  | connect r =>
    simp only [step]; split
    · split
      · exact kinv_setDefault _ _ h
      · cases r with
        | err c => exact kinv_setDefault _ _ ⟨k1, k2, k3, k4⟩
        | linked tok => exact ⟨k1, k2, k3, k4⟩
    · exact h
  | reqForwarded => simp only [step]; split <;> first | exact h | exact ⟨k1, k2, k3, k4⟩
  | backHead bs cc nb =>
    simp only [step]; split
    · next hc =>
      obtain ⟨hk, hb⟩ := k1 hc.2
      refine ⟨?_, ?_, ?_, k4⟩
      · intro hph; cases nb <;> simp at hph
      · intro hka
        cases cc with
        | false => simp [hk] at hka
        | true => exact ht
      · intro hbe; simp [hb] at hbe
    · exact h
  | backData =>
    simp only [step]; split
    · exact ⟨k1, k2, k3, k4⟩
    · exact h
  | backBodyEnd =>
    simp only [step]; split
    · exact ⟨by simp, k2, k3, k4⟩
    · exact h
  | backParseError =>
    simp only [step]; split
    · apply kinv_serverEndStream
      exact ⟨by simp, k2, k3, k4⟩
    · exact h
  | backEof =>
    simp only [step]; split
    · next hc =>
      unfold terminateCloseDelimited
      split
      · exact ⟨by simp, k2, k3, k4⟩
      · exact ⟨by simp, k2, fun _ => hc.2.2, k4⟩
    · exact h
  | backHup =>
    simp only [step]; split
    · exact kinv_serverEndStream _ _ h
    · exact h
  | frontFlush =>
    simp only [step]; split
    · split
      · refine ⟨k1, k2, k3, ?_⟩
        intro bs hb
        simp at hb
        rw [← hb.2]; exact k2 (k3 hb.1)
      · exact ⟨k1, k2, k3, k4⟩
    · exact h
  | timeoutFront may =>
    simp only [step]; split
    · split
      · exact h
      · exact kinv_setDefault _ _ h
    · exact kinv_setDefault _ _ h
    · split
      · exact kinv_setDefault _ _ h
      · split
        · split
          · refine ⟨k1, k2, k3, ?_⟩
            intro bs hb; simp at hb
          · exact h
        · split
          · exact h
          · exact kinv_forceTerminate _ h
    · exact h
  | timeoutBack =>
    simp only [step]; split
    · split
      · exact h
      · split
        · exact kinv_setDefault _ _ h
        · exact kinv_forceTerminate _ h
    · exact h

theorem kinv_run (cfg : Cfg) (es : List Ev) (s : Stream) (ht : ∀ e ∈ es, TameEv e) (h : KInv s) :
    KInv (run cfg s es) := by
  induction es generalizing s with
  | nil => exact h
  | cons e es ih =>
    exact ih _ (fun e' he' => ht e' (List.mem_cons_of_mem _ he'))
      (kinv_step cfg s e (ht e (List.mem_cons_self ..)) h)

/-! ### shape of the outcome when nothing is left unwritten -/

/-- the outcomes the property allows: a relayed response, a proxy answer given
    before anything of another answer went out, an abort after the response started -/
def Shape : Outcome → Prop
  | .relayed _ _ => True
  | .default _ a => a = false
  | .abort a => a = true

/-- a live request for which everything sozu received from the backend has been
    written to the client, and whose response buffer is not in the error phase -/
structure Settled (s : Stream) : Prop where
  live : s.outcome = none
  flushed : s.pending = false
  noErr : s.phase ≠ .error
  st1 : s.started = s.backConsumed
  st2 : s.phase = .initial → s.started = false
  st3 : s.phase ≠ .initial → s.started = true ∧ s.isLinked = true

theorem settled_shape (cfg : Cfg) (s : Stream) (e : Ev) (h : Settled s)
    (hpe : e = .backParseError → s.phase = .initial) :
    ∀ o, (step cfg s e).outcome = some o → Shape o := by
  obtain ⟨live, flushed, noErr, st1, st2, st3⟩ := h
  rcases s with ⟨st, att, fc, ph, bs, be, ka, kf, bc, pe, sr, oc⟩
  rcases cfg with ⟨h2⟩
  simp only at live flushed noErr st1 st2 st3 hpe
  subst live flushed st1
  cases e with
  | reqParsed ok => cases st <;> cases ok <;> cases ph <;> simp_all [step, setDefault, Shape, Stream.isLinked]
  | connect r =>
    cases st <;> cases r <;> cases ph <;> simp_all [step, setDefault, Shape, Stream.isLinked] <;>
      split <;> simp_all [Shape]
  | reqForwarded => cases st <;> simp_all [step, Stream.isLinked]
  | backHead bs' cc nb => cases st <;> cases ph <;> simp_all [step, Stream.isLinked]
  | backData => cases st <;> cases ph <;> simp_all [step, Stream.isLinked]
  | backBodyEnd => cases st <;> cases ph <;> simp_all [step, Stream.isLinked]
  | backParseError =>
    cases st <;> cases ph <;> cases fc <;>
      simp_all [step, Stream.isLinked, serverEndStream, Stream.decision, endStreamDecision,
        Phase.isMain, setDefault, Shape]
  | backEof =>
    cases st <;> cases ph <;> cases ka <;> cases bs <;>
      simp_all [step, Stream.isLinked, terminateCloseDelimited]
  | backHup =>
    cases st <;> cases ph <;> cases ka <;> cases fc <;> cases h2 <;>
      simp_all [step, Stream.isLinked, serverEndStream, Stream.decision, endStreamDecision,
        Phase.isMain, setDefault, forceTerminate, Shape]
  | frontFlush => simp_all [step]
  | timeoutFront may =>
    cases st <;> cases ph <;> cases may <;> cases h2 <;>
      simp_all [step, Stream.isLinked, setDefault, forceTerminate, Shape]
  | timeoutBack =>
    cases st <;> cases ph <;> simp_all [step, Stream.isLinked, setDefault, forceTerminate, Shape]

/-! ### several streams: histories of a whole session -/

theorem flush_pending (cfg : Cfg) (s : Stream) : (step cfg s .frontFlush).pending = false := by
  cases hp : s.pending <;> simp [step, hp, apply_ite Stream.pending]

/-- a stream is Idle only if it has always been -/
theorem idle_back (cfg : Cfg) (s : Stream) (e : Ev) (h : (step cfg s e).st = .idle) : s.st = .idle := by
  rcases s with ⟨st, att, fc, ph, bs, be, ka, kf, bc, pe, sr, oc⟩
  rcases cfg with ⟨h2⟩
  cases st with
  | idle => rfl
  | link =>
    exfalso
    cases e <;> simp [step, Stream.isLinked, setDefault] at h <;> (repeat' split at h) <;>
      simp_all [setDefault]
  | linked tok =>
    exfalso
    cases e <;> simp [step, Stream.isLinked, setDefault, forceTerminate, serverEndStream,
      terminateCloseDelimited] at h <;> (repeat' split at h) <;> simp_all [setDefault, forceTerminate]
  | unlinked =>
    have := (step_unlinked ⟨h2⟩ ⟨.unlinked, att, fc, ph, bs, be, ka, kf, bc, pe, sr, oc⟩ e rfl).1
    rw [this] at h; cases h

/-- after "client took everything, front timer, client took everything" no stream keeps
    the session open any more -/
theorem quiet_after (cfg : Cfg) (s0 : Stream) (may : Bool) :
    keepsOpen cfg (step cfg (step cfg (step cfg s0 .frontFlush) (.timeoutFront may)) .frontFlush)
      = false := by
  rcases s0 with ⟨st, att, fc, ph, bs, be, ka, kf, bc, pe, sr, oc⟩
  rcases cfg with ⟨h2⟩
  cases st <;> cases ph <;> cases pe <;> cases bc <;> cases may <;> cases h2 <;>
    simp [keepsOpen, delivering, step, Stream.isLinked, setDefault, forceTerminate]

/-- ... and one more expiry of the front timer gives every received request its outcome -/
theorem live_after (cfg : Cfg) (s0 : Stream) (may : Bool) (hw : WF s0)
    (hrecv : cfg.frontH2 = true → s0.st ≠ .idle) :
    (step cfg (step cfg (step cfg (step cfg s0 .frontFlush) (.timeoutFront may)) .frontFlush)
      (.timeoutFront true)).outcome.isSome = true := by
  have hw2 := wf_step cfg _ (.timeoutFront may) (wf_step cfg s0 .frontFlush hw)
  generalize hs2 : step cfg (step cfg s0 .frontFlush) (.timeoutFront may) = s2 at hw2
  have hidle : s2.st = .idle → s0.st = .idle := by
    intro h; rw [← hs2] at h
    exact idle_back cfg _ _ (idle_back cfg _ _ h)
  have hw3 := wf_step cfg s2 .frontFlush hw2
  by_cases hu : (step cfg s2 .frontFlush).st = .unlinked
  · rw [(step_unlinked cfg _ _ hu).2]; exact hw3.2 hu
  · rcases flush_cases cfg s2 with ⟨h1, _, _⟩ | ⟨h1, h2, _⟩
    · exact absurd h1 hu
    · apply front_timer_terminal _ _ hu
      · intro hc hi; rw [h1] at hi; exact hrecv hc (hidle hi)
      · exact h2

/-- whatever happens to a session, stream `i` just goes through some sequence of its own events -/
theorem mux_step_get (cfg : Cfg) (m : Mux) (ev : MEv) (i : Nat) (s : Stream)
    (h : m.streams[i]? = some s) :
    ∃ es, (Mux.step cfg m ev).streams[i]? = some (run cfg s es) := by
  cases ev with
  | «at» j e =>
    by_cases hj : j = i
    · refine ⟨[e], ?_⟩; simp [Mux.step, List.getElem?_modify, hj, h, run]
    · refine ⟨[], ?_⟩; simp [Mux.step, List.getElem?_modify, hj, h, run]
  | backendHup tok =>
    by_cases hl : s.isLinkedTo tok = true
    · exact ⟨[.backHup], by simp [Mux.step, List.getElem?_map, h, hl, run]⟩
    · exact ⟨[], by simp [Mux.step, List.getElem?_map, h, hl, run]⟩
  | backendEof tok =>
    by_cases hl : s.isLinkedTo tok = true
    · exact ⟨[.backEof], by simp [Mux.step, List.getElem?_map, h, hl, run]⟩
    · exact ⟨[], by simp [Mux.step, List.getElem?_map, h, hl, run]⟩
  | backendTimeout tok =>
    by_cases hl : s.isLinkedTo tok = true
    · exact ⟨[.timeoutBack], by simp [Mux.step, List.getElem?_map, h, hl, run]⟩
    · exact ⟨[], by simp [Mux.step, List.getElem?_map, h, hl, run]⟩
  | frontTimeout => exact ⟨[.timeoutFront _], by simp [Mux.step, List.getElem?_map, h, run]; rfl⟩
  | frontFlushAll => exact ⟨[.frontFlush], by simp [Mux.step, List.getElem?_map, h, run]⟩

theorem mux_run_get (cfg : Cfg) (evs : List MEv) (m : Mux) (i : Nat) (s : Stream)
    (h : m.streams[i]? = some s) :
    ∃ es, (Mux.run cfg m evs).streams[i]? = some (run cfg s es) := by
  induction evs generalizing m s with
  | nil => exact ⟨[], by simpa [Mux.run, run] using h⟩
  | cons ev evs ih =>
    obtain ⟨es1, h1⟩ := mux_step_get cfg m ev i s h
    obtain ⟨es2, h2⟩ := ih (Mux.step cfg m ev) (run cfg s es1) h1
    exact ⟨es1 ++ es2, by rw [run_append]; simpa [Mux.run] using h2⟩

theorem mux_run_append (cfg : Cfg) (m : Mux) (a b : List MEv) :
    Mux.run cfg m (a ++ b) = Mux.run cfg (Mux.run cfg m a) b := by
  simp [Mux.run, List.foldl_append]

theorem mux_init_get (n i : Nat) (s : Stream) (h : (Mux.init n).streams[i]? = some s) :
    s = Stream.init := by
  simp [Mux.init, List.getElem?_replicate] at h
  exact h.2.symm

/-- the four events that end every received request of a session -/
def settleEvents : List MEv := [.frontFlushAll, .frontTimeout, .frontFlushAll, .frontTimeout]

theorem mux_settle_get (cfg : Cfg) (m : Mux) (i : Nat) (s : Stream) (h : m.streams[i]? = some s)
    (hw : WF s) (hrecv : cfg.frontH2 = true → s.st ≠ .idle) :
    ∃ s', (Mux.run cfg m settleEvents).streams[i]? = some s' ∧ s'.outcome.isSome = true := by
  let m1 := Mux.step cfg m .frontFlushAll
  let m2 := Mux.step cfg m1 .frontTimeout
  let m3 := Mux.step cfg m2 .frontFlushAll
  have hrun : Mux.run cfg m settleEvents = Mux.step cfg m3 .frontTimeout := rfl
  let b1 := !(m1.streams.any (keepsOpen cfg))
  have h3 : m3.streams = ((m.streams.map (step cfg · .frontFlush)).map
      (step cfg · (.timeoutFront b1))).map (step cfg · .frontFlush) := rfl
  -- the pass of the second front timer closes the session: nobody keeps it open
  have hquiet : m3.streams.any (keepsOpen cfg) = false := by
    rw [List.any_eq_false]
    intro x hx
    rw [h3] at hx
    simp only [List.mem_map] at hx
    obtain ⟨x2, ⟨x1, ⟨x0, _, rfl⟩, rfl⟩, rfl⟩ := hx
    simp [quiet_after]
  have h3i : m3.streams[i]? =
      some (step cfg (step cfg (step cfg s .frontFlush) (.timeoutFront b1)) .frontFlush) := by
    rw [h3]; simp [List.getElem?_map, h]
  have h4 : (Mux.step cfg m3 .frontTimeout).streams =
      m3.streams.map (step cfg · (.timeoutFront (!(m3.streams.any (keepsOpen cfg))))) := rfl
  refine ⟨_, ?_, live_after cfg s b1 hw hrecv⟩
  rw [hrun, h4, hquiet]
  simp [List.getElem?_map, h3i]

/-! ### shape of the outcome over whole histories -/

/-- Per-step hypotheses that exclude exactly the open findings about the outcome's shape:
    (1) what sozu has buffered for the client of a linked stream is written before anything
        else happens to that stream (otherwise: `unflushed-response-dropped-silent-close`);
    (2) a backend answers only a request it was sent, and no chunked response announces
        `Connection: close` (otherwise: `default-answer-written-into-started-response`);
    (3) the backend's bytes stop parsing only before a response head was accepted. -/
def calmEv (s : Stream) (e : Ev) : Bool :=
  (!(s.isLinked && s.pending) || e == .frontFlush) &&
  (match e with
   | .backHead bs cc _ => s.frontConsumed && !(bs == .chunked && cc)
   | .backParseError => s.frontConsumed && s.phase == .initial
   | _ => true)

/-- a history in which every step is calm (computable, so concrete histories are checked
    by `decide`) -/
def calm (cfg : Cfg) : Stream → List Ev → Bool
  | _, [] => true
  | s, e :: es => calmEv s e && calm cfg (step cfg s e) es

abbrev Calm (cfg : Cfg) (s : Stream) (es : List Ev) : Prop := calm cfg s es = true

/-- the same as three implications -/
def CalmEv (s : Stream) (e : Ev) : Prop :=
  (s.isLinked = true → s.pending = true → e = .frontFlush) ∧
  (∀ bs cc nb, e = .backHead bs cc nb → s.frontConsumed = true ∧ ¬(bs = .chunked ∧ cc = true)) ∧
  (e = .backParseError → s.frontConsumed = true ∧ s.phase = .initial)

theorem calmEv_spec (s : Stream) (e : Ev) (h : calmEv s e = true) : CalmEv s e := by
  unfold calmEv at h
  refine ⟨?_, ?_, ?_⟩
  · intro hl hp
    simp [hl, hp] at h
    exact h.1
  · intro bs cc nb he
    subst he
    simp at h
    refine ⟨h.2.1, ?_⟩
    rintro ⟨rfl, rfl⟩
    simp at h
  · intro he
    subst he
    simp at h
    exact ⟨h.2.1, h.2.2⟩

/-- invariant of calm histories -/
def AInv (s : Stream) : Prop :=
  (s.outcome = none → s.started = s.backConsumed) ∧
  (s.outcome = none → s.phase = .initial → s.pending = false ∧ s.started = false ∧ s.kaBackend = true) ∧
  (s.outcome = none → s.phase ≠ .initial →
    s.frontConsumed = true ∧ s.isLinked = true ∧ (s.started = true ∨ s.pending = true) ∧
    s.phase ≠ .error ∧ (s.bodySize = .chunked → s.kaBackend = true)) ∧
  (∀ o, s.outcome = some o → Shape o)

theorem ainv_init : AInv Stream.init := by simp [AInv, Stream.init]

theorem ainv_step (cfg : Cfg) (s : Stream) (e : Ev) (hw : WF s) (hc : CalmEv s e) (h : AInv s) :
    AInv (step cfg s e) := by
  obtain ⟨a1, a2, a3, sh⟩ := h
  obtain ⟨c1, c2, c3⟩ := hc
  cases hout : s.outcome with
  | some o =>
    have hu : s.st = .unlinked := hw.1 (by simp [hout])
    have := step_unlinked cfg s e hu
    refine ⟨?_, ?_, ?_, ?_⟩
    · intro hn; rw [this.2, hout] at hn; simp at hn
    · intro hn; rw [this.2, hout] at hn; simp at hn
    · intro hn; rw [this.2, hout] at hn; simp at hn
    · intro o' ho'; rw [this.2] at ho'; exact sh o' ho'
  | none =>
    have b1 := a1 hout
    have b2 := a2 hout
    have b3 := a3 hout
    have hlive : s.st ≠ .unlinked := by
      intro hu; have := hw.2 hu; simp [hout] at this
    clear sh hw a1 a2 a3
    rcases s with ⟨st, att, fc, ph, bs, be, ka, kf, bc, pe, sr, oc⟩
    rcases cfg with ⟨h2⟩
    simp only at hout b1 b2 b3 hlive c1 c2 c3
    subst hout b1
    unfold AInv
    cases e with
    | reqParsed ok =>
      cases st <;> cases ok <;> cases ph <;> simp_all [step, Stream.isLinked, setDefault, Shape]
    | connect r =>
      cases st <;> cases r <;> cases ph <;>
        simp_all [step, Stream.isLinked, setDefault, Shape] <;> split <;> simp_all [Shape]
    | reqForwarded => cases st <;> cases ph <;> simp_all [step, Stream.isLinked]
    | backHead bs' cc nb =>
      have := c2 bs' cc nb rfl
      cases st <;> cases ph <;> cases nb <;> cases cc <;> simp_all [step, Stream.isLinked]
    | backData => cases st <;> cases ph <;> simp_all [step, Stream.isLinked]
    | backBodyEnd => cases st <;> cases ph <;> simp_all [step, Stream.isLinked]
    | backParseError =>
      have := c3 rfl
      cases st <;> cases ph <;>
        simp_all [step, Stream.isLinked, serverEndStream, Stream.decision, endStreamDecision,
          Phase.isMain, setDefault, Shape]
    | backEof =>
      cases st <;> cases ph <;> cases ka <;> cases bs <;>
        simp_all [step, Stream.isLinked, terminateCloseDelimited]
    | backHup =>
      cases st with
      | idle => clear c1 c2 c3; cases ph <;> simp_all [step, Stream.isLinked]
      | link => clear c1 c2 c3; cases ph <;> simp_all [step, Stream.isLinked]
      | unlinked => exact absurd rfl hlive
      | linked tok =>
        have hpe : pe = false := by
          cases pe with
          | false => rfl
          | true => exact absurd (c1 rfl rfl) (by simp)
        subst hpe
        clear c1 c2 c3
        cases ph <;> cases ka <;> cases fc <;> cases h2 <;>
          simp_all [step, Stream.isLinked, serverEndStream, Stream.decision, endStreamDecision,
            Phase.isMain, setDefault, forceTerminate, Shape]
    | frontFlush =>
      cases st <;> cases ph <;> cases pe <;> simp_all [step, Stream.isLinked, Shape]
    | timeoutFront may =>
      cases st <;> cases ph <;> cases pe <;> cases sr <;> cases may <;> cases h2 <;>
        simp_all [step, Stream.isLinked, setDefault, forceTerminate, Shape]
    | timeoutBack =>
      cases st <;> cases ph <;> cases pe <;> cases sr <;>
        simp_all [step, Stream.isLinked, setDefault, forceTerminate, Shape]

theorem ainv_run (cfg : Cfg) (es : List Ev) (s : Stream) (hw : WF s) (hc : Calm cfg s es)
    (h : AInv s) : AInv (run cfg s es) := by
  induction es generalizing s with
  | nil => exact h
  | cons e es ih =>
    have hc2 : (calmEv s e && calm cfg (step cfg s e) es) = true := hc
    have hc' : calmEv s e = true ∧ calm cfg (step cfg s e) es = true := by
      simpa [Bool.and_eq_true] using hc2
    exact ih _ (wf_step cfg s e hw) hc'.2 (ainv_step cfg s e hw (calmEv_spec s e hc'.1) h)

/-! ### proofs of the property theorems stated in `Props.lean` -/

theorem default_status_from_table (cfg : Cfg) (es : List Ev) (n : Nat) (a : Bool)
    (h : (run cfg Stream.init es).outcome = some (.default n a)) : ∃ c, n = statusOf c := by
  have key : ∀ (es : List Ev) (s : Stream),
      (∀ n a, s.outcome = some (.default n a) → ∃ c, n = statusOf c) →
      ∀ n a, (run cfg s es).outcome = some (.default n a) → ∃ c, n = statusOf c := by
    intro es
    induction es with
    | nil => intro s hs; exact hs
    | cons e es ih =>
      intro s hs
      apply ih
      intro n a
      cases e with
      | reqParsed ok =>
        simp only [step]; split
        · split
          · exact hs n a
          · intro h; simp at h; exact ⟨_, h.1.symm⟩
        · exact hs n a
      | connect r =>
        simp only [step]; split
        · split
          · intro h; simp at h; exact ⟨_, h.1.symm⟩
          · cases r with
            | err c => intro h; simp [setDefault] at h; exact ⟨_, h.1.symm⟩
            | linked tok => exact hs n a
        · exact hs n a
      | reqForwarded => simp only [step]; split <;> exact hs n a
      | backHead bs cc nb => simp only [step]; split <;> exact hs n a
      | backData => simp only [step]; split <;> exact hs n a
      | backBodyEnd => simp only [step]; split <;> exact hs n a
      | backParseError =>
        simp only [step]; split
        · unfold serverEndStream; split
          · intro h; simp at h
          · split <;> (intro h; simp at h)
          · intro h; simp at h
          · intro h; simp at h; exact ⟨_, h.1.symm⟩
          · exact hs n a
        · exact hs n a
      | backEof =>
        simp only [step]; split
        · unfold terminateCloseDelimited; split <;> exact hs n a
        · exact hs n a
      | backHup =>
        simp only [step]; split
        · unfold serverEndStream; split
          · intro h; simp at h
          · split <;> (intro h; simp at h)
          · intro h; simp at h
          · intro h; simp at h; exact ⟨_, h.1.symm⟩
          · exact hs n a
        · exact hs n a
      | frontFlush =>
        simp only [step]; split
        · split
          · intro h; simp at h
          · exact hs n a
        · exact hs n a
      | timeoutFront may =>
        simp only [step]; split
        · split
          · exact hs n a
          · intro h; simp at h; exact ⟨_, h.1.symm⟩
        · intro h; simp at h; exact ⟨_, h.1.symm⟩
        · split
          · intro h; simp at h; exact ⟨_, h.1.symm⟩
          · split
            · split
              · intro h; simp at h
              · exact hs n a
            · split
              · exact hs n a
              · intro h; simp at h
        · exact hs n a
      | timeoutBack =>
        simp only [step]; split
        · split
          · exact hs n a
          · split
            · intro h; simp at h; exact ⟨_, h.1.symm⟩
            · intro h; simp at h
        · exact hs n a
  exact key es Stream.init (by simp [Stream.init]) n a h

theorem exactly_one_outcome_stream (cfg : Cfg) (es es' : List Ev)
    (hrecv : cfg.frontH2 = true → (run cfg Stream.init es).st ≠ .idle) :
    (∀ o, (run cfg Stream.init es).outcome = some o →
        (run cfg Stream.init (es ++ es')).outcome = some o) ∧
    ((run cfg Stream.init es).outcome.isSome ↔ (run cfg Stream.init es).st = .unlinked) ∧
    (run cfg Stream.init (es ++ [.frontFlush, .timeoutFront true])).outcome.isSome := by
  have hw : WF (run cfg Stream.init es) := wf_run cfg es _ wf_init
  refine ⟨?_, hw, ?_⟩
  · intro o ho
    have hu : (run cfg Stream.init es).st = .unlinked := hw.1 (by simp [ho])
    rw [run_append, (run_unlinked cfg es' _ hu).2, ho]
  · rw [run_append]
    generalize run cfg Stream.init es = s at hw hrecv
    by_cases hu : s.st = .unlinked
    · rw [(run_unlinked cfg _ s hu).2]; exact hw.2 hu
    · show (step cfg (step cfg s .frontFlush) (.timeoutFront true)).outcome.isSome = true
      rcases flush_cases cfg s with ⟨h1, h2, _⟩ | ⟨h1, h2, _⟩
      · rw [(step_unlinked cfg _ _ h1).2]; exact h2
      · apply front_timer_terminal
        · rw [h1]; exact hu
        · intro hc; rw [h1]; exact hrecv hc
        · exact h2

theorem bounded_by_timeouts (cfg : Cfg) (s : Stream) (hlive : s.st ≠ .unlinked)
    (hrecv : cfg.frontH2 = true → s.st ≠ .idle) :
    armed s ≠ [] ∧
    (delivering s = false →
        .timeoutFront true ∈ armed s ∧ (step cfg s (.timeoutFront true)).outcome.isSome) ∧
    (s.isLinked = true → s.phase = .initial ∨ s.phase = .body →
        .timeoutBack ∈ armed s ∧ (step cfg s .timeoutBack).outcome.isSome) ∧
    (delivering s = true → (run cfg s [.frontFlush, .timeoutFront true]).outcome.isSome) := by
  refine ⟨?_, ?_, ?_, ?_⟩
  · cases hst : s.st <;> simp_all [armed]
  · intro hd
    refine ⟨?_, front_timer_terminal cfg s hlive hrecv hd⟩
    cases hst : s.st <;> simp_all [armed]
  · intro hl hph
    obtain ⟨tok, ht⟩ := (isLinked_iff s).1 hl
    refine ⟨by simp [armed, ht], ?_⟩
    cases hb : s.backConsumed <;> rcases hph with h | h <;> simp [step, hl, h, hb]
  · intro _
    show (step cfg (step cfg s .frontFlush) (.timeoutFront true)).outcome.isSome = true
    rcases flush_cases cfg s with ⟨h1, h2, _⟩ | ⟨h1, h2, _⟩
    · rw [(step_unlinked cfg _ _ h1).2]; exact h2
    · apply front_timer_terminal
      · rw [h1]; exact hlive
      · intro hc; rw [h1]; exact hrecv hc
      · exact h2

theorem mux_isolation (cfg : Cfg) (m : Mux) :
    (∀ (i : Nat) (e : Ev) (j : Nat), j ≠ i → (Mux.step cfg m (.at i e)).streams[j]? = m.streams[j]?) ∧
    (∀ (tok j : Nat) (s : Stream), m.streams[j]? = some s → s.isLinkedTo tok = false →
        (Mux.step cfg m (.backendHup tok)).streams[j]? = some s ∧
        (Mux.step cfg m (.backendEof tok)).streams[j]? = some s ∧
        (Mux.step cfg m (.backendTimeout tok)).streams[j]? = some s) ∧
    (∀ ev, (Mux.step cfg m ev).streams.length = m.streams.length) := by
  refine ⟨?_, ?_, ?_⟩
  · intro i e j hji
    simp only [Mux.step, List.getElem?_modify]
    have : ¬ i = j := fun h => hji h.symm
    simp [this]
  · intro tok j s hj hl
    simp [Mux.step, List.getElem?_map, hj, hl]
  · intro ev
    cases ev <;> simp [Mux.step]

theorem failed_exchange_never_pooled_step (cfg : Cfg) (s : Stream) (e : Ev)
    (hlive : s.outcome = none) (hne : e ≠ .timeoutBack)
    (hp : pooledAfter cfg s e = true) :
    ∃ bs, (step cfg s e).outcome = some (.relayed s.byEof bs) ∧ s.kaBackend = true ∧
      s.phase = .terminated := by
  rcases s with ⟨st, att, fc, ph, bs, be, ka, kf, bc, pe, sr, oc⟩
  simp only at hlive; subst hlive
  cases e with
  | frontFlush =>
    cases st <;> cases ph <;> cases pe <;> cases ka <;>
      simp_all [pooledAfter, parksBackend, step, Stream.isLinked]
  | timeoutBack => exact absurd rfl hne
  | _ => simp [pooledAfter] at hp

theorem mux_run_length (cfg : Cfg) (evs : List MEv) (m : Mux) :
    (Mux.run cfg m evs).streams.length = m.streams.length := by
  induction evs generalizing m with
  | nil => rfl
  | cons ev evs ih =>
    have := (mux_isolation cfg m).2.2 ev
    simpa [Mux.run, this] using ih (Mux.step cfg m ev)

theorem mux_exactly_one_outcome (cfg : Cfg) (n : Nat) (h h' : List MEv) (i : Nat) (s : Stream)
    (hs : (Mux.run cfg (Mux.init n) h).streams[i]? = some s)
    (hrecv : cfg.frontH2 = true → s.st ≠ .idle) :
    (∀ o, s.outcome = some o →
        ∃ s', (Mux.run cfg (Mux.init n) (h ++ h')).streams[i]? = some s' ∧ s'.outcome = some o) ∧
    (s.outcome.isSome ↔ s.st = .unlinked) ∧
    (∃ s', (Mux.run cfg (Mux.init n) (h ++ settleEvents)).streams[i]? = some s' ∧
        s'.outcome.isSome = true) := by
  -- stream `i` exists from the start and only went through events of its own
  have hi : i < n := by
    have hlt : i < (Mux.run cfg (Mux.init n) h).streams.length := by
      rcases Nat.lt_or_ge i (Mux.run cfg (Mux.init n) h).streams.length with hl | hl
      · exact hl
      · rw [List.getElem?_eq_none hl] at hs; cases hs
    rw [mux_run_length] at hlt
    simpa [Mux.init] using hlt
  have h0 : (Mux.init n).streams[i]? = some Stream.init := by
    simp [Mux.init, List.getElem?_replicate, hi]
  obtain ⟨es, hes⟩ := mux_run_get cfg h (Mux.init n) i Stream.init h0
  have hse : s = run cfg Stream.init es := by
    rw [hs] at hes; exact Option.some.inj hes
  have hw : WF s := hse ▸ wf_run cfg es _ wf_init
  refine ⟨?_, hw, ?_⟩
  · intro o ho
    obtain ⟨es', hes'⟩ := mux_run_get cfg h' (Mux.run cfg (Mux.init n) h) i s hs
    refine ⟨_, by rw [mux_run_append]; exact hes', ?_⟩
    have hu : s.st = .unlinked := hw.1 (by simp [ho])
    rw [(run_unlinked cfg es' s hu).2, ho]
  · rw [mux_run_append]
    exact mux_settle_get cfg _ i s hs hw hrecv

/-! ### pooling over histories -/

/-- `byEof` is only set on responses of backends that are not keep-alive -/
def BInv (s : Stream) : Prop :=
  (s.phase = .initial → s.kaBackend = true ∧ s.byEof = false) ∧ (s.byEof = true → s.kaBackend = false)

theorem binv_step (cfg : Cfg) (s : Stream) (e : Ev) (h : BInv s) : BInv (step cfg s e) := by
  rcases s with ⟨st, att, fc, ph, bs, be, ka, kf, bc, pe, sr, oc⟩
  rcases cfg with ⟨h2⟩
  unfold BInv at h ⊢
  cases e with
  | backHup =>
    cases st <;> cases ph <;> cases ka <;> cases be <;> cases fc <;> cases h2 <;>
      simp_all [step, Stream.isLinked, serverEndStream, Stream.decision, endStreamDecision,
        Phase.isMain, setDefault, forceTerminate]
  | backParseError =>
    cases st <;> cases ph <;> cases ka <;> cases be <;> cases fc <;> cases h2 <;>
      simp_all [step, Stream.isLinked, serverEndStream, Stream.decision, endStreamDecision,
        Phase.isMain, setDefault, forceTerminate]
  | backEof =>
    cases st <;> cases ph <;> cases ka <;> cases be <;> cases bs <;>
      simp_all [step, Stream.isLinked, terminateCloseDelimited]
  | backHead bs' cc nb =>
    cases st <;> cases ph <;> cases ka <;> cases be <;> cases cc <;> cases nb <;>
      simp_all [step, Stream.isLinked]
  | connect r =>
    cases st <;> cases ph <;> cases ka <;> cases be <;> cases r <;>
      simp_all [step, Stream.isLinked, setDefault] <;> split <;> simp_all
  | reqParsed ok =>
    cases st <;> cases ph <;> cases ka <;> cases be <;> cases ok <;>
      simp_all [step, Stream.isLinked, setDefault]
  | frontFlush =>
    cases st <;> cases ph <;> cases ka <;> cases be <;> cases pe <;>
      simp_all [step, Stream.isLinked]
  | timeoutFront may =>
    cases st <;> cases ph <;> cases ka <;> cases be <;> cases pe <;> cases bc <;> cases may <;> cases h2 <;>
      simp_all [step, Stream.isLinked, setDefault, forceTerminate]
  | timeoutBack =>
    cases st <;> cases ph <;> cases ka <;> cases be <;> cases bc <;>
      simp_all [step, Stream.isLinked, setDefault, forceTerminate]
  | _ =>
    cases st <;> cases ph <;> cases ka <;> cases be <;> simp_all [step, Stream.isLinked]

theorem binv_run (cfg : Cfg) (es : List Ev) (s : Stream) (h : BInv s) : BInv (run cfg s es) := by
  induction es generalizing s with
  | nil => exact h
  | cons e es ih => exact ih _ (binv_step cfg s e h)

theorem failed_exchange_never_pooled (cfg : Cfg) (es : List Ev) (e : Ev)
    (hne : e ≠ .timeoutBack)
    (hp : pooledAfter cfg (run cfg Stream.init es) e = true) :
    ∃ bs, (run cfg Stream.init (es ++ [e])).outcome = some (.relayed false bs) ∧
      (run cfg Stream.init es).kaBackend = true ∧
      (run cfg Stream.init es).phase = .terminated := by
  have hw : WF (run cfg Stream.init es) := wf_run cfg es _ wf_init
  have hb : BInv (run cfg Stream.init es) := binv_run cfg es _ (by simp [BInv, Stream.init])
  have hlive : (run cfg Stream.init es).outcome = none := by
    cases ho : (run cfg Stream.init es).outcome with
    | none => rfl
    | some o =>
      have hu := hw.1 (by simp [ho])
      simp [pooledAfter, not_linked_of_unlinked hu] at hp
  obtain ⟨bs, h1, h2, h3⟩ := failed_exchange_never_pooled_step cfg _ e hlive hne hp
  have hbe : (run cfg Stream.init es).byEof = false := by
    cases hbe : (run cfg Stream.init es).byEof with
    | false => rfl
    | true => have := hb.2 hbe; rw [h2] at this; cases this
  refine ⟨bs, ?_, h2, h3⟩
  rw [run_append]
  show (step cfg (run cfg Stream.init es) e).outcome = _
  rw [h1, hbe]

end Sozu.Answers
