import Sozu.Answers.Model
/-!
Helper lemmas for the Answers (C02) theorems: the invariants of the
per-request machine and their preservation by every event.
-/
set_option linter.unusedSimpArgs false
set_option linter.unusedVariables false
namespace Sozu.Answers
open Sozu

/-- an outcome exists exactly when the stream has left the live states -/
def WF (s : Stream) : Prop := s.outcome.isSome ↔ s.st = .unlinked

theorem wf_init : WF Stream.init := by simp [WF, Stream.init]

@[simp] theorem setDefault_st (s : Stream) (c : Cause) : (setDefault s c).st = .unlinked := rfl
@[simp] theorem setDefault_outcome (s : Stream) (c : Cause) :
    (setDefault s c).outcome = some (.default (statusOf c) s.started) := rfl
@[simp] theorem forceTerminate_st (s : Stream) : (forceTerminate s).st = .unlinked := rfl
@[simp] theorem forceTerminate_outcome (s : Stream) :
    (forceTerminate s).outcome = some (.abort s.started) := rfl

theorem isLinked_iff (s : Stream) : s.isLinked = true ↔ ∃ tok, s.st = .linked tok := by
  unfold Stream.isLinked; cases s.st <;> simp

theorem not_linked_of_unlinked {s : Stream} (h : s.st = .unlinked) : s.isLinked = false := by
  unfold Stream.isLinked; rw [h]

theorem wf_serverEndStream (h2 : Bool) (s : Stream) (hl : s.isLinked = true) (hw : WF s) :
    WF (serverEndStream h2 s) := by
  obtain ⟨tok, ht⟩ := (isLinked_iff s).1 hl
  have hn : s.outcome = none := by
    cases ho : s.outcome with
    | none => rfl
    | some o => have := hw.1 (by simp [ho]); simp [ht] at this
  unfold serverEndStream
  split <;> (try split) <;> simp [WF, setDefault, forceTerminate, hn]

theorem wf_step (cfg : Cfg) (s : Stream) (e : Ev) (hw : WF s) : WF (step cfg s e) := by
  have hnone : s.st ≠ .unlinked → s.outcome = none := by
    intro h
    cases ho : s.outcome with
    | none => rfl
    | some o => exact absurd (hw.1 (by simp [ho])) h
  cases e with
  | reqParsed ok =>
    simp only [step]
    split
    · next h => split <;> simp [WF, hnone (by simp [h]), setDefault]
    · exact hw
  | connect r =>
    simp only [step]
    split
    · next h =>
      split
      · simp [WF]
      · cases r <;> simp [WF, hnone (by simp [h]), setDefault]
    · exact hw
  | reqForwarded =>
    simp only [step]; split
    · exact ⟨fun h => hw.1 h, fun h => hw.2 h⟩
    · exact hw
  | backHead bs cc nb =>
    simp only [step]; split
    · exact ⟨fun h => hw.1 h, fun h => hw.2 h⟩
    · exact hw
  | backData =>
    simp only [step]; split
    · exact ⟨fun h => hw.1 h, fun h => hw.2 h⟩
    · exact hw
  | backBodyEnd =>
    simp only [step]; split
    · exact ⟨fun h => hw.1 h, fun h => hw.2 h⟩
    · exact hw
  | backParseError =>
    simp only [step]; split
    · next h =>
      apply wf_serverEndStream
      · exact h.1
      · exact ⟨fun h' => hw.1 h', fun h' => hw.2 h'⟩
    · exact hw
  | backEof =>
    simp only [step]; split
    · unfold terminateCloseDelimited; split <;> exact ⟨fun h => hw.1 h, fun h => hw.2 h⟩
    · exact hw
  | backHup =>
    simp only [step]; split
    · next h => exact wf_serverEndStream _ _ h hw
    · exact hw
  | frontFlush =>
    simp only [step]; split
    · split
      · simp [WF]
      · exact ⟨fun h => hw.1 h, fun h => hw.2 h⟩
    · exact hw
  | timeoutFront may =>
    simp only [step]
    split
    · next h => split <;> first | exact hw | simp [WF]
    · simp [WF]
    · next tok h =>
      split
      · simp [WF]
      · split
        · split
          · simp [WF]
          · exact hw
        · split
          · exact hw
          · simp [WF]
    · exact hw
  | timeoutBack =>
    simp only [step]; split
    · split
      · exact hw
      · split <;> simp [WF]
    · exact hw

theorem wf_run (cfg : Cfg) (es : List Ev) (s : Stream) (hw : WF s) : WF (run cfg s es) := by
  induction es generalizing s with
  | nil => exact hw
  | cons e es ih => exact ih _ (wf_step cfg s e hw)

/-- a stream that has its outcome keeps it (and stays Unlinked) whatever happens -/
theorem step_unlinked (cfg : Cfg) (s : Stream) (e : Ev) (h : s.st = .unlinked) :
    (step cfg s e).st = .unlinked ∧ (step cfg s e).outcome = s.outcome := by
  have hl := not_linked_of_unlinked h
  cases e <;> simp [step, h, hl]
  · split <;> simp [h, hl, Stream.isLinked]

theorem run_unlinked (cfg : Cfg) (es : List Ev) (s : Stream) (h : s.st = .unlinked) :
    (run cfg s es).st = .unlinked ∧ (run cfg s es).outcome = s.outcome := by
  induction es generalizing s with
  | nil => exact ⟨h, rfl⟩
  | cons e es ih =>
    have := step_unlinked cfg s e h
    have h2 := ih (step cfg s e) this.1
    exact ⟨h2.1, h2.2.trans this.2⟩


/-- the frontend timer ends every live request, unless a complete (or broken)
    response is half-way to a client that does not read -/
theorem front_timer_terminal (cfg : Cfg) (s : Stream) (hlive : s.st ≠ .unlinked)
    (hrecv : cfg.frontH2 = true → s.st ≠ .idle) (hd : delivering s = false) :
    (step cfg s (.timeoutFront true)).outcome.isSome = true := by
  cases hst : s.st with
  | unlinked => exact absurd hst hlive
  | idle =>
    have hf : cfg.frontH2 = false := by
      cases hc : cfg.frontH2 with
      | false => rfl
      | true => exact absurd hst (hrecv hc)
    simp [step, hst, hf]
  | link => simp [step, hst]
  | linked tok =>
    cases hb : s.backConsumed <;> cases hp : s.pending <;> cases hph : s.phase <;>
      simp_all [step, delivering, Stream.isLinked]

/-- after the client took what was pending, either the request is over or nothing is
    being delivered any more -/
theorem flush_cases (cfg : Cfg) (s : Stream) :
    ((step cfg s .frontFlush).st = .unlinked ∧ (step cfg s .frontFlush).outcome.isSome = true ∧
        s.st ≠ .unlinked) ∨
    ((step cfg s .frontFlush).st = s.st ∧ delivering (step cfg s .frontFlush) = false ∧
        (step cfg s .frontFlush).outcome = s.outcome) := by
  cases hp : s.pending with
  | false => right; simp [step, hp, delivering]
  | true =>
    cases hst : s.st <;> cases hph : s.phase <;>
      simp [step, hp, hst, hph, delivering, Stream.isLinked]

theorem run_append (cfg : Cfg) (s : Stream) (a b : List Ev) :
    run cfg s (a ++ b) = run cfg (run cfg s a) b := by
  simp [run, List.foldl_append]

/-! ### "the end of the connection completes a message" only for close-delimited bodies -/

/-- responses that announce `Connection: close` have neither Content-Length nor
    chunked coding (the hypothesis of the partial theorem; the code does not check it) -/
def TameEv : Ev → Prop
  | .backHead bs true _ => bs = .empty
  | _ => True

structure KInv (s : Stream) : Prop where
  k1 : s.phase = .initial → s.kaBackend = true ∧ s.byEof = false
  k2 : s.kaBackend = false → s.bodySize = .empty
  k3 : s.byEof = true → s.kaBackend = false
  k4 : ∀ bs, s.outcome = some (.relayed true bs) → bs = .empty

theorem kinv_init : KInv Stream.init := by
  constructor <;> simp [Stream.init]

theorem decision_closeDelimited {s : Stream} (h : s.decision = .closeDelimited) :
    s.kaBackend = false := by
  revert h
  unfold Stream.decision endStreamDecision
  cases s.phase.isMain <;> cases (s.phase == .terminated) <;> cases s.kaBackend <;>
    cases s.frontConsumed <;> simp

theorem decision_main {s : Stream}
    (h : s.decision = .closeDelimited ∨ s.decision = .forwardTerminated ∨ s.decision = .forwardUnterminated) :
    s.phase ≠ .initial := by
  revert h
  unfold Stream.decision endStreamDecision
  cases s.phase <;> cases s.kaBackend <;> cases s.frontConsumed <;> simp [Phase.isMain]

theorem kinv_serverEndStream (h2 : Bool) (s : Stream) (h : KInv s) : KInv (serverEndStream h2 s) := by
  obtain ⟨k1, k2, k3, k4⟩ := h
  unfold serverEndStream
  cases hd : s.decision with
  | forwardTerminated =>
    refine ⟨k1, k2, k3, ?_⟩
    intro bs hb
    simp at hb
    have := k2 (k3 hb.1)
    rw [← hb.2]; exact this
  | closeDelimited =>
    have hk := decision_closeDelimited hd
    have hm := decision_main (Or.inl hd)
    cases h2 with
    | true =>
      refine ⟨by simp, k2, fun _ => hk, ?_⟩
      intro bs hb
      simp at hb
      rw [← hb]; exact k2 hk
    | false =>
      refine ⟨k1, k2, k3, ?_⟩
      intro bs hb; simp at hb
  | forwardUnterminated =>
    have hm := decision_main (Or.inr (Or.inr hd))
    refine ⟨by simp [forceTerminate], k2, k3, ?_⟩
    intro bs hb; simp [forceTerminate] at hb
  | sendDefault n =>
    refine ⟨by simp [setDefault], by simp [setDefault], by simpa [setDefault] using k3, ?_⟩
    intro bs hb; simp [setDefault] at hb
  | reconnect => exact ⟨k1, k2, k3, k4⟩

theorem kinv_setDefault (s : Stream) (c : Cause) (h : KInv s) : KInv (setDefault s c) := by
  obtain ⟨k1, k2, k3, k4⟩ := h
  refine ⟨by simp [setDefault], by simp [setDefault], by simpa [setDefault] using k3, ?_⟩
  intro bs hb; simp [setDefault] at hb

theorem kinv_forceTerminate (s : Stream) (h : KInv s) : KInv (forceTerminate s) := by
  obtain ⟨k1, k2, k3, k4⟩ := h
  refine ⟨by simp [forceTerminate], k2, k3, ?_⟩
  intro bs hb; simp [forceTerminate] at hb

theorem kinv_step (cfg : Cfg) (s : Stream) (e : Ev) (ht : TameEv e) (h : KInv s) :
    KInv (step cfg s e) := by
  have ⟨k1, k2, k3, k4⟩ := h
  cases e with
  | reqParsed ok =>
    simp only [step]; split
    · split
      · exact ⟨k1, k2, k3, k4⟩
      · exact kinv_setDefault _ _ h
    · exact h
  | connect r =>
    simp only [step]; split
    · split
      · exact kinv_setDefault _ _ h
      · cases r with
        | err c => exact kinv_setDefault _ _ ⟨k1, k2, k3, k4⟩
        | linked tok => exact ⟨k1, k2, k3, k4⟩
    · exact h
  | reqForwarded => simp only [step]; split <;> first | exact h | exact ⟨k1, k2, k3, k4⟩
  | backHead bs cc nb =>
    simp only [step]; split
    · next hc =>
      obtain ⟨hk, hb⟩ := k1 hc.2
      refine ⟨?_, ?_, ?_, k4⟩
      · intro hph; cases nb <;> simp at hph
      · intro hka
        cases cc with
        | false => simp [hk] at hka
        | true => exact ht
      · intro hbe; simp [hb] at hbe
    · exact h
  | backData =>
    simp only [step]; split
    · exact ⟨k1, k2, k3, k4⟩
    · exact h
  | backBodyEnd =>
    simp only [step]; split
    · exact ⟨by simp, k2, k3, k4⟩
    · exact h
  | backParseError =>
    simp only [step]; split
    · apply kinv_serverEndStream
      exact ⟨by simp, k2, k3, k4⟩
    · exact h
  | backEof =>
    simp only [step]; split
    · next hc =>
      unfold terminateCloseDelimited
      split
      · exact ⟨by simp, k2, k3, k4⟩
      · exact ⟨by simp, k2, fun _ => hc.2.2, k4⟩
    · exact h
  | backHup =>
    simp only [step]; split
    · exact kinv_serverEndStream _ _ h
    · exact h
  | frontFlush =>
    simp only [step]; split
    · split
      · refine ⟨k1, k2, k3, ?_⟩
        intro bs hb
        simp at hb
        rw [← hb.2]; exact k2 (k3 hb.1)
      · exact ⟨k1, k2, k3, k4⟩
    · exact h
  | timeoutFront may =>
    simp only [step]; split
    · split
      · exact h
      · exact kinv_setDefault _ _ h
    · exact kinv_setDefault _ _ h
    · split
      · exact kinv_setDefault _ _ h
      · split
        · split
          · refine ⟨k1, k2, k3, ?_⟩
            intro bs hb; simp at hb
          · exact h
        · split
          · exact h
          · exact kinv_forceTerminate _ h
    · exact h
  | timeoutBack =>
    simp only [step]; split
    · split
      · exact h
      · split
        · exact kinv_setDefault _ _ h
        · exact kinv_forceTerminate _ h
    · exact h

theorem kinv_run (cfg : Cfg) (es : List Ev) (s : Stream) (ht : ∀ e ∈ es, TameEv e) (h : KInv s) :
    KInv (run cfg s es) := by
  induction es generalizing s with
  | nil => exact h
  | cons e es ih =>
    exact ih _ (fun e' he' => ht e' (List.mem_cons_of_mem _ he'))
      (kinv_step cfg s e (ht e (List.mem_cons_self ..)) h)

/-! ### shape of the outcome when nothing is left unwritten -/

/-- the outcomes the property allows: a relayed response, a proxy answer given
    before anything of another answer went out, an abort after the response started -/
def Shape : Outcome → Prop
  | .relayed _ _ => True
  | .default _ a => a = false
  | .abort a => a = true

/-- a live request for which everything sozu received from the backend has been
    written to the client, and whose response buffer is not in the error phase -/
structure Settled (s : Stream) : Prop where
  live : s.outcome = none
  flushed : s.pending = false
  noErr : s.phase ≠ .error
  st1 : s.started = s.backConsumed
  st2 : s.phase = .initial → s.started = false
  st3 : s.phase ≠ .initial → s.started = true ∧ s.isLinked = true

theorem settled_shape (cfg : Cfg) (s : Stream) (e : Ev) (h : Settled s)
    (hpe : e = .backParseError → s.phase = .initial) :
    ∀ o, (step cfg s e).outcome = some o → Shape o := by
  obtain ⟨live, flushed, noErr, st1, st2, st3⟩ := h
  rcases s with ⟨st, att, fc, ph, bs, be, ka, kf, bc, pe, sr, oc⟩
  rcases cfg with ⟨h2⟩
  simp only at live flushed noErr st1 st2 st3 hpe
  subst live flushed st1
  cases e with
  | reqParsed ok => cases st <;> cases ok <;> cases ph <;> simp_all [step, setDefault, Shape, Stream.isLinked]
  | connect r =>
    cases st <;> cases r <;> cases ph <;> simp_all [step, setDefault, Shape, Stream.isLinked] <;>
      split <;> simp_all [Shape]
  | reqForwarded => cases st <;> simp_all [step, Stream.isLinked]
  | backHead bs' cc nb => cases st <;> cases ph <;> simp_all [step, Stream.isLinked]
  | backData => cases st <;> cases ph <;> simp_all [step, Stream.isLinked]
  | backBodyEnd => cases st <;> cases ph <;> simp_all [step, Stream.isLinked]
  | backParseError =>
    cases st <;> cases ph <;> cases fc <;>
      simp_all [step, Stream.isLinked, serverEndStream, Stream.decision, endStreamDecision,
        Phase.isMain, setDefault, Shape]
  | backEof =>
    cases st <;> cases ph <;> cases ka <;> cases bs <;>
      simp_all [step, Stream.isLinked, terminateCloseDelimited]
  | backHup =>
    cases st <;> cases ph <;> cases ka <;> cases fc <;> cases h2 <;>
      simp_all [step, Stream.isLinked, serverEndStream, Stream.decision, endStreamDecision,
        Phase.isMain, setDefault, forceTerminate, Shape]
  | frontFlush => simp_all [step]
  | timeoutFront may =>
    cases st <;> cases ph <;> cases may <;> cases h2 <;>
      simp_all [step, Stream.isLinked, setDefault, forceTerminate, Shape]
  | timeoutBack =>
    cases st <;> cases ph <;> simp_all [step, Stream.isLinked, setDefault, forceTerminate, Shape]

end Sozu.Answers
