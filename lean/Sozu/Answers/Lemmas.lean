import Sozu.Answers.Model
/-!
Helper lemmas for the Answers (C02) theorems: the invariants of the
per-request machine and their preservation by every event.
-/
set_option linter.unusedSimpArgs false
set_option linter.unusedVariables false
namespace Sozu.Answers
open Sozu

/-- an outcome exists exactly when the stream has left the live states -/
def WF (s : Stream) : Prop := s.outcome.isSome ↔ s.st = .unlinked

theorem wf_init : WF Stream.init := by simp [WF, Stream.init]

@[simp] theorem setDefault_st (s : Stream) (c : Cause) : (setDefault s c).st = .unlinked := rfl
@[simp] theorem setDefault_outcome (s : Stream) (c : Cause) :
    (setDefault s c).outcome = some (.default (statusOf c) s.started) := rfl
@[simp] theorem forceTerminate_st (s : Stream) : (forceTerminate s).st = .unlinked := rfl
@[simp] theorem forceTerminate_outcome (s : Stream) :
    (forceTerminate s).outcome = some (.abort s.started) := rfl

theorem isLinked_iff (s : Stream) : s.isLinked = true ↔ ∃ tok, s.st = .linked tok := by
  unfold Stream.isLinked; cases s.st <;> simp

theorem not_linked_of_unlinked {s : Stream} (h : s.st = .unlinked) : s.isLinked = false := by
  unfold Stream.isLinked; rw [h]

theorem wf_serverEndStream (h2 : Bool) (s : Stream) (hl : s.isLinked = true) (hw : WF s) :
    WF (serverEndStream h2 s) := by
  obtain ⟨tok, ht⟩ := (isLinked_iff s).1 hl
  have hn : s.outcome = none := by
    cases ho : s.outcome with
    | none => rfl
    | some o => have := hw.1 (by simp [ho]); simp [ht] at this
  unfold serverEndStream
  split <;> (try split) <;> simp [WF, setDefault, forceTerminate, hn]

theorem wf_step (cfg : Cfg) (s : Stream) (e : Ev) (hw : WF s) : WF (step cfg s e) := by
  have hnone : s.st ≠ .unlinked → s.outcome = none := by
    intro h
    cases ho : s.outcome with
    | none => rfl
    | some o => exact absurd (hw.1 (by simp [ho])) h
  cases e with
  | reqParsed ok =>
    simp only [step]
    split
    · next h => split <;> simp [WF, hnone (by simp [h]), setDefault]
    · exact hw
  | connect r =>
    simp only [step]
    split
    · next h =>
      split
      · simp [WF]
      · cases r <;> simp [WF, hnone (by simp [h]), setDefault]
    · exact hw
  | reqForwarded =>
    simp only [step]; split
    · exact ⟨fun h => hw.1 h, fun h => hw.2 h⟩
    · exact hw
  | backHead bs cc nb =>
    simp only [step]; split
    · exact ⟨fun h => hw.1 h, fun h => hw.2 h⟩
    · exact hw
  | backBodyEnd =>
    simp only [step]; split
    · exact ⟨fun h => hw.1 h, fun h => hw.2 h⟩
    · exact hw
  | backParseError =>
    simp only [step]; split
    · next h =>
      apply wf_serverEndStream
      · exact h.1
      · exact ⟨fun h' => hw.1 h', fun h' => hw.2 h'⟩
    · exact hw
  | backEof =>
    simp only [step]; split
    · unfold terminateCloseDelimited; split <;> exact ⟨fun h => hw.1 h, fun h => hw.2 h⟩
    · exact hw
  | backHup =>
    simp only [step]; split
    · next h => exact wf_serverEndStream _ _ h hw
    · exact hw
  | frontFlush =>
    simp only [step]; split
    · split
      · simp [WF]
      · exact ⟨fun h => hw.1 h, fun h => hw.2 h⟩
    · exact hw
  | timeoutFront may =>
    simp only [step]
    split
    · next h => split <;> first | exact hw | simp [WF]
    · simp [WF]
    · next tok h =>
      split
      · simp [WF]
      · split
        · split
          · simp [WF]
          · exact hw
        · split
          · exact hw
          · simp [WF]
    · exact hw
  | timeoutBack =>
    simp only [step]; split
    · split
      · exact hw
      · split <;> simp [WF]
    · exact hw

theorem wf_run (cfg : Cfg) (es : List Ev) (s : Stream) (hw : WF s) : WF (run cfg s es) := by
  induction es generalizing s with
  | nil => exact hw
  | cons e es ih => exact ih _ (wf_step cfg s e hw)

/-- a stream that has its outcome keeps it (and stays Unlinked) whatever happens -/
theorem step_unlinked (cfg : Cfg) (s : Stream) (e : Ev) (h : s.st = .unlinked) :
    (step cfg s e).st = .unlinked ∧ (step cfg s e).outcome = s.outcome := by
  have hl := not_linked_of_unlinked h
  cases e <;> simp [step, h, hl]
  · split <;> simp [h, hl, Stream.isLinked]

theorem run_unlinked (cfg : Cfg) (es : List Ev) (s : Stream) (h : s.st = .unlinked) :
    (run cfg s es).st = .unlinked ∧ (run cfg s es).outcome = s.outcome := by
  induction es generalizing s with
  | nil => exact ⟨h, rfl⟩
  | cons e es ih =>
    have := step_unlinked cfg s e h
    have h2 := ih (step cfg s e) this.1
    exact ⟨h2.1, h2.2.trans this.2⟩


/-- the frontend timer ends every live request, unless a complete (or broken)
    response is half-way to a client that does not read -/
theorem front_timer_terminal (cfg : Cfg) (s : Stream) (hlive : s.st ≠ .unlinked)
    (hrecv : cfg.frontH2 = true → s.st ≠ .idle) (hd : delivering s = false) :
    (step cfg s (.timeoutFront true)).outcome.isSome = true := by
  cases hst : s.st with
  | unlinked => exact absurd hst hlive
  | idle =>
    have hf : cfg.frontH2 = false := by
      cases hc : cfg.frontH2 with
      | false => rfl
      | true => exact absurd hst (hrecv hc)
    simp [step, hst, hf]
  | link => simp [step, hst]
  | linked tok =>
    cases hb : s.backConsumed <;> cases hp : s.pending <;> cases hph : s.phase <;>
      simp_all [step, delivering, Stream.isLinked]

/-- after the client took what was pending, either the request is over or nothing is
    being delivered any more -/
theorem flush_cases (cfg : Cfg) (s : Stream) :
    ((step cfg s .frontFlush).st = .unlinked ∧ (step cfg s .frontFlush).outcome.isSome = true ∧
        s.st ≠ .unlinked) ∨
    ((step cfg s .frontFlush).st = s.st ∧ delivering (step cfg s .frontFlush) = false ∧
        (step cfg s .frontFlush).outcome = s.outcome) := by
  cases hp : s.pending with
  | false => right; simp [step, hp, delivering]
  | true =>
    cases hst : s.st <;> cases hph : s.phase <;>
      simp [step, hp, hst, hph, delivering, Stream.isLinked]

theorem run_append (cfg : Cfg) (s : Stream) (a b : List Ev) :
    run cfg s (a ++ b) = run cfg (run cfg s a) b := by
  simp [run, List.foldl_append]

end Sozu.Answers
