import Sozu.Hub.Lemmas
/-
C09 — the main process's verdict to a client matches what the workers did.
Only property statements (`C09_*`), the predicates they mention and their
non-vacuity examples live here; every proof longer than an application is in
`Lemmas.lean`.

The theorems are stated for `Hub.init fwd excl ret T n`: any worker timeout `T`,
any number of workers `n`, and the code-shape flags the translator reads from
the source (`fwd`: `handle_finishing_task` forwards `timed_out`; `excl`:
`StopTask::on_finish` does not send Ok after its timed-out failure; `ret`:
`handle_worker_response` retires an id once it got a terminal answer). The code
as it was before the C09 repairs is `false false false`, the code as it is now
`true true true`; the driver runs `Hub.ofCode`, i.e. the values of
`Sozu.Consts.hub*` (a fourth flag, whether `request_type: None`, LaunchWorker
and ReturnListenSockets are answered, selects the verb class those requests are
given by `ClientVerb.classify`). Event sequences (`List Op`) are arbitrary: any
interleaving of client requests from any number of clients, worker responses
(any status, any id, known or not, duplicated, late), failed sends, worker
channel closes, client hang-ups, time advances and passes of the run loop.

What is still FALSE for the code as it is now is stated through four explicit
predicates — `Hangs` (F36), `ShutDown` (F37), `VerdictIgnoresWorkers` (F38,
F39) — under whose negation the properties hold for EVERY verb, and by
counterexample theorems showing each predicate is reachable.
-/
set_option linter.unusedSimpArgs false
set_option linter.unusedVariables false
namespace Sozu.Hub

-- =========================================================== the open findings ==

/-- F36 `no-deadline-request-hangs`: request `r` has a pending task gathered with
    `Timeout::None` (SoftStop, LoadState) for which some id is still unanswered -/
def Hangs (r : Nat) (h : Hub) : Prop :=
  ∃ t ∈ h.tasks, t.req = r ∧ t.verb.hasDeadline = false ∧ hasFinished t = false

/-- F37 `pending-request-dropped-at-stop`: a stop verb completed, the main process
    is gone (pending requests of other clients are never answered) -/
def ShutDown (h : Hub) : Prop := h.run = .exited

/-- F38 / F39 `query-ok-without-all-workers`, `stop-ok-without-all-workers`: verbs
    whose `on_finish` does not look at what the workers answered -/
def VerdictIgnoresWorkers (v : Verb) : Prop := v = .query ∨ v = .softStop ∨ v = .hardStop

instance (v : Verb) : Decidable (VerdictIgnoresWorkers v) := by unfold VerdictIgnoresWorkers; infer_instance

-- ===================================================== one final answer ==

/-- **C09 (never two verdicts).** For every event sequence, no request is ever
    given more than one final answer — provided a finished task produces one
    verdict, which holds for the code as it is now (`excl = true`) and as it
    was (`fwd = false`). -/
theorem C09_at_most_one_final (fwd excl ret : Bool) (T n : Nat) (hc : fwd = false ∨ excl = true)
    (ops : List Op) (r : Nat) :
    finalsOf r (run (Hub.init fwd excl ret T n) ops).log ≤ 1 := by
  have := acct_le_one_run _ ops (good_init fwd excl ret T n hc) (fun r => by rw [acct_init]; omega) r
  simp only [acct] at this; omega

example : finalsOf 0 (run (Hub.init true true true 10 1) [.request 0 .hardStop, .advance 11, .tick]).log = 1 := by decide

/-- forwarding `timed_out` alone would not be enough: `StopTask::on_finish` then
    sends the timed-out failure **and** the Ok — two final answers for one HardStop. -/
theorem C09_at_most_one_final_counterexample :
    finalsOf 0 (run (Hub.init true false false 10 1) [.request 0 .hardStop, .advance 11, .tick]).log = 2 := by
  decide

/-- **C09 (exactly one final answer — every verb, every code shape with one
    verdict per task).** A request accepted by a running main process, for any
    verb that is answered at all, whose pending tasks are all releasable
    (finished, or past their deadline) at a run-loop pass that happens while the
    main process still runs, has exactly one final answer from then on —
    whatever the workers, the other clients and the other requests did in
    between and do afterwards. -/
theorem C09_one_final_answer_when_releasable (fwd excl ret : Bool) (T n : Nat) (hc : fwd = false ∨ excl = true)
    (pre mid post : List Op) (c : Nat) (v : Verb) (hans : v.answers = true)
    (halive : ¬ ShutDown (run (Hub.init fwd excl ret T n) pre))
    (halive' : ¬ ShutDown (run (Hub.init fwd excl ret T n) (pre ++ [.request c v] ++ mid)))
    (hrel : ∀ t ∈ (run (Hub.init fwd excl ret T n) (pre ++ [.request c v] ++ mid)).tasks,
        t.req = (run (Hub.init fwd excl ret T n) pre).nextReq →
        isDone (run (Hub.init fwd excl ret T n) (pre ++ [.request c v] ++ mid)).now t = true) :
    finalsOf (run (Hub.init fwd excl ret T n) pre).nextReq
      (run (Hub.init fwd excl ret T n) (pre ++ [.request c v] ++ mid ++ [.tick] ++ post)).log = 1 :=
  one_final_core fwd excl ret T n hc pre mid post c v hans halive halive' hrel

/-- **C09 (exactly one final answer), flag-parametric.** For a verb answered at
    once or gathered under the worker timeout: exactly one final answer after
    the first run-loop pass later than `T` after the request, while the main
    process runs. -/
theorem C09_one_final_answer_partial (fwd excl ret : Bool) (T n : Nat) (hc : fwd = false ∨ excl = true)
    (pre mid post : List Op) (c : Nat) (v : Verb)
    (hv : v.hasDeadline = true ∨ v.immediate.isSome = true)
    (halive : (run (Hub.init fwd excl ret T n) pre).run ≠ .exited)
    (halive' : (run (Hub.init fwd excl ret T n) (pre ++ [.request c v] ++ mid)).run ≠ .exited)
    (hlate : (run (Hub.init fwd excl ret T n) pre).now + T
        < (run (Hub.init fwd excl ret T n) (pre ++ [.request c v] ++ mid)).now) :
    finalsOf (run (Hub.init fwd excl ret T n) pre).nextReq
      (run (Hub.init fwd excl ret T n) (pre ++ [.request c v] ++ mid ++ [.tick] ++ post)).log = 1 :=
  one_final_deadline_core fwd excl ret T n hc pre mid post c v hv halive halive' hlate

/-- the hypotheses are satisfiable, with a silent worker too -/
example :
    let s := Hub.init false false false 10 2
    (run s []).run ≠ .exited ∧
    (run s ([] ++ [.request 0 .worker] ++ [.advance 11])).run ≠ .exited ∧
    (run s []).now + 10 < (run s ([] ++ [.request 0 .worker] ++ [.advance 11])).now ∧
    finalsOf 0 (run s ([] ++ [.request 0 .worker] ++ [.advance 11] ++ [.tick] ++ [])).log = 1 := by
  decide

/-- **C09 (exactly one final answer), the code as it is now, EVERY client
    request.** Every request the command socket can carry (`cv` arbitrary:
    mutating, rejected by the main state, query, status, metrics, list,
    HardStop, SoftStop, LoadState of any file, `request_type: None`,
    LaunchWorker, ReturnListenSockets, ReloadConfiguration of any path,
    SetMetricDetail, …), accepted by a running main process, has
    exactly one final answer after the first run-loop pass later than the
    worker timeout — whatever the workers do — unless one of the two open
    findings applies at that pass: the main process was shut down by a stop
    verb (`ShutDown`, F37), or the request is gathered without a deadline and a
    worker has not answered (`Hangs`, F36). -/
theorem C09_one_final_answer_all_verbs (ret : Bool) (T n : Nat)
    (pre mid post : List Op) (c : Nat) (cv : ClientVerb)
    (halive : ¬ ShutDown (run (Hub.init true true ret T n) pre))
    (halive' : ¬ ShutDown (run (Hub.init true true ret T n) (pre ++ [.request c (cv.classify true)] ++ mid)))
    (hnohang : ¬ Hangs (run (Hub.init true true ret T n) pre).nextReq
        (run (Hub.init true true ret T n) (pre ++ [.request c (cv.classify true)] ++ mid)))
    (hlate : (run (Hub.init true true ret T n) pre).now + T
        < (run (Hub.init true true ret T n) (pre ++ [.request c (cv.classify true)] ++ mid)).now) :
    finalsOf (run (Hub.init true true ret T n) pre).nextReq
      (run (Hub.init true true ret T n)
        (pre ++ [.request c (cv.classify true)] ++ mid ++ [.tick] ++ post)).log = 1 :=
  one_final_core true true ret T n (Or.inr rfl) pre mid post c _ (classify_answers cv) halive halive'
    (releasable_all_verbs true true ret T n pre mid c _ halive hlate hnohang)

/-- a LoadState of two requests with one worker that answers both (one Ok, one
    Failure), then time passes -/
def loadAnsweredOps : List Op :=
  [] ++ [.request 0 ((ClientVerb.load 2).classify true)] ++
    [.response 0 ⟨0, 0, 1⟩ .ok, .response 0 ⟨0, 0, 2⟩ .failure, .advance 11]

/-- non-vacuity: neither `ShutDown` nor `Hangs` at the pass, one final answer after it -/
example :
    (run (Hub.init true true true 10 1) loadAnsweredOps).run ≠ .exited ∧
    (run (Hub.init true true true 10 1) loadAnsweredOps).tasks.all
      (fun t => !(t.req = 0 && t.verb.hasDeadline = false && hasFinished t = false)) = true ∧
    finalsOf 0 (run (Hub.init true true true 10 1) (loadAnsweredOps ++ [.tick] ++ [])).log = 1 := by
  decide

/-- **C09 (exactly one final answer), the code as it is now, verbs with a deadline
    or answered at once** — no side condition but "the main process runs". -/
theorem C09_one_final_answer (ret : Bool) (T n : Nat)
    (pre mid post : List Op) (c : Nat) (cv : ClientVerb)
    (h1 : cv ≠ .softStop) (h2 : ∀ k, cv ≠ .load k) (h3 : ∀ k, cv ≠ .reload k)
    (halive : (run (Hub.init true true ret T n) pre).run ≠ .exited)
    (halive' : (run (Hub.init true true ret T n) (pre ++ [.request c (cv.classify true)] ++ mid)).run ≠ .exited)
    (hlate : (run (Hub.init true true ret T n) pre).now + T
        < (run (Hub.init true true ret T n) (pre ++ [.request c (cv.classify true)] ++ mid)).now) :
    finalsOf (run (Hub.init true true ret T n) pre).nextReq
      (run (Hub.init true true ret T n)
        (pre ++ [.request c (cv.classify true)] ++ mid ++ [.tick] ++ post)).log = 1 :=
  one_final_deadline_core true true ret T n (Or.inr rfl) pre mid post c _
    (classify_answered cv h1 h2 h3) halive halive' hlate

example :
    finalsOf 0 (run (Hub.init true true true 10 2)
      ([] ++ [.request 0 (ClientVerb.add.classify true)] ++ [.advance 11] ++ [.tick] ++ [])).log = 1 ∧
    finalsOf 0 (run (Hub.init true true true 10 2)
      ([] ++ [.request 0 (ClientVerb.launchWorker.classify true)] ++ [.advance 11] ++ [.tick] ++ [])).log = 1 := by
  decide

/-- F21 (repaired in /repo): before the repair `request_type: None`, `LaunchWorker`,
    `ReturnListenSockets` were classified `noAnswer` and never answered. -/
theorem C09_one_final_answer_counterexample_no_answer_verb :
    finalsOf 0 (run (Hub.init false false false 10 2)
      [.request 0 (ClientVerb.launchWorker.classify false), .advance 1000, .tick]).log = 0 ∧
    finalsOf 0 (run (Hub.init true true true 10 2)
      [.request 0 (ClientVerb.launchWorker.classify true), .advance 1000, .tick]).log = 1 := by
  decide

/-- F36, open: `Hangs` is reachable with the code as it is now — one silent or dead
    worker and a SoftStop / LoadState is never answered. -/
theorem C09_one_final_answer_counterexample_no_deadline :
    finalsOf 0 (run (Hub.init true true true 10 2)
      [.request 0 (.loadState 1), .response 0 ⟨0, 0, 1⟩ .ok, .close 1, .advance 1000, .tick]).log = 0 ∧
    finalsOf 0 (run (Hub.init true true true 10 1) [.request 0 .softStop, .close 0, .advance 1000, .tick]).log = 0 ∧
    (∃ t ∈ (run (Hub.init true true true 10 1) [.request 0 .softStop, .close 0, .advance 1000]).tasks,
      t.req = 0 ∧ t.verb.hasDeadline = false ∧ hasFinished t = false) := by
  decide

/-- F37, open: `ShutDown` is reachable — a stop verb that completes shuts the main
    process down and a request still pending then is never answered. -/
theorem C09_one_final_answer_counterexample_shutdown :
    finalsOf 0 (run (Hub.init true true true 10 1)
      [.request 0 .worker, .request 1 .hardStop, .response 0 ⟨0, 1, 0⟩ .ok, .tick, .advance 1000, .tick]).log = 0 ∧
    (run (Hub.init true true true 10 1)
      [.request 0 .worker, .request 1 .hardStop, .response 0 ⟨0, 1, 0⟩ .ok, .tick]).run = .exited := by
  decide

/-- **C09 (a client that is not allowed gets exactly one failure).** With
    `command_allowed_uids` set and the client's uid not listed, every request
    but the empty one is classified as refused at once (`classifyFor false`), so
    `C09_one_final_answer` applies: one final answer, a failure, nothing is
    scattered. (The empty request is answered by its own check first.) -/
theorem C09_unauthorized_client_refused (answers : Bool) (cv : ClientVerb) (h : cv ≠ .none) :
    (cv.classifyFor false answers).immediate = some .failure ∧ (cv.classifyFor false answers).gathers = false := by
  cases cv <;> simp_all [ClientVerb.classifyFor, Verb.immediate, Verb.gathers]

example : (ClientVerb.hardStop.classifyFor false true) = .workerBad ∧
    finalsOf 0 (run (Hub.init true true true 10 2) [.request 0 (ClientVerb.hardStop.classifyFor false true), .tick]).log = 1 ∧
    (run (Hub.init true true true 10 2) [.request 0 (ClientVerb.hardStop.classifyFor false true), .tick]).run = .running := by
  decide

/-- open (new): `ClientSession::ready` hands only the LAST request of a read batch to
    the dispatcher: of two requests written back to back on one connection the
    first is dropped without any answer (`pipelined-request-dropped`). -/
theorem C09_one_final_answer_counterexample_pipelined (v1 v2 : Verb) :
    sessionPick [v1, v2] = some v2 := rfl

/-- F1492 (repaired in /repo, 4a1f13d): ReloadConfiguration of a path that cannot be
    loaded used to run `unwrap_or_else(|_| panic!(…))` in the handler and kill
    the main process. Regression example of the repaired behaviour: the client
    gets exactly one answer, a Failure; the main process keeps running; another
    client's pending request is unaffected and gets its own Ok afterwards. (The
    corpus keeps the witness; the oracle class `reload-bad-path-crashes-main`
    and `C09_code_has_repaired_shape` report the panic if it returns.) -/
example :
    let s := run (Hub.init true true true 10 1)
      [.request 0 .worker, .request 1 (ClientVerb.reloadBad.classify true), .tick,
       .response 0 ⟨0, 0, 0⟩ .ok, .tick]
    s.run = .running ∧
    s.log.filterMap (fun e => if e.isFinal then some (e.req, e.client, e.kind) else none)
      = [(1, 1, .failure), (0, 0, .ok)] := by
  decide

-- ============================================================ termination ==

/-- **C09 (no task outlives its deadline).** For every event sequence: after a
    pass of the run loop of a running main process, every remaining task is
    unfinished, and if its verb is gathered under the worker timeout it is not
    older than `T` — whatever the workers did or did not do. -/
theorem C09_terminates (fwd excl ret : Bool) (T n : Nat) (ops : List Op)
    (halive : (run (Hub.init fwd excl ret T n) ops).run ≠ .exited) :
    ∀ t ∈ (step (run (Hub.init fwd excl ret T n) ops) .tick).tasks,
      hasFinished t = false ∧
      (t.verb.hasDeadline = true → (run (Hub.init fwd excl ret T n) ops).now ≤ t.born + T) :=
  terminates_core fwd excl ret T n ops halive

example : (run (Hub.init true true true 10 2) [.request 0 .worker, .advance 5]).run ≠ .exited ∧
    (step (run (Hub.init true true true 10 2) [.request 0 .worker, .advance 5]) .tick).tasks ≠ [] := by decide

/-- `Timeout::None` verbs have no such bound (open finding F36) -/
theorem C09_terminates_counterexample_no_deadline :
    (run (Hub.init true true true 10 1) [.request 0 (.loadState 1), .advance 100000, .tick]).tasks ≠ [] := by
  decide

-- =============================================================== verdict ==

/-- two workers; worker 0 acknowledges, worker 1 is silent, the deadline passes -/
def silentWorkerOps : List Op := [.request 0 .worker, .response 0 ⟨0, 0, 0⟩ .ok, .advance 11, .tick]
/-- two workers; worker 0 acknowledges, worker 1's channel closes, the deadline passes -/
def closedWorkerOps : List Op :=
  [.request 0 .worker, .response 0 ⟨0, 0, 0⟩ .ok, .close 1, .advance 11, .tick]
/-- two workers; worker 0 acknowledges twice, worker 1 never answers -/
def duplicateOps : List Op :=
  [.request 0 .worker, .response 0 ⟨0, 0, 0⟩ .ok, .response 0 ⟨0, 0, 0⟩ .ok, .tick]
/-- two workers, both acknowledge; worker 0 also sends a Processing notice -/
def allAckOps : List Op :=
  [.request 0 .worker, .response 0 ⟨0, 0, 0⟩ .processing, .response 0 ⟨0, 0, 0⟩ .ok,
   .response 1 ⟨1, 0, 0⟩ .ok, .tick]

/-- a verdict violates "Ok ⇒ all acknowledged" -/
def ackViolation (e : Emit) : Bool :=
  match e.src with
  | some (t, _) => e.kind = .ok && t.verb = .worker && !decide (AllAcked t)
  | none => false

/-- **C09 (the ids of a task are those of the workers alive at dispatch).** -/
theorem C09_dispatch_targets_live (h : Hub) (c : Nat) (v : Verb) (rid : Rid) :
    rid ∈ (newTask h c v).sent ↔
      (rid.task = h.nextTask ∧ rid.sub ∈ v.subs ∧ (rid.worker, false) ∈ h.workers) :=
  newTask_sent_iff h c v rid

example : (⟨1, 0, 0⟩ : Rid) ∈ (newTask (Hub.init true true true 10 2) 0 .worker).sent ∧
    (⟨1, 0, 0⟩ : Rid) ∉ (newTask (run (Hub.init true true true 10 2) [.close 1]) 0 .worker).sent := by decide

/-- **C09 (Ok ⇒ every worker acknowledged), every code shape.** A mutating
    request or LoadState answered Ok had every scattered id answered Ok and no
    Failure counted — provided (i) no id is answered twice in the event
    sequence, or answered ids are retired (`ret = true`), and (ii) the verdict
    was not taken on the deadline path, or the deadline path forwards
    `timed_out` (`fwd = true`). Each proviso is necessary for the code as it was
    (counterexamples below); both hold for the code as it is now. -/
theorem C09_ok_iff_all_acked_partial (fwd excl ret : Bool) (T n : Nat) (ops : List Op)
    (hnd : ret = true ∨ NoDuplicateAnswers ops)
    (e : Emit) (he : e ∈ (run (Hub.init fwd excl ret T n) ops).log)
    (t : Task) (to : Bool) (hsrc : e.src = some (t, to)) (hk : e.kind = .ok)
    (hverb : t.verb.judgesWorkers = true) (hpath : fwd = true ∨ to = false) :
    AllAcked t ∧ ∀ g ∈ t.got, g.2.2 ≠ .failure :=
  ok_all_acked_core fwd excl ret T n ops hnd e he t to hsrc hk hverb hpath

example :
    NoDuplicateAnswers allAckOps ∧
    ((run (Hub.init false false false 10 2) allAckOps).log.any (fun e => e.kind = .ok && e.src.isSome)) = true ∧
    ((run (Hub.init false false false 10 2) allAckOps).log.any ackViolation) = false := by
  decide

/-- **C09 (Ok ⇒ every worker acknowledged), the code as it is now, EVERY verb.**
    For every event sequence — silent, dead, slow, duplicate-answering workers
    included, no hypothesis on them — a gathered request answered Ok had every
    id scattered to the workers alive at dispatch answered Ok, and no Failure
    was counted, unless its verb is one whose verdict ignores the workers
    (`VerdictIgnoresWorkers`: query / status / metrics and the stop verbs, open
    findings F38, F39). -/
theorem C09_ok_iff_all_acked_all_verbs (excl : Bool) (T n : Nat) (ops : List Op)
    (e : Emit) (he : e ∈ (run (Hub.init true excl true T n) ops).log)
    (t : Task) (to : Bool) (hsrc : e.src = some (t, to)) (hk : e.kind = .ok)
    (hverb : ¬ VerdictIgnoresWorkers t.verb) :
    AllAcked t ∧ ∀ g ∈ t.got, g.2.2 ≠ .failure :=
  ok_all_acked_core true excl true T n ops (Or.inl rfl) e he t to hsrc hk
    (gathering_verb_cases true excl true T n ops e he t to hsrc hverb) (Or.inl rfl)

/-- the same, stated for the verbs it covers -/
theorem C09_ok_iff_all_acked (excl : Bool) (T n : Nat) (ops : List Op)
    (e : Emit) (he : e ∈ (run (Hub.init true excl true T n) ops).log)
    (t : Task) (to : Bool) (hsrc : e.src = some (t, to)) (hk : e.kind = .ok)
    (hverb : t.verb.judgesWorkers = true) :
    AllAcked t ∧ ∀ g ∈ t.got, g.2.2 ≠ .failure :=
  ok_all_acked_core true excl true T n ops (Or.inl rfl) e he t to hsrc hk hverb (Or.inl rfl)

/-- non-vacuity on the code as it is now: an Ok verdict exists, and the former
    witnesses (silent worker, closed worker, duplicate answer) end as failures -/
example :
    (run (Hub.init true true true 10 2) allAckOps).log.any (fun e => e.kind = .ok && e.src.isSome) = true ∧
    (run (Hub.init true true true 10 2) silentWorkerOps).log.any (fun e => e.kind = .ok && e.src.isSome) = false ∧
    (run (Hub.init true true true 10 2) closedWorkerOps).log.any (fun e => e.kind = .ok && e.src.isSome) = false ∧
    (run (Hub.init true true true 10 2) (duplicateOps ++ [.advance 11, .tick])).log.any
      (fun e => e.kind = .ok && e.src.isSome) = false := by
  decide

/-- **C09 (F38 / F39 exactly).** The verdict of a query / status / metrics verb and
    of SoftStop is Ok whatever the workers answered, and the verdict of HardStop
    is Ok unless its deadline passed: for every event sequence, with the code as
    it is now. (This is what the open findings `query-ok-without-all-workers`
    and `stop-ok-without-all-workers` observe.) -/
theorem C09_verdict_ignores_workers (ret : Bool) (T n : Nat) (ops : List Op)
    (e : Emit) (he : e ∈ (run (Hub.init true true ret T n) ops).log)
    (t : Task) (to : Bool) (hsrc : e.src = some (t, to)) :
    (t.verb = .query ∨ t.verb = .softStop → e.kind = .ok) ∧
    (t.verb = .hardStop → (e.kind = .ok ↔ to = false)) :=
  verdict_ignores_core ret T n ops e he t to hsrc

/-- … reachable: Ok although the only worker answered Failure -/
theorem C09_ok_iff_all_acked_counterexample_query :
    (run (Hub.init true true true 10 1) [.request 0 .query, .response 0 ⟨0, 0, 0⟩ .failure, .tick]).log.any
      (fun e => e.kind = .ok && e.src.isSome) = true ∧
    (run (Hub.init true true true 10 1) [.request 0 .softStop, .response 0 ⟨0, 0, 0⟩ .failure, .tick]).log.any
      (fun e => e.kind = .ok && e.src.isSome) = true := by
  decide

/-- F17 (repaired in /repo): with `fwd = false`, the code as it was, a silent worker and the
    deadline give Ok — "Successfully applied request to all workers". -/
theorem C09_ok_iff_all_acked_counterexample_silent_worker :
    NoDuplicateAnswers silentWorkerOps ∧
      (run (Hub.init false false false 10 2) silentWorkerOps).log.any ackViolation = true := by
  decide

/-- the same for a worker whose channel closed: it is only marked Stopped -/
theorem C09_ok_iff_all_acked_counterexample_closed_worker :
    NoDuplicateAnswers closedWorkerOps ∧
      (run (Hub.init false false false 10 2) closedWorkerOps).log.any ackViolation = true := by
  decide

/-- F35 (repaired in /repo): a duplicate answer was counted twice (the in-flight id
    was not retired when answered): Ok at once although worker 1 never answered —
    also with the deadline path repaired alone (`fwd = true`, `ret = false`). -/
theorem C09_ok_iff_all_acked_counterexample_duplicate :
    ¬ NoDuplicateAnswers duplicateOps ∧
      (run (Hub.init true true false 10 2) duplicateOps).log.any ackViolation = true ∧
      (run (Hub.init false false false 10 2) duplicateOps).log.any ackViolation = true := by
  decide

/-- **C09 (a reported failure is never turned into Ok).** For every event
    sequence and every code shape: a mutating request or a LoadState answered
    Ok has no Failure among the responses its task counted. -/
theorem C09_failure_reported_means_failure (fwd excl ret : Bool) (T n : Nat) (ops : List Op)
    (e : Emit) (he : e ∈ (run (Hub.init fwd excl ret T n) ops).log)
    (t : Task) (to : Bool) (hsrc : e.src = some (t, to)) (hk : e.kind = .ok)
    (hverb : t.verb.judgesWorkers = true) :
    ∀ g ∈ t.got, g.2.2 ≠ .failure :=
  no_failure_core fwd excl ret T n ops e he t to hsrc hk hverb

example : ∃ e ∈ (run (Hub.init true true true 10 1) [.request 0 .worker, .response 0 ⟨0, 0, 0⟩ .ok, .tick]).log,
    e.kind = .ok ∧ e.src.isSome = true := by decide

/-- **C09 (the code has the repaired shape).** The flags the translator reads from
    the source now are those of the full-strength theorems: the hub the driver
    runs against the real code, `Hub.ofCode`, is `Hub.init true true true`.
    Stops compiling — a broken obligation — when a later change reverts one of
    the repairs. -/
theorem C09_code_has_repaired_shape (T n : Nat) :
    Hub.ofCode T n = Hub.init true true true T n ∧ Consts.hubAnswersUnsupportedVerbs = true ∧
      Consts.hubReloadBadPathPanics = false := by
  refine ⟨rfl, ?_, ?_⟩ <;> decide

-- ================================================= load_state request ids ==

/-- **C09 (LoadState request ids are unique across buffer fills).** Whatever the
    sizes of the batches the read loop parses, the request indices it hands to
    `scatter_on` are `1 … Σ batches`, all different — the batching is not
    observable (it is the `Verb.loadState (Σ batches)` of the model) — and in
    every reachable state the ids scattered for ANY verb (every index × every
    worker alive) are pairwise distinct, so no in-flight entry is overwritten
    and `expected_responses` equals the number of in-flight ids. -/
theorem C09_loadstate_ids_unique (batches : List Nat) :
    loadSubs batches = (Verb.loadState batches.sum).subs ∧ (loadSubs batches).Nodup ∧
    ∀ (fwd excl ret : Bool) (T n : Nat) (ops : List Op) (c : Nat) (v : Verb),
      (newTask (run (Hub.init fwd excl ret T n) ops) c v).sent.Nodup :=
  ⟨loadSubs_eq batches, loadSubs_eq batches ▸ subs_nodup _,
   fun fwd excl ret T n ops c v => newTask_sent_nodup fwd excl ret T n ops c v⟩

example : loadSubs [2, 3, 1] = [1, 2, 3, 4, 5, 6] ∧
    (newTask (Hub.init true true true 10 2) 0 (.loadState 3)).sent.length = 6 := by decide

/-- the seeded refactor (`enumerate()` inside the batch loop: the index restarts
    at every buffer fill) breaks it: two requests of one LoadState share an id -/
theorem C09_loadstate_ids_unique_counterexample :
    ¬ (loadSubsRestarting [2, 2]).Nodup := by decide

-- ============================================================ no cross talk ==

/-- **C09 (an answer touches only the task it was issued for).** In every
    reachable state a worker response carrying id `rid` leaves every task the
    id was not scattered for exactly as it was (so it cannot complete it), and
    whatever it makes the main process send is a Processing notice to the
    client of a task the id was scattered for. -/
theorem C09_no_cross_talk_response (fwd excl ret : Bool) (T n : Nat) (ops : List Op)
    (w : Nat) (rid : Rid) (st : St) :
    let s := run (Hub.init fwd excl ret T n) ops
    (∀ t ∈ s.tasks, rid ∉ t.sent → t ∈ (step s (.response w rid st)).tasks) ∧
    ∃ l, (step s (.response w rid st)).log = s.log ++ l ∧
      ∀ e ∈ l, e.kind = .processing ∧ ∃ t ∈ s.tasks, rid ∈ t.sent ∧ e.req = t.req ∧ e.client = t.client :=
  no_cross_talk_response_core fwd excl ret T n ops w rid st

example :
    let s := run (Hub.init true true true 10 2) [.request 7 .worker, .request 9 .worker]
    (step s (.response 0 ⟨0, 1, 0⟩ .failure)).tasks.map (·.errors) = [0, 1] := by decide

/-- **C09 (answers reach the requesting client only).** For every event
    sequence: every message the main process queues about a request — notices,
    and the verdict, whatever made the task finish — is addressed to the client
    that sent that request. -/
theorem C09_no_cross_talk (fwd excl ret : Bool) (T n : Nat) (pre post : List Op) (c : Nat) (v : Verb)
    (halive : (run (Hub.init fwd excl ret T n) pre).run ≠ .exited) :
    ∀ e ∈ (run (Hub.init fwd excl ret T n) (pre ++ [.request c v] ++ post)).log,
      e.req = (run (Hub.init fwd excl ret T n) pre).nextReq → e.client = c :=
  no_cross_talk_core fwd excl ret T n pre post c v halive

/-- **C09 (no cross-talk between concurrent clients, whole histories).** For every
    event sequence with any number of clients and overlapping requests: all the
    messages about one request name one client (so two clients never share a
    request), and for two requests sent by different clients at any two points
    of the history, no message about the first is addressed to the second
    client and vice versa. -/
theorem C09_no_cross_talk_concurrent (fwd excl ret : Bool) (T n : Nat) :
    (∀ (ops : List Op), ∀ e1 ∈ (run (Hub.init fwd excl ret T n) ops).log,
        ∀ e2 ∈ (run (Hub.init fwd excl ret T n) ops).log, e1.req = e2.req → e1.client = e2.client) ∧
    (∀ (pre mid post : List Op) (c1 c2 : Nat) (v1 v2 : Verb), c1 ≠ c2 →
      (run (Hub.init fwd excl ret T n) pre).run ≠ .exited →
      (run (Hub.init fwd excl ret T n) (pre ++ [.request c1 v1] ++ mid)).run ≠ .exited →
      ∀ e ∈ (run (Hub.init fwd excl ret T n) (pre ++ [.request c1 v1] ++ mid ++ [.request c2 v2] ++ post)).log,
        (e.req = (run (Hub.init fwd excl ret T n) pre).nextReq → e.client ≠ c2) ∧
        (e.req = (run (Hub.init fwd excl ret T n) (pre ++ [.request c1 v1] ++ mid)).nextReq → e.client ≠ c1)) :=
  ⟨fun ops => (reqClient_run fwd excl ret T n ops).log_log,
   fun pre mid post c1 c2 v1 v2 hne h1 h2 => no_cross_talk_two fwd excl ret T n pre mid post c1 c2 v1 v2 hne h1 h2⟩

/-- two clients, interleaved answers: each verdict goes to its own client -/
example :
    let s := run (Hub.init true true true 10 2)
      [.request 7 .worker, .request 9 .worker, .response 0 ⟨0, 1, 0⟩ .ok, .response 1 ⟨1, 1, 0⟩ .failure,
       .response 0 ⟨0, 0, 0⟩ .ok, .response 1 ⟨1, 0, 0⟩ .ok, .tick]
    s.log.filterMap (fun e => if e.isFinal then some (e.req, e.client, e.kind) else none)
      = [(0, 7, .ok), (1, 9, .failure)] := by
  decide

end Sozu.Hub
