import Sozu.Hub.Lemmas
/-
C09 — the main process's verdict to a client matches what the workers did.
Only property statements (`C09_*`) and their non-vacuity examples live here.

The theorems are stated for `Hub.init fwd excl ret T n`: any worker timeout `T`,
any number of workers `n`, and the code-shape flags the translator reads from
the source (`fwd`: `handle_finishing_task` forwards `timed_out`; `excl`:
`StopTask::on_finish` does not send Ok after its timed-out failure; `ret`:
`handle_worker_response` retires an id once it got a terminal answer). The code
as it was before the C09 repairs is `false false false`, the code as it is now
`true true true`; the driver runs `Hub.ofCode`, i.e. the
values of `Sozu.Consts.hub*` (a fourth flag, whether `request_type: None`,
LaunchWorker and ReturnListenSockets are answered, only selects the verb class
those requests are given: `Verb.noAnswer` or an immediate failure).
Event sequences (`List Op`) are arbitrary: any interleaving of client requests,
worker responses (any status, any id, known or not, duplicated, late), worker
channel closes, client hang-ups, time advances and passes of the run loop.
-/
set_option linter.unusedSimpArgs false
set_option linter.unusedVariables false
namespace Sozu.Hub

-- ===================================================== one final answer ==

/-- **C09 (never two verdicts).** For every event sequence, no request is ever
    given more than one final answer — provided a finished task produces one
    verdict, which holds for the code as written (`fwd = false`) and for the
    repaired shape (`excl = true`). -/
theorem C09_at_most_one_final (fwd excl ret : Bool) (T n : Nat) (hc : fwd = false ∨ excl = true)
    (ops : List Op) (r : Nat) :
    finalsOf r (run (Hub.init fwd excl ret T n) ops).log ≤ 1 := by
  have hg := good_init fwd excl ret T n hc
  have := acct_le_one_run _ ops hg (fun r => by rw [acct_init]; omega) r
  simp only [acct] at this; omega

example : (false = false ∨ false = true) := Or.inl rfl

/-- forwarding `timed_out` alone is not enough: `StopTask::on_finish` then sends
    the timed-out failure **and** the Ok — two final answers for one HardStop. -/
theorem C09_at_most_one_final_counterexample :
    finalsOf 0 (run (Hub.init true false false 10 1) [.request 0 .hardStop, .advance 11, .tick]).log = 2 := by
  decide

/-- **C09 (exactly one final answer).** A request accepted by a running main
    process, for a verb that is answered at once or gathered under the worker
    timeout, has exactly one final answer after the first pass of the run loop
    that happens later than `T` after the request — whatever the workers,
    the other clients and the other requests did in between and do afterwards
    (`mid`, `post` arbitrary), as long as the main process has not shut down. -/
theorem C09_one_final_answer_partial (fwd excl ret : Bool) (T n : Nat) (hc : fwd = false ∨ excl = true)
    (pre mid post : List Op) (c : Nat) (v : Verb)
    (hv : v.hasDeadline = true ∨ v.immediate.isSome = true)
    (halive : (run (Hub.init fwd excl ret T n) pre).run ≠ .exited)
    (halive' : (run (Hub.init fwd excl ret T n) (pre ++ [.request c v] ++ mid)).run ≠ .exited)
    (hlate : (run (Hub.init fwd excl ret T n) pre).now + T
        < (run (Hub.init fwd excl ret T n) (pre ++ [.request c v] ++ mid)).now) :
    finalsOf (run (Hub.init fwd excl ret T n) pre).nextReq
      (run (Hub.init fwd excl ret T n) (pre ++ [.request c v] ++ mid ++ [.tick] ++ post)).log = 1 := by
  -- names
  generalize hs0 : Hub.init fwd excl ret T n = s0 at *
  have hg0 : Good s0 := hs0 ▸ good_init fwd excl ret T n hc
  have hi0 : Inv s0 := hs0 ▸ inv_init fwd excl ret T n
  have hT : s0.timeout = T := by rw [← hs0]; rfl
  generalize hs1 : run s0 pre = s1 at *
  have hg1 : Good s1 := hs1 ▸ good_run s0 pre hg0
  have hi1 : Inv s1 := hs1 ▸ inv_run s0 pre hi0
  have hT1 : s1.timeout = T := by rw [← hs1, (run_cfg s0 pre).2.2, hT]
  let r := s1.nextReq
  let s2 := step s1 (.request c v)
  have hg2 : Good s2 := good_step s1 _ hg1
  have hi2 : Inv s2 := inv_step s1 _ hi1
  have hr2 : r < s2.nextReq := by
    have := step_nextReq s1 (.request c v); simp only [halive, if_false] at this
    show s1.nextReq < (step s1 (.request c v)).nextReq; omega
  have hans : v.answers = true := by
    simp only [Verb.answers, Bool.or_eq_true]
    rcases hv with hv | hv
    · left; cases v <;> simp_all [Verb.hasDeadline, Verb.gathers]
    · right; exact hv
  have ha2 : acct r s2 = 1 := by
    have := acct_request_new s1 c v hg1.bounds halive; rw [hans] at this; simpa using this
  have ho2 : Owned r c v s1.now s2 := owned_request s1 c v hg1.bounds
  -- after `mid`
  have e3 : run s0 (pre ++ [.request c v] ++ mid) = run s2 mid := by
    rw [run_append, run_append, hs1]; rfl
  rw [e3] at halive' hlate
  generalize hs3 : run s2 mid = s3 at *
  have hg3 : Good s3 := hs3 ▸ good_run s2 mid hg2
  have hi3 : Inv s3 := hs3 ▸ inv_run s2 mid hi2
  have hr3 : r < s3.nextReq := by
    rw [← hs3]; clear hs3
    have : ∀ (h : Hub) (ops : List Op), h.nextReq ≤ (run h ops).nextReq := by
      intro h ops; induction ops generalizing h with
      | nil => exact Nat.le_refl _
      | cons o os ih => rw [run_cons]; exact Nat.le_trans (step_nextReq_mono h o) (ih _)
    exact Nat.lt_of_lt_of_le hr2 (this s2 mid)
  have ha3 : acct r s3 = 1 := by rw [← hs3, acct_run_old s2 mid hg2 r hr2]; exact ha2
  have ho3 : Owned r c v s1.now s3 := hs3 ▸ owned_run s2 mid hg2.bounds r c v s1.now hr2 ho2
  have hT3 : s3.timeout = T := by
    rw [← hs3, (run_cfg s2 mid).2.2]; show (step s1 _).timeout = T; rw [(step_cfg s1 _).2.2, hT1]
  -- the pass of the run loop
  let s4 := step s3 .tick
  have hg4 : Good s4 := good_step s3 _ hg3
  have ha4 : acct r s4 = 1 := by rw [acct_step_old s3 .tick hg3.bounds hg3.one r hr3]; exact ha3
  have hp4 : pendingOf r s4.tasks = 0 := by
    apply pending_zero_of
    intro t ht hreq
    have hnd := tick_clears s3 halive' t ht
    have hmem : t ∈ s3.tasks := by
      simp only [s4, step, tick, halive', if_false, List.mem_filter] at ht; exact ht.1
    obtain ⟨_, hverb, hborn⟩ := ho3 t hmem hreq
    have hgath := (hi3.bounds.tasks_lt t hmem).2.2
    rcases hv with hv | hv
    · have hd := (hi3.timed t hmem).2
      rw [hverb, hv, if_pos rfl, hborn, hT3] at hd
      simp only [isDone, deadlinePassed, hd, Bool.or_eq_false_iff, decide_eq_false_iff_not] at hnd
      omega
    · rw [hverb] at hgath
      cases v <;> simp_all [Verb.gathers, Verb.immediate]
  have hf4 : finalsOf r s4.log = 1 := by simp only [acct] at ha4; omega
  -- afterwards
  have e5 : run s0 (pre ++ [.request c v] ++ mid ++ [.tick] ++ post) = run s4 post := by
    rw [run_append, run_append, e3]; rfl
  rw [e5]
  have hr4 : r < s4.nextReq := Nat.lt_of_lt_of_le hr3 (step_nextReq_mono s3 .tick)
  have ha5 : acct r (run s4 post) = 1 := by rw [acct_run_old s4 post hg4 r hr4]; exact ha4
  have hm := finals_run_mono s4 post r
  simp only [acct] at ha5
  show finalsOf r (run s4 post).log = 1
  omega

/-- the hypotheses are satisfiable, and with a silent worker too -/
example :
    let s := Hub.init false false false 10 2
    (run s []).run ≠ .exited ∧
    (run s ([] ++ [.request 0 .worker] ++ [.advance 11])).run ≠ .exited ∧
    (run s []).now + 10 < (run s ([] ++ [.request 0 .worker] ++ [.advance 11])).now ∧
    finalsOf 0 (run s ([] ++ [.request 0 .worker] ++ [.advance 11] ++ [.tick] ++ [])).log = 1 := by
  decide

/-- every request the command socket carries, except the two gathered without a
    deadline, is a verb answered at once or gathered under the worker timeout —
    once the unimplemented requests are answered (`answers = true`) -/
theorem classify_answered (cv : ClientVerb) (h1 : cv ≠ .softStop) (h2 : ∀ k, cv ≠ .load k) :
    (cv.classify true).hasDeadline = true ∨ (cv.classify true).immediate.isSome = true := by
  cases cv <;> simp_all [ClientVerb.classify, Verb.hasDeadline, Verb.immediate]

/-- **C09 (exactly one final answer), the repaired code, full strength.** With
    the code as it is now, EVERY client request accepted by a running main
    process — mutating, rejected by the main state, query, status, metrics,
    list, HardStop, LoadState of a missing file, `request_type: None`,
    LaunchWorker, ReturnListenSockets — has exactly one final answer after the
    first run-loop pass later than the worker timeout, whatever the workers do
    (silent, dead, duplicate, late) and whatever else happens, while the main
    process runs. The two exceptions are the verbs gathered with
    `Timeout::None`, SoftStop and LoadState of an existing file (open finding,
    `C09_one_final_answer_counterexample_no_deadline`). -/
theorem C09_one_final_answer (ret : Bool) (T n : Nat)
    (pre mid post : List Op) (c : Nat) (cv : ClientVerb)
    (h1 : cv ≠ .softStop) (h2 : ∀ k, cv ≠ .load k)
    (halive : (run (Hub.init true true ret T n) pre).run ≠ .exited)
    (halive' : (run (Hub.init true true ret T n) (pre ++ [.request c (cv.classify true)] ++ mid)).run ≠ .exited)
    (hlate : (run (Hub.init true true ret T n) pre).now + T
        < (run (Hub.init true true ret T n) (pre ++ [.request c (cv.classify true)] ++ mid)).now) :
    finalsOf (run (Hub.init true true ret T n) pre).nextReq
      (run (Hub.init true true ret T n)
        (pre ++ [.request c (cv.classify true)] ++ mid ++ [.tick] ++ post)).log = 1 :=
  C09_one_final_answer_partial true true ret T n (Or.inr rfl) pre mid post c _
    (classify_answered cv h1 h2) halive halive' hlate

/-- non-vacuity on the repaired shape: a silent worker (one failure verdict at
    the deadline), an unimplemented request (one failure at once) -/
example :
    finalsOf 0 (run (Hub.init true true true 10 2)
      ([] ++ [.request 0 (ClientVerb.add.classify true)] ++ [.advance 11] ++ [.tick] ++ [])).log = 1 ∧
    finalsOf 0 (run (Hub.init true true true 10 2)
      ([] ++ [.request 0 (ClientVerb.launchWorker.classify true)] ++ [.advance 11] ++ [.tick] ++ [])).log = 1 ∧
    finalsOf 0 (run (Hub.init true true true 10 2)
      ([] ++ [.request 0 (ClientVerb.hardStop.classify true)] ++ [.advance 11])).log = 0 := by
  decide

/-- F21 (repaired in /repo): before the repair `request_type: None`, `LaunchWorker`,
    `ReturnListenSockets` were classified `noAnswer` and never answered. -/
theorem C09_one_final_answer_counterexample_no_answer_verb :
    finalsOf 0 (run (Hub.init false false false 10 2)
      [.request 0 (ClientVerb.launchWorker.classify false), .advance 1000, .tick]).log = 0 ∧
    finalsOf 0 (run (Hub.init true true true 10 2)
      [.request 0 (ClientVerb.launchWorker.classify true), .advance 1000, .tick]).log = 1 := by
  decide

/-- `SoftStop` and `LoadState` are gathered with `Timeout::None`: one silent (or
    dead) worker and the client never gets a final answer. -/
theorem C09_one_final_answer_counterexample_no_deadline :
    finalsOf 0 (run (Hub.init false false false 10 2)
      [.request 0 (.loadState 1), .response 0 ⟨0, 0, 1⟩ .ok, .close 1, .advance 1000, .tick]).log = 0 ∧
    finalsOf 0 (run (Hub.init false false false 10 1) [.request 0 .softStop, .close 0, .advance 1000, .tick]).log = 0 ∧
    -- still so with the code as it is now (open finding)
    finalsOf 0 (run (Hub.init true true true 10 2)
      [.request 0 (.loadState 1), .response 0 ⟨0, 0, 1⟩ .ok, .close 1, .advance 1000, .tick]).log = 0 ∧
    finalsOf 0 (run (Hub.init true true true 10 1) [.request 0 .softStop, .close 0, .advance 1000, .tick]).log = 0 := by
  decide

/-- a stop verb that completes shuts the main process down: a request that is
    still pending then is never answered (its client's session is closed). -/
theorem C09_one_final_answer_counterexample_shutdown :
    finalsOf 0 (run (Hub.init false false false 10 1)
      [.request 0 .worker, .request 1 .hardStop, .response 0 ⟨0, 1, 0⟩ .ok, .tick, .advance 1000, .tick]).log = 0 ∧
    -- still so with the code as it is now (open finding)
    finalsOf 0 (run (Hub.init true true true 10 1)
      [.request 0 .worker, .request 1 .hardStop, .response 0 ⟨0, 1, 0⟩ .ok, .tick, .advance 1000, .tick]).log = 0 := by
  decide

-- ============================================================ termination ==

/-- **C09 (no task outlives its deadline).** For every event sequence: after a
    pass of the run loop of a running main process, every remaining task is
    unfinished, and if its verb is gathered under the worker timeout it is not
    older than `T` — whatever the workers did or did not do. -/
theorem C09_terminates (fwd excl ret : Bool) (T n : Nat) (ops : List Op)
    (halive : (run (Hub.init fwd excl ret T n) ops).run ≠ .exited) :
    ∀ t ∈ (step (run (Hub.init fwd excl ret T n) ops) .tick).tasks,
      hasFinished t = false ∧
      (t.verb.hasDeadline = true → (run (Hub.init fwd excl ret T n) ops).now ≤ t.born + T) := by
  intro t ht
  have hi := inv_run _ ops (inv_init fwd excl ret T n)
  have hT : (run (Hub.init fwd excl ret T n) ops).timeout = T := by rw [(run_cfg _ ops).2.2]; rfl
  generalize run (Hub.init fwd excl ret T n) ops = s at *
  have hnd := tick_clears s halive t ht
  have hmem : t ∈ s.tasks := by
    simp only [step, tick, halive, if_false, List.mem_filter] at ht; exact ht.1
  simp only [isDone, Bool.or_eq_false_iff] at hnd
  refine ⟨hnd.1, fun hd => ?_⟩
  have := (hi.timed t hmem).2
  rw [hd, if_pos rfl, hT] at this
  simp only [deadlinePassed, this, decide_eq_false_iff_not] at hnd
  omega

example : (run (Hub.init false false false 10 2) [.request 0 .worker, .advance 5]).run ≠ .exited ∧
    (step (run (Hub.init false false false 10 2) [.request 0 .worker, .advance 5]) .tick).tasks ≠ [] := by decide

/-- `Timeout::None` verbs have no such bound -/
theorem C09_terminates_counterexample_no_deadline :
    (run (Hub.init false false false 10 1) [.request 0 (.loadState 1), .advance 100000, .tick]).tasks ≠ [] ∧
    (run (Hub.init true true true 10 1) [.request 0 (.loadState 1), .advance 100000, .tick]).tasks ≠ [] := by
  decide

-- =============================================================== verdict ==

/-- no worker answer was counted twice: every id is answered at most once with
    a terminal status in the event sequence -/
def NoDuplicateAnswers (ops : List Op) : Prop := (opRids ops).Nodup

instance (ops : List Op) : Decidable (NoDuplicateAnswers ops) := by
  unfold NoDuplicateAnswers; infer_instance

/-- two workers; worker 0 acknowledges, worker 1 is silent, the deadline passes -/
def silentWorkerOps : List Op := [.request 0 .worker, .response 0 ⟨0, 0, 0⟩ .ok, .advance 11, .tick]
/-- two workers; worker 0 acknowledges, worker 1's channel closes, the deadline passes -/
def closedWorkerOps : List Op :=
  [.request 0 .worker, .response 0 ⟨0, 0, 0⟩ .ok, .close 1, .advance 11, .tick]
/-- two workers; worker 0 acknowledges twice, worker 1 never answers -/
def duplicateOps : List Op :=
  [.request 0 .worker, .response 0 ⟨0, 0, 0⟩ .ok, .response 0 ⟨0, 0, 0⟩ .ok, .tick]
/-- two workers, both acknowledge; worker 0 also sends a Processing notice -/
def allAckOps : List Op :=
  [.request 0 .worker, .response 0 ⟨0, 0, 0⟩ .processing, .response 0 ⟨0, 0, 0⟩ .ok,
   .response 1 ⟨1, 0, 0⟩ .ok, .tick]

/-- **C09 (the ids of a task are those of the workers alive at dispatch).** -/
theorem C09_dispatch_targets_live (h : Hub) (c : Nat) (v : Verb) (rid : Rid) :
    rid ∈ (newTask h c v).sent ↔
      (rid.task = h.nextTask ∧ rid.sub ∈ v.subs ∧ (rid.worker, false) ∈ h.workers) := by
  simp only [newTask, allRids, ridsFor, liveWorkers, List.mem_flatMap, List.mem_map, List.mem_filter]
  constructor
  · rintro ⟨sub, hsub, w, ⟨⟨w', st⟩, ⟨hw, hst⟩, rfl⟩, rfl⟩
    simp only [Bool.not_eq_eq_eq_not, Bool.not_true] at hst
    subst hst
    exact ⟨rfl, hsub, hw⟩
  · rintro ⟨h1, h2, h3⟩
    refine ⟨rid.sub, h2, rid.worker, ⟨(rid.worker, false), ⟨h3, by simp⟩, rfl⟩, ?_⟩
    cases rid; simp_all

/-- **C09 (Ok ⇒ every worker acknowledged), every code shape.** For every event
    sequence: when a mutating request (`worker_request`) or a LoadState is
    answered Ok, then every id scattered for it (one per worker alive at
    dispatch and per scattered request) was answered Ok and no worker answered
    Failure — provided (i) no id is answered twice in the event sequence, or
    answered ids are retired (`ret = true`), and (ii) the verdict was not taken
    on the deadline path, or the deadline path forwards `timed_out`
    (`fwd = true`). Both provisos hold for the repaired code (`C09_ok_iff_all_acked`);
    each is necessary for the code as it was (counterexamples below). -/
theorem C09_ok_iff_all_acked_partial (fwd excl ret : Bool) (T n : Nat) (ops : List Op)
    (hnd : ret = true ∨ NoDuplicateAnswers ops)
    (e : Emit) (he : e ∈ (run (Hub.init fwd excl ret T n) ops).log)
    (t : Task) (to : Bool) (hsrc : e.src = some (t, to)) (hk : e.kind = .ok)
    (hverb : t.verb = .worker ∨ ∃ k, t.verb = .loadState k) (hpath : fwd = true ∨ to = false) :
    AllAcked t ∧ ∀ g ∈ t.got, g.2.2 ≠ .failure := by
  have hi := inv_run _ ops (inv_init fwd excl ret T n)
  have hcfg := run_cfg (Hub.init fwd excl ret T n) ops
  have hseen := seen_run (Hub.init fwd excl ret T n) ops
  have hlt := logTimed_run fwd excl ret T n ops
  have hret : ret = true → Retired (run (Hub.init fwd excl ret T n) ops) := by
    intro h; subst h; exact retired_run fwd excl T n ops
  generalize run (Hub.init fwd excl ret T n) ops = s at *
  obtain ⟨hti, hto, _, _, hkind⟩ := hi.acc.log e he t to hsrc
  have hfwd : s.fwd = fwd := hcfg.1
  rw [hk, hfwd] at hkind
  -- the verdict rules: no error counted, and the verdict was not a deadline verdict
  have hboth : t.errors = 0 ∧ to = false := by
    rcases hverb with hv | ⟨k, hv⟩
    · obtain ⟨herr, hpassed⟩ := verdict_worker_ok _ t _ hv hkind
      refine ⟨herr, ?_⟩
      rcases hpath with hp | hp
      · subst hp; simpa using hpassed
      · exact hp
    · refine ⟨verdict_load_ok _ t _ k hv hkind, ?_⟩
      -- LoadState is gathered without a deadline: it is only released once finished
      cases hto' : to with
      | false => rfl
      | true => have := hlt e he t to hsrc hto'; simp [hv, Verb.hasDeadline] at this
  obtain ⟨herr, hto'⟩ := hboth
  have hfin : hasFinished t = true := by
    have h0 : timedOut t = false := by rw [← hto, hto']
    simpa [timedOut] using h0
  simp only [hasFinished, decide_eq_true_eq] at hfin
  have hnodup : (termRids t.got).Nodup := by
    rcases hnd with hnd | hnd
    · exact (hret hnd).log e he t to hsrc
    · rw [List.nodup_iff_count]
      intro rid
      have h1 := hti.counted rid
      have h2 := hseen rid
      have h3 : (opRids ops).count rid ≤ 1 := List.nodup_iff_count.mp hnd rid
      simp only [Hub.init, List.count_nil, Nat.zero_add] at h2
      omega
  exact ack_core s.seen t hti herr hfin hnodup

/-- **C09 (Ok ⇒ every worker acknowledged), the repaired code, full strength.**
    With `timed_out` forwarded and answered ids retired (the code as it is now:
    `Consts.hubForwardsTimedOut`, `Consts.hubRetiresAnsweredIds`), for EVERY
    event sequence — silent, dead, slow, duplicate-answering, impersonating
    workers included — a mutating request or LoadState answered Ok was
    acknowledged with Ok for every id scattered to the workers alive at
    dispatch, and no Failure was counted. No hypothesis on the workers. -/
theorem C09_ok_iff_all_acked (excl : Bool) (T n : Nat) (ops : List Op)
    (e : Emit) (he : e ∈ (run (Hub.init true excl true T n) ops).log)
    (t : Task) (to : Bool) (hsrc : e.src = some (t, to)) (hk : e.kind = .ok)
    (hverb : t.verb = .worker ∨ ∃ k, t.verb = .loadState k) :
    AllAcked t ∧ ∀ g ∈ t.got, g.2.2 ≠ .failure :=
  C09_ok_iff_all_acked_partial true excl true T n ops (Or.inl rfl) e he t to hsrc hk hverb (Or.inl rfl)

/-- **C09 (the code has the repaired shape).** The flags the translator reads from
    the source now are those of the full-strength theorems (`C09_ok_iff_all_acked`,
    `C09_one_final_answer`): the hub the driver runs against the real code,
    `Hub.ofCode`, is `Hub.init true true true`. Stops compiling — a broken
    obligation — when a later change reverts one of the repairs. -/
theorem C09_code_has_repaired_shape (T n : Nat) :
    Hub.ofCode T n = Hub.init true true true T n ∧ Consts.hubAnswersUnsupportedVerbs = true := by
  constructor
  · rfl
  · decide

/-- non-vacuity on the repaired shape: an Ok verdict exists, and the former
    witnesses (silent worker, closed worker, duplicate answer) now end as failures -/
example :
    (run (Hub.init true true true 10 2) allAckOps).log.any (fun e => e.kind = .ok && e.src.isSome) = true ∧
    (run (Hub.init true true true 10 2) silentWorkerOps).log.any (fun e => e.kind = .ok && e.src.isSome) = false ∧
    (run (Hub.init true true true 10 2) closedWorkerOps).log.any (fun e => e.kind = .ok && e.src.isSome) = false ∧
    (run (Hub.init true true true 10 2) (duplicateOps ++ [.advance 11, .tick])).log.any
      (fun e => e.kind = .ok && e.src.isSome) = false := by
  decide

/-- a verdict violates "Ok ⇒ all acknowledged" -/
def ackViolation (e : Emit) : Bool :=
  match e.src with
  | some (t, _) => e.kind = .ok && t.verb = .worker && !decide (AllAcked t)
  | none => false

/-- the hypotheses of the partial theorem are satisfiable (two workers, both
    acknowledge; one also sends a Processing notice) -/
example :
    NoDuplicateAnswers allAckOps ∧
    ((run (Hub.init false false false 10 2) allAckOps).log.any (fun e => e.kind = .ok && e.src.isSome)) = true ∧
    ((run (Hub.init false false false 10 2) allAckOps).log.any ackViolation) = false := by
  decide

/-- F17 (repaired in /repo): with `fwd = false`, the code as it was, a silent worker and the
    deadline give Ok — "Successfully applied request to all workers". -/
theorem C09_ok_iff_all_acked_counterexample_silent_worker :
    NoDuplicateAnswers silentWorkerOps ∧
      (run (Hub.init false false false 10 2) silentWorkerOps).log.any ackViolation = true := by
  decide

/-- the same for a worker whose channel closed: it is only marked Stopped -/
theorem C09_ok_iff_all_acked_counterexample_closed_worker :
    NoDuplicateAnswers closedWorkerOps ∧
      (run (Hub.init false false false 10 2) closedWorkerOps).log.any ackViolation = true := by
  decide

/-- a duplicate answer is counted twice (the in-flight id is not retired when
    answered): Ok at once although worker 1 never answered — also when the
    deadline path is repaired (`fwd = true`). -/
theorem C09_ok_iff_all_acked_counterexample_duplicate :
    ¬ NoDuplicateAnswers duplicateOps ∧
      (run (Hub.init true true false 10 2) duplicateOps).log.any ackViolation = true ∧
      (run (Hub.init false false false 10 2) duplicateOps).log.any ackViolation = true := by
  decide

/-- with ids retired once answered, the duplicate no longer counts: the task waits
    for worker 1 and (deadline path repaired too) ends as a failure -/
example :
    (run (Hub.init true true true 10 2) (duplicateOps ++ [.advance 11, .tick])).log.any ackViolation = false ∧
    (run (Hub.init true true true 10 2) (duplicateOps ++ [.advance 11, .tick])).log.any
      (fun e => e.kind = .failure) = true := by
  decide

/-- with the deadline path repaired and no duplicates the silent worker gives a failure -/
example :
    (run (Hub.init true true false 10 2) silentWorkerOps).log.any ackViolation = false ∧
    finalsOf 0 (run (Hub.init true true false 10 2) silentWorkerOps).log = 1 ∧
    (run (Hub.init true true false 10 2) silentWorkerOps).log.any (fun e => e.kind = .failure) = true := by
  decide

/-- **C09 (a reported failure is never turned into Ok).** For every event
    sequence and both code shapes: a mutating request or a LoadState answered
    Ok has no Failure among the responses its task counted. -/
theorem C09_failure_reported_means_failure (fwd excl ret : Bool) (T n : Nat) (ops : List Op)
    (e : Emit) (he : e ∈ (run (Hub.init fwd excl ret T n) ops).log)
    (t : Task) (to : Bool) (hsrc : e.src = some (t, to)) (hk : e.kind = .ok)
    (hverb : t.verb = .worker ∨ ∃ k, t.verb = .loadState k) :
    ∀ g ∈ t.got, g.2.2 ≠ .failure := by
  have hi := inv_run _ ops (inv_init fwd excl ret T n)
  generalize run (Hub.init fwd excl ret T n) ops = s at *
  obtain ⟨hti, _, _, _, hkind⟩ := hi.acc.log e he t to hsrc
  rw [hk] at hkind
  have herr : t.errors = 0 := by
    rcases hverb with hv | ⟨k, hv⟩
    · exact (verdict_worker_ok _ t _ hv hkind).1
    · exact verdict_load_ok _ t _ k hv hkind
  have h0 : failCount t.got = 0 := by rw [← hti.errors]; exact herr
  simp only [failCount, List.countP_eq_zero] at h0
  intro g hg hgf; exact h0 g hg (by simp [hgf])

example : ∃ e ∈ (run (Hub.init false false false 10 1) [.request 0 .worker, .response 0 ⟨0, 0, 0⟩ .ok, .tick]).log,
    e.kind = .ok ∧ e.src.isSome = true := by decide

/-- query / status / metrics and stop verbs answer Ok whatever the workers said —
    also with the code as it is now (open findings) -/
theorem C09_ok_iff_all_acked_counterexample_query :
    (run (Hub.init true true true 10 1) [.request 0 .query, .response 0 ⟨0, 0, 0⟩ .failure, .tick]).log.any
      (fun e => e.kind = .ok && e.src.isSome) = true ∧
    (run (Hub.init true true true 10 1) [.request 0 .softStop, .response 0 ⟨0, 0, 0⟩ .failure, .tick]).log.any
      (fun e => e.kind = .ok && e.src.isSome) = true := by
  decide

-- ============================================================ no cross talk ==

/-- **C09 (an answer touches only the task it was issued for).** In every
    reachable state a worker response carrying id `rid` leaves every task the
    id was not scattered for exactly as it was (so it cannot complete it), and
    whatever it makes the main process send is a Processing notice to the
    client of a task the id was scattered for. -/
theorem C09_no_cross_talk_response (fwd excl ret : Bool) (T n : Nat) (ops : List Op)
    (w : Nat) (rid : Rid) (st : St) :
    let s := run (Hub.init fwd excl ret T n) ops
    (∀ t ∈ s.tasks, rid ∉ t.sent → t ∈ (step s (.response w rid st)).tasks) ∧
    ∃ l, (step s (.response w rid st)).log = s.log ++ l ∧
      ∀ e ∈ l, e.kind = .processing ∧ ∃ t ∈ s.tasks, rid ∈ t.sent ∧ e.req = t.req ∧ e.client = t.client := by
  intro s
  have hi := inv_run _ ops (inv_init fwd excl ret T n)
  exact ⟨fun t ht hn => response_frame s hi.acc w rid st t ht hn, response_emits s hi.acc w rid st⟩

/-- **C09 (answers reach the requesting client only).** For every event
    sequence: every message the main process queues about a request — notices,
    and the verdict, whatever made the task finish — is addressed to the client
    that sent that request. -/
theorem C09_no_cross_talk (fwd excl ret : Bool) (T n : Nat) (pre post : List Op) (c : Nat) (v : Verb)
    (halive : (run (Hub.init fwd excl ret T n) pre).run ≠ .exited) :
    ∀ e ∈ (run (Hub.init fwd excl ret T n) (pre ++ [.request c v] ++ post)).log,
      e.req = (run (Hub.init fwd excl ret T n) pre).nextReq → e.client = c := by
  generalize hs0 : Hub.init fwd excl ret T n = s0 at *
  have hi0 : Inv s0 := hs0 ▸ inv_init fwd excl ret T n
  generalize hs1 : run s0 pre = s1 at *
  have hi1 : Inv s1 := hs1 ▸ inv_run s0 pre hi0
  have e2 : run s0 (pre ++ [.request c v] ++ post) = run (step s1 (.request c v)) post := by
    rw [run_append, run_append, hs1]; rfl
  rw [e2]
  have hr2 : s1.nextReq < (step s1 (.request c v)).nextReq := by
    have := step_nextReq s1 (.request c v); simp only [halive, if_false] at this; omega
  exact logOwned_run (step s1 (.request c v)) post (bounds_step s1 _ hi1.bounds) s1.nextReq c v s1.now hr2
    (owned_request s1 c v hi1.bounds) (logOwned_request s1 c v hi1.bounds)

/-- two clients, interleaved answers: each verdict goes to its own client -/
example :
    let s := run (Hub.init false false false 10 2)
      [.request 7 .worker, .request 9 .worker, .response 0 ⟨0, 1, 0⟩ .ok, .response 1 ⟨1, 1, 0⟩ .failure,
       .response 0 ⟨0, 0, 0⟩ .ok, .response 1 ⟨1, 0, 0⟩ .ok, .tick]
    s.log.filterMap (fun e => if e.isFinal then some (e.req, e.client, e.kind) else none)
      = [(0, 7, .ok), (1, 9, .failure)] := by
  decide

end Sozu.Hub
