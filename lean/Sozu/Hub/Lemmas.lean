import Sozu.Hub.Model
/-
Helper lemmas for the Hub model (C09): configuration is constant, bounds on
ids, conservation of "pending + answered", per-task accounting.
-/
set_option linter.unusedSimpArgs false
set_option linter.unusedVariables false
namespace Sozu.Hub

-- ------------------------------------------------------ configuration ----

theorem step_retire (h : Hub) (op : Op) : (step h op).retire = h.retire := by
  cases op <;> simp only [step, request, response, close, sendFail, tick, lookup] <;> (repeat' split) <;> simp

theorem run_retire (h : Hub) (ops : List Op) : (run h ops).retire = h.retire := by
  induction ops generalizing h with
  | nil => simp [run]
  | cons o os ih => simp only [run, List.foldl_cons] at *; rw [ih, step_retire]

theorem step_cfg (h : Hub) (op : Op) :
    (step h op).fwd = h.fwd ∧ (step h op).stopExcl = h.stopExcl ∧ (step h op).timeout = h.timeout := by
  cases op <;> simp only [step, request, response, close, sendFail, tick, lookup] <;> (repeat' split) <;> simp

theorem run_cfg (h : Hub) (ops : List Op) :
    (run h ops).fwd = h.fwd ∧ (run h ops).stopExcl = h.stopExcl ∧ (run h ops).timeout = h.timeout := by
  induction ops generalizing h with
  | nil => simp [run]
  | cons o os ih =>
    have := step_cfg h o
    have := ih (step h o)
    simp only [run, List.foldl_cons] at *
    grind

theorem run_append (h : Hub) (a b : List Op) : run h (a ++ b) = run (run h a) b := by
  simp [run, List.foldl_append]

theorem run_cons (h : Hub) (o : Op) (os : List Op) : run h (o :: os) = run (step h o) os := by
  simp [run]

-- ------------------------------------------------------------- bounds ----

structure Bounds (h : Hub) : Prop where
  tasks_lt : ∀ t ∈ h.tasks, t.id < h.nextTask ∧ t.req < h.nextReq ∧ t.verb.gathers = true
  log_lt : ∀ e ∈ h.log, e.req < h.nextReq

theorem bounds_init (a b c : Bool) (t n : Nat) : Bounds (Hub.init a b c t n) := by
  constructor <;> simp [Hub.init]

theorem onMessage_id (t : Task) (w : Nat) (rid : Rid) (st : St) :
    (onMessage t w rid st).id = t.id ∧ (onMessage t w rid st).req = t.req ∧
    (onMessage t w rid st).verb = t.verb ∧ (onMessage t w rid st).client = t.client ∧
    (onMessage t w rid st).deadline = t.deadline ∧ (onMessage t w rid st).born = t.born ∧
    (onMessage t w rid st).sent = t.sent ∧ (onMessage t w rid st).expected = t.expected := by
  simp [onMessage]

theorem finishEmits_req (h : Hub) (t : Task) : ∀ e ∈ finishEmits h t, e.req = t.req ∧ e.client = t.client := by
  intro e he
  simp only [finishEmits, List.mem_map] at he
  obtain ⟨st, _, rfl⟩ := he
  simp [mkEmit]

theorem requestEmits_req (h : Hub) (c : Nat) (v : Verb) : ∀ e ∈ requestEmits h c v, e.req = h.nextReq ∧ e.client = c := by
  intro e he
  simp only [requestEmits] at he
  split at he
  · simp only [List.mem_replicate] at he; simp [he.2, mkEmit]
  · split at he
    · simp only [List.mem_append, List.mem_replicate, List.mem_singleton] at he
      rcases he with ⟨_, rfl⟩ | rfl <;> simp [mkEmit]
    · simp at he

theorem responseTasks_mem (h : Hub) (w : Nat) (rid : Rid) (st : St) :
    ∀ t ∈ responseTasks h w rid st, ∃ t0 ∈ h.tasks, t.id = t0.id ∧ t.req = t0.req ∧ t.verb = t0.verb ∧
      t.client = t0.client ∧ t.deadline = t0.deadline ∧ t.born = t0.born ∧ t.sent = t0.sent ∧ t.expected = t0.expected := by
  intro t ht
  simp only [responseTasks] at ht
  split at ht
  · exact ⟨t, ht, by simp⟩
  · simp only [List.mem_map] at ht
    obtain ⟨t0, ht0, rfl⟩ := ht
    refine ⟨t0, ht0, ?_⟩
    split <;> simp [onMessage]

theorem responseEmits_req (h : Hub) (rid : Rid) (st : St) :
    ∀ e ∈ responseEmits h rid st, e.kind = .processing ∧ ∃ t ∈ h.tasks, e.req = t.req ∧ e.client = t.client := by
  intro e he
  simp only [responseEmits] at he
  split at he
  · split at he
    · simp at he
    · simp only [List.mem_map, List.mem_filter] at he
      obtain ⟨t0, ⟨ht0, _⟩, rfl⟩ := he
      exact ⟨by simp [mkEmit], t0, ht0, by simp [mkEmit]⟩
  · simp at he

theorem bounds_step (h : Hub) (op : Op) (hb : Bounds h) : Bounds (step h op) := by
  obtain ⟨ht, hl⟩ := hb
  cases op with
  | request c v =>
    simp only [step, request]
    split
    · exact ⟨ht, hl⟩
    · constructor
      · intro t htm
        simp only at htm
        split at htm
        · simp only [List.mem_append, List.mem_singleton] at htm
          rcases htm with htm | rfl
          · have := ht t htm; simp [*]; omega
          · simp [newTask, *]
        · have := ht t htm; simp [*]; split <;> omega
      · intro e he
        simp only [List.mem_append] at he
        rcases he with he | he
        · have := hl e he; simp; omega
        · have := requestEmits_req h c v e he; simp; omega
  | response w rid st =>
    simp only [step, response]
    split
    · exact ⟨ht, hl⟩
    · constructor
      · intro t htm
        obtain ⟨t0, ht0, h1, h2, h3, _⟩ := responseTasks_mem h w rid st t htm
        have := ht t0 ht0
        simp [*]
      · intro e he
        simp only [List.mem_append] at he
        rcases he with he | he
        · exact hl e he
        · obtain ⟨_, t0, ht0, h1, _⟩ := responseEmits_req h rid st e he
          have := ht t0 ht0
          simp; omega
  | close w => simp only [step, close]; split <;> exact ⟨ht, hl⟩
  | sendFail w => simp only [step, sendFail]; split <;> exact ⟨ht, hl⟩
  | advance n => exact ⟨ht, hl⟩
  | drop c => simp only [step]; split <;> exact ⟨ht, hl⟩
  | tick =>
    simp only [step, tick]
    split
    · exact ⟨ht, hl⟩
    · constructor
      · intro t htm
        simp only [List.mem_filter] at htm
        exact ht t htm.1
      · intro e he
        simp only [List.mem_append, List.mem_flatMap, List.mem_filter] at he
        rcases he with he | ⟨t, ⟨htm, _⟩, he⟩
        · exact hl e he
        · have := finishEmits_req h t e he
          have := ht t htm
          simp; omega


-- ------------------------------------------------------- conservation ----

/-- every finished task produces exactly one final answer -/
def OneVerdict (h : Hub) : Prop := h.fwd = false ∨ h.stopExcl = true

theorem finals_finishEmits (h : Hub) (t : Task) (hc : OneVerdict h) (hg : t.verb.gathers = true) (r : Nat) :
    finalsOf r (finishEmits h t) = if t.req = r then 1 else 0 := by
  unfold OneVerdict at hc
  simp only [finalsOf, finishEmits, verdicts, List.countP_map]
  cases hv : t.verb <;> simp [hv, Verb.gathers] at hg ⊢ <;>
    (try split) <;> (try split) <;> (try split) <;>
    simp_all [List.countP_cons, Function.comp, mkEmit, Emit.isFinal]

theorem finals_flatMap (h : Hub) (l : List Task) (hc : OneVerdict h)
    (hg : ∀ t ∈ l, t.verb.gathers = true) (r : Nat) :
    finalsOf r (l.flatMap (finishEmits h)) = pendingOf r l := by
  induction l with
  | nil => simp [finalsOf, pendingOf]
  | cons a l ih =>
    have h1 := finals_finishEmits h a hc (hg a (by simp)) r
    have h2 := ih (fun t ht => hg t (by simp [ht]))
    simp only [finalsOf, pendingOf, List.flatMap_cons, List.countP_append, List.countP_cons] at *
    rw [h1, h2]
    simp only [decide_eq_true_eq]
    omega

/-- answered + pending, per request -/
def acct (r : Nat) (h : Hub) : Nat := finalsOf r h.log + pendingOf r h.tasks

theorem finals_append (r : Nat) (a b : List Emit) : finalsOf r (a ++ b) = finalsOf r a + finalsOf r b := by
  simp [finalsOf, List.countP_append]

theorem finals_zero_of (r : Nat) (l : List Emit) (h : ∀ e ∈ l, e.req ≠ r ∨ e.kind = .processing) : finalsOf r l = 0 := by
  simp only [finalsOf, List.countP_eq_zero]
  intro e he
  rcases h e he with h1 | h1 <;> simp [h1, Emit.isFinal]

theorem pending_zero_of (r : Nat) (l : List Task) (h : ∀ t ∈ l, t.req ≠ r) : pendingOf r l = 0 := by
  simp only [pendingOf, List.countP_eq_zero]
  intro t ht; simp [h t ht]

theorem pending_responseTasks (h : Hub) (w : Nat) (rid : Rid) (st : St) (r : Nat) :
    pendingOf r (responseTasks h w rid st) = pendingOf r h.tasks := by
  simp only [responseTasks]
  split
  · rfl
  · simp only [pendingOf, List.countP_map]
    congr 1
    funext t
    simp only [Function.comp]
    split <;> first | rfl | simp [onMessage]

theorem acct_step_old (h : Hub) (op : Op) (hb : Bounds h) (hc : OneVerdict h) (r : Nat)
    (hr : r < h.nextReq) : acct r (step h op) = acct r h := by
  cases op with
  | request c v =>
    simp only [step, request]
    split
    · rfl
    · simp only [acct, finals_append]
      have h1 : finalsOf r (requestEmits h c v) = 0 :=
        finals_zero_of _ _ (fun e he => Or.inl (by have := requestEmits_req h c v e he; omega))
      split
      · have h2 : pendingOf r [newTask h c v] = 0 := pending_zero_of _ _ (by simp [newTask]; omega)
        simp only [pendingOf, List.countP_append] at *
        omega
      · omega
  | response w rid st =>
    simp only [step, response]
    split
    · rfl
    · simp only [acct, finals_append, pending_responseTasks]
      have h1 : finalsOf r (responseEmits h rid st) = 0 :=
        finals_zero_of _ _ (fun e he => Or.inr (responseEmits_req h rid st e he).1)
      omega
  | close w => simp only [step, close]; split <;> rfl
  | sendFail w => simp only [step, sendFail]; split <;> rfl
  | advance n => rfl
  | drop c => simp only [step]; split <;> rfl
  | tick =>
    simp only [step, tick]
    split
    · rfl
    · simp only [acct, finals_append]
      have hg : ∀ t ∈ h.tasks.filter (isDone h.now), t.verb.gathers = true := by
        intro t ht; exact (hb.tasks_lt t (List.mem_filter.mp ht).1).2.2
      rw [finals_flatMap h _ hc hg r]
      have := List.countP_eq_countP_filter_add h.tasks (fun t => decide (t.req = r)) (isDone h.now)
      simp only [pendingOf] at *
      omega

theorem acct_fresh (h : Hub) (hb : Bounds h) (r : Nat) (hr : h.nextReq ≤ r) : acct r h = 0 := by
  have h1 : finalsOf r h.log = 0 := finals_zero_of _ _ (fun e he => Or.inl (by have := hb.log_lt e he; omega))
  have h2 : pendingOf r h.tasks = 0 := pending_zero_of _ _ (fun t ht => by have := hb.tasks_lt t ht; omega)
  simp [acct, h1, h2]

-- ------------------------------------------------------- runs ----

/-- verbs the code answers at all -/
def Verb.answers (v : Verb) : Bool := v.gathers || v.immediate.isSome

theorem step_nextReq (h : Hub) (op : Op) :
    (step h op).nextReq = match op with
      | .request _ _ => if h.run = .exited then h.nextReq else h.nextReq + 1
      | _ => h.nextReq := by
  cases op <;> simp only [step, request, response, close, sendFail, tick] <;> (try split) <;> simp

theorem step_nextReq_mono (h : Hub) (op : Op) : h.nextReq ≤ (step h op).nextReq := by
  rw [step_nextReq]; cases op <;> simp <;> split <;> omega

theorem step_log_prefix (h : Hub) (op : Op) : ∃ l, (step h op).log = h.log ++ l := by
  cases op <;> simp only [step, request, response, close, sendFail, tick] <;> (try split) <;>
    first | exact ⟨_, rfl⟩ | exact ⟨[], by simp⟩

theorem finals_step_mono (h : Hub) (op : Op) (r : Nat) : finalsOf r h.log ≤ finalsOf r (step h op).log := by
  obtain ⟨l, hl⟩ := step_log_prefix h op
  rw [hl, finals_append]; omega

theorem finals_run_mono (h : Hub) (ops : List Op) (r : Nat) : finalsOf r h.log ≤ finalsOf r (run h ops).log := by
  induction ops generalizing h with
  | nil => simp [run]
  | cons o os ih => rw [run_cons]; exact Nat.le_trans (finals_step_mono h o r) (ih _)

theorem oneVerdict_step (h : Hub) (op : Op) (hc : OneVerdict h) : OneVerdict (step h op) := by
  have := step_cfg h op; unfold OneVerdict at *; rw [this.1, this.2.1]; exact hc

theorem acct_request_new (h : Hub) (c : Nat) (v : Verb) (hb : Bounds h) (he : h.run ≠ .exited) :
    acct h.nextReq (step h (.request c v)) = if v.answers then 1 else 0 := by
  have h0 := acct_fresh h hb h.nextReq (Nat.le_refl _)
  simp only [acct] at h0
  simp only [step, request, he, if_false, acct, finals_append]
  have hf : finalsOf h.nextReq (requestEmits h c v) = if v.gathers then 0 else if v.immediate.isSome then 1 else 0 := by
    simp only [requestEmits]
    split
    · exact finals_zero_of _ _ (fun e he => Or.inr (by simp only [List.mem_replicate] at he; simp [he.2, mkEmit]))
    · split <;> rename_i hi
      · rename_i st
        have : st ≠ .processing := by
          cases v <;> simp [Verb.immediate] at hi <;> simp [← hi]
        simp [finalsOf, List.countP_cons, mkEmit, Emit.isFinal, hi, this]
      · simp [finalsOf, hi]
  rw [hf]
  cases hg : v.gathers
  · simp only [Verb.answers, hg, Bool.false_or, if_false, Bool.false_eq_true]
    split <;> simp_all <;> omega
  · simp only [pendingOf] at h0
    simp [Verb.answers, hg, pendingOf, List.countP_append, List.countP_cons, newTask]
    omega

/-- invariants carried along every run -/
structure Good (h : Hub) : Prop where
  bounds : Bounds h
  one : OneVerdict h

theorem good_step (h : Hub) (op : Op) (hg : Good h) : Good (step h op) :=
  ⟨bounds_step h op hg.bounds, oneVerdict_step h op hg.one⟩

theorem good_run (h : Hub) (ops : List Op) (hg : Good h) : Good (run h ops) := by
  induction ops generalizing h with
  | nil => exact hg
  | cons o os ih => rw [run_cons]; exact ih _ (good_step h o hg)

theorem acct_run_old (h : Hub) (ops : List Op) (hg : Good h) (r : Nat) (hr : r < h.nextReq) :
    acct r (run h ops) = acct r h := by
  induction ops generalizing h with
  | nil => rfl
  | cons o os ih =>
    rw [run_cons, ih (step h o) (good_step h o hg) (Nat.lt_of_lt_of_le hr (step_nextReq_mono h o))]
    exact acct_step_old h o hg.bounds hg.one r hr

theorem acct_le_one_step (h : Hub) (op : Op) (hg : Good h) (hi : ∀ r, acct r h ≤ 1) :
    ∀ r, acct r (step h op) ≤ 1 := by
  intro r
  by_cases hr : r < h.nextReq
  · rw [acct_step_old h op hg.bounds hg.one r hr]; exact hi r
  · have hb' := bounds_step h op hg.bounds
    by_cases hr' : (step h op).nextReq ≤ r
    · rw [acct_fresh _ hb' r hr']; omega
    · -- the step was a request that allocated serial r
      have hn := step_nextReq h op
      cases op with
      | request c v =>
        simp only at hn
        split at hn
        · omega
        · rename_i he
          have : r = h.nextReq := by omega
          subst this
          rw [acct_request_new h c v hg.bounds he]; split <;> omega
      | _ => simp only at hn; omega

theorem acct_le_one_run (h : Hub) (ops : List Op) (hg : Good h) (hi : ∀ r, acct r h ≤ 1) :
    ∀ r, acct r (run h ops) ≤ 1 := by
  induction ops generalizing h with
  | nil => exact hi
  | cons o os ih => rw [run_cons]; exact ih _ (good_step h o hg) (acct_le_one_step h o hg hi)

theorem good_init (a b c : Bool) (t n : Nat) (hc : a = false ∨ b = true) : Good (Hub.init a b c t n) :=
  ⟨bounds_init a b c t n, by simpa [OneVerdict, Hub.init] using hc⟩

theorem acct_init (a b c : Bool) (t n r : Nat) : acct r (Hub.init a b c t n) = 0 := by
  simp [acct, Hub.init, finalsOf, pendingOf]

-- ------------------------------------------------------- deadlines, ownership ----

/-- deadlines are what `new_task` computed -/
def Timed (h : Hub) : Prop :=
  ∀ t ∈ h.tasks, t.born ≤ h.now ∧ t.deadline = (if t.verb.hasDeadline then some (t.born + h.timeout) else none)

theorem timed_init (a b c : Bool) (t n : Nat) : Timed (Hub.init a b c t n) := by simp [Timed, Hub.init]

theorem timed_step (h : Hub) (op : Op) (ht : Timed h) : Timed (step h op) := by
  cases op with
  | request c v =>
    simp only [step, request]
    split
    · exact ht
    · intro t htm
      simp only at htm
      split at htm
      · simp only [List.mem_append, List.mem_singleton] at htm
        rcases htm with htm | rfl
        · exact ht t htm
        · exact ⟨by simp [newTask], by simp only [newTask]; rfl⟩
      · exact ht t htm
  | response w rid st =>
    simp only [step, response]
    split
    · exact ht
    · intro t htm
      obtain ⟨t0, ht0, _, _, h3, _, h5, h6, _⟩ := responseTasks_mem h w rid st t htm
      have := ht t0 ht0
      simp only [h3, h5, h6]; exact this
  | close w => simp only [step, close]; split <;> exact ht
  | sendFail w => simp only [step, sendFail]; split <;> exact ht
  | advance n =>
    intro t htm
    have := ht t htm
    simp only [step] at *
    exact ⟨by omega, this.2⟩
  | drop c => simp only [step]; split <;> exact ht
  | tick =>
    simp only [step, tick]
    split
    · exact ht
    · intro t htm
      simp only [List.mem_filter] at htm
      exact ht t htm.1

theorem timed_run (h : Hub) (ops : List Op) (ht : Timed h) : Timed (run h ops) := by
  induction ops generalizing h with
  | nil => exact ht
  | cons o os ih => rw [run_cons]; exact ih _ (timed_step h o ht)

/-- the tasks of request `r` belong to client `c`, have verb `v`, were created at `b` -/
def Owned (r c : Nat) (v : Verb) (b : Nat) (h : Hub) : Prop :=
  ∀ t ∈ h.tasks, t.req = r → t.client = c ∧ t.verb = v ∧ t.born = b

theorem owned_request (h : Hub) (c : Nat) (v : Verb) (hb : Bounds h) :
    Owned h.nextReq c v h.now (step h (.request c v)) := by
  simp only [step, request]
  split
  · intro t htm hr; have := hb.tasks_lt t htm; omega
  · intro t htm hr
    simp only at htm
    split at htm
    · simp only [List.mem_append, List.mem_singleton] at htm
      rcases htm with htm | rfl
      · have := hb.tasks_lt t htm; omega
      · simp [newTask]
    · have := hb.tasks_lt t htm; omega

theorem owned_step (h : Hub) (op : Op) (hb : Bounds h) (r c : Nat) (v : Verb) (b : Nat)
    (hr : r < h.nextReq) (ho : Owned r c v b h) : Owned r c v b (step h op) := by
  cases op with
  | request c' v' =>
    simp only [step, request]
    split
    · exact ho
    · intro t htm hreq
      simp only at htm
      split at htm
      · simp only [List.mem_append, List.mem_singleton] at htm
        rcases htm with htm | rfl
        · exact ho t htm hreq
        · simp [newTask] at hreq; omega
      · exact ho t htm hreq
  | response w rid st =>
    simp only [step, response]
    split
    · exact ho
    · intro t htm hreq
      obtain ⟨t0, ht0, _, h2, h3, h4, _, h6, _⟩ := responseTasks_mem h w rid st t htm
      have := ho t0 ht0 (by omega)
      simp only [h3, h4, h6]; exact this
  | close w => simp only [step, close]; split <;> exact ho
  | sendFail w => simp only [step, sendFail]; split <;> exact ho
  | advance n => exact ho
  | drop c => simp only [step]; split <;> exact ho
  | tick =>
    simp only [step, tick]
    split
    · exact ho
    · intro t htm hreq
      simp only [List.mem_filter] at htm
      exact ho t htm.1 hreq

theorem owned_run (h : Hub) (ops : List Op) (hb : Bounds h) (r c : Nat) (v : Verb) (b : Nat)
    (hr : r < h.nextReq) (ho : Owned r c v b h) : Owned r c v b (run h ops) := by
  induction ops generalizing h with
  | nil => exact ho
  | cons o os ih =>
    rw [run_cons]
    exact ih _ (bounds_step h o hb) (Nat.lt_of_lt_of_le hr (step_nextReq_mono h o)) (owned_step h o hb r c v b hr ho)

theorem tick_clears (h : Hub) (he : h.run ≠ .exited) : ∀ t ∈ (step h .tick).tasks, isDone h.now t = false := by
  intro t ht
  simp only [step, tick, he, if_false, List.mem_filter] at ht
  simpa using ht.2

theorem tick_now (h : Hub) : (step h .tick).now = h.now := by
  simp only [step, tick]; split <;> rfl

-- ------------------------------------------------------- per-task accounting ----

/-- pigeonhole: a duplicate-free list inside `s` that is at least as long as `s` covers `s` -/
theorem covers_of_nodup {α : Type} [DecidableEq α] (l s : List α) (hn : l.Nodup) (hs : ∀ x ∈ l, x ∈ s)
    (hl : s.length ≤ l.length) : ∀ x ∈ s, x ∈ l := by
  induction l generalizing s with
  | nil =>
    intro x hx
    have : s = [] := List.eq_nil_of_length_eq_zero (by simpa using hl)
    simp [this] at hx
  | cons a l ih =>
    have ⟨ha, hn'⟩ := List.nodup_cons.mp hn
    have has : a ∈ s := hs a (by simp)
    have hlen : (s.erase a).length = s.length - 1 := List.length_erase_of_mem has
    have hsub : ∀ x ∈ l, x ∈ s.erase a := by
      intro x hx
      have hne : x ≠ a := fun e => ha (e ▸ hx)
      exact (List.mem_erase_of_ne hne).mpr (hs x (by simp [hx]))
    have hpos : 0 < s.length := List.length_pos_of_mem has
    have := ih (s.erase a) hn' hsub (by simp at hl; omega)
    intro x hx
    by_cases hxa : x = a
    · simp [hxa]
    · exact List.mem_cons_of_mem _ (this x ((List.mem_erase_of_ne hxa).mpr hx))

/-- ids of the terminal (Ok / Failure) responses a task has counted -/
def termRids (got : List (Nat × Rid × St)) : List Rid :=
  (got.filter (fun g => g.2.2 ≠ .processing)).map (·.2.1)

def okCount (got : List (Nat × Rid × St)) : Nat := got.countP (fun g => g.2.2 = .ok)
def failCount (got : List (Nat × Rid × St)) : Nat := got.countP (fun g => g.2.2 = .failure)

theorem termRids_length (got : List (Nat × Rid × St)) : (termRids got).length = okCount got + failCount got := by
  induction got with
  | nil => simp [termRids, okCount, failCount]
  | cons g gs ih =>
    obtain ⟨w, rid, st⟩ := g
    simp only [termRids, okCount, failCount, List.filter_cons, List.countP_cons] at *
    cases st <;> simp at * <;> omega

/-- what the gatherer's counters mean -/
structure TaskInv (seen : List Rid) (t : Task) : Prop where
  expected : t.expected = t.sent.length
  ok : t.ok = okCount t.got
  errors : t.errors = failCount t.got
  got_sent : ∀ g ∈ t.got, g.2.1 ∈ t.sent
  counted : ∀ rid, (termRids t.got).count rid ≤ seen.count rid

theorem taskInv_seen_mono {seen seen' : List Rid} {t : Task} (hi : TaskInv seen t)
    (hm : ∀ rid, seen.count rid ≤ seen'.count rid) : TaskInv seen' t :=
  ⟨hi.expected, hi.ok, hi.errors, hi.got_sent, fun rid => Nat.le_trans (hi.counted rid) (hm rid)⟩

theorem taskInv_new (h : Hub) (c : Nat) (v : Verb) : TaskInv h.seen (newTask h c v) := by
  constructor <;> simp [newTask, okCount, failCount, termRids]

theorem taskInv_onMessage (seen : List Rid) (t : Task) (w : Nat) (rid : Rid) (st : St)
    (hi : TaskInv seen t) (hs : rid ∈ t.sent) :
    TaskInv (if st = .processing then seen else rid :: seen) (onMessage t w rid st) := by
  obtain ⟨h1, h2, h3, h4, h5⟩ := hi
  constructor
  · simpa [onMessage] using h1
  · simp only [onMessage, okCount, List.countP_append, List.countP_cons, List.countP_nil] at *
    cases st <;> simp [h2]
  · simp only [onMessage, failCount, List.countP_append, List.countP_cons, List.countP_nil] at *
    cases st <;> simp [h3]
  · intro g hg
    simp only [onMessage, List.mem_append, List.mem_singleton] at hg
    rcases hg with hg | rfl
    · exact h4 g hg
    · exact hs
  · intro r
    have := h5 r
    simp only [onMessage, termRids, List.filter_append, List.map_append, List.count_append] at *
    cases st <;> simp [List.filter_cons, List.count_cons] at * <;> (try split) <;> omega

-- ------------------------------------------------------- hub accounting ----

structure Acc (h : Hub) : Prop where
  tasks : ∀ t ∈ h.tasks, TaskInv h.seen t
  ids : (h.tasks.map (·.id)).Nodup
  infl_lt : ∀ e ∈ h.inflight, e.2 < h.nextTask
  infl_sent : ∀ e ∈ h.inflight, ∀ t ∈ h.tasks, t.id = e.2 → e.1 ∈ t.sent
  log : ∀ e ∈ h.log, ∀ t to, e.src = some (t, to) →
    TaskInv h.seen t ∧ to = timedOut t ∧ e.req = t.req ∧ e.client = t.client ∧
    e.kind ∈ verdicts h.stopExcl t (h.fwd && to)

theorem acc_init (a b c : Bool) (t n : Nat) : Acc (Hub.init a b c t n) := by
  constructor <;> simp [Hub.init]

theorem lookup_some (h : Hub) (rid : Rid) (tid : Nat) (hl : lookup h rid = some tid) :
    (rid, tid) ∈ h.inflight := by
  simp only [lookup, Option.map_eq_some_iff] at hl
  obtain ⟨e, he, rfl⟩ := hl
  have h1 := List.find?_some he
  have h2 := List.mem_of_find?_eq_some he
  simp only [decide_eq_true_eq] at h1
  obtain ⟨a, b⟩ := e
  simp only at h1; subst h1; exact h2

theorem responseTasks_ids (h : Hub) (w : Nat) (rid : Rid) (st : St) :
    (responseTasks h w rid st).map (·.id) = h.tasks.map (·.id) := by
  simp only [responseTasks]
  split
  · rfl
  · simp only [List.map_map]
    congr 1; funext t; simp only [Function.comp]; split <;> first | rfl | simp [onMessage]

theorem requestEmits_src (h : Hub) (c : Nat) (v : Verb) : ∀ e ∈ requestEmits h c v, e.src = none := by
  intro e he
  simp only [requestEmits] at he
  split at he
  · simp only [List.mem_replicate] at he; simp [he.2, mkEmit]
  · split at he
    · simp only [List.mem_append, List.mem_replicate, List.mem_singleton] at he
      rcases he with ⟨_, rfl⟩ | rfl <;> simp [mkEmit]
    · simp at he

theorem responseEmits_src (h : Hub) (rid : Rid) (st : St) : ∀ e ∈ responseEmits h rid st, e.src = none := by
  intro e he
  simp only [responseEmits] at he
  split at he
  · split at he
    · simp at he
    · simp only [List.mem_map] at he
      obtain ⟨t0, _, rfl⟩ := he
      simp [mkEmit]
  · simp at he

theorem responseInflight_sub (h : Hub) (rid : Rid) (st : St) :
    ∀ e ∈ responseInflight h rid st, e ∈ h.inflight := by
  intro e he
  simp only [responseInflight] at he
  split at he
  · exact (List.mem_filter.mp he).1
  · exact he

theorem acc_step (h : Hub) (op : Op) (hb : Bounds h) (ha : Acc h) : Acc (step h op) := by
  obtain ⟨h1, h2, h3, h4, h5⟩ := ha
  cases op with
  | request c v =>
    simp only [step, request]
    split
    · exact ⟨h1, h2, h3, h4, h5⟩
    · constructor
      · intro t ht
        simp only at ht
        split at ht
        · simp only [List.mem_append, List.mem_singleton] at ht
          rcases ht with ht | rfl
          · exact h1 t ht
          · exact taskInv_new h c v
        · exact h1 t ht
      · simp only
        split
        · simp only [List.map_append, List.map_cons, List.map_nil]
          rw [List.nodup_append]
          refine ⟨h2, by simp, ?_⟩
          intro a ha b hb'
          simp only [List.mem_map] at ha
          obtain ⟨t, ht, rfl⟩ := ha
          simp only [List.mem_singleton] at hb'
          have := hb.tasks_lt t ht
          simp [hb', newTask]; omega
        · exact h2
      · intro e he
        simp only at he ⊢
        split at he
        · simp only [List.mem_append, List.mem_map] at he
          rcases he with ⟨r, _, rfl⟩ | he
          · simp [*]
          · have := h3 e he; simp [*]; omega
        · have := h3 e he; simp [*]; split <;> omega
      · intro e he t ht hid
        simp only at he ht
        split at he
        · rename_i hg
          simp only [hg, if_true, List.mem_append, List.mem_singleton] at ht
          simp only [List.mem_append, List.mem_map] at he
          rcases he with ⟨r, hr, rfl⟩ | he
          · rcases ht with ht | rfl
            · have := hb.tasks_lt t ht; simp at hid; omega
            · exact hr
          · rcases ht with ht | rfl
            · exact h4 e he t ht hid
            · have := h3 e he; simp [newTask] at hid; omega
        · rename_i hg
          simp only [hg, if_false, Bool.false_eq_true] at ht
          exact h4 e he t ht hid
      · intro e he t to hs
        simp only [List.mem_append] at he
        rcases he with he | he
        · exact h5 e he t to hs
        · have := requestEmits_src h c v e he; simp [this] at hs
  | response w rid st =>
    simp only [step, response]
    split
    · exact ⟨h1, h2, h3, h4, h5⟩
    · have hm : ∀ r, h.seen.count r ≤ (if st = St.processing then h.seen else rid :: h.seen).count r := by
        intro r; split
        · exact Nat.le_refl _
        · simp [List.count_cons]
      constructor
      · intro t ht
        simp only [responseTasks] at ht
        split at ht
        · exact taskInv_seen_mono (h1 t ht) hm
        · rename_i tid hl
          simp only [List.mem_map] at ht
          obtain ⟨t0, ht0, rfl⟩ := ht
          show TaskInv (if st = St.processing then h.seen else rid :: h.seen)
            (if t0.id = tid then onMessage t0 w rid st else t0)
          by_cases hid : t0.id = tid
          · rw [if_pos hid]
            have hmem := lookup_some h rid tid hl
            exact taskInv_onMessage h.seen t0 w rid st (h1 t0 ht0) (h4 _ hmem t0 ht0 hid)
          · rw [if_neg hid]; exact taskInv_seen_mono (h1 t0 ht0) hm
      · simp only [responseTasks_ids]; exact h2
      · intro e he; exact h3 e (responseInflight_sub h rid st e he)
      · intro e he t ht hid
        obtain ⟨t0, ht0, hi, _, _, _, _, _, hs, _⟩ := responseTasks_mem h w rid st t ht
        rw [hs]; exact h4 e (responseInflight_sub h rid st e he) t0 ht0 (by omega)
      · intro e he t to hs
        simp only [List.mem_append] at he
        rcases he with he | he
        · obtain ⟨a, b⟩ := h5 e he t to hs
          exact ⟨taskInv_seen_mono a hm, b⟩
        · have := responseEmits_src h rid st e he; simp [this] at hs
  | close w => simp only [step, close]; split <;> exact ⟨h1, h2, h3, h4, h5⟩
  | sendFail w => simp only [step, sendFail]; split <;> exact ⟨h1, h2, h3, h4, h5⟩
  | advance n => exact ⟨h1, h2, h3, h4, h5⟩
  | drop c => simp only [step]; split <;> exact ⟨h1, h2, h3, h4, h5⟩
  | tick =>
    simp only [step, tick]
    split
    · exact ⟨h1, h2, h3, h4, h5⟩
    · constructor
      · intro t ht; exact h1 t (List.mem_filter.mp ht).1
      · exact List.Nodup.sublist (List.Sublist.map _ List.filter_sublist) h2
      · intro e he; exact h3 e (List.mem_filter.mp he).1
      · intro e he t ht hid
        exact h4 e (List.mem_filter.mp he).1 t (List.mem_filter.mp ht).1 hid
      · intro e he t to hs
        simp only [List.mem_append, List.mem_flatMap, List.mem_filter] at he
        rcases he with he | ⟨t0, ⟨ht0, _⟩, he⟩
        · exact h5 e he t to hs
        · simp only [finishEmits, List.mem_map] at he
          obtain ⟨k, hk, rfl⟩ := he
          simp only [mkEmit, Option.some.injEq, Prod.mk.injEq] at hs
          obtain ⟨rfl, rfl⟩ := hs
          exact ⟨h1 t0 ht0, rfl, rfl, rfl, hk⟩

-- ------------------------------------------------------- routing, frames ----

/-- ids of the terminal worker answers in an event sequence -/
def opRids (ops : List Op) : List Rid :=
  ops.filterMap (fun
    | .response _ rid st => if st = .processing then none else some rid
    | _ => none)

theorem seen_step (h : Hub) (op : Op) (r : Rid) :
    (step h op).seen.count r ≤ h.seen.count r + (opRids [op]).count r := by
  cases op with
  | response w rid st =>
    simp only [step, response, opRids, List.filterMap_cons, List.filterMap_nil]
    split
    · omega
    · cases st <;> simp [List.count_cons]
  | request c v => simp only [step, request]; split <;> simp
  | close w => simp only [step, close]; split <;> simp
  | sendFail w => simp only [step, sendFail]; split <;> simp
  | advance n => simp [step]
  | drop c => simp only [step]; split <;> simp
  | tick => simp only [step, tick]; split <;> simp

theorem seen_run (h : Hub) (ops : List Op) (r : Rid) :
    (run h ops).seen.count r ≤ h.seen.count r + (opRids ops).count r := by
  induction ops generalizing h with
  | nil => simp [run, opRids]
  | cons o os ih =>
    rw [run_cons]
    have h1 := ih (step h o)
    have h2 := seen_step h o r
    have h3 : (opRids (o :: os)).count r = (opRids [o]).count r + (opRids os).count r := by
      have : o :: os = [o] ++ os := rfl
      rw [this, opRids, List.filterMap_append, List.count_append]; rfl
    omega

/-- every message about request `r` is addressed to client `c` -/
def LogOwned (r c : Nat) (h : Hub) : Prop := ∀ e ∈ h.log, e.req = r → e.client = c

theorem logOwned_request (h : Hub) (c : Nat) (v : Verb) (hb : Bounds h) :
    LogOwned h.nextReq c (step h (.request c v)) := by
  simp only [step, request]
  split
  · intro e he hr; have := hb.log_lt e he; omega
  · intro e he hr
    simp only [List.mem_append] at he
    rcases he with he | he
    · have := hb.log_lt e he; omega
    · exact (requestEmits_req h c v e he).2

theorem logOwned_step (h : Hub) (op : Op) (r c : Nat) (v : Verb) (b : Nat)
    (hr : r < h.nextReq) (ho : Owned r c v b h) (hl : LogOwned r c h) : LogOwned r c (step h op) := by
  cases op with
  | request c' v' =>
    simp only [step, request]
    split
    · exact hl
    · intro e he hreq
      simp only [List.mem_append] at he
      rcases he with he | he
      · exact hl e he hreq
      · have := requestEmits_req h c' v' e he; omega
  | response w rid st =>
    simp only [step, response]
    split
    · exact hl
    · intro e he hreq
      simp only [List.mem_append] at he
      rcases he with he | he
      · exact hl e he hreq
      · obtain ⟨_, t, ht, h1, h2⟩ := responseEmits_req h rid st e he
        rw [h2]; exact (ho t ht (by omega)).1
  | close w => simp only [step, close]; split <;> exact hl
  | sendFail w => simp only [step, sendFail]; split <;> exact hl
  | advance n => exact hl
  | drop c => simp only [step]; split <;> exact hl
  | tick =>
    simp only [step, tick]
    split
    · exact hl
    · intro e he hreq
      simp only [List.mem_append, List.mem_flatMap, List.mem_filter] at he
      rcases he with he | ⟨t, ⟨ht, _⟩, he⟩
      · exact hl e he hreq
      · have := finishEmits_req h t e he
        rw [this.2]; exact (ho t ht (by omega)).1

theorem logOwned_run (h : Hub) (ops : List Op) (hb : Bounds h) (r c : Nat) (v : Verb) (b : Nat)
    (hr : r < h.nextReq) (ho : Owned r c v b h) (hl : LogOwned r c h) : LogOwned r c (run h ops) := by
  induction ops generalizing h with
  | nil => exact hl
  | cons o os ih =>
    rw [run_cons]
    exact ih _ (bounds_step h o hb) (Nat.lt_of_lt_of_le hr (step_nextReq_mono h o))
      (owned_step h o hb r c v b hr ho) (logOwned_step h o r c v b hr ho hl)

/-- a response touches only the task its id was issued for -/
theorem response_frame (h : Hub) (ha : Acc h) (w : Nat) (rid : Rid) (st : St)
    (t : Task) (ht : t ∈ h.tasks) (hn : rid ∉ t.sent) :
    t ∈ (step h (.response w rid st)).tasks := by
  simp only [step, response]
  split
  · exact ht
  · simp only [responseTasks]
    split
    · exact ht
    · rename_i tid hl
      have hmem := lookup_some h rid tid hl
      have hne : t.id ≠ tid := fun e => hn (ha.infl_sent _ hmem t ht e)
      exact List.mem_map.mpr ⟨t, ht, by simp [hne]⟩

/-- what a response makes the hub send goes to the client of a task the id was issued for -/
theorem response_emits (h : Hub) (ha : Acc h) (w : Nat) (rid : Rid) (st : St) :
    ∃ l, (step h (.response w rid st)).log = h.log ++ l ∧
      ∀ e ∈ l, e.kind = .processing ∧ ∃ t ∈ h.tasks, rid ∈ t.sent ∧ e.req = t.req ∧ e.client = t.client := by
  simp only [step, response]
  split
  · exact ⟨[], by simp, by simp⟩
  · refine ⟨responseEmits h rid st, rfl, ?_⟩
    intro e he
    simp only [responseEmits] at he
    split at he
    · split at he
      · simp at he
      · rename_i tid hl
        have hmem := lookup_some h rid tid hl
        simp only [List.mem_map, List.mem_filter] at he
        obtain ⟨t0, ⟨ht0, hid⟩, rfl⟩ := he
        simp only [decide_eq_true_eq] at hid
        exact ⟨by simp [mkEmit], t0, ht0, ha.infl_sent _ hmem t0 ht0 hid, by simp [mkEmit]⟩
    · simp at he

/-- the verdict rule of `WorkerTask::on_finish` -/
theorem verdict_worker_ok (excl : Bool) (t : Task) (p : Bool) (hv : t.verb = .worker)
    (h : St.ok ∈ verdicts excl t p) : t.errors = 0 ∧ p = false := by
  unfold verdicts at h
  rw [hv] at h
  simp only [List.mem_singleton] at h
  by_cases h0 : t.errors > 0
  · simp [h0] at h
  · cases p
    · exact ⟨by omega, rfl⟩
    · simp at h

/-- the verdict rule of `LoadStateTask::on_finish` -/
theorem verdict_load_ok (excl : Bool) (t : Task) (p : Bool) (k : Nat) (hv : t.verb = .loadState k)
    (h : St.ok ∈ verdicts excl t p) : t.errors = 0 := by
  unfold verdicts at h
  rw [hv] at h
  simp only [List.mem_singleton] at h
  by_cases h0 : t.errors = 0
  · exact h0
  · simp [h0] at h

/-- the verdict rule of `LoadStaticConfigTask::on_finish` -/
theorem verdict_reload_ok (excl : Bool) (t : Task) (p : Bool) (k : Nat) (hv : t.verb = .reload k)
    (h : St.ok ∈ verdicts excl t p) : t.errors = 0 := by
  unfold verdicts at h
  rw [hv] at h
  simp only [List.mem_singleton] at h
  by_cases h0 : t.errors = 0
  · exact h0
  · simp [h0] at h

/-- everything the theorems need about a reachable hub -/
structure Inv (h : Hub) : Prop where
  bounds : Bounds h
  timed : Timed h
  acc : Acc h

theorem inv_init (a b c : Bool) (t n : Nat) : Inv (Hub.init a b c t n) :=
  ⟨bounds_init a b c t n, timed_init a b c t n, acc_init a b c t n⟩

theorem inv_step (h : Hub) (op : Op) (hi : Inv h) : Inv (step h op) :=
  ⟨bounds_step h op hi.bounds, timed_step h op hi.timed, acc_step h op hi.bounds hi.acc⟩

theorem inv_run (h : Hub) (ops : List Op) (hi : Inv h) : Inv (run h ops) := by
  induction ops generalizing h with
  | nil => exact hi
  | cons o os ih => rw [run_cons]; exact ih _ (inv_step h o hi)

-- ------------------------------------------------------- retired ids ----

/-- ids carry the id of the task they were scattered for -/
def SentTask (h : Hub) : Prop := ∀ t ∈ h.tasks, ∀ rid ∈ t.sent, rid.task = t.id

theorem sentTask_init (a b c : Bool) (t n : Nat) : SentTask (Hub.init a b c t n) := by simp [SentTask, Hub.init]

theorem sentTask_step (h : Hub) (op : Op) (hs : SentTask h) : SentTask (step h op) := by
  cases op with
  | request c v =>
    simp only [step, request]
    split
    · exact hs
    · intro t ht rid hr
      simp only at ht
      split at ht
      · simp only [List.mem_append, List.mem_singleton] at ht
        rcases ht with ht | rfl
        · exact hs t ht rid hr
        · simp only [newTask, allRids, ridsFor, List.mem_flatMap, List.mem_map] at hr
          obtain ⟨sub, _, w, _, rfl⟩ := hr
          simp [newTask]
      · exact hs t ht rid hr
  | response w rid st =>
    simp only [step, response]
    split
    · exact hs
    · intro t ht r hr
      obtain ⟨t0, ht0, hi, _, _, _, _, _, hsent, _⟩ := responseTasks_mem h w rid st t ht
      rw [hsent] at hr; rw [hi]; exact hs t0 ht0 r hr
  | close w => simp only [step, close]; split <;> exact hs
  | sendFail w => simp only [step, sendFail]; split <;> exact hs
  | advance n => exact hs
  | drop c => simp only [step]; split <;> exact hs
  | tick =>
    simp only [step, tick]
    split
    · exact hs
    · intro t ht; exact hs t (List.mem_filter.mp ht).1

/-- with ids retired once answered, no task counts an id twice and a counted
    id is no longer in flight -/
structure Retired (h : Hub) : Prop where
  tasks : ∀ t ∈ h.tasks, (termRids t.got).Nodup ∧ ∀ rid ∈ termRids t.got, ∀ e ∈ h.inflight, e.1 ≠ rid
  log : ∀ e ∈ h.log, ∀ t to, e.src = some (t, to) → (termRids t.got).Nodup

theorem retired_init (a b c : Bool) (t n : Nat) : Retired (Hub.init a b c t n) := by
  constructor <;> simp [Hub.init]

theorem termRids_append (got : List (Nat × Rid × St)) (w : Nat) (rid : Rid) (st : St) :
    termRids (got ++ [(w, rid, st)]) = if st = .processing then termRids got else termRids got ++ [rid] := by
  cases st <;> simp [termRids, List.filter_append]

theorem retired_step (h : Hub) (op : Op) (hr : h.retire = true) (hb : Bounds h) (ha : Acc h) (hs : SentTask h)
    (hi : Retired h) : Retired (step h op) := by
  obtain ⟨h1, h2⟩ := hi
  cases op with
  | request c v =>
    simp only [step, request]
    split
    · exact ⟨h1, h2⟩
    · constructor
      · intro t ht
        simp only at ht ⊢
        split at ht
        · rename_i hg
          simp only [List.mem_append, List.mem_singleton] at ht
          rcases ht with ht | rfl
          · refine ⟨(h1 t ht).1, ?_⟩
            intro rid hrid e he
            simp only [hg, if_true, List.mem_append, List.mem_map] at he
            rcases he with ⟨r, hr', rfl⟩ | he
            · -- a fresh id belongs to the new task, a counted id to an older one
              intro heq
              simp only at heq
              have h3 : rid ∈ t.sent := by
                simp only [termRids, List.mem_map, List.mem_filter] at hrid
                obtain ⟨g, ⟨hg', _⟩, rfl⟩ := hrid
                exact (ha.tasks t ht).got_sent g hg'
              have h4 := hs t ht rid h3
              have h5 := (hb.tasks_lt t ht).1
              simp only [newTask, allRids, ridsFor, List.mem_flatMap, List.mem_map] at hr'
              obtain ⟨sub, _, w, _, rfl⟩ := hr'
              subst heq
              simp at h4; omega
            · exact (h1 t ht).2 rid hrid e he
          · simp [newTask, termRids]
        · rename_i hg
          refine ⟨(h1 t ht).1, ?_⟩
          intro rid hrid e he
          simp only [hg, if_false, Bool.false_eq_true] at he
          exact (h1 t ht).2 rid hrid e he
      · intro e he t to hsrc
        simp only [List.mem_append] at he
        rcases he with he | he
        · exact h2 e he t to hsrc
        · have := requestEmits_src h c v e he; simp [this] at hsrc
  | response w rid st =>
    simp only [step, response]
    split
    · exact ⟨h1, h2⟩
    · constructor
      · intro t ht
        simp only [responseTasks] at ht
        split at ht
        · -- unknown id: nothing changes
          rename_i hl
          refine ⟨(h1 t ht).1, ?_⟩
          intro r hrr e he
          exact (h1 t ht).2 r hrr e (responseInflight_sub h rid st e he)
        · rename_i tid hl
          have hmem := lookup_some h rid tid hl
          simp only [List.mem_map] at ht
          obtain ⟨t0, ht0, rfl⟩ := ht
          by_cases hid : t0.id = tid
          · rw [if_pos hid]
            simp only [onMessage, termRids_append]
            by_cases hp : st = .processing
            · rw [if_pos hp]
              refine ⟨(h1 t0 ht0).1, ?_⟩
              intro r hrr e he
              exact (h1 t0 ht0).2 r hrr e (responseInflight_sub h rid st e he)
            · rw [if_neg hp]
              have hfresh : rid ∉ termRids t0.got := fun hc => (h1 t0 ht0).2 rid hc _ hmem rfl
              refine ⟨?_, ?_⟩
              · rw [List.nodup_append]
                refine ⟨(h1 t0 ht0).1, by simp, ?_⟩
                intro a ha' b hb' heq
                simp only [List.mem_singleton] at hb'
                subst hb'; subst heq; exact hfresh ha'
              · intro r hrr e he
                simp only [List.mem_append, List.mem_singleton] at hrr
                rcases hrr with hrr | rfl
                · exact (h1 t0 ht0).2 r hrr e (responseInflight_sub h rid st e he)
                · simp only [responseInflight, hr, hl, Option.isSome_some, Bool.and_true, Bool.true_and] at he
                  rw [if_pos (by simpa using hp)] at he
                  have := (List.mem_filter.mp he).2
                  simpa using this
          · rw [if_neg hid]
            refine ⟨(h1 t0 ht0).1, ?_⟩
            intro r hrr e he
            exact (h1 t0 ht0).2 r hrr e (responseInflight_sub h rid st e he)
      · intro e he t to hsrc
        simp only [List.mem_append] at he
        rcases he with he | he
        · exact h2 e he t to hsrc
        · have := responseEmits_src h rid st e he; simp [this] at hsrc
  | close w => simp only [step, close]; split <;> exact ⟨h1, h2⟩
  | sendFail w => simp only [step, sendFail]; split <;> exact ⟨h1, h2⟩
  | advance n => exact ⟨h1, h2⟩
  | drop c => simp only [step]; split <;> exact ⟨h1, h2⟩
  | tick =>
    simp only [step, tick]
    split
    · exact ⟨h1, h2⟩
    · constructor
      · intro t ht
        have := h1 t (List.mem_filter.mp ht).1
        exact ⟨this.1, fun rid hrid e he => this.2 rid hrid e (List.mem_filter.mp he).1⟩
      · intro e he t to hsrc
        simp only [List.mem_append, List.mem_flatMap, List.mem_filter] at he
        rcases he with he | ⟨t0, ⟨ht0, _⟩, he⟩
        · exact h2 e he t to hsrc
        · simp only [finishEmits, List.mem_map] at he
          obtain ⟨k, hk, rfl⟩ := he
          simp only [mkEmit, Option.some.injEq, Prod.mk.injEq] at hsrc
          obtain ⟨rfl, rfl⟩ := hsrc
          exact (h1 t0 ht0).1

theorem retired_run (a b : Bool) (T n : Nat) (ops : List Op) :
    Retired (run (Hub.init a b true T n) ops) := by
  suffices ∀ h, h.retire = true → Inv h → SentTask h → Retired h → Retired (run h ops) from
    this _ rfl (inv_init a b true T n) (sentTask_init a b true T n) (retired_init a b true T n)
  induction ops with
  | nil => intro h _ _ _ hr; exact hr
  | cons o os ih =>
    intro h hr hi hs hrt
    rw [run_cons]
    exact ih _ (by rw [step_retire, hr]) (inv_step h o hi) (sentTask_step h o hs)
      (retired_step h o hr hi.bounds hi.acc hs hrt)

-- ------------------------------------------------------- deadline-path verdicts, counting ----

/-- a verdict taken on the deadline path belongs to a verb gathered under the worker timeout -/
def LogTimed (h : Hub) : Prop :=
  ∀ e ∈ h.log, ∀ t to, e.src = some (t, to) → to = true → t.verb.hasDeadline = true

theorem logTimed_init (a b c : Bool) (t n : Nat) : LogTimed (Hub.init a b c t n) := by simp [LogTimed, Hub.init]

theorem logTimed_step (h : Hub) (op : Op) (ht : Timed h) (hl : LogTimed h) : LogTimed (step h op) := by
  cases op with
  | request c v =>
    simp only [step, request]
    split
    · exact hl
    · intro e he t to hs
      simp only [List.mem_append] at he
      rcases he with he | he
      · exact hl e he t to hs
      · have := requestEmits_src h c v e he; simp [this] at hs
  | response w rid st =>
    simp only [step, response]
    split
    · exact hl
    · intro e he t to hs
      simp only [List.mem_append] at he
      rcases he with he | he
      · exact hl e he t to hs
      · have := responseEmits_src h rid st e he; simp [this] at hs
  | close w => simp only [step, close]; split <;> exact hl
  | sendFail w => simp only [step, sendFail]; split <;> exact hl
  | advance n => exact hl
  | drop c => simp only [step]; split <;> exact hl
  | tick =>
    simp only [step, tick]
    split
    · exact hl
    · intro e he t to hs hto
      simp only [List.mem_append, List.mem_flatMap, List.mem_filter] at he
      rcases he with he | ⟨t0, ⟨ht0, hd⟩, he⟩
      · exact hl e he t to hs hto
      · simp only [finishEmits, List.mem_map] at he
        obtain ⟨k, hk, rfl⟩ := he
        simp only [mkEmit, Option.some.injEq, Prod.mk.injEq] at hs
        obtain ⟨rfl, rfl⟩ := hs
        have h2 := (ht t0 ht0).2
        simp only [timedOut, Bool.not_eq_true'] at hto
        simp only [isDone, hto, Bool.false_or, deadlinePassed] at hd
        cases hv : t0.verb.hasDeadline
        · rw [hv] at h2; simp only [Bool.false_eq_true, if_false] at h2; rw [h2] at hd; simp at hd
        · rfl

theorem logTimed_run (a b c : Bool) (T n : Nat) (ops : List Op) : LogTimed (run (Hub.init a b c T n) ops) := by
  suffices ∀ h, Timed h → LogTimed h → LogTimed (run h ops) from
    this _ (timed_init a b c T n) (logTimed_init a b c T n)
  induction ops with
  | nil => intro h _ hl; exact hl
  | cons o os ih => intro h ht hl; rw [run_cons]; exact ih _ (timed_step h o ht) (logTimed_step h o ht hl)

/-- every id scattered for the task was answered Ok -/
def AllAcked (t : Task) : Prop := ∀ rid ∈ t.sent, ∃ g ∈ t.got, g.2.1 = rid ∧ g.2.2 = .ok

instance (t : Task) : Decidable (AllAcked t) := by unfold AllAcked; infer_instance

/-- the counting argument: no error counted, the count reached the number of
    ids, no id counted twice ⇒ every id was answered Ok -/
theorem ack_core (seen : List Rid) (t : Task) (hti : TaskInv seen t) (herr : t.errors = 0)
    (hfin : t.ok + t.errors ≥ t.expected) (hnodup : (termRids t.got).Nodup) :
    AllAcked t ∧ ∀ g ∈ t.got, g.2.2 ≠ .failure := by
  have hnofail : ∀ g ∈ t.got, g.2.2 ≠ .failure := by
    have h0 : failCount t.got = 0 := by rw [← hti.errors]; exact herr
    simp only [failCount, List.countP_eq_zero] at h0
    intro g hg hgf; exact h0 g hg (by simp [hgf])
  refine ⟨?_, hnofail⟩
  have hsub : ∀ x ∈ termRids t.got, x ∈ t.sent := by
    intro x hx
    simp only [termRids, List.mem_map, List.mem_filter] at hx
    obtain ⟨g, ⟨hg, _⟩, rfl⟩ := hx
    exact hti.got_sent g hg
  have hlen : t.sent.length ≤ (termRids t.got).length := by
    rw [termRids_length, ← hti.ok, ← hti.errors, ← hti.expected]; omega
  have hcov := covers_of_nodup (termRids t.got) t.sent hnodup hsub hlen
  intro rid hrid
  have := hcov rid hrid
  simp only [termRids, List.mem_map, List.mem_filter] at this
  obtain ⟨g, ⟨hg, hterm⟩, rfl⟩ := this
  refine ⟨g, hg, rfl, ?_⟩
  have := hnofail g hg
  cases hst : g.2.2 with
  | ok => rfl
  | failure => exact absurd hst this
  | processing => simp [hst] at hterm

-- ------------------------------------------------------- cores of the property theorems ----

/-- no worker answer was counted twice: every id is answered at most once with
    a terminal status in the event sequence -/
def NoDuplicateAnswers (ops : List Op) : Prop := (opRids ops).Nodup

instance (ops : List Op) : Decidable (NoDuplicateAnswers ops) := by
  unfold NoDuplicateAnswers; infer_instance

theorem one_final_deadline_core (fwd excl ret : Bool) (T n : Nat) (hc : fwd = false ∨ excl = true)
    (pre mid post : List Op) (c : Nat) (v : Verb)
    (hv : v.hasDeadline = true ∨ v.immediate.isSome = true)
    (halive : (run (Hub.init fwd excl ret T n) pre).run ≠ .exited)
    (halive' : (run (Hub.init fwd excl ret T n) (pre ++ [.request c v] ++ mid)).run ≠ .exited)
    (hlate : (run (Hub.init fwd excl ret T n) pre).now + T
        < (run (Hub.init fwd excl ret T n) (pre ++ [.request c v] ++ mid)).now) :
    finalsOf (run (Hub.init fwd excl ret T n) pre).nextReq
      (run (Hub.init fwd excl ret T n) (pre ++ [.request c v] ++ mid ++ [.tick] ++ post)).log = 1 := by
  -- names
  generalize hs0 : Hub.init fwd excl ret T n = s0 at *
  have hg0 : Good s0 := hs0 ▸ good_init fwd excl ret T n hc
  have hi0 : Inv s0 := hs0 ▸ inv_init fwd excl ret T n
  have hT : s0.timeout = T := by rw [← hs0]; rfl
  generalize hs1 : run s0 pre = s1 at *
  have hg1 : Good s1 := hs1 ▸ good_run s0 pre hg0
  have hi1 : Inv s1 := hs1 ▸ inv_run s0 pre hi0
  have hT1 : s1.timeout = T := by rw [← hs1, (run_cfg s0 pre).2.2, hT]
  let r := s1.nextReq
  let s2 := step s1 (.request c v)
  have hg2 : Good s2 := good_step s1 _ hg1
  have hi2 : Inv s2 := inv_step s1 _ hi1
  have hr2 : r < s2.nextReq := by
    have := step_nextReq s1 (.request c v); simp only [halive, if_false] at this
    show s1.nextReq < (step s1 (.request c v)).nextReq; omega
  have hans : v.answers = true := by
    simp only [Verb.answers, Bool.or_eq_true]
    rcases hv with hv | hv
    · left; cases v <;> simp_all [Verb.hasDeadline, Verb.gathers]
    · right; exact hv
  have ha2 : acct r s2 = 1 := by
    have := acct_request_new s1 c v hg1.bounds halive; rw [hans] at this; simpa using this
  have ho2 : Owned r c v s1.now s2 := owned_request s1 c v hg1.bounds
  -- after `mid`
  have e3 : run s0 (pre ++ [.request c v] ++ mid) = run s2 mid := by
    rw [run_append, run_append, hs1]; rfl
  rw [e3] at halive' hlate
  generalize hs3 : run s2 mid = s3 at *
  have hg3 : Good s3 := hs3 ▸ good_run s2 mid hg2
  have hi3 : Inv s3 := hs3 ▸ inv_run s2 mid hi2
  have hr3 : r < s3.nextReq := by
    rw [← hs3]; clear hs3
    have : ∀ (h : Hub) (ops : List Op), h.nextReq ≤ (run h ops).nextReq := by
      intro h ops; induction ops generalizing h with
      | nil => exact Nat.le_refl _
      | cons o os ih => rw [run_cons]; exact Nat.le_trans (step_nextReq_mono h o) (ih _)
    exact Nat.lt_of_lt_of_le hr2 (this s2 mid)
  have ha3 : acct r s3 = 1 := by rw [← hs3, acct_run_old s2 mid hg2 r hr2]; exact ha2
  have ho3 : Owned r c v s1.now s3 := hs3 ▸ owned_run s2 mid hg2.bounds r c v s1.now hr2 ho2
  have hT3 : s3.timeout = T := by
    rw [← hs3, (run_cfg s2 mid).2.2]; show (step s1 _).timeout = T; rw [(step_cfg s1 _).2.2, hT1]
  -- the pass of the run loop
  let s4 := step s3 .tick
  have hg4 : Good s4 := good_step s3 _ hg3
  have ha4 : acct r s4 = 1 := by rw [acct_step_old s3 .tick hg3.bounds hg3.one r hr3]; exact ha3
  have hp4 : pendingOf r s4.tasks = 0 := by
    apply pending_zero_of
    intro t ht hreq
    have hnd := tick_clears s3 halive' t ht
    have hmem : t ∈ s3.tasks := by
      simp only [s4, step, tick, halive', if_false, List.mem_filter] at ht; exact ht.1
    obtain ⟨_, hverb, hborn⟩ := ho3 t hmem hreq
    have hgath := (hi3.bounds.tasks_lt t hmem).2.2
    rcases hv with hv | hv
    · have hd := (hi3.timed t hmem).2
      rw [hverb, hv, if_pos rfl, hborn, hT3] at hd
      simp only [isDone, deadlinePassed, hd, Bool.or_eq_false_iff, decide_eq_false_iff_not] at hnd
      omega
    · rw [hverb] at hgath
      cases v <;> simp_all [Verb.gathers, Verb.immediate]
  have hf4 : finalsOf r s4.log = 1 := by simp only [acct] at ha4; omega
  -- afterwards
  have e5 : run s0 (pre ++ [.request c v] ++ mid ++ [.tick] ++ post) = run s4 post := by
    rw [run_append, run_append, e3]; rfl
  rw [e5]
  have hr4 : r < s4.nextReq := Nat.lt_of_lt_of_le hr3 (step_nextReq_mono s3 .tick)
  have ha5 : acct r (run s4 post) = 1 := by rw [acct_run_old s4 post hg4 r hr4]; exact ha4
  have hm := finals_run_mono s4 post r
  simp only [acct] at ha5
  show finalsOf r (run s4 post).log = 1
  omega

theorem terminates_core (fwd excl ret : Bool) (T n : Nat) (ops : List Op)
    (halive : (run (Hub.init fwd excl ret T n) ops).run ≠ .exited) :
    ∀ t ∈ (step (run (Hub.init fwd excl ret T n) ops) .tick).tasks,
      hasFinished t = false ∧
      (t.verb.hasDeadline = true → (run (Hub.init fwd excl ret T n) ops).now ≤ t.born + T) := by
  intro t ht
  have hi := inv_run _ ops (inv_init fwd excl ret T n)
  have hT : (run (Hub.init fwd excl ret T n) ops).timeout = T := by rw [(run_cfg _ ops).2.2]; rfl
  generalize run (Hub.init fwd excl ret T n) ops = s at *
  have hnd := tick_clears s halive t ht
  have hmem : t ∈ s.tasks := by
    simp only [step, tick, halive, if_false, List.mem_filter] at ht; exact ht.1
  simp only [isDone, Bool.or_eq_false_iff] at hnd
  refine ⟨hnd.1, fun hd => ?_⟩
  have := (hi.timed t hmem).2
  rw [hd, if_pos rfl, hT] at this
  simp only [deadlinePassed, this, decide_eq_false_iff_not] at hnd
  omega

theorem newTask_sent_iff (h : Hub) (c : Nat) (v : Verb) (rid : Rid) :
    rid ∈ (newTask h c v).sent ↔
      (rid.task = h.nextTask ∧ rid.sub ∈ v.subs ∧ (rid.worker, false) ∈ h.workers) := by
  simp only [newTask, allRids, ridsFor, liveWorkers, List.mem_flatMap, List.mem_map, List.mem_filter]
  constructor
  · rintro ⟨sub, hsub, w, ⟨⟨w', st⟩, ⟨hw, hst⟩, rfl⟩, rfl⟩
    simp only [Bool.not_eq_eq_eq_not, Bool.not_true] at hst
    subst hst
    exact ⟨rfl, hsub, hw⟩
  · rintro ⟨h1, h2, h3⟩
    refine ⟨rid.sub, h2, rid.worker, ⟨(rid.worker, false), ⟨h3, by simp⟩, rfl⟩, ?_⟩
    cases rid; simp_all

theorem ok_all_acked_core (fwd excl ret : Bool) (T n : Nat) (ops : List Op)
    (hnd : ret = true ∨ NoDuplicateAnswers ops)
    (e : Emit) (he : e ∈ (run (Hub.init fwd excl ret T n) ops).log)
    (t : Task) (to : Bool) (hsrc : e.src = some (t, to)) (hk : e.kind = .ok)
    (hverb : t.verb.judgesWorkers = true) (hpath : fwd = true ∨ to = false) :
    AllAcked t ∧ ∀ g ∈ t.got, g.2.2 ≠ .failure := by
  have hi := inv_run _ ops (inv_init fwd excl ret T n)
  have hcfg := run_cfg (Hub.init fwd excl ret T n) ops
  have hseen := seen_run (Hub.init fwd excl ret T n) ops
  have hlt := logTimed_run fwd excl ret T n ops
  have hret : ret = true → Retired (run (Hub.init fwd excl ret T n) ops) := by
    intro h; subst h; exact retired_run fwd excl T n ops
  generalize run (Hub.init fwd excl ret T n) ops = s at *
  obtain ⟨hti, hto, _, _, hkind⟩ := hi.acc.log e he t to hsrc
  have hfwd : s.fwd = fwd := hcfg.1
  rw [hk, hfwd] at hkind
  -- the verdict rules: no error counted, and the verdict was not a deadline verdict
  have hboth : t.errors = 0 ∧ to = false := by
    -- LoadState / ReloadConfiguration are gathered without a deadline: only released once finished
    have nodl : t.verb.hasDeadline = false → to = false := by
      intro hd
      cases hto' : to with
      | false => rfl
      | true => have := hlt e he t to hsrc hto'; rw [hd] at this; cases this
    cases hv : t.verb <;> simp [hv, Verb.judgesWorkers] at hverb
    · obtain ⟨herr, hpassed⟩ := verdict_worker_ok _ t _ hv hkind
      refine ⟨herr, ?_⟩
      rcases hpath with hp | hp
      · subst hp; simpa using hpassed
      · exact hp
    · rename_i k
      exact ⟨verdict_load_ok _ t _ k hv hkind, nodl (by simp [hv, Verb.hasDeadline])⟩
    · rename_i k
      exact ⟨verdict_reload_ok _ t _ k hv hkind, nodl (by simp [hv, Verb.hasDeadline])⟩
  obtain ⟨herr, hto'⟩ := hboth
  have hfin : hasFinished t = true := by
    have h0 : timedOut t = false := by rw [← hto, hto']
    simpa [timedOut] using h0
  simp only [hasFinished, decide_eq_true_eq] at hfin
  have hnodup : (termRids t.got).Nodup := by
    rcases hnd with hnd | hnd
    · exact (hret hnd).log e he t to hsrc
    · rw [List.nodup_iff_count]
      intro rid
      have h1 := hti.counted rid
      have h2 := hseen rid
      have h3 : (opRids ops).count rid ≤ 1 := List.nodup_iff_count.mp hnd rid
      simp only [Hub.init, List.count_nil, Nat.zero_add] at h2
      omega
  exact ack_core s.seen t hti herr hfin hnodup

theorem no_failure_core (fwd excl ret : Bool) (T n : Nat) (ops : List Op)
    (e : Emit) (he : e ∈ (run (Hub.init fwd excl ret T n) ops).log)
    (t : Task) (to : Bool) (hsrc : e.src = some (t, to)) (hk : e.kind = .ok)
    (hverb : t.verb.judgesWorkers = true) :
    ∀ g ∈ t.got, g.2.2 ≠ .failure := by
  have hi := inv_run _ ops (inv_init fwd excl ret T n)
  generalize run (Hub.init fwd excl ret T n) ops = s at *
  obtain ⟨hti, _, _, _, hkind⟩ := hi.acc.log e he t to hsrc
  rw [hk] at hkind
  have herr : t.errors = 0 := by
    cases hv : t.verb <;> simp [hv, Verb.judgesWorkers] at hverb
    · exact (verdict_worker_ok _ t _ hv hkind).1
    · rename_i k; exact verdict_load_ok _ t _ k hv hkind
    · rename_i k; exact verdict_reload_ok _ t _ k hv hkind
  have h0 : failCount t.got = 0 := by rw [← hti.errors]; exact herr
  simp only [failCount, List.countP_eq_zero] at h0
  intro g hg hgf; exact h0 g hg (by simp [hgf])

theorem no_cross_talk_response_core (fwd excl ret : Bool) (T n : Nat) (ops : List Op)
    (w : Nat) (rid : Rid) (st : St) :
    let s := run (Hub.init fwd excl ret T n) ops
    (∀ t ∈ s.tasks, rid ∉ t.sent → t ∈ (step s (.response w rid st)).tasks) ∧
    ∃ l, (step s (.response w rid st)).log = s.log ++ l ∧
      ∀ e ∈ l, e.kind = .processing ∧ ∃ t ∈ s.tasks, rid ∈ t.sent ∧ e.req = t.req ∧ e.client = t.client := by
  intro s
  have hi := inv_run _ ops (inv_init fwd excl ret T n)
  exact ⟨fun t ht hn => response_frame s hi.acc w rid st t ht hn, response_emits s hi.acc w rid st⟩

theorem no_cross_talk_core (fwd excl ret : Bool) (T n : Nat) (pre post : List Op) (c : Nat) (v : Verb)
    (halive : (run (Hub.init fwd excl ret T n) pre).run ≠ .exited) :
    ∀ e ∈ (run (Hub.init fwd excl ret T n) (pre ++ [.request c v] ++ post)).log,
      e.req = (run (Hub.init fwd excl ret T n) pre).nextReq → e.client = c := by
  generalize hs0 : Hub.init fwd excl ret T n = s0 at *
  have hi0 : Inv s0 := hs0 ▸ inv_init fwd excl ret T n
  generalize hs1 : run s0 pre = s1 at *
  have hi1 : Inv s1 := hs1 ▸ inv_run s0 pre hi0
  have e2 : run s0 (pre ++ [.request c v] ++ post) = run (step s1 (.request c v)) post := by
    rw [run_append, run_append, hs1]; rfl
  rw [e2]
  have hr2 : s1.nextReq < (step s1 (.request c v)).nextReq := by
    have := step_nextReq s1 (.request c v); simp only [halive, if_false] at this; omega
  exact logOwned_run (step s1 (.request c v)) post (bounds_step s1 _ hi1.bounds) s1.nextReq c v s1.now hr2
    (owned_request s1 c v hi1.bounds) (logOwned_request s1 c v hi1.bounds)

theorem classify_answered (cv : ClientVerb) (h1 : cv ≠ .softStop) (h2 : ∀ k, cv ≠ .load k)
    (h3 : ∀ k, cv ≠ .reload k) :
    (cv.classify true).hasDeadline = true ∨ (cv.classify true).immediate.isSome = true := by
  cases cv <;> simp_all [ClientVerb.classify, Verb.hasDeadline, Verb.immediate]

-- ------------------------------------------------------- load_state batching, distinct ids ----

theorem nodup_map_inj {α β : Type} (f : α → β) (hf : ∀ a b, f a = f b → a = b) (l : List α) (h : l.Nodup) :
    (l.map f).Nodup := by
  induction l with
  | nil => simp
  | cons x xs ih =>
    have ⟨h1, h2⟩ := List.nodup_cons.mp h
    simp only [List.map_cons, List.nodup_cons, List.mem_map]
    refine ⟨?_, ih h2⟩
    rintro ⟨y, hy, hxy⟩
    exact h1 (hf _ _ hxy ▸ hy)

-- ---- load_state batching ----

theorem loadSubsFrom_eq (c : Nat) (bs : List Nat) :
    loadSubsFrom c bs = (List.range bs.sum).map (· + c + 1) := by
  induction bs generalizing c with
  | nil => simp [loadSubsFrom]
  | cons b bs ih =>
    simp only [loadSubsFrom, ih, List.sum_cons, List.range_add, List.map_append, List.map_map]
    congr 1
    apply List.map_congr_left
    intro a _
    simp only [Function.comp]
    omega

theorem loadSubs_eq (bs : List Nat) : loadSubs bs = (Verb.loadState bs.sum).subs := by
  simp [loadSubs, loadSubsFrom_eq, Verb.subs]

theorem subs_nodup (v : Verb) : v.subs.Nodup := by
  cases v <;> simp [Verb.subs]
  · rename_i k
    exact nodup_map_inj _ (by intro a b h; omega) _ List.nodup_range
  · exact List.nodup_range

-- ---- worker ids are distinct; so are the ids of a scatter ----

def WorkersNodup (h : Hub) : Prop := (h.workers.map (·.1)).Nodup

theorem workersNodup_init (a b c : Bool) (t n : Nat) : WorkersNodup (Hub.init a b c t n) := by
  simp only [WorkersNodup, Hub.init, List.map_map]
  exact nodup_map_inj _ (by intro a b h; simpa using h) _ List.nodup_range

theorem workersNodup_step (h : Hub) (op : Op) (hw : WorkersNodup h) : WorkersNodup (step h op) := by
  have key : ∀ (f : Nat × Bool → Nat × Bool), (∀ x, (f x).1 = x.1) → ((h.workers.map f).map (·.1)) = h.workers.map (·.1) := by
    intro f hf; simp only [List.map_map]; apply List.map_congr_left; intro x _; exact hf x
  cases op with
  | request c v => simp only [step, request]; split <;> exact hw
  | response w rid st => simp only [step, response]; split <;> exact hw
  | close w =>
    simp only [step, close]; split
    · exact hw
    · simp only [WorkersNodup]; rw [key _ (by intro x; split <;> rfl)]; exact hw
  | sendFail w => simp only [step, sendFail]; split <;> exact hw
  | advance n => exact hw
  | drop c => simp only [step]; split <;> exact hw
  | tick =>
    simp only [step, tick]; split
    · exact hw
    · simp only [WorkersNodup]; rw [key _ (by intro x; split <;> rfl)]; exact hw

theorem workersNodup_run (a b c : Bool) (T n : Nat) (ops : List Op) : WorkersNodup (run (Hub.init a b c T n) ops) := by
  suffices ∀ h, WorkersNodup h → WorkersNodup (run h ops) from this _ (workersNodup_init a b c T n)
  induction ops with
  | nil => intro h hw; exact hw
  | cons o os ih => intro h hw; rw [run_cons]; exact ih _ (workersNodup_step h o hw)

theorem liveWorkers_nodup (h : Hub) (hw : WorkersNodup h) : (liveWorkers h).Nodup := by
  unfold liveWorkers WorkersNodup at *
  exact List.Nodup.sublist (List.Sublist.map _ List.filter_sublist) hw

/-- the ids of one scatter (every sub index × every live worker) are pairwise distinct -/
theorem allRids_nodup (h : Hub) (hw : WorkersNodup h) (task : Nat) (subs : List Nat) (hs : subs.Nodup) :
    (subs.flatMap (ridsFor h task)).Nodup := by
  have hl := liveWorkers_nodup h hw
  induction subs with
  | nil => simp
  | cons s ss ih =>
    have ⟨hs1, hs2⟩ := List.nodup_cons.mp hs
    simp only [List.flatMap_cons]
    rw [List.nodup_append]
    refine ⟨?_, ih hs2, ?_⟩
    · simp only [ridsFor]
      exact nodup_map_inj _ (by intro a b hab; simpa using hab) _ hl
    · intro a ha b hb hab
      simp only [ridsFor, List.mem_map, List.mem_flatMap] at ha hb
      obtain ⟨w, _, rfl⟩ := ha
      obtain ⟨s', hs', w', _, rfl⟩ := hb
      simp only [Rid.mk.injEq] at hab
      exact hs1 (hab.2.2 ▸ hs')

-- ------------------------------------------------------- every verb, one client per request ----

/-- **core of "exactly one final answer" for every verb**: a request accepted by a
    running main process for a verb that is answered, all of whose pending tasks
    are releasable (finished, or past their deadline) when a run-loop pass
    happens while the main process still runs, has exactly one final answer from
    then on. -/
theorem one_final_core (fwd excl ret : Bool) (T n : Nat) (hc : fwd = false ∨ excl = true)
    (pre mid post : List Op) (c : Nat) (v : Verb) (hans : v.answers = true)
    (halive : (run (Hub.init fwd excl ret T n) pre).run ≠ .exited)
    (halive' : (run (Hub.init fwd excl ret T n) (pre ++ [.request c v] ++ mid)).run ≠ .exited)
    (hrel : ∀ t ∈ (run (Hub.init fwd excl ret T n) (pre ++ [.request c v] ++ mid)).tasks,
        t.req = (run (Hub.init fwd excl ret T n) pre).nextReq →
        isDone (run (Hub.init fwd excl ret T n) (pre ++ [.request c v] ++ mid)).now t = true) :
    finalsOf (run (Hub.init fwd excl ret T n) pre).nextReq
      (run (Hub.init fwd excl ret T n) (pre ++ [.request c v] ++ mid ++ [.tick] ++ post)).log = 1 := by
  generalize hs0 : Hub.init fwd excl ret T n = s0 at *
  have hg0 : Good s0 := hs0 ▸ good_init fwd excl ret T n hc
  generalize hs1 : run s0 pre = s1 at *
  have hg1 : Good s1 := hs1 ▸ good_run s0 pre hg0
  let r := s1.nextReq
  let s2 := step s1 (.request c v)
  have hg2 : Good s2 := good_step s1 _ hg1
  have hr2 : r < s2.nextReq := by
    have := step_nextReq s1 (.request c v); simp only [halive, if_false] at this
    show s1.nextReq < (step s1 (.request c v)).nextReq; omega
  have ha2 : acct r s2 = 1 := by
    have := acct_request_new s1 c v hg1.bounds halive; rw [hans] at this; simpa using this
  have e3 : run s0 (pre ++ [.request c v] ++ mid) = run s2 mid := by
    rw [run_append, run_append, hs1]; rfl
  rw [e3] at halive' hrel
  generalize hs3 : run s2 mid = s3 at *
  have hg3 : Good s3 := hs3 ▸ good_run s2 mid hg2
  have hr3 : r < s3.nextReq := by
    rw [← hs3]
    have : ∀ (h : Hub) (ops : List Op), h.nextReq ≤ (run h ops).nextReq := by
      intro h ops; induction ops generalizing h with
      | nil => exact Nat.le_refl _
      | cons o os ih => rw [run_cons]; exact Nat.le_trans (step_nextReq_mono h o) (ih _)
    exact Nat.lt_of_lt_of_le hr2 (this s2 mid)
  have ha3 : acct r s3 = 1 := by rw [← hs3, acct_run_old s2 mid hg2 r hr2]; exact ha2
  let s4 := step s3 .tick
  have hg4 : Good s4 := good_step s3 _ hg3
  have ha4 : acct r s4 = 1 := by rw [acct_step_old s3 .tick hg3.bounds hg3.one r hr3]; exact ha3
  have hp4 : pendingOf r s4.tasks = 0 := by
    apply pending_zero_of
    intro t ht hreq
    have hnd := tick_clears s3 halive' t ht
    have hmem : t ∈ s3.tasks := by
      simp only [s4, step, tick, halive', if_false, List.mem_filter] at ht; exact ht.1
    have := hrel t hmem hreq
    rw [this] at hnd; cases hnd
  have hf4 : finalsOf r s4.log = 1 := by simp only [acct] at ha4; omega
  have e5 : run s0 (pre ++ [.request c v] ++ mid ++ [.tick] ++ post) = run s4 post := by
    rw [run_append, run_append, e3]; rfl
  rw [e5]
  have hr4 : r < s4.nextReq := Nat.lt_of_lt_of_le hr3 (step_nextReq_mono s3 .tick)
  have ha5 : acct r (run s4 post) = 1 := by rw [acct_run_old s4 post hg4 r hr4]; exact ha4
  have hm := finals_run_mono s4 post r
  simp only [acct] at ha5
  show finalsOf r (run s4 post).log = 1
  omega

/-- the deadline of every pending task of request `r` (a `Timeout::Default` verb) has passed -/
theorem releasable_of_deadline (fwd excl ret : Bool) (T n : Nat)
    (pre mid : List Op) (c : Nat) (v : Verb)
    (halive : (run (Hub.init fwd excl ret T n) pre).run ≠ .exited)
    (hlate : (run (Hub.init fwd excl ret T n) pre).now + T
        < (run (Hub.init fwd excl ret T n) (pre ++ [.request c v] ++ mid)).now) :
    ∀ t ∈ (run (Hub.init fwd excl ret T n) (pre ++ [.request c v] ++ mid)).tasks,
        t.req = (run (Hub.init fwd excl ret T n) pre).nextReq → t.verb.hasDeadline = true →
        isDone (run (Hub.init fwd excl ret T n) (pre ++ [.request c v] ++ mid)).now t = true := by
  generalize hs0 : Hub.init fwd excl ret T n = s0 at *
  have hi0 : Inv s0 := hs0 ▸ inv_init fwd excl ret T n
  have hT : s0.timeout = T := by rw [← hs0]; rfl
  generalize hs1 : run s0 pre = s1 at *
  have hi1 : Inv s1 := hs1 ▸ inv_run s0 pre hi0
  have hT1 : s1.timeout = T := by rw [← hs1, (run_cfg s0 pre).2.2, hT]
  let s2 := step s1 (.request c v)
  have hi2 : Inv s2 := inv_step s1 _ hi1
  have hr2 : s1.nextReq < s2.nextReq := by
    have := step_nextReq s1 (.request c v); simp only [halive, if_false] at this
    show s1.nextReq < (step s1 (.request c v)).nextReq; omega
  have ho2 : Owned s1.nextReq c v s1.now s2 := owned_request s1 c v hi1.bounds
  have e3 : run s0 (pre ++ [.request c v] ++ mid) = run s2 mid := by
    rw [run_append, run_append, hs1]; rfl
  rw [e3] at hlate ⊢
  have hi3 : Inv (run s2 mid) := inv_run s2 mid hi2
  have ho3 := owned_run s2 mid hi2.bounds s1.nextReq c v s1.now hr2 ho2
  have hT3 : (run s2 mid).timeout = T := by
    rw [(run_cfg s2 mid).2.2]; show (step s1 _).timeout = T; rw [(step_cfg s1 _).2.2, hT1]
  intro t ht hreq hd
  obtain ⟨_, _, hborn⟩ := ho3 t ht hreq
  have h2 := (hi3.timed t ht).2
  rw [hd, if_pos rfl, hborn, hT3] at h2
  simp only [isDone, deadlinePassed, h2, Bool.or_eq_true, decide_eq_true_eq]
  right; omega

/-- every pending task of the request belongs to its client and has its verb -/
theorem owned_after (fwd excl ret : Bool) (T n : Nat) (pre mid : List Op) (c : Nat) (v : Verb)
    (halive : (run (Hub.init fwd excl ret T n) pre).run ≠ .exited) :
    ∀ t ∈ (run (Hub.init fwd excl ret T n) (pre ++ [.request c v] ++ mid)).tasks,
        t.req = (run (Hub.init fwd excl ret T n) pre).nextReq → t.client = c ∧ t.verb = v := by
  generalize hs0 : Hub.init fwd excl ret T n = s0 at *
  have hi0 : Inv s0 := hs0 ▸ inv_init fwd excl ret T n
  generalize hs1 : run s0 pre = s1 at *
  have hi1 : Inv s1 := hs1 ▸ inv_run s0 pre hi0
  have hr2 : s1.nextReq < (step s1 (.request c v)).nextReq := by
    have := step_nextReq s1 (.request c v); simp only [halive, if_false] at this; omega
  have e3 : run s0 (pre ++ [.request c v] ++ mid) = run (step s1 (.request c v)) mid := by
    rw [run_append, run_append, hs1]; rfl
  rw [e3]
  have ho3 := owned_run _ mid (bounds_step s1 _ hi1.bounds) s1.nextReq c v s1.now hr2 (owned_request s1 c v hi1.bounds)
  intro t ht hreq
  exact ⟨(ho3 t ht hreq).1, (ho3 t ht hreq).2.1⟩

-- ---- which verdict a finished task gets ----

/-- the verdicts recorded in the log are those of `on_finish` -/
theorem verdict_of_log (fwd excl ret : Bool) (T n : Nat) (ops : List Op)
    (e : Emit) (he : e ∈ (run (Hub.init fwd excl ret T n) ops).log)
    (t : Task) (to : Bool) (hsrc : e.src = some (t, to)) :
    e.kind ∈ verdicts excl t (fwd && to) ∧ to = timedOut t := by
  have hi := inv_run _ ops (inv_init fwd excl ret T n)
  have hcfg := run_cfg (Hub.init fwd excl ret T n) ops
  obtain ⟨_, hto, _, _, hk⟩ := hi.acc.log e he t to hsrc
  rw [hcfg.1, hcfg.2.1] at hk
  exact ⟨hk, hto⟩

-- ---- one client per request ----

/-- all the messages about one request, and its pending tasks, name one client -/
structure ReqClient (h : Hub) : Prop where
  log_log : ∀ e1 ∈ h.log, ∀ e2 ∈ h.log, e1.req = e2.req → e1.client = e2.client
  log_task : ∀ e ∈ h.log, ∀ t ∈ h.tasks, e.req = t.req → e.client = t.client
  task_task : ∀ t1 ∈ h.tasks, ∀ t2 ∈ h.tasks, t1.req = t2.req → t1.client = t2.client

theorem reqClient_init (a b c : Bool) (t n : Nat) : ReqClient (Hub.init a b c t n) := by
  constructor <;> simp [Hub.init]

theorem reqClient_step (h : Hub) (op : Op) (hb : Bounds h) (hr : ReqClient h) : ReqClient (step h op) := by
  obtain ⟨h1, h2, h3⟩ := hr
  -- messages appended by a step that copy (req, client) from a pending task
  have ext : ∀ (l : List Emit) (tasks' : List Task),
      (∀ e ∈ l, ∃ t ∈ h.tasks, e.req = t.req ∧ e.client = t.client) →
      (∀ t' ∈ tasks', ∃ t ∈ h.tasks, t'.req = t.req ∧ t'.client = t.client) →
      (∀ e1 ∈ h.log ++ l, ∀ e2 ∈ h.log ++ l, e1.req = e2.req → e1.client = e2.client) ∧
      (∀ e ∈ h.log ++ l, ∀ t ∈ tasks', e.req = t.req → e.client = t.client) ∧
      (∀ t1 ∈ tasks', ∀ t2 ∈ tasks', t1.req = t2.req → t1.client = t2.client) := by
    intro l tasks' hl ht
    refine ⟨?_, ?_, ?_⟩
    · intro e1 he1 e2 he2 hreq
      simp only [List.mem_append] at he1 he2
      rcases he1 with he1 | he1 <;> rcases he2 with he2 | he2
      · exact h1 e1 he1 e2 he2 hreq
      · obtain ⟨t, ht', a, b⟩ := hl e2 he2; rw [b]; exact h2 e1 he1 t ht' (by omega)
      · obtain ⟨t, ht', a, b⟩ := hl e1 he1; rw [b]; exact (h2 e2 he2 t ht' (by omega)).symm
      · obtain ⟨t, ht', a, b⟩ := hl e1 he1; obtain ⟨t2, ht2, a2, b2⟩ := hl e2 he2
        rw [b, b2]; exact h3 t ht' t2 ht2 (by omega)
    · intro e he t' ht' hreq
      obtain ⟨t, htm, a, b⟩ := ht t' ht'
      simp only [List.mem_append] at he
      rcases he with he | he
      · rw [b]; exact h2 e he t htm (by omega)
      · obtain ⟨t0, ht0, a0, b0⟩ := hl e he; rw [b0, b]; exact h3 t0 ht0 t htm (by omega)
    · intro t1 ht1 t2 ht2 hreq
      obtain ⟨u1, hu1, a1, b1⟩ := ht t1 ht1; obtain ⟨u2, hu2, a2, b2⟩ := ht t2 ht2
      rw [b1, b2]; exact h3 u1 hu1 u2 hu2 (by omega)
  cases op with
  | request c v =>
    simp only [step, request]
    split
    · exact ⟨h1, h2, h3⟩
    · -- the new request's serial is fresh
      have fresh_e : ∀ e ∈ h.log, e.req ≠ h.nextReq := fun e he => by have := hb.log_lt e he; omega
      have fresh_t : ∀ t ∈ h.tasks, t.req ≠ h.nextReq := fun t ht => by have := (hb.tasks_lt t ht).2.1; omega
      have hem := requestEmits_req h c v
      constructor
      · intro e1 he1 e2 he2 hreq
        simp only [List.mem_append] at he1 he2
        rcases he1 with he1 | he1 <;> rcases he2 with he2 | he2
        · exact h1 e1 he1 e2 he2 hreq
        · exact absurd (hreq.trans (hem e2 he2).1) (fresh_e e1 he1)
        · exact absurd (hreq.symm.trans (hem e1 he1).1) (fresh_e e2 he2)
        · rw [(hem e1 he1).2, (hem e2 he2).2]
      · intro e he t ht hreq
        simp only [List.mem_append] at he
        simp only at ht
        split at ht
        · simp only [List.mem_append, List.mem_singleton] at ht
          rcases he with he | he <;> rcases ht with ht | rfl
          · exact h2 e he t ht hreq
          · exact absurd (by simpa [newTask] using hreq) (fresh_e e he)
          · exact absurd (hreq.symm.trans (hem e he).1) (fresh_t t ht)
          · simp [newTask, (hem e he).2]
        · rcases he with he | he
          · exact h2 e he t ht hreq
          · exact absurd (hreq.symm.trans (hem e he).1) (fresh_t t ht)
      · intro t1 ht1 t2 ht2 hreq
        simp only at ht1 ht2
        split at ht1
        · rename_i hg
          simp only [hg, if_true, List.mem_append, List.mem_singleton] at ht1 ht2
          rcases ht1 with ht1 | rfl <;> rcases ht2 with ht2 | rfl
          · exact h3 t1 ht1 t2 ht2 hreq
          · exact absurd (by simpa [newTask] using hreq) (fresh_t t1 ht1)
          · exact absurd (by simpa [newTask] using hreq.symm) (fresh_t t2 ht2)
          · rfl
        · rename_i hg
          simp only [hg, if_false, Bool.false_eq_true] at ht2
          exact h3 t1 ht1 t2 ht2 hreq
  | response w rid st =>
    simp only [step, response]
    split
    · exact ⟨h1, h2, h3⟩
    · have := ext (responseEmits h rid st) (responseTasks h w rid st)
        (fun e he => by obtain ⟨_, t, ht, a, b⟩ := responseEmits_req h rid st e he; exact ⟨t, ht, a, b⟩)
        (fun t' ht' => by obtain ⟨t0, ht0, _, a, _, b, _⟩ := responseTasks_mem h w rid st t' ht'; exact ⟨t0, ht0, a, b⟩)
      exact ⟨this.1, this.2.1, this.2.2⟩
  | close w => simp only [step, close]; split <;> exact ⟨h1, h2, h3⟩
  | sendFail w => simp only [step, sendFail]; split <;> exact ⟨h1, h2, h3⟩
  | advance n => exact ⟨h1, h2, h3⟩
  | drop c => simp only [step]; split <;> exact ⟨h1, h2, h3⟩
  | tick =>
    simp only [step, tick]
    split
    · exact ⟨h1, h2, h3⟩
    · have := ext ((h.tasks.filter (isDone h.now)).flatMap (finishEmits h)) (h.tasks.filter (fun t => !isDone h.now t))
        (fun e he => by
          simp only [List.mem_flatMap, List.mem_filter] at he
          obtain ⟨t, ⟨ht, _⟩, he⟩ := he
          have := finishEmits_req h t e he
          exact ⟨t, ht, this.1, this.2⟩)
        (fun t' ht' => ⟨t', (List.mem_filter.mp ht').1, rfl, rfl⟩)
      exact ⟨this.1, this.2.1, this.2.2⟩

theorem reqClient_run (a b c : Bool) (T n : Nat) (ops : List Op) : ReqClient (run (Hub.init a b c T n) ops) := by
  suffices ∀ h, Bounds h → ReqClient h → ReqClient (run h ops) from
    this _ (bounds_init a b c T n) (reqClient_init a b c T n)
  induction ops with
  | nil => intro h _ hr; exact hr
  | cons o os ih => intro h hb hr; rw [run_cons]; exact ih _ (bounds_step h o hb) (reqClient_step h o hb hr)

theorem classify_answers (cv : ClientVerb) : (cv.classify true).answers = true := by
  cases cv <;> simp [ClientVerb.classify, Verb.answers, Verb.gathers, Verb.immediate]

/-- every pending task of the request is releasable: past its deadline, or gathered
    without a deadline and finished -/
theorem releasable_all_verbs (fwd excl ret : Bool) (T n : Nat)
    (pre mid : List Op) (c : Nat) (v : Verb)
    (halive : (run (Hub.init fwd excl ret T n) pre).run ≠ .exited)
    (hlate : (run (Hub.init fwd excl ret T n) pre).now + T
        < (run (Hub.init fwd excl ret T n) (pre ++ [.request c v] ++ mid)).now)
    (hnohang : ¬ ∃ t ∈ (run (Hub.init fwd excl ret T n) (pre ++ [.request c v] ++ mid)).tasks,
        t.req = (run (Hub.init fwd excl ret T n) pre).nextReq ∧ t.verb.hasDeadline = false ∧ hasFinished t = false) :
    ∀ t ∈ (run (Hub.init fwd excl ret T n) (pre ++ [.request c v] ++ mid)).tasks,
        t.req = (run (Hub.init fwd excl ret T n) pre).nextReq →
        isDone (run (Hub.init fwd excl ret T n) (pre ++ [.request c v] ++ mid)).now t = true := by
  intro t ht hreq
  cases hd : t.verb.hasDeadline
  · cases hf : hasFinished t
    · exact absurd ⟨t, ht, hreq, hd, hf⟩ hnohang
    · simp [isDone, hf]
  · exact releasable_of_deadline fwd excl ret T n pre mid c v halive hlate t ht hreq hd

/-- a gathered verdict whose verb looks at the workers is a mutating request's or a LoadState's -/
theorem gathering_verb_cases (fwd excl ret : Bool) (T n : Nat) (ops : List Op)
    (e : Emit) (he : e ∈ (run (Hub.init fwd excl ret T n) ops).log)
    (t : Task) (to : Bool) (hsrc : e.src = some (t, to))
    (hverb : ¬ (t.verb = .query ∨ t.verb = .softStop ∨ t.verb = .hardStop)) :
    t.verb.judgesWorkers = true := by
  have hk := (verdict_of_log fwd excl ret T n ops e he t to hsrc).1
  cases hv : t.verb <;> simp_all [verdicts, Verb.judgesWorkers]

theorem verdict_ignores_core (ret : Bool) (T n : Nat) (ops : List Op)
    (e : Emit) (he : e ∈ (run (Hub.init true true ret T n) ops).log)
    (t : Task) (to : Bool) (hsrc : e.src = some (t, to)) :
    (t.verb = .query ∨ t.verb = .softStop → e.kind = .ok) ∧
    (t.verb = .hardStop → (e.kind = .ok ↔ to = false)) := by
  have hk := (verdict_of_log true true ret T n ops e he t to hsrc).1
  constructor
  · rintro (hv | hv) <;> simpa [verdicts, hv] using hk
  · intro hv
    simp only [verdicts, hv, Bool.true_and] at hk
    cases to <;> simp_all

theorem newTask_sent_nodup (fwd excl ret : Bool) (T n : Nat) (ops : List Op) (c : Nat) (v : Verb) :
    (newTask (run (Hub.init fwd excl ret T n) ops) c v).sent.Nodup := by
  simp only [newTask, allRids]
  exact allRids_nodup _ (workersNodup_run fwd excl ret T n ops) _ _ (subs_nodup v)

theorem no_cross_talk_two (fwd excl ret : Bool) (T n : Nat) (pre mid post : List Op) (c1 c2 : Nat) (v1 v2 : Verb)
    (hne : c1 ≠ c2)
    (h1 : (run (Hub.init fwd excl ret T n) pre).run ≠ .exited)
    (h2 : (run (Hub.init fwd excl ret T n) (pre ++ [.request c1 v1] ++ mid)).run ≠ .exited) :
    ∀ e ∈ (run (Hub.init fwd excl ret T n) (pre ++ [.request c1 v1] ++ mid ++ [.request c2 v2] ++ post)).log,
      (e.req = (run (Hub.init fwd excl ret T n) pre).nextReq → e.client ≠ c2) ∧
      (e.req = (run (Hub.init fwd excl ret T n) (pre ++ [.request c1 v1] ++ mid)).nextReq → e.client ≠ c1) := by
  intro e he
  constructor
  · intro hr
    have := no_cross_talk_core fwd excl ret T n pre (mid ++ [.request c2 v2] ++ post) c1 v1 h1 e
      (by simpa [List.append_assoc] using he) hr
    rw [this]; exact hne
  · intro hr
    have := no_cross_talk_core fwd excl ret T n (pre ++ [.request c1 v1] ++ mid) post c2 v2 h2 e he hr
    rw [this]; exact fun h => hne h.symm

end Sozu.Hub
