import Sozu.Generated.Consts
/-
Model of the main process's scatter/gather machinery
(`bin/src/command/server.rs`: `CommandHub`, `Server`, `DefaultGatherer`,
`scatter`/`scatter_on`, `handle_worker_response`, `handle_worker_close`, the
run-loop pass that finishes tasks, `handle_finishing_task`;
`bin/src/command/requests.rs`: `handle_client_request` and the `on_finish` of
`WorkerTask`, `QueryClustersTask`/`QueryMetricsTask`/`StatusTask`, `StopTask`,
`LoadStateTask`; `bin/src/command/sessions.rs`: the client answer path).

The model transcribes what the code does, not what it should do:
* `handle_finishing_task` hands `on_finish` the constant `false` unless the
  translator found the `timed_out` flag forwarded (`Consts.hubForwardsTimedOut`);
* the in-flight entry of an id is *not* removed when the id is answered, so a
  second answer for the same id is counted again (unless the translator found
  the id retired, `Consts.hubRetiresAnsweredIds`);
* a closed worker is only marked `Stopped`; tasks waiting for it keep waiting;
* query/status tasks answer Ok whatever the workers said;
* `request_type: None`, `LaunchWorker`, `ReturnListenSockets` get no answer.

Time is a `Nat` (the unit is chosen by the harness); worker ids, client ids,
task ids are `Nat`. A request id `"{verb}-{worker}-{task}-{sub}"` is the triple
`Rid`. `HashMap`s are association lists; iteration order is never observable
in the outputs (messages are compared per client).

The tick (`Op.tick`) is one pass of the run loop's task-finishing rule; events
between two ticks are what one `poll` batch delivered. Ghost fields (`req`,
`born`, `sent`, `seen`, `Emit.src`) do not influence any decision.
-/
namespace Sozu.Hub

/-- status of a worker response / of a message to a client -/
inductive St where
  | ok | failure | processing
deriving DecidableEq, Repr

/-- how `handle_client_request` treats a verb -/
inductive Verb where
  /-- `worker_request` (AddCluster, AddBackend, …): WorkerTask, `Timeout::Default` -/
  | worker
  /-- `worker_request` whose dispatch on the main state fails: immediate failure -/
  | workerBad
  /-- QueryClusters* / QueryMetrics / Status: `Timeout::Default`, verdict always Ok -/
  | query
  /-- HardStop: StopTask{hardness}, `Timeout::Default` -/
  | hardStop
  /-- SoftStop: StopTask, `Timeout::None` -/
  | softStop
  /-- LoadState of a file with `k` requests: LoadStateTask, `Timeout::None` -/
  | loadState (k : Nat)
  /-- LoadState of a missing file: immediate failure -/
  | loadMissing
  /-- LoadState of a file the reader gives up on (unparsable entry): the entries
      read so far were scattered, then the client is told the failure and the
      task is cancelled (`cancel_task`); its id is spent and its in-flight ids
      stay behind without a task (answers to them are dropped as for any
      unknown id, which is all the model keeps of them) -/
  | loadCorrupt
  /-- ReloadConfiguration of a path that cannot be loaded, once the handler answers
      instead of panicking: failure at once, the task created before is cancelled
      (its id is spent) -/
  | reloadRefused
  /-- ReloadConfiguration of a readable file generating `k` messages:
      LoadStaticConfigTask, `Timeout::None`, request indices `0 … k-1` -/
  | reload (k : Nat)
  /-- answered by the main process alone (ListWorkers, ListListeners, …) -/
  | localOk
  /-- `request_type: None`, LaunchWorker, ReturnListenSockets: no answer at all -/
  | noAnswer
deriving DecidableEq, Repr

/-- the client requests the harness sends (what the command socket carries) -/
inductive ClientVerb where
  | add | bad | query | status | metrics | hardStop | softStop
  | load (k : Nat) | loadMissing | list
  /-- LoadState of a file with an unparsable entry -/
  | loadCorrupt
  /-- ReloadConfiguration of a readable configuration generating `k` messages -/
  | reload (k : Nat)
  /-- ReloadConfiguration of a path that cannot be loaded -/
  | reloadBad
  /-- SetMaxConnectionsPerIp / ConfigureMetrics: `worker_request` like any mutating verb -/
  | workerOther
  /-- SetMetricDetail: own task, verdict always Ok ("completed with worker errors") -/
  | metricDetail
  /-- SetMetricDetail refused by the main process's pre-validation -/
  | metricDetailBad
  /-- `request_type: None` -/
  | none
  | launchWorker | returnListenSockets
deriving DecidableEq, Repr

/-- how `handle_client_request` treats each request; `answers` = the three
    requests the main process does not implement are answered with a failure
    (`Consts.hubAnswersUnsupportedVerbs`; before the repair: never answered, F21) -/
def ClientVerb.classify (answers : Bool) : ClientVerb → Verb
  | .add | .workerOther => .worker
  | .metricDetail => .query
  | .metricDetailBad => .workerBad
  | .loadCorrupt => .loadCorrupt
  | .reload k => .reload k
  -- answered with a failure, the task created before is cancelled (before the
  -- repair the handler panicked on the client-supplied path: `crashedMain`)
  | .reloadBad => .reloadRefused
  | .bad => .workerBad
  | .query | .status | .metrics => .query
  | .hardStop => .hardStop
  | .softStop => .softStop
  | .load k => .loadState k
  | .loadMissing => .loadMissing
  | .list => .localOk
  | .none | .launchWorker | .returnListenSockets => if answers then .workerBad else .noAnswer

/-- BEFORE the repair (`Consts.hubReloadBadPathPanics`) the request loaded a
    client-supplied path with `unwrap_or_else(panic!)` and the main process died;
    the driver still plays that when the translator finds the panic back -/
def ClientVerb.crashedMain : ClientVerb → Bool
  | .reloadBad => true
  | _ => false

/-- `command_allowed_uids`: a client whose uid is not listed is refused before any dispatch -/
def ClientVerb.classifyFor (allowed answers : Bool) (cv : ClientVerb) : Verb :=
  if allowed then cv.classify answers
  else match cv with
    | .none => cv.classify answers   -- the empty request is handled before the uid check
    | _ => .workerBad

/-- `ClientSession::ready`: of the requests read from the socket in one go, only the
    LAST is handed to `handle_client_request` ("more than one request at a time") -/
def sessionPick {α : Type} (batch : List α) : Option α := batch.getLast?

/-- a worker-request id `"{verb}-{worker}-{task}-{sub}"` -/
structure Rid where
  worker : Nat
  task : Nat
  sub : Nat
deriving DecidableEq, Repr

structure Task where
  id : Nat
  /-- ghost: serial number of the client request that created the task -/
  req : Nat
  client : Nat
  verb : Verb
  ok : Nat
  errors : Nat
  expected : Nat
  deadline : Option Nat
  /-- ghost: creation time -/
  born : Nat
  /-- ghost: the ids scattered for this task -/
  sent : List Rid
  /-- `DefaultGatherer::responses`: (sending worker, id, status), oldest first -/
  got : List (Nat × Rid × St)
deriving DecidableEq, Repr

/-- one message queued for a client -/
structure Emit where
  /-- ghost: serial of the request this message answers -/
  req : Nat
  client : Nat
  kind : St
  /-- false when the client's session is gone (`OptionalClient` = None) -/
  delivered : Bool
  /-- ghost: for a gathered verdict, the task as it was when finished and the
      run loop's real `timed_out` flag -/
  src : Option (Task × Bool)
deriving DecidableEq, Repr

inductive RunState where
  | running | workersStopping | exited
deriving DecidableEq, Repr

structure Hub where
  /-- `handle_finishing_task` forwards `timed_out` (code as written: false) -/
  fwd : Bool
  /-- `StopTask::on_finish` does not send Ok after the timed-out failure -/
  stopExcl : Bool
  /-- `handle_worker_response` retires an in-flight id once it got a terminal
      answer (code as written: false — a duplicate answer is counted again) -/
  retire : Bool
  /-- `config.worker_timeout` -/
  timeout : Nat
  now : Nat
  nextTask : Nat
  nextReq : Nat
  /-- (worker id, `run_state == Stopped`) -/
  workers : List (Nat × Bool)
  /-- workers whose session was flagged `Ready::ERROR` because `WorkerSession::send`
      could not queue a request (`Channel::write_message` refused the frame); the
      next loop iteration closes them -/
  errored : List Nat
  /-- `CommandHub.tasks` ∪ `Server.queued_tasks` -/
  tasks : List Task
  /-- `Server.in_flight` -/
  inflight : List (Rid × Nat)
  /-- clients whose session is gone -/
  closed : List Nat
  /-- clients that ever sent a request -/
  known : List Nat
  run : RunState
  /-- every message queued for a client, oldest first -/
  log : List Emit
  /-- ghost: ids of the terminal worker answers handled so far -/
  seen : List Rid
deriving Repr

def Hub.init (fwd stopExcl retire : Bool) (timeout nworkers : Nat) : Hub :=
  { fwd, stopExcl, retire, timeout, now := 0, nextTask := 0, nextReq := 0,
    workers := (List.range nworkers).map (fun i => (i, false)), errored := [],
    tasks := [], inflight := [], closed := [], known := [], run := .running,
    log := [], seen := [] }

/-- the hub of the code as the translator sees it now -/
def Hub.ofCode (timeout nworkers : Nat) : Hub :=
  Hub.init Consts.hubForwardsTimedOut Consts.hubStopFailureExclusive Consts.hubRetiresAnsweredIds
    timeout nworkers

inductive Op where
  | request (client : Nat) (verb : Verb)
  /-- worker `w`'s channel delivers a response carrying id `rid` -/
  | response (w : Nat) (rid : Rid) (st : St)
  /-- worker `w`'s channel is closed -/
  | close (w : Nat)
  /-- the request just scattered could not be queued on worker `w`'s channel
      (`write_message` refused the frame: backlog of a worker that does not read,
      or a frame larger than the channel's ceiling). As coded: the id stays in
      flight and the worker stays counted in `expected_responses`; the session
      is flagged in error and closed by the next loop iteration. -/
  | sendFail (w : Nat)
  | advance (n : Nat)
  /-- client `c` hangs up -/
  | drop (c : Nat)
  /-- one pass of the run loop's task-finishing rule -/
  | tick
deriving DecidableEq, Repr

-- ------------------------------------------------------------ verbs ----

/-- verbs that create a gathering task -/
def Verb.gathers : Verb → Bool
  | .worker | .query | .hardStop | .softStop | .loadState _ | .reload _ => true
  | _ => false

/-- `Timeout::Default` verbs -/
def Verb.hasDeadline : Verb → Bool
  | .worker | .query | .hardStop => true
  | _ => false

/-- verbs whose verdict is a failure as soon as one worker failure was counted -/
def Verb.judgesWorkers : Verb → Bool
  | .worker | .loadState _ | .reload _ => true
  | _ => false

def Verb.isStop : Verb → Bool
  | .hardStop | .softStop => true
  | _ => false

/-- answered at once by the main process -/
def Verb.immediate : Verb → Option St
  | .workerBad | .loadMissing | .loadCorrupt | .reloadRefused => some .failure
  | .localOk => some .ok
  | _ => none

/-- number of `scatter_on` calls and the first request index -/
def Verb.subs : Verb → List Nat
  | .loadState k => (List.range k).map (· + 1)
  | .reload k => List.range k
  | _ => [0]

/-- `load_state` reads the file through a fixed-size buffer; every fill yields a
    batch of parsed requests. The request index handed to `scatter_on` comes from
    ONE counter (`scatter_request_counter`) declared outside the read loop and
    incremented before each use: batch sizes `[b₁, b₂, …]` give the indices
    `1 … b₁`, `b₁+1 … b₁+b₂`, … -/
def loadSubsFrom (counter : Nat) : List Nat → List Nat
  | [] => []
  | b :: bs => (List.range b).map (· + counter + 1) ++ loadSubsFrom (counter + b) bs

def loadSubs (batches : List Nat) : List Nat := loadSubsFrom 0 batches

/-- the variant a refactor could introduce (`enumerate()` inside the batch loop):
    the index restarts at every buffer fill -/
def loadSubsRestarting : List Nat → List Nat
  | [] => []
  | b :: bs => (List.range b).map (· + 1) ++ loadSubsRestarting bs

-- ---------------------------------------------------------- scatter ----

def liveWorkers (h : Hub) : List Nat :=
  (h.workers.filter (fun w => !w.2)).map (·.1)

/-- ids of one `scatter_on(task, sub)` -/
def ridsFor (h : Hub) (task sub : Nat) : List Rid :=
  (liveWorkers h).map (fun w => { worker := w, task, sub })

/-- all ids scattered for a verb -/
def allRids (h : Hub) (task : Nat) (v : Verb) : List Rid :=
  v.subs.flatMap (ridsFor h task)

def mkEmit (h : Hub) (req client : Nat) (kind : St) (src : Option (Task × Bool)) : Emit :=
  { req, client, kind, delivered := !h.closed.contains client, src }

/-- `new_task` + every `scatter_on` of the verb -/
def newTask (h : Hub) (client : Nat) (v : Verb) : Task :=
  let rids := allRids h h.nextTask v
  { id := h.nextTask, req := h.nextReq, client, verb := v, ok := 0, errors := 0,
    expected := rids.length,
    deadline := if v.hasDeadline then some (h.now + h.timeout) else none,
    born := h.now, sent := rids, got := [] }

/-- the processing notices `handle_client_request` sends before gathering -/
def noticesFor (v : Verb) : Nat :=
  match v with
  | .loadState _ => 2
  | _ => 1

/-- processing notices sent before an immediate verdict ("Parsing state file…") -/
def Verb.preNotices : Verb → Nat
  | .loadCorrupt => 1
  | _ => 0

/-- `new_task` was called although no task survives the handler -/
def Verb.spendsTaskId : Verb → Bool
  | .loadCorrupt | .reloadRefused => true
  | _ => false

/-- what `handle_client_request` queues for the client right away -/
def requestEmits (h : Hub) (c : Nat) (v : Verb) : List Emit :=
  if v.gathers then List.replicate (noticesFor v) (mkEmit h h.nextReq c .processing none)
  else match v.immediate with
    | some st => List.replicate v.preNotices (mkEmit h h.nextReq c .processing none) ++ [mkEmit h h.nextReq c st none]
    | none => []

/-- `handle_client_request` -/
def request (h : Hub) (c : Nat) (v : Verb) : Hub :=
  if h.run = .exited then h else
  { h with nextReq := h.nextReq + 1,
           known := if h.known.contains c then h.known else h.known ++ [c],
           nextTask := if v.gathers then h.nextTask + 1 else if v.spendsTaskId then h.nextTask + 1 else h.nextTask,
           tasks := if v.gathers then h.tasks ++ [newTask h c v] else h.tasks,
           inflight := if v.gathers then (newTask h c v).sent.map (fun r => (r, h.nextTask)) ++ h.inflight
                       else h.inflight,
           run := if v.isStop then .workersStopping else h.run,
           log := h.log ++ requestEmits h c v }

-- --------------------------------------------------------- response ----

def lookup (h : Hub) (rid : Rid) : Option Nat :=
  (h.inflight.find? (fun e => e.1 = rid)).map (·.2)

/-- `DefaultGatherer::on_message` counters and log -/
def onMessage (t : Task) (w : Nat) (rid : Rid) (st : St) : Task :=
  { t with ok := if st = .ok then t.ok + 1 else t.ok,
           errors := if st = .failure then t.errors + 1 else t.errors,
           got := t.got ++ [(w, rid, st)] }

/-- the tasks after `handle_worker_response` -/
def responseTasks (h : Hub) (w : Nat) (rid : Rid) (st : St) : List Task :=
  match lookup h rid with
  | none => h.tasks
  | some tid => h.tasks.map (fun t => if t.id = tid then onMessage t w rid st else t)

/-- a Processing response is forwarded to the client of the task -/
def responseEmits (h : Hub) (rid : Rid) (st : St) : List Emit :=
  if st = .processing then
    match lookup h rid with
    | none => []
    | some tid => (h.tasks.filter (fun t => t.id = tid)).map (fun t => mkEmit h t.req t.client .processing none)
  else []

/-- the in-flight map after `handle_worker_response` -/
def responseInflight (h : Hub) (rid : Rid) (st : St) : List (Rid × Nat) :=
  if h.retire && st ≠ .processing && (lookup h rid).isSome then h.inflight.filter (fun e => e.1 ≠ rid)
  else h.inflight

/-- `handle_worker_response` -/
def response (h : Hub) (w : Nat) (rid : Rid) (st : St) : Hub :=
  if h.run = .exited then h else
  { h with seen := if st = .processing then h.seen else rid :: h.seen,
           tasks := responseTasks h w rid st,
           inflight := responseInflight h rid st,
           log := h.log ++ responseEmits h rid st }

/-- `handle_worker_close` → `close_worker` -/
def close (h : Hub) (w : Nat) : Hub :=
  if h.run = .exited then h else
  { h with workers := h.workers.map (fun x => if x.1 = w then (x.1, true) else x) }

/-- `WorkerSession::send` when `write_message` fails -/
def sendFail (h : Hub) (w : Nat) : Hub :=
  if h.run = .exited then h else { h with errored := w :: h.errored }

-- ------------------------------------------------------------- tick ----

def hasFinished (t : Task) : Bool := decide (t.ok + t.errors ≥ t.expected)

def deadlinePassed (now : Nat) (t : Task) : Bool :=
  match t.deadline with
  | some d => decide (d < now)
  | none => false

/-- the run loop releases the task in this pass -/
def isDone (now : Nat) (t : Task) : Bool := hasFinished t || deadlinePassed now t

/-- the `timed_out` argument of `handle_finishing_task` -/
def timedOut (t : Task) : Bool := !hasFinished t

/-- the statuses `on_finish` sends, given the flag it is handed -/
def verdicts (stopExcl : Bool) (t : Task) (passed : Bool) : List St :=
  match t.verb with
  | .worker => [if t.errors > 0 || passed then .failure else .ok]
  | .query => [.ok]
  | .loadState _ => [if t.errors = 0 then .ok else .failure]
  | .reload _ => [if t.errors = 0 then .ok else .failure]
  | .hardStop => if passed then (if stopExcl then [.failure] else [.failure, .ok]) else [.ok]
  | .softStop => [.ok]
  | _ => []

/-- `handle_finishing_task` -/
def finishEmits (h : Hub) (t : Task) : List Emit :=
  (verdicts h.stopExcl t (h.fwd && timedOut t)).map
    (fun st => mkEmit h t.req t.client st (some (t, timedOut t)))

def tick (h : Hub) : Hub :=
  if h.run = .exited then h else
  let fin := h.tasks.filter (isDone h.now)
  let stop := fin.any (fun t => t.verb.isStop)
  { h with workers := h.workers.map (fun x => if h.errored.contains x.1 then (x.1, true) else x),
           errored := [],
           tasks := h.tasks.filter (fun t => !isDone h.now t),
           inflight := h.inflight.filter (fun e => !fin.any (fun t => t.id = e.2)),
           log := h.log ++ fin.flatMap (finishEmits h),
           run := if stop then .exited else h.run,
           closed := if stop then h.known else h.closed }

-- ------------------------------------------------------------- step ----

def step (h : Hub) : Op → Hub
  | .request c v => request h c v
  | .response w rid st => response h w rid st
  | .close w => close h w
  | .sendFail w => sendFail h w
  | .advance n => { h with now := h.now + n }
  | .drop c => if h.run = .exited then h else { h with closed := c :: h.closed }
  | .tick => tick h

def run (h : Hub) (ops : List Op) : Hub := ops.foldl step h

/-- a final answer (Ok or Failure) -/
def Emit.isFinal (e : Emit) : Bool := e.kind ≠ .processing

/-- number of final answers given to request `r` -/
def finalsOf (r : Nat) (log : List Emit) : Nat :=
  log.countP (fun e => e.req = r && e.isFinal)

/-- number of pending tasks of request `r` -/
def pendingOf (r : Nat) (tasks : List Task) : Nat :=
  tasks.countP (fun t => t.req = r)

end Sozu.Hub
