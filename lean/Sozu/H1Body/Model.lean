import Sozu.Generated.Consts
/-
Byte-level models for C01 (bodies arrive complete, unmodified, in order).

* `Dec`: the body part of kawa's HTTP/1 parser (`kawa::h1::parse`, phases
  `Body`, `Chunks`, `Trailers`, `Terminated`), transcribed on an *unparsed
  buffer*: Content-Length (`expects` countdown), chunked (`parse_chunk_header`:
  optional leading CRLF, hex size, CRLF; data; `0`; trailer lines; final CRLF)
  and close-delimited bodies. nom's streaming `Incomplete` is "no progress, keep
  the bytes". kawa is outside /repo: this model is tied to it differentially.
* `encodeChunked` / `encodeLength`: the senders' framings.
* `Reader`: an incremental HTTP/2 frame reader (9-byte header, then payload)
  fed with arbitrary segments, and `encodeFrame`, the wire form of a frame.
-/
namespace Sozu.H1Body
open Sozu

abbrev Bytes := List Nat

def CR : Nat := 13
def LF : Nat := 10

/-! ### hexadecimal chunk sizes -/

def isHex (b : Nat) : Bool :=
  (48 ≤ b && b ≤ 57) || (97 ≤ b && b ≤ 102) || (65 ≤ b && b ≤ 70)

def hexVal (b : Nat) : Nat :=
  if 48 ≤ b ∧ b ≤ 57 then b - 48 else if 97 ≤ b ∧ b ≤ 102 then b - 87 else b - 55

def hexChar (d : Nat) : Nat := if d < 10 then 48 + d else 87 + d

/-- lowercase hex digits of `n`, least significant first (fuel `f`) -/
def hexDigitsRev : Nat → Nat → Bytes
  | 0, _ => []
  | f + 1, n => if n < 16 then [hexChar n] else hexChar (n % 16) :: hexDigitsRev f (n / 16)

/-- lowercase hex digits of `n`, most significant first (`"0"` for 0) -/
def hexDigits (n : Nat) : Bytes := (hexDigitsRev (n + 1) n).reverse

def hexValue (ds : Bytes) : Nat := ds.foldl (fun a d => a * 16 + hexVal d) 0

/-! ### the body decoder -/

inductive Phase
  | body                 -- Content-Length / close-delimited
  | chunks (first : Bool)
  | trailers
  | done
  | error
deriving Repr, DecidableEq

structure Dec where
  phase : Phase
  /-- `kawa.expects` -/
  expects : Nat
  /-- close-delimited (`BodySize::Empty`): `expects` is not counted down -/
  unbounded : Bool
  /-- `storage.unparsed_data()` -/
  buf : Bytes
deriving Repr, DecidableEq

inductive Framing
  | length (n : Nat)
  | chunked
  | close
deriving Repr, DecidableEq

/-- the phase chosen after `process_headers` -/
def Dec.start : Framing → Dec
  | .length 0 => { phase := .done, expects := 0, unbounded := false, buf := [] }
  | .length n => { phase := .body, expects := n, unbounded := false, buf := [] }
  | .chunked => { phase := .chunks true, expects := 0, unbounded := false, buf := [] }
  | .close => { phase := .body, expects := 1, unbounded := true, buf := [] }

inductive PRes (α : Type)
  | ok (v : α) (rest : Bytes)
  | incomplete
  | err

/-- streaming `tag(b"\r\n")` -/
def pCrlf : Bytes → PRes Unit
  | [] => .incomplete
  | [a] => if a = CR then .incomplete else .err
  | a :: b :: rest => if a = CR ∧ b = LF then .ok () rest else .err

/-- streaming `hex_digit1` + `usize::from_str_radix` -/
def pChunkSize (i : Bytes) : PRes Nat :=
  let ds := i.takeWhile isHex
  let rest := i.dropWhile isHex
  if rest.isEmpty then .incomplete          -- all hex so far (or empty): need more input
  else if ds.isEmpty then .err
  else if hexValue ds ≥ 2 ^ 64 then .err
  else .ok (hexValue ds) rest

/-- `parse_chunk_header(first, i)` -/
def pChunkHeader (first : Bool) (i : Bytes) : PRes Nat :=
  let afterLead : PRes Unit := if first then .ok () i else pCrlf i
  match afterLead with
  | .incomplete => .incomplete
  | .err => .err
  | .ok _ i1 =>
    match pChunkSize i1 with
    | .incomplete => .incomplete
    | .err => .err
    | .ok n i2 =>
      match pCrlf i2 with
      | .incomplete => .incomplete
      | .err => .err
      | .ok _ i3 => .ok n i3

/-- index of the first CRLF -/
def findCrlf : Bytes → Option Nat
  | [] => none
  | [_] => none
  | a :: b :: rest => if a = CR ∧ b = LF then some 0 else (findCrlf (b :: rest)).map (· + 1)

/-- one iteration of the parser's `while !unparsed_buf.is_empty()` loop:
    `(new state, body bytes produced, progressed)` -/
def Dec.step (d : Dec) : Dec × Bytes × Bool :=
  if d.buf.isEmpty then (d, [], false) else
  match d.phase with
  | .body =>
    if d.unbounded then ({ d with buf := [] }, d.buf, true)
    else
      let taken := min d.buf.length d.expects
      let e := d.expects - taken
      ({ d with expects := e, buf := d.buf.drop taken, phase := if e = 0 then .done else .body }, d.buf.take taken, true)
  | .chunks first =>
    if d.expects = 0 then
      match pChunkHeader first d.buf with
      | .incomplete => (d, [], false)
      | .err => ({ d with phase := .error }, [], false)
      | .ok n rest =>
        if n = 0 then ({ d with phase := .trailers, expects := 0, buf := rest }, [], true)
        else ({ d with phase := .chunks false, expects := n, buf := rest }, [], true)
    else
      let taken := min d.buf.length d.expects
      ({ d with expects := d.expects - taken, buf := d.buf.drop taken }, d.buf.take taken, true)
  | .trailers =>
    match pCrlf d.buf with
    | .ok _ rest => ({ d with phase := .done, buf := rest }, [], true)
    | .incomplete => (d, [], false)
    | .err =>
      -- a trailer line: skipped up to its CRLF (field syntax errors are not modelled)
      match findCrlf d.buf with
      | some i => ({ d with buf := d.buf.drop (i + 2) }, [], true)
      | none => (d, [], false)
  | .done => (d, [], false)
  | .error => (d, [], false)

def Dec.runFuel : Nat → Dec → Bytes → Dec × Bytes
  | 0, d, acc => (d, acc)
  | f + 1, d, acc =>
    let r := d.step
    if r.2.2 then Dec.runFuel f r.1 (acc ++ r.2.1) else (r.1, acc ++ r.2.1)

/-- parse everything that can be parsed now -/
def Dec.run (d : Dec) : Dec × Bytes := Dec.runFuel (d.buf.length + 2) d []

/-- a read of `seg` bytes followed by `parse` -/
def Dec.feed (d : Dec) (seg : Bytes) : Dec × Bytes := ({ d with buf := d.buf ++ seg }).run

def Dec.feedAll (d : Dec) : List Bytes → Dec × Bytes
  | [] => (d, [])
  | s :: ss => let r := d.feed s; let r2 := Dec.feedAll r.1 ss; (r2.1, r.2 ++ r2.2)

/-! ### the senders -/

def crlf : Bytes := [CR, LF]

/-- `Transfer-Encoding: chunked` with the given chunk sizes (empty chunks are
    not sent: a zero size is the terminator) -/
def encodeChunks : List Bytes → Bytes
  | [] => []
  | c :: cs => if c.isEmpty then encodeChunks cs else hexDigits c.length ++ crlf ++ c ++ crlf ++ encodeChunks cs

def encodeChunked (cs : List Bytes) : Bytes := encodeChunks cs ++ [48] ++ crlf ++ crlf

/-! ### HTTP/2 frame reader -/

structure RFrame where
  ty : Nat
  flags : Nat
  sid : Nat
  payload : Bytes
deriving Repr, DecidableEq

def encodeFrame (f : RFrame) : Bytes :=
  [f.payload.length / 65536 % 256, f.payload.length / 256 % 256, f.payload.length % 256, f.ty, f.flags,
   f.sid / 16777216 % 256, f.sid / 65536 % 256, f.sid / 256 % 256, f.sid % 256] ++ f.payload

/-- `expect_read`: either collecting the 9-byte header or `need` payload bytes -/
inductive RState
  | hdr (acc : Bytes)
  | body (ty flags sid need : Nat) (acc : Bytes)
deriving Repr, DecidableEq

def hdrDone (acc : Bytes) : RState × Option RFrame :=
  match acc with
  | [l0, l1, l2, ty, fl, s0, s1, s2, s3] =>
    let len := l0 * 65536 + l1 * 256 + l2
    let sid := (s0 % 128) * 16777216 + s1 * 65536 + s2 * 256 + s3
    if len = 0 then (.hdr [], some ⟨ty, fl, sid, []⟩) else (.body ty fl sid len [], none)
  | _ => (.hdr acc, none)

def rByte (s : RState) (b : Nat) : RState × Option RFrame :=
  match s with
  | .hdr acc => if acc.length + 1 = Consts.h2FrameHeaderSize then hdrDone (acc ++ [b]) else (.hdr (acc ++ [b]), none)
  | .body ty fl sid need acc =>
    if acc.length + 1 = need then (.hdr [], some ⟨ty, fl, sid, acc ++ [b]⟩) else (.body ty fl sid need (acc ++ [b]), none)

def rStep (st : RState × List RFrame) (b : Nat) : RState × List RFrame :=
  ((rByte st.1 b).1, match (rByte st.1 b).2 with
    | some f => st.2 ++ [f]
    | none => st.2)

/-- one socket read -/
def rFeed (s : RState) (seg : Bytes) : RState × List RFrame := seg.foldl rStep (s, [])

def rFeedAll (s : RState) : List Bytes → RState × List RFrame
  | [] => (s, [])
  | seg :: segs => let r := rFeed s seg; let r2 := rFeedAll r.1 segs; (r2.1, r.2 ++ r2.2)

/-- body bytes and END_STREAM marks carried by the DATA/HEADERS frames of stream `sid` -/
def rEvents (sid : Nat) (fs : List RFrame) : List (Option Nat) :=
  fs.flatMap fun f =>
    if f.sid = sid then
      (if f.ty = Consts.h2SerTypeByteData then f.payload.map some else []) ++
      (if (f.ty = Consts.h2SerTypeByteData ∨ f.ty = Consts.h2SerTypeByteHeaders) ∧ f.flags % 2 = 1 then [none] else [])
    else []

end Sozu.H1Body
