import Sozu.H1Body.Lemmas
/-
Proofs of the property theorems stated in Props.lean (same statements, suffix `_pf`),
and the definitions those statements use.
-/
set_option linter.unusedSimpArgs false
set_option linter.unusedVariables false
namespace Sozu.H1Body
open Sozu Sozu.H2Flow

theorem C01_segmentation_independent_pf (s : RState) (segs : List Bytes) :
    rFeedAll s segs = rFeed s segs.flatten := by
  induction segs generalizing s with
  | nil => simp [rFeedAll, rFeed]
  | cons seg segs ih =>
    simp only [rFeedAll, List.flatten_cons]
    rw [rFeed_append, ih]

/-- a schedule of write passes for one stream: `(max_frame_size, window, incremental)` -/
def passes (sid : Nat) : KState → List (Nat × Int × Bool) → List Frame × KState
  | k, [] => ([], k)
  | k, (m, w, i) :: rest =>
    let r := prepare { mfs := m, window := w, sid := sid, out := [], incr := i, abort := false } k
    ((r.2.1 ++ (passes sid r.2.2 rest).1), (passes sid r.2.2 rest).2)

theorem passes_dead (sid : Nat) (sched : List (Nat × Int × Bool)) :
    ∀ k : KState, k.dead = true → (passes sid k sched).2.dead = true := by
  induction sched with
  | nil => intro k h; exact h
  | cons p ps ih =>
    intro k h
    obtain ⟨m, w, i⟩ := p
    simp only [passes]
    exact ih _ (prepare_dead _ k h)

theorem C01_data_concat_pf (sid : Nat) (sched : List (Nat × Int × Bool)) :
    ∀ k : KState, k.dead = false → (passes sid k sched).2.dead = false →
      events (passes sid k sched).1 ++ eventsB (passes sid k sched).2.blocks = eventsB k.blocks := by
  induction sched with
  | nil => intro k _ _; simp [passes]
  | cons p ps ih =>
    intro k hd hend
    obtain ⟨m, w, i⟩ := p
    simp only [passes] at hend ⊢
    have hmid : (prepare { mfs := m, window := w, sid := sid, out := [], incr := i, abort := false } k).2.2.dead = false := by
      cases h : (prepare { mfs := m, window := w, sid := sid, out := [], incr := i, abort := false } k).2.2.dead with
      | false => rfl
      | true => rw [passes_dead sid ps _ h] at hend; cases hend
    have h1 := prepare_events { mfs := m, window := w, sid := sid, out := [], incr := i, abort := false } k hd hmid
    have h2 := ih _ hmid hend
    rw [events_append, List.append_assoc, h2, h1]

theorem C01_data_concat_complete_pf (sid : Nat) (sched : List (Nat × Int × Bool)) (k : KState) (m : Nat) (w : Int)
    (hd : k.dead = false) (hm : 0 < m)
    (hw : (bodyLen (passes sid k sched).2.blocks : Int) ≤ w)
    (hend : (passes sid k (sched ++ [(m, w, false)])).2.dead = false) :
    events (passes sid k (sched ++ [(m, w, false)])).1 = eventsB k.blocks := by
  have happ : ∀ (sc : List (Nat × Int × Bool)) (k0 : KState),
      passes sid k0 (sc ++ [(m, w, false)]) =
        ((passes sid k0 sc).1 ++ (prepare { mfs := m, window := w, sid := sid, out := [], incr := false, abort := false } (passes sid k0 sc).2).2.1,
         (prepare { mfs := m, window := w, sid := sid, out := [], incr := false, abort := false } (passes sid k0 sc).2).2.2) := by
    intro sc
    induction sc with
    | nil => intro k0; simp [passes]
    | cons p ps ih =>
      intro k0
      obtain ⟨m', w', i'⟩ := p
      simp only [passes, List.cons_append, ih, List.append_assoc]
  have hall := C01_data_concat_pf sid (sched ++ [(m, w, false)]) k hd hend
  rw [happ] at hend hall ⊢
  simp only at hend hall ⊢
  have hmid : (passes sid k sched).2.dead = false := by
    cases h : (passes sid k sched).2.dead with
    | false => rfl
    | true => rw [prepare_dead _ _ h] at hend; cases hend
  have hdr := prepare_drain { mfs := m, window := w, sid := sid, out := [], incr := false, abort := false }
    (passes sid k sched).2 hm rfl rfl hmid hw hend
  rw [hdr] at hall
  simpa using hall

theorem C01_length_exact_pf (body rest : Bytes) :
    (Dec.start (.length body.length)).feed (body ++ rest) =
      ({ phase := .done, expects := 0, unbounded := false, buf := rest }, body) := by
  cases hb : body with
  | nil =>
    simp only [List.length_nil, Dec.start, Dec.feed, List.nil_append, Dec.run]
    rw [runFuel_succ]
    have : ({ phase := .done, expects := 0, unbounded := false, buf := rest } : Dec).step
        = ({ phase := .done, expects := 0, unbounded := false, buf := rest }, [], false) := by
      simp only [Dec.step]; split <;> rfl
    rw [this]; simp
  | cons x xs =>
    have hn : (x :: xs).length = xs.length + 1 := rfl
    simp only [hn, Dec.start, Dec.feed, List.nil_append, Dec.run, List.cons_append, List.length_cons]
    rw [runFuel_succ]
    have hs1 : ({ phase := .body, expects := xs.length + 1, unbounded := false, buf := x :: (xs ++ rest) } : Dec).step
        = ({ phase := .done, expects := 0, unbounded := false, buf := rest }, x :: xs, true) := by
      simp only [Dec.step, List.isEmpty_cons, Bool.false_eq_true, if_false, List.length_cons, List.length_append]
      have hmin : min (xs.length + rest.length + 1) (xs.length + 1) = xs.length + 1 := by omega
      simp [hmin, List.take_append_of_le_length, List.drop_append_of_le_length]
    rw [hs1]; simp only [if_true, List.nil_append]
    rw [runFuel_succ]
    have : ({ phase := .done, expects := 0, unbounded := false, buf := rest } : Dec).step
        = ({ phase := .done, expects := 0, unbounded := false, buf := rest }, [], false) := by
      simp only [Dec.step]; split <;> rfl
    rw [this]; simp

theorem C01_chunked_roundtrip_pf (cs : List Bytes) (rest : Bytes) (hlen : ∀ c ∈ cs, c.length < 2 ^ 64) :
    (Dec.start .chunked).feed (encodeChunked cs ++ rest) =
      ({ phase := .done, expects := 0, unbounded := false, buf := rest }, cs.flatten) := by
  simp only [Dec.start, Dec.feed, List.nil_append, Dec.run]
  have hl := encodeChunks_length cs
  have hfuel : 2 * (cs.filter fun c => !c.isEmpty).length + 3 ≤ (encodeChunked cs ++ rest).length + 2 := by
    simp only [encodeChunked, List.length_append, crlf, List.length_cons, List.length_nil]; omega
  have := runFuel_chunked rest cs true ((encodeChunked cs ++ rest).length + 2) [] hlen hfuel
  rw [← encodeChunked_encRest] at this
  simpa using this

/-- the block queue sozu holds for a message whose body was parsed as the pieces `cs` -/
def queueOf (cs : List Bytes) : List Block := cs.map Block.chunk ++ [Block.flags false true]

theorem eventsB_queueOf (cs : List Bytes) : eventsB (queueOf cs) = cs.flatten.map some ++ [none] := by
  unfold queueOf
  induction cs with
  | nil => simp [eventsB, blockEvents]
  | cons c cs ih =>
    simp only [List.map_cons, List.cons_append, eventsB_cons, blockEvents, ih, List.flatten_cons, List.map_append,
      List.append_assoc]

theorem C01_pair_composition_h1_h1_pf (cs cs' : List Bytes) (rest : Bytes)
    (hlen : ∀ c ∈ cs, c.length < 2 ^ 64) (hlen' : ∀ c ∈ cs', c.length < 2 ^ 64)
    (hre : cs'.flatten = ((Dec.start .chunked).feed (encodeChunked cs)).2) :
    (Dec.start .chunked).feed (encodeChunked cs' ++ rest) =
      ({ phase := .done, expects := 0, unbounded := false, buf := rest }, cs.flatten) ∧
    (Dec.start (.length cs'.flatten.length)).feed (cs'.flatten ++ rest) =
      ({ phase := .done, expects := 0, unbounded := false, buf := rest }, cs.flatten) := by
  have h0 := C01_chunked_roundtrip_pf cs [] hlen
  rw [List.append_nil] at h0
  rw [h0] at hre
  simp only at hre
  refine ⟨by rw [C01_chunked_roundtrip_pf cs' rest hlen', hre], by rw [C01_length_exact_pf, hre]⟩

theorem C01_pair_composition_h1_h2_pf (cs pieces : List Bytes) (sid : Nat) (sched : List (Nat × Int × Bool)) (m : Nat) (w : Int)
    (hlen : ∀ c ∈ cs, c.length < 2 ^ 64)
    (hp : pieces.flatten = ((Dec.start .chunked).feed (encodeChunked cs)).2)
    (hm : 0 < m) (hw : (bodyLen (passes sid ⟨queueOf pieces, false⟩ sched).2.blocks : Int) ≤ w)
    (hend : (passes sid ⟨queueOf pieces, false⟩ (sched ++ [(m, w, false)])).2.dead = false) :
    events (passes sid ⟨queueOf pieces, false⟩ (sched ++ [(m, w, false)])).1 = cs.flatten.map some ++ [none] := by
  have h0 := C01_chunked_roundtrip_pf cs [] hlen
  rw [List.append_nil] at h0
  rw [h0] at hp
  simp only at hp
  rw [C01_data_concat_complete_pf sid sched ⟨queueOf pieces, false⟩ m w rfl hm hw hend, eventsB_queueOf, hp]

end Sozu.H1Body
