import Sozu.H1Body.Model
import Sozu.H1Body.Writer
import Sozu.H2Flow.Lemmas
/-
Helper lemmas for C01: hexadecimal sizes, the decoder on a well-formed
encoding, the frame reader.
-/
set_option linter.unusedSimpArgs false
set_option linter.unusedVariables false
namespace Sozu.H1Body
open Sozu

/-! ### hex -/

theorem hexChar_isHex : ∀ d : Fin 16, isHex (hexChar d) = true := by decide
theorem hexVal_hexChar : ∀ d : Fin 16, hexVal (hexChar d) = d := by decide

theorem hexDigitsRev_isHex : ∀ (f n : Nat), ∀ b ∈ hexDigitsRev f n, isHex b = true := by
  intro f
  induction f with
  | zero => intro n b hb; simp [hexDigitsRev] at hb
  | succ f ih =>
    intro n b hb
    unfold hexDigitsRev at hb
    split at hb
    · next h => simp at hb; subst hb; exact hexChar_isHex ⟨n, h⟩
    · rcases List.mem_cons.mp hb with h | h
      · subst h; exact hexChar_isHex ⟨n % 16, Nat.mod_lt _ (by omega)⟩
      · exact ih _ b h

theorem hexDigitsRev_ne_nil (f n : Nat) : hexDigitsRev (f + 1) n ≠ [] := by
  unfold hexDigitsRev; split <;> simp

/-- value of little-endian digits -/
def leValue : Bytes → Nat
  | [] => 0
  | d :: ds => hexVal d + 16 * leValue ds

theorem hexValue_reverse (ds : Bytes) : hexValue ds.reverse = leValue ds := by
  unfold hexValue
  induction ds with
  | nil => rfl
  | cons d ds ih => simp [List.foldl_append, leValue, ih]; omega

theorem leValue_hexDigitsRev : ∀ (f n : Nat), n < 2 ^ f → leValue (hexDigitsRev f n) = n := by
  intro f
  induction f with
  | zero => intro n h; simp at h; subst h; rfl
  | succ f ih =>
    intro n h
    unfold hexDigitsRev
    split
    · next h16 => simp [leValue, hexVal_hexChar ⟨n, h16⟩]
    · next h16 =>
      have h2 : n / 16 < 2 ^ f := by
        have : n / 16 ≤ n / 2 := Nat.div_le_div_left (by omega) (by omega)
        have : n / 2 < 2 ^ f := by rw [Nat.div_lt_iff_lt_mul (by omega)]; rw [Nat.pow_succ] at h; omega
        omega
      simp only [leValue, ih _ h2, hexVal_hexChar ⟨n % 16, Nat.mod_lt _ (by omega)⟩]
      omega

theorem hexDigits_isHex (n : Nat) : ∀ b ∈ hexDigits n, isHex b = true := by
  intro b hb
  exact hexDigitsRev_isHex _ _ b (by simpa [hexDigits] using hb)

theorem hexDigits_ne_nil (n : Nat) : hexDigits n ≠ [] := by
  simp [hexDigits, hexDigitsRev_ne_nil]

theorem hexValue_hexDigits (n : Nat) : hexValue (hexDigits n) = n := by
  unfold hexDigits
  rw [hexValue_reverse]
  apply leValue_hexDigitsRev
  have h1 : n < 2 ^ n := Nat.lt_two_pow_self
  have h2 : 2 ^ n ≤ 2 ^ (n + 1) := Nat.pow_le_pow_right (by omega) (by omega)
  omega

/-! ### the chunk-header parser on an encoder's output -/

theorem isHex_CR : isHex CR = false := by decide

theorem pCrlf_crlf (t : Bytes) : pCrlf (CR :: LF :: t) = .ok () t := by simp [pCrlf]

theorem pChunkSize_hex (n : Nat) (t : Bytes) (hn : n < 2 ^ 64) :
    pChunkSize (hexDigits n ++ CR :: t) = .ok n (CR :: t) := by
  have htw : (hexDigits n ++ CR :: t).takeWhile isHex = hexDigits n := by
    rw [List.takeWhile_append_of_pos (hexDigits_isHex n)]
    simp [List.takeWhile_cons, isHex_CR]
  have hdw : (hexDigits n ++ CR :: t).dropWhile isHex = CR :: t := by
    rw [List.dropWhile_append_of_pos (hexDigits_isHex n)]
    simp [List.dropWhile_cons, isHex_CR]
  unfold pChunkSize
  simp only [htw, hdw, hexValue_hexDigits]
  have h1 : (hexDigits n).isEmpty = false := by
    cases h : hexDigits n with
    | nil => exact absurd h (hexDigits_ne_nil n)
    | cons _ _ => rfl
  have h2 : ¬ n ≥ 2 ^ 64 := by omega
  simp [h1, h2]

def lead (first : Bool) : Bytes := if first then [] else crlf

theorem pChunkHeader_enc (first : Bool) (n : Nat) (t : Bytes) (hn : n < 2 ^ 64) :
    pChunkHeader first (lead first ++ hexDigits n ++ crlf ++ t) = .ok n t := by
  unfold pChunkHeader
  cases first
  · simp only [lead, crlf, Bool.false_eq_true, if_false, List.cons_append, List.nil_append, List.append_assoc, pCrlf_crlf]
    rw [pChunkSize_hex n (LF :: t) hn]
    simp [pCrlf_crlf]
  · simp only [lead, crlf, if_true, List.nil_append, List.cons_append, List.append_assoc]
    rw [pChunkSize_hex n (LF :: t) hn]
    simp [pCrlf_crlf]

/-- what is still on the wire when the decoder is about to read a chunk header -/
def encRest (first : Bool) : List Bytes → Bytes → Bytes
  | [], rest => lead first ++ [48] ++ crlf ++ crlf ++ rest
  | c :: cs, rest =>
    if c.isEmpty then encRest first cs rest
    else lead first ++ hexDigits c.length ++ crlf ++ c ++ encRest false cs rest

theorem encRest_false (cs : List Bytes) (rest : Bytes) : encRest false cs rest = crlf ++ encRest true cs rest := by
  induction cs with
  | nil => simp [encRest, lead]
  | cons c cs ih =>
    by_cases hc : c.isEmpty
    · simp [encRest, hc, ih]
    · simp [encRest, hc, lead]

theorem encodeChunked_encRest (cs : List Bytes) (rest : Bytes) :
    encodeChunked cs ++ rest = encRest true cs rest := by
  unfold encodeChunked
  induction cs with
  | nil => simp [encodeChunks, encRest, lead]
  | cons c cs ih =>
    by_cases hc : c.isEmpty
    · simp only [encodeChunks, hc, if_true, encRest]; exact ih
    · simp only [encodeChunks, hc, if_false, encRest, encRest_false, lead, if_true, List.nil_append, Bool.false_eq_true]
      simp only [List.append_assoc] at ih ⊢
      rw [ih]

theorem runFuel_succ (f : Nat) (d : Dec) (acc : Bytes) :
    Dec.runFuel (f + 1) d acc =
      if d.step.2.2 then Dec.runFuel f d.step.1 (acc ++ d.step.2.1) else (d.step.1, acc ++ d.step.2.1) := rfl

theorem lead_append_ne_nil (first : Bool) (x : Nat) (t : Bytes) : (lead first ++ x :: t).isEmpty = false := by
  cases first <;> simp [lead, crlf]

/-- the decoder on a complete chunked encoding followed by anything -/
theorem runFuel_chunked (rest : Bytes) : ∀ (cs : List Bytes) (first : Bool) (f : Nat) (acc : Bytes),
    (∀ c ∈ cs, c.length < 2 ^ 64) → 2 * (cs.filter fun c => !c.isEmpty).length + 3 ≤ f →
    Dec.runFuel f { phase := .chunks first, expects := 0, unbounded := false, buf := encRest first cs rest } acc
      = ({ phase := .done, expects := 0, unbounded := false, buf := rest }, acc ++ cs.flatten) := by
  intro cs
  induction cs with
  | nil =>
    intro first f acc _ hf
    obtain ⟨f, rfl⟩ : ∃ g, f = g + 3 := ⟨f - 3, by simp at hf; omega⟩
    have hbuf : encRest first [] rest = lead first ++ hexDigits 0 ++ crlf ++ (crlf ++ rest) := by
      simp [encRest, hexDigits, hexDigitsRev, hexChar]
    have hne : (encRest first [] rest).isEmpty = false := by
      simp only [encRest, List.append_assoc]; exact lead_append_ne_nil first 48 _
    -- step 1: the terminating header
    rw [runFuel_succ]
    have hs1 : ({ phase := .chunks first, expects := 0, unbounded := false, buf := encRest first [] rest } : Dec).step
        = ({ phase := .trailers, expects := 0, unbounded := false, buf := crlf ++ rest }, [], true) := by
      simp only [Dec.step, hne, Bool.false_eq_true, if_false, if_true]
      rw [hbuf, pChunkHeader_enc first 0 (crlf ++ rest) (by omega)]
      simp
    rw [hs1]; simp only [if_true, List.append_nil]
    -- step 2: the empty line
    rw [runFuel_succ]
    have hs2 : ({ phase := .trailers, expects := 0, unbounded := false, buf := crlf ++ rest } : Dec).step
        = ({ phase := .done, expects := 0, unbounded := false, buf := rest }, [], true) := by
      simp [Dec.step, crlf, pCrlf_crlf]
    rw [hs2]; simp only [if_true, List.append_nil]
    -- step 3: nothing more
    rw [runFuel_succ]
    have hs3 : ({ phase := .done, expects := 0, unbounded := false, buf := rest } : Dec).step
        = ({ phase := .done, expects := 0, unbounded := false, buf := rest }, [], false) := by
      simp only [Dec.step]; split <;> rfl
    rw [hs3]; simp
  | cons c cs ih =>
    intro first f acc hlen hf
    have hlen' : ∀ c' ∈ cs, c'.length < 2 ^ 64 := fun c' h => hlen c' (List.mem_cons_of_mem _ h)
    by_cases hc : c.isEmpty
    · have : c = [] := List.isEmpty_iff.mp hc
      subst this
      simp only [encRest, List.isEmpty_nil, if_true, List.flatten_cons, List.nil_append]
      exact ih first f acc hlen' (by simpa using hf)
    · have hc' : (!c.isEmpty) = true := by simpa using hc
      simp only [List.filter_cons, hc', if_true, List.length_cons] at hf
      obtain ⟨f, rfl⟩ : ∃ g, f = g + 2 := ⟨f - 2, by omega⟩
      have hcl : c.length < 2 ^ 64 := hlen c (List.mem_cons_self ..)
      have hcpos : c.length ≠ 0 := by
        intro h0; exact hc (by simp [List.length_eq_zero_iff.mp h0])
      have hbuf : encRest first (c :: cs) rest = lead first ++ hexDigits c.length ++ crlf ++ (c ++ encRest false cs rest) := by
        simp [encRest, hc]
      have hne : (encRest first (c :: cs) rest).isEmpty = false := by
        rw [hbuf]
        cases hd : hexDigits c.length with
        | nil => exact absurd hd (hexDigits_ne_nil _)
        | cons x xs => simp only [List.append_assoc, List.cons_append]; exact lead_append_ne_nil first x _
      rw [runFuel_succ]
      have hs1 : ({ phase := .chunks first, expects := 0, unbounded := false, buf := encRest first (c :: cs) rest } : Dec).step
          = ({ phase := .chunks false, expects := c.length, unbounded := false, buf := c ++ encRest false cs rest }, [], true) := by
        simp only [Dec.step, hne, Bool.false_eq_true, if_false, if_true]
        rw [hbuf, pChunkHeader_enc first c.length _ hcl]
        simp [hcpos]
      rw [hs1]; simp only [if_true, List.append_nil]
      rw [runFuel_succ]
      have hne2 : (c ++ encRest false cs rest).isEmpty = false := by
        cases c with
        | nil => simp at hc
        | cons _ _ => rfl
      have hs2 : ({ phase := .chunks false, expects := c.length, unbounded := false, buf := c ++ encRest false cs rest } : Dec).step
          = ({ phase := .chunks false, expects := 0, unbounded := false, buf := encRest false cs rest }, c, true) := by
        simp only [Dec.step, hne2, Bool.false_eq_true, if_false, hcpos]
        simp [List.length_append, Nat.min_eq_right]
      rw [hs2]; simp only [if_true]
      rw [ih false f (acc ++ c) hlen' (by omega)]
      simp [List.append_assoc]


theorem encodeChunks_length (cs : List Bytes) :
    2 * (cs.filter fun c => !c.isEmpty).length ≤ (encodeChunks cs).length := by
  induction cs with
  | nil => simp [encodeChunks]
  | cons c cs ih =>
    by_cases hc : c.isEmpty
    · simp [encodeChunks, hc, List.filter_cons]; exact ih
    · have hc' : (!c.isEmpty) = true := by simpa using hc
      simp only [encodeChunks, hc, if_false, List.filter_cons, hc', if_true, List.length_cons, List.length_append, crlf]
      simp; omega

/-! ### the frame reader -/

theorem rFeed_acc (seg : Bytes) : ∀ (s : RState) (acc : List RFrame),
    seg.foldl rStep (s, acc) = ((rFeed s seg).1, acc ++ (rFeed s seg).2) := by
  induction seg with
  | nil => intro s acc; simp [rFeed]
  | cons b t ih =>
    intro s acc
    simp only [rFeed, List.foldl_cons]
    rw [ih, ih _ (rStep (s, []) b).2]
    simp only [rStep]
    cases (rByte s b).2 <;> simp [rFeed]

theorem rFeed_append (s : RState) (a b : Bytes) :
    rFeed s (a ++ b) = ((rFeed (rFeed s a).1 b).1, (rFeed s a).2 ++ (rFeed (rFeed s a).1 b).2) := by
  have h := rFeed_acc b (rFeed s a).1 (rFeed s a).2
  simp only [rFeed, List.foldl_append] at h ⊢
  exact h

/-! ### the writer: frames are never interleaved -/

/-- the socket has seen a prefix of the concatenation of the frames started so
    far, and the parked rest completes the last one -/
def WrInv (w : Wr) : Prop := w.out ++ w.cur = w.hist.flatten

theorem drain_spec : ∀ (q : List (List Tok)) (n : Nat),
    (drain n q).2.1 ++ (drain n q).2.2.1 = (drain n q).2.2.2.2.flatten ∧
    (drain n q).2.2.2.2 ++ (drain n q).2.2.2.1 = q := by
  intro q
  induction q with
  | nil => intro n; simp [drain]
  | cons f fs ih =>
    intro n
    unfold drain
    split
    · obtain ⟨h1, h2⟩ := ih (n - f.length)
      refine ⟨?_, ?_⟩
      · simp only [List.flatten_cons, List.append_assoc, h1]
      · simp only [List.cons_append, h2]
    · simp

theorem resume_inv (w : Wr) (n : Nat) (h : WrInv w) : WrInv (resume w n).1 := by
  unfold WrInv resume at *
  simp only [List.append_assoc, List.take_append_drop]
  exact h

theorem startData_inv (w : Wr) (n : Nat) (h : WrInv w) (hc : w.cur = []) : WrInv (startData w n) := by
  unfold WrInv startData at *
  rw [hc, List.append_nil] at h
  simp only [List.flatten_append, List.append_assoc, (drain_spec w.data n).1, h]

theorem streams_inv (w : Wr) (n : Nat) (h : WrInv w) : WrInv (streams w n) := by
  unfold streams
  split
  · next he => exact startData_inv _ _ (resume_inv w n h) (List.isEmpty_iff.mp he)
  · exact resume_inv w n h

theorem startCtrl_inv (w : Wr) (n : Nat) (h : WrInv w) (hc : w.cur = []) : WrInv (startCtrl w n).1 := by
  unfold WrInv startCtrl at *
  rw [hc, List.append_nil] at h
  simp only [hc, List.append_nil, List.flatten_append, List.append_assoc, (drain_spec w.ctrl n).1, h]

theorem afterZero_inv (w : Wr) (n : Nat) (h : WrInv w) : WrInv (afterZero true w n) := by
  unfold afterZero
  split
  · next hg =>
    have hc : w.cur = [] := by
      simp only [Bool.not_true, Bool.or_false, Bool.and_eq_true] at hg
      exact List.isEmpty_iff.mp hg.2
    split
    · exact startCtrl_inv w n h hc
    · exact streams_inv _ _ (startCtrl_inv w n h hc)
  · exact streams_inv w n h

theorem writable_inv (w : Wr) (n : Nat) (h : WrInv w) : WrInv (writable true w n) := by
  unfold writable
  split
  · split
    · apply afterZero_inv
      have := resume_inv w n h
      unfold WrInv at *
      exact this
    · exact resume_inv w n h
  · exact afterZero_inv w n h

theorem wstep_inv (w : Wr) (op : WOp) (h : WrInv w) : WrInv (wstep true w op) := by
  cases op with
  | queueCtrl f => exact h
  | queueData f => exact h
  | writable n => exact writable_inv w n h

theorem wrun_inv (ops : List WOp) : ∀ w : Wr, WrInv w → WrInv (wrun true w ops) := by
  induction ops with
  | nil => intro w h; exact h
  | cons o os ih => intro w h; exact ih _ (wstep_inv w o h)

end Sozu.H1Body
