/-
Writer side of an HTTP/2 connection as far as *frame boundaries* are concerned
(`ConnectionH2::writable`: `flush_pending_control_frames`, then `write_streams`,
lib/src/protocol/mux/h2.rs). The socket takes an arbitrary number of bytes per
writable event; a frame that is only partly on the socket is parked in
`expect_write` (`Zero`: the control-frame buffer, `Other`: a stream's output)
and must be finished before any other frame starts.

A wire byte is a token `(frame id, index)`; `hist` is ghost state: the frames
in the order in which the writer *started* them.
-/
namespace Sozu.H1Body

abbrev Tok := Nat × Nat

structure Wr where
  /-- the unwritten rest of the parked frame (`expect_write.is_some()` iff non-empty) -/
  cur : List Tok
  /-- the parked frame is in the zero buffer (`H2StreamId::Zero`) -/
  curZero : Bool
  /-- `pending_window_updates` (serialised when flushed) -/
  ctrl : List (List Tok)
  /-- prepared stream output, frame by frame, in scheduling order -/
  data : List (List Tok)
  /-- every byte the socket has accepted -/
  out : List Tok
  /-- ghost: frames started so far, in order -/
  hist : List (List Tok)
deriving Repr, DecidableEq

def Wr.init : Wr := { cur := [], curZero := false, ctrl := [], data := [], out := [], hist := [] }

/-- write whole frames while the budget lasts: `(budget left, written, parked rest, frames not started, frames started)` -/
def drain : Nat → List (List Tok) → Nat × List Tok × List Tok × List (List Tok) × List (List Tok)
  | n, [] => (n, [], [], [], [])
  | n, f :: fs =>
    if f.length ≤ n then
      let r := drain (n - f.length) fs
      (r.1, f ++ r.2.1, r.2.2.1, r.2.2.2.1, f :: r.2.2.2.2)
    else (0, f.take n, f.drop n, fs, [f])

/-- push the parked rest of a frame: `(state, budget left)` -/
def resume (w : Wr) (n : Nat) : Wr × Nat :=
  ({ w with out := w.out ++ w.cur.take (min n w.cur.length), cur := w.cur.drop (min n w.cur.length) },
   n - min n w.cur.length)

/-- the WINDOW_UPDATE stage: serialise and write the queued control frames; a
    partial write parks the zero buffer -/
def startCtrl (w : Wr) (n : Nat) : Wr × Nat :=
  ({ w with
      out := w.out ++ (drain n w.ctrl).2.1
      ctrl := (drain n w.ctrl).2.2.2.1
      hist := w.hist ++ (drain n w.ctrl).2.2.2.2
      cur := (drain n w.ctrl).2.2.1 ++ w.cur
      curZero := !(drain n w.ctrl).2.2.1.isEmpty },
   (drain n w.ctrl).1)

def startData (w : Wr) (n : Nat) : Wr :=
  { w with
    out := w.out ++ (drain n w.data).2.1
    cur := (drain n w.data).2.2.1
    data := (drain n w.data).2.2.2.1
    hist := w.hist ++ (drain n w.data).2.2.2.2 }

/-- `write_streams`: the parked stream first, then the others -/
def streams (w : Wr) (n : Nat) : Wr :=
  if (resume w n).1.cur.isEmpty then startData (resume w n).1 (resume w n).2 else (resume w n).1

/-- after the zero buffer is clear. `guard = true` is the code
    (`&& self.expect_write.is_none()` on the WINDOW_UPDATE stage);
    `guard = false` is that stage without its guard. -/
def afterZero (guard : Bool) (w : Wr) (n : Nat) : Wr :=
  if !w.ctrl.isEmpty && (w.cur.isEmpty || !guard) then
    if (startCtrl w n).1.curZero then (startCtrl w n).1 else streams (startCtrl w n).1 (startCtrl w n).2
  else streams w n

/-- one writable event during which the socket accepts at most `n` bytes -/
def writable (guard : Bool) (w : Wr) (n : Nat) : Wr :=
  if w.curZero then
    if (resume w n).1.cur.isEmpty then afterZero guard { (resume w n).1 with curZero := false } (resume w n).2
    else (resume w n).1
  else afterZero guard w n

inductive WOp
  | queueCtrl (f : List Tok)
  | queueData (f : List Tok)
  | writable (n : Nat)
deriving Repr, DecidableEq

def wstep (guard : Bool) (w : Wr) : WOp → Wr
  | .queueCtrl f => { w with ctrl := w.ctrl ++ [f] }
  | .queueData f => { w with data := w.data ++ [f] }
  | .writable n => writable guard w n

def wrun (guard : Bool) (w : Wr) (ops : List WOp) : Wr := ops.foldl (wstep guard) w

end Sozu.H1Body
