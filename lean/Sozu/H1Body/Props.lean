import Sozu.H1Body.Lemmas
/-
C01 — proxied bodies arrive complete, unmodified and in order.
Only property statements (`C01_*`) and their non-vacuity examples live here.
-/
set_option linter.unusedSimpArgs false
set_option linter.unusedVariables false
namespace Sozu.H1Body
open Sozu Sozu.H2Flow

/-! ## (a) the incremental HTTP/2 frame reader -/

/-- For every way of cutting a byte stream into socket reads, the reader ends
    in the same state and yields the same frame list as for a single read. -/
theorem C01_segmentation_independent (s : RState) (segs : List Bytes) :
    rFeedAll s segs = rFeed s segs.flatten := by
  induction segs generalizing s with
  | nil => simp [rFeedAll, rFeed]
  | cons seg segs ih =>
    simp only [rFeedAll, List.flatten_cons]
    rw [rFeed_append, ih]

example : (rFeedAll (.hdr []) [[0, 0], [2, 0, 1, 0, 0], [0, 1, 7], [8]]).2 = [⟨0, 1, 1, [7, 8]⟩] := by decide

/-! ## (b) DATA emission over any credit schedule -/

/-- a schedule of write passes for one stream: `(max_frame_size, window, incremental)` -/
def passes (sid : Nat) : KState → List (Nat × Int × Bool) → List Frame × KState
  | k, [] => ([], k)
  | k, (m, w, i) :: rest =>
    let r := prepare { mfs := m, window := w, sid := sid, out := [], incr := i, abort := false } k
    ((r.2.1 ++ (passes sid r.2.2 rest).1), (passes sid r.2.2 rest).2)

theorem passes_dead (sid : Nat) (sched : List (Nat × Int × Bool)) :
    ∀ k : KState, k.dead = true → (passes sid k sched).2.dead = true := by
  induction sched with
  | nil => intro k h; exact h
  | cons p ps ih =>
    intro k h
    obtain ⟨m, w, i⟩ := p
    simp only [passes]
    exact ih _ (prepare_dead _ k h)

/-- Over any schedule of windows, frame sizes and yields (stalls, negative
    windows, 1-byte drips included), as long as the stream is not reset: what
    went out so far — DATA payload bytes in order, and END_STREAM marks —
    followed by what is still queued is exactly what was queued. So the
    concatenation of DATA payloads is a prefix of the body, nothing is
    duplicated or reordered, and END_STREAM comes exactly where it was queued. -/
theorem C01_data_concat (sid : Nat) (sched : List (Nat × Int × Bool)) :
    ∀ k : KState, k.dead = false → (passes sid k sched).2.dead = false →
      events (passes sid k sched).1 ++ eventsB (passes sid k sched).2.blocks = eventsB k.blocks := by
  induction sched with
  | nil => intro k _ _; simp [passes]
  | cons p ps ih =>
    intro k hd hend
    obtain ⟨m, w, i⟩ := p
    simp only [passes] at hend ⊢
    have hmid : (prepare { mfs := m, window := w, sid := sid, out := [], incr := i, abort := false } k).2.2.dead = false := by
      cases h : (prepare { mfs := m, window := w, sid := sid, out := [], incr := i, abort := false } k).2.2.dead with
      | false => rfl
      | true => rw [passes_dead sid ps _ h] at hend; cases hend
    have h1 := prepare_events { mfs := m, window := w, sid := sid, out := [], incr := i, abort := false } k hd hmid
    have h2 := ih _ hmid hend
    rw [events_append, List.append_assoc, h2, h1]

/-- …and under fair credit the whole body: a final non-incremental pass whose
    window covers what is still queued leaves nothing behind — every body byte
    and the END_STREAM mark are on the wire, in order. -/
theorem C01_data_concat_complete (sid : Nat) (sched : List (Nat × Int × Bool)) (k : KState) (m : Nat) (w : Int)
    (hd : k.dead = false) (hm : 0 < m)
    (hw : (bodyLen (passes sid k sched).2.blocks : Int) ≤ w)
    (hend : (passes sid k (sched ++ [(m, w, false)])).2.dead = false) :
    events (passes sid k (sched ++ [(m, w, false)])).1 = eventsB k.blocks := by
  have happ : ∀ (sc : List (Nat × Int × Bool)) (k0 : KState),
      passes sid k0 (sc ++ [(m, w, false)]) =
        ((passes sid k0 sc).1 ++ (prepare { mfs := m, window := w, sid := sid, out := [], incr := false, abort := false } (passes sid k0 sc).2).2.1,
         (prepare { mfs := m, window := w, sid := sid, out := [], incr := false, abort := false } (passes sid k0 sc).2).2.2) := by
    intro sc
    induction sc with
    | nil => intro k0; simp [passes]
    | cons p ps ih =>
      intro k0
      obtain ⟨m', w', i'⟩ := p
      simp only [passes, List.cons_append, ih, List.append_assoc]
  have hall := C01_data_concat sid (sched ++ [(m, w, false)]) k hd hend
  rw [happ] at hend hall ⊢
  simp only at hend hall ⊢
  have hmid : (passes sid k sched).2.dead = false := by
    cases h : (passes sid k sched).2.dead with
    | false => rfl
    | true => rw [prepare_dead _ _ h] at hend; cases hend
  have hdr := prepare_drain { mfs := m, window := w, sid := sid, out := [], incr := false, abort := false }
    (passes sid k sched).2 hm rfl rfl hmid hw hend
  rw [hdr] at hall
  simpa using hall

example : events (passes 1 ⟨[.chunk [1, 2, 3, 4, 5], .flags false true], false⟩
    [(2, 3, false), (2, 0, false), (2, -4, true), (16384, 10, false)]).1 = [some 1, some 2, some 3, some 4, some 5, none] := by
  decide

/-! ## (c) HTTP/1 body framings -/

/-- Content-Length: the decoder hands over exactly the first `n` bytes, ends the
    message there and leaves every later byte (a pipelined request) untouched. -/
theorem C01_length_exact (body rest : Bytes) :
    (Dec.start (.length body.length)).feed (body ++ rest) =
      ({ phase := .done, expects := 0, unbounded := false, buf := rest }, body) := by
  cases hb : body with
  | nil =>
    simp only [List.length_nil, Dec.start, Dec.feed, List.nil_append, Dec.run]
    rw [runFuel_succ]
    have : ({ phase := .done, expects := 0, unbounded := false, buf := rest } : Dec).step
        = ({ phase := .done, expects := 0, unbounded := false, buf := rest }, [], false) := by
      simp only [Dec.step]; split <;> rfl
    rw [this]; simp
  | cons x xs =>
    have hn : (x :: xs).length = xs.length + 1 := rfl
    simp only [hn, Dec.start, Dec.feed, List.nil_append, Dec.run, List.cons_append, List.length_cons]
    rw [runFuel_succ]
    have hs1 : ({ phase := .body, expects := xs.length + 1, unbounded := false, buf := x :: (xs ++ rest) } : Dec).step
        = ({ phase := .done, expects := 0, unbounded := false, buf := rest }, x :: xs, true) := by
      simp only [Dec.step, List.isEmpty_cons, Bool.false_eq_true, if_false, List.length_cons, List.length_append]
      have hmin : min (xs.length + rest.length + 1) (xs.length + 1) = xs.length + 1 := by omega
      simp [hmin, List.take_append_of_le_length, List.drop_append_of_le_length]
    rw [hs1]; simp only [if_true, List.nil_append]
    rw [runFuel_succ]
    have : ({ phase := .done, expects := 0, unbounded := false, buf := rest } : Dec).step
        = ({ phase := .done, expects := 0, unbounded := false, buf := rest }, [], false) := by
      simp only [Dec.step]; split <;> rfl
    rw [this]; simp

/-- chunked: for arbitrary chunk sizes (empty chunks are not sent), decoding the
    encoder's output gives back the concatenation of the chunks, and the decoder
    stops exactly after the terminating empty line: whatever follows is left
    untouched. -/
theorem C01_chunked_roundtrip (cs : List Bytes) (rest : Bytes) (hlen : ∀ c ∈ cs, c.length < 2 ^ 64) :
    (Dec.start .chunked).feed (encodeChunked cs ++ rest) =
      ({ phase := .done, expects := 0, unbounded := false, buf := rest }, cs.flatten) := by
  simp only [Dec.start, Dec.feed, List.nil_append, Dec.run]
  have hl := encodeChunks_length cs
  have hfuel : 2 * (cs.filter fun c => !c.isEmpty).length + 3 ≤ (encodeChunked cs ++ rest).length + 2 := by
    simp only [encodeChunked, List.length_append, crlf, List.length_cons, List.length_nil]; omega
  have := runFuel_chunked rest cs true ((encodeChunked cs ++ rest).length + 2) [] hlen hfuel
  rw [← encodeChunked_encRest] at this
  simpa using this

example : (Dec.start .chunked).feed (encodeChunked [[65, 66, 67], [], [68]] ++ [71, 69, 84]) =
    ({ phase := .done, expects := 0, unbounded := false, buf := [71, 69, 84] }, [65, 66, 67, 68]) := by decide

/-! ## (d) the front/back pairs compose to the identity on bodies (model level) -/

/-- the block queue sozu holds for a message whose body was parsed as the pieces `cs` -/
def queueOf (cs : List Bytes) : List Block := cs.map Block.chunk ++ [Block.flags false true]

theorem eventsB_queueOf (cs : List Bytes) : eventsB (queueOf cs) = cs.flatten.map some ++ [none] := by
  unfold queueOf
  induction cs with
  | nil => simp [eventsB, blockEvents]
  | cons c cs ih =>
    simp only [List.map_cons, List.cons_append, eventsB_cons, blockEvents, ih, List.flatten_cons, List.map_append,
      List.append_assoc]

/-- HTTP/1 → HTTP/1: the sender's chunking `cs` is decoded to the body; however
    the proxy re-chunks that body (`cs'`, any pieces with the same
    concatenation) or re-sends it with its length, the receiver decodes the
    same bytes and a pipelined follower `rest` stays intact. -/
theorem C01_pair_composition_h1_h1 (cs cs' : List Bytes) (rest : Bytes)
    (hlen : ∀ c ∈ cs, c.length < 2 ^ 64) (hlen' : ∀ c ∈ cs', c.length < 2 ^ 64)
    (hre : cs'.flatten = ((Dec.start .chunked).feed (encodeChunked cs)).2) :
    (Dec.start .chunked).feed (encodeChunked cs' ++ rest) =
      ({ phase := .done, expects := 0, unbounded := false, buf := rest }, cs.flatten) ∧
    (Dec.start (.length cs'.flatten.length)).feed (cs'.flatten ++ rest) =
      ({ phase := .done, expects := 0, unbounded := false, buf := rest }, cs.flatten) := by
  have h0 := C01_chunked_roundtrip cs [] hlen
  rw [List.append_nil] at h0
  rw [h0] at hre
  simp only at hre
  refine ⟨by rw [C01_chunked_roundtrip cs' rest hlen', hre], by rw [C01_length_exact, hre]⟩

/-- HTTP/1 → HTTP/2: the decoded body, queued in whatever pieces the parser
    produced, leaves as DATA payloads + END_STREAM equal to the sender's body,
    under every credit schedule that ends with a fair pass. -/
theorem C01_pair_composition_h1_h2 (cs pieces : List Bytes) (sid : Nat) (sched : List (Nat × Int × Bool)) (m : Nat) (w : Int)
    (hlen : ∀ c ∈ cs, c.length < 2 ^ 64)
    (hp : pieces.flatten = ((Dec.start .chunked).feed (encodeChunked cs)).2)
    (hm : 0 < m) (hw : (bodyLen (passes sid ⟨queueOf pieces, false⟩ sched).2.blocks : Int) ≤ w)
    (hend : (passes sid ⟨queueOf pieces, false⟩ (sched ++ [(m, w, false)])).2.dead = false) :
    events (passes sid ⟨queueOf pieces, false⟩ (sched ++ [(m, w, false)])).1 = cs.flatten.map some ++ [none] := by
  have h0 := C01_chunked_roundtrip cs [] hlen
  rw [List.append_nil] at h0
  rw [h0] at hp
  simp only at hp
  rw [C01_data_concat_complete sid sched ⟨queueOf pieces, false⟩ m w rfl hm hw hend, eventsB_queueOf, hp]

/-- HTTP/2 → HTTP/1: the bytes carried by the DATA frames, re-framed with chunks
    or a length, decode to the same bytes. -/
theorem C01_pair_composition_h2_h1 (body rest : Bytes) (pieces : List Bytes) (hf : pieces.flatten = body)
    (hlen : ∀ c ∈ pieces, c.length < 2 ^ 64) :
    ((Dec.start .chunked).feed (encodeChunked pieces ++ rest)) =
      ({ phase := .done, expects := 0, unbounded := false, buf := rest }, body) ∧
    ((Dec.start (.length body.length)).feed (body ++ rest)) =
      ({ phase := .done, expects := 0, unbounded := false, buf := rest }, body) :=
  ⟨by rw [C01_chunked_roundtrip pieces rest hlen, hf], C01_length_exact body rest⟩

/-- HTTP/2 → HTTP/2: however the incoming byte stream is cut into reads, the
    reader delivers the same frames (a), and what those frames queue leaves
    again unchanged and in order under every schedule ending with a fair pass (b). -/
theorem C01_pair_composition_h2_h2 (segs : List Bytes) (pieces : List Bytes) (sid : Nat)
    (sched : List (Nat × Int × Bool)) (m : Nat) (w : Int) (hm : 0 < m)
    (hw : (bodyLen (passes sid ⟨queueOf pieces, false⟩ sched).2.blocks : Int) ≤ w)
    (hend : (passes sid ⟨queueOf pieces, false⟩ (sched ++ [(m, w, false)])).2.dead = false) :
    rFeedAll (.hdr []) segs = rFeed (.hdr []) segs.flatten ∧
    events (passes sid ⟨queueOf pieces, false⟩ (sched ++ [(m, w, false)])).1 = pieces.flatten.map some ++ [none] :=
  ⟨C01_segmentation_independent _ segs,
   by rw [C01_data_concat_complete sid sched ⟨queueOf pieces, false⟩ m w rfl hm hw hend, eventsB_queueOf]⟩


/-! ## (e) frames are written whole -/

/-- For every interleaving of queued WINDOW_UPDATEs, prepared stream frames and
    writable events in which the socket takes any number of bytes (short writes
    in the middle of a frame included): the bytes on the socket, followed by the
    parked rest of the frame being written, are exactly the concatenation of the
    frames started so far — no frame (in particular no control frame) ever
    starts inside another one. This is what the `expect_write.is_none()` guard
    of the WINDOW_UPDATE stage buys. -/
theorem C01_frames_not_interleaved (ops : List WOp) :
    (wrun true Wr.init ops).out ++ (wrun true Wr.init ops).cur = (wrun true Wr.init ops).hist.flatten :=
  wrun_inv ops Wr.init (by simp [WrInv, Wr.init])

/-- without that guard the statement is false: two bytes of a DATA frame, then
    a queued control frame in the middle of it -/
theorem C01_frames_not_interleaved_needs_guard :
    let ops := [WOp.queueData [(1, 0), (1, 1), (1, 2), (1, 3)], .writable 2, .queueCtrl [(9, 0), (9, 1)], .writable 10]
    (wrun false Wr.init ops).out = [(1, 0), (1, 1), (9, 0), (9, 1), (1, 2), (1, 3)] ∧
    (wrun true Wr.init ops).out = [(1, 0), (1, 1), (1, 2), (1, 3)] ∧
    (wrun true Wr.init (ops ++ [.writable 10])).out = [(1, 0), (1, 1), (1, 2), (1, 3), (9, 0), (9, 1)] := by
  decide


end Sozu.H1Body
