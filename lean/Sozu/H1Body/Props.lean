
import Sozu.H1Body.Socket
/-
C01 — proxied bodies arrive complete, unmodified and in order.
Only property statements (`C01_*`) and their non-vacuity examples live here.
-/
set_option linter.unusedSimpArgs false
set_option linter.unusedVariables false
namespace Sozu.H1Body
open Sozu Sozu.H2Flow

/-! ## (a) the incremental HTTP/2 frame reader -/

/-- For every way of cutting a byte stream into socket reads, the reader ends
    in the same state and yields the same frame list as for a single read. -/
theorem C01_segmentation_independent (s : RState) (segs : List Bytes) :
    rFeedAll s segs = rFeed s segs.flatten :=
  C01_segmentation_independent_pf s segs

example : (rFeedAll (.hdr []) [[0, 0], [2, 0, 1, 0, 0], [0, 1, 7], [8]]).2 = [⟨0, 1, 1, [7, 8]⟩] := by decide

/-! ## (b) DATA emission over any credit schedule -/

/-- Over any schedule of windows, frame sizes and yields (stalls, negative
    windows, 1-byte drips included), as long as the stream is not reset: what
    went out so far — DATA payload bytes in order, and END_STREAM marks —
    followed by what is still queued is exactly what was queued. So the
    concatenation of DATA payloads is a prefix of the body, nothing is
    duplicated or reordered, and END_STREAM comes exactly where it was queued. -/
theorem C01_data_concat (sid : Nat) (sched : List (Nat × Int × Bool)) :
    ∀ k : KState, k.dead = false → (passes sid k sched).2.dead = false →
      events (passes sid k sched).1 ++ eventsB (passes sid k sched).2.blocks = eventsB k.blocks :=
  C01_data_concat_pf sid sched

/-- …and under fair credit the whole body: a final non-incremental pass whose
    window covers what is still queued leaves nothing behind — every body byte
    and the END_STREAM mark are on the wire, in order. -/
theorem C01_data_concat_complete (sid : Nat) (sched : List (Nat × Int × Bool)) (k : KState) (m : Nat) (w : Int)
    (hd : k.dead = false) (hm : 0 < m)
    (hw : (bodyLen (passes sid k sched).2.blocks : Int) ≤ w)
    (hend : (passes sid k (sched ++ [(m, w, false)])).2.dead = false) :
    events (passes sid k (sched ++ [(m, w, false)])).1 = eventsB k.blocks :=
  C01_data_concat_complete_pf sid sched k m w hd hm hw hend

example : events (passes 1 ⟨[.chunk [1, 2, 3, 4, 5], .flags false true], false⟩
    [(2, 3, false), (2, 0, false), (2, -4, true), (16384, 10, false)]).1 = [some 1, some 2, some 3, some 4, some 5, none] := by
  decide

/-! ## (c) HTTP/1 body framings -/

/-- Content-Length: the decoder hands over exactly the first `n` bytes, ends the
    message there and leaves every later byte (a pipelined request) untouched. -/
theorem C01_length_exact (body rest : Bytes) :
    (Dec.start (.length body.length)).feed (body ++ rest) =
      ({ phase := .done, expects := 0, unbounded := false, buf := rest }, body) :=
  C01_length_exact_pf body rest

/-- chunked: for arbitrary chunk sizes (empty chunks are not sent), decoding the
    encoder's output gives back the concatenation of the chunks, and the decoder
    stops exactly after the terminating empty line: whatever follows is left
    untouched. -/
theorem C01_chunked_roundtrip (cs : List Bytes) (rest : Bytes) (hlen : ∀ c ∈ cs, c.length < 2 ^ 64) :
    (Dec.start .chunked).feed (encodeChunked cs ++ rest) =
      ({ phase := .done, expects := 0, unbounded := false, buf := rest }, cs.flatten) :=
  C01_chunked_roundtrip_pf cs rest hlen

example : (Dec.start .chunked).feed (encodeChunked [[65, 66, 67], [], [68]] ++ [71, 69, 84]) =
    ({ phase := .done, expects := 0, unbounded := false, buf := [71, 69, 84] }, [65, 66, 67, 68]) := by decide

/-! ## (d) the front/back pairs compose to the identity on bodies (model level) -/

/-- HTTP/1 → HTTP/1: the sender's chunking `cs` is decoded to the body; however
    the proxy re-chunks that body (`cs'`, any pieces with the same
    concatenation) or re-sends it with its length, the receiver decodes the
    same bytes and a pipelined follower `rest` stays intact. -/
theorem C01_pair_composition_h1_h1 (cs cs' : List Bytes) (rest : Bytes)
    (hlen : ∀ c ∈ cs, c.length < 2 ^ 64) (hlen' : ∀ c ∈ cs', c.length < 2 ^ 64)
    (hre : cs'.flatten = ((Dec.start .chunked).feed (encodeChunked cs)).2) :
    (Dec.start .chunked).feed (encodeChunked cs' ++ rest) =
      ({ phase := .done, expects := 0, unbounded := false, buf := rest }, cs.flatten) ∧
    (Dec.start (.length cs'.flatten.length)).feed (cs'.flatten ++ rest) =
      ({ phase := .done, expects := 0, unbounded := false, buf := rest }, cs.flatten) :=
  C01_pair_composition_h1_h1_pf cs cs' rest hlen hlen' hre

/-- HTTP/1 → HTTP/2: the decoded body, queued in whatever pieces the parser
    produced, leaves as DATA payloads + END_STREAM equal to the sender's body,
    under every credit schedule that ends with a fair pass. -/
theorem C01_pair_composition_h1_h2 (cs pieces : List Bytes) (sid : Nat) (sched : List (Nat × Int × Bool)) (m : Nat) (w : Int)
    (hlen : ∀ c ∈ cs, c.length < 2 ^ 64)
    (hp : pieces.flatten = ((Dec.start .chunked).feed (encodeChunked cs)).2)
    (hm : 0 < m) (hw : (bodyLen (passes sid ⟨queueOf pieces, false⟩ sched).2.blocks : Int) ≤ w)
    (hend : (passes sid ⟨queueOf pieces, false⟩ (sched ++ [(m, w, false)])).2.dead = false) :
    events (passes sid ⟨queueOf pieces, false⟩ (sched ++ [(m, w, false)])).1 = cs.flatten.map some ++ [none] :=
  C01_pair_composition_h1_h2_pf cs pieces sid sched m w hlen hp hm hw hend

/-- HTTP/2 → HTTP/1: the bytes carried by the DATA frames, re-framed with chunks
    or a length, decode to the same bytes. -/
theorem C01_pair_composition_h2_h1 (body rest : Bytes) (pieces : List Bytes) (hf : pieces.flatten = body)
    (hlen : ∀ c ∈ pieces, c.length < 2 ^ 64) :
    ((Dec.start .chunked).feed (encodeChunked pieces ++ rest)) =
      ({ phase := .done, expects := 0, unbounded := false, buf := rest }, body) ∧
    ((Dec.start (.length body.length)).feed (body ++ rest)) =
      ({ phase := .done, expects := 0, unbounded := false, buf := rest }, body) :=
  ⟨by rw [C01_chunked_roundtrip pieces rest hlen, hf], C01_length_exact body rest⟩

/-- HTTP/2 → HTTP/2: however the incoming byte stream is cut into reads, the
    reader delivers the same frames (a), and what those frames queue leaves
    again unchanged and in order under every schedule ending with a fair pass (b). -/
theorem C01_pair_composition_h2_h2 (segs : List Bytes) (pieces : List Bytes) (sid : Nat)
    (sched : List (Nat × Int × Bool)) (m : Nat) (w : Int) (hm : 0 < m)
    (hw : (bodyLen (passes sid ⟨queueOf pieces, false⟩ sched).2.blocks : Int) ≤ w)
    (hend : (passes sid ⟨queueOf pieces, false⟩ (sched ++ [(m, w, false)])).2.dead = false) :
    rFeedAll (.hdr []) segs = rFeed (.hdr []) segs.flatten ∧
    events (passes sid ⟨queueOf pieces, false⟩ (sched ++ [(m, w, false)])).1 = pieces.flatten.map some ++ [none] :=
  ⟨C01_segmentation_independent _ segs,
   by rw [C01_data_concat_complete sid sched ⟨queueOf pieces, false⟩ m w rfl hm hw hend, eventsB_queueOf]⟩


/-! ## (e) frames are written whole -/

/-- For every interleaving of queued WINDOW_UPDATEs, prepared stream frames and
    writable events in which the socket takes any number of bytes (short writes
    in the middle of a frame included): the bytes on the socket, followed by the
    parked rest of the frame being written, are exactly the concatenation of the
    frames started so far — no frame (in particular no control frame) ever
    starts inside another one. This is what the `expect_write.is_none()` guard
    of the WINDOW_UPDATE stage buys. -/
theorem C01_frames_not_interleaved (ops : List WOp) :
    (wrun true Wr.init ops).out ++ (wrun true Wr.init ops).cur = (wrun true Wr.init ops).hist.flatten :=
  wrun_inv ops Wr.init (by simp [WrInv, Wr.init])

/-- without that guard the statement is false: two bytes of a DATA frame, then
    a queued control frame in the middle of it -/
theorem C01_frames_not_interleaved_needs_guard :
    let ops := [WOp.queueData [(1, 0), (1, 1), (1, 2), (1, 3)], .writable 2, .queueCtrl [(9, 0), (9, 1)], .writable 10]
    (wrun false Wr.init ops).out = [(1, 0), (1, 1), (9, 0), (9, 1), (1, 2), (1, 3)] ∧
    (wrun true Wr.init ops).out = [(1, 0), (1, 1), (1, 2), (1, 3)] ∧
    (wrun true Wr.init (ops ++ [.writable 10])).out = [(1, 0), (1, 1), (1, 2), (1, 3), (9, 0), (9, 1)] := by
  decide


/-! ## (f) the byte stream on the socket -/

/-- Converter output and writer composed, any moment of any run. The frames a
    schedule of passes produced for a stream (`passes`, as in `C01_data_concat`)
    are serialised (`encodeFrame`) and queued for the writer, interleaved in any
    way with queued control frames `C` and with writable events in which the
    socket takes any number of bytes (short writes inside a frame included).
    Then the bytes the socket has accepted, followed by the parked rest of the
    frame being written, are exactly the serialisation of whole frames `M`,
    where `M` interleaves a prefix of the control frames and a prefix of the
    stream's frames, each in its own order; what is not started yet is still in
    its queue (and when a queue is empty, all of its frames are in `M`). -/
theorem C01_socket_stream (sid : Nat) (k : KState) (sched : List (Nat × Int × Bool)) (C : List RFrame) (ops : List WOp)
    (hdata : dataOf ops = ((passes sid k sched).1.map toR).map wire) (hctrl : ctrlOf ops = C.map wire) :
    ∃ sc sd M, Merge sc sd M ∧ (∃ rc, sc ++ rc = C) ∧ (∃ rd, sd ++ rd = (passes sid k sched).1.map toR) ∧
      bytesOf ((wrun true Wr.init ops).out ++ (wrun true Wr.init ops).cur) = (M.map encodeFrame).flatten ∧
      ((wrun true Wr.init ops).ctrl = [] → sc = C) ∧
      ((wrun true Wr.init ops).data = [] → sd = (passes sid k sched).1.map toR) :=
  socket_stream sid _ C ops hdata hctrl

/-- …and what the peer reads from that socket. Once the writer has flushed, for
    EVERY way the peer's reads cut the byte stream (`segs`): its frame reader
    ends between two frames and delivers exactly the frames `M` — all control
    frames and all frames of the stream, each sequence in its order, none torn,
    none duplicated — and the stream's DATA payload bytes and END_STREAM marks
    in them, followed by what sozu still has queued, are exactly the body that
    was queued. (Reader, writer, converter and credit schedule in one statement;
    the frame round trip `rFeed ∘ encodeFrame` is part of it. Frame sizes must be
    legal, < 2^24, and the stream id must fit 31 bits; control frames are
    well-formed and carry no DATA/HEADERS of this stream.) -/
theorem C01_socket_stream_read (sid : Nat) (hsid : sid < 2 ^ 31) (k : KState) (sched : List (Nat × Int × Bool))
    (C : List RFrame) (ops : List WOp) (segs : List Bytes)
    (hd : k.dead = false) (hend : (passes sid k sched).2.dead = false) (hmfs : ∀ p ∈ sched, p.1 < 2 ^ 24)
    (hdata : dataOf ops = ((passes sid k sched).1.map toR).map wire) (hctrl : ctrlOf ops = C.map wire)
    (hwfC : ∀ f ∈ C, WF f) (hsilent : ∀ f ∈ C, rEvents sid [f] = [])
    (hflushed : (wrun true Wr.init ops).cur = [] ∧ (wrun true Wr.init ops).ctrl = [] ∧ (wrun true Wr.init ops).data = [])
    (hsegs : segs.flatten = bytesOf (wrun true Wr.init ops).out) :
    ∃ M, Merge C ((passes sid k sched).1.map toR) M ∧ rFeedAll (.hdr []) segs = (.hdr [], M) ∧
      rEvents sid M ++ eventsB (passes sid k sched).2.blocks = eventsB k.blocks :=
  socket_stream_read sid hsid k sched C ops segs hd hend hmfs hdata hctrl hwfC hsilent hflushed hsegs

/-- non-vacuity: a 3-byte body in two passes (window 2, then 5), a connection
    WINDOW_UPDATE queued in between, three short writes; the peer reads the
    socket in two pieces cut inside the first frame header -/
example :
    let k : KState := ⟨[.chunk [7, 8, 9], .flags false true], false⟩
    let sched : List (Nat × Int × Bool) := [(16384, 2, false), (16384, 5, false)]
    let d0 : RFrame := ⟨0, 0, 1, [7, 8]⟩
    let d1 : RFrame := ⟨0, 0, 1, [9]⟩
    let d2 : RFrame := ⟨0, 1, 1, []⟩
    let wu : RFrame := ⟨8, 0, 0, [0, 0, 0, 9]⟩
    let ops := [WOp.queueData (wire d0), .writable 5, .writable 100, .queueCtrl (wire wu), .queueData (wire d1),
                .queueData (wire d2), .writable 15, .writable 100]
    (passes 1 k sched).1.map toR = [d0, d1, d2] ∧
    dataOf ops = [d0, d1, d2].map wire ∧ ctrlOf ops = [wu].map wire ∧
    (wrun true Wr.init ops).cur = [] ∧ (wrun true Wr.init ops).ctrl = [] ∧ (wrun true Wr.init ops).data = [] ∧
    (rFeedAll (.hdr []) [(bytesOf (wrun true Wr.init ops).out).take 4, (bytesOf (wrun true Wr.init ops).out).drop 4]).2
      = [d0, wu, d1, d2] ∧
    rEvents 1 (rFeed (.hdr []) (bytesOf (wrun true Wr.init ops).out)).2 = [some 7, some 8, some 9, none] := by
  decide +kernel


end Sozu.H1Body
