import Sozu.H1Body.Proofs
/-
The byte stream on the socket of an HTTP/2 connection: converter output
(`passes`, Sozu/H2Flow) serialised frame by frame (`encodeFrame`), handed to the
writer state machine (`Wr`, short writes, queued control frames), and read back
by the peer's incremental frame reader (`rFeedAll`, any segmentation).
-/
set_option linter.unusedSimpArgs false
set_option linter.unusedVariables false
namespace Sozu.H1Body
open Sozu Sozu.H2Flow

/-! ### order-preserving interleavings -/

inductive Merge {α : Type} : List α → List α → List α → Prop
  | nil : Merge [] [] []
  | left (x : α) {a b m : List α} : Merge a b m → Merge (x :: a) b (x :: m)
  | right (x : α) {a b m : List α} : Merge a b m → Merge a (x :: b) (x :: m)

theorem merge_left_only {α : Type} : ∀ x : List α, Merge x [] x
  | [] => .nil
  | a :: t => .left a (merge_left_only t)

theorem merge_right_only {α : Type} : ∀ x : List α, Merge [] x x
  | [] => .nil
  | a :: t => .right a (merge_right_only t)

theorem merge_append_left {α : Type} {a b m : List α} (h : Merge a b m) (x : List α) : Merge (a ++ x) b (m ++ x) := by
  induction h with
  | nil => simpa using merge_left_only x
  | left y _ ih => exact .left y ih
  | right y _ ih => exact .right y ih

theorem merge_append_right {α : Type} {a b m : List α} (h : Merge a b m) (x : List α) : Merge a (b ++ x) (m ++ x) := by
  induction h with
  | nil => simpa using merge_right_only x
  | left y _ ih => exact .left y ih
  | right y _ ih => exact .right y ih

theorem merge_unmap {α β : Type} (g : α → β) {a b h : List β} (hm : Merge a b h) :
    ∀ (C D : List α), a = C.map g → b = D.map g → ∃ M, Merge C D M ∧ h = M.map g := by
  induction hm with
  | nil =>
    intro C D hC hD
    have hC' : C = [] := List.map_eq_nil_iff.mp hC.symm
    have hD' : D = [] := List.map_eq_nil_iff.mp hD.symm
    subst hC'; subst hD'
    exact ⟨[], .nil, rfl⟩
  | left x _ ih =>
    intro C D hC hD
    cases C with
    | nil => simp at hC
    | cons c C' =>
      simp only [List.map_cons, List.cons.injEq] at hC
      obtain ⟨M, hM, hh⟩ := ih C' D hC.2 hD
      exact ⟨c :: M, .left c hM, by simp [hC.1, hh]⟩
  | right x _ ih =>
    intro C D hC hD
    cases D with
    | nil => simp at hD
    | cons d D' =>
      simp only [List.map_cons, List.cons.injEq] at hD
      obtain ⟨M, hM, hh⟩ := ih C D' hC hD.2
      exact ⟨d :: M, .right d hM, by simp [hD.1, hh]⟩

/-! ### the writer starts queued frames in order -/

def ctrlOf : List WOp → List (List Tok)
  | [] => []
  | .queueCtrl f :: os => f :: ctrlOf os
  | _ :: os => ctrlOf os

def dataOf : List WOp → List (List Tok)
  | [] => []
  | .queueData f :: os => f :: dataOf os
  | _ :: os => dataOf os

/-- the frames started so far interleave a prefix of the control frames queued
    (`qc`) and a prefix of the stream frames queued (`qd`), each in its order;
    the rest is still waiting in its queue -/
def WrOrd (w : Wr) (qc qd : List (List Tok)) : Prop :=
  ∃ sc sd, Merge sc sd w.hist ∧ sc ++ w.ctrl = qc ∧ sd ++ w.data = qd

theorem resume_ord (w : Wr) (n : Nat) (qc qd) (h : WrOrd w qc qd) : WrOrd (resume w n).1 qc qd := h

theorem startData_ord (w : Wr) (n : Nat) (qc qd) (h : WrOrd w qc qd) : WrOrd (startData w n) qc qd := by
  obtain ⟨sc, sd, hm, h1, h2⟩ := h
  refine ⟨sc, sd ++ (drain n w.data).2.2.2.2, merge_append_right hm _, h1, ?_⟩
  simp only [startData, List.append_assoc, (drain_spec w.data n).2, h2]

theorem startCtrl_ord (w : Wr) (n : Nat) (qc qd) (h : WrOrd w qc qd) : WrOrd (startCtrl w n).1 qc qd := by
  obtain ⟨sc, sd, hm, h1, h2⟩ := h
  refine ⟨sc ++ (drain n w.ctrl).2.2.2.2, sd, merge_append_left hm _, ?_, h2⟩
  simp only [startCtrl, List.append_assoc, (drain_spec w.ctrl n).2, h1]

theorem streams_ord (w : Wr) (n : Nat) (qc qd) (h : WrOrd w qc qd) : WrOrd (streams w n) qc qd := by
  unfold streams
  split
  · exact startData_ord _ _ _ _ (resume_ord w n _ _ h)
  · exact resume_ord w n _ _ h

theorem afterZero_ord (g : Bool) (w : Wr) (n : Nat) (qc qd) (h : WrOrd w qc qd) : WrOrd (afterZero g w n) qc qd := by
  unfold afterZero
  split
  · split
    · exact startCtrl_ord w n _ _ h
    · exact streams_ord _ _ _ _ (startCtrl_ord w n _ _ h)
  · exact streams_ord w n _ _ h

theorem writable_ord (g : Bool) (w : Wr) (n : Nat) (qc qd) (h : WrOrd w qc qd) : WrOrd (writable g w n) qc qd := by
  unfold writable
  split
  · split
    · exact afterZero_ord g _ _ _ _ (resume_ord w n _ _ h)
    · exact resume_ord w n _ _ h
  · exact afterZero_ord g w n _ _ h

theorem wrun_ord (g : Bool) : ∀ (ops : List WOp) (w : Wr) (qc qd : List (List Tok)), WrOrd w qc qd →
    WrOrd (wrun g w ops) (qc ++ ctrlOf ops) (qd ++ dataOf ops) := by
  intro ops
  induction ops with
  | nil => intro w qc qd h; simpa [wrun, ctrlOf, dataOf] using h
  | cons o os ih =>
    intro w qc qd h
    have hstep : wrun g w (o :: os) = wrun g (wstep g w o) os := rfl
    rw [hstep]
    cases o with
    | queueCtrl f =>
      obtain ⟨sc, sd, hm, h1, h2⟩ := h
      have := ih (wstep g w (.queueCtrl f)) (qc ++ [f]) qd ⟨sc, sd, hm, by simp [wstep, ← h1], h2⟩
      simpa [ctrlOf, dataOf] using this
    | queueData f =>
      obtain ⟨sc, sd, hm, h1, h2⟩ := h
      have := ih (wstep g w (.queueData f)) qc (qd ++ [f]) ⟨sc, sd, hm, h1, by simp [wstep, ← h2]⟩
      simpa [ctrlOf, dataOf] using this
    | writable n =>
      have := ih (wstep g w (.writable n)) qc qd (writable_ord g w n _ _ h)
      simpa [ctrlOf, dataOf] using this

/-! ### serialisation and the reader -/

/-- a frame the 9-byte header can carry -/
def WF (f : RFrame) : Prop := f.payload.length < 2 ^ 24 ∧ f.ty < 256 ∧ f.flags < 256 ∧ f.sid < 2 ^ 31

theorem rFeed_body (ty fl sid need : Nat) : ∀ (p acc : Bytes), p ≠ [] → acc.length + p.length = need →
    rFeed (.body ty fl sid need acc) p = (.hdr [], [⟨ty, fl, sid, acc ++ p⟩]) := by
  intro p
  induction p with
  | nil => intro acc h; exact absurd rfl h
  | cons b t ih =>
    intro acc _ hlen
    have hc : rFeed (.body ty fl sid need acc) (b :: t) = rFeed (.body ty fl sid need acc) ([b] ++ t) := rfl
    rw [hc, rFeed_append]
    cases t with
    | nil =>
      have : acc.length + 1 = need := by simpa using hlen
      simp [rFeed, rStep, rByte, this]
    | cons b2 t2 =>
      have hne : ¬ acc.length + 1 = need := by simp only [List.length_cons] at hlen; omega
      have h1 : rFeed (.body ty fl sid need acc) [b] = (.body ty fl sid need (acc ++ [b]), []) := by
        simp [rFeed, rStep, rByte, hne]
      rw [h1]
      have := ih (acc ++ [b]) (by simp) (by simp only [List.length_append, List.length_cons, List.length_nil] at hlen ⊢; omega)
      simp only [this, List.nil_append, List.append_assoc, List.singleton_append]

theorem rFeed_hdr9 (a b c d e f g h i : Nat) :
    rFeed (.hdr []) [a, b, c, d, e, f, g, h, i] =
      if a * 65536 + b * 256 + c = 0 then
        (.hdr [], [⟨d, e, (f % 128) * 16777216 + g * 65536 + h * 256 + i, []⟩])
      else (.body d e ((f % 128) * 16777216 + g * 65536 + h * 256 + i) (a * 65536 + b * 256 + c) [], []) := by
  simp only [rFeed, rStep, rByte, hdrDone, Consts.h2FrameHeaderSize, List.foldl_cons, List.foldl_nil, List.length_nil,
    List.length_cons, List.nil_append, List.cons_append, Nat.reduceAdd, Nat.reduceEqDiff, if_false, if_true]
  split <;> simp_all

theorem len24 (n : Nat) (h : n < 16777216) : n / 65536 % 256 * 65536 + n / 256 % 256 * 256 + n % 256 = n := by omega
theorem sid31 (n : Nat) (h : n < 2147483648) :
    n / 16777216 % 256 % 128 * 16777216 + n / 65536 % 256 * 65536 + n / 256 % 256 * 256 + n % 256 = n := by omega

theorem rFeed_frame (f : RFrame) (hw : WF f) : rFeed (.hdr []) (encodeFrame f) = (.hdr [], [f]) := by
  obtain ⟨h1, h2, h3, h4⟩ := hw
  have hlen := len24 f.payload.length h1
  have hsid := sid31 f.sid h4
  unfold encodeFrame
  rw [rFeed_append, rFeed_hdr9, hlen, hsid]
  by_cases hp : f.payload = []
  · have h0 : f.payload.length = 0 := by simp [hp]
    simp only [h0, if_true]
    cases f with
    | mk ty fl sid payload =>
      simp only at hp
      subst hp
      rfl
  · have hpos : f.payload.length ≠ 0 := by simpa using hp
    simp only [hpos, if_false]
    simp only [rFeed_body f.ty f.flags f.sid f.payload.length f.payload [] hp (by simp), List.nil_append]

theorem rFeed_frames : ∀ (fs : List RFrame), (∀ f ∈ fs, WF f) →
    rFeed (.hdr []) (fs.map encodeFrame).flatten = (.hdr [], fs) := by
  intro fs
  induction fs with
  | nil => intro _; rfl
  | cons f t ih =>
    intro h
    simp only [List.map_cons, List.flatten_cons]
    rw [rFeed_append, rFeed_frame f (h f (List.mem_cons_self ..))]
    simp only [ih (fun x hx => h x (List.mem_cons_of_mem _ hx)), List.singleton_append]

/-! ### what the peer sees of one stream -/

theorem rEvents_cons (sid : Nat) (f : RFrame) (t : List RFrame) : rEvents sid (f :: t) = rEvents sid [f] ++ rEvents sid t := by
  simp [rEvents]

theorem rEvents_merge (sid : Nat) {C D M : List RFrame} (h : Merge C D M) (hs : ∀ c ∈ C, rEvents sid [c] = []) :
    rEvents sid M = rEvents sid D := by
  induction h with
  | nil => rfl
  | left x _ ih =>
    rw [rEvents_cons, hs x (List.mem_cons_self ..), List.nil_append]
    exact ih (fun c hc => hs c (List.mem_cons_of_mem _ hc))
  | right x _ ih =>
    rw [rEvents_cons, ih hs, ← rEvents_cons]

/-- a converter frame as the reader's record -/
def toR (f : Frame) : RFrame := ⟨f.ty, f.flags, f.sid, f.payload⟩

theorem rEvents_toR (sid : Nat) : ∀ (fs : List Frame), (∀ f ∈ fs, f.sid = sid) → rEvents sid (fs.map toR) = events fs := by
  intro fs
  induction fs with
  | nil => intro _; rfl
  | cons f t ih =>
    intro h
    rw [List.map_cons, rEvents_cons, ih (fun x hx => h x (List.mem_cons_of_mem _ hx))]
    have hf := h f (List.mem_cons_self ..)
    have hflag : (f.flags &&& flES ≠ 0) ↔ f.flags % 2 = 1 := by
      have : flES = 1 := by decide
      rw [this, Nat.and_one_is_mod]; omega
    simp only [events, List.flatMap_cons, frameEvents, rEvents, toR, hf, if_true, List.flatMap_nil, List.append_nil,
      tyData, tyHeaders, hflag]
    first | rfl | congr 1

/-! ### converter frames fit the 9-byte header -/

macro "small_frame" : tactic =>
  `(tactic| (refine ⟨?_, ?_⟩ <;> dsimp only [rstFrame, dataFrame] <;> decide))

theorem contFrames_small (sid : Nat) : ∀ (cs : List Bytes), ∀ f ∈ contFrames sid cs, f.ty < 256 ∧ f.flags < 256
  | [] => by simp [contFrames]
  | [c] => by
    intro f hf
    simp only [contFrames, List.mem_singleton] at hf
    subst hf; small_frame
  | c :: d :: cs => by
    intro f hf
    simp only [contFrames, List.mem_cons] at hf
    rcases hf with rfl | hf
    · small_frame
    · exact contFrames_small sid (d :: cs) f hf

theorem headerFrames_small (sid : Nat) (es : Bool) : ∀ (cs : List Bytes), ∀ f ∈ headerFrames sid es cs, f.ty < 256 ∧ f.flags < 256
  | [] => by simp [headerFrames]
  | [c] => by
    intro f hf
    simp only [headerFrames, List.mem_singleton] at hf
    subst hf; cases es <;> small_frame
  | c :: d :: cs => by
    intro f hf
    simp only [headerFrames, List.mem_cons] at hf
    rcases hf with rfl | hf
    · cases es <;> small_frame
    · exact contFrames_small sid (d :: cs) f hf

theorem call_small (c : Conv) (b : Block) (rest : List Block) : ∀ f ∈ (call c b rest).frames, f.ty < 256 ∧ f.flags < 256 := by
  cases b with
  | chunk d =>
    simp only [call, callChunk]
    intro f hf
    split at hf
    · simp only [List.mem_singleton] at hf; subst hf; small_frame
    · split at hf
      · simp only [List.mem_singleton] at hf; subst hf; small_frame
      · simp at hf
  | flags eh es =>
    simp only [call, callFlags]
    intro f hf
    simp only [List.mem_append] at hf
    rcases hf with hf | hf
    · cases eh
      · simp at hf
      · by_cases ho : c.out.isEmpty
        · simp [ho] at hf
        · by_cases hl : c.out.length ≤ c.mfs
          · simp [ho, hl] at hf; subst hf; cases es <;> small_frame
          · simp [ho, hl] at hf; exact headerFrames_small c.sid es _ f hf
    · simp at hf
      obtain ⟨_, rfl⟩ := hf
      small_frame
  | hdr enc => simp only [call, callHdr]; split <;> (try split) <;> simp
  | chunkHeader => simp [call]

theorem prepare_small (c : Conv) (k : KState) : ∀ f ∈ (prepare c k).2.1, f.ty < 256 ∧ f.flags < 256 := by
  have hl := prepareLoop_frames (fun x => x.ty < 256 ∧ x.flags < 256) c.mfs c.sid
    (fun c' b rest _ _ x hx => call_small c' b rest x hx)
    (fuelOf k.blocks) c k.blocks [] rfl rfl (by simp)
  unfold prepare finalize
  intro f hf
  split at hf
  · simp at hf; subst hf; small_frame
  · split at hf
    · rcases List.mem_append.mp hf with h | h
      · exact hl f h
      · simp at h; subst h; small_frame
    · exact hl f hf

/-- every frame a schedule of passes produces can be carried by the 9-byte frame
    header, as long as the peer's max frame sizes are legal (< 2^24) and the
    stream id fits 31 bits -/
theorem passes_wf (sid : Nat) (hsid : sid < 2 ^ 31) : ∀ (sched : List (Nat × Int × Bool)) (k : KState),
    (∀ p ∈ sched, p.1 < 2 ^ 24) → ∀ f ∈ (passes sid k sched).1, WF (toR f) ∧ f.sid = sid := by
  intro sched
  induction sched with
  | nil => intro k _ f hf; simp [passes] at hf
  | cons p ps ih =>
    intro k hm f hf
    obtain ⟨m, w, i⟩ := p
    simp only [passes, List.mem_append] at hf
    rcases hf with hf | hf
    · have h1 := prepare_small _ k f hf
      have h2 := prepare_sid _ k f hf
      have hm' : m < 2 ^ 24 := hm (m, w, i) (List.mem_cons_self ..)
      refine ⟨⟨?_, h1.1, h1.2, by rw [toR]; simp only; rw [h2]; exact hsid⟩, h2⟩
      by_cases hr : f.ty = tyRst
      · have := prepare_rst_len _ k f hf hr
        simp only [toR]; omega
      · have := prepare_frame_size _ k f hf hr
        simp only [toR] at this ⊢; omega
    · exact ih _ (fun q hq => hm q (List.mem_cons_of_mem _ hq)) f hf

/-- a wire byte as a writer token -/
def wire (f : RFrame) : List Tok := (encodeFrame f).map fun b => (b, 0)

def bytesOf (ts : List Tok) : Bytes := ts.map (·.1)

theorem bytesOf_wire (fs : List RFrame) : bytesOf (fs.map wire).flatten = (fs.map encodeFrame).flatten := by
  induction fs with
  | nil => rfl
  | cons f t ih =>
    simp only [List.map_cons, List.flatten_cons, bytesOf, List.map_append] at ih ⊢
    rw [ih]
    simp [wire, Function.comp_def]

/-- every frame produced by a pass fits the 9-byte header: the types and flags
    are the protocol constants, the payload is bounded by `max_frame_size` -/
theorem socket_stream (sid : Nat) (D C : List RFrame) (ops : List WOp)
    (hdata : dataOf ops = D.map wire) (hctrl : ctrlOf ops = C.map wire) :
    ∃ sc sd M, Merge sc sd M ∧ (∃ rc, sc ++ rc = C) ∧ (∃ rd, sd ++ rd = D) ∧
      bytesOf ((wrun true Wr.init ops).out ++ (wrun true Wr.init ops).cur) = (M.map encodeFrame).flatten ∧
      ((wrun true Wr.init ops).ctrl = [] → sc = C) ∧ ((wrun true Wr.init ops).data = [] → sd = D) := by
  have hinv := wrun_inv ops Wr.init (by simp [WrInv, Wr.init])
  have hord := wrun_ord true ops Wr.init [] [] ⟨[], [], by simpa [Wr.init] using Merge.nil, rfl, rfl⟩
  simp only [List.nil_append] at hord
  obtain ⟨sc, sd, hm, h1, h2⟩ := hord
  rw [hctrl] at h1
  rw [hdata] at h2
  -- the started frames are images of frames of C and D
  obtain ⟨sc', rc', hsc, hrc, hC⟩ : ∃ sc' rc', sc = sc'.map wire ∧ (wrun true Wr.init ops).ctrl = rc'.map wire ∧ sc' ++ rc' = C := by
    refine ⟨C.take sc.length, C.drop sc.length, ?_, ?_, List.take_append_drop _ _⟩
    · have := congrArg (List.take sc.length) h1
      simpa [List.map_take] using this
    · have := congrArg (List.drop sc.length) h1
      simpa [List.map_drop] using this
  obtain ⟨sd', rd', hsd, hrd, hD⟩ : ∃ sd' rd', sd = sd'.map wire ∧ (wrun true Wr.init ops).data = rd'.map wire ∧ sd' ++ rd' = D := by
    refine ⟨D.take sd.length, D.drop sd.length, ?_, ?_, List.take_append_drop _ _⟩
    · have := congrArg (List.take sd.length) h2
      simpa [List.map_take] using this
    · have := congrArg (List.drop sd.length) h2
      simpa [List.map_drop] using this
  obtain ⟨M, hM, hh⟩ := merge_unmap wire hm sc' sd' hsc hsd
  refine ⟨sc', sd', M, hM, ⟨rc', hC⟩, ⟨rd', hD⟩, ?_, ?_, ?_⟩
  · unfold WrInv at hinv
    rw [hinv, hh, bytesOf_wire]
  · intro he
    rw [he] at hrc
    have : rc' = [] := List.map_eq_nil_iff.mp hrc.symm
    rw [this, List.append_nil] at hC; exact hC
  · intro he
    rw [he] at hrd
    have : rd' = [] := List.map_eq_nil_iff.mp hrd.symm
    rw [this, List.append_nil] at hD; exact hD

theorem merge_mem {α : Type} {a b m : List α} (h : Merge a b m) : ∀ x ∈ m, x ∈ a ∨ x ∈ b := by
  induction h with
  | nil => intro x hx; simp at hx
  | left y _ ih =>
    intro x hx
    rcases List.mem_cons.mp hx with rfl | hx
    · exact Or.inl (List.mem_cons_self ..)
    · exact (ih x hx).imp (List.mem_cons_of_mem _) id
  | right y _ ih =>
    intro x hx
    rcases List.mem_cons.mp hx with rfl | hx
    · exact Or.inr (List.mem_cons_self ..)
    · exact (ih x hx).imp id (List.mem_cons_of_mem _)

theorem socket_stream_read (sid : Nat) (hsid : sid < 2 ^ 31) (k : KState) (sched : List (Nat × Int × Bool))
    (C : List RFrame) (ops : List WOp) (segs : List Bytes)
    (hd : k.dead = false) (hend : (passes sid k sched).2.dead = false) (hmfs : ∀ p ∈ sched, p.1 < 2 ^ 24)
    (hdata : dataOf ops = ((passes sid k sched).1.map toR).map wire) (hctrl : ctrlOf ops = C.map wire)
    (hwfC : ∀ f ∈ C, WF f) (hsilent : ∀ f ∈ C, rEvents sid [f] = [])
    (hflushed : (wrun true Wr.init ops).cur = [] ∧ (wrun true Wr.init ops).ctrl = [] ∧ (wrun true Wr.init ops).data = [])
    (hsegs : segs.flatten = bytesOf (wrun true Wr.init ops).out) :
    ∃ M, Merge C ((passes sid k sched).1.map toR) M ∧ rFeedAll (.hdr []) segs = (.hdr [], M) ∧
      rEvents sid M ++ eventsB (passes sid k sched).2.blocks = eventsB k.blocks := by
  obtain ⟨sc, sd, M, hM, _, _, hbytes, hc, hdd⟩ := socket_stream sid _ C ops hdata hctrl
  have e1 := hc hflushed.2.1
  have e2 := hdd hflushed.2.2
  subst e1; subst e2
  rw [hflushed.1, List.append_nil] at hbytes
  have hwf := passes_wf sid hsid sched k hmfs
  have hwfM : ∀ f ∈ M, WF f := by
    intro f hf
    rcases merge_mem hM f hf with h | h
    · exact hwfC f h
    · obtain ⟨g, hg, rfl⟩ := List.mem_map.mp h
      exact (hwf g hg).1
  refine ⟨M, hM, ?_, ?_⟩
  · rw [C01_segmentation_independent_pf, hsegs, hbytes, rFeed_frames M hwfM]
  · rw [rEvents_merge sid hM hsilent, rEvents_toR sid _ (fun f hf => (hwf f hf).2)]
    exact C01_data_concat_pf sid sched k hd hend

end Sozu.H1Body
